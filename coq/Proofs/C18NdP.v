(* C18 -- proofs about n-dimensional chunked evaluation (Model/C18Nd.v):
   ravel/unravel are inverse, blocks partition the index space, blockwise
   evaluation of element-wise and outer expressions equals whole evaluation
   for every chunk size k >= 1 and every pair of shapes. *)
From Coq Require Import List Arith Lia.
From Verif Require Import NdIndex C18Nd.
Import ListNotations.

(* ---------------------------------------------------------------- ravel / unravel *)
Lemma valid_length s idx : valid s idx -> length idx = length s.
Proof. intros H; induction H; simpl; congruence. Qed.

Lemma valid_size_pos s idx : valid s idx -> 0 < size s.
Proof.
  intros H; induction H as [|i n idx s Hi _ IH]; simpl; [lia|].
  apply Nat.mul_pos_pos; lia.
Qed.

Lemma unravel_valid s n : n < size s -> valid s (unravel s n).
Proof.
  revert n; induction s as [|m s IH]; intros n Hn; simpl in *; [constructor|].
  assert (Hm : 0 < m) by (destruct m; simpl in *; lia).
  assert (Hs : 0 < size s) by (destruct (size s); lia).
  constructor.
  - apply Nat.mod_upper_bound; lia.
  - apply IH. apply Nat.mod_upper_bound; lia.
Qed.

Lemma ravel_unravel s n : n < size s -> ravel s (unravel s n) = n.
Proof.
  revert n; induction s as [|m s IH]; intros n Hn; simpl in *; [lia|].
  assert (Hs : 0 < size s) by (destruct (size s); lia).
  rewrite IH by (apply Nat.mod_upper_bound; lia).
  rewrite Nat.mod_small.
  - rewrite (Nat.div_mod n (size s)) at 3 by lia. lia.
  - apply Nat.div_lt_upper_bound; lia.
Qed.

Lemma unravel_ravel s idx : valid s idx -> unravel s (ravel s idx) = idx.
Proof.
  intros H; induction H as [|i n idx s Hi Hrest IH]; simpl; [reflexivity|].
  assert (Hr : ravel s idx < size s) by (apply ravel_lt; assumption).
  assert (Hs : size s <> 0) by lia.
  f_equal.
  - rewrite Nat.div_add_l by assumption. rewrite (Nat.div_small (ravel s idx)) by assumption.
    rewrite Nat.add_0_r. apply Nat.mod_small; assumption.
  - rewrite Nat.add_comm, Nat.mod_add by assumption. rewrite Nat.mod_small by assumption. exact IH.
Qed.

(* ---------------------------------------------------------------- tab / aget *)
Section Tab.
Context {A : Type}.

Lemma tab_length s (f : list nat -> A) : length (tab s f) = size s.
Proof. unfold tab. rewrite map_length, seq_length. reflexivity. Qed.

Lemma tab_nth s (f : list nat -> A) idx d : valid s idx -> nth (ravel s idx) (tab s f) d = f idx.
Proof.
  intros H. unfold tab.
  assert (Hr : ravel s idx < size s) by (apply ravel_lt; assumption).
  rewrite (nth_indep _ d (f (unravel s 0))) by (rewrite map_length, seq_length; assumption).
  rewrite (map_nth (fun n => f (unravel s n)) (seq 0 (size s)) 0).
  rewrite seq_nth by assumption. simpl. rewrite unravel_ravel by assumption. reflexivity.
Qed.

Lemma aget_tab s (f : list nat -> A) idx d : valid s idx -> aget d s (tab s f) idx = f idx.
Proof. apply tab_nth. Qed.

Lemma tab_ext s (f g : list nat -> A) :
  (forall idx, valid s idx -> f idx = g idx) -> tab s f = tab s g.
Proof.
  intros H. unfold tab. apply map_ext_in. intros n Hn. apply in_seq in Hn.
  apply H. apply unravel_valid. lia.
Qed.

Lemma map_nth_seq (xs : list A) d : map (fun n => nth n xs d) (seq 0 (length xs)) = xs.
Proof.
  induction xs as [|x xs IH]; simpl; [reflexivity|].
  f_equal. rewrite <- seq_shift, map_map. exact IH.
Qed.

(* every list of the right length is the table of its elements: two shaped
   lists are equal as soon as they agree at every valid multi-index *)
Lemma tab_aget s (xs : list A) d : length xs = size s -> tab s (aget d s xs) = xs.
Proof.
  intros H. unfold tab, aget. rewrite <- H.
  rewrite <- (map_nth_seq xs d) at 2. apply map_ext_in. intros n Hn. apply in_seq in Hn.
  rewrite ravel_unravel by lia. reflexivity.
Qed.

Lemma shaped_ext s (xs ys : list A) d :
  length xs = size s -> length ys = size s ->
  (forall idx, valid s idx -> aget d s xs idx = aget d s ys idx) -> xs = ys.
Proof.
  intros Hx Hy H. rewrite <- (tab_aget s xs d Hx), <- (tab_aget s ys d Hy). apply tab_ext, H.
Qed.
End Tab.

Lemma map_tab {A B} (g : A -> B) s (f : list nat -> A) : map g (tab s f) = tab s (fun idx => g (f idx)).
Proof. unfold tab. rewrite map_map. reflexivity. Qed.

(* whole-array evaluation of an element-wise kernel equals element-by-element
   evaluation, at every multi-index of every shape *)
Lemma aget_map {A B} (g : A -> B) d s xs idx : aget (g d) s (map g xs) idx = g (aget d s xs idx).
Proof. unfold aget. apply map_nth. Qed.

(* the same, whatever the default elements *)
Lemma aget_map' {A B} (g : A -> B) d d' s xs idx :
  valid s idx -> length xs = size s -> aget d' s (map g xs) idx = g (aget d s xs idx).
Proof.
  intros Hv Hl. unfold aget. rewrite (nth_indep _ d' (g d)).
  - apply map_nth.
  - rewrite map_length, Hl. apply ravel_lt; assumption.
Qed.

(* ---------------------------------------------------------------- blocks partition the indices *)
Lemma zip_with_app {A B C} (f : A -> B -> C) xs1 xs2 ys1 ys2 :
  length xs1 = length ys1 ->
  zip_with f (xs1 ++ xs2) (ys1 ++ ys2) = zip_with f xs1 ys1 ++ zip_with f xs2 ys2.
Proof.
  revert ys1; induction xs1 as [|x xs1 IH]; intros [|y ys1] H; simpl in *; try discriminate; [reflexivity|].
  f_equal. apply IH. lia.
Qed.

Lemma blk_cover k s idx :
  0 < k -> valid s idx ->
  valid (grid k s) (blk_of k idx) /\
  valid (blk_shape k s (blk_of k idx)) (off_of k idx) /\
  glob k (blk_of k idx) (off_of k idx) = idx.
Proof.
  intros Hk H; induction H as [|i n idx s Hi Hrest [IH1 [IH2 IH3]]]; simpl.
  - repeat split; constructor.
  - assert (Hdm : i = k * (i / k) + i mod k) by (apply Nat.div_mod; lia).
    assert (Hm : i mod k < k) by (apply Nat.mod_upper_bound; lia).
    repeat split.
    + constructor; [|exact IH1]. unfold cdiv.
      apply Nat.div_lt_upper_bound; [lia|].
      apply Nat.lt_le_trans with (k * (i / k) + k); [|idtac].
      * lia.
      * assert (k * ((n + k - 1) / k) + (n + k - 1) mod k = n + k - 1) by (symmetry; apply Nat.div_mod; lia).
        assert ((n + k - 1) mod k < k) by (apply Nat.mod_upper_bound; lia).
        assert (i / k <= (n + k - 1) / k) by (apply Nat.div_le_mono; lia).
        (* i/k < cdiv: from i < n *)
        destruct (Nat.lt_ge_cases (i / k) ((n + k - 1) / k)) as [Hlt|Hge].
        -- assert (k * (i / k) + k <= k * ((n + k - 1) / k)); [|lia].
           replace (k * (i / k) + k) with (k * S (i / k)) by lia. apply Nat.mul_le_mono_l. lia.
        -- assert (Heq : i / k = (n + k - 1) / k) by lia. rewrite Heq in *. lia.
    + constructor; [|exact IH2]. unfold blk_extent. apply Nat.min_glb_lt; lia.
    + unfold glob in *. simpl. f_equal; [lia|exact IH3].
Qed.

(* ... uniquely: an offset valid inside block b addresses a global index whose
   block is b and whose offset is that offset *)
Lemma blk_unique k s b j :
  0 < k -> length b = length s -> valid (blk_shape k s b) j ->
  blk_of k (glob k b j) = b /\ off_of k (glob k b j) = j /\ valid s (glob k b j).
Proof.
  intros Hk. revert b j; induction s as [|n s IH]; intros [|bi b] j Hl Hv; simpl in *; try discriminate.
  - inversion Hv; subst. repeat split; constructor.
  - inversion Hv as [|ji e j' s' Hj Hrest]; subst. unfold blk_extent in Hj.
    assert (Hjk : ji < k) by lia. assert (Hjn : ji < n - bi * k) by lia.
    destruct (IH b j') as [I1 [I2 I3]]; [lia|assumption|].
    unfold glob in *; simpl. repeat split.
    + f_equal; [|exact I1]. rewrite Nat.div_add_l by lia. rewrite Nat.div_small by assumption. lia.
    + f_equal; [|exact I2]. rewrite Nat.add_comm, Nat.mod_add by lia. apply Nat.mod_small; assumption.
    + constructor; [lia|exact I3].
Qed.

Lemma blk_of_length k idx : length (blk_of k idx) = length idx.
Proof. apply map_length. Qed.
Lemma off_of_length k idx : length (off_of k idx) = length idx.
Proof. apply map_length. Qed.

(* a chunk size at least as large as every axis gives one block: the whole array *)
Lemma blk_whole k s idx : valid s idx -> Forall (fun n => n <= k) s -> 0 < k ->
  blk_of k idx = repeat 0 (length s) /\ off_of k idx = idx.
Proof.
  intros H; induction H as [|i n idx s Hi Hrest IH]; intros Hs Hk; simpl; [split; reflexivity|].
  inversion Hs; subst. destruct (IH H2 Hk) as [I1 I2]. split; f_equal; try assumption.
  - apply Nat.div_small; lia.
  - apply Nat.mod_small; lia.
Qed.

(* ---------------------------------------------------------------- blockwise = whole *)
Section BlockOne.
Context {A : Type}.

Lemma block_length (d : A) k s xs b : length (block d k s xs b) = size (blk_shape k s b).
Proof. apply tab_length. Qed.

Lemma block_get (d : A) k s xs idx :
  0 < k -> valid s idx ->
  aget d (blk_shape k s (blk_of k idx)) (block d k s xs (blk_of k idx)) (off_of k idx) = aget d s xs idx.
Proof.
  intros Hk H. destruct (blk_cover k s idx Hk H) as [_ [H2 H3]].
  unfold block. rewrite aget_tab by assumption. rewrite H3. reflexivity.
Qed.

(* storing all blocks of an array gives the array back *)
Theorem assemble_blocks (d : A) k s xs :
  0 < k -> length xs = size s -> assemble d k s (block d k s xs) = xs.
Proof.
  intros Hk Hl. unfold assemble. apply (shaped_ext s _ _ d); [apply tab_length|exact Hl|].
  intros idx H. rewrite aget_tab by assumption. apply block_get; assumption.
Qed.

End BlockOne.

Section Blocked.
Context {A B C : Type}.

Theorem blocked_map_eq (da : A) (f : A -> B) k s xs :
  0 < k -> length xs = size s -> blocked_map da (f da) f k s xs = map f xs.
Proof.
  intros Hk Hl. unfold blocked_map, assemble.
  apply (shaped_ext s _ _ (f da)); [apply tab_length|rewrite map_length; exact Hl|].
  intros idx H. rewrite aget_tab by assumption. rewrite !aget_map. f_equal. apply block_get; assumption.
Qed.

Lemma valid_app_inv sA sB idx :
  valid (sA ++ sB) idx ->
  valid sA (firstn (length sA) idx) /\ valid sB (skipn (length sA) idx) /\
  idx = firstn (length sA) idx ++ skipn (length sA) idx.
Proof.
  intros H. unfold valid in H. apply Forall2_app_inv_r in H.
  destruct H as [i [j [Hi [Hj E]]]]. subst idx.
  assert (L : length i = length sA) by (apply valid_length; exact Hi).
  rewrite <- L, firstn_app, skipn_app, firstn_all, skipn_all, Nat.sub_diag. simpl.
  rewrite app_nil_r. repeat split; assumption.
Qed.

Lemma outer_get (f : A -> B -> C) da db dc sA sB xs ys i j :
  length xs = size sA -> length ys = size sB -> valid sA i -> valid sB j ->
  aget dc (sA ++ sB) (outer f xs ys) (i ++ j) = f (aget da sA xs i) (aget db sB ys j).
Proof. intros. unfold aget. apply outer_shaped; assumption. Qed.

Theorem blocked_outer_eq (f : A -> B -> C) da db dc k sA sB xs ys :
  0 < k -> length xs = size sA -> length ys = size sB ->
  blocked_outer da db dc f k sA sB xs ys = outer f xs ys.
Proof.
  intros Hk Hx Hy. unfold blocked_outer, assemble.
  assert (Hl : length (outer f xs ys) = size (sA ++ sB))
    by (rewrite outer_length, size_app; congruence).
  apply (shaped_ext (sA ++ sB) _ _ dc); [apply tab_length|exact Hl|].
  intros idx H. rewrite aget_tab by assumption.
  destruct (valid_app_inv sA sB idx H) as [Hi [Hj E]].
  set (i := firstn (length sA) idx) in *. set (j := skipn (length sA) idx) in *.
  rewrite E. clearbody i j. clear E H idx.
  assert (Li : length i = length sA) by (apply valid_length; exact Hi).
  unfold blk_of, off_of. rewrite !map_app. fold (blk_of k i) (blk_of k j) (off_of k i) (off_of k j).
  assert (Lb : length (blk_of k i) = length sA) by (rewrite blk_of_length; exact Li).
  rewrite <- Lb at 1 2. rewrite firstn_app, skipn_app, firstn_all, skipn_all, Nat.sub_diag. simpl.
  rewrite app_nil_r.
  unfold blk_shape. rewrite zip_with_app by (symmetry; exact Lb). fold (blk_shape k sA (blk_of k i)) (blk_shape k sB (blk_of k j)).
  destruct (blk_cover k sA i Hk Hi) as [_ [Ha2 _]]. destruct (blk_cover k sB j Hk Hj) as [_ [Hb2 _]].
  rewrite (outer_get f da db dc) by (try apply block_length; assumption).
  rewrite (outer_get f da db dc) by assumption.
  rewrite !block_get by assumption. reflexivity.
Qed.

Theorem blocked_outer_layout (f : A -> B -> C) da db dc k sA sB xs ys i j :
  0 < k -> length xs = size sA -> length ys = size sB -> valid sA i -> valid sB j ->
  aget dc (sA ++ sB) (blocked_outer da db dc f k sA sB xs ys) (i ++ j)
  = f (aget da sA xs i) (aget db sB ys j)
  /\ length (blocked_outer da db dc f k sA sB xs ys) = size (sA ++ sB).
Proof.
  intros. rewrite blocked_outer_eq by assumption. split.
  - apply outer_get; assumption.
  - rewrite outer_length, size_app; congruence.
Qed.

(* one-dimensional list-of-chunks form *)
Theorem chunked_outer_eq (f : A -> B -> C) k k' xs ys :
  0 < k -> 0 < k' -> chunked_outer f k k' xs ys = outer f xs ys.
Proof.
  intros Hk Hk'. unfold chunked_outer, outer.
  rewrite <- (concat_chunks k xs Hk) at 2.
  induction (chunks k xs) as [|ca l IH]; simpl; [reflexivity|].
  rewrite flat_map_app, <- IH. f_equal.
  apply flat_map_ext. intros x. apply chunked_map. exact Hk'.
Qed.
End Blocked.

(* chunk-size independence, stated directly *)
Corollary blocked_outer_chunk_independent {A B C} (f : A -> B -> C) da db dc k k' sA sB xs ys :
  0 < k -> 0 < k' -> length xs = size sA -> length ys = size sB ->
  blocked_outer da db dc f k sA sB xs ys = blocked_outer da db dc f k' sA sB xs ys.
Proof. intros. rewrite !blocked_outer_eq by assumption. reflexivity. Qed.

(* ---------------------------------------------------------------- transpose *)
(* swapping two groups of axes: order = [nB .. nB+nA-1] ++ [0 .. nB-1] applied
   to an array of shape sB ++ sA gives shape sA ++ sB with
   result[i ++ j] = source[j ++ i] *)
Definition swap_order (nA nB : nat) : list nat := seq nB nA ++ seq 0 nB.

Lemma nth_app_r {X} (l l' : list X) n d : nth (length l + n) (l ++ l') d = nth n l' d.
Proof. rewrite app_nth2 by lia. f_equal. lia. Qed.

Lemma seq_add_map m n : seq m n = map (fun x => m + x) (seq 0 n).
Proof.
  revert m; induction n as [|n IH]; intros m; simpl; [reflexivity|].
  f_equal; [lia|]. rewrite <- (seq_shift n 0), map_map, (IH (S m)). apply map_ext. intros; lia.
Qed.

Lemma map_nth_seq_off {X} (l0 l : list X) d :
  map (fun a => nth a (l0 ++ l) d) (seq (length l0) (length l)) = l.
Proof.
  rewrite seq_add_map, map_map.
  transitivity (map (fun n => nth n l d) (seq 0 (length l))); [|apply map_nth_seq].
  apply map_ext. intros a. apply nth_app_r.
Qed.

Lemma tr_shape_swap sA sB : tr_shape (sB ++ sA) (swap_order (length sA) (length sB)) = sA ++ sB.
Proof.
  unfold tr_shape, swap_order. rewrite map_app. f_equal.
  - apply map_nth_seq_off.
  - transitivity (map (fun n => nth n sB 0) (seq 0 (length sB))); [|apply map_nth_seq].
    apply map_ext_in. intros a Ha. apply in_seq in Ha. apply app_nth1. lia.
Qed.

Lemma find_pos_seq_app a m n l : m <= a < m + n -> find_pos a (seq m n ++ l) = a - m.
Proof.
  revert m; induction n as [|n IH]; intros m H; simpl; [lia|].
  destruct (Nat.eqb_spec m a); [lia|]. rewrite IH by lia. lia.
Qed.

Lemma find_pos_seq a m n : m <= a < m + n -> find_pos a (seq m n) = a - m.
Proof. intros H. rewrite <- (app_nil_r (seq m n)). apply find_pos_seq_app; exact H. Qed.

Lemma find_pos_skip a l l' : ~ In a l -> find_pos a (l ++ l') = length l + find_pos a l'.
Proof.
  induction l as [|x l IH]; intros H; simpl in *; [reflexivity|].
  destruct (Nat.eqb_spec x a); [exfalso; auto|]. rewrite IH by tauto. reflexivity.
Qed.

Lemma tr_src_swap (i j : list nat) :
  tr_src (length j + length i) (swap_order (length i) (length j)) (i ++ j) = j ++ i.
Proof.
  unfold tr_src. remember (swap_order (length i) (length j)) as ord eqn:E.
  rewrite seq_app, map_app. f_equal.
  - (* source axes 0..nB-1 are found after the first nA entries of order *)
    transitivity (map (fun n => nth n j 0) (seq 0 (length j))); [|apply map_nth_seq].
    apply map_ext_in. intros a Ha. apply in_seq in Ha. subst ord. unfold swap_order.
    rewrite find_pos_skip by (rewrite in_seq; lia).
    rewrite seq_length, find_pos_seq by lia. rewrite Nat.sub_0_r. apply nth_app_r.
  - simpl. rewrite seq_add_map, map_map.
    transitivity (map (fun n => nth n i 0) (seq 0 (length i))); [|apply map_nth_seq].
    apply map_ext_in. intros a Ha. apply in_seq in Ha. subst ord. unfold swap_order.
    rewrite find_pos_seq_app by lia. replace (length j + a - length j) with a by lia.
    apply app_nth1. lia.
Qed.

Theorem transpose_swap {A} (d : A) sA sB (xs : list A) i j :
  valid sA i -> valid sB j ->
  aget d (sA ++ sB) (transpose_nd d (sB ++ sA) xs (swap_order (length sA) (length sB))) (i ++ j)
  = aget d (sB ++ sA) xs (j ++ i).
Proof.
  intros Hi Hj. unfold transpose_nd. rewrite tr_shape_swap.
  rewrite aget_tab by (apply valid_app; assumption).
  rewrite app_length, <- (valid_length sA i Hi), <- (valid_length sB j Hj).
  rewrite tr_src_swap. reflexivity.
Qed.
