(* C13 -- lemmas about the crystal-map part of the HDF5 model (Model/C13Map.v). *)
From Coq Require Import ZArith List Bool String Ascii Lia Permutation Sorted FinFun.
From Verif Require Import Scalar Quat C13Store C13Map C13StoreP.
Import ListNotations.
Local Open Scope Z_scope.

Lemma pstr_eqb_eq a b : pstr_eqb a b = true <-> a = b.
Proof.
  revert b. induction a as [|x a IH]; destruct b as [|y b]; simpl; split; try discriminate; try reflexivity.
  - intros H. apply andb_prop in H. destruct H as [H1 H2]. apply Z.eqb_eq in H1. apply IH in H2. congruence.
  - intros [= -> ->]. rewrite Z.eqb_refl. simpl. now apply IH.
Qed.
Lemma pstr_eqb_refl a : pstr_eqb a a = true.
Proof. now apply pstr_eqb_eq. Qed.

(* ------------------------------------------------- symmetry of a phase *)
(* decidable form of ustr (Unicode scalar values, no NUL) *)
Fixpoint ustrb (s : pystr) : bool :=
  match s with
  | [] => true
  | c :: r => (0 <? c) && (c <? 1114112) && negb ((55296 <=? c) && (c <? 57344)) && ustrb r
  end.
Lemma ustrb_sound s : ustrb s = true -> ustr s.
Proof.
  unfold ustr. induction s as [|c s IH]; [constructor|]. simpl. intros H. apply andb_prop in H. destruct H as [H H2].
  apply andb_prop in H. destruct H as [H Hs]. apply andb_prop in H. destruct H as [Ha Hb].
  apply Z.ltb_lt in Ha. apply Z.ltb_lt in Hb. apply negb_true_iff, andb_false_iff in Hs.
  constructor; [|exact (IH H2)]. split; [lia|]. destruct Hs as [Hs|Hs]; [apply Z.leb_gt in Hs|apply Z.ltb_ge in Hs]; lia.
Qed.

Definition not_none (g : pystr) : bool := negb (pstr_eqb g (s2p "None")).
(* decidable condition on the observable (space group, point group) of a phase
   under which the reader's Phase(...) rebuilds the same pair: with a space group
   the point group is the derived one (class invariant of Phase); without, the
   stored name must resolve to itself *)
Definition sym_ok (sg : option Z) (pg : option pystr) : bool :=
  match sg, pg with
  | Some n, Some g => sg_valid n && pstr_eqb g (sg2pg n)
  | None, Some g =>
      ustrb g && not_none g && match pg_resolve g with Some g' => pstr_eqb g g' | None => false end
  | None, None => true
  | Some _, None => false
  end.
(* the point group dict2phase passes to Phase(): none when there is a space group *)
Definition reader_pg (sg : option Z) (pg : option pystr) : option pystr :=
  match sg with Some _ => None | None => pg end.

(* all 230 space groups, the monoclinic ones (3..9, point groups named "2" and "m") included *)
Lemma sym_ok_spacegroups n : 1 <= n <= 230 -> sym_ok (Some n) (Some (sg2pg n)) = true.
Proof.
  intros H. unfold sym_ok, sg_valid. rewrite pstr_eqb_refl.
  replace (1 <=? n) with true by (symmetry; apply Z.leb_le; lia).
  replace (n <=? 230) with true by (symmetry; apply Z.leb_le; lia). reflexivity.
Qed.
(* all 38 named point groups of symmetry._groups, without a space group *)
Lemma sym_ok_pointgroups g : In g pg_names -> sym_ok None (Some (s2p g)) = true.
Proof.
  intros H. assert (A : forallb (fun g => sym_ok None (Some (s2p g))) pg_names = true) by (vm_compute; reflexivity).
  rewrite forallb_forall in A. auto.
Qed.

(* --------------------------------------------- id-sorted association lists *)
Section ZSort.
Context {A : Type}.
Implicit Types l : list (Z * A).

Lemma zinsert_perm kv l : Permutation (zinsert kv l) (kv :: l).
Proof.
  induction l as [|a l IH]; simpl; [reflexivity|].
  destruct (fst kv <=? fst a); [reflexivity|]. rewrite IH. apply perm_swap.
Qed.
Lemma sortz_perm l : Permutation (sortz l) l.
Proof. induction l as [|a l IH]; simpl; [reflexivity|]. rewrite zinsert_perm. now constructor. Qed.

Lemma zinsert_sorted kv l :
  StronglySorted Z.le (map fst l) -> StronglySorted Z.le (map fst (zinsert kv l)).
Proof.
  induction l as [|a l IH]; simpl; intros H; [repeat constructor|].
  inversion H as [|? ? Hs Hf]; subst.
  destruct (fst kv <=? fst a) eqn:E; simpl.
  - apply Z.leb_le in E. constructor; [exact H|]. constructor; [exact E|].
    eapply Forall_impl; [|exact Hf]. simpl. intros; lia.
  - apply Z.leb_gt in E. constructor; [apply IH, Hs|].
    assert (P : Permutation (map fst (zinsert kv l)) (fst kv :: map fst l))
      by (change (fst kv :: map fst l) with (map fst (kv :: l)); apply Permutation_map, zinsert_perm).
    rewrite Forall_forall. intros z Hz. apply (Permutation_in _ P) in Hz. destruct Hz as [<-|Hz]; [lia|].
    rewrite Forall_forall in Hf. auto.
Qed.
Lemma sortz_sorted l : StronglySorted Z.le (map fst (sortz l)).
Proof. induction l as [|a l IH]; simpl; [constructor|]. now apply zinsert_sorted. Qed.

Lemma in_key_eq (a b : Z * A) l : NoDup (map fst l) -> In a l -> In b l -> fst a = fst b -> a = b.
Proof.
  induction l as [|c l IH]; simpl; [tauto|]. intros Hnd Ha Hb E. inversion Hnd; subst.
  destruct Ha as [->|Ha], Hb as [->|Hb]; auto.
  - exfalso. apply H1. rewrite E. now apply in_map.
  - exfalso. apply H1. rewrite <- E. now apply in_map.
Qed.

(* two id-sorted lists with distinct ids that are permutations of each other are equal *)
Lemma sorted_perm_eq l1 l2 :
  StronglySorted Z.le (map fst l1) -> StronglySorted Z.le (map fst l2) -> NoDup (map fst l2) ->
  Permutation l1 l2 -> l1 = l2.
Proof.
  revert l2. induction l1 as [|a l1 IH]; intros l2 H1 H2 Hnd Hp.
  - apply Permutation_nil in Hp. now subst.
  - destruct l2 as [|b l2]; [apply Permutation_sym, Permutation_nil in Hp; discriminate|].
    simpl in H1, H2. inversion H1 as [|? ? Hs1 Hf1]; inversion H2 as [|? ? Hs2 Hf2]; subst.
    assert (Ha : In a (b :: l2)) by (eapply Permutation_in; [exact Hp|now left]).
    assert (Hb : In b (a :: l1)) by (eapply Permutation_in; [apply Permutation_sym; exact Hp|now left]).
    assert (E : fst a = fst b).
    { rewrite Forall_forall in Hf1, Hf2.
      assert (fst b <= fst a) by (destruct Ha as [->|Ha]; [lia|apply Hf2; now apply in_map]).
      assert (fst a <= fst b) by (destruct Hb as [->|Hb]; [lia|apply Hf1; now apply in_map]). lia. }
    assert (a = b) by (apply (in_key_eq a b (b :: l2)); auto; now left). subst b.
    f_equal. apply IH; auto.
    + now inversion Hnd.
    + eapply Permutation_cons_inv; exact Hp.
Qed.

Lemma lt_sorted_le (l : list Z) : StronglySorted Z.lt l -> StronglySorted Z.le l /\ NoDup l.
Proof.
  induction 1 as [|a l Hs [IH1 IH2] Hf]; [split; constructor|]. split.
  - constructor; [exact IH1|]. eapply Forall_impl; [|exact Hf]. simpl; intros; lia.
  - constructor; [|exact IH2]. rewrite Forall_forall in Hf. intros Hin. specialize (Hf _ Hin). lia.
Qed.

(* PhaseList's sort puts any permutation of an id-sorted list back into that list *)
Lemma sortz_of_perm l l' : StronglySorted Z.lt (map fst l') -> Permutation l l' -> sortz l = l'.
Proof.
  intros Hs Hp. destruct (lt_sorted_le _ Hs) as [Hle Hnd].
  apply sorted_perm_eq; auto; [apply sortz_sorted|]. rewrite sortz_perm. exact Hp.
Qed.
Lemma sortz_id l : StronglySorted Z.lt (map fst l) -> sortz l = l.
Proof. intros H. now apply sortz_of_perm. Qed.

Lemma combine_fst_snd l : combine (map fst l) (map snd l) = l.
Proof. induction l as [|[a b] l IH]; simpl; [reflexivity|]. now rewrite IH. Qed.
Lemma zremove_absent k l : ~ In k (map fst l) -> zremove k l = l.
Proof.
  unfold zremove. induction l as [|a l IH]; simpl; [reflexivity|]. intros H.
  destruct (fst a =? k) eqn:E; [apply Z.eqb_eq in E; tauto|]. simpl. rewrite IH; tauto.
Qed.
End ZSort.

(* np.unique returns a strictly increasing list *)
Lemma uinsert_sorted z l : StronglySorted Z.lt l -> StronglySorted Z.lt (uinsert z l) /\
  (forall y, In y (uinsert z l) -> y = z \/ In y l).
Proof.
  induction 1 as [|a l Hs [IH1 IH2] Hf]; simpl.
  - split; [repeat constructor|]. intros y [->|[]]; auto.
  - destruct (z <? a) eqn:E1.
    + apply Z.ltb_lt in E1. split.
      * constructor; [now constructor|]. constructor; [exact E1|]. eapply Forall_impl; [|exact Hf]. simpl; intros; lia.
      * intros y [->|H]; auto.
    + destruct (z =? a) eqn:E2.
      * split; [now constructor|]. intros y H; now right.
      * apply Z.ltb_ge in E1. apply Z.eqb_neq in E2. split.
        -- constructor; [exact IH1|]. rewrite Forall_forall. intros y Hy. destruct (IH2 y Hy) as [->|Hin]; [lia|].
           rewrite Forall_forall in Hf. auto.
        -- intros y [->|Hy]; [right; now left|]. destruct (IH2 y Hy); [auto | right; now right].
Qed.
Lemma np_unique_sorted l : StronglySorted Z.lt (np_unique l).
Proof. induction l as [|a l IH]; simpl; [constructor|]. now apply uinsert_sorted. Qed.

Section MapP.
Context {T : Type} (O : Ops T).
Variable ccanon : pystr -> pystr.
Variable restruct : structure (T:=T) -> structure (T:=T).
Variable fresh : list pystr -> nat -> phase (T:=T).

Notation mk_phase := (mk_phase ccanon restruct).
Notation ni_phase := (ni_phase O ccanon restruct).

(* Phase(name, sg, pg, structure, color) as the reader calls it, on observable
   attributes that satisfy sym_ok *)
Lemma mk_phase_ok name sg pg st col :
  sym_ok sg pg = true ->
  mk_phase name sg (reader_pg sg pg) st col = Some (mkPhase name sg pg (ccanon col) (restruct st)).
Proof.
  unfold sym_ok, reader_pg, C13Map.mk_phase. destruct sg as [n|], pg as [g|]; try discriminate; try reflexivity.
  - intros H. apply andb_prop in H. destruct H as [Ha Hb].
    cbv beta iota. rewrite Ha. apply pstr_eqb_eq in Hb. subst g. reflexivity.
  - intros H. apply andb_prop in H. destruct H as [H He].
    cbv beta iota.
    destruct (pg_resolve g) as [g'|]; [|discriminate]. apply pstr_eqb_eq in He. now subst g'.
Qed.

(* the repaired monoclinic cases, explicitly: space group 3 (P2, point group "2",
   an alias of "2/m" in point_group_aliases) and 6 (Pm, point group "m", no name
   in _groups) are rebuilt from the space group alone *)
Lemma mk_phase_sg3 name st col :
  mk_phase name (Some 3) None st col = Some (mkPhase name (Some 3) (Some (s2p "2")) (ccanon col) (restruct st)).
Proof. reflexivity. Qed.
Lemma mk_phase_sg6 name st col :
  mk_phase name (Some 6) None st col = Some (mkPhase name (Some 6) (Some (s2p "m")) (ccanon col) (restruct st)).
Proof. reflexivity. Qed.


(* ------------------------------------------------------------------ atoms *)
Definition wf_atom (a : atom (T:=T)) : Prop :=
  ustr (at_element a) /\ ustr (at_label a) /\
  (alen (at_xyz a) <> 1)%nat /\ (alen (at_U a) <> 1)%nat.

Ltac nd := apply nodupb_sound; reflexivity.

Lemma atom_rt a : wf_atom a -> dict2atom (rd (atom2dict a)) = Some a.
Proof.
  intros (He & Hl & Hx & HU). unfold atom2dict. cbn [rd flat_map List.app fst snd].
  unfold dict2atom, getS, getA. rewrite !lookup_sortk by nd. cbn [lookup String.eqb Ascii.eqb Bool.eqb].
  rewrite (str_roundtrip _ He), (str_roundtrip _ Hl), (unwrap_id _ Hx), (unwrap_id _ HU).
  destruct a; reflexivity.
Qed.

Definition atoms_dict (ats : list (atom (T:=T))) : list (string * rv T) :=
  map (fun ia => (zstr (fst ia), rd (atom2dict (snd ia)))) (enum_from 0 ats).

Lemma enum_from_sorted {A} i (l : list A) : StronglySorted Z.lt (map fst (enum_from i l)).
Proof.
  revert i. induction l as [|a l IH]; intros i; simpl; [constructor|]. constructor; [apply IH|].
  assert (G : forall j, i < j -> Forall (Z.lt i) (map fst (enum_from j l))).
  { clear. induction l as [|a l IH]; intros j Hj; simpl; constructor; [exact Hj|]. apply IH. lia. }
  apply G. lia.
Qed.
Lemma enum_from_snd {A} i (l : list A) : map snd (enum_from i l) = l.
Proof. revert i. induction l as [|a l IH]; intros i; simpl; [reflexivity|]. now rewrite IH. Qed.

Lemma all_some_map_in {A B} (F : A -> option B) (h : A -> B) l :
  (forall x, In x l -> F x = Some (h x)) -> all_some (map F l) = Some (map h l).
Proof.
  induction l as [|a l IH]; intros H; [reflexivity|]. simpl. rewrite (H a) by now left.
  rewrite IH; [reflexivity|]. intros; apply H; now right.
Qed.

(* the reader's atom pipeline on the name-ordered listing of the "atoms" group *)
Definition read_atoms (ad : dict (rv T)) : option (list atom) :=
  match all_some (map (fun kv : string * rv T => match zint (fst kv), dict2atom (snd kv) with
                                               | Some i, Some a => Some (i, a) | _, _ => None end) ad) with
  | Some l => Some (map snd (sortz l))
  | None => None
  end.

(* atoms come back in the order they were written, whatever their number: the
   links "0", "1", "10", "11", "2", ... are listed in name order, the reader
   sorts them by int(key) *)
Lemma atoms_rt ats : Forall wf_atom ats -> read_atoms (sortk (atoms_dict ats)) = Some ats.
Proof.
  intros Hwf. unfold read_atoms, atoms_dict.
  set (K := map (fun ia : Z * atom => (zstr (fst ia), ia)) (enum_from 0 ats)).
  replace (map (fun ia : Z * atom => (zstr (fst ia), rd (atom2dict (snd ia)))) (enum_from 0 ats))
    with (map (fun kv : string * (Z * atom) => (fst kv, rd (atom2dict (snd (snd kv))))) K)
    by (unfold K; rewrite map_map; reflexivity).
  rewrite (sortk_map (fun ia : Z * atom => rd (atom2dict (snd ia)))).
  rewrite map_map. cbn [fst snd].
  rewrite (all_some_map_in _ snd).
  - f_equal. transitivity (map snd (enum_from 0 ats)); [|apply enum_from_snd]. f_equal.
    apply sortz_of_perm; [apply enum_from_sorted|].
    rewrite (Permutation_map snd (sortk_perm K)). unfold K. rewrite map_map. cbn [snd]. now rewrite map_id.
  - intros [k ia] Hin. apply (Permutation_in _ (sortk_perm K)) in Hin. unfold K in Hin.
    apply in_map_iff in Hin. destruct Hin as [ia' [E Hin]]. inversion E; subst. cbn [fst snd].
    rewrite zint_zstr. rewrite Forall_forall in Hwf.
    rewrite (atom_rt (snd ia)).
    + now destruct ia.
    + apply Hwf. rewrite <- (enum_from_snd 0 ats). now apply in_map.
Qed.

(* the regression witness of the repaired defect: with eleven atoms the link
   "10" is still listed before "2" ... *)
Lemma atoms_listing_11 (a : atom (T:=T)) :
  map fst (sortk (atoms_dict (repeat a 11)))
  = ["0"; "1"; "10"; "2"; "3"; "4"; "5"; "6"; "7"; "8"; "9"]%string.
Proof. reflexivity. Qed.

(* ----------------------------------------------------------------- phases *)
Definition wf_phase (p : phase (T:=T)) : Prop :=
  ustr (ph_name p) /\ ustr (ph_color p) /\ ccanon (ph_color p) = ph_color p /\
  sym_ok (ph_sg p) (ph_pg p) = true /\ restruct (ph_st p) = ph_st p /\
  (alen (l_abcABG (fst (ph_st p))) <> 1)%nat /\ (alen (l_baserot (fst (ph_st p))) <> 1)%nat /\
  Forall wf_atom (snd (ph_st p)).

Lemma none_str : decode_str (str_stored (s2p "None")) = s2p "None".
Proof. reflexivity. Qed.

Lemma atoms_not_PN i (ats : list (atom (T:=T))) :
  forallb (fun kv : string * pv T => not_PN (snd kv))
          (map (fun ia => (zstr (fst ia), atom2dict (snd ia))) (enum_from i ats)) = true.
Proof. revert i. induction ats as [|a ats IH]; intros i; [reflexivity|]. simpl. apply IH. Qed.

Lemma structure_rt st :
  (alen (l_abcABG (fst st)) <> 1)%nat -> (alen (l_baserot (fst st)) <> 1)%nat ->
  Forall wf_atom (snd st) ->
  match rd (structure2dict st) with RD d => dict2structure d | _ => None end = Some st.
Proof.
  intros Ha Hb Hat. unfold structure2dict.
  rewrite rd_PD_nn by reflexivity. cbn [map fst snd].
  rewrite (rd_PD_nn [("abcABG"%string, _); _]) by reflexivity.
  rewrite (rd_PD_nn (map _ _)) by apply atoms_not_PN. cbn [map fst snd rd].
  unfold dict2structure, getD. rewrite !lookup_sortk by nd. cbn [lookup String.eqb Ascii.eqb Bool.eqb].
  unfold getA. rewrite !lookup_sortk by nd. cbn [lookup String.eqb Ascii.eqb Bool.eqb].
  rewrite (unwrap_id _ Ha), (unwrap_id _ Hb).
  rewrite map_map. cbn [fst snd]. fold (atoms_dict (snd st)).
  pose proof (atoms_rt _ Hat) as Hr. unfold read_atoms in Hr.
  destruct (all_some _) as [l|]; [|discriminate]. injection Hr as Hr. rewrite Hr.
  destruct st as [[? ?] ?]; reflexivity.
Qed.

Lemma phase_rt p : wf_phase p -> dict2phase ccanon restruct (rd (phase2dict p)) = Some p.
Proof.
  intros (Hn & Hc & Hcc & Hs & Hr & Ha & Hb & Hat).
  unfold phase2dict. rewrite rd_PD_nn by (destruct (ph_sg p), (ph_pg p); reflexivity).
  cbn [map fst snd]. unfold dict2phase, getD, getS.
  rewrite !lookup_sortk by nd. cbn [lookup String.eqb Ascii.eqb Bool.eqb].
  pose proof (structure_rt (ph_st p) Ha Hb Hat) as Hst.
  destruct (rd (structure2dict (ph_st p))) as [d| | | | |]; try discriminate. rewrite Hst.
  cbn [rd]. rewrite (str_roundtrip _ Hn), (str_roundtrip _ Hc).
  destruct p as [name sg pg col st]. cbn [ph_name ph_sg ph_pg ph_color ph_st] in *.
  pose proof (mk_phase_ok name sg pg st col Hs) as Hmk.
  destruct sg as [n|], pg as [g|]; try discriminate Hs; cbn [reader_pg] in Hmk.
  - cbn [rd]. rewrite Hmk, Hcc, Hr. reflexivity.
  - cbn [rd]. rewrite none_str, pstr_eqb_refl.
    assert (Hg : ustrb g = true /\ not_none g = true).
    { unfold sym_ok in Hs. apply andb_prop in Hs. destruct Hs as [Hs _]. apply andb_prop in Hs. tauto. }
    destruct Hg as [Hg1 Hg2]. rewrite (str_roundtrip _ (ustrb_sound _ Hg1)).
    unfold not_none in Hg2. apply negb_true_iff in Hg2. rewrite Hg2.
    rewrite Hmk, Hcc, Hr. reflexivity.
  - cbn [rd]. rewrite none_str, pstr_eqb_refl.
    rewrite Hmk, Hcc, Hr. reflexivity.
Qed.


(* ------------------------------------- CrystalMap.__init__ on its own output *)
Lemma zmem_in k l : In k l -> zmem k l = true.
Proof. intros H. apply existsb_exists. exists k. split; [exact H|apply Z.eqb_refl]. Qed.
Lemma zmem_notin k l : ~ In k l -> zmem k l = false.
Proof.
  intros H. destruct (zmem k l) eqn:E; [|reflexivity]. apply existsb_exists in E.
  destruct E as [x [Hx E]]. apply Z.eqb_eq in E. subst. contradiction.
Qed.
Lemma del_loop_skip uniq a b nd (pl : list (Z * phase (T:=T))) :
  (forall i, In i a -> zmem i uniq = true) -> del_loop uniq (a ++ b) nd pl = del_loop uniq b nd pl.
Proof.
  induction a as [|i a IH]; simpl; intros H; [reflexivity|]. rewrite (H i) by now left.
  apply IH. intros; apply H; now right.
Qed.

(* the phase-list reconciliation of the constructor leaves a list alone whose ids
   are exactly np.unique(phase_id) and whose -1 entry is the default
   "not_indexed" phase *)
Lemma mk_cmap_fix rsh rots pid x y (pl : list (Z * phase (T:=T))) props unit ind :
  map fst pl = np_unique pid -> pl <> [] ->
  (forall p, In (-1, p) pl -> p = ni_phase) ->
  ~ (x = None /\ y = None) ->
  mk_cmap O ccanon restruct fresh rsh rots pid x y pl props unit ind
  = Some (mkMap rsh rots pid x y ind props unit pl).
Proof.
  intros Hids Hne Hni Hxy. unfold mk_cmap.
  pose proof (np_unique_sorted pid) as Hs. rewrite <- Hids in *.
  destruct pl as [|[i0 p0] rest]; [contradiction|]. clear Hne.
  cbn [map fst] in *. inversion Hs as [|? ? Hs' Hf]; subst.
  assert (Hx : match x, y with None, None => Some (mkArr i64 [hd 0%nat rsh] (DI (zrange (hd 0%nat rsh)))) | _, _ => x end = x).
  { destruct x, y; try reflexivity. exfalso; auto. }
  cbv zeta. rewrite Hx. f_equal. f_equal.
  destruct (i0 =? -1) eqn:E.
  - apply Z.eqb_eq in E. subst i0.
    assert (Hnot : ~ In (-1) (map fst rest)).
    { intros Hin. rewrite Forall_forall in Hf. specialize (Hf _ Hin). lia. }
    cbn [List.length]. rewrite map_length.
    replace (List.length rest <? S (List.length rest))%nat with true by (symmetry; apply Nat.ltb_lt; lia).
    replace (S (List.length rest) - List.length rest)%nat with 1%nat by lia.
    cbn [rev]. rewrite del_loop_skip by (intros i Hi; apply zmem_in; now apply in_rev).
    cbn [del_loop]. rewrite (zmem_notin _ _ Hnot).
    unfold zremove at 2. cbn [filter fst]. rewrite Z.eqb_refl. cbn [negb].
    fold (zremove (-1) rest). rewrite (zremove_absent _ _ Hnot).
    rewrite combine_fst_snd, (zremove_absent _ _ Hnot).
    rewrite (Hni p0) by now left.
    apply sortz_id. cbn [map fst]. now constructor.
  - cbn [List.length map fst]. rewrite !map_length, Nat.ltb_irrefl.
    change (i0 :: map fst rest) with (map fst ((i0, p0) :: rest)).
    now rewrite combine_fst_snd.
Qed.


(* ------------------------------------------------------------- phase lists *)
Lemma phl_rt (phs : list (Z * phase (T:=T))) :
  StronglySorted Z.lt (map fst phs) -> Forall wf_phase (map snd phs) ->
  match rd (phaselist2dict phs) with RD d => dict2phaselist ccanon restruct d | _ => None end = Some phs.
Proof.
  intros Hs Hwf. destruct (lt_sorted_le _ Hs) as [_ Hnd].
  unfold phaselist2dict. rewrite dict_update_fresh.
  2:{ rewrite map_map. cbn [fst]. rewrite <- (map_map fst zstr). apply Injective_map_NoDup; [|exact Hnd].
      intros a b. apply zstr_inj. }
  2:{ intros k _ []. }
  cbn [List.app]. rewrite rd_PD_nn.
  2:{ clear. induction phs as [|a l IH]; [reflexivity|]. exact IH. }
  rewrite map_map. cbn [fst snd].
  set (K := map (fun ip : Z * phase (T:=T) => (zstr (fst ip), ip)) phs).
  replace (map (fun x : Z * phase => (zstr (fst x), rd (phase2dict (snd x)))) phs)
    with (map (fun kv : string * (Z * phase (T:=T)) => (fst kv, rd (phase2dict (snd (snd kv))))) K)
    by (unfold K; rewrite map_map; reflexivity).
  rewrite (sortk_map (fun ip : Z * phase (T:=T) => rd (phase2dict (snd ip)))).
  unfold dict2phaselist. rewrite map_map. cbn [fst snd].
  rewrite (all_some_map_in _ snd).
  - f_equal. apply sortz_of_perm; [exact Hs|].
    rewrite (Permutation_map snd (sortk_perm K)). unfold K. rewrite map_map. cbn [snd]. now rewrite map_id.
  - intros [k ip] Hin. apply (Permutation_in _ (sortk_perm K)) in Hin. unfold K in Hin.
    apply in_map_iff in Hin. destruct Hin as [ip' [E Hin]]. inversion E; subst. cbn [fst snd].
    rewrite zint_zstr. rewrite Forall_forall in Hwf.
    rewrite (phase_rt (snd ip)) by (apply Hwf; now apply in_map). now destruct ip.
Qed.

End MapP.
