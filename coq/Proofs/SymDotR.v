(* C04: the symmetry-reduced dot product computed from a list U of symmetry
   elements equals the brute-force maximum over all pairs of equivalents
   whenever U is, up to signs and duplicates, the set { ~g2 * g1 }. *)
From Coq Require Import Reals ZArith Lra List Bool.
From Verif Require Import Scalar RInst QuatKernels Conversions Quat QuatAlg SymDot.
Import ListNotations.
Local Open Scope R_scope.

Notation Rrot := (rot (T:=R)).

(* o_max on R is the maximum *)
Lemma omax_R x y : o_max ROps x y = Rmax x y.
Proof.
  unfold o_max; rsimpl. unfold Rmax. destruct (Rltb x y) eqn:E.
  - apply Rltb_true in E. destruct (Rle_dec x y); lra.
  - apply Rltb_false in E. destruct (Rle_dec x y); [|reflexivity]. lra.
Qed.

Lemma omax_list_ub l x : In x l -> x <= omax_list ROps l.
Proof.
  induction l as [|y l IH]; [intros []|]. intros [->|H]; cbn [omax_list fold_right]; rewrite omax_R.
  - apply Rmax_l.
  - eapply Rle_trans; [apply IH; assumption|apply Rmax_r].
Qed.

Lemma omax_list_nonneg l : 0 <= omax_list ROps l.
Proof.
  induction l as [|y l IH]; cbn [omax_list fold_right].
  - rsimpl. lra.
  - rewrite omax_R. eapply Rle_trans; [exact IH|apply Rmax_r].
Qed.

Lemma omax_list_attained l : omax_list ROps l = 0 \/ In (omax_list ROps l) l.
Proof.
  induction l as [|y l IH]; cbn [omax_list fold_right].
  - left. rsimpl. reflexivity.
  - rewrite omax_R. unfold Rmax. destruct (Rle_dec y (fold_right (o_max ROps) (o_ofZ ROps 0) l)).
    + destruct IH as [IH|IH]; [left; exact IH|right; right; exact IH].
    + right; left; reflexivity.
Qed.

(* domination: every element of l is below some element of l' (or below 0) *)
Lemma omax_list_le l l' :
  (forall x, In x l -> x <= 0 \/ exists y, In y l' /\ x <= y) ->
  omax_list ROps l <= omax_list ROps l'.
Proof.
  intros H. destruct (omax_list_attained l) as [E|E].
  - rewrite E. apply omax_list_nonneg.
  - destruct (H _ E) as [Hz|[y [Hy Hle]]].
    + eapply Rle_trans; [exact Hz|apply omax_list_nonneg].
    + eapply Rle_trans; [exact Hle|apply omax_list_ub; exact Hy].
Qed.

(* the algebraic heart: <M, ~g2 * g1> = Re (g2 * M * ~g1), for ALL quaternions *)
Lemma dot_needed (M p1 p2 : quat (T:=R)) :
  qdot ROps M (qmul ROps (qconj ROps p2) p1) = qre (qmul ROps p2 (qmul ROps M (qconj ROps p1))).
Proof. qdestruct. unfold qre. qunfold. ring. Qed.

Lemma brute_is_code_on_needed (G1 G2 : list Rrot) O1 O2 :
  brute_dot ROps G1 G2 O1 O2 = code_dot ROps (needed_set ROps G1 G2) O1 O2.
Proof.
  unfold brute_dot, code_dot, needed_set. f_equal.
  rewrite flat_map_concat_map, (flat_map_concat_map _ G1), concat_map, map_map.
  f_equal. apply map_ext. intros g1. rewrite map_map. apply map_ext. intros g2.
  unfold brute_term, code_term, needed_elem; cbn [fst snd].
  destruct (xorb (snd g1) (snd g2)); [reflexivity|]. rewrite dot_needed. reflexivity.
Qed.

(* equality of rotations up to the overall sign of the quaternion *)
Definition req (u v : Rrot) : Prop :=
  snd u = snd v /\ (fst u = fst v \/ fst u = qneg ROps (fst v)).
Definition sign_equiv (U V : list Rrot) : Prop :=
  (forall u, In u U -> exists v, In v V /\ req u v) /\
  (forall v, In v V -> exists u, In u U /\ req v u).

Lemma qdot_neg_r (M s : quat (T:=R)) : qdot ROps M (qneg ROps s) = - qdot ROps M s.
Proof. qdestruct. qunfold. ring. Qed.

Lemma code_term_req M u v : req u v -> code_term ROps M u = code_term ROps M v.
Proof.
  intros [Hs [Hq|Hq]]; unfold code_term; rewrite Hs, Hq; [reflexivity|].
  destruct (snd v); [reflexivity|]. rewrite qdot_neg_r. rsimpl. apply Rabs_Ropp.
Qed.

Lemma code_dot_incl U V O1 O2 :
  (forall u, In u U -> exists v, In v V /\ req u v) ->
  code_dot ROps U O1 O2 <= code_dot ROps V O1 O2.
Proof.
  intros H. unfold code_dot. apply omax_list_le. intros x Hx.
  apply in_map_iff in Hx. destruct Hx as [u [<- Hu]].
  destruct (H u Hu) as [v [Hv Hr]]. right. exists (code_term ROps (mis ROps O1 O2) v). split.
  - apply in_map; exact Hv.
  - rewrite (code_term_req _ u v Hr). lra.
Qed.

Theorem code_dot_sign_equiv U V O1 O2 :
  sign_equiv U V -> code_dot ROps U O1 O2 = code_dot ROps V O1 O2.
Proof. intros [H1 H2]. apply Rle_antisym; apply code_dot_incl; assumption. Qed.

(* MAIN: if the list of symmetry elements used by the code is, up to sign and
   duplicates, the set { ~g2 * g1 }, the code's value is the true maximum over
   all pairs of symmetrically equivalent orientations -- for ALL orientations *)
Theorem code_dot_is_brute (U G1 G2 : list Rrot) :
  sign_equiv U (needed_set ROps G1 G2) ->
  forall O1 O2, code_dot ROps U O1 O2 = brute_dot ROps G1 G2 O1 O2.
Proof. intros H O1 O2. rewrite brute_is_code_on_needed. apply code_dot_sign_equiv. exact H. Qed.
