(* C01: Euler-angle kernels (generated eu2qu_single / qu2om_single) over R. *)
From Coq Require Import Reals ZArith Lra Nsatz Bool.
From Verif Require Import Scalar RInst QuatKernels Conversions Quat QuatAlg.
Local Open Scope R_scope.

(* Independent reference: the passive Bunge Z-X-Z orientation matrix
   g = Rz(phi2) . Rx(Phi) . Rz(phi1), written out by hand. *)
Definition Rz (t : R) : mat3 (T:=R) := ((cos t, sin t, 0), (- sin t, cos t, 0), (0, 0, 1)).
Definition Rx (t : R) : mat3 (T:=R) := ((1, 0, 0), (0, cos t, sin t), (0, - sin t, cos t)).
Definition bunge (e : vec3 (T:=R)) : mat3 (T:=R) :=
  let '(p1, P, p2) := e in mmul ROps (Rz p2) (mmul ROps (Rx P) (Rz p1)).

Lemma pyth x : sin x * sin x + cos x * cos x = 1.
Proof. pose proof (sin2_cos2 x) as H; unfold Rsqr in H; exact H. Qed.

(* the un-normalised-sign quaternion of eu2qu, before the "if qu[0] < 0" flip *)
Definition eu2qu_raw (e : vec3 (T:=R)) : quat (T:=R) :=
  let '(p1, P, p2) := e in
  let sg := 1/2 * (p1 + p2) in let dl := 1/2 * (p1 - p2) in
  let c := cos (P / 2) in let s := sin (P / 2) in
  (c * cos sg, - s * cos dl, - s * sin dl, - c * sin sg).

Lemma eu2qu_is_raw (e : vec3) :
  eu2qu ROps e = eu2qu_raw e \/ eu2qu ROps e = qneg ROps (eu2qu_raw e).
Proof.
  destruct e as [[p1 P] p2]. unfold eu2qu, eu2qu_single, eu2qu_raw. rsimpl.
  match goal with |- context [if ?b then _ else _] => destruct b end.
  - right. unfold qneg; rsimpl. tuple_eq; field.
  - left. tuple_eq; field.
Qed.

Lemma eu2qu_raw_unit e : qnorm2 ROps (eu2qu_raw e) = 1.
Proof.
  destruct e as [[p1 P] p2]. unfold eu2qu_raw, qnorm2; rsimpl.
  pose proof (pyth (1/2 * (p1 + p2))) as H1. pose proof (pyth (1/2 * (p1 - p2))) as H2.
  pose proof (pyth (P / 2)) as H3. nsatz.
Qed.

Lemma qnorm2_neg (q : quat (T:=R)) : qnorm2 ROps (qneg ROps q) = qnorm2 ROps q.
Proof. qdestruct; qunfold; ring. Qed.

Lemma eu2qu_unit e : qnorm2 ROps (eu2qu ROps e) = 1.
Proof.
  destruct (eu2qu_is_raw e) as [H|H]; rewrite H; [|rewrite qnorm2_neg]; apply eu2qu_raw_unit.
Qed.

Lemma eu2qu_scalar_nonneg e : 0 <= let '(a, _, _, _) := eu2qu ROps e in a.
Proof.
  destruct e as [[p1 P] p2]. unfold eu2qu, eu2qu_single. rsimpl.
  match goal with |- context [if ?b then _ else _] => destruct b eqn:Hb end.
  - apply Rltb_true in Hb. lra.
  - apply Rltb_false in Hb. lra.
Qed.

Lemma qu2om_eu2qu_raw e : qu2om ROps (eu2qu_raw e) = bunge e.
Proof.
  destruct e as [[p1 P] p2].
  unfold bunge, Rz, Rx, eu2qu_raw.
  set (sg := 1/2 * (p1 + p2)). set (dl := 1/2 * (p1 - p2)). set (h := P / 2).
  replace p1 with (sg + dl) by (unfold sg, dl; field).
  replace p2 with (sg - dl) by (unfold sg, dl; field).
  replace P with (2 * h) by (unfold h; field).
  replace (1 / 2 * (sg + dl + (sg - dl))) with sg by field.
  replace (1 / 2 * (sg + dl - (sg - dl))) with dl by field.
  replace (2 * h / 2) with h by field.
  rewrite cos_plus, sin_plus, cos_minus, sin_minus, cos_2a, sin_2a.
  pose proof (pyth sg) as H1. pose proof (pyth dl) as H2. pose proof (pyth h) as H3.
  generalize dependent (cos sg); generalize dependent (sin sg).
  generalize dependent (cos dl); generalize dependent (sin dl).
  generalize dependent (cos h); generalize dependent (sin h).
  intros sh ch H3 sd cd H2 ss cs H1.
  qunfold. tuple_eq; nsatz.
Qed.

(* from_euler gives the Bunge matrix, for every Euler triplet *)
Lemma qu2om_eu2qu e : qu2om ROps (eu2qu ROps e) = bunge e.
Proof.
  destruct (eu2qu_is_raw e) as [H|H]; rewrite H; [|rewrite qu2om_neg]; apply qu2om_eu2qu_raw.
Qed.
