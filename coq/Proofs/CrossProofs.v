(* C06: relations between the equivalence notions used by the symmetry-aware
   operations, over the reals. *)
From Coq Require Import Reals ZArith Lra List Bool.
From Verif Require Import Scalar RInst QuatKernels Conversions Quat QuatAlg SymDot SymDotR ZoneModel ZoneProofs.
Import ListNotations.
Local Open Scope R_scope.

Notation Rq := (quat (T:=R)).
Notation Rrot := (rot (T:=R)).

Lemma mis_left_equiv (g O1 : Rq) : qnorm2 ROps O1 = 1 -> mis ROps O1 (qmul ROps g O1) = g.
Proof.
  intros H. unfold mis. rewrite qmul_assoc, qmul_conj_unit by assumption. apply qmul_one_r.
Qed.

Lemma qdot_self (g : Rq) : qdot ROps g g = qnorm2 ROps g.
Proof. qdestruct. qunfold. ring. Qed.

(* an orientation and a LEFT symmetry multiple g*O have reduced dot product >= 1
   (i.e. symmetry-reduced angle 0), for every list U containing g as a proper element *)
Theorem left_equivalent_zero_angle (U : list Rrot) (g O1 : Rq) :
  In (g, false) U -> qnorm2 ROps g = 1 -> qnorm2 ROps O1 = 1 ->
  1 <= code_dot ROps U O1 (qmul ROps g O1).
Proof.
  intros Hin Hg HO. unfold code_dot. rewrite mis_left_equiv by assumption.
  assert (E : code_term ROps g (g, false) = 1).
  { unfold code_term; cbn [fst snd]. rewrite qdot_self, Hg. rsimpl. apply Rabs_R1. }
  rewrite <- E. apply omax_list_ub. apply in_map. exact Hin.
Qed.

(* the crystal direction of a left-equivalent orientation is the symmetry image *)
Theorem left_equivalent_direction (g O1 : Rq) (v : vec3 (T:=R)) :
  qnorm2 ROps g = 1 -> qnorm2 ROps O1 = 1 ->
  qrot ROps (qmul ROps g O1) v = qrot ROps g (qrot ROps O1 v).
Proof. intros; apply qrot_mul; assumption. Qed.

(* the zone reduction of an orientation (Gl = [1]) multiplies on the RIGHT *)
Theorem reduction_is_right_multiple eps N (Gr : list Rq) M :
  Gr <> [] -> exists gr, In gr Gr /\ reduce ROps eps N [qone ROps] Gr M = qmul ROps M gr.
Proof.
  intros HG. unfold reduce.
  destruct (reduce_loop_in_orbit eps N (list_prod [qone ROps] Gr) M (qone ROps)) as [[_ He]|[gl [gr [Hin H]]]].
  - destruct Gr; [contradiction|discriminate He].
  - apply in_prod_iff in Hin. destruct Hin as [[<-|[]] Hr].
    exists gr. split; [exact Hr|]. rewrite H. unfold transform. rewrite qmul_one_l. reflexivity.
Qed.

(* a RIGHT multiple O*g is a left-equivalent of the INVERSE orientations *)
Theorem right_multiple_is_left_equivalent_of_inverses (U : list Rrot) (g O1 : Rq) :
  In (qconj ROps g, false) U -> qnorm2 ROps g = 1 -> qnorm2 ROps O1 = 1 ->
  1 <= code_dot ROps U (qconj ROps O1) (qconj ROps (qmul ROps O1 g)).
Proof.
  intros Hin Hg HO. rewrite qconj_mul.
  apply left_equivalent_zero_angle; [exact Hin| |]; rewrite qnorm2_conj; assumption.
Qed.

(* ... but in general NOT a left-equivalent of the orientation itself: with the
   group 222 = {1, 2x, 2y, 2z}, O = (4/5, 0, 3/5, 0) and g = 2x the reduced dot
   product of O and O*g is below 1 *)
Definition G222 : list Rrot :=
  [((1, 0, 0, 0), false); ((0, 1, 0, 0), false); ((0, 0, 1, 0), false); ((0, 0, 0, 1), false)].

Lemma Rmax_lub_lt a b c : a < c -> b < c -> Rmax a b < c.
Proof. intros; unfold Rmax; destruct (Rle_dec a b); assumption. Qed.

Theorem right_multiple_not_equivalent_refuted :
  exists (U : list Rrot) (g O1 : Rq), In (g, false) U /\ qnorm2 ROps g = 1 /\ qnorm2 ROps O1 = 1 /\
    code_dot ROps U O1 (qmul ROps O1 g) < 1.
Proof.
  exists G222, (0, 1, 0, 0), (4/5, 0, 3/5, 0).
  split; [right; left; reflexivity|].
  split; [unfold qnorm2; rsimpl; ring|]. split; [unfold qnorm2; rsimpl; field|].
  unfold code_dot, G222, mis. cbn [map omax_list fold_right]. rewrite !omax_R.
  unfold code_term; cbn [fst snd]. qunfold.
  repeat apply Rmax_lub_lt;
    try (match goal with |- Rabs ?x < 1 => apply Rabs_def1; lra end); lra.
Qed.
