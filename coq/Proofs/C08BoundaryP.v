(* C08 -- exact-arithmetic rounding: a unit direction on a bounding plane of the
   sector has polar coordinate 0, hence a fully saturated colour. *)
From Coq Require Import Reals ZArith Lra Lia Bool List Nsatz.
From Verif Require Import Scalar RInst C08Color Quat C08Model Atan2 C08ColorP C08GeomP.
Import ListNotations.
Local Open Scope R_scope.

Definition rd_id : Rnd (T:=R) := mkRnd (fun x => x) (fun x => x) (fun _ => 0%nat).

Lemma rd_id_mono : forall x y, x <= y -> r10 rd_id x <= r10 rd_id y.
Proof. intros x y H. exact H. Qed.

Lemma polar_ratio_boundary (c v n : Rv) : dot c c = 1 -> dot v v = 1 ->
  dot n v = 0 -> 0 < dot n c ->
  polar_ratio ROps rd_id c v (vunit ROps (vcross ROps v c)) n = 0.
Proof.
  intros Hc Hv Hnv Hnc.
  (* (v x c) x n = (n.v) c - (n.c) v = -(n.c) v *)
  assert (Htri : forall k : R, vcross ROps (vscale ROps k (vcross ROps v c)) n = vscale ROps (- (k * dot n c)) v).
  { intros k. destruct c as [[c1 c2] c3], v as [[v1 v2] v3], n as [[n1 n2] n3]. vunf. tup.
    - transitivity (- (k * (n1 * c1 + n2 * c2 + n3 * c3)) * v1 + k * c1 * (n1 * v1 + n2 * v2 + n3 * v3)); [ring | rewrite Hnv; ring].
    - transitivity (- (k * (n1 * c1 + n2 * c2 + n3 * c3)) * v2 + k * c2 * (n1 * v1 + n2 * v2 + n3 * v3)); [ring | rewrite Hnv; ring].
    - transitivity (- (k * (n1 * c1 + n2 * c2 + n3 * c3)) * v3 + k * c3 * (n1 * v1 + n2 * v2 + n3 * v3)); [ring | rewrite Hnv; ring]. }
  assert (Hvne : v <> (0, 0, 0)).
  { intro E. rewrite E in Hv. revert Hv. vunf. lra. }
  assert (Hw : vcross ROps v c <> (0, 0, 0)).
  { intro E. pose proof (Htri 1) as T. 
    replace (vscale ROps 1 (vcross ROps v c)) with ((0, 0, 0) : Rv) in T by (rewrite E; vunf; tup; ring).
    replace (vcross ROps (0, 0, 0) n) with ((0, 0, 0) : Rv) in T by (destruct n as [[? ?] ?]; vunf; tup; ring).
    destruct v as [[v1 v2] v3]. revert T Hv. vunf. intros T Hv. inversion T. nra. }
  destruct (vunit_nonzero _ Hw) as (k2 & Hk2 & E2 & _).
  unfold polar_ratio. cbv zeta. rewrite E2, Htri.
  set (q := - (k2 * dot n c)). assert (Hq : q < 0) by (unfold q; nra).
  assert (Hm : vscale ROps q v <> (0, 0, 0)).
  { intro E. destruct v as [[v1 v2] v3]. revert E Hv. vunf. intros E Hv. inversion E. nra. }
  destruct (vunit_nonzero _ Hm) as (k1 & Hk1 & E1 & U1).
  destruct (is_zero ROps (vunit ROps (vscale ROps q v))) eqn:Z.
  { apply vunit_is_zero in Z. contradiction. }
  set (bp := vunit ROps (vscale ROps q v)) in *.
  assert (Hbp : bp = vneg ROps v).
  { rewrite E1. rewrite E1 in U1.
    assert (Hs : k1 * q = -1).
    { destruct v as [[v1 v2] v3]. revert U1 Hv. vunf. intros U1 Hv.
      assert ((k1 * q) * (k1 * q) = 1) by nra. assert (k1 * q < 0) by nra. nra. }
    destruct v as [[v1 v2] v3]. vunf. tup; nra. }
  rewrite !(angle_with_unit rd_id) by (rewrite ?dot_neg_self; assumption).
  cbn [r10 rd_id]. rewrite Hbp.
  replace (dot (vneg ROps v) (vneg ROps v)) with 1 by (rewrite dot_neg_self; symmetry; exact Hv).
  replace (dot (vneg ROps c) (vneg ROps v)) with (dot c v) by (destruct c as [[? ?] ?], v as [[? ?] ?]; vunf; ring).
  rewrite acos_1.
  (* c.v < 1 because n.v = 0 < n.c *)
  assert (Ht : -1 <= dot c v < 1).
  { pose proof (cauchy c v Hc Hv) as C. split; [lra|].
    destruct (Rlt_dec (dot c v) 1) as [L | L]; [exact L|]. exfalso.
    assert (E : dot c v = 1) by lra.
    destruct c as [[c1 c2] c3], v as [[v1 v2] v3], n as [[n1 n2] n3]. revert E Hc Hv Hnv Hnc. vunf. intros.
    assert ((c1 - v1) * (c1 - v1) + (c2 - v2) * (c2 - v2) + (c3 - v3) * (c3 - v3) = 0) by nra.
    pose proof (Rle_0_sqr (c1 - v1)) as S1. pose proof (Rle_0_sqr (c2 - v2)) as S2. pose proof (Rle_0_sqr (c3 - v3)) as S3.
    unfold Rsqr in S1, S2, S3.
    assert (Z1 : (c1 - v1) * (c1 - v1) = 0) by lra. assert (Z2 : (c2 - v2) * (c2 - v2) = 0) by lra.
    assert (Z3 : (c3 - v3) * (c3 - v3) = 0) by lra.
    apply Rmult_integral in Z1, Z2, Z3.
    assert (c1 = v1) by (destruct Z1; lra). assert (c2 = v2) by (destruct Z2; lra). assert (c3 = v3) by (destruct Z3; lra).
    subst. lra. }
  pose proof (acos_pos_lt1 _ Ht) as HB. rsimpl.
  destruct (Reqb (acos (dot c v)) 0) eqn:E; [apply Reqb_true in E; lra|].
  unfold Rdiv. ring.
Qed.

Theorem polar_of_boundary (sec : sector (T:=R)) (v n : Rv) :
  s_center sec <> (0, 0, 0) -> dot v v = 1 -> In n (s_normals sec) ->
  dot n v = 0 -> 0 < dot n (vunit ROps (s_center sec)) ->
  polar_of ROps rd_id sec v = 0.
Proof.
  intros Hc Hv Hin Hnv Hnc.
  destruct (vunit_nonzero _ Hc) as (k & _ & _ & Uc).
  apply Rle_antisym; [|apply polar_of_nonneg].
  unfold polar_of. cbv zeta.
  destruct (forallb _ (s_normals sec)) eqn:F.
  - exfalso. rewrite forallb_forall in F. specialize (F n Hin).
    change (Reqb (vdot ROps n (vunit ROps (s_center sec))) 0 = true) in F.
    apply Reqb_true in F. unfold dot in Hnc. lra.
  - rewrite <- (polar_ratio_boundary (vunit ROps (s_center sec)) v n Uc Hv Hnv Hnc).
    apply minl_le. apply in_map. exact Hin.
Qed.

(* so the colour there is fully saturated, whatever the azimuth table *)
Theorem color_on_boundary_saturated (sec : sector (T:=R)) tbl (v n : Rv) :
  s_center sec <> (0, 0, 0) -> dot v v = 1 -> In n (s_normals sec) ->
  dot n v = 0 -> 0 < dot n (vunit ROps (s_center sec)) ->
  let '(r, g, b) := color_of_polar ROps (azimuth_of ROps sec tbl v) (polar_of ROps rd_id sec v) in
  Rmax (Rmax r g) b = 1 /\ Rmin (Rmin r g) b = 0.
Proof.
  intros. rewrite (polar_of_boundary sec v n) by assumption. apply color_boundary_saturated.
Qed.
