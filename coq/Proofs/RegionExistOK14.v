(* exact check of the existence certificates (common operations, kept normals are large-cell or pure-vector normals,
   cover tree of the axis fundamental zone, distinguished points are products) of the regions whose first group is
   number 14 of the proper groups *)
From Coq Require Import List Bool.
From Verif Require Import CertCheck CoverCheck ExistCheck RegionCerts14 RegionExist14.
Lemma region_exist_ok_14 : all2b rc_ec_ok region_certs_14 region_exist_14 = true.
Proof. vm_compute. reflexivity. Qed.
