(* C20 -- the smoothing step of pole_density_function: correlation with a
   normalised kernel under scipy.ndimage's "wrap" and "reflect" index
   extensions preserves the total and non-negativity (finite sums re-indexed). *)
From Coq Require Import Reals Lra Lia List Bool ZArith Psatz.
From Verif Require Import Scalar RInst.
From Verif.Model Require Import C20Proj C20Pdf.
From Verif.Gen Require Import C20Stereo.
From Verif.Proofs Require Import C20Atan2 C20ProjProofs C20PdfProofs.
Import ListNotations.
Local Open Scope R_scope.

(* the extended signal *)
Definition gext (ext : Z -> Z -> Z) (x : list R) (j : Z) : R :=
  nth (Z.to_nat (ext (Z.of_nat (length x)) j)) x 0.

Definition shiftsum (g : Z -> R) (n : nat) (c : Z) : R :=
  sumR (map (fun i => g (Z.of_nat i + c)%Z) (seq 0 n)).

Lemma corr1_unfold ext w x :
  corr1 ROps ext w x =
  map (fun i => sumR (map (fun k => nth k w 0 *
                           gext ext x (Z.of_nat i + (Z.of_nat k - Z.of_nat (Nat.div2 (length w))))%Z)
                          (seq 0 (length w))))
      (seq 0 (length x)).
Proof.
  unfold corr1, gext. apply map_ext. intros i. f_equal. apply map_ext. intros k.
  unfold zero. rsimpl. f_equal. f_equal. f_equal. f_equal. lia.
Qed.

Lemma corr1_length ext w x : length (corr1 ROps ext w x) = length x.
Proof. unfold corr1. rewrite map_length, seq_length. reflexivity. Qed.

(* sum of the output = sum_k w_k * (sum_i g(i + k - r)) *)
Lemma corr1_sum ext w x :
  sumR (corr1 ROps ext w x) =
  sumR (map (fun k => nth k w 0 *
               shiftsum (gext ext x) (length x) (Z.of_nat k - Z.of_nat (Nat.div2 (length w)))%Z)
            (seq 0 (length w))).
Proof.
  rewrite corr1_unfold.
  rewrite (sumR_swap (fun i k => nth k w 0 *
      gext ext x (Z.of_nat i + (Z.of_nat k - Z.of_nat (Nat.div2 (length w))))%Z)).
  apply sumR_map_ext. intros k _. unfold shiftsum. rewrite <- sumR_map_scale. reflexivity.
Qed.

(* telescoping *)
Lemma tele (h : Z -> R) n :
  sumR (map (fun i => h (Z.of_nat i + 1)%Z) (seq 0 n))
  = sumR (map (fun i => h (Z.of_nat i)) (seq 0 n)) - h 0%Z + h (Z.of_nat n).
Proof.
  induction n as [| n IH].
  - cbn [seq map]. rewrite sumR_nil. simpl. ring.
  - rewrite seq_S, !map_app, !sumR_app, IH. cbn [map]. rewrite !sumR_cons, !sumR_nil.
    replace (Z.of_nat (0 + n) + 1)%Z with (Z.of_nat (S n)) by lia.
    replace (0 + n)%nat with n by lia. ring.
Qed.

Lemma shiftsum_step g n c :
  shiftsum g n (c + 1) = shiftsum g n c - g c + g (Z.of_nat n + c)%Z.
Proof.
  unfold shiftsum.
  pose proof (tele (fun t => g (t + c)%Z) n) as H. cbv beta in H.
  replace (g c) with (g (0 + c)%Z) by (f_equal; lia).
  rewrite <- H. apply sumR_map_ext. intros i _. f_equal. lia.
Qed.

Lemma shiftsum_0_id x (ext : Z -> Z -> Z) :
  (forall i, (i < length x)%nat -> ext (Z.of_nat (length x)) (Z.of_nat i) = Z.of_nat i) ->
  shiftsum (gext ext x) (length x) 0 = sumR x.
Proof.
  intros H. unfold shiftsum. rewrite <- (sumR_nth_seq x).
  apply sumR_map_ext. intros i Hi. apply in_seq in Hi. unfold gext.
  replace (Z.of_nat i + 0)%Z with (Z.of_nat i) by lia. rewrite H by lia.
  rewrite Nat2Z.id. reflexivity.
Qed.

(* ------------------------------------------------------------------ wrap *)
Lemma wrap_periodic x j : (0 < length x)%nat ->
  gext ext_wrap x (Z.of_nat (length x) + j) = gext ext_wrap x j.
Proof.
  intros Hn. unfold gext, ext_wrap. do 2 f_equal.
  rewrite Z.add_comm. replace (j + Z.of_nat (length x))%Z with (j + 1 * Z.of_nat (length x))%Z by lia.
  apply Z_mod_plus_full.
Qed.

Lemma wrap_shiftsum_const x c : (0 < length x)%nat ->
  shiftsum (gext ext_wrap x) (length x) c = sumR x.
Proof.
  intros Hn.
  assert (Hstep : forall d, shiftsum (gext ext_wrap x) (length x) (d + 1)
                            = shiftsum (gext ext_wrap x) (length x) d).
  { intros d. rewrite shiftsum_step, wrap_periodic by exact Hn. ring. }
  assert (H0 : shiftsum (gext ext_wrap x) (length x) 0 = sumR x).
  { apply shiftsum_0_id. intros i Hi. unfold ext_wrap. apply Z.mod_small. lia. }
  revert c. apply Z.peano_ind.
  - exact H0.
  - intros d Hd. unfold Z.succ. rewrite Hstep. exact Hd.
  - intros d Hd. rewrite <- Hd. replace d with (Z.pred d + 1)%Z at 2 by lia. rewrite Hstep. reflexivity.
Qed.

Lemma sumR_nth_all w : sumR (map (fun k => nth k w 0) (seq 0 (length w))) = sumR w.
Proof. apply sumR_nth_seq. Qed.

(* wrap conserves the total for ANY kernel of sum 1 *)
Lemma corr1_wrap_total w x : (0 < length x)%nat ->
  sumR (corr1 ROps ext_wrap w x) = sumR w * sumR x.
Proof.
  intros Hn. rewrite corr1_sum.
  rewrite (sumR_map_ext _ (fun k => sumR x * nth k w 0)).
  - rewrite sumR_map_scale, sumR_nth_all. ring.
  - intros k _. rewrite wrap_shiftsum_const by exact Hn. ring.
Qed.

(* --------------------------------------------------------------- reflect *)
Lemma reflect_mod n j : (0 < n)%Z -> ((-1 - j) mod (2 * n) = 2 * n - 1 - j mod (2 * n))%Z.
Proof.
  intros Hn. pose proof (Z.mod_pos_bound j (2 * n) ltac:(lia)) as Hb.
  symmetry. apply Z.mod_unique with (q := (- (j / (2 * n)) - 1)%Z); [left; lia |].
  pose proof (Z.div_mod j (2 * n) ltac:(lia)). nia.
Qed.

Lemma reflect_sym_m1 x j : (0 < length x)%nat ->
  gext ext_reflect x (-1 - j) = gext ext_reflect x j.
Proof.
  intros Hn. unfold gext, ext_reflect. do 2 f_equal.
  set (n := Z.of_nat (length x)). assert (Hn' : (0 < n)%Z) by (unfold n; lia).
  cbv zeta. rewrite reflect_mod by exact Hn'.
  pose proof (Z.mod_pos_bound j (2 * n) ltac:(lia)) as Hb.
  destruct (Z.ltb_spec (2 * n - 1 - j mod (2 * n)) n); destruct (Z.ltb_spec (j mod (2 * n)) n); lia.
Qed.

Lemma reflect_periodic x j : (0 < length x)%nat ->
  gext ext_reflect x (2 * Z.of_nat (length x) + j) = gext ext_reflect x j.
Proof.
  intros Hn. unfold gext, ext_reflect. do 2 f_equal. cbv zeta.
  replace ((2 * Z.of_nat (length x) + j) mod (2 * Z.of_nat (length x)))%Z
    with (j mod (2 * Z.of_nat (length x)))%Z; [reflexivity |].
  rewrite Z.add_comm.
  replace (j + 2 * Z.of_nat (length x))%Z with (j + 1 * (2 * Z.of_nat (length x)))%Z by lia.
  symmetry. apply Z_mod_plus_full.
Qed.

Lemma reflect_sym_top x j : (0 < length x)%nat ->
  gext ext_reflect x (2 * Z.of_nat (length x) - 1 - j) = gext ext_reflect x j.
Proof.
  intros Hn.
  replace (2 * Z.of_nat (length x) - 1 - j)%Z with (2 * Z.of_nat (length x) + (-1 - j))%Z by lia.
  rewrite reflect_periodic by exact Hn. apply reflect_sym_m1. exact Hn.
Qed.

Lemma reflect_pair_nat x m : (0 < length x)%nat ->
  shiftsum (gext ext_reflect x) (length x) (Z.of_nat m)
  + shiftsum (gext ext_reflect x) (length x) (- Z.of_nat m) = 2 * sumR x.
Proof.
  intros Hn. set (n := length x) in *. set (g := gext ext_reflect x).
  induction m as [| m IH].
  - simpl Z.of_nat. simpl Z.opp.
    assert (H0 : shiftsum g n 0 = sumR x).
    { apply shiftsum_0_id. intros i Hi. unfold ext_reflect. cbv zeta.
      rewrite Z.mod_small by lia. destruct (Z.ltb_spec (Z.of_nat i) (Z.of_nat (length x))); lia. }
    rewrite H0. ring.
  - replace (Z.of_nat (S m)) with (Z.of_nat m + 1)%Z by lia.
    rewrite shiftsum_step.
    pose proof (shiftsum_step g n (- (Z.of_nat m + 1))) as H2.
    replace (- (Z.of_nat m + 1) + 1)%Z with (- Z.of_nat m)%Z in H2 by lia.
    assert (E1 : g (Z.of_nat n + Z.of_nat m)%Z = g (Z.of_nat n + - (Z.of_nat m + 1))%Z).
    { replace (Z.of_nat n + Z.of_nat m)%Z
        with (2 * Z.of_nat n - 1 - (Z.of_nat n + - (Z.of_nat m + 1)))%Z by lia.
      apply reflect_sym_top. exact Hn. }
    assert (E2 : g (- (Z.of_nat m + 1))%Z = g (Z.of_nat m)).
    { replace (- (Z.of_nat m + 1))%Z with (-1 - Z.of_nat m)%Z by lia. apply reflect_sym_m1. exact Hn. }
    lra.
Qed.

Lemma reflect_pair x c : (0 < length x)%nat ->
  shiftsum (gext ext_reflect x) (length x) c + shiftsum (gext ext_reflect x) (length x) (- c)
  = 2 * sumR x.
Proof.
  intros Hn. destruct (Z.le_ge_cases 0 c) as [H | H].
  - rewrite <- (Z2Nat.id c H). apply reflect_pair_nat. exact Hn.
  - rewrite Rplus_comm. replace c with (- Z.of_nat (Z.to_nat (- c)))%Z at 2 by lia.
    replace (- c)%Z with (Z.of_nat (Z.to_nat (- c))) at 1 by lia.
    apply reflect_pair_nat. exact Hn.
Qed.

(* reversing a finite sum *)
Lemma sumR_rev (f : nat -> R) L :
  sumR (map f (seq 0 L)) = sumR (map (fun k => f (L - 1 - k)%nat) (seq 0 L)).
Proof.
  induction L as [| L IH]; [reflexivity |].
  transitivity (sumR (map f (seq 0 L)) + f L).
  - rewrite seq_S, map_app, sumR_app. cbn [map]. rewrite sumR_cons, sumR_nil.
    replace (0 + L)%nat with L by lia. ring.
  - cbn [seq map]. rewrite sumR_cons, <- seq_shift, map_map. rewrite IH.
    replace (S L - 1 - 0)%nat with L by lia.
    rewrite (sumR_map_ext (fun k => f (S L - 1 - S k)%nat) (fun k => f (L - 1 - k)%nat)).
    + ring.
    + intros k _. f_equal. lia.
Qed.

Definition sym_kernel (w : list R) (r : nat) : Prop :=
  length w = (2 * r + 1)%nat /\ forall k, (k <= 2 * r)%nat -> nth k w 0 = nth (2 * r - k) w 0.

Lemma div2_odd r : Nat.div2 (2 * r + 1) = r.
Proof. replace (2 * r + 1)%nat with (S (2 * r)) by lia. apply Nat.div2_succ_double. Qed.

(* reflect conserves the total for a SYMMETRIC kernel of sum 1 *)
Lemma corr1_reflect_total w r x : sym_kernel w r -> (0 < length x)%nat ->
  sumR (corr1 ROps ext_reflect w x) = sumR w * sumR x.
Proof.
  intros [Hl Hs] Hn. rewrite corr1_sum. rewrite Hl, div2_odd.
  set (S := shiftsum (gext ext_reflect x) (length x)).
  set (T := sumR (map (fun k => nth k w 0 * S (Z.of_nat k - Z.of_nat r)%Z) (seq 0 (2 * r + 1)))).
  assert (Hrev : T = sumR (map (fun k => nth k w 0 * S (- (Z.of_nat k - Z.of_nat r))%Z) (seq 0 (2 * r + 1)))).
  { unfold T. rewrite sumR_rev. apply sumR_map_ext. intros k Hk. apply in_seq in Hk.
    replace (2 * r + 1 - 1 - k)%nat with (2 * r - k)%nat by lia.
    rewrite <- (Hs k) by lia. f_equal. f_equal. lia. }
  assert (H2 : T + T = 2 * (sumR w * sumR x)).
  { rewrite Hrev at 2. unfold T. rewrite <- sumR_map_add.
    rewrite (sumR_map_ext _ (fun k => (2 * sumR x) * nth k w 0)).
    - rewrite sumR_map_scale. rewrite <- Hl, sumR_nth_all. ring.
    - intros k _. pose proof (reflect_pair x (Z.of_nat k - Z.of_nat r) Hn) as Hp. fold S in Hp.
      rewrite <- Hp. ring. }
  lra.
Qed.

(* ------------------------------------------------------- non-negativity *)
Lemma nth_nonneg l k : Forall (fun v => 0 <= v) l -> 0 <= nth k l 0.
Proof.
  intros H. revert k; induction H as [| v l Hv H IH]; intros [| k]; simpl; try lra. apply IH.
Qed.

Lemma corr1_nonneg ext w x : Forall (fun v => 0 <= v) w -> Forall (fun v => 0 <= v) x ->
  Forall (fun v => 0 <= v) (corr1 ROps ext w x).
Proof.
  intros Hw Hx. rewrite corr1_unfold. apply Forall_forall. intros y Hy.
  apply in_map_iff in Hy. destruct Hy as [i [E _]]. subst y.
  apply sumR_nonneg. apply Forall_forall. intros y Hy.
  apply in_map_iff in Hy. destruct Hy as [k [E _]]. subst y.
  apply Rmult_le_pos; [apply nth_nonneg; exact Hw | unfold gext; apply nth_nonneg; exact Hx].
Qed.

(* ------------------------------------------------------------ transpose *)
Lemma col_length j m : length (col ROps j m) = length m.
Proof. unfold col. apply map_length. Qed.

Lemma transpose_rect nr nc m : rect nr nc m -> rect nc nr (transpose ROps nc m).
Proof.
  intros [H1 H2]. unfold rect, transpose. split; [rewrite map_length, seq_length; reflexivity |].
  apply Forall_forall. intros r Hr. apply in_map_iff in Hr. destruct Hr as [j [E _]]. subst r.
  rewrite col_length. exact H1.
Qed.

Lemma transpose_sum nr nc m : rect nr nc m -> sum2R (transpose ROps nc m) = sum2R m.
Proof.
  intros [H1 H2]. clear H1. unfold transpose, sum2. rewrite map_map.
  induction H2 as [| row m Hr H IH].
  - exact (sumR_map_zero (seq 0 nc)).
  - cbn [map]. rewrite sumR_cons, <- IH.
    rewrite (sumR_map_ext (fun j => sumR (col ROps j (row :: m)))
                          (fun j => nth j row 0 + sumR (col ROps j m))).
    + rewrite sumR_map_add. f_equal. rewrite <- Hr. apply sumR_nth_seq.
    + intros j _. unfold col. cbn [map]. rewrite sumR_cons. reflexivity.
Qed.

Lemma transpose_nonneg nc m : nonneg2 m -> nonneg2 (transpose ROps nc m).
Proof.
  intros H. unfold nonneg2, transpose. apply Forall_forall. intros r Hr.
  apply in_map_iff in Hr. destruct Hr as [j [E _]]. subst r. unfold col.
  apply Forall_forall. intros y Hy. apply in_map_iff in Hy. destruct Hy as [row [E Hrow]]. subst y.
  change (zero ROps) with 0. apply nth_nonneg. unfold nonneg2 in H. rewrite Forall_forall in H. apply H. exact Hrow.
Qed.

(* row-wise filtering of a rectangular array *)
Lemma map_rows_total (F : list R -> list R) nr nc m :
  (forall x, length x = nc -> length (F x) = nc /\ sumR (F x) = sumR x) ->
  rect nr nc m -> rect nr nc (map F m) /\ sum2R (map F m) = sum2R m.
Proof.
  intros HF [H1 H2]. split.
  - split; [rewrite map_length; exact H1 |]. apply Forall_forall. intros r Hr.
    apply in_map_iff in Hr. destruct Hr as [x [E Hx]]. subst r.
    rewrite Forall_forall in H2. apply HF. apply H2. exact Hx.
  - clear H1. induction H2 as [| x m Hx H IH]; [reflexivity |].
    cbn [map]. rewrite !sum2R_cons, IH. destruct (HF x Hx) as [_ E]. rewrite E. reflexivity.
Qed.

Lemma map_rows_nonneg (F : list R -> list R) m :
  (forall x, Forall (fun v => 0 <= v) x -> Forall (fun v => 0 <= v) (F x)) ->
  nonneg2 m -> nonneg2 (map F m).
Proof.
  intros HF H. unfold nonneg2 in *. apply Forall_forall. intros r Hr.
  apply in_map_iff in Hr. destruct Hr as [x [E Hx]]. subst r. apply HF.
  rewrite Forall_forall in H. apply H. exact Hx.
Qed.

(* --------------------------------------------------- the 2-d smoothing *)
Definition kernel_ok (w : list R) : Prop :=
  (exists r, sym_kernel w r) /\ sumR w = 1 /\ Forall (fun v => 0 <= v) w.

Lemma gauss2d_total w nr nc m : kernel_ok w -> (0 < nr)%nat -> (0 < nc)%nat -> rect nr nc m ->
  rect nr nc (gauss2d ROps w nr nc m) /\ sum2R (gauss2d ROps w nr nc m) = sum2R m.
Proof.
  intros [[r Hsym] [Hsum Hpos]] Hnr Hnc Hm. unfold gauss2d.
  pose proof (transpose_rect nr nc m Hm) as R1.
  pose proof (transpose_sum nr nc m Hm) as S1.
  assert (FW : forall x, length x = nr ->
             length (corr1 ROps ext_wrap w x) = nr /\ sumR (corr1 ROps ext_wrap w x) = sumR x).
  { intros x Hx. split; [rewrite corr1_length; exact Hx |].
    rewrite corr1_wrap_total by lia. rewrite Hsum. ring. }
  destruct (map_rows_total _ nc nr _ FW R1) as [R2 S2].
  pose proof (transpose_rect nc nr _ R2) as R3.
  pose proof (transpose_sum nc nr _ R2) as S3.
  assert (FR : forall x, length x = nc ->
             length (corr1 ROps ext_reflect w x) = nc /\ sumR (corr1 ROps ext_reflect w x) = sumR x).
  { intros x Hx. split; [rewrite corr1_length; exact Hx |].
    rewrite (corr1_reflect_total w r) by (try exact Hsym; lia). rewrite Hsum. ring. }
  destruct (map_rows_total _ nr nc _ FR R3) as [R4 S4].
  split; [exact R4 |]. rewrite S4, S3, S2, S1. reflexivity.
Qed.

Lemma gauss2d_nonneg w nr nc m : Forall (fun v => 0 <= v) w -> nonneg2 m ->
  nonneg2 (gauss2d ROps w nr nc m).
Proof.
  intros Hw Hm. unfold gauss2d.
  apply map_rows_nonneg; [intros x Hx; apply corr1_nonneg; assumption |].
  apply transpose_nonneg. apply map_rows_nonneg; [intros x Hx; apply corr1_nonneg; assumption |].
  apply transpose_nonneg. exact Hm.
Qed.

(* ------------------------------------------------ the whole plain pipeline *)
Lemma concat_nonneg m : nonneg2 m -> Forall (fun v => 0 <= v) (concat m).
Proof.
  intros H. induction H as [| r m Hr H IH]; [constructor |]. simpl. apply Forall_app. split; assumption.
Qed.

Lemma concat_rect_length nr nc m : rect nr nc m -> length (concat m) = (nr * nc)%nat.
Proof.
  intros [H1 H2]. subst nr. induction H2 as [| r m Hr H IH]; [reflexivity |].
  simpl. rewrite app_length, IH, Hr. reflexivity.
Qed.

(* symmetry=None, mrd=False: the histogram after smoothing still sums to the
   total weight of the samples in the grid, and is non-negative for
   non-negative weights *)
Lemma pdf_counts_total ea ep w ss : kernel_ok w -> (2 <= length ea)%nat -> (2 <= length ep)%nat ->
  sumR (pdf_of_samples ROps ea ep w false ss) = sumR (map (weight_in ea ep) ss) /\
  length (pdf_of_samples ROps ea ep w false ss) = (pred (length ea) * pred (length ep))%nat /\
  (Forall (fun s => 0 <= snd s) ss -> Forall (fun v => 0 <= v) (pdf_of_samples ROps ea ep w false ss)).
Proof.
  intros Hk Ha Hp. unfold pdf_of_samples. cbv zeta.
  destruct (hist_total ea ep ss Ha Hp) as [R0 S0].
  assert (Hnr : (0 < pred (length ea))%nat) by lia.
  assert (Hnc : (0 < pred (length ep))%nat) by lia.
  destruct (gauss2d_total w _ _ _ Hk Hnr Hnc R0) as [R1 S1].
  repeat split.
  - rewrite sum2R_concat, S1, S0. reflexivity.
  - apply (concat_rect_length _ _ _ R1).
  - intros Hw. apply concat_nonneg. apply gauss2d_nonneg; [apply Hk | apply hist_nonneg; exact Hw].
Qed.

(* symmetry=None, mrd=True: when the total weight in the grid is non-zero the
   MRD density averages to exactly 1 over all bins *)
Lemma pdf_mrd_mean ea ep w ss : kernel_ok w -> (2 <= length ea)%nat -> (2 <= length ep)%nat ->
  sumR (map (weight_in ea ep) ss) <> 0 ->
  let h := pdf_of_samples ROps ea ep w true ss in
  mmean ROps (repeat true (length h)) h = 1.
Proof.
  intros Hk Ha Hp Hne. cbv zeta.
  destruct (pdf_counts_total ea ep w ss Hk Ha Hp) as [S [L _]].
  unfold pdf_of_samples in *. cbv zeta in *.
  set (h0 := concat (gauss2d ROps w (pred (length ea)) (pred (length ep)) (hist2d ROps ea ep ss))) in *.
  assert (Hlen : length (mrd ROps (repeat true (length h0)) h0) = length h0).
  { unfold mrd. apply map_length. }
  rewrite Hlen. apply mrd_mean_one.
  - rewrite mcount_all_true, L. nia.
  - rewrite msum_all_true, S. exact Hne.
Qed.

(* ------------------------------------------------------ with a point group *)
(* replacing the vectors by others that are folded to the same directions
   (symmetry-equivalent ones, when in_fundamental_sector is a function of the
   orbit -- C07) does not change the folded density *)
Lemma pdf_sym_invariant (fs : vec3 (T:=R) -> vec3 (T:=R)) ea ep w cr cc idx mask domrd vs vs' ws :
  Forall2 (fun v v' => fs v' = fs v) vs vs' ->
  pdf_sym ROps fs ea ep w cr cc idx mask domrd vs' ws = pdf_sym ROps fs ea ep w cr cc idx mask domrd vs ws.
Proof.
  intros H. unfold pdf_sym.
  assert (E : map fs vs' = map fs vs).
  { induction H as [| v v' vs vs' Hv H IH]; [reflexivity |]. cbn [map]. rewrite Hv, IH. reflexivity. }
  rewrite E. reflexivity.
Qed.

(* ------------------------------------------- which vectors are counted *)
(* an equal-area grid of one hemisphere: strictly increasing edges, azimuth
   from 0 to 2 PI, polar from p0 to p1 *)
Definition grid_ok (ea ep : list R) (p0 p1 : R) : Prop :=
  exists la lp, ea = 0 :: la /\ ep = p0 :: lp /\ (1 <= length la)%nat /\ (1 <= length lp)%nat /\
    incr ea /\ incr ep /\ last ea 0 = 2 * PI /\ last ep 0 = p1.

Lemma angles_unfold x y z :
  angles ROps (x, y, z) =
  if Reqb (nrm (x, y, z)) 0 then None
  else Some (v_azimuth ROps x y z, v_polar ROps x y z).
Proof. reflexivity. Qed.

(* upper hemisphere grid: a vector is counted iff it is
   non-zero and has z >= 0 *)
Lemma counted_upper ea ep x y z w : grid_ok ea ep 0 (PI / 2) ->
  (cell ROps ea ep (angles ROps (x, y, z), w) <> None <->
   0 < nrm (x, y, z) /\ 0 <= z).
Proof.
  intros [la [lp [Ea [Ep [Hla [Hlp [Ia [Ip [La Lp]]]]]]]]].
  unfold cell. cbn [fst]. rewrite angles_unfold. unfold Reqb.
  pose proof (nrm_nonneg (x, y, z)) as Hn0.
  destruct (Req_EM_T (nrm (x, y, z)) 0) as [E | E].
  - split; [intros H; contradiction | intros [H _]; lra].
  - assert (Hn : 0 < nrm (x, y, z)) by lra.
    pose proof (azimuth_range x y z) as Haz.
    assert (Ba : bin_of ROps ea (v_azimuth ROps x y z) <> None).
    { subst ea. apply bin_of_some; auto. rewrite La. lra. }
    destruct (bin_of ROps ea (v_azimuth ROps x y z)) as [i |] eqn:Bi; [| contradiction].
    pose proof (polar_upper x y z Hn) as Hp.
    assert (Bp : bin_of ROps ep (v_polar ROps x y z) <> None
                 <-> 0 <= v_polar ROps x y z <= PI / 2).
    { subst ep. rewrite bin_of_some by auto. rewrite Lp. reflexivity. }
    destruct (bin_of ROps ep (v_polar ROps x y z)) as [j |] eqn:Bj.
    + split; [intros _ | intros _; discriminate]. split; [exact Hn |]. apply Hp. apply Bp. discriminate.
    + split; [intros H; contradiction H; reflexivity |]. intros [_ Hz].
      apply Hp in Hz. apply Bp in Hz. contradiction.
Qed.

Lemma counted_lower ea ep x y z w : grid_ok ea ep (PI / 2) PI ->
  (cell ROps ea ep (angles ROps (x, y, z), w) <> None <->
   0 < nrm (x, y, z) /\ z <= 0).
Proof.
  intros [la [lp [Ea [Ep [Hla [Hlp [Ia [Ip [La Lp]]]]]]]]].
  unfold cell. cbn [fst]. rewrite angles_unfold. unfold Reqb.
  pose proof (nrm_nonneg (x, y, z)) as Hn0.
  destruct (Req_EM_T (nrm (x, y, z)) 0) as [E | E].
  - split; [intros H; contradiction | intros [H _]; lra].
  - assert (Hn : 0 < nrm (x, y, z)) by lra.
    pose proof (azimuth_range x y z) as Haz.
    assert (Ba : bin_of ROps ea (v_azimuth ROps x y z) <> None).
    { subst ea. apply bin_of_some; auto. rewrite La. lra. }
    destruct (bin_of ROps ea (v_azimuth ROps x y z)) as [i |] eqn:Bi; [| contradiction].
    pose proof (polar_lower x y z Hn) as Hp.
    assert (Bp : bin_of ROps ep (v_polar ROps x y z) <> None
                 <-> PI / 2 <= v_polar ROps x y z <= PI).
    { subst ep. rewrite bin_of_some by auto. rewrite Lp. reflexivity. }
    destruct (bin_of ROps ep (v_polar ROps x y z)) as [j |] eqn:Bj.
    + split; [intros _ | intros _; discriminate]. split; [exact Hn |]. apply Hp. apply Bp. discriminate.
    + split; [intros H; contradiction H; reflexivity |]. intros [_ Hz].
      apply Hp in Hz. apply Bp in Hz. contradiction.
Qed.
