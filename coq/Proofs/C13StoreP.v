(* C13 -- lemmas about the generic store model (Model/C13Store.v):
   string codec, scalar unwrapping, name-ordered listing, and the generic
   round trip  hdf5group2dict (dict2hdf5group d) = rd d. *)
From Coq Require Import ZArith List Bool String Ascii Lia Permutation DecimalString DecimalZ Decimal.
From Verif Require Import C13Store.
Import ListNotations.
Local Open Scope Z_scope.

(* ------------------------------------------------------------ string codec *)
(* a python str the writer can encode and the store keeps whole: Unicode scalar
   values (no surrogates), no NUL character (numpy/h5py drop trailing NULs of a
   fixed-width item) *)
Definition ustr (s : pystr) : Prop :=
  Forall (fun c => 0 < c < 1114112 /\ ~ (55296 <= c < 57344)) s.
Definition ascii_str (s : pystr) : Prop := Forall (fun c => 0 < c < 128) s.
Lemma ascii_ustr s : ascii_str s -> ustr s.
Proof. apply Forall_impl. intros c H. lia. Qed.

Lemma utf8_1_nonzero c : 0 < c -> Forall (fun b => b <> 0) (utf8_1 c).
Proof.
  intros H. unfold utf8_1.
  destruct (c <? 128) eqn:E1; [repeat constructor; lia|].
  destruct (c <? 2048) eqn:E2; [|destruct (c <? 65536) eqn:E3];
    apply Z.ltb_ge in E1; repeat constructor;
    try (pose proof (Z.div_pos c 64 ltac:(lia) ltac:(lia));
         pose proof (Z.div_pos c 4096 ltac:(lia) ltac:(lia));
         pose proof (Z.div_pos c 262144 ltac:(lia) ltac:(lia));
         pose proof (Z.mod_pos_bound c 64 ltac:(lia));
         pose proof (Z.mod_pos_bound (c / 64) 64 ltac:(lia));
         pose proof (Z.mod_pos_bound (c / 4096) 64 ltac:(lia)); lia).
Qed.

Lemma strip_nul_nonzero s : Forall (fun c => c <> 0) s -> strip_nul s = s.
Proof.
  induction 1 as [|c s Hc _ IH]; [reflexivity|]. simpl. rewrite IH.
  destruct s; [|reflexivity]. destruct (c =? 0) eqn:E; [apply Z.eqb_eq in E; contradiction|reflexivity].
Qed.

Lemma firstn_S_length {A} (l : list A) : firstn (S (List.length l)) l = l.
Proof. apply firstn_all2. lia. Qed.

(* the stored payload is the whole UTF-8 encoding *)
Lemma str_stored_utf8 s : ustr s -> str_stored s = utf8 s.
Proof.
  intros H. unfold str_stored. rewrite firstn_S_length. apply strip_nul_nonzero.
  unfold utf8. induction H as [|c s Hc _ IH]; [constructor|]. simpl.
  apply Forall_app. split; [apply utf8_1_nonzero; lia|exact IH].
Qed.

Lemma utf8_dec_cons b0 r : utf8_dec (b0 :: r) =
      if b0 <? 128 then option_map (cons b0) (utf8_dec r)
      else if b0 <? 194 then None
      else if b0 <? 224 then
        match r with
        | b1 :: r1 =>
            if cont b1 then option_map (cons ((b0 - 192) * 64 + (b1 - 128))) (utf8_dec r1) else None
        | _ => None
        end
      else if b0 <? 240 then
        match r with
        | b1 :: b2 :: r2 =>
            let c := (b0 - 224) * 4096 + (b1 - 128) * 64 + (b2 - 128) in
            if cont b1 && cont b2 && (2048 <=? c) && negb ((55296 <=? c) && (c <? 57344))
            then option_map (cons c) (utf8_dec r2) else None
        | _ => None
        end
      else if b0 <? 245 then
        match r with
        | b1 :: b2 :: b3 :: r3 =>
            let c := (b0 - 240) * 262144 + (b1 - 128) * 4096 + (b2 - 128) * 64 + (b3 - 128) in
            if cont b1 && cont b2 && cont b3 && (65536 <=? c) && (c <? 1114112)
            then option_map (cons c) (utf8_dec r3) else None
        | _ => None
        end
      else None.
Proof. reflexivity. Qed.

(* python's strict decoder inverts the encoder, one code point at a time *)
Lemma utf8_dec_1 c rest : 0 <= c < 1114112 -> ~ (55296 <= c < 57344) ->
  utf8_dec (utf8_1 c ++ rest) = option_map (cons c) (utf8_dec rest).
Proof.
  intros Hc Hs. unfold utf8_1.
  destruct (c <? 128) eqn:E1.
  { cbn [List.app]. rewrite utf8_dec_cons, E1. reflexivity. }
  apply Z.ltb_ge in E1.
  destruct (c <? 2048) eqn:E2.
  { apply Z.ltb_lt in E2. cbn [List.app]. rewrite utf8_dec_cons. unfold cont.
    assert (A : 2 <= c / 64 < 32) by (split; [apply Z.div_le_lower_bound|apply Z.div_lt_upper_bound]; lia).
    pose proof (Z.mod_pos_bound c 64 ltac:(lia)) as B.
    replace (192 + c / 64 <? 128) with false by (symmetry; apply Z.ltb_ge; lia).
    replace (192 + c / 64 <? 194) with false by (symmetry; apply Z.ltb_ge; lia).
    replace (192 + c / 64 <? 224) with true by (symmetry; apply Z.ltb_lt; lia).
    replace (128 <=? 128 + c mod 64) with true by (symmetry; apply Z.leb_le; lia).
    replace (128 + c mod 64 <? 192) with true by (symmetry; apply Z.ltb_lt; lia).
    cbv iota. cbn [andb]. replace ((192 + c / 64 - 192) * 64 + (128 + c mod 64 - 128)) with c; [reflexivity|].
    pose proof (Z.div_mod c 64 ltac:(lia)). lia. }
  apply Z.ltb_ge in E2.
  destruct (c <? 65536) eqn:E3.
  { apply Z.ltb_lt in E3. cbn [List.app]. rewrite utf8_dec_cons. unfold cont.
    assert (A : 0 <= c / 4096 < 16) by (split; [apply Z.div_pos|apply Z.div_lt_upper_bound]; lia).
    pose proof (Z.mod_pos_bound c 64 ltac:(lia)) as B.
    pose proof (Z.mod_pos_bound (c / 64) 64 ltac:(lia)) as B2.
    assert (D : c = c / 4096 * 4096 + (c / 64) mod 64 * 64 + c mod 64).
    { pose proof (Z.div_mod c 64 ltac:(lia)). pose proof (Z.div_mod (c / 64) 64 ltac:(lia)).
      rewrite Z.div_div in H0 by lia. change (64 * 64) with 4096 in H0. lia. }
    replace (224 + c / 4096 <? 128) with false by (symmetry; apply Z.ltb_ge; lia).
    replace (224 + c / 4096 <? 194) with false by (symmetry; apply Z.ltb_ge; lia).
    replace (224 + c / 4096 <? 224) with false by (symmetry; apply Z.ltb_ge; lia).
    replace (224 + c / 4096 <? 240) with true by (symmetry; apply Z.ltb_lt; lia).
    replace (128 <=? 128 + (c / 64) mod 64) with true by (symmetry; apply Z.leb_le; lia).
    replace (128 + (c / 64) mod 64 <? 192) with true by (symmetry; apply Z.ltb_lt; lia).
    replace (128 <=? 128 + c mod 64) with true by (symmetry; apply Z.leb_le; lia).
    replace (128 + c mod 64 <? 192) with true by (symmetry; apply Z.ltb_lt; lia).
    cbv iota zeta. cbn [andb].
    replace ((224 + c / 4096 - 224) * 4096 + (128 + (c / 64) mod 64 - 128) * 64 + (128 + c mod 64 - 128)) with c by lia.
    replace (2048 <=? c) with true by (symmetry; apply Z.leb_le; lia).
    replace ((55296 <=? c) && (c <? 57344)) with false; [reflexivity|].
    symmetry. apply andb_false_iff. destruct (Z_lt_dec c 55296); [left; apply Z.leb_gt; lia|right; apply Z.ltb_ge; lia]. }
  apply Z.ltb_ge in E3.
  cbn [List.app]. rewrite utf8_dec_cons. unfold cont.
  assert (A : 0 <= c / 262144 < 5) by (split; [apply Z.div_pos|apply Z.div_lt_upper_bound]; lia).
  pose proof (Z.mod_pos_bound c 64 ltac:(lia)) as B.
  pose proof (Z.mod_pos_bound (c / 64) 64 ltac:(lia)) as B2.
  pose proof (Z.mod_pos_bound (c / 4096) 64 ltac:(lia)) as B3.
  assert (D : c = c / 262144 * 262144 + (c / 4096) mod 64 * 4096 + (c / 64) mod 64 * 64 + c mod 64).
  { pose proof (Z.div_mod c 64 ltac:(lia)). pose proof (Z.div_mod (c / 64) 64 ltac:(lia)).
    pose proof (Z.div_mod (c / 4096) 64 ltac:(lia)).
    rewrite Z.div_div in H0 by lia. change (64 * 64) with 4096 in H0.
    rewrite Z.div_div in H1 by lia. change (4096 * 64) with 262144 in H1. lia. }
  replace (240 + c / 262144 <? 128) with false by (symmetry; apply Z.ltb_ge; lia).
  replace (240 + c / 262144 <? 194) with false by (symmetry; apply Z.ltb_ge; lia).
  replace (240 + c / 262144 <? 224) with false by (symmetry; apply Z.ltb_ge; lia).
  replace (240 + c / 262144 <? 240) with false by (symmetry; apply Z.ltb_ge; lia).
  replace (240 + c / 262144 <? 245) with true by (symmetry; apply Z.ltb_lt; lia).
  replace (128 <=? 128 + (c / 4096) mod 64) with true by (symmetry; apply Z.leb_le; lia).
  replace (128 + (c / 4096) mod 64 <? 192) with true by (symmetry; apply Z.ltb_lt; lia).
  replace (128 <=? 128 + (c / 64) mod 64) with true by (symmetry; apply Z.leb_le; lia).
  replace (128 + (c / 64) mod 64 <? 192) with true by (symmetry; apply Z.ltb_lt; lia).
  replace (128 <=? 128 + c mod 64) with true by (symmetry; apply Z.leb_le; lia).
  replace (128 + c mod 64 <? 192) with true by (symmetry; apply Z.ltb_lt; lia).
  cbv iota zeta. cbn [andb].
  replace ((240 + c / 262144 - 240) * 262144 + (128 + (c / 4096) mod 64 - 128) * 4096
           + (128 + (c / 64) mod 64 - 128) * 64 + (128 + c mod 64 - 128)) with c by lia.
  replace (65536 <=? c) with true by (symmetry; apply Z.leb_le; lia).
  replace (c <? 1114112) with true by (symmetry; apply Z.ltb_lt; lia).
  reflexivity.
Qed.

Lemma utf8_dec_utf8 s : ustr s -> utf8_dec (utf8 s) = Some s.
Proof.
  unfold utf8. induction 1 as [|c s Hc _ IH]; [reflexivity|]. simpl.
  rewrite utf8_dec_1 by lia. rewrite IH. reflexivity.
Qed.

(* every str value (Unicode scalar values, no NUL) is read back unchanged *)
Theorem str_roundtrip s : ustr s -> decode_str (str_stored s) = s.
Proof. intros H. unfold decode_str. now rewrite (str_stored_utf8 s H), (utf8_dec_utf8 s H). Qed.
Corollary str_roundtrip_ascii s : ascii_str s -> decode_str (str_stored s) = s.
Proof. intros H. apply str_roundtrip, ascii_ustr, H. Qed.
(* the regression witnesses of the repaired defect: "µm" and a string with two
   non-ASCII characters (which the old width, counted in characters, truncated) *)
Example str_roundtrip_micro : decode_str (str_stored [181; 109]) = [181; 109].
Proof. reflexivity. Qed.
Example str_roundtrip_two_nonascii : decode_str (str_stored [945; 946; 8323]) = [945; 946; 8323].
Proof. reflexivity. Qed.
(* bytes that are not UTF-8 (files of other writers) are read as latin-1, as before *)
Lemma decode_str_fallback b : utf8_dec b = None -> decode_str b = latin1 b.
Proof. intros H. unfold decode_str. now rewrite H. Qed.

(* ------------------------------------------------------------- decimal ids *)
Lemma to_int_not_nil z : Z.to_int z <> Pos Nil /\ Z.to_int z <> Neg Nil.
Proof.
  split; intros E;
    assert (Hz : z = 0) by (apply (f_equal Z.of_int) in E; rewrite of_to in E; exact E);
    subst z; vm_compute in E; discriminate.
Qed.

Theorem zint_zstr z : zint (zstr z) = Some z.
Proof.
  unfold zint, zstr. destruct (to_int_not_nil z) as [H1 H2].
  rewrite (NilZero.isi _ H1 H2). now rewrite of_to.
Qed.

Lemma zstr_inj a b : zstr a = zstr b -> a = b.
Proof. intros E. apply (f_equal zint) in E. rewrite !zint_zstr in E. congruence. Qed.

(* ------------------------------------------------------- association lists *)
Section AssocP.
Context {V : Type}.
Implicit Types l : dict V.

Lemma kinsert_perm kv l : Permutation (kinsert kv l) (kv :: l).
Proof.
  induction l as [|a l IH]; simpl; [reflexivity|].
  destruct (String.leb (fst kv) (fst a)); [reflexivity|].
  rewrite IH. apply perm_swap.
Qed.
Lemma sortk_perm l : Permutation (sortk l) l.
Proof. induction l as [|a l IH]; simpl; [reflexivity|]. rewrite kinsert_perm. now constructor. Qed.

Lemma lookup_in k v l : NoDup (map fst l) -> In (k, v) l -> lookup k l = Some v.
Proof.
  induction l as [|[k' v'] l IH]; simpl; [tauto|]. intros Hnd [E|Hin].
  - inversion E; subst. now rewrite String.eqb_refl.
  - inversion Hnd; subst. destruct (String.eqb k k') eqn:E.
    + apply String.eqb_eq in E. subst. exfalso. apply H1. apply (in_map fst) in Hin. exact Hin.
    + auto.
Qed.
Lemma lookup_none k l : ~ In k (map fst l) -> lookup k l = None.
Proof.
  induction l as [|[k' v'] l IH]; simpl; [reflexivity|]. intros H.
  destruct (String.eqb k k') eqn:E; [apply String.eqb_eq in E; subst; tauto|]. apply IH. tauto.
Qed.
Lemma lookup_some_in k v l : lookup k l = Some v -> In (k, v) l.
Proof.
  induction l as [|[k' v'] l IH]; simpl; [discriminate|].
  destruct (String.eqb k k') eqn:E; [apply String.eqb_eq in E; subst; intros [= ->]; now left|].
  intros H. right. auto.
Qed.

Lemma lookup_perm k l l' : NoDup (map fst l) -> Permutation l l' -> lookup k l' = lookup k l.
Proof.
  intros Hnd Hp. destruct (lookup k l) as [v|] eqn:E.
  - apply lookup_some_in in E. apply lookup_in.
    + eapply Permutation_NoDup; [apply Permutation_map; exact Hp|exact Hnd].
    + eapply Permutation_in; eauto.
  - apply lookup_none. intros Hin. apply (Permutation_in _ (Permutation_sym (Permutation_map fst Hp))) in Hin.
    apply in_map_iff in Hin. destruct Hin as [[k' v] [Ek Hin]]. simpl in Ek. subst k'.
    rewrite (lookup_in k v l Hnd Hin) in E. discriminate.
Qed.

(* listing the links in name order does not change what a key maps to *)
Lemma lookup_sortk k l : NoDup (map fst l) -> lookup k (sortk l) = lookup k l.
Proof. intros H. apply lookup_perm; [exact H|]. apply Permutation_sym, sortk_perm. Qed.

Lemma lookup_app_l k l l' v : lookup k l = Some v -> lookup k (l ++ l') = Some v.
Proof.
  induction l as [|[k' v'] l IH]; simpl; [discriminate|]. destruct (String.eqb k k'); auto.
Qed.

(* sorting only looks at the keys *)
Lemma kinsert_map {W} (f : V -> W) kv l :
  kinsert (fst kv, f (snd kv)) (map (fun kv => (fst kv, f (snd kv))) l)
  = map (fun kv => (fst kv, f (snd kv))) (kinsert kv l).
Proof.
  induction l as [|a l IH]; simpl; [reflexivity|].
  destruct (String.leb (fst kv) (fst a)); simpl; [reflexivity|]. now rewrite IH.
Qed.
Lemma sortk_map {W} (f : V -> W) l :
  sortk (map (fun kv => (fst kv, f (snd kv))) l) = map (fun kv => (fst kv, f (snd kv))) (sortk l).
Proof. induction l as [|a l IH]; simpl; [reflexivity|]. rewrite IH. apply kinsert_map. Qed.

(* a list whose keys are already in name order is listed as it is *)
Fixpoint ksorted (l : list string) : bool :=
  match l with
  | a :: ((b :: _) as r) => String.leb a b && ksorted r
  | _ => true
  end.
Lemma sortk_sorted l : ksorted (map fst l) = true -> sortk l = l.
Proof.
  induction l as [|a l IH]; [reflexivity|]. intros H. simpl.
  destruct l as [|b l]; [reflexivity|].
  simpl in H. apply andb_prop in H. destruct H as [Hab Hs]. rewrite (IH Hs). simpl. now rewrite Hab.
Qed.

(* dict.update with fresh, distinct keys appends *)
Lemma dict_set_fresh k v l : ~ In k (map fst l) -> dict_set k v l = l ++ [(k, v)].
Proof.
  induction l as [|[k' v'] l IH]; simpl; [reflexivity|]. intros H.
  destruct (String.eqb k k') eqn:E; [apply String.eqb_eq in E; subst; tauto|]. rewrite IH; tauto.
Qed.
Lemma dict_update_fresh l new :
  NoDup (map fst new) -> (forall k, In k (map fst new) -> ~ In k (map fst l)) ->
  dict_update l new = l ++ new.
Proof.
  unfold dict_update. revert l. induction new as [|[k v] new IH]; intros l Hnd Hfr; simpl.
  - now rewrite app_nil_r.
  - inversion Hnd; subst. rewrite dict_set_fresh by (apply Hfr; now left).
    rewrite IH; [now rewrite <- app_assoc|exact H2|].
    intros k' Hin. rewrite map_app, in_app_iff. simpl. intros [Hl|[->|[]]].
    + apply (Hfr k'); [now right|exact Hl].
    + contradiction.
Qed.

Lemma remove_keys_perm ks l l' : Permutation l l' -> Permutation (remove_keys ks l) (remove_keys ks l').
Proof.
  unfold remove_keys. induction 1; simpl.
  - constructor.
  - destruct (negb _); [constructor|]; assumption.
  - destruct (negb _), (negb _); try reflexivity. apply perm_swap.
  - etransitivity; eassumption.
Qed.
End AssocP.

Fixpoint nodupb (l : list string) : bool :=
  match l with [] => true | a :: r => negb (existsb (String.eqb a) r) && nodupb r end.
Lemma nodupb_sound l : nodupb l = true -> NoDup l.
Proof.
  induction l as [|a l IH]; [constructor|]. simpl. intros H. apply andb_prop in H. destruct H as [H1 H2].
  constructor; [|auto]. intros Hin. apply negb_true_iff in H1.
  assert (existsb (String.eqb a) l = true) by (apply existsb_exists; exists a; split; [exact Hin|apply String.eqb_refl]).
  congruence.
Qed.

(* ------------------------------------------------------------------ arrays *)
Section StoreP.
Context {T : Type}.

(* the reader's scalar unwrapping leaves alone every array whose first axis is not of length one ... *)
Theorem unwrap_id (a : arr T) : (alen a <> 1)%nat -> unwrap a = RA a.
Proof.
  unfold unwrap, alen. destruct a as [dt sh d]. simpl.
  destruct sh as [|n rest]; [reflexivity|]. simpl. intros H.
  destruct n as [|[|n]]; try reflexivity. contradiction.
Qed.
(* ... and turns a length-one array into a scalar (the dataset can no longer be told from a 0-d value) *)
Theorem unwrap_one_refuted : forall x : T, exists a : arr T, alen a = 1%nat /\ unwrap a <> RA a.
Proof. intros x. exists (mkArr "float64" [1%nat] (DF [x])). split; [reflexivity|]. simpl. discriminate. Qed.

(* induction principle for the nested type pv *)
Section pv_ind2.
  Variable P : pv T -> Prop.
  Hypothesis HD : forall l, Forall (fun kv => P (snd kv)) l -> P (PD l).
  Hypothesis HS : forall s, P (PS s).
  Hypothesis HI : forall dt z, P (PI dt z).
  Hypothesis HF : forall dt x, P (PF dt x).
  Hypothesis HN : P PN.
  Hypothesis HA : forall a, P (PA a).
  Fixpoint pv_ind2 (v : pv T) : P v :=
    match v with
    | PD l => HD l ((fix go (l : list (string * pv T)) : Forall (fun kv => P (snd kv)) l :=
                       match l with
                       | [] => Forall_nil _
                       | kv :: r => Forall_cons kv (pv_ind2 (snd kv)) (go r)
                       end) l)
    | PS s => HS s | PI dt z => HI dt z | PF dt x => HF dt x | PN => HN | PA a => HA a
    end.
End pv_ind2.

(* generic round trip of the store: reading what the writer wrote gives the
   "expected reading" rd, for EVERY python value (nested dicts of strings,
   scalars, arrays of any shape and None items, which are left out) *)
Lemma flat_map_map {A B C} (f : A -> list B) (g : B -> C) l :
  map g (flat_map f l) = flat_map (fun x => map g (f x)) l.
Proof. induction l as [|a l IH]; simpl; [reflexivity|]. now rewrite map_app, IH. Qed.
Lemma flat_map_ext_in {A B} (f g : A -> list B) l :
  (forall x, In x l -> f x = g x) -> flat_map f l = flat_map g l.
Proof.
  induction l as [|a l IH]; intros H; simpl; [reflexivity|].
  rewrite (H a) by now left. rewrite IH; [reflexivity|]. intros; apply H; now right.
Qed.

Theorem store_roundtrip (v : pv T) : h52dict (dict2h5 v) = rd v.
Proof.
  induction v as [l IH|s|dt z|dt x| |a] using pv_ind2; try reflexivity.
  simpl. f_equal. f_equal. rewrite flat_map_map.
  apply flat_map_ext_in. intros [k x] Hin.
  rewrite Forall_forall in IH. specialize (IH (k, x) Hin). cbn [fst snd] in *.
  destruct x; cbn [map fst snd]; try reflexivity; now rewrite IH.
Qed.

(* an item the writer cannot write (None) is skipped; the items after it are written *)
Theorem none_skipped : forall (k : string) (l : list (string * pv T)),
  dict2h5 (PD ((k, PN) :: l)) = dict2h5 (PD l).
Proof. reflexivity. Qed.

(* the items of the expected reading of a dict *)
Definition rd_items (l : list (string * pv T)) : list (string * rv T) :=
  flat_map (fun kv : string * pv T => match snd kv with PN => [] | _ => [(fst kv, rd (snd kv))] end) l.
Lemma rd_PD (l : list (string * pv T)) : rd (PD l) = RD (sortk (rd_items l)).
Proof. reflexivity. Qed.

(* a dict without None items (at its top level) is read item by item *)
Definition not_PN (v : pv T) : bool := match v with PN => false | _ => true end.
Lemma rd_items_nn (l : list (string * pv T)) :
  forallb (fun kv => not_PN (snd kv)) l = true ->
  rd_items l = map (fun kv => (fst kv, rd (snd kv))) l.
Proof.
  unfold rd_items. induction l as [|[k x] l IH]; [reflexivity|]. simpl. intros H. apply andb_prop in H. destruct H as [Hx Hl].
  rewrite (IH Hl). destruct x; try reflexivity. discriminate.
Qed.
Lemma rd_PD_nn (l : list (string * pv T)) :
  forallb (fun kv => not_PN (snd kv)) l = true ->
  rd (PD l) = RD (sortk (map (fun kv => (fst kv, rd (snd kv))) l)).
Proof. intros H. rewrite rd_PD. now rewrite (rd_items_nn l H). Qed.

(* what a key of the python dict maps to after the round trip: None items are
   absent, every other item is read with rd *)
Lemma rd_items_keys k (l : list (string * pv T)) : In k (map fst (rd_items l)) -> In k (map fst l).
Proof.
  unfold rd_items. induction l as [|[k' x] l IH]; simpl; [tauto|]. rewrite map_app, in_app_iff. intros [H|H].
  - left. destruct x; simpl in H; tauto.
  - right. auto.
Qed.
Lemma rd_items_nodup (l : list (string * pv T)) : NoDup (map fst l) -> NoDup (map fst (rd_items l)).
Proof.
  induction l as [|[k x] l IH]; simpl; intros H; [constructor|]. inversion H; subst.
  change (rd_items ((k, x) :: l)) with ((match x with PN => [] | _ => [(k, rd x)] end) ++ rd_items l).
  assert (G : NoDup (k :: map fst (rd_items l))).
  { constructor; [|auto]. intros Hin. apply H2. now apply rd_items_keys. }
  destruct x; simpl; auto; now inversion G.
Qed.
Lemma lookup_rd_items k (l : list (string * pv T)) : NoDup (map fst l) ->
  lookup k (rd_items l) = match lookup k l with Some PN => None | Some v => Some (rd v) | None => None end.
Proof.
  induction l as [|[k' x] l IH]; simpl; intros H; [reflexivity|]. inversion H; subst.
  change (rd_items ((k', x) :: l)) with ((match x with PN => [] | _ => [(k', rd x)] end) ++ rd_items l).
  destruct (String.eqb k k') eqn:E.
  - apply String.eqb_eq in E. subst k'.
    assert (N : lookup k (rd_items l) = None).
    { apply lookup_none. intros Hin. apply H2. now apply rd_items_keys. }
    destruct x; simpl; rewrite ?String.eqb_refl; auto.
  - rewrite <- (IH H3). destruct x; simpl; rewrite ?E; reflexivity.
Qed.
Lemma lookup_rd k (l : list (string * pv T)) : NoDup (map fst l) ->
  lookup k (sortk (rd_items l)) = match lookup k l with Some PN => None | Some v => Some (rd v) | None => None end.
Proof. intros H. rewrite lookup_sortk by (now apply rd_items_nodup). now apply lookup_rd_items. Qed.

End StoreP.
