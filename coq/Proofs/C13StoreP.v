(* C13 -- lemmas about the generic store model (Model/C13Store.v):
   string codec, scalar unwrapping, name-ordered listing, and the generic
   round trip  hdf5group2dict (dict2hdf5group d) = rd d. *)
From Coq Require Import ZArith List Bool String Ascii Lia Permutation DecimalString DecimalZ Decimal.
From Verif Require Import C13Store.
Import ListNotations.
Local Open Scope Z_scope.

(* ------------------------------------------------------------ string codec *)
Definition ascii_str (s : pystr) : Prop := Forall (fun c => 0 < c < 128) s.

Lemma utf8_ascii s : ascii_str s -> utf8 s = s.
Proof.
  induction 1 as [|c s Hc _ IH]; [reflexivity|].
  unfold utf8 in *. simpl. rewrite IH. unfold utf8_1.
  destruct (c <? 128) eqn:E; [reflexivity|]. apply Z.ltb_ge in E. lia.
Qed.

Lemma strip_nul_nonzero s : Forall (fun c => c <> 0) s -> strip_nul s = s.
Proof.
  induction 1 as [|c s Hc _ IH]; [reflexivity|]. simpl. rewrite IH.
  destruct s; [|reflexivity]. destruct (c =? 0) eqn:E; [apply Z.eqb_eq in E; contradiction|reflexivity].
Qed.

Lemma firstn_S_length {A} (l : list A) : firstn (S (List.length l)) l = l.
Proof. apply firstn_all2. lia. Qed.

(* a str value made of ASCII characters (no NUL) is read back unchanged *)
Theorem str_roundtrip_ascii s : ascii_str s -> latin1 (str_stored s) = s.
Proof.
  intros H. unfold latin1, str_stored. rewrite (utf8_ascii s H), firstn_S_length.
  apply strip_nul_nonzero. eapply Forall_impl; [|exact H]. simpl. intros; lia.
Qed.

(* ... and "µm" (U+00B5 m) is not: UTF-8 written, truncated to len+1 bytes, latin-1 read *)
Theorem str_roundtrip_nonascii_refuted : exists s : pystr, latin1 (str_stored s) <> s.
Proof. exists [181; 109]. vm_compute. discriminate. Qed.

(* ------------------------------------------------------------- decimal ids *)
Lemma to_int_not_nil z : Z.to_int z <> Pos Nil /\ Z.to_int z <> Neg Nil.
Proof.
  split; intros E;
    assert (Hz : z = 0) by (apply (f_equal Z.of_int) in E; rewrite of_to in E; exact E);
    subst z; vm_compute in E; discriminate.
Qed.

Theorem zint_zstr z : zint (zstr z) = Some z.
Proof.
  unfold zint, zstr. destruct (to_int_not_nil z) as [H1 H2].
  rewrite (NilZero.isi _ H1 H2). now rewrite of_to.
Qed.

Lemma zstr_inj a b : zstr a = zstr b -> a = b.
Proof. intros E. apply (f_equal zint) in E. rewrite !zint_zstr in E. congruence. Qed.

(* ------------------------------------------------------- association lists *)
Section AssocP.
Context {V : Type}.
Implicit Types l : dict V.

Lemma kinsert_perm kv l : Permutation (kinsert kv l) (kv :: l).
Proof.
  induction l as [|a l IH]; simpl; [reflexivity|].
  destruct (String.leb (fst kv) (fst a)); [reflexivity|].
  rewrite IH. apply perm_swap.
Qed.
Lemma sortk_perm l : Permutation (sortk l) l.
Proof. induction l as [|a l IH]; simpl; [reflexivity|]. rewrite kinsert_perm. now constructor. Qed.

Lemma lookup_in k v l : NoDup (map fst l) -> In (k, v) l -> lookup k l = Some v.
Proof.
  induction l as [|[k' v'] l IH]; simpl; [tauto|]. intros Hnd [E|Hin].
  - inversion E; subst. now rewrite String.eqb_refl.
  - inversion Hnd; subst. destruct (String.eqb k k') eqn:E.
    + apply String.eqb_eq in E. subst. exfalso. apply H1. apply (in_map fst) in Hin. exact Hin.
    + auto.
Qed.
Lemma lookup_none k l : ~ In k (map fst l) -> lookup k l = None.
Proof.
  induction l as [|[k' v'] l IH]; simpl; [reflexivity|]. intros H.
  destruct (String.eqb k k') eqn:E; [apply String.eqb_eq in E; subst; tauto|]. apply IH. tauto.
Qed.
Lemma lookup_some_in k v l : lookup k l = Some v -> In (k, v) l.
Proof.
  induction l as [|[k' v'] l IH]; simpl; [discriminate|].
  destruct (String.eqb k k') eqn:E; [apply String.eqb_eq in E; subst; intros [= ->]; now left|].
  intros H. right. auto.
Qed.

Lemma lookup_perm k l l' : NoDup (map fst l) -> Permutation l l' -> lookup k l' = lookup k l.
Proof.
  intros Hnd Hp. destruct (lookup k l) as [v|] eqn:E.
  - apply lookup_some_in in E. apply lookup_in.
    + eapply Permutation_NoDup; [apply Permutation_map; exact Hp|exact Hnd].
    + eapply Permutation_in; eauto.
  - apply lookup_none. intros Hin. apply (Permutation_in _ (Permutation_sym (Permutation_map fst Hp))) in Hin.
    apply in_map_iff in Hin. destruct Hin as [[k' v] [Ek Hin]]. simpl in Ek. subst k'.
    rewrite (lookup_in k v l Hnd Hin) in E. discriminate.
Qed.

(* listing the links in name order does not change what a key maps to *)
Lemma lookup_sortk k l : NoDup (map fst l) -> lookup k (sortk l) = lookup k l.
Proof. intros H. apply lookup_perm; [exact H|]. apply Permutation_sym, sortk_perm. Qed.

Lemma lookup_app_l k l l' v : lookup k l = Some v -> lookup k (l ++ l') = Some v.
Proof.
  induction l as [|[k' v'] l IH]; simpl; [discriminate|]. destruct (String.eqb k k'); auto.
Qed.

(* sorting only looks at the keys *)
Lemma kinsert_map {W} (f : V -> W) kv l :
  kinsert (fst kv, f (snd kv)) (map (fun kv => (fst kv, f (snd kv))) l)
  = map (fun kv => (fst kv, f (snd kv))) (kinsert kv l).
Proof.
  induction l as [|a l IH]; simpl; [reflexivity|].
  destruct (String.leb (fst kv) (fst a)); simpl; [reflexivity|]. now rewrite IH.
Qed.
Lemma sortk_map {W} (f : V -> W) l :
  sortk (map (fun kv => (fst kv, f (snd kv))) l) = map (fun kv => (fst kv, f (snd kv))) (sortk l).
Proof. induction l as [|a l IH]; simpl; [reflexivity|]. rewrite IH. apply kinsert_map. Qed.

(* a list whose keys are already in name order is listed as it is *)
Fixpoint ksorted (l : list string) : bool :=
  match l with
  | a :: ((b :: _) as r) => String.leb a b && ksorted r
  | _ => true
  end.
Lemma sortk_sorted l : ksorted (map fst l) = true -> sortk l = l.
Proof.
  induction l as [|a l IH]; [reflexivity|]. intros H. simpl.
  destruct l as [|b l]; [reflexivity|].
  simpl in H. apply andb_prop in H. destruct H as [Hab Hs]. rewrite (IH Hs). simpl. now rewrite Hab.
Qed.

(* dict.update with fresh, distinct keys appends *)
Lemma dict_set_fresh k v l : ~ In k (map fst l) -> dict_set k v l = l ++ [(k, v)].
Proof.
  induction l as [|[k' v'] l IH]; simpl; [reflexivity|]. intros H.
  destruct (String.eqb k k') eqn:E; [apply String.eqb_eq in E; subst; tauto|]. rewrite IH; tauto.
Qed.
Lemma dict_update_fresh l new :
  NoDup (map fst new) -> (forall k, In k (map fst new) -> ~ In k (map fst l)) ->
  dict_update l new = l ++ new.
Proof.
  unfold dict_update. revert l. induction new as [|[k v] new IH]; intros l Hnd Hfr; simpl.
  - now rewrite app_nil_r.
  - inversion Hnd; subst. rewrite dict_set_fresh by (apply Hfr; now left).
    rewrite IH; [now rewrite <- app_assoc|exact H2|].
    intros k' Hin. rewrite map_app, in_app_iff. simpl. intros [Hl|[->|[]]].
    + apply (Hfr k'); [now right|exact Hl].
    + contradiction.
Qed.

Lemma remove_keys_perm ks l l' : Permutation l l' -> Permutation (remove_keys ks l) (remove_keys ks l').
Proof.
  unfold remove_keys. induction 1; simpl.
  - constructor.
  - destruct (negb _); [constructor|]; assumption.
  - destruct (negb _), (negb _); try reflexivity. apply perm_swap.
  - etransitivity; eassumption.
Qed.
End AssocP.

Fixpoint nodupb (l : list string) : bool :=
  match l with [] => true | a :: r => negb (existsb (String.eqb a) r) && nodupb r end.
Lemma nodupb_sound l : nodupb l = true -> NoDup l.
Proof.
  induction l as [|a l IH]; [constructor|]. simpl. intros H. apply andb_prop in H. destruct H as [H1 H2].
  constructor; [|auto]. intros Hin. apply negb_true_iff in H1.
  assert (existsb (String.eqb a) l = true) by (apply existsb_exists; exists a; split; [exact Hin|apply String.eqb_refl]).
  congruence.
Qed.

(* ------------------------------------------------------------------ arrays *)
Section StoreP.
Context {T : Type}.

(* the reader's scalar unwrapping leaves alone every array whose first axis is not of length one ... *)
Theorem unwrap_id (a : arr T) : (alen a <> 1)%nat -> unwrap a = RA a.
Proof.
  unfold unwrap, alen. destruct a as [dt sh d]. simpl.
  destruct sh as [|n rest]; [reflexivity|]. simpl. intros H.
  destruct n as [|[|n]]; try reflexivity. contradiction.
Qed.
(* ... and turns a length-one array into a scalar (the dataset can no longer be told from a 0-d value) *)
Theorem unwrap_one_refuted : forall x : T, exists a : arr T, alen a = 1%nat /\ unwrap a <> RA a.
Proof. intros x. exists (mkArr "float64" [1%nat] (DF [x])). split; [reflexivity|]. simpl. discriminate. Qed.

(* induction principle for the nested type pv *)
Section pv_ind2.
  Variable P : pv T -> Prop.
  Hypothesis HD : forall l, Forall (fun kv => P (snd kv)) l -> P (PD l).
  Hypothesis HS : forall s, P (PS s).
  Hypothesis HI : forall dt z, P (PI dt z).
  Hypothesis HF : forall dt x, P (PF dt x).
  Hypothesis HN : P PN.
  Hypothesis HA : forall a, P (PA a).
  Fixpoint pv_ind2 (v : pv T) : P v :=
    match v with
    | PD l => HD l ((fix go (l : list (string * pv T)) : Forall (fun kv => P (snd kv)) l :=
                       match l with
                       | [] => Forall_nil _
                       | kv :: r => Forall_cons kv (pv_ind2 (snd kv)) (go r)
                       end) l)
    | PS s => HS s | PI dt z => HI dt z | PF dt x => HF dt x | PN => HN | PA a => HA a
    end.
End pv_ind2.

(* generic round trip of the store: reading what the writer wrote gives the
   "expected reading" rd, for every None-free python value (nested dicts of
   strings, scalars and arrays of any shape) *)
Lemma dict2h5_PD (l : list (string * pv T)) :
  forallb (fun kv => none_free (snd kv)) l = true ->
  dict2h5 (PD l) = HG (map (fun kv => (fst kv, dict2h5 (snd kv))) l).
Proof.
  induction l as [|[k x] l IH]; [reflexivity|]. intros H. simpl in H. apply andb_prop in H.
  destruct H as [Hx Hl]. specialize (IH Hl). injection IH as IH.
  destruct x; try discriminate; simpl; f_equal; f_equal; exact IH.
Qed.

Theorem store_roundtrip (v : pv T) : none_free v = true -> h52dict (dict2h5 v) = rd v.
Proof.
  induction v as [l IH|s|dt z|dt x| |a] using pv_ind2; intros Hnf; try reflexivity; try discriminate.
  simpl in Hnf. rewrite (dict2h5_PD l Hnf). simpl. f_equal. f_equal. rewrite map_map. simpl.
  apply map_ext_in. intros [k x] Hin. simpl. f_equal.
  rewrite Forall_forall in IH. apply (IH (k, x) Hin).
  rewrite forallb_forall in Hnf. apply (Hnf (k, x) Hin).
Qed.

(* the writer's `break` on a value it cannot write: everything after a None in
   the same dict is silently missing from the file *)
Theorem none_drops_rest : forall (k k' : string) (v : pv T),
  dict2h5 (PD [(k, PN); (k', v)]) = HG [].
Proof. reflexivity. Qed.

End StoreP.
