(* C15 -- lemmas about Phase(), the phase-list reconciliation, the Bruker
   re-ordering, and the witnesses of the findings *)
From Coq Require Import ZArith List Bool String Ascii Lia.
From Verif Require Import Scalar C15Tables C15Common C15Ang C15Ctf C15H5 C15AngP C15CtfP.
Import ListNotations.
Local Open Scope string_scope.
Local Open Scope list_scope.

Section CommonProofs.
Context {T : Type} (Op : Ops T).

(* ------------------------------------------------------------ Phase() *)
(* .ang: a symmetry code that resolves gives exactly that point group, no space group *)
Lemma phase_of_code (name s v : string) (lat : list T) :
  resolve_pg s = Some v -> mk_phase name None (Some s) lat = Ok (mkPhase name None (Some v) lat).
Proof. intros H. unfold mk_phase. rewrite H. reflexivity. Qed.

(* .ctf: a phase line gives a Laue class and a space group number.  The reader hands
   PhaseList the space group alone when there is one (n <> 0) ... *)
Lemma ctf_pg_with_sg (laue n : Z) : n <> 0%Z -> ctf_point_group laue n = Some None.
Proof. intros H. unfold ctf_point_group. destruct (Z.eqb_spec n 0); [contradiction|reflexivity]. Qed.

(* ... so that EVERY valid space group is kept and determines the point group,
   centrosymmetric or not and whatever the Laue class field says *)
Lemma phase_ctf_sg (name : string) (laue n : Z) (lat : list T) :
  sg_valid n = true ->
  ctf_point_group laue n = Some None /\
  mk_phase name (Some n) None lat = Ok (mkPhase name (Some n) (Some (sg_pg n)) lat).
Proof.
  intros Hv. split.
  - apply ctf_pg_with_sg. unfold sg_valid in Hv. apply andb_prop in Hv. destruct Hv as [Hv _].
    apply Z.leb_le in Hv. lia.
  - unfold mk_phase. rewrite Hv. reflexivity.
Qed.

(* ... and the Laue class name when there is none (0, e.g. MTEX) *)
Lemma ctf_pg_without_sg (laue : Z) :
  ctf_point_group laue 0 = option_map Some (py_index ctf_laue_ids (laue - 1)).
Proof. unfold ctf_point_group. cbn [Z.eqb]. destruct (py_index ctf_laue_ids (laue - 1)); reflexivity. Qed.

Lemma phase_ctf_nosg (name l : string) (lat : list T) :
  resolve_pg l = Some l -> mk_phase name None (Some l) lat = Ok (mkPhase name None (Some l) lat).
Proof. intros Hr. unfold mk_phase. rewrite Hr. reflexivity. Qed.

Lemma phase_ctf_laue_nosg (name l : string) (laue : Z) (lat : list T) :
  py_index ctf_laue_ids (laue - 1) = Some l -> resolve_pg l = Some l ->
  ctf_point_group laue 0 = Some (Some l) /\
  mk_phase name None (Some l) lat = Ok (mkPhase name None (Some l) lat).
Proof.
  intros H1 H2. split; [rewrite ctf_pg_without_sg, H1; reflexivity|exact (phase_ctf_nosg name l lat H2)].
Qed.

(* Phase() itself still drops a space group when it is given TOGETHER with a point
   group of another name (what the reader did with the Laue class before the repair) *)
Lemma phase_both_dropped (name l : string) (n : Z) (lat : list T) :
  sg_valid n = true -> resolve_pg l = Some l -> sg_pg n <> l ->
  mk_phase name (Some n) (Some l) lat = Ok (mkPhase name None (Some l) lat).
Proof.
  intros Hv Hr He. unfold mk_phase. rewrite Hv, Hr.
  destruct (String.eqb_spec (sg_pg n) l); [contradiction|reflexivity].
Qed.

(* Bruker: only the space group is given *)
Lemma phase_bruker (name : string) (n : Z) (lat : list T) :
  sg_valid n = true -> mk_phase name (Some n) None lat = Ok (mkPhase name (Some n) (Some (sg_pg n)) lat).
Proof. intros Hv. unfold mk_phase. rewrite Hv. reflexivity. Qed.

(* every Laue class 1..11 names an orix group (its own name) *)
Lemma laue_classes_resolve :
  forallb (fun k => match py_index ctf_laue_ids (k - 1) with
                    | Some l => match resolve_pg l with Some v => String.eqb v l | None => false end
                    | None => false end)
          [1; 2; 3; 4; 5; 6; 7; 8; 9; 10; 11]%Z = true.
Proof. vm_compute. reflexivity. Qed.

(* the EDAX codes that are aliased or are group names, 62 included *)
Lemma tsl_codes_resolve :
  map resolve_pg ["43"; "23"; "62"; "6"; "32"; "3"; "42"; "4"; "22"; "2"; "20"; "1"; "m3m"] =
  map Some ["432"; "23"; "622"; "6"; "32"; "3"; "422"; "4"; "222"; "2/m"; "121"; "1"; "m-3m"].
Proof. vm_compute. reflexivity. Qed.

(* ---------------------------------------- CrystalMap phase reconciliation *)
Lemma combine_fst_snd {A B} (l : list (A * B)) : combine (map fst l) (map snd l) = l.
Proof. induction l as [|[a b] l IH]; simpl; congruence. Qed.

(* every phase of the header is used by the data (and nothing else is):
   the header's phase list is kept as it is *)
Lemma reconcile_all_used (pl : list (Z * phase (T:=T))) (pids : list Z) :
  zunique pids = map fst pl -> (forall k, In k (map fst pl) -> k <> (-1)%Z) ->
  reconcile Op pl pids = pl.
Proof.
  intros Hu Hn. unfold reconcile. rewrite Hu.
  assert (E : match map fst pl with k :: _ => (k =? -1)%Z | [] => false end = false).
  { destruct (map fst pl) as [|k r] eqn:Em; [reflexivity|]. apply Z.eqb_neq. apply Hn. left; reflexivity. }
  rewrite E. rewrite map_length, Nat.ltb_irrefl. apply combine_fst_snd.
Qed.

(* ... plus not-indexed points: the not_indexed phase is added in front *)
Lemma reconcile_all_used_ni (pl : list (Z * phase (T:=T))) (pids : list Z) :
  zunique pids = (-1)%Z :: map fst pl -> (forall k, In k (map fst pl) -> (-1 < k)%Z) ->
  reconcile Op pl pids = (-1, not_indexed_phase Op)%Z :: pl.
Proof.
  intros Hu Hn. unfold reconcile. rewrite Hu. cbn [tl]. replace (-1 =? -1)%Z with true by reflexivity.
  rewrite map_length, Nat.ltb_irrefl, combine_fst_snd.
  destruct pl as [|[k p] r]; [reflexivity|].
  assert (-1 < k)%Z by (apply Hn; left; reflexivity). cbn [zset].
  destruct (Z.eqb_spec (-1) k); [lia|]. destruct (Z.ltb_spec (-1) k); [reflexivity|lia].
Qed.

(* ------------------------------------------------- witnesses (findings) *)
(* One concrete abstract file per finding, over ANY scalar type. *)
Definition z0 : T := o_ofZ Op 0.
Definition cubic : list T := [o_ofZ Op 4; o_ofZ Op 4; o_ofZ Op 4; o_ofZ Op 90; o_ofZ Op 90; o_ofZ Op 90].
Definition cpt0 (x y : T) : cpoint (T:=T) := mkCPt 1%Z x y z0 z0 (z0, z0, z0) z0 z0 z0 [].

Definition ctf_wit (v : cvendor) (laue sg : Z) (nr nc : nat) (pts : list (cpoint (T:=T))) : ctffile (T:=T) :=
  mkCF v ["x"] "me" [] nr nc (o_ofZ Op 1) (o_ofZ Op 1) [mkCP cubic "Pyrite" laue sg []] pts.

(* Laue class 10 (m-3): with space group 205 (Pa-3, pyrite) and without a space group *)
Lemma ctf_laue10_loads :
  exists m, parse_ctf Op (render_chdr (ctf_wit COxford 10 205 1 2 [cpt0 z0 z0; cpt0 (o_ofZ Op 1) z0]))
               (map (render_cpt (T:=T)) [cpt0 z0 z0; cpt0 (o_ofZ Op 1) z0]) = Ok m
            /\ map (fun kp => (fst kp, ph_sg (snd kp), ph_pg (snd kp))) (xm_phases m) = [(1%Z, Some 205%Z, Some "m-3")].
Proof. eexists. split; vm_compute; reflexivity. Qed.

Lemma ctf_laue10_nosg_loads :
  exists m, parse_ctf Op (render_chdr (ctf_wit COxford 10 0 1 2 [cpt0 z0 z0; cpt0 (o_ofZ Op 1) z0]))
               (map (render_cpt (T:=T)) [cpt0 z0 z0; cpt0 (o_ofZ Op 1) z0]) = Ok m
            /\ map (fun kp => (fst kp, ph_sg (snd kp), ph_pg (snd kp))) (xm_phases m) = [(1%Z, None, Some "m-3")].
Proof. eexists. split; vm_compute; reflexivity. Qed.

(* same file with Laue class 11 *)
Lemma ctf_laue11_loads :
  exists m, parse_ctf Op (render_chdr (ctf_wit COxford 11 225 1 2 [cpt0 z0 z0; cpt0 (o_ofZ Op 1) z0]))
               (map (render_cpt (T:=T)) [cpt0 z0 z0; cpt0 (o_ofZ Op 1) z0]) = Ok m
            /\ map (fun kp => (fst kp, ph_sg (snd kp), ph_pg (snd kp))) (xm_phases m) = [(1%Z, Some 225%Z, Some "m-3m")].
Proof. eexists. split; vm_compute; reflexivity. Qed.

(* space group 216 (F-43m) under Laue class 11: loaded WITH the space group, point group -43m *)
Lemma ctf_sg216_kept :
  exists m, parse_ctf Op (render_chdr (ctf_wit COxford 11 216 1 2 [cpt0 z0 z0; cpt0 (o_ofZ Op 1) z0]))
               (map (render_cpt (T:=T)) [cpt0 z0 z0; cpt0 (o_ofZ Op 1) z0]) = Ok m
            /\ map (fun kp => (fst kp, ph_sg (snd kp), ph_pg (snd kp))) (xm_phases m) = [(1%Z, Some 216%Z, Some "-43m")].
Proof. eexists. split; vm_compute; reflexivity. Qed.

(* ASTAR .ctf, ONE row of two points whose printed x coordinates have collapsed to the same
   value: loads, with the coordinates of the header grid (0 * XStep, 1 * XStep; y = 0 * YStep) *)
Lemma ctf_astar_line_loads :
  exists m, parse_ctf Op (render_chdr (ctf_wit CAstar 11 225 1 2 [cpt0 z0 z0; cpt0 z0 z0]))
               (map (render_cpt (T:=T)) [cpt0 z0 z0; cpt0 z0 z0]) = Ok m
            /\ xm_x m = [o_mul Op (o_ofZ Op 0) (o_ofZ Op 1); o_mul Op (o_ofZ Op 1) (o_ofZ Op 1)]
            /\ xm_y m = [o_mul Op (o_ofZ Op 0) (o_ofZ Op 1); o_mul Op (o_ofZ Op 0) (o_ofZ Op 1)]
            /\ xm_pid m = [1%Z; 1%Z].
Proof. eexists. split; [|split; [|split]]; vm_compute; reflexivity. Qed.

Definition apt0 (rest : list T) : apoint (T:=T) := mkPt (z0, z0, z0) z0 z0 z0 z0 1%Z rest.
Definition ang_wit (v : avendor) (sym : string) (rest : list T) : angfile (T:=T) :=
  mkAF v [] [mkAP (Some 1%Z) ["Titanium"] None [] sym cubic] [] [] [apt0 rest; apt0 rest].

Lemma ang_sym62_loads :
  exists m, parse_ang Op (render_hdr (ang_wit AAstar "62" [z0])) (map (render_pt (T:=T)) (af_pts (ang_wit AAstar "62" [z0])))
            = Ok m /\ map (fun kp => (fst kp, ph_pg (snd kp))) (xm_phases m) = [(1%Z, Some "622")].
Proof. eexists. split; vm_compute; reflexivity. Qed.

Lemma ang_sym43_loads :
  exists m, parse_ang Op (render_hdr (ang_wit AAstar "43" [z0])) (map (render_pt (T:=T)) (af_pts (ang_wit AAstar "43" [z0])))
            = Ok m /\ xm_unit m = "nm" /\ xm_warn m = false
            /\ map (fun kp => (fst kp, ph_pg (snd kp))) (xm_phases m) = [(1%Z, Some "432")].
Proof. eexists. split; [|split; [|split]]; vm_compute; reflexivity. Qed.

(* ASTAR .ang with ten columns: generic names, warning, and the scan unit falls back to um *)
Lemma ang_astar_generic_unit :
  exists m, parse_ang Op (render_hdr (ang_wit AAstar "43" [z0; z0]))
                      (map (render_pt (T:=T)) (af_pts (ang_wit AAstar "43" [z0; z0]))) = Ok m
            /\ xm_unit m = "um" /\ xm_warn m = true
            /\ map fst (xm_props m) = ["unknown1"; "unknown2"; "unknown3"; "unknown4"].
Proof. eexists. split; [|split; [|split]]; vm_compute; reflexivity. Qed.

End CommonProofs.
