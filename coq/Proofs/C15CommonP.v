(* C15 -- lemmas about Phase(), the phase-list reconciliation, the Bruker
   re-ordering, and the witnesses of the findings *)
From Coq Require Import ZArith List Bool String Ascii Lia.
From Verif Require Import Scalar C15Tables C15Common C15Ang C15Ctf C15H5 C15AngP C15CtfP.
Import ListNotations.
Local Open Scope string_scope.
Local Open Scope list_scope.

Section CommonProofs.
Context {T : Type} (Op : Ops T).

(* ------------------------------------------------------------ Phase() *)
(* .ang: a symmetry code that resolves gives exactly that point group, no space group *)
Lemma phase_of_code (name s v : string) (lat : list T) :
  resolve_pg s = Some v -> mk_phase name None (Some s) lat = Ok (mkPhase name None (Some v) lat).
Proof. intros H. unfold mk_phase. rewrite H. reflexivity. Qed.

(* .ctf: space group n and Laue class name l *)
Lemma phase_ctf_kept (name l : string) (n : Z) (lat : list T) :
  sg_valid n = true -> resolve_pg l = Some l -> sg_pg n = l ->
  mk_phase name (Some n) (Some l) lat = Ok (mkPhase name (Some n) (Some l) lat).
Proof. intros Hv Hr He. unfold mk_phase. rewrite Hv, Hr, He, String.eqb_refl. reflexivity. Qed.

Lemma phase_ctf_dropped (name l : string) (n : Z) (lat : list T) :
  sg_valid n = true -> resolve_pg l = Some l -> sg_pg n <> l ->
  mk_phase name (Some n) (Some l) lat = Ok (mkPhase name None (Some l) lat).
Proof.
  intros Hv Hr He. unfold mk_phase. rewrite Hv, Hr.
  destruct (String.eqb_spec (sg_pg n) l); [contradiction|reflexivity].
Qed.

Lemma phase_ctf_nosg (name l : string) (lat : list T) :
  resolve_pg l = Some l -> mk_phase name None (Some l) lat = Ok (mkPhase name None (Some l) lat).
Proof. intros Hr. unfold mk_phase. rewrite Hr. reflexivity. Qed.

(* Bruker: only the space group is given *)
Lemma phase_bruker (name : string) (n : Z) (lat : list T) :
  sg_valid n = true -> mk_phase name (Some n) None lat = Ok (mkPhase name (Some n) (Some (sg_pg n)) lat).
Proof. intros Hv. unfold mk_phase. rewrite Hv. reflexivity. Qed.

(* every Laue class except 10 names an orix group; 10 does not *)
Lemma laue_classes_resolve :
  forallb (fun k => match py_index ctf_laue_ids (k - 1) with
                    | Some l => match resolve_pg l with Some v => String.eqb v l | None => false end
                    | None => false end)
          [1; 2; 3; 4; 5; 6; 7; 8; 9; 11]%Z = true.
Proof. vm_compute. reflexivity. Qed.

Lemma laue10_unresolved :
  match py_index ctf_laue_ids (10 - 1) with Some l => resolve_pg l | None => Some "" end = None.
Proof. vm_compute. reflexivity. Qed.

(* the EDAX codes that are aliased or are group names; 62 is neither *)
Lemma tsl_codes_resolve :
  map resolve_pg ["43"; "23"; "6"; "32"; "3"; "42"; "4"; "22"; "2"; "20"; "1"; "m3m"] =
  map Some ["432"; "23"; "6"; "32"; "3"; "422"; "4"; "222"; "2/m"; "121"; "1"; "m-3m"].
Proof. vm_compute. reflexivity. Qed.
Lemma tsl_62_unresolved : resolve_pg "62" = None.
Proof. vm_compute. reflexivity. Qed.

(* ---------------------------------------- CrystalMap phase reconciliation *)
Lemma combine_fst_snd {A B} (l : list (A * B)) : combine (map fst l) (map snd l) = l.
Proof. induction l as [|[a b] l IH]; simpl; congruence. Qed.

(* every phase of the header is used by the data (and nothing else is):
   the header's phase list is kept as it is *)
Lemma reconcile_all_used (pl : list (Z * phase (T:=T))) (pids : list Z) :
  zunique pids = map fst pl -> (forall k, In k (map fst pl) -> k <> (-1)%Z) ->
  reconcile Op pl pids = pl.
Proof.
  intros Hu Hn. unfold reconcile. rewrite Hu.
  assert (E : match map fst pl with k :: _ => (k =? -1)%Z | [] => false end = false).
  { destruct (map fst pl) as [|k r] eqn:Em; [reflexivity|]. apply Z.eqb_neq. apply Hn. left; reflexivity. }
  rewrite E. rewrite map_length, Nat.ltb_irrefl. apply combine_fst_snd.
Qed.

(* ... plus not-indexed points: the not_indexed phase is added in front *)
Lemma reconcile_all_used_ni (pl : list (Z * phase (T:=T))) (pids : list Z) :
  zunique pids = (-1)%Z :: map fst pl -> (forall k, In k (map fst pl) -> (-1 < k)%Z) ->
  reconcile Op pl pids = (-1, not_indexed_phase Op)%Z :: pl.
Proof.
  intros Hu Hn. unfold reconcile. rewrite Hu. cbn [tl]. replace (-1 =? -1)%Z with true by reflexivity.
  rewrite map_length, Nat.ltb_irrefl, combine_fst_snd.
  destruct pl as [|[k p] r]; [reflexivity|].
  assert (-1 < k)%Z by (apply Hn; left; reflexivity). cbn [zset].
  destruct (Z.eqb_spec (-1) k); [lia|]. destruct (Z.ltb_spec (-1) k); [reflexivity|lia].
Qed.

(* ------------------------------------------------- witnesses (findings) *)
(* One concrete abstract file per finding, over ANY scalar type. *)
Definition z0 : T := o_ofZ Op 0.
Definition cubic : list T := [o_ofZ Op 4; o_ofZ Op 4; o_ofZ Op 4; o_ofZ Op 90; o_ofZ Op 90; o_ofZ Op 90].
Definition cpt0 (x y : T) : cpoint (T:=T) := mkCPt 1%Z x y z0 z0 (z0, z0, z0) z0 z0 z0 [].

Definition ctf_wit (v : cvendor) (laue sg : Z) (nr nc : nat) (pts : list (cpoint (T:=T))) : ctffile (T:=T) :=
  mkCF v ["x"] "me" [] nr nc (o_ofZ Op 1) (o_ofZ Op 1) [mkCP cubic "Pyrite" laue sg []] pts.

Lemma ctf_laue10_raises :
  parse_ctf Op (render_chdr (ctf_wit COxford 10 205 1 2 [cpt0 z0 z0; cpt0 (o_ofZ Op 1) z0]))
               (map (render_cpt (T:=T)) [cpt0 z0 z0; cpt0 (o_ofZ Op 1) z0]) [] = Err EValue.
Proof. vm_compute. reflexivity. Qed.

(* same file with Laue class 11: loads *)
Lemma ctf_laue11_loads :
  exists m, parse_ctf Op (render_chdr (ctf_wit COxford 11 225 1 2 [cpt0 z0 z0; cpt0 (o_ofZ Op 1) z0]))
               (map (render_cpt (T:=T)) [cpt0 z0 z0; cpt0 (o_ofZ Op 1) z0]) [] = Ok m
            /\ map (fun kp => (fst kp, ph_sg (snd kp), ph_pg (snd kp))) (xm_phases m) = [(1%Z, Some 225%Z, Some "m-3m")].
Proof. eexists. split; vm_compute; reflexivity. Qed.

(* space group 216 (F-43m) under Laue class 11: loaded WITHOUT the space group *)
Lemma ctf_sg216_dropped :
  exists m, parse_ctf Op (render_chdr (ctf_wit COxford 11 216 1 2 [cpt0 z0 z0; cpt0 (o_ofZ Op 1) z0]))
               (map (render_cpt (T:=T)) [cpt0 z0 z0; cpt0 (o_ofZ Op 1) z0]) [] = Ok m
            /\ map (fun kp => (fst kp, ph_sg (snd kp), ph_pg (snd kp))) (xm_phases m) = [(1%Z, None, Some "m-3m")].
Proof. eexists. split; vm_compute; reflexivity. Qed.

(* ASTAR .ctf, one row: the slices helper returns a single stop *)
Lemma ctf_astar_line_raises :
  parse_ctf Op (render_chdr (ctf_wit CAstar 11 225 1 2 [cpt0 z0 z0; cpt0 (o_ofZ Op 1) z0]))
               (map (render_cpt (T:=T)) [cpt0 z0 z0; cpt0 (o_ofZ Op 1) z0]) [2%Z] = Err EIndex.
Proof. vm_compute. reflexivity. Qed.

(* ASTAR .ctf, >= 2 rows and columns: whatever the helper returns ([nc; nr] for a regular grid) the
   comparison (nc + 1, nr + 1) = (nr, nc) fails, so the header grid is always used *)
Lemma astar_always_regrid (s0 s1 nx ny : Z) :
  ((s0 + 1 =? ny)%Z && (s1 + 1 =? nx)%Z) = true -> s0 = nx -> s1 = ny -> False.
Proof. intros H -> ->. apply andb_prop in H. destruct H as [A B]. apply Z.eqb_eq in A, B. lia. Qed.

Definition apt0 (rest : list T) : apoint (T:=T) := mkPt (z0, z0, z0) z0 z0 z0 z0 1%Z rest.
Definition ang_wit (v : avendor) (sym : string) (rest : list T) : angfile (T:=T) :=
  mkAF v [] [mkAP (Some 1%Z) ["Titanium"] None [] sym cubic] [] [] [apt0 rest; apt0 rest].

Lemma ang_sym62_raises :
  parse_ang Op (render_hdr (ang_wit AAstar "62" [z0])) (map (render_pt (T:=T)) (af_pts (ang_wit AAstar "62" [z0])))
  = Err EValue.
Proof. vm_compute. reflexivity. Qed.

Lemma ang_sym43_loads :
  exists m, parse_ang Op (render_hdr (ang_wit AAstar "43" [z0])) (map (render_pt (T:=T)) (af_pts (ang_wit AAstar "43" [z0])))
            = Ok m /\ xm_unit m = "nm" /\ xm_warn m = false
            /\ map (fun kp => (fst kp, ph_pg (snd kp))) (xm_phases m) = [(1%Z, Some "432")].
Proof. eexists. split; [|split; [|split]]; vm_compute; reflexivity. Qed.

(* ASTAR .ang with ten columns: generic names, warning, and the scan unit falls back to um *)
Lemma ang_astar_generic_unit :
  exists m, parse_ang Op (render_hdr (ang_wit AAstar "43" [z0; z0]))
                      (map (render_pt (T:=T)) (af_pts (ang_wit AAstar "43" [z0; z0]))) = Ok m
            /\ xm_unit m = "um" /\ xm_warn m = true
            /\ map fst (xm_props m) = ["unknown1"; "unknown2"; "unknown3"; "unknown4"].
Proof. eexists. split; [|split; [|split]]; vm_compute; reflexivity. Qed.

End CommonProofs.
