(* C15 -- lemmas about the .ctf reader model *)
From Coq Require Import ZArith List Bool String Ascii Lia.
From Verif Require Import Scalar C15Tables C15Common C15Ctf C15AngP.
Import ListNotations.
Local Open Scope string_scope.
Local Open Scope list_scope.

Section CtfProofs.
Context {T : Type} (Op : Ops T).

(* ------------------------------------------------------------ the header *)
Lemma take_header_app (A : list (ctfline (T:=T))) (B : list ctfline) :
  Forall (fun l => is_cols l = false) A -> take_header (A ++ CLCols :: B) = A.
Proof. induction 1 as [|l A Hl _ IH]; simpl; [reflexivity|]. rewrite Hl, IH. reflexivity. Qed.

Definition chdr_head (f : ctffile (T:=T)) : list (ctfline (T:=T)) :=
  [CLText ["Channel Text File"];
   (match cf_vendor f with CEmsoft => CLText [emsoft_line] | _ => CLText ("Prj" :: cf_prj f) end);
   (match cf_vendor f with
    | CAstar => CLText ["Author"; "File created from ACOM RES results"]
    | _ => CLText ["Author"; cf_author f] end);
   CLText ["JobMode"; "Grid"];
   CLNum "XCells" (NI (Z.of_nat (cf_ncols f))); CLNum "YCells" (NI (Z.of_nat (cf_nrows f)));
   CLNum "XStep" (NF (cf_dx f)); CLNum "YStep" (NF (cf_dy f));
   CLNum "AcqE1" (NI 0); CLNum "AcqE2" (NI 0); CLNum "AcqE3" (NI 0)].
Definition chdr_body (f : ctffile (T:=T)) : list (ctfline (T:=T)) :=
  chdr_head f ++ map CLText (cf_misc f) ++
  [CLPhases (Z.of_nat (List.length (cf_phases f)))] ++
  map (render_cphase (cf_vendor f)) (cf_phases f).

Lemma render_chdr_body f : render_chdr f = chdr_body f ++ [CLCols].
Proof. unfold render_chdr, chdr_body, chdr_head. rewrite <- !app_assoc. reflexivity. Qed.

Lemma body_no_cols f : Forall (fun l : ctfline (T:=T) => is_cols l = false) (chdr_body f).
Proof.
  unfold chdr_body. apply Forall_app; split; [|apply Forall_app; split; [|apply Forall_app; split]].
  - unfold chdr_head. destruct (cf_vendor f); repeat (constructor; [reflexivity|]); constructor.
  - apply Forall_forall. intros l Hl. apply in_map_iff in Hl. destruct Hl as [m [<- _]]. reflexivity.
  - constructor; [reflexivity|constructor].
  - apply Forall_forall. intros l Hl. apply in_map_iff in Hl. destruct Hl as [m [<- _]]. reflexivity.
Qed.

Lemma header_of_render f : take_header (render_chdr f) = chdr_body f.
Proof. rewrite render_chdr_body. apply take_header_app. apply body_no_cols. Qed.

(* ------------------------------------------------------------- phases *)
Lemma find_phases_app (A B : list (ctfline (T:=T))) (n : Z) :
  Forall (fun l => starts_phases l = false) A -> find_phases (A ++ CLPhases n :: B) = Some (n, B).
Proof. induction 1 as [|l A Hl _ IH]; simpl; [reflexivity|]. rewrite Hl. exact IH. Qed.

(* the point group entry of a phase line (None = the line cannot be read) *)
Definition laue_pg (p : cphase (T:=T)) : option (option string) := ctf_point_group (cp_laue p) (cp_sg p).
Definition sg_opt (p : cphase (T:=T)) : option Z := if (cp_sg p =? 0)%Z then None else Some (cp_sg p).

Lemma read_phases_render v (ps : list (cphase (T:=T))) (pgs : list (option string)) (tail : list ctfline) acc :
  map laue_pg ps = map Some pgs ->
  read_phases (List.length ps) (map (render_cphase v) ps ++ tail) acc =
  Ok (mkCH (ch_names acc ++ map cp_name ps) (ch_pgs acc ++ pgs) (ch_sgs acc ++ map sg_opt ps)
           (ch_lats acc ++ map cp_lat ps)).
Proof.
  revert pgs acc. induction ps as [|p ps IH]; intros [|g pgs] acc H; simpl in H; try discriminate.
  - simpl. rewrite !app_nil_r. destruct acc; reflexivity.
  - injection H as H1 H2. simpl. unfold laue_pg in H1. rewrite H1. rewrite (IH pgs _ H2). simpl.
    rewrite <- !app_assoc. reflexivity.
Qed.

Definition wf_misc (f : ctffile (T:=T)) : Prop :=
  Forall (fun m => starts_phases (CLText (T:=T) m) = false) (cf_misc f).

Lemma ctf_phases_render f (pgs : list (option string)) :
  wf_misc f -> map laue_pg (cf_phases f) = map Some pgs ->
  ctf_phases (chdr_body f) =
  Ok (mkCH (map cp_name (cf_phases f)) pgs (map sg_opt (cf_phases f)) (map cp_lat (cf_phases f))).
Proof.
  intros Hm Hp. unfold ctf_phases, chdr_body.
  rewrite app_assoc. change ([CLPhases (T:=T) (Z.of_nat (List.length (cf_phases f)))] ++
    map (render_cphase (cf_vendor f)) (cf_phases f)) with
    (CLPhases (T:=T) (Z.of_nat (List.length (cf_phases f))) :: map (render_cphase (cf_vendor f)) (cf_phases f)).
  rewrite find_phases_app.
  - rewrite Nat2Z.id. rewrite <- (app_nil_r (map (render_cphase (cf_vendor f)) (cf_phases f))).
    rewrite (read_phases_render _ _ pgs [] _ Hp). reflexivity.
  - apply Forall_app; split.
    + unfold chdr_head. destruct (cf_vendor f); repeat (constructor; [reflexivity|]); constructor.
    + apply Forall_forall. intros l Hl. apply in_map_iff in Hl. destruct Hl as [m [<- Hin]].
      unfold wf_misc in Hm. rewrite Forall_forall in Hm. auto.
Qed.

(* ------------------------------------------------------------- columns *)
Definition d1 (p : cpoint (T:=T)) : T := fst (fst (c_eu p)).
Definition d2 (p : cpoint (T:=T)) : T := snd (fst (c_eu p)).
Definition d3 (p : cpoint (T:=T)) : T := snd (c_eu p).

Lemma ccell (p : cpoint (T:=T)) :
  render_cpt p = [NI (c_pid p); NF (c_x p); NF (c_y p); NF (c_bands p); NF (c_err p); NF (d1 p); NF (d2 p);
                  NF (d3 p); NF (c_mad p); NF (c_bc p); NF (c_bs p)] ++ map NF (c_extra p).
Proof. unfold render_cpt, d1, d2, d3. destruct (c_eu p) as [[a b] c]. reflexivity. Qed.

Lemma ccolv (k : nat) (g : cpoint (T:=T) -> T) (pts : list (cpoint (T:=T))) :
  (forall p, nval Op (nth k (render_cpt p) (NI 0)) = g p) ->
  map (nval Op) (col k (map (render_cpt (T:=T)) pts)) = map g pts.
Proof. intros H. unfold col. rewrite !map_map. apply map_ext. exact H. Qed.

Lemma ccol_pid (pts : list (cpoint (T:=T))) :
  map nint (col 0 (map (render_cpt (T:=T)) pts)) = map c_pid pts.
Proof. unfold col. rewrite !map_map. apply map_ext. intros p. rewrite ccell. reflexivity. Qed.

Lemma ccol_x pts : map (nval Op) (col 1 (map (render_cpt (T:=T)) pts)) = map c_x pts.
Proof. apply ccolv; intros p; rewrite ccell; reflexivity. Qed.
Lemma ccol_y pts : map (nval Op) (col 2 (map (render_cpt (T:=T)) pts)) = map c_y pts.
Proof. apply ccolv; intros p; rewrite ccell; reflexivity. Qed.
Lemma ccol_bands pts : map (nval Op) (col 3 (map (render_cpt (T:=T)) pts)) = map c_bands pts.
Proof. apply ccolv; intros p; rewrite ccell; reflexivity. Qed.
Lemma ccol_err pts : map (nval Op) (col 4 (map (render_cpt (T:=T)) pts)) = map c_err pts.
Proof. apply ccolv; intros p; rewrite ccell; reflexivity. Qed.
Lemma ccol_d1 pts : map (nval Op) (col 5 (map (render_cpt (T:=T)) pts)) = map d1 pts.
Proof. apply ccolv; intros p; rewrite ccell; reflexivity. Qed.
Lemma ccol_d2 pts : map (nval Op) (col 6 (map (render_cpt (T:=T)) pts)) = map d2 pts.
Proof. apply ccolv; intros p; rewrite ccell; reflexivity. Qed.
Lemma ccol_d3 pts : map (nval Op) (col 7 (map (render_cpt (T:=T)) pts)) = map d3 pts.
Proof. apply ccolv; intros p; rewrite ccell; reflexivity. Qed.
Lemma ccol_mad pts : map (nval Op) (col 8 (map (render_cpt (T:=T)) pts)) = map c_mad pts.
Proof. apply ccolv; intros p; rewrite ccell; reflexivity. Qed.
Lemma ccol_bc pts : map (nval Op) (col 9 (map (render_cpt (T:=T)) pts)) = map c_bc pts.
Proof. apply ccolv; intros p; rewrite ccell; reflexivity. Qed.
Lemma ccol_bs pts : map (nval Op) (col 10 (map (render_cpt (T:=T)) pts)) = map c_bs pts.
Proof. apply ccolv; intros p; rewrite ccell; reflexivity. Qed.

Lemma ceu_cols (pts : list (cpoint (T:=T))) : zip3 (map d1 pts) (map d2 pts) (map d3 pts) = map c_eu pts.
Proof.
  rewrite zip3_map. apply map_ext. intros p. unfold d1, d2, d3. destruct (c_eu p) as [[a b] c]. reflexivity.
Qed.

Lemma cncols (p : cpoint (T:=T)) pts : (11 <= ncols_of (map (render_cpt (T:=T)) (p :: pts)))%nat.
Proof. simpl. rewrite ccell, app_length. simpl. lia. Qed.

Lemma assign_ctf_plain (rows : list (list (num (T:=T)))) :
  (11 <= ncols_of rows)%nat ->
  assign_ctf false ctf_column_names 0 rows [] [] =
  Ok ([("phase_id", col 0 rows); ("x", col 1 rows); ("y", col 2 rows); ("euler1", col 5 rows);
       ("euler2", col 6 rows); ("euler3", col 7 rows)],
      [("bands", col 3 rows); ("error", col 4 rows); ("MAD", col 8 rows); ("BC", col 9 rows); ("BS", col 10 rows)]).
Proof.
  intros Hn.
  assert (L : forall k, (k < 11)%nat -> Nat.ltb k (ncols_of rows) = true) by (intros k Hk; apply Nat.ltb_lt; lia).
  lazy -[ncols_of col Nat.ltb]. rewrite !L by lia.
  lazy -[ncols_of col]. reflexivity.
Qed.

Lemma assign_ctf_emsoft (rows : list (list (num (T:=T)))) :
  (11 <= ncols_of rows)%nat ->
  assign_ctf true ctf_column_names 0 rows [] [] =
  Ok ([("phase_id", col 0 rows); ("x", col 1 rows); ("y", col 2 rows); ("euler1", col 5 rows);
       ("euler2", col 6 rows); ("euler3", col 7 rows)],
      [("bands", col 3 rows); ("error", col 4 rows); ("DP", col 8 rows); ("OSM", col 9 rows); ("IQ", col 10 rows)]).
Proof.
  intros Hn.
  assert (L : forall k, (k < 11)%nat -> Nat.ltb k (ncols_of rows) = true) by (intros k Hk; apply Nat.ltb_lt; lia).
  lazy -[ncols_of col Nat.ltb]. rewrite !L by lia.
  lazy -[ncols_of col]. reflexivity.
Qed.

(* ---------------------------------------------------------- file_reader *)
Definition cpid (p : cpoint (T:=T)) : Z := if (c_pid p =? 0)%Z then (-1)%Z else c_pid p.
Definition cv (g : cpoint (T:=T) -> T) (pts : list (cpoint (T:=T))) : nat * list T := (1%nat, map g pts).

Definition ctf_phaselist (f : ctffile (T:=T)) (pgs : list (option string)) : result (list (Z * phase (T:=T))) :=
  phaselist Op (map (fun k => Z.of_nat (S k)) (seq 0 (List.length (cf_phases f))))
            (map cp_name (cf_phases f)) (map sg_opt (cf_phases f)) pgs (map cp_lat (cf_phases f)).

Lemma cpid_cols (pts : list (cpoint (T:=T))) :
  map (fun p => if (p =? ctf_not_indexed_id)%Z then (-1)%Z else p) (map nint (col 0 (map (render_cpt (T:=T)) pts)))
  = map cpid pts.
Proof. rewrite ccol_pid, map_map. reflexivity. Qed.

Ltac cfinish :=
  match goal with |- context [phaselist ?a ?b ?c ?d ?e ?g] => destruct (phaselist a b c d e g) end;
  [|reflexivity]; unfold cv;
  rewrite <- ?ceu_cols, <- ?ccol_x, <- ?ccol_y, <- ?ccol_bands, <- ?ccol_err, <- ?ccol_d1, <- ?ccol_d2, <- ?ccol_d3,
          <- ?ccol_mad, <- ?ccol_bc, <- ?ccol_bs;
  rewrite <- ?cpid_cols; reflexivity.

(* Oxford / Bruker / MTEX (any detected vendor other than emsoft and astar):
   degrees, phase 0 = not indexed, um, standard names, extra columns ignored *)
Theorem parse_ctf_plain (f : ctffile (T:=T)) (p0 : cpoint (T:=T)) pts (pgs : list (option string)) :
  wf_misc f -> map laue_pg (cf_phases f) = map Some pgs -> cf_pts f = p0 :: pts ->
  String.eqb (ctf_vendor (chdr_body f)) "emsoft" = false ->
  String.eqb (ctf_vendor (chdr_body f)) "astar" = false ->
  parse_ctf Op (render_chdr f) (map (render_cpt (T:=T)) (cf_pts f)) =
  bind (ctf_phaselist f pgs) (fun pl =>
    Ok (crystal_map Op 1 (map (eu_deg2rad Op) (map c_eu (cf_pts f))) (map c_x (cf_pts f)) (map c_y (cf_pts f))
          (map cpid (cf_pts f))
          [("bands", cv c_bands (cf_pts f)); ("error", cv c_err (cf_pts f)); ("MAD", cv c_mad (cf_pts f));
           ("BC", cv c_bc (cf_pts f)); ("BS", cv c_bs (cf_pts f))] "um" pl false)).
Proof.
  intros Hm Hp Hpts He Ha. unfold parse_ctf, ctf_phaselist. rewrite header_of_render.
  rewrite (ctf_phases_render f pgs Hm Hp). unfold bind at 1.
  assert (Hn : (11 <= ncols_of (map (render_cpt (T:=T)) (cf_pts f)))%nat) by (rewrite Hpts; apply cncols).
  rewrite He. rewrite (assign_ctf_plain _ Hn). unfold bind at 1. cbv iota beta. rewrite Ha. unfold bind at 1.
  cbn [ch_names ch_pgs ch_sgs ch_lats]. rewrite map_length.
  cfinish.
Qed.

(* EMsoft: MAD, BC, BS are renamed DP, OSM, IQ *)
Theorem parse_ctf_emsoft (f : ctffile (T:=T)) (p0 : cpoint (T:=T)) pts (pgs : list (option string)) :
  wf_misc f -> map laue_pg (cf_phases f) = map Some pgs -> cf_pts f = p0 :: pts ->
  ctf_vendor (chdr_body f) = "emsoft" ->
  parse_ctf Op (render_chdr f) (map (render_cpt (T:=T)) (cf_pts f)) =
  bind (ctf_phaselist f pgs) (fun pl =>
    Ok (crystal_map Op 1 (map (eu_deg2rad Op) (map c_eu (cf_pts f))) (map c_x (cf_pts f)) (map c_y (cf_pts f))
          (map cpid (cf_pts f))
          [("bands", cv c_bands (cf_pts f)); ("error", cv c_err (cf_pts f)); ("DP", cv c_mad (cf_pts f));
           ("OSM", cv c_bc (cf_pts f)); ("IQ", cv c_bs (cf_pts f))] "um" pl false)).
Proof.
  intros Hm Hp Hpts He. unfold parse_ctf, ctf_phaselist. rewrite header_of_render.
  rewrite (ctf_phases_render f pgs Hm Hp). unfold bind at 1.
  assert (Hn : (11 <= ncols_of (map (render_cpt (T:=T)) (cf_pts f)))%nat) by (rewrite Hpts; apply cncols).
  rewrite He. replace (String.eqb "emsoft" "emsoft") with true by reflexivity.
  rewrite (assign_ctf_emsoft _ Hn). unfold bind at 1. cbv iota beta.
  replace (String.eqb "emsoft" "astar") with false by reflexivity. unfold bind at 1.
  cbn [ch_names ch_pgs ch_sgs ch_lats]. rewrite map_length.
  cfinish.
Qed.

(* ---------------------------------------------------------------- ASTAR *)
Definition num_step (key : string) (acc : option (num (T:=T))) (l : ctfline (T:=T)) : option (num (T:=T)) :=
  match l with CLNum k v => if String.eqb k key then Some v else acc | _ => acc end.
Definition not_num (l : ctfline (T:=T)) : Prop := match l with CLNum _ _ => False | _ => True end.

Lemma fold_not_num key (B : list (ctfline (T:=T))) acc :
  Forall not_num B -> fold_left (num_step key) B acc = acc.
Proof. intros H. revert acc. induction H as [|l B Hl _ IH]; intros acc; simpl; [reflexivity|]. rewrite IH. destruct l; simpl in *; tauto. Qed.

Lemma last_num_body key (f : ctffile (T:=T)) : last_num key (chdr_body f) = last_num key (chdr_head f).
Proof.
  unfold last_num, chdr_body. change (fun (acc : option (num (T:=T))) (l : ctfline (T:=T)) => match l with
    | CLNum k v => if String.eqb k key then Some v else acc | _ => acc end) with (num_step key).
  rewrite fold_left_app. apply fold_not_num.
  apply Forall_app; split; [|apply Forall_app; split].
  - apply Forall_forall. intros l Hl. apply in_map_iff in Hl. destruct Hl as [m [<- _]]. exact I.
  - constructor; [exact I|constructor].
  - apply Forall_forall. intros l Hl. apply in_map_iff in Hl. destruct Hl as [m [<- _]]. exact I.
Qed.

(* the header grid of a rendered file: XCells/YCells/XStep/YStep are read back *)
Lemma fix_astar_render (f : ctffile (T:=T)) :
  fix_astar Op (chdr_body f) = Ok (grid_coords Op (cf_nrows f) (cf_ncols f) (cf_dx f) (cf_dy f)).
Proof.
  unfold fix_astar. rewrite !last_num_body.
  replace (last_num "XCells" (chdr_head f)) with (Some (NI (T:=T) (Z.of_nat (cf_ncols f))))
    by (unfold chdr_head, last_num; destruct (cf_vendor f); reflexivity).
  replace (last_num "YCells" (chdr_head f)) with (Some (NI (T:=T) (Z.of_nat (cf_nrows f))))
    by (unfold chdr_head, last_num; destruct (cf_vendor f); reflexivity).
  replace (last_num "XStep" (chdr_head f)) with (Some (NF (cf_dx f)))
    by (unfold chdr_head, last_num; destruct (cf_vendor f); reflexivity).
  replace (last_num "YStep" (chdr_head f)) with (Some (NF (cf_dy f)))
    by (unfold chdr_head, last_num; destruct (cf_vendor f); reflexivity).
  cbn [nint nval]. rewrite !Nat2Z.id. reflexivity.
Qed.

(* ASTAR: as Oxford, but the coordinates are those of the header grid
   (row-major c * XStep, r * YStep for YCells x XCells points), for ANY number
   of rows and columns (single rows / columns included) and whatever the
   coordinate columns contain *)
Theorem parse_ctf_astar (f : ctffile (T:=T)) (p0 : cpoint (T:=T)) pts (pgs : list (option string)) :
  wf_misc f -> map laue_pg (cf_phases f) = map Some pgs -> cf_pts f = p0 :: pts ->
  ctf_vendor (chdr_body f) = "astar" ->
  parse_ctf Op (render_chdr f) (map (render_cpt (T:=T)) (cf_pts f)) =
  bind (ctf_phaselist f pgs) (fun pl =>
    Ok (crystal_map Op 1 (map (eu_deg2rad Op) (map c_eu (cf_pts f)))
          (fst (grid_coords Op (cf_nrows f) (cf_ncols f) (cf_dx f) (cf_dy f)))
          (snd (grid_coords Op (cf_nrows f) (cf_ncols f) (cf_dx f) (cf_dy f)))
          (map cpid (cf_pts f))
          [("bands", cv c_bands (cf_pts f)); ("error", cv c_err (cf_pts f)); ("MAD", cv c_mad (cf_pts f));
           ("BC", cv c_bc (cf_pts f)); ("BS", cv c_bs (cf_pts f))] "um" pl false)).
Proof.
  intros Hm Hp Hpts Ha. unfold parse_ctf, ctf_phaselist. rewrite header_of_render.
  rewrite (ctf_phases_render f pgs Hm Hp). unfold bind at 1.
  assert (Hn : (11 <= ncols_of (map (render_cpt (T:=T)) (cf_pts f)))%nat) by (rewrite Hpts; apply cncols).
  rewrite Ha. replace (String.eqb "astar" "emsoft") with false by reflexivity.
  rewrite (assign_ctf_plain _ Hn). unfold bind at 1. cbv iota beta.
  replace (String.eqb "astar" "astar") with true by reflexivity.
  rewrite fix_astar_render. unfold bind at 1.
  cbn [ch_names ch_pgs ch_sgs ch_lats]. rewrite map_length.
  cfinish.
Qed.

End CtfProofs.
