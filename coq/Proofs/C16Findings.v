(* C16 -- Part 4: metadata through programs; the clauses that were refuted on
   the tree before the `fix:` commits (transpose / unit dropping the improper
   flags, Misorientation.unit / unary minus dropping the symmetry pair, Miller
   unary minus dropping phase and format, Miller.squeeze raising, azimuth
   writing into its operand), now proved for every well-formed object of the
   FAITHFUL machine; read-only properties. *)
From Coq Require Import ZArith List Bool Arith Lia.
From Verif Require Import Scalar NdIndex C16Model C16Index C16Proofs.
Import ListNotations.

(* ---------------------------------------------------------------- metadata *)
Fixpoint meta_after (c : cls) (p : list op) (m : meta) : meta :=
  match p with [] => m | o :: r => meta_after c r (smeta c o m) end.

Definition no_stack (p : list op) : bool :=
  forallb (fun o => match o with OStack _ => false | _ => true end) p.
Fixpoint inv_parity (p : list op) : bool :=
  match p with
  | [] => false
  | OEl EInv :: r => negb (inv_parity r)
  | _ :: r => inv_parity r
  end.
Definition is_mis (c : cls) : bool := match c with CMis => true | _ => false end.

Lemma meta_swap_invol m : meta_swap (meta_swap m) = m.
Proof. destruct m; reflexivity. Qed.

Section Meta.
Context {V : Type} (vf : vfuns V).

Lemma run_spec_meta c p : forall x x',
  run (step_spec vf c) p x = Some x' -> ometa x' = meta_after c p (ometa x).
Proof.
  induction p as [|o p IH]; intros x x'; simpl.
  - intros E; inversion E; reflexivity.
  - destruct (step_spec vf c o x) as [x1|] eqn:E1; [|discriminate].
    intros E. rewrite (IH _ _ E). f_equal.
    unfold step_spec in E1.
    destruct (astep (sact vf c) (drow vf) o (oshape x, orows x)) as [[s' l']|]; [|discriminate].
    inversion E1; reflexivity.
Qed.

(* a program of single-object operations returns the metadata it was given;
   the pair of a misorientation is swapped once per inversion *)
Lemma meta_after_closed c p : forall m, no_stack p = true ->
  meta_after c p m = if (is_mis c && inv_parity p)%bool then meta_swap m else m.
Proof.
  induction p as [|o p IH]; intros m Hn; simpl.
  - rewrite andb_false_r. reflexivity.
  - simpl in Hn. apply andb_true_iff in Hn as [Ho Hn]. rewrite (IH _ Hn).
    destruct o as [| | | | |vs|e]; try discriminate Ho; simpl; try reflexivity.
    destruct e; simpl; try reflexivity.
    destruct c; simpl; try reflexivity.
    destruct (inv_parity p); simpl; [rewrite meta_swap_invol|]; reflexivity.
Qed.

Theorem metadata_preserved c p x x' :
  no_stack p = true -> run (step_spec vf c) p x = Some x' ->
  ometa x' = if (is_mis c && inv_parity p)%bool then meta_swap (ometa x) else ometa x.
Proof. intros Hn E. rewrite (run_spec_meta c p x x' E). apply meta_after_closed; exact Hn. Qed.

(* ... and so does the implementation's method table *)
Theorem metadata_preserved_faithful c p x x' :
  wf c x = true -> no_stack p = true ->
  run (step_cls vf c) p x = Some x' ->
  ometa x' = if (is_mis c && inv_parity p)%bool then meta_swap (ometa x) else ometa x.
Proof.
  intros Hwf Hn E. rewrite (run_faithful vf c p x Hwf) in E.
  eapply metadata_preserved; eassumption.
Qed.
End Meta.

(* ------------------------------------------- the repaired clauses *)
(* values are plain numbers in the examples: the clauses are independent of
   the data *)
Definition vfN : vfuns nat := mkVfuns nat (fun v => v) (fun v => v) (fun v => v) 0.

Section Repaired.
Context {V : Type} (vf : vfuns V).

(* an element-wise operation of the implementation = map over the rows *)
Lemma eop_step c e f (x : obj V) :
  wf c x = true -> sact vf c e = Some f ->
  step_cls vf c (OEl e) x = Some (mkObj (oshape x) (map f (orows x)) (smeta c (OEl e) (ometa x))).
Proof.
  intros Hwf Hf. rewrite (step_faithful vf c (OEl e) x Hwf).
  unfold step_spec; cbn [astep]. rewrite Hf. reflexivity.
Qed.

(* transpose (>= 2 axes, any permutation of them) of an object of ANY class,
   rotation-like ones with set flags included: the rows -- value and improper
   flag together -- are gathered by the transposition's index map, metadata
   kept *)
Theorem transpose_flags c ax (x : obj V) :
  wf c x = true -> Nat.eqb (length (oshape x)) 1 = false ->
  perm_ok (length (oshape x)) ax = true ->
  step_cls vf c (OTranspose (Some ax)) x
  = Some (mkObj (tr_shape (oshape x) ax)
                (gather (drow vf) (orows x) (idx_transpose (oshape x) ax)) (ometa x)).
Proof.
  intros Hwf H1 Hp. rewrite (step_faithful vf c _ x Hwf).
  unfold step_spec; cbn [astep plan_of]. unfold plan_transpose. rewrite H1, Hp. reflexivity.
Qed.

(* ... and without axes on a 2-D object *)
Theorem transpose2_flags c (x : obj V) :
  wf c x = true -> length (oshape x) = 2 ->
  step_cls vf c (OTranspose None) x
  = Some (mkObj (tr_shape (oshape x) [1; 0])
                (gather (drow vf) (orows x) (idx_transpose (oshape x) [1; 0])) (ometa x)).
Proof.
  intros Hwf H2. rewrite (step_faithful vf c _ x Hwf).
  unfold step_spec; cbn [astep plan_of]. unfold plan_transpose. rewrite H2. reflexivity.
Qed.

(* .unit of any class: values normalised, every flag and the metadata
   (symmetry pair of a misorientation included) kept *)
Theorem unit_flags c (x : obj V) :
  wf c x = true ->
  exists y, step_cls vf c (OEl EUnit) x = Some y
            /\ oshape y = oshape x /\ o_data y = map (v_unit vf) (o_data x)
            /\ o_flags y = o_flags x /\ ometa y = ometa x.
Proof.
  intros Hwf. eexists. split; [eapply (eop_step c EUnit); [exact Hwf|reflexivity]|].
  unfold o_data, o_flags; cbn [oshape orows ometa smeta]. rewrite !map_map.
  repeat split; reflexivity.
Qed.

Theorem misorientation_unit_symmetry (x : obj V) :
  wf CMis x = true ->
  exists y, step_cls vf CMis (OEl EUnit) x = Some y /\ ometa y = ometa x.
Proof.
  intros Hwf. destruct (unit_flags CMis x Hwf) as [y [E [_ [_ [_ Hm]]]]]. exists y; split; assumption.
Qed.

(* unary minus of a misorientation: quaternions kept, every flag toggled,
   symmetry pair kept *)
Theorem misorientation_neg_symmetry (x : obj V) :
  wf CMis x = true ->
  exists y, step_cls vf CMis (OEl ENeg) x = Some y
            /\ o_data y = o_data x /\ o_flags y = map negb (o_flags x) /\ ometa y = ometa x.
Proof.
  intros Hwf. eexists. split; [eapply (eop_step CMis ENeg); [exact Hwf|reflexivity]|].
  unfold o_data, o_flags; cbn [oshape orows ometa smeta]. rewrite !map_map.
  repeat split; reflexivity.
Qed.

(* unary minus of a Miller object: values negated, phase and coordinate format kept *)
Theorem miller_neg_metadata (x : obj V) :
  wf CMil x = true ->
  exists y, step_cls vf CMil (OEl ENeg) x = Some y
            /\ oshape y = oshape x /\ o_data y = map (v_neg vf) (o_data x) /\ ometa y = ometa x.
Proof.
  intros Hwf. eexists. split; [eapply (eop_step CMil ENeg); [exact Hwf|reflexivity]|].
  unfold o_data; cbn [oshape orows ometa smeta]. rewrite !map_map.
  repeat split; reflexivity.
Qed.

(* Miller.squeeze returns: same rows and metadata, size-1 axes removed *)
Theorem miller_squeeze (x : obj V) :
  wf CMil x = true ->
  step_cls vf CMil OSqueeze x
  = Some (mkObj (atleast1 (squeeze_shape (oshape x))) (orows x) (ometa x)).
Proof. intros Hwf. rewrite (step_faithful vf CMil _ x Hwf). reflexivity. Qed.
End Repaired.

(* ------------------------------------------------- read-only properties *)
Section Azimuth.
Context {T : Type}.

(* reading azimuth leaves the object alone: the rounding of near-zero x / y
   components is done on copies *)
Theorem azimuth_no_mutation (x : obj (list T)) : after_read PAzimuth x = x.
Proof. reflexivity. Qed.

(* every other public property is a pure function of the object *)
Theorem pure_properties_no_mutation (x : obj (list T)) i : after_read (PPure i) x = x.
Proof. reflexivity. Qed.
End Azimuth.

(* ------------------------------------------------------------------
   the headline for structural programs on the implementation's method
   table: result = the rows gathered as the index array is, same metadata *)
Section Headline.
Context {V : Type} (vf : vfuns V).

Lemma run_spec_arun c p : forall x,
  run (step_spec vf c) p x
  = option_map (fun a => mkObj (fst a) (snd a) (meta_after c p (ometa x)))
               (arun (sact vf c) (drow vf) p (oshape x, orows x)).
Proof.
  induction p as [|o p IH]; intros [s rows m]; [reflexivity|].
  cbn [run arun meta_after]. unfold step_spec at 1; cbn [oshape orows ometa].
  destruct (astep (sact vf c) (drow vf) o (s, rows)) as [[s' l']|]; [|reflexivity].
  rewrite IH. reflexivity.
Qed.

Lemma struct_no_eops p : forallb is_struct p = true -> flat_map op_eops p = [].
Proof.
  induction p as [|o p IH]; simpl; [reflexivity|]. intros H. apply andb_true_iff in H as [Ho Hp].
  rewrite (IH Hp). destruct o; try discriminate Ho; reflexivity.
Qed.

Lemma struct_meta c p m : forallb is_struct p = true -> meta_after c p m = m.
Proof.
  revert m; induction p as [|o p IH]; intros m; simpl; [reflexivity|]. intros H.
  apply andb_true_iff in H as [Ho Hp]. rewrite (IH _ Hp). destruct o; try discriminate Ho; reflexivity.
Qed.

Theorem class_index_array c p x :
  wf c x = true -> forallb is_struct p = true ->
  run (step_cls vf c) p x
  = option_map (fun a => mkObj (fst a) (gather (drow vf) (orows x) (snd a)) (ometa x))
               (arun act_idx (length (orows x)) p (oshape x, seq 0 (length (orows x)))).
Proof.
  intros Hwf Hst. rewrite (run_faithful vf c p x Hwf), run_spec_arun.
  rewrite (struct_meta c p _ Hst).
  rewrite (struct_index_array vf c p (oshape x) (orows x))
    by (rewrite (struct_no_eops p Hst); constructor).
  destruct (arun act_idx (length (orows x)) p (oshape x, seq 0 (length (orows x)))) as [[s' ks]|];
    reflexivity.
Qed.
End Headline.
