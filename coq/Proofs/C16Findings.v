(* C16 -- Part 4: metadata through programs; the strata where the FAITHFUL
   machine violates the property (witnesses computed by vm_compute; each is
   replayed on the implementation by the oracle); read-only properties. *)
From Coq Require Import ZArith List Bool Arith Lia Reals Lra.
From Verif Require Import Scalar RInst NdIndex C16Model C16Index C16Proofs.
Import ListNotations.

(* ---------------------------------------------------------------- metadata *)
Fixpoint meta_after (c : cls) (p : list op) (m : meta) : meta :=
  match p with [] => m | o :: r => meta_after c r (smeta c o m) end.

Definition no_stack (p : list op) : bool :=
  forallb (fun o => match o with OStack _ => false | _ => true end) p.
Fixpoint inv_parity (p : list op) : bool :=
  match p with
  | [] => false
  | OEl EInv :: r => negb (inv_parity r)
  | _ :: r => inv_parity r
  end.
Definition is_mis (c : cls) : bool := match c with CMis => true | _ => false end.

Lemma meta_swap_invol m : meta_swap (meta_swap m) = m.
Proof. destruct m; reflexivity. Qed.

Section Meta.
Context {V : Type} (vf : vfuns V).

Lemma run_spec_meta c p : forall x x',
  run (step_spec vf c) p x = Some x' -> ometa x' = meta_after c p (ometa x).
Proof.
  induction p as [|o p IH]; intros x x'; simpl.
  - intros E; inversion E; reflexivity.
  - destruct (step_spec vf c o x) as [x1|] eqn:E1; [|discriminate].
    intros E. rewrite (IH _ _ E). f_equal.
    unfold step_spec in E1.
    destruct (astep (sact vf c) (drow vf) o (oshape x, orows x)) as [[s' l']|]; [|discriminate].
    inversion E1; reflexivity.
Qed.

(* a program of single-object operations returns the metadata it was given;
   the pair of a misorientation is swapped once per inversion *)
Lemma meta_after_closed c p : forall m, no_stack p = true ->
  meta_after c p m = if (is_mis c && inv_parity p)%bool then meta_swap m else m.
Proof.
  induction p as [|o p IH]; intros m Hn; simpl.
  - rewrite andb_false_r. reflexivity.
  - simpl in Hn. apply andb_true_iff in Hn as [Ho Hn]. rewrite (IH _ Hn).
    destruct o as [| | | | |vs|e]; try discriminate Ho; simpl; try reflexivity.
    destruct e; simpl; try reflexivity.
    destruct c; simpl; try reflexivity.
    destruct (inv_parity p); simpl; [rewrite meta_swap_invol|]; reflexivity.
Qed.

Theorem metadata_preserved c p x x' :
  no_stack p = true -> run (step_spec vf c) p x = Some x' ->
  ometa x' = if (is_mis c && inv_parity p)%bool then meta_swap (ometa x) else ometa x.
Proof. intros Hn E. rewrite (run_spec_meta c p x x' E). apply meta_after_closed; exact Hn. Qed.

(* ... and so does the implementation's method table, outside the findings *)
Theorem metadata_preserved_faithful c p x x' :
  wf c x = true -> safe_run vf c p x = true -> no_stack p = true ->
  run (step_cls vf c) p x = Some x' ->
  ometa x' = if (is_mis c && inv_parity p)%bool then meta_swap (ometa x) else ometa x.
Proof.
  intros Hwf Hs Hn E. rewrite (run_faithful vf c p x Hwf Hs) in E.
  eapply metadata_preserved; eassumption.
Qed.
End Meta.

(* ------------------------------------------------------------ the findings *)
(* values are plain numbers here: the defects are independent of the data *)
Definition vfN : vfuns nat := mkVfuns nat (fun v => v) (fun v => v) (fun v => v) 0.

Definition differs_in {A} (proj : obj nat -> A) (c : cls) (o : op) (x : obj nat) : Prop :=
  wf c x = true /\
  exists y z, step_cls vfN c o x = Some y /\ step_spec vfN c o x = Some z /\ proj y <> proj z.

Ltac witness x :=
  exists x; split; [reflexivity|];
  eexists; eexists; split; [vm_compute; reflexivity|]; split; [vm_compute; reflexivity|];
  vm_compute; discriminate.

(* Rotation/Orientation/Misorientation.transpose on >= 2 axes resets the flags *)
Lemma transpose_flags_refuted :
  exists x, differs_in o_flags CRot (OTranspose None) x
         /\ differs_in o_flags COri (OTranspose (Some [1; 0])) (mkObj (oshape x) (orows x) (mkMeta 0 5 0 0))
         /\ differs_in o_flags CMis (OTranspose None) (mkObj (oshape x) (orows x) (mkMeta 3 5 0 0)).
Proof.
  exists (mkObj [1; 2] [(7, true); (8, false)] meta0). repeat split;
  try (eexists; eexists; split; [vm_compute; reflexivity|]; split; [vm_compute; reflexivity|];
       vm_compute; discriminate).
Qed.

Lemma unit_flags_refuted :
  exists x, differs_in o_flags CRot (OEl EUnit) x
         /\ differs_in o_flags COri (OEl EUnit) (mkObj (oshape x) (orows x) (mkMeta 0 5 0 0))
         /\ differs_in o_flags CMis (OEl EUnit) (mkObj (oshape x) (orows x) (mkMeta 3 5 0 0)).
Proof.
  exists (mkObj [2] [(7, true); (8, false)] meta0). repeat split;
  try (eexists; eexists; split; [vm_compute; reflexivity|]; split; [vm_compute; reflexivity|];
       vm_compute; discriminate).
Qed.

Lemma misorientation_unit_symmetry_refuted :
  exists x, differs_in ometa CMis (OEl EUnit) x.
Proof. witness (mkObj [2] [(7, false); (8, false)] (mkMeta 3 5 0 0)). Qed.

Lemma misorientation_neg_symmetry_refuted :
  exists x, differs_in ometa CMis (OEl ENeg) x.
Proof. witness (mkObj [2] [(7, false); (8, true)] (mkMeta 3 5 0 0)). Qed.

Lemma miller_neg_metadata_refuted :
  exists x, differs_in ometa CMil (OEl ENeg) x.
Proof. witness (mkObj [2] [(7, false); (8, false)] (mkMeta 0 0 1 2)). Qed.

Lemma miller_squeeze_refuted :
  exists x, wf CMil x = true /\ step_cls vfN CMil OSqueeze x = None
            /\ exists z, step_spec vfN CMil OSqueeze x = Some z.
Proof.
  exists (mkObj [1; 2] [(7, false); (8, false)] (mkMeta 0 0 1 2)).
  split; [reflexivity|]. split; [reflexivity|]. eexists. vm_compute. reflexivity.
Qed.

(* ------------------------------------------------- read-only properties *)
Section Azimuth.
Context {T : Type} (O : Ops T).

Definition az_fixed (v : list T) : Prop :=
  match v with
  | x :: y :: _ => (isclose0 O x = false \/ x = o_ofZ O 0) /\ (isclose0 O y = false \/ y = o_ofZ O 0)
  | _ => True
  end.

Lemma az_clean_fixed v : az_fixed v -> az_clean O v = v.
Proof.
  destruct v as [|x [|y r]]; simpl; try reflexivity.
  intros [[Hx|Hx] [Hy|Hy]]; try rewrite Hx; try rewrite Hy; try reflexivity;
    subst; repeat match goal with |- context[if ?b then _ else _] => destruct b end; reflexivity.
Qed.

(* reading azimuth leaves the object alone iff no x / y component is a
   non-zero number within 1e-8 of zero *)
Theorem azimuth_no_mutation_outside (x : obj (list T)) :
  Forall (fun r => az_fixed (fst r)) (orows x) -> after_read O PAzimuth x = x.
Proof.
  destruct x as [s rows m]. simpl. intros H. f_equal.
  induction H as [|[v b] rows Hv _ IH]; simpl; [reflexivity|].
  rewrite IH. simpl in Hv. rewrite (az_clean_fixed v Hv). reflexivity.
Qed.

(* every other public property is a pure function of the object *)
Theorem pure_properties_no_mutation (x : obj (list T)) i : after_read O (PPure i) x = x.
Proof. reflexivity. Qed.
End Azimuth.

Local Open Scope R_scope.
Lemma azimuth_mutation_refuted :
  exists x : obj (list R), after_read ROps PAzimuth x <> x.
Proof.
  exists (mkObj [1%nat] [([1 / 1000000000; 1; 0], false)] meta0).
  unfold after_read; simpl. unfold isclose0. rsimpl.
  assert (E1 : Rleb (Rabs (1 / 1000000000)) (1 / IZR (Zpos 100000000)) = true).
  { apply Rleb_true. rewrite Rabs_pos_eq by lra. lra. }
  rewrite E1. intros H. inversion H as [H1]. lra.
Qed.

(* ------------------------------------------------------------------
   the headline for structural programs on the implementation's method
   table: result = the rows gathered as the index array is, same metadata *)
Section Headline.
Context {V : Type} (vf : vfuns V).

Lemma run_spec_arun c p : forall x,
  run (step_spec vf c) p x
  = option_map (fun a => mkObj (fst a) (snd a) (meta_after c p (ometa x)))
               (arun (sact vf c) (drow vf) p (oshape x, orows x)).
Proof.
  induction p as [|o p IH]; intros [s rows m]; [reflexivity|].
  cbn [run arun meta_after]. unfold step_spec at 1; cbn [oshape orows ometa].
  destruct (astep (sact vf c) (drow vf) o (s, rows)) as [[s' l']|]; [|reflexivity].
  rewrite IH. reflexivity.
Qed.

Lemma struct_no_eops p : forallb is_struct p = true -> flat_map op_eops p = [].
Proof.
  induction p as [|o p IH]; simpl; [reflexivity|]. intros H. apply andb_true_iff in H as [Ho Hp].
  rewrite (IH Hp). destruct o; try discriminate Ho; reflexivity.
Qed.

Lemma struct_meta c p m : forallb is_struct p = true -> meta_after c p m = m.
Proof.
  revert m; induction p as [|o p IH]; intros m; simpl; [reflexivity|]. intros H.
  apply andb_true_iff in H as [Ho Hp]. rewrite (IH _ Hp). destruct o; try discriminate Ho; reflexivity.
Qed.

Theorem class_index_array c p x :
  wf c x = true -> safe_run vf c p x = true -> forallb is_struct p = true ->
  run (step_cls vf c) p x
  = option_map (fun a => mkObj (fst a) (gather (drow vf) (orows x) (snd a)) (ometa x))
               (arun act_idx (length (orows x)) p (oshape x, seq 0 (length (orows x)))).
Proof.
  intros Hwf Hs Hst. rewrite (run_faithful vf c p x Hwf Hs), run_spec_arun.
  rewrite (struct_meta c p _ Hst).
  rewrite (struct_index_array vf c p (oshape x) (orows x))
    by (rewrite (struct_no_eops p Hst); constructor).
  destruct (arun act_idx (length (orows x)) p (oshape x, seq 0 (length (orows x)))) as [[s' ks]|];
    reflexivity.
Qed.
End Headline.
