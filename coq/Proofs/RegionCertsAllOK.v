(* All region certificates check, the distinguished points are complete w.r.t. the two groups, and the
   consequence over the reals: inside the region => minimal rotation angle in the whole orbit. *)
From Coq Require Import Reals ZArith QArith List String Bool Lra.
From Verif Require Import Scalar RInst KField KtoR KSign Quat QuatAlg GroupK Groups GroupFacts SymDot SymDotR SymDotK
  ZoneModel ZoneProofs CertCheck CertSound RegionCertsAll RegionCerts00 RegionCertsOK00 RegionCerts01 RegionCertsOK01 RegionCerts02 RegionCertsOK02 RegionCerts03 RegionCertsOK03 RegionCerts04 RegionCertsOK04 RegionCerts05 RegionCertsOK05 RegionCerts06 RegionCertsOK06 RegionCerts07 RegionCertsOK07 RegionCerts08 RegionCertsOK08 RegionCerts09 RegionCertsOK09 RegionCerts10 RegionCertsOK10 RegionCerts11 RegionCertsOK11 RegionCerts12 RegionCertsOK12 RegionCerts13 RegionCertsOK13 RegionCerts14 RegionCertsOK14.
Import ListNotations.
Local Open Scope R_scope.

Lemma all_region_certs_ok : Forall (fun L => forallb rc_ok L = true) all_region_certs.
Proof.
  unfold all_region_certs. repeat (apply Forall_cons; [shelve|]). apply Forall_nil.
  Unshelve.
  - exact region_certs_ok_00.
  - exact region_certs_ok_01.
  - exact region_certs_ok_02.
  - exact region_certs_ok_03.
  - exact region_certs_ok_04.
  - exact region_certs_ok_05.
  - exact region_certs_ok_06.
  - exact region_certs_ok_07.
  - exact region_certs_ok_08.
  - exact region_certs_ok_09.
  - exact region_certs_ok_10.
  - exact region_certs_ok_11.
  - exact region_certs_ok_12.
  - exact region_certs_ok_13.
  - exact region_certs_ok_14.
Qed.

(* proper operations (quaternion parts) of a named group *)
Definition proper_quats (name : string) : list kquat :=
  match find (fun g => String.eqb (g_name g) name) groups with
  | Some g => map fst (filter (fun r => negb (snd r)) (g_elems g))
  | None => []
  end.

Definition rc_complete (rc : region_cert) : bool :=
  d_complete (proper_quats (rc_l rc)) (proper_quats (rc_r rc)) (rc_D rc) &&
  negb (Nat.eqb (List.length (proper_quats (rc_l rc))) 0) && negb (Nat.eqb (List.length (proper_quats (rc_r rc))) 0).

Lemma all_regions_complete : forallb (forallb rc_complete) all_region_certs = true.
Proof. vm_cast_no_check (eq_refl true). Qed.

Lemma region_count : Datatypes.length (List.concat all_region_certs) = 225%nat.
Proof. vm_compute. reflexivity. Qed.

Lemma qre_cyclic (gl x gr : quat (T:=R)) :
  qre (qmul ROps (qmul ROps gl x) gr) = qre (qmul ROps x (qmul ROps gr gl)).
Proof. qdestruct. unfold qre. qunfold. ring. Qed.

Lemma is_pm_one_sound c : is_pm_one c = true -> qtoR c = qone ROps \/ qtoR c = qneg ROps (qone ROps).
Proof.
  unfold is_pm_one. intros H. apply orb_prop in H. destruct H as [H|H]; apply kq_eqb_sound in H; rewrite H.
  - left. unfold kq_one, qtoR, qone. rewrite toR_K1, toR_K0. rsimpl. reflexivity.
  - right. unfold kq_one, qneg, qtoR, qone. cbn [KOps o_opp]. rewrite !toR_opp, toR_K1, toR_K0. rsimpl. reflexivity.
Qed.

(* MAIN THEOREM of the certificates: for every ordered pair of proper point groups, every real quaternion x
   inside the orientation region the code constructs (exact test) has the smallest rotation angle in its whole
   orbit { gl * x * gr } *)
Theorem inside_region_is_minimal_in_orbit (rc : region_cert) :
  In rc (List.concat all_region_certs) ->
  forall x : quat (T:=R), inside_region ROps 0 (map qtoR (rc_N rc)) x = true ->
  forall gl gr, In gl (map qtoR (proper_quats (rc_l rc))) -> In gr (map qtoR (proper_quats (rc_r rc))) ->
    Rabs (qre (qmul ROps (qmul ROps gl x) gr)) <= Rabs (qre x).
Proof.
  intros Hrc x Hin gl gr Hgl Hgr.
  apply in_concat in Hrc. destruct Hrc as [L [HL HrcL]].
  pose proof (proj1 (Forall_forall _ _) all_region_certs_ok L HL) as Hok. pose proof (forallb_In _ _ Hok rc HrcL) as Hrcok.
  pose proof (forallb_In _ _ all_regions_complete L HL) as Hcm. pose proof (forallb_In _ _ Hcm rc HrcL) as Hc.
  unfold rc_complete in Hc. apply andb_prop in Hc. destruct Hc as [Hc _]. apply andb_prop in Hc. destruct Hc as [Hc _].
  apply in_map_iff in Hgl, Hgr. destruct Hgl as [kl [<- Hkl]], Hgr as [kr [<- Hkr]].
  unfold d_complete in Hc. pose proof (forallb_In _ _ Hc kl Hkl) as Hc1. cbv beta in Hc1.
  pose proof (forallb_In _ _ Hc1 kr Hkr) as Hc2. cbv beta in Hc2.
  rewrite qre_cyclic.
  assert (E : qmul ROps (qtoR kr) (qtoR kl) = qconj ROps (qtoR (qconj KOps (qmul KOps kr kl)))).
  { rewrite qtoR_conj, qtoR_mul, qconj_invol. reflexivity. }
  rewrite E. apply orb_prop in Hc2. destruct Hc2 as [H1|HD].
  - destruct (is_pm_one_sound _ H1) as [-> | ->].
    + destruct x as [[[x0 x1] x2] x3]. unfold qre; qunfold.
      replace (x0 * 1 - x1 * - 0 - x2 * - 0 - x3 * - 0) with x0 by ring. lra.
    + destruct x as [[[x0 x1] x2] x3]. unfold qre; qunfold.
      replace (x0 * - (1) - x1 * - - 0 - x2 * - - 0 - x3 * - - 0) with (- x0) by ring. rewrite Rabs_Ropp. lra.
  - apply (region_implies_minimal rc Hrcok x Hin).
    unfold kq_mem in HD. apply existsb_exists in HD. destruct HD as [d [Hd He]].
    apply kq_eqb_sound in He. rewrite He. apply in_map. exact Hd.
Qed.
