(* C01: homochoric kernel qu2ho_single and Rodrigues kernels ax2ro/ro2ax (generated) over R. *)
From Coq Require Import Reals ZArith Lra Nsatz Bool.
From Verif Require Import Scalar RInst QuatKernels Conversions Quat QuatAlg ConvAxis.
Local Open Scope R_scope.

Definition ho_max : R := Rrpow (3 * PI / 4) 1 3.

Lemma Rrpow_nonneg x p q : 0 <= Rrpow x p q.
Proof. unfold Rrpow. destruct (Req_EM_T x 0); [lra|]. unfold Rpower. left; apply exp_pos. Qed.

Lemma Rrpow_le x y : 0 <= x <= y -> Rrpow x 1 3 <= Rrpow y 1 3.
Proof.
  intros [H0 H1]. unfold Rrpow.
  destruct (Req_EM_T x 0) as [->|Hx], (Req_EM_T y 0) as [->|Hy]; try lra.
  - unfold Rpower. left; apply exp_pos.
  - apply Rle_Rpower_l; lra.
Qed.

Lemma Rrpow_lt x y : 0 < x < y -> Rrpow x 1 3 < Rrpow y 1 3.
Proof.
  intros [H0 H1]. unfold Rrpow.
  destruct (Req_EM_T x 0) as [->|Hx], (Req_EM_T y 0) as [->|Hy]; try lra.
  apply Rlt_Rpower_l; lra.
Qed.

Lemma ho_norm2 a b c d :
  a * a + b * b + c * c + d * d = 1 -> -1 < a <= 1 ->
  1 / 1000000000 <= 2 * acos a ->
  vdot ROps (qu2ho ROps (a, b, c, d)) (qu2ho ROps (a, b, c, d))
  = Rrpow (3 * (2 * acos a - sin (2 * acos a)) / 4) 1 3 *
    Rrpow (3 * (2 * acos a - sin (2 * acos a)) / 4) 1 3.
Proof.
  intros Hu Hb Hw. unfold qu2ho, qu2ho_single, vdot. cbv zeta. rsimpl.
  destruct (Rltb (2 * acos a) (1 / 1000000000)) eqn:E1; [apply Rltb_true in E1; lra|].
  assert (Hne : a <> 1) by (intros ->; rewrite acos_1 in Hw; lra).
  assert (Hprod : 0 < (1 - a) * (1 + a)) by (apply Rmult_lt_0_compat; lra).
  assert (Hpos : 0 < b * b + c * c + d * d) by nra.
  set (s := sqrt (b * b + c * c + d * d)).
  assert (Hs0 : 0 < s) by (apply sqrt_lt_R0; assumption).
  assert (Hss : s * s = b * b + c * c + d * d) by (apply sqrt_sqrt; lra).
  set (r := Rrpow _ 1 3).
  replace (b / s * r * (b / s * r) + c / s * r * (c / s * r) + d / s * r * (d / s * r))
    with ((b * b + c * c + d * d) / (s * s) * (r * r)) by (field; lra).
  rewrite <- Hss. field. nra.
Qed.

(* homochoric length <= (3 pi / 4)^(1/3) on the non-negative hemisphere *)
Lemma ho_range_pos a b c d :
  a * a + b * b + c * c + d * d = 1 -> 0 <= a ->
  vdot ROps (qu2ho ROps (a, b, c, d)) (qu2ho ROps (a, b, c, d)) <= ho_max * ho_max.
Proof.
  intros Hu Ha. pose proof (unit_bounds a b c d Hu) as Hb.
  destruct (Rlt_dec (2 * acos a) (1 / 1000000000)) as [Hsmall|Hbig].
  - unfold qu2ho, qu2ho_single, vdot. cbv zeta. rsimpl.
    destruct (Rltb (2 * acos a) (1 / 1000000000)) eqn:E1; [|apply Rltb_false in E1; lra].
    pose proof (Rrpow_nonneg (3 * PI / 4) 1 3). unfold ho_max. nra.
  - rewrite ho_norm2 by lra.
    pose proof (qu2ax_angle_range_pos a) as Hr. specialize (Hr (conj Ha (proj2 Hb))).
    set (w := 2 * acos a) in *.
    assert (Hsin : 0 <= sin w) by (apply sin_ge_0; lra).
    assert (Hsx : sin w < w) by (apply sin_lt_x; lra).
    assert (Hle : Rrpow (3 * (w - sin w) / 4) 1 3 <= ho_max).
    { unfold ho_max. apply Rrpow_le. lra. }
    pose proof (Rrpow_nonneg (3 * (w - sin w) / 4) 1 3). nra.
Qed.

(* ... and is LARGER than that on the negative hemisphere (the kernel does not
   canonicalise the sign): a finding, see known_findings *)
Lemma ho_range_neg a b c d :
  a * a + b * b + c * c + d * d = 1 -> -1 < a < 0 ->
  ho_max * ho_max < vdot ROps (qu2ho ROps (a, b, c, d)) (qu2ho ROps (a, b, c, d)).
Proof.
  intros Hu Ha. pose proof (unit_bounds a b c d Hu) as Hb.
  assert (Hw : PI < 2 * acos a) by (apply qu2ax_angle_neg; lra).
  pose proof PI_RGT_0 as Hpi. pose proof PI2_3_2.
  rewrite ho_norm2 by lra.
  assert (Hw2 : 2 * acos a < 2 * PI).
  { pose proof (acos_bound_lt a). lra. }
  set (w := 2 * acos a) in *.
  assert (Hsin : sin w < 0) by (apply sin_lt_0; lra).
  assert (Hlt : ho_max < Rrpow (3 * (w - sin w) / 4) 1 3).
  { unfold ho_max. apply Rrpow_lt. lra. }
  pose proof (Rrpow_nonneg (3 * PI / 4) 1 3). unfold ho_max in *. nra.
Qed.

Lemma ho_range_neg_refuted :
  exists q : quat (T:=R), qnorm2 ROps q = 1 /\
    ho_max * ho_max < vdot ROps (qu2ho ROps q) (qu2ho ROps q).
Proof.
  exists (-3/5, 4/5, 0, 0). split.
  - unfold qnorm2; rsimpl; field.
  - apply ho_range_neg; lra.
Qed.

(* Rodrigues-Frank kernels: ro2ax (ax2ro (n, w)) = (n, w) for a unit axis and
   an angle in the documented domain *)
Lemma ro2ax_ax2ro x y z w :
  x * x + y * y + z * z = 1 ->
  1 / 100000000 <= w -> w < PI -> 1 / 1000 <= PI - w ->
  1 / 100000000 <= tan (w * (1 / 2)) ->
  ro2ax ROps (ax2ro ROps (x, y, z, w)) = (x, y, z, w).
Proof.
  intros Hn Hw0 Hw1 Hw2 Ht.
  unfold ro2ax, ax2ro, ro2ax_single, ax2ro_single. cbv zeta. rsimpl.
  assert (E1 : Rltb (-1 / 100000000) w && Rltb w (1 / 100000000) = false).
  { apply andb_false_iff; right; apply Rltb_false; lra. }
  rewrite E1.
  destruct (Rltb (Rabs (w - PI)) (1 / 1000)) eqn:E2.
  { apply Rltb_true in E2. rewrite Rabs_left in E2 by lra. lra. }
  assert (E3 : Rltb (-1 / 100000000) (tan (w * (1 / 2))) && Rltb (tan (w * (1 / 2))) (1 / 100000000) = false).
  { apply andb_false_iff; right; apply Rltb_false; lra. }
  rewrite E3, Hn, sqrt_1.
  rewrite atan_tan by (pose proof PI_RGT_0; lra).
  tuple_eq; field.
Qed.
