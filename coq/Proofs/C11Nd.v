(* C11 -- generic list / index lemmas used by the crystal-map proofs:
   boolean-mask filtering, scatter, positions of True, ravel/unravel, list
   minima/maxima, rational min/max and round-half-even. *)
From Coq Require Import String Ascii ZArith QArith Qround List Bool Lia Arith.
From Verif Require Import NdIndex C11CMap.
Import ListNotations.
Close Scope Q_scope.
Open Scope nat_scope.

(* ------------------------------------------------------------ res monad *)
Lemma bind_ok {A B} (r : res A) (f : A -> res B) b :
  bind r f = Ok b -> exists a, r = Ok a /\ f a = Ok b.
Proof. destruct r; simpl; intros H; [eauto | discriminate]. Qed.

Lemma mapM_nth {A B} (f : A -> res B) (g : nat -> B) (l : list A) (da : A) :
  (forall d, d < length l -> f (nth d l da) = Ok (g d)) ->
  mapM f l = Ok (map g (seq 0 (length l))).
Proof.
  revert g; induction l as [|a t IH]; intros g H; simpl; [reflexivity|].
  pose proof (H 0 ltac:(simpl; lia)) as H0. simpl in H0. rewrite H0. simpl.
  rewrite (IH (fun d => g (S d))).
  - simpl. rewrite <- seq_shift, map_map. reflexivity.
  - intros d Hd. apply (H (S d)). simpl; lia.
Qed.

Lemma mapM_length {A B} (f : A -> res B) l r : mapM f l = Ok r -> length r = length l.
Proof.
  revert r; induction l as [|a t IH]; simpl; intros r H.
  - inversion H; reflexivity.
  - apply bind_ok in H as (b & _ & H). apply bind_ok in H as (bs & Hbs & H).
    inversion H; subst; simpl. f_equal. apply IH; assumption.
Qed.

(* --------------------------------------------------------- mask_filter *)
Lemma mask_filter_nil_r {A} (m : list bool) : mask_filter m (@nil A) = [].
Proof. destruct m; reflexivity. Qed.

Lemma mask_filter_map {A B} (f : A -> B) m l :
  mask_filter m (map f l) = map f (mask_filter m l).
Proof.
  revert l; induction m as [|b m IH]; intros [|a l]; simpl; try reflexivity.
  destruct b; simpl; rewrite IH; reflexivity.
Qed.

Lemma mask_filter_map_self {A} (f : A -> bool) l : mask_filter (map f l) l = filter f l.
Proof. induction l as [|a l IH]; simpl; [reflexivity|]. destruct (f a); rewrite IH; reflexivity. Qed.

Lemma seq_map_nth {A} (l : list A) d : l = map (fun i => nth i l d) (seq 0 (length l)).
Proof.
  induction l as [|a l IH]; simpl; [reflexivity|].
  f_equal. rewrite <- seq_shift, map_map. exact IH.
Qed.

(* a[mask] = [a[i] for i in positions of True] -- the alignment lemma *)
Lemma mask_filter_ids {A} (m : list bool) (l : list A) d :
  length m = length l -> mask_filter m l = map (fun i => nth i l d) (ids_of m).
Proof.
  intros H. unfold ids_of. rewrite <- mask_filter_map, H, <- seq_map_nth. reflexivity.
Qed.

Lemma ids_of_map_seq (f : nat -> bool) n : ids_of (map f (seq 0 n)) = filter f (seq 0 n).
Proof.
  unfold ids_of. rewrite map_length, seq_length. apply mask_filter_map_self.
Qed.

Lemma ids_of_filter (m : list bool) :
  ids_of m = filter (fun p => nth p m false) (seq 0 (length m)).
Proof.
  rewrite <- ids_of_map_seq. f_equal. apply seq_map_nth.
Qed.

Lemma ids_of_In m p : In p (ids_of m) <-> p < length m /\ nth p m false = true.
Proof.
  rewrite ids_of_filter, filter_In, in_seq. intuition lia.
Qed.

Lemma ids_of_NoDup m : NoDup (ids_of m).
Proof. rewrite ids_of_filter. apply NoDup_filter, seq_NoDup. Qed.

Lemma ids_of_lt m p : In p (ids_of m) -> p < length m.
Proof. intros H; apply ids_of_In in H; tauto. Qed.

Lemma mask_filter_nonempty {A} (m : list bool) (l : list A) :
  length m = length l -> ids_of m <> [] -> mask_filter m l <> [].
Proof.
  intros H Hne Hnil.
  destruct l as [|a l].
  - destruct m; [apply Hne; reflexivity | discriminate].
  - rewrite (mask_filter_ids m (a :: l) a H) in Hnil.
    apply map_eq_nil in Hnil. contradiction.
Qed.

(* ------------------------------------------------------------- scatter *)
Lemma scatter_length {A} (d : A) m vals : length (scatter d m vals) = length m.
Proof.
  revert vals; induction m as [|b m IH]; intros vals; simpl; [reflexivity|].
  destruct b; simpl; rewrite IH; reflexivity.
Qed.

(* new = zeros; new[positions of m] = key   ==>   l[new] = l[m][key] *)
Lemma mask_filter_scatter {A} (m key : list bool) (l : list A) :
  mask_filter (scatter false m key) l = mask_filter key (mask_filter m l).
Proof.
  revert key l; induction m as [|b m IH]; intros key l; simpl.
  - destruct key; reflexivity.
  - destruct l as [|a l].
    + destruct b; simpl; destruct key; reflexivity.
    + destruct b; simpl.
      * destruct key as [|k key]; simpl.
        -- rewrite IH. reflexivity.
        -- destruct k; rewrite IH; reflexivity.
      * apply IH.
Qed.

Lemma ids_of_scatter (m key : list bool) :
  ids_of (scatter false m key) = mask_filter key (ids_of m).
Proof.
  unfold ids_of. rewrite scatter_length. apply mask_filter_scatter.
Qed.

Lemma mask_filter_length_indep {A B} (m : list bool) (l : list A) (l' : list B) :
  length l = length m -> length l' = length m ->
  length (mask_filter m l) = length (mask_filter m l').
Proof.
  revert l l'; induction m as [|b m IH]; intros [|a l] [|a' l'] H1 H2; simpl in *; try lia.
  destruct b; simpl; rewrite (IH l l') by lia; reflexivity.
Qed.

Lemma count_length {A} (m : list bool) (l : list A) :
  length l = length m -> length (mask_filter m l) = count m.
Proof.
  intros H. unfold count, ids_of. apply mask_filter_length_indep; [assumption | apply seq_length].
Qed.

Lemma mask_filter_scatter_self {A} (d : A) m vals :
  length vals = length (mask_filter m m) -> mask_filter m (scatter d m vals) = vals.
Proof.
  revert vals; induction m as [|b m IH]; intros vals H; simpl in *.
  - destruct vals; [reflexivity | discriminate].
  - destruct b; simpl in *.
    + destruct vals as [|v vals]; [discriminate|]. simpl. f_equal. apply IH. simpl in H; lia.
    + apply IH; assumption.
Qed.

Lemma scatter_off {A} (d : A) m vals p :
  nth p m false = false -> nth p (scatter d m vals) d = d.
Proof.
  revert vals p; induction m as [|b m IH]; intros vals p H; simpl.
  - destruct p; reflexivity.
  - destruct p as [|p]; simpl in H.
    + subst b. reflexivity.
    + destruct b; simpl; apply IH; assumption.
Qed.

(* the k-th selected position holds the k-th value *)
Lemma scatter_at_ids {A} (d : A) m vals k :
  length vals = count m -> k < count m ->
  nth (nth k (ids_of m) 0) (scatter d m vals) d = nth k vals d.
Proof.
  intros Hl Hk.
  assert (H : mask_filter m (scatter d m vals) = vals).
  { apply mask_filter_scatter_self. rewrite Hl. symmetry. apply count_length. reflexivity. }
  rewrite (mask_filter_ids m (scatter d m vals) d) in H by (rewrite scatter_length; reflexivity).
  rewrite <- H at 2.
  set (f := fun i => nth i (scatter d m vals) d).
  rewrite (nth_indep (map f (ids_of m)) d (f 0)) by (rewrite map_length; exact Hk).
  rewrite map_nth. reflexivity.
Qed.

(* ---------------------------------------------------------- zip / forallb2 *)
Lemma zip_with_length {A B C} (f : A -> B -> C) l1 l2 :
  length (zip_with f l1 l2) = Nat.min (length l1) (length l2).
Proof.
  revert l2; induction l1 as [|a l1 IH]; intros [|b l2]; simpl; try reflexivity.
  rewrite IH; reflexivity.
Qed.

Lemma zip_with_nth {A B C} (f : A -> B -> C) l1 l2 d da db dc :
  d < length l1 -> d < length l2 ->
  nth d (zip_with f l1 l2) dc = f (nth d l1 da) (nth d l2 db).
Proof.
  revert l2 d; induction l1 as [|a l1 IH]; intros [|b l2] d H1 H2; simpl in *; try lia.
  destruct d; [reflexivity|]. apply IH; lia.
Qed.

Lemma forallb2_nth {A B} (f : A -> B -> bool) l1 l2 da db :
  forallb2 f l1 l2 = true <->
  length l1 = length l2 /\ forall d, d < length l1 -> f (nth d l1 da) (nth d l2 db) = true.
Proof.
  revert l2; induction l1 as [|a l1 IH]; intros [|b l2]; simpl.
  - split; [intros _; split; [reflexivity|intros; lia] | reflexivity].
  - split; [discriminate | intros [H _]; discriminate].
  - split; [discriminate | intros [H _]; discriminate].
  - rewrite andb_true_iff, IH. split.
    + intros [Hab [Hl Hn]]. split; [lia|]. intros [|d] Hd; [assumption|]. apply Hn; lia.
    + intros [Hl Hn]. split; [apply (Hn 0); lia|]. split; [lia|].
      intros d Hd. apply (Hn (S d)); lia.
Qed.

(* -------------------------------------------------------- ravel / unravel *)
Lemma unravel_length s p : length (unravel s p) = length s.
Proof. revert p; induction s as [|n s IH]; intros p; simpl; [reflexivity|]. rewrite IH; reflexivity. Qed.

Lemma size_cons n s : size (n :: s) = n * size s.
Proof. reflexivity. Qed.

Lemma unravel_valid s p : p < size s -> valid s (unravel s p).
Proof.
  revert p; induction s as [|n s IH]; intros p H; simpl.
  - constructor.
  - rewrite size_cons in H.
    assert (Hs : size s <> 0) by (intros E; rewrite E in H; lia).
    assert (Hn : n <> 0) by (intros E; rewrite E in H; lia).
    constructor.
    + apply Nat.mod_upper_bound; assumption.
    + apply IH. apply Nat.mod_upper_bound; assumption.
Qed.

Lemma ravel_unravel s p : p < size s -> ravel s (unravel s p) = p.
Proof.
  revert p; induction s as [|n s IH]; intros p H; simpl.
  - simpl in H. lia.
  - rewrite size_cons in H.
    assert (Hs : size s <> 0) by (intros E; rewrite E in H; lia).
    rewrite IH by (apply Nat.mod_upper_bound; assumption).
    rewrite Nat.mod_small.
    + rewrite Nat.mul_comm. symmetry. apply Nat.div_mod; assumption.
    + apply Nat.div_lt_upper_bound; [assumption|]. lia.
Qed.

Lemma unravel_ravel s idx : valid s idx -> unravel s (ravel s idx) = idx.
Proof.
  intros H; induction H as [|i n idx s Hi Hrest IH]; simpl; [reflexivity|].
  pose proof (ravel_lt s idx Hrest) as Hlt.
  assert (Hs : size s <> 0) by lia.
  f_equal.
  - rewrite Nat.div_add_l by assumption.
    rewrite (Nat.div_small (ravel s idx)) by assumption.
    rewrite Nat.add_0_r. apply Nat.mod_small; assumption.
  - rewrite Nat.add_comm, Nat.mod_add by assumption.
    rewrite Nat.mod_small by assumption. exact IH.
Qed.

Lemma valid_nth s idx : valid s idx <->
  length idx = length s /\ forall d, d < length s -> nth d idx 0 < nth d s 0.
Proof.
  split.
  - intros H; induction H as [|i n idx s Hi Hrest [IHl IHn]]; simpl.
    + split; [reflexivity | intros; lia].
    + split; [lia|]. intros [|d] Hd; [assumption | apply IHn; lia].
  - revert idx; induction s as [|n s IH]; intros [|i idx] [Hl Hn]; simpl in *; try lia.
    + constructor.
    + constructor; [apply (Hn 0); lia|]. apply IH. split; [lia|].
      intros d Hd. apply (Hn (S d)); lia.
Qed.

Lemma ix_lt s d p : p < size s -> d < length s -> ix s d p < nth d s 0.
Proof.
  intros Hp Hd. unfold ix.
  pose proof (unravel_valid s p Hp) as Hv. apply valid_nth in Hv as [_ Hv]. apply Hv; assumption.
Qed.

(* ------------------------------------------------------------ min / max *)
Lemma nminl_from_spec a l :
  (nminl_from a l = a \/ In (nminl_from a l) l) /\ nminl_from a l <= a /\
  (forall x, In x l -> nminl_from a l <= x).
Proof.
  revert a; induction l as [|b t IH]; intros a; simpl.
  - split; [left; reflexivity|]. split; [lia | intros x []].
  - destruct (IH (Nat.min a b)) as [H1 [H2 H3]]. split; [|split].
    + destruct H1 as [H1|H1]; [|right; right; exact H1].
      destruct (Nat.min_spec a b) as [[_ E]|[_ E]]; rewrite E in H1; [left|right; left]; congruence.
    + lia.
    + intros x [Hx|Hx]; [subst; lia | apply H3; assumption].
Qed.

Lemma nmaxl_from_spec a l :
  (nmaxl_from a l = a \/ In (nmaxl_from a l) l) /\ a <= nmaxl_from a l /\
  (forall x, In x l -> x <= nmaxl_from a l).
Proof.
  revert a; induction l as [|b t IH]; intros a; simpl.
  - split; [left; reflexivity|]. split; [lia | intros x []].
  - destruct (IH (Nat.max a b)) as [H1 [H2 H3]]. split; [|split].
    + destruct H1 as [H1|H1]; [|right; right; exact H1].
      destruct (Nat.max_spec a b) as [[_ E]|[_ E]]; rewrite E in H1; [right; left|left]; congruence.
    + lia.
    + intros x [Hx|Hx]; [subst; lia | apply H3; assumption].
Qed.

Lemma nminl_In l : l <> [] -> In (nminl l) l.
Proof.
  destruct l as [|a t]; [congruence|]. intros _. simpl.
  destruct (nminl_from_spec a t) as [[H|H] _]; [left; congruence | right; assumption].
Qed.

Lemma nminl_le l x : In x l -> nminl l <= x.
Proof.
  destruct l as [|a t]; [intros []|]. simpl.
  destruct (nminl_from_spec a t) as [_ [H2 H3]]. intros [E|Hx]; [subst; assumption | apply H3; assumption].
Qed.

Lemma nmaxl_In l : l <> [] -> In (nmaxl l) l.
Proof.
  destruct l as [|a t]; [congruence|]. intros _. simpl.
  destruct (nmaxl_from_spec a t) as [[H|H] _]; [left; congruence | right; assumption].
Qed.

Lemma nmaxl_ge l x : In x l -> x <= nmaxl l.
Proof.
  destruct l as [|a t]; [intros []|]. simpl.
  destruct (nmaxl_from_spec a t) as [_ [H2 H3]]. intros [E|Hx]; [subst; assumption | apply H3; assumption].
Qed.

(* rationals: qmin/qmax return one of their arguments *)
Lemma qmin_fold_spec (t : list Q) (a : Q) :
  (fold_left qmin t a = a \/ In (fold_left qmin t a) t) /\ (fold_left qmin t a <= a)%Q /\
  (forall x, In x t -> (fold_left qmin t a <= x)%Q).
Proof.
  revert a; induction t as [|b t IH]; intros a; simpl.
  - split; [left; reflexivity|]. split; [apply Qle_refl | intros x []].
  - destruct (IH (qmin a b)) as [H1 [H2 H3]].
    assert (Hab : (qmin a b <= a)%Q /\ (qmin a b <= b)%Q /\ (qmin a b = a \/ qmin a b = b)).
    { unfold qmin. destruct (Qle_bool a b) eqn:E.
      - apply Qle_bool_iff in E. split; [apply Qle_refl|]. split; [assumption | left; reflexivity].
      - assert (~ (a <= b)%Q) by (intros C; apply Qle_bool_iff in C; congruence).
        split; [apply Qlt_le_weak, Qnot_le_lt; assumption|]. split; [apply Qle_refl | right; reflexivity]. }
    destruct Hab as [Ha [Hb Hor]]. split; [|split].
    + destruct H1 as [H1|H1]; [|right; right; exact H1].
      destruct Hor as [E|E]; rewrite E in H1; [left | right; left]; congruence.
    + eapply Qle_trans; eassumption.
    + intros x [Hx|Hx]; [subst; eapply Qle_trans; eassumption | apply H3; assumption].
Qed.

Lemma qmax_fold_spec (t : list Q) (a : Q) :
  (fold_left qmax t a = a \/ In (fold_left qmax t a) t) /\ (a <= fold_left qmax t a)%Q /\
  (forall x, In x t -> (x <= fold_left qmax t a)%Q).
Proof.
  revert a; induction t as [|b t IH]; intros a; simpl.
  - split; [left; reflexivity|]. split; [apply Qle_refl | intros x []].
  - destruct (IH (qmax a b)) as [H1 [H2 H3]].
    assert (Hab : (a <= qmax a b)%Q /\ (b <= qmax a b)%Q /\ (qmax a b = a \/ qmax a b = b)).
    { unfold qmax. destruct (Qle_bool a b) eqn:E.
      - apply Qle_bool_iff in E. split; [assumption|]. split; [apply Qle_refl | right; reflexivity].
      - assert (~ (a <= b)%Q) by (intros C; apply Qle_bool_iff in C; congruence).
        split; [apply Qle_refl|]. split; [apply Qlt_le_weak, Qnot_le_lt; assumption | left; reflexivity]. }
    destruct Hab as [Ha [Hb Hor]]. split; [|split].
    + destruct H1 as [H1|H1]; [|right; right; exact H1].
      destruct Hor as [E|E]; rewrite E in H1; [left | right; left]; congruence.
    + eapply Qle_trans; eassumption.
    + intros x [Hx|Hx]; [subst; eapply Qle_trans; eassumption | apply H3; assumption].
Qed.

Lemma qminl_In l : l <> [] -> In (qminl l) l.
Proof.
  destruct l as [|a t]; [congruence|]. intros _. simpl.
  destruct (qmin_fold_spec t a) as [[H|H] _]; [left; congruence | right; assumption].
Qed.
Lemma qminl_le l x : In x l -> (qminl l <= x)%Q.
Proof.
  destruct l as [|a t]; [intros []|]. simpl.
  destruct (qmin_fold_spec t a) as [_ [H2 H3]]. intros [E|Hx]; [subst; assumption | apply H3; assumption].
Qed.
Lemma qmaxl_In l : l <> [] -> In (qmaxl l) l.
Proof.
  destruct l as [|a t]; [congruence|]. intros _. simpl.
  destruct (qmax_fold_spec t a) as [[H|H] _]; [left; congruence | right; assumption].
Qed.
Lemma qmaxl_ge l x : In x l -> (x <= qmaxl l)%Q.
Proof.
  destruct l as [|a t]; [intros []|]. simpl.
  destruct (qmax_fold_spec t a) as [_ [H2 H3]]. intros [E|Hx]; [subst; assumption | apply H3; assumption].
Qed.

(* round-half-even respects equality of rationals *)
Lemma rhe_comp (a b : Q) : (a == b)%Q -> rhe a = rhe b.
Proof.
  intros H. unfold rhe.
  assert (Hf : Qfloor a = Qfloor b) by (apply Qfloor_comp; assumption).
  rewrite Hf.
  assert (Hc : ((a - inject_Z (Qfloor b)) ?= (1 # 2))%Q = ((b - inject_Z (Qfloor b)) ?= (1 # 2))%Q).
  { apply Qcompare_comp; [rewrite H; reflexivity | reflexivity]. }
  rewrite Hc. reflexivity.
Qed.
