(* exact check of the uniqueness certificates (two Gordan certificates per pair of operations other than the identity
   pair) of the regions whose first group is number 09 of the proper groups *)
From Coq Require Import List Bool.
From Verif Require Import CertCheck CoverCheck ExistCheck UniqCheck RegionCerts09 RegionUniq09.
Lemma region_uniq_ok_09 : all2b rc_uniq_ok region_certs_09 region_uniq_09 = true.
Proof. vm_compute. reflexivity. Qed.
