(* C16 -- Part 3: WHICH permutation each structural operation is (index-level
   layout theorems, for all shapes): transpose, flatten (Fortran order, one
   fixed order, idempotent), tuple-of-int/slice indexing, stack. *)
From Coq Require Import ZArith List Bool Arith Lia Permutation Sorted.
From Verif Require Import NdIndex C16Model C16Index.
Import ListNotations.

(* ---------------------------------------------------------- permutations *)
Lemma perm_ok_length n axes : perm_ok n axes = true -> length axes = n.
Proof. unfold perm_ok. intros H. apply andb_true_iff in H as [H _]. apply Nat.eqb_eq; exact H. Qed.

Lemma perm_ok_in n axes i : perm_ok n axes = true -> i < n -> In i axes.
Proof.
  unfold perm_ok. intros H Hi. apply andb_true_iff in H as [_ H].
  rewrite forallb_forall in H. specialize (H i). rewrite in_seq in H.
  assert (E : existsb (Nat.eqb i) axes = true) by (apply H; lia).
  apply existsb_exists in E as [a [Ha Ea]]. apply Nat.eqb_eq in Ea. subst a. exact Ha.
Qed.

Lemma perm_ok_perm n axes : perm_ok n axes = true -> Permutation (seq 0 n) axes.
Proof.
  intros H. apply NoDup_Permutation_bis.
  - apply seq_NoDup.
  - rewrite (perm_ok_length _ _ H), seq_length. lia.
  - intros i Hi. apply in_seq in Hi. eapply perm_ok_in; [exact H|lia].
Qed.

Lemma perm_ok_lt n axes a : perm_ok n axes = true -> In a axes -> a < n.
Proof.
  intros H Ha. apply (Permutation_in _ (Permutation_sym (perm_ok_perm _ _ H))) in Ha.
  apply in_seq in Ha. lia.
Qed.

Lemma perm_ok_nodup n axes : perm_ok n axes = true -> NoDup axes.
Proof. intros H. eapply Permutation_NoDup; [apply perm_ok_perm; exact H|apply seq_NoDup]. Qed.

Lemma pos_in i axes : In i axes -> pos i axes < length axes /\ nth (pos i axes) axes 0 = i.
Proof.
  induction axes as [|a r IH]; simpl; [contradiction|].
  intros H. destruct (Nat.eqb a i) eqn:E.
  - apply Nat.eqb_eq in E. split; [lia|exact E].
  - destruct H as [H|H]; [subst; rewrite Nat.eqb_refl in E; discriminate|].
    destruct (IH H) as [H1 H2]. split; [lia|exact H2].
Qed.

Lemma perm_ok_rev n : perm_ok n (rev (seq 0 n)) = true.
Proof.
  unfold perm_ok. rewrite rev_length, seq_length, Nat.eqb_refl. simpl.
  apply forallb_forall. intros i Hi. apply existsb_exists. exists i. split.
  - apply in_rev. rewrite rev_involutive. exact Hi.
  - apply Nat.eqb_refl.
Qed.

Lemma tr_shape_rev s : tr_shape s (rev_axes (length s)) = rev s.
Proof. unfold tr_shape, rev_axes. rewrite map_rev, map_nth_seq. reflexivity. Qed.

(* ------------------------------------------------------------- transpose *)
Lemma nth_map_seq {A} (F : nat -> A) n k d : k < n -> nth k (map F (seq 0 n)) d = F k.
Proof.
  intros Hk. rewrite (nth_indep _ d (F 0)) by (rewrite map_length, seq_length; exact Hk).
  rewrite map_nth. rewrite seq_nth by exact Hk. reflexivity.
Qed.

Lemma nth_map_in {A B} (f : A -> B) l k d d' : k < length l -> nth k (map f l) d' = f (nth k l d).
Proof.
  intros H. rewrite (nth_indep _ d' (f d)) by (rewrite map_length; exact H). apply map_nth.
Qed.

Lemma tr_src_inverse n axes idx :
  perm_ok n axes = true -> length idx = n ->
  tr_src n axes (map (fun a => nth a idx 0) axes) = idx.
Proof.
  intros H Hl. unfold tr_src.
  transitivity (map (fun i => nth i idx 0) (seq 0 n)); [|rewrite <- Hl; apply map_nth_seq].
  apply map_ext_in. intros i Hi. apply in_seq in Hi.
  assert (Hin : In i axes) by (apply (perm_ok_in n axes i H); lia).
  destruct (pos_in i axes Hin) as [Hp He].
  rewrite (nth_map_in (fun a => nth a idx 0) axes (pos i axes) 0 0 Hp). rewrite He. reflexivity.
Qed.

Lemma tr_valid s axes idx :
  perm_ok (length s) axes = true -> valid s idx ->
  valid (tr_shape s axes) (map (fun a => nth a idx 0) axes).
Proof.
  intros H Hv. unfold valid, tr_shape.
  assert (Ha : forall a, In a axes -> a < length s) by (intros a; apply perm_ok_lt; exact H).
  clear H. induction axes as [|a r IH]; simpl; constructor.
  - apply valid_nth; [exact Hv|apply Ha; left; reflexivity].
  - apply IH. intros b Hb. apply Ha; right; exact Hb.
Qed.

(* result[i'] = source[i]  with  i'[j] = i[axes[j]],  result.shape[j] = shape[axes[j]] *)
Theorem transpose_layout s axes idx :
  perm_ok (length s) axes = true -> valid s idx ->
  let idx' := map (fun a => nth a idx 0) axes in
  valid (tr_shape s axes) idx' /\
  nth (ravel (tr_shape s axes) idx') (idx_transpose s axes) 0 = ravel s idx.
Proof.
  intros H Hv idx'. pose proof (tr_valid s axes idx H Hv) as Hv'. split; [exact Hv'|].
  unfold idx_transpose. rewrite nth_map_seq by (apply ravel_lt; exact Hv').
  rewrite unravel_ravel by exact Hv'. unfold idx'.
  rewrite tr_src_inverse; [reflexivity|exact H|apply valid_length; exact Hv].
Qed.

(* transposition moves every element exactly once *)
Theorem transpose_permutation s axes :
  perm_ok (length s) axes = true -> Permutation (seq 0 (size s)) (idx_transpose s axes).
Proof.
  intros H.
  assert (Hsz : size (tr_shape s axes) = size s).
  { assert (P : Permutation (map (fun a => nth a s 0) axes)
                              (map (fun a => nth a s 0) (seq 0 (length s))))
      by (apply Permutation_map, Permutation_sym, perm_ok_perm; exact H).
    rewrite map_nth_seq in P. apply size_perm; exact P. }
  apply NoDup_Permutation_bis.
  - apply seq_NoDup.
  - unfold idx_transpose. rewrite map_length, !seq_length. lia.
  - intros k Hk. apply in_seq in Hk.
    assert (Hv : valid s (unravel s k)) by (apply unravel_valid; lia).
    destruct (transpose_layout s axes (unravel s k) H Hv) as [Hv' E].
    rewrite ravel_unravel in E by lia. rewrite <- E. apply nth_In.
    unfold idx_transpose. rewrite map_length, seq_length. apply ravel_lt; exact Hv'.
Qed.

(* --------------------------------------------------------------- flatten *)
Fixpoint ravelF (s idx : list nat) : nat :=
  match s, idx with
  | n :: s', i :: idx' => i + n * ravelF s' idx'
  | _, _ => 0
  end.

Lemma valid_rev s idx : valid s idx -> valid (rev s) (rev idx).
Proof.
  intros H; induction H as [|i n idx s Hi _ IH]; simpl; [constructor|].
  apply Forall2_app; [exact IH|]. constructor; [exact Hi|constructor].
Qed.

Lemma ravel_rev s idx : valid s idx -> ravel (rev s) (rev idx) = ravelF s idx.
Proof.
  intros H; induction H as [|i n idx s Hi Hr IH]; simpl; [reflexivity|].
  rewrite ravel_app; [|apply valid_rev; exact Hr|constructor; [exact Hi|constructor]].
  rewrite IH. simpl. lia.
Qed.

(* flatten puts element i = (i0, i1, ...) at the FORTRAN position
   i0 + s0*(i1 + s1*(...)), for every number of axes *)
Theorem flatten_layout s idx :
  valid s idx -> nth (ravelF s idx) (idx_flatten s) 0 = ravel s idx.
Proof.
  intros Hv. unfold idx_flatten.
  destruct (transpose_layout s (rev_axes (length s)) idx (perm_ok_rev _) Hv) as [_ E].
  rewrite tr_shape_rev in E.
  assert (Hi : map (fun a => nth a idx 0) (rev_axes (length s)) = rev idx).
  { unfold rev_axes. rewrite map_rev. rewrite <- (valid_length _ _ Hv), map_nth_seq. reflexivity. }
  rewrite Hi, ravel_rev in E by exact Hv. exact E.
Qed.

Theorem flatten_permutation s : Permutation (seq 0 (size s)) (idx_flatten s).
Proof. apply transpose_permutation. apply perm_ok_rev. Qed.

Lemma idx_flatten_length s : length (idx_flatten s) = size s.
Proof.
  unfold idx_flatten, idx_transpose. rewrite map_length, seq_length, tr_shape_rev. apply size_rev.
Qed.

Lemma idx_flatten_1d n : idx_flatten [n] = seq 0 n.
Proof.
  unfold idx_flatten, idx_transpose, rev_axes, tr_shape. simpl.
  rewrite Nat.mul_1_r. rewrite <- (map_id (seq 0 n)) at 2.
  apply map_ext_in. intros k Hk. apply in_seq in Hk.
  unfold tr_src. simpl. change (fst (Nat.divmod k 0 0 0)) with (k / 1). rewrite Nat.div_1_r, Nat.mod_small by lia. lia.
Qed.

(* flatten o flatten = flatten (on any element type, any shape) *)
Theorem flatten_idempotent {E} (act : eop -> option (E -> E)) (d : E) s l a1 :
  astep act d OFlatten (s, l) = Some a1 -> astep act d OFlatten a1 = Some a1.
Proof.
  cbn [astep plan_of apply_plan plan_flatten]. intros E1; inversion E1; subst a1; clear E1.
  cbn [astep plan_of apply_plan plan_flatten]. f_equal. f_equal.
  - simpl. f_equal. lia.
  - rewrite idx_flatten_1d.
    assert (Hl : length (gather d l (idx_flatten s)) = size s)
      by (unfold gather; rewrite map_length; apply idx_flatten_length).
    rewrite <- Hl. unfold gather at 1. apply map_nth_seq.
Qed.

(* ----------------------------------------------- tuple-of-int/slice keys *)
Lemma sel_positions_length s sels :
  length sels = length s -> length (sel_positions s sels) = size (map (@length nat) sels).
Proof.
  revert sels; induction s as [|n s IH]; intros sels Hl; destruct sels as [|sel r]; simpl in *; try lia.
  change (flat_map (fun i => map (fun q => i * size s + q) (sel_positions s r)) sel)
    with (outer (fun i q => i * size s + q) sel (sel_positions s r)).
  rewrite outer_length, IH by lia. reflexivity.
Qed.

Fixpoint pick (js : list nat) (sels : list (list nat)) : list nat :=
  match js, sels with
  | j :: js', sel :: r => nth j sel 0 :: pick js' r
  | _, _ => []
  end.

(* the result of indexing with one selection list per axis is the cartesian
   product of the selections in C order: result[j0, j1, ...] =
   source[sel0[j0], sel1[j1], ...] *)
Theorem getitem_layout s sels js :
  length sels = length s -> valid (map (@length nat) sels) js ->
  nth (ravel (map (@length nat) sels) js) (sel_positions s sels) 0 = ravel s (pick js sels).
Proof.
  revert sels js; induction s as [|n s IH]; intros sels js Hl Hv;
    destruct sels as [|sel r]; simpl in Hl; try lia.
  - inversion Hv; subst. reflexivity.
  - simpl in Hv. inversion Hv as [|j m js' t Hj Hr]; subst. simpl.
    change (flat_map (fun i => map (fun q => i * size s + q) (sel_positions s r)) sel)
      with (outer (fun i q => i * size s + q) sel (sel_positions s r)).
    rewrite <- (sel_positions_length s r) by lia.
    rewrite (outer_nth _ sel (sel_positions s r) j (ravel (map (@length nat) r) js') 0 0 0).
    + rewrite IH by (try lia; exact Hr). reflexivity.
    + exact Hj.
    + rewrite sel_positions_length by lia. apply ravel_lt; exact Hr.
Qed.

(* ----------------------------------------------------------------- stack *)
(* stack puts operand j at index j of a NEW LAST axis *)
Theorem stack_layout {E} (d : E) s (ls : list (list E)) idx j :
  valid s idx -> j < length ls ->
  nth (ravel (s ++ [length ls]) (idx ++ [j])) (stack_rows d (size s) ls) d
  = nth (ravel s idx) (nth j ls []) d.
Proof.
  intros Hv Hj.
  rewrite ravel_app; [|exact Hv|constructor; [exact Hj|constructor]].
  simpl. rewrite Nat.mul_1_r, Nat.mul_1_r, Nat.add_0_r.
  unfold stack_rows.
  change (flat_map (fun p => map (fun l => nth p l d) ls) (seq 0 (size s)))
    with (outer (fun p l => nth p l d) (seq 0 (size s)) ls).
  rewrite (outer_nth _ (seq 0 (size s)) ls (ravel s idx) j 0 [] d).
  - rewrite seq_nth by (apply ravel_lt; exact Hv). reflexivity.
  - rewrite seq_length. apply ravel_lt; exact Hv.
  - exact Hj.
Qed.

(* ------------------------------------------- boolean masks, integer lists *)
(* both select whole sub-blocks (all trailing axes) in the order of the
   selected leading positions *)
Theorem blocks_layout bs ps j r :
  j < length ps -> r < bs -> nth (j * bs + r) (blocks bs ps) 0 = nth j ps 0 * bs + r.
Proof.
  unfold blocks. revert j; induction ps as [|p ps IH]; intros j Hj Hr; simpl in *; [lia|].
  destruct j as [|j].
  - simpl. rewrite app_nth1 by (rewrite seq_length; exact Hr). rewrite seq_nth by exact Hr. reflexivity.
  - rewrite app_nth2 by (rewrite seq_length; simpl; lia). rewrite seq_length.
    replace (S j * bs + r - bs) with (j * bs + r) by (simpl; lia). apply IH; lia.
Qed.

(* the selected positions of a mask are exactly the True bits, in increasing order *)
Lemma true_positions_in k bits p :
  In p (true_positions k bits) <-> (k <= p /\ nth (p - k) bits false = true).
Proof.
  revert k; induction bits as [|b r IH]; intros k; simpl.
  - split; [contradiction|]. intros [_ H]. destruct (p - k); discriminate.
  - destruct b; simpl; rewrite ?IH; split.
    + intros [E|[Hk Hn]]; [subst; rewrite Nat.sub_diag; split; [lia|reflexivity]|].
      split; [lia|]. replace (p - k) with (S (p - S k)) by lia. exact Hn.
    + intros [Hk Hn]. destruct (p - k) as [|q] eqn:E; [left; lia|right].
      split; [lia|]. replace (p - S k) with q by lia. exact Hn.
    + intros [Hk Hn]. split; [lia|]. replace (p - k) with (S (p - S k)) by lia. exact Hn.
    + intros [Hk Hn]. destruct (p - k) as [|q] eqn:E; [discriminate|].
      split; [lia|]. replace (p - S k) with q by lia. exact Hn.
Qed.

Lemma true_positions_sorted k bits : StronglySorted lt (true_positions k bits).
Proof.
  revert k; induction bits as [|b r IH]; intros k; simpl; [constructor|].
  destruct b; [|apply IH]. constructor; [apply IH|].
  apply Forall_forall. intros p Hp. apply true_positions_in in Hp. lia.
Qed.

Lemma mask_layout bs ps j r bits k :
  (j < length ps -> r < bs -> nth (j * bs + r) (blocks bs ps) 0 = nth j ps 0 * bs + r)
  /\ (forall p, In p (true_positions k bits) <-> (k <= p /\ nth (p - k) bits false = true))
  /\ StronglySorted lt (true_positions k bits).
Proof.
  split; [apply blocks_layout|split; [intros; apply true_positions_in|apply true_positions_sorted]].
Qed.
