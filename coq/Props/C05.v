(* C05 -- Fundamental-zone reduction returns a minimal-angle member of the
   symmetry orbit.  Model: Model/ZoneModel.v (the loop of
   Misorientation.map_into_symmetry_reduced_zone over iproduct(Gl, Gr) with
   early exit; OrientationRegion.__gt__), tied to the code by the
   correspondence check; theorems over the reals for ALL inputs. *)
From Coq Require Import Reals ZArith QArith List String Bool Lra.
From Verif Require Import Scalar RInst KField KtoR KSign Quat QuatAlg GroupK Groups GroupFacts SymDot SymDotK ZoneModel ZoneProofs CoverCheck CoverSound
  CertCheck CertSound RegionCertsAll RegionCertsAllOK ExistCheck RegionExistAllOK UniqCheck UniqSound RegionUniqAllOK ProperGroups AllPairsCheck AllPairs.
Import ListNotations.
Local Open Scope R_scope.

(* the returned element is gl * M * gr for a pair (gl, gr) of the two groups
   (loop invariant; the quaternion part -- the improper flag is dropped) *)
Theorem C05_result_in_orbit : forall eps N (Gl Gr : list (quat (T:=R))) M,
  Gl <> [] -> Gr <> [] ->
  exists gl gr, In gl Gl /\ In gr Gr /\ reduce ROps eps N Gl Gr M = transform ROps gl gr M.
Proof.
  intros eps N Gl Gr M HGl HGr. unfold reduce.
  destruct (reduce_loop_in_orbit eps N (list_prod Gl Gr) M (qone ROps)) as [[_ He]|[gl [gr [Hin H]]]].
  - exfalso. destruct Gl as [|a Gl]; [contradiction|]. destruct Gr as [|b Gr]; [contradiction|].
    discriminate He.
  - exists gl, gr. apply in_prod_iff in Hin. tauto.
Qed.
Print Assumptions C05_result_in_orbit.

(* if some equivalent lies inside the region, so does the result *)
Theorem C05_result_inside_if_any : forall eps N (Gl Gr : list (quat (T:=R))) M,
  (exists gl gr, In gl Gl /\ In gr Gr /\ inside_region ROps eps N (transform ROps gl gr M) = true) ->
  inside_region ROps eps N (reduce ROps eps N Gl Gr M) = true.
Proof.
  intros eps N Gl Gr M [gl [gr [Hl [Hr H]]]]. unfold reduce. apply reduce_loop_inside.
  exists gl, gr. split; [apply in_prod; assumption|exact H].
Qed.
Print Assumptions C05_result_inside_if_any.

(* idempotence: a point inside the region is returned unchanged when both
   groups list the identity first ... *)
Theorem C05_idempotent : forall eps N (Gl Gr : list (quat (T:=R))) M,
  inside_region ROps eps N M = true ->
  reduce ROps eps N (qone ROps :: Gl) (qone ROps :: Gr) M = M.
Proof. intros. unfold reduce. cbn [list_prod map app]. apply reduce_loop_fixed. assumption. Qed.
Print Assumptions C05_idempotent.

(* ... which every named point group does (exhaustive, exact in K) *)
Theorem C05_identity_first : forall g, In g groups ->
  match g_elems g with r :: _ => kr_eqb r kid && kq_eqb (fst r) (qone KOps) | [] => false end = true.
Proof.
  apply forallb_In. vm_compute. reflexivity.
Qed.
Print Assumptions C05_identity_first.

(* the two plane normals the region attaches to a distinguished point
   d = (cos w/2, n sin w/2) are positive multiples of 1 + d and 1 - d *)
Theorem C05_normals_of_distinguished_point : forall t x y z : R,
  let d : quat := (cos (2 * t), x * sin (2 * t), y * sin (2 * t), z * sin (2 * t)) in
  plane_plus ROps d = qscale ROps (2 * cos t) (cos t, x * sin t, y * sin t, z * sin t) /\
  plane_minus ROps d = qscale ROps (2 * sin t) (sin t, - x * cos t, - y * cos t, - z * cos t).
Proof. exact normals_are_one_plus_minus_d. Qed.
Print Assumptions C05_normals_of_distinguished_point.

(* inside the large cell of the distinguished points D  <=>  the rotation
   angle 2 acos |Re x| is the smallest among { x * ~d : d in D }: the region
   test IS the minimal-angle test, for all x and all finite D *)
Theorem C05_large_cell_is_minimal_angle : forall (D : list (quat (T:=R))) (x : quat),
  inside_region ROps 0 (large_cell ROps D) x = true <->
  forall d, In d D -> Rabs (qre (qmul ROps x (qconj ROps d))) <= Rabs (qre x).
Proof. exact inside_large_cell_minimal. Qed.
Print Assumptions C05_large_cell_is_minimal_angle.

(* THE REGION THE CODE BUILDS IS ADEQUATE, for all 225 ordered pairs of the 15 proper
   named point groups (orientations are the pairs (1, G)): every real quaternion x
   inside OrientationRegion.from_symmetry(Gl, Gr) -- exact test on the exact
   directions of the normals the code keeps after pruning, recognised in K and
   regenerated from /repo on every run -- has the smallest rotation angle of its
   WHOLE orbit { gl * x * gr : gl in Gl, gr in Gr proper }.  Proof: exact Farkas
   certificates (each half-space 1 +- d of the unpruned large cell is a
   non-negative K-combination of the kept normals; found by an LP outside Coq,
   checked inside by vm_compute), soundness of the K sign and of K -> R, the
   plane-pair identity above, completeness of the distinguished points. *)
Theorem C05_inside_region_is_minimal_in_orbit : forall rc, In rc (List.concat all_region_certs) ->
  forall x : quat (T:=R), inside_region ROps 0 (map qtoR (rc_N rc)) x = true ->
  forall gl gr, In gl (map qtoR (proper_quats (rc_l rc))) -> In gr (map qtoR (proper_quats (rc_r rc))) ->
    Rabs (qre (qmul ROps (qmul ROps gl x) gr)) <= Rabs (qre x).
Proof. exact inside_region_is_minimal_in_orbit. Qed.
Print Assumptions C05_inside_region_is_minimal_in_orbit.

Theorem C05_all_proper_pairs_covered : Datatypes.length (List.concat all_region_certs) = 225%nat.
Proof. exact region_count. Qed.
Print Assumptions C05_all_proper_pairs_covered.

(* EVERY ORBIT HAS A MEMBER INSIDE THE REGION, for all 225 ordered pairs of proper groups and every real
   quaternion x.  Proof: among the finitely many gl * x * gr take one with the largest |Re|; all members with that
   |Re| satisfy every large-cell inequality (the distinguished points are exactly the products, checked in K);
   conjugation by an operation h common to both groups keeps Re and rotates the vector part, and an exact cover
   tree (as for the fundamental sectors of C07; found by LPs, checked by vm_compute, sound over R) shows that the
   cone of the pure-vector normals the region keeps -- the axis fundamental zone of Gl & Gr -- reaches every
   direction under those h; the kept normals are large-cell or pure-vector normals (checked in K). *)
Theorem C05_orbit_has_member_inside_region : forall rc, In rc (List.concat all_region_certs) ->
  forall x : quat (T:=R), exists gl gr,
    In gl (map qtoR (proper_quats (rc_l rc))) /\ In gr (map qtoR (proper_quats (rc_r rc))) /\
    inside_region ROps 0 (map qtoR (rc_N rc)) (transform ROps gl gr x) = true.
Proof. exact region_has_orbit_member. Qed.
Print Assumptions C05_orbit_has_member_inside_region.

(* THE MAIN CLAUSE AT FULL STRENGTH (exact arithmetic, eps = 0): for every ordered pair of proper groups and every
   input M the value returned by the reduction loop of the code
     - lies inside the orientation region constructed for the same symmetries,
     - is gl * M * gr for proper operations gl, gr of the two groups,
     - has the smallest rotation angle 2 acos |Re| attainable in that orbit. *)
Theorem C05_reduction_returns_minimal_member_inside_region : forall rc, In rc (List.concat all_region_certs) ->
  forall M : quat (T:=R),
  let Gl := map qtoR (proper_quats (rc_l rc)) in
  let Gr := map qtoR (proper_quats (rc_r rc)) in
  let N := map qtoR (rc_N rc) in
  let r := reduce ROps 0 N Gl Gr M in
  inside_region ROps 0 N r = true /\
  (exists gl gr, In gl Gl /\ In gr Gr /\ r = transform ROps gl gr M) /\
  (forall gl gr, In gl Gl -> In gr Gr -> Rabs (qre (transform ROps gl gr M)) <= Rabs (qre r)).
Proof. exact reduce_result_inside_and_minimal. Qed.
Print Assumptions C05_reduction_returns_minimal_member_inside_region.

(* THE REGION IS A STRICT FUNDAMENTAL DOMAIN: a quaternion strictly inside the region (all dot products with the kept
   normals > 0, or all < 0) is moved out of the open region by x -> gl * x * gr for EVERY pair of proper operations
   other than the first pair (the identity pair), all 225 ordered pairs of proper groups.  Proof: two exact Gordan
   certificates per pair of operations (18 758 in all; found by LPs, checked by vm_compute, sound over R). *)
Theorem C05_region_images_do_not_overlap : forall rc, In rc (List.concat all_region_certs) ->
  forall x : quat (T:=R), strictly_inside (rc_N rc) x ->
  forall gl gr, In (gl, gr) (tl (list_prod (proper_quats (rc_l rc)) (proper_quats (rc_r rc)))) ->
    ~ strictly_inside (rc_N rc) (transform ROps (qtoR gl) (qtoR gr) x).
Proof. exact region_interior_images_disjoint. Qed.
Print Assumptions C05_region_images_do_not_overlap.

(* hence two members of one orbit that both lie strictly inside the region are the same quaternion *)
Theorem C05_strict_members_coincide : forall rc, In rc (List.concat all_region_certs) ->
  forall x : quat (T:=R), strictly_inside (rc_N rc) x ->
  forall gl gr, In gl (map qtoR (proper_quats (rc_l rc))) -> In gr (map qtoR (proper_quats (rc_r rc))) ->
    strictly_inside (rc_N rc) (transform ROps gl gr x) -> transform ROps gl gr x = x.
Proof. exact region_strict_members_coincide. Qed.
Print Assumptions C05_strict_members_coincide.

(* ALL MEMBERS OF ONE ORBIT MAP TO THE SAME REPRESENTATIVE EXCEPT ON REGION BOUNDARIES: the values the reduction
   returns for M and for any a * M * b agree (as rotations: up to the overall sign of the quaternion) whenever both lie
   strictly inside the region *)
Theorem C05_representative_unique_off_boundary : forall rc, In rc (List.concat all_region_certs) ->
  forall (M : quat (T:=R)) a b,
  let Gl := map qtoR (proper_quats (rc_l rc)) in
  let Gr := map qtoR (proper_quats (rc_r rc)) in
  let N := map qtoR (rc_N rc) in
  In a Gl -> In b Gr ->
  let r := reduce ROps 0 N Gl Gr M in
  let r' := reduce ROps 0 N Gl Gr (transform ROps a b M) in
  strictly_inside (rc_N rc) r -> strictly_inside (rc_N rc) r' -> r' = r \/ r' = qneg ROps r.
Proof. exact reduce_representative_unique. Qed.
Print Assumptions C05_representative_unique_off_boundary.

(* ALL ORDERED PAIRS OF THE 38 NAMED POINT GROUPS for which get_proper_groups defines a region (1300 pairs; improper
   groups included).  get_proper_groups is TRANSLATED from the source on every run (Gen/ProperGroups.v); the loop runs
   over the pairs of two proper or two improper operations (Model/ZoneModel.code_pairs); an exhaustive exact check in K
   shows that these pairs are, up to the signs of the quaternions, exactly the pairs of operations of the two proper
   groups get_proper_groups selects.  Hence for every such pair of groups and every input M the value returned by the
   loop lies inside the region built for the selected groups, is gl * M * gr for one of the code's pairs, and no pair
   gives a smaller rotation angle. *)
Theorem C05_all_group_pairs : forall g1 g2, In g1 groups -> In g2 groups ->
  forall n1 n2, gpg_names g1 g2 = Some (n1, n2) ->
  exists rc, find_rc n1 n2 = Some rc /\
  forall M : quat (T:=R),
  let pairs := map pairR (code_pairs (g_elems g1) (g_elems g2)) in
  let N := map qtoR (rc_N rc) in
  let r := reduce_loop ROps 0 N pairs M (qone ROps) in
  inside_region ROps 0 N r = true /\
  (exists ab, In ab pairs /\ r = transform ROps (fst ab) (snd ab) M) /\
  (forall ab, In ab pairs -> Rabs (qre (transform ROps (fst ab) (snd ab) M)) <= Rabs (qre r)).
Proof. exact all_group_pairs. Qed.
Print Assumptions C05_all_group_pairs.

Theorem C05_pairs_with_a_region : n_pairs_with_region = 1300%nat.
Proof. exact n_pairs_with_region_is. Qed.
Print Assumptions C05_pairs_with_a_region.

(* Modelled, not proved: the 1e-9 tolerance of the inside test (the theorems are for the exact test, eps = 0; the
   correspondence runs the model with eps = 1e-9 against the code, and the oracle probes points on and within 1e-9 of
   faces, edges and vertices); for improper groups the uniqueness theorems are stated for the selected proper groups only. *)

Example C05_nonvacuous :
  inside_region ROps 0 (large_cell ROps [(0, 1, 0, 0)]) (1, 0, 0, 0) = true.
Proof.
  apply inside_large_cell_minimal. intros d [<-|[]]. unfold qre; qunfold.
  rewrite !Rmult_0_l, !Rmult_0_r. unfold Rminus. rewrite ?Ropp_0, ?Rplus_0_l, ?Rplus_0_r, ?Rmult_1_l.
  rewrite Rabs_R0, Rabs_R1. apply Rle_0_1.
Qed.

(* non-vacuity of the hypotheses of the uniqueness theorems: the identity lies strictly inside the orientation region
   of 432 (pair ("1", "432")), whose normals all have a positive scalar part *)
Example C05_strictly_inside_nonvacuous :
  exists rc (x : quat (T:=R)), In rc (List.concat all_region_certs) /\ rc_N rc <> [] /\ strictly_inside (rc_N rc) x.
Proof.
  destruct (find_rc "1" "432") as [rc|] eqn:E; [|vm_compute in E; discriminate].
  exists rc, (1, 0, 0, 0). unfold find_rc in E. pose proof (find_some _ _ E) as [Hin _].
  assert (Hpos : forallb (fun n => Kpos (kq_re n)) (rc_N rc) = true /\ negb (Nat.eqb (List.length (rc_N rc)) 0) = true).
  { vm_compute in E. inversion E. vm_compute. split; reflexivity. }
  destruct Hpos as [Hpos Hne].
  split; [exact Hin|]. split; [destruct (rc_N rc); [discriminate|discriminate]|].
  left. intros n Hn. rewrite forallb_forall in Hpos. specialize (Hpos n Hn). apply Kpos_sound in Hpos.
  destruct n as [[[a b] c] d]. unfold kq_re in Hpos. unfold qtoR, qdot. rsimpl. lra.
Qed.
