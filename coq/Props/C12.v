From Coq Require Import ZArith List Bool String.
From Verif Require Import C12Phases C12Map.
Theorem C12_stub : True. Proof. exact I. Qed.
