(* C12 -- Crystal map phase bookkeeping stays consistent.
   Property theorems only; proofs are in Proofs/C12PhasesP.v, C12MapP.v, C12WitnessP.v.
   The statements are about the hand-written executable model Model/C12Phases.v
   (PhaseList) and Model/C12Map.v (CrystalMap phase reconciliation, phase_id setter,
   phases_in_data, orientations, selections, property assignment), which the
   correspondence check ties to /repo on every run.  All theorems are axiom-free. *)
From Coq Require Import ZArith List Bool String.
From Verif Require Import C12Phases C12Map C12PhasesP C12MapP C12WitnessP.
Import ListNotations.
Open Scope Z_scope.

(* ======================================================= phase lists *)

(* every constructor path yields ids that are strictly increasing (unique, sorted):
   list of phases (+ ids, duplicate / unsorted / too few / too many), dict, fields *)
Theorem C12_pl_constructors_sorted :
  (forall idl ps, sortedk (pl_of_phases idl ps)) /\ (forall d, sortedk (pl_of_dict d)) /\
  (forall nm pg idl pl, pl_of_fields nm pg idl = Ok pl -> sortedk pl).
Proof. exact (conj pl_of_phases_sorted (conj pl_of_dict_sorted pl_of_fields_sorted)). Qed.
Print Assumptions C12_pl_constructors_sorted.

(* ids stay unique and sorted under ANY sequence of add / delete / add_not_indexed /
   sort / index operations (indexing continues with the returned list) *)
Theorem C12_pl_histories_sorted : forall ops pl, sortedk pl -> sortedk (pl_run ops pl).
Proof. exact pl_run_sorted. Qed.
Print Assumptions C12_pl_histories_sorted.

(* adding a phase whose name is already present is rejected and changes nothing *)
Theorem C12_add_rejects_present_name : forall pl p r,
  In (pname p) (names pl) -> add pl (p :: r) = (pl, Some ValueError).
Proof. exact add_present_rejected. Qed.
Print Assumptions C12_add_rejects_present_name.

(* add raises exactly when a name clashes with the list or with an earlier added phase *)
Theorem C12_add_raises_iff : forall ps pl,
  snd (add pl ps) = None <-> (NoDup (map pname ps) /\ forall p, In p ps -> ~ In (pname p) (names pl)).
Proof. exact add_ok_iff. Qed.
Print Assumptions C12_add_raises_iff.

(* a fresh name is appended with id max + 1; names stay pairwise distinct; old entries stay *)
Theorem C12_add_fresh : forall pl p,
  ~ In (pname p) (names pl) -> add pl [p] = ((pl ++ [(new_id pl, p)])%list, None).
Proof. exact add_fresh. Qed.
Print Assumptions C12_add_fresh.

Theorem C12_add_keeps_names_distinct : forall ps pl, NoDup (names pl) -> NoDup (names (fst (add pl ps))).
Proof. exact add_names_NoDup. Qed.
Print Assumptions C12_add_keeps_names_distinct.

(* indexing by id(s): exactly the phases with those ids, in id order; one match gives
   the phase itself; a missing id is a KeyError *)
Theorem C12_index_by_ids : forall pl ks, sortedk pl ->
  (forall k, In k ks -> In k (ids pl)) ->
  the_result (by_ids pl ks) (filter (fun kv => memZ (fst kv) ks) pl).
Proof. exact by_ids_spec. Qed.
Print Assumptions C12_index_by_ids.

Theorem C12_index_missing_id : forall pl ks k,
  In k ks -> ~ In k (ids pl) -> by_ids pl ks = IErr KeyError.
Proof. exact by_ids_missing. Qed.
Print Assumptions C12_index_missing_id.

(* indexing by name(s): exactly the phases whose name is among the keys *)
Theorem C12_index_by_names : forall pl ks, sortedk pl ->
  the_result (by_names pl ks) (filter (fun kv => memS (pname (snd kv)) ks) pl).
Proof. exact by_names_spec. Qed.
Print Assumptions C12_index_by_names.

(* indexing by slice: exactly the phases whose id, counted from the first element of
   arange(first, max + 1) (first = -1 iff the list starts with not_indexed), is
   selected by the python slice -- any start / stop / step *)
Theorem C12_index_by_slice : forall pl a b s pos, sortedk pl -> pl <> [] ->
  slice_indices (slice_len pl) a b s = Some pos ->
  the_result (by_slice pl a b s) (filter (fun kv => memZ (fst kv - slice_start pl) pos) pl).
Proof. exact by_slice_spec. Qed.
Print Assumptions C12_index_by_slice.

Theorem C12_index_slice_contiguous : forall pl a b, sortedk pl -> pl <> [] -> 0 <= a -> 0 <= b ->
  the_result (index pl (KSlice (Some a) (Some b) None))
    (filter (fun kv => (a <=? fst kv - slice_start pl) && (fst kv - slice_start pl <? b)) pl).
Proof. exact slice_contiguous. Qed.
Print Assumptions C12_index_slice_contiguous.

(* deleting by id / by name removes exactly that entry; missing -> KeyError *)
Theorem C12_del_by_id : forall pl i, sortedk pl ->
  del pl (DelInt i) = if memZ i (ids pl) then Ok (filter (fun kv => negb (fst kv =? i)) pl) else Err KeyError.
Proof. exact del_int_spec. Qed.
Print Assumptions C12_del_by_id.

Theorem C12_del_by_name : forall pl s, sortedk pl ->
  del pl (DelStr s) = match first_id_with_name s pl with
                      | Some i => Ok (filter (fun kv => negb (fst kv =? i)) pl)
                      | None => Err KeyError
                      end.
Proof. exact del_str_spec. Qed.
Print Assumptions C12_del_by_name.

(* add_not_indexed: id -1 becomes the not_indexed phase, every other id keeps its phase *)
Theorem C12_add_not_indexed : forall pl j, NoDup (ids pl) ->
  dict_get j (add_not_indexed pl) = if j =? -1 then Some ni_phase else dict_get j pl.
Proof. exact add_not_indexed_get. Qed.
Print Assumptions C12_add_not_indexed.

(* ===================================================== construction *)

(* for ANY non-empty phase-id array and ANY (sorted) phase list -- fewer, equal or more
   phases, arbitrary ids -- the phase list of the new map has EXACTLY the ids present
   in the data (-1 included), sorted *)
Theorem C12_init_ids_exact : forall pid pl p,
  (forall pl0, pl = Some pl0 -> sortedk pl0) ->
  init_phases pid pl = Ok p -> ids p = uniq pid /\ sortedk p.
Proof. exact init_phases_ids. Qed.
Print Assumptions C12_init_ids_exact.

(* the full invariant after construction, for ids >= -1 and ANY well-formed caller's list
   (caller_ok: sorted, and a phase named "not_indexed" -- if there is one -- has id -1;
   so the list may be another map's .phases) *)
Theorem C12_init_invariant : forall pid pl props st,
  (forall pl0, pl = Some pl0 -> caller_ok pl0) ->
  (forall x, In x pid -> -1 <= x) ->
  init pid pl props = Ok st -> Inv st.
Proof. exact init_Inv. Qed.
Print Assumptions C12_init_invariant.

(* a caller's list that holds not_indexed at id -1: after construction "not_indexed" is
   still exactly the phase of id -1 (it used to be relinked by list order) *)
Theorem C12_init_not_indexed : forall pid pl st,
  sortedk pl -> (forall i p, In (i, p) pl -> (pname p = ni_name <-> i = -1)) ->
  (forall x, In x pid -> -1 <= x) -> init pid (Some pl) [] = Ok st ->
  forall i p, In (i, p) (s_phases st) -> (pname p = ni_name <-> i = -1).
Proof. exact init_not_indexed. Qed.
Print Assumptions C12_init_not_indexed.

(* ... because the entry of id -1 takes no part in the linking: the constructor behaves as
   if it had been removed from the caller's list (the rules below apply to strip_ni pl) *)
Theorem C12_init_ignores_caller_not_indexed : forall pid pl props, sortedk pl ->
  init pid (Some pl) props = init pid (Some (filter (fun kv => negb (fst kv =? -1)) pl)) props.
Proof. exact init_ignores_caller_not_indexed. Qed.
Print Assumptions C12_init_ignores_caller_not_indexed.

Theorem C12_init_strip : forall pl, sortedk pl ->
  strip_ni pl = filter (fun kv => negb (fst kv =? -1)) pl.
Proof. exact (fun pl H => strip_ni_filter pl (sortedk_NoDup pl H)). Qed.
Print Assumptions C12_init_strip.

(* the linking rule, as closed forms of the constructor's reconciliation.
   u = sorted ids of the data without -1; pl = the caller's list without its entry of id -1. *)
(* same ids: the list is kept *)
Theorem C12_init_rule_same_ids : forall pl, sortedk pl -> reconcile pl (ids pl) = pl.
Proof. exact reconcile_same_ids. Qed.
Print Assumptions C12_init_rule_same_ids.

(* every data id is listed: phases of the ids present keep their ids, the rest is dropped *)
Theorem C12_init_rule_superset : forall pl u, sortedk pl -> sortedZ u ->
  (forall x, In x u -> In x (ids pl)) ->
  reconcile pl u = filter (fun kv => memZ (fst kv) u) pl.
Proof. exact reconcile_superset. Qed.
Print Assumptions C12_init_rule_superset.

(* as many phases as ids: linked by list order *)
Theorem C12_init_rule_equal : forall pl u, sortedZ u -> List.length pl = List.length u ->
  reconcile pl u = combine u (map snd pl).
Proof. exact reconcile_equal. Qed.
Print Assumptions C12_init_rule_equal.

(* more phases than ids: the surplus is removed among the phases whose id is absent from
   the data, from the highest id down; the rest is linked by list order *)
Theorem C12_init_rule_more : forall pl u, sortedk pl -> sortedZ u ->
  (List.length u < List.length pl)%nat ->
  reconcile pl u = combine u (map snd (filter (fun kv => negb (memZ (fst kv) (drop_set pl u))) pl)).
Proof. exact reconcile_more. Qed.
Print Assumptions C12_init_rule_more.

(* fewer phases than ids: each id takes the phase listed under that id, a default phase
   otherwise (linked by ID -- the caller's phases with other ids are dropped; see design.d) *)
Theorem C12_init_rule_fewer : forall pl u, sortedZ u -> (List.length pl < List.length u)%nat ->
  reconcile pl u = map (fun i => (i, lookup_or_default pl i)) u.
Proof. exact reconcile_fewer. Qed.
Print Assumptions C12_init_rule_fewer.

(* ================================== invariant over all histories *)

(* each operation preserves the invariant under the property's side condition *)
Theorem C12_step_invariant : forall s o, Inv (m_store s) -> op_ok s o -> Inv (m_store (fst (step s o))).
Proof. exact step_Inv. Qed.
Print Assumptions C12_step_invariant.

(* every state reachable from a construction by any sequence of selections (by names,
   indexed / not_indexed, masks; from any earlier selection), scalar or array phase_id
   assignments of -1 or listed ids, property assignments
   and add / delete(unused id) / add_not_indexed / sort on the map's phase list satisfies:
   ids sorted and unique; every phase id of the data (hence of every selection) is listed;
   a phase is named not_indexed iff its id is -1. *)
Theorem C12_history_invariant : forall pid pl props st v0 ops,
  (forall pl0, pl = Some pl0 -> caller_ok pl0) ->
  (forall x, In x pid -> -1 <= x) ->
  init pid pl props = Ok st ->
  run_ok ops (mkState st [v0]) ->
  Inv (m_store (run ops (mkState st [v0]))).
Proof. exact reachable_Inv. Qed.
Print Assumptions C12_history_invariant.

(* array assignment of ids that are -1 or listed keeps the invariant (the property's own
   side condition; it used to break when -1 was assigned and not_indexed was not listed) *)
Theorem C12_set_phase_id_array_invariant : forall st v zs, Inv st ->
  (forall z, In z zs -> z = -1 \/ In z (ids (s_phases st))) ->
  Inv (fst (set_pid st v (PArr zs))).
Proof. exact set_pid_array_Inv. Qed.
Print Assumptions C12_set_phase_id_array_invariant.

(* EVERY array assignment of the right length (any length, also 0 and 1) assigns exactly the
   selected points, raises nothing, and adds not_indexed iff -1 is among the values and
   not_indexed is not listed yet *)
Theorem C12_set_phase_id_array_frame : forall st v zs,
  List.length v = List.length (s_pid st) -> List.length zs = count v ->
  let st' := fst (set_pid st v (PArr zs)) in
  select_by v (s_pid st') = zs /\
  select_by (map negb v) (s_pid st') = select_by (map negb v) (s_pid st) /\
  s_props st' = s_props st /\ s_phases st' = maybe_add_ni zs (s_phases st) /\
  snd (set_pid st v (PArr zs)) = None.
Proof. exact set_pid_array_frame. Qed.
Print Assumptions C12_set_phase_id_array_frame.

Theorem C12_set_phase_id_adds_not_indexed : forall zs pl, PInv pl ->
  maybe_add_ni zs pl = if has_m1 zs && negb (memZ (-1) (ids pl)) then add_not_indexed pl else pl.
Proof. exact maybe_add_ni_spec. Qed.
Print Assumptions C12_set_phase_id_adds_not_indexed.

(* an array of another length (a length-1 array is broadcast) is rejected, nothing changes *)
Theorem C12_set_phase_id_array_bad_length : forall st v zs, List.length zs <> 1%nat ->
  List.length zs <> count v -> set_pid st v (PArr zs) = (st, Some ValueError).
Proof. exact set_pid_array_bad_length. Qed.
Print Assumptions C12_set_phase_id_array_bad_length.

(* scalar assignment through a selection changes exactly the selected points *)
Theorem C12_set_phase_id_scalar_frame : forall st v z, List.length v = List.length (s_pid st) ->
  let st' := fst (set_pid st v (PScalar z)) in
  select_by v (s_pid st') = repeat z (count v) /\
  select_by (map negb v) (s_pid st') = select_by (map negb v) (s_pid st) /\
  s_props st' = s_props st.
Proof. exact set_pid_scalar_frame. Qed.
Print Assumptions C12_set_phase_id_scalar_frame.

(* ================================= phases_in_data and orientations *)

(* two or more phases in the selection: exactly the entries of the ids present *)
Theorem C12_phases_in_data_many : forall st v, Inv st -> (2 <= List.length (present st v))%nat ->
  exists sel, phases_in_data st v = Ok sel /\ ids sel = present st v /\
              (forall x, In x sel -> In x (s_phases st)) /\ sortedk sel.
Proof. exact phases_in_data_many. Qed.
Print Assumptions C12_phases_in_data_many.

(* one phase in the selection: exactly that phase under the id present, whatever the names
   (it used to be labelled with the first id carrying the same name) *)
Theorem C12_phases_in_data_single : forall st v i p, Inv st -> present st v = [i] ->
  dict_get i (s_phases st) = Some p ->
  phases_in_data st v = Ok [(i, p)].
Proof. exact phases_in_data_single. Qed.
Print Assumptions C12_phases_in_data_single.

(* any non-empty selection: the ids of phases_in_data are exactly the ids present *)
Theorem C12_phases_in_data_ids : forall st v, Inv st -> present st v <> [] ->
  exists sel, phases_in_data st v = Ok sel /\ ids sel = present st v /\
              (forall x, In x sel -> In x (s_phases st)) /\ sortedk sel.
Proof. exact phases_in_data_ids. Qed.
Print Assumptions C12_phases_in_data_ids.

(* orientations of a single-phase selection carry that phase's point group (TypeError when
   the phase has none); several phases -> ValueError *)
Theorem C12_orientations_single : forall st v i p, Inv st -> present st v = [i] ->
  dict_get i (s_phases st) = Some p ->
  orientations st v = match ppg p with Some g => Ok g | None => Err TypeError end.
Proof. exact orientations_single. Qed.
Print Assumptions C12_orientations_single.

Theorem C12_orientations_many : forall st v, Inv st -> (2 <= List.length (present st v))%nat ->
  orientations st v = Err ValueError.
Proof. exact orientations_many. Qed.
Print Assumptions C12_orientations_many.

(* ============================================ property assignment *)

(* ANY value dtype: exactly the selected points take the (converted) values; every other
   point keeps its value, converted to the new dtype; that dtype (the value's when all points
   are selected, else the common dtype) holds the assigned values exactly, and the values of
   the points outside the selection whenever there are any; other keys, phase ids and phases
   are untouched.  (An int value assigned through a selection used to truncate the float
   values of all unselected points.) *)
Theorem C12_set_prop_scalar_frame : forall st v k a d z,
  prop_get k (s_props st) = Some a -> List.length v = List.length (pvals a) ->
  let st' := fst (set_prop st v k (VScalar d z)) in
  exists a', prop_get k (s_props st') = Some a' /\ pdt a' = new_dtype v (pdt a) d /\
    select_by v (pvals a') = repeat (cast1 d (pdt a') z) (count v) /\
    select_by (map negb v) (pvals a') = map (cast1 (pdt a) (pdt a')) (select_by (map negb v) (pvals a)) /\
    lossless d (pdt a') /\
    (select_by (map negb v) (pvals a) <> [] -> lossless (pdt a) (pdt a')) /\
    s_pid st' = s_pid st /\ s_phases st' = s_phases st /\
    (forall k', k' <> k -> prop_get k' (s_props st') = prop_get k' (s_props st)).
Proof. exact set_prop_scalar_frame. Qed.
Print Assumptions C12_set_prop_scalar_frame.

Theorem C12_set_prop_array_frame : forall st v k a d zs,
  prop_get k (s_props st) = Some a -> List.length v = List.length (pvals a) ->
  List.length zs = count v ->
  let st' := fst (set_prop st v k (VArr d zs)) in
  exists a', prop_get k (s_props st') = Some a' /\ pdt a' = new_dtype v (pdt a) d /\
    select_by v (pvals a') = map (cast1 d (pdt a')) zs /\
    select_by (map negb v) (pvals a') = map (cast1 (pdt a) (pdt a')) (select_by (map negb v) (pvals a)) /\
    lossless d (pdt a') /\
    (select_by (map negb v) (pvals a) <> [] -> lossless (pdt a) (pdt a')) /\
    s_pid st' = s_pid st /\ s_phases st' = s_phases st /\
    (forall k', k' <> k -> prop_get k' (s_props st') = prop_get k' (s_props st)).
Proof. exact set_prop_array_frame. Qed.
Print Assumptions C12_set_prop_array_frame.

(* a lossless cast keeps the NUMBER (floats are stored as quarters, ints as units); equal
   dtypes: the stored value itself *)
Theorem C12_lossless_cast : forall a b x,
  (lossless a b -> quarters b (cast1 a b x) = quarters a x) /\ cast1 a a x = x /\
  (forall v, new_dtype v a a = a).
Proof.
  exact (fun a b x => conj (cast1_quarters a b x) (conj (cast1_same a x) (fun v => promote_same_new v a))).
Qed.
Print Assumptions C12_lossless_cast.

(* hence: whatever is assigned (and accepted), no point outside the selection changes its number *)
Theorem C12_set_prop_keeps_unselected : forall st v k a val,
  prop_get k (s_props st) = Some a -> List.length v = List.length (pvals a) ->
  snd (set_prop st v k val) = None ->
  exists a', prop_get k (s_props (fst (set_prop st v k val))) = Some a' /\
    map (quarters (pdt a')) (select_by (map negb v) (pvals a'))
    = map (quarters (pdt a)) (select_by (map negb v) (pvals a)).
Proof. exact set_prop_keeps_unselected_numbers. Qed.
Print Assumptions C12_set_prop_keeps_unselected.

(* ======================================================= selections *)

(* a selection never contains a point absent from the map it was taken from *)
Theorem C12_select_subset : forall st v s v' k,
  select st v s = Ok v' -> nth k v' false = true -> nth k v false = true.
Proof. exact select_subset. Qed.
Print Assumptions C12_select_subset.

(* selection by names: point k is selected iff it was in the map and a key names the phase
   listed under its id (or the key is "indexed" and the id is not -1) *)
Theorem C12_select_by_names : forall st v ks v' k,
  select st v (SNames ks) = Ok v' -> (k < List.length v)%nat -> List.length v = List.length (s_pid st) ->
  nth k v' false = nth k v false && existsb (fun n => name_hits (s_phases st) n (nth k (s_pid st) 0)) ks.
Proof. exact select_names_spec. Qed.
Print Assumptions C12_select_by_names.

(* the `phases` setter guards only the size: it does not protect the invariant *)
Theorem C12_phases_setter_guard_partial :
  exists st v value, Inv st /\ set_phases_guard st v value = true /\ sortedk value /\
    ~ Inv (mkStore (s_pid st) value (s_props st)).
Proof. exact phases_setter_guard_insufficient. Qed.
Print Assumptions C12_phases_setter_guard_partial.

(* ====================================================== non-vacuity *)
Example C12_history_nonvacuous :
  exists st, init [0; 1; 1] None [] = Ok st /\ run_ok ex_ops (mkState st [[true; true; true]]) /\
    s_pid (m_store (run ex_ops (mkState st [[true; true; true]]))) = [1; 1; 1] /\
    ids (s_phases (m_store (run ex_ops (mkState st [[true; true; true]])))) = [-1; 0; 1].
Proof. exact history_nonvacuous. Qed.

Example C12_init_nonvacuous :
  exists st, init [2; -1; 7; 2] (Some [(0, mkPhase "a" (Some "m-3m"%string) 0); (1, mkPhase "b" None 0);
                                      (4, mkPhase "c" None 0)]) [] = Ok st
             /\ ids (s_phases st) = [-1; 2; 7]
             /\ names (s_phases st) = ["not_indexed"%string; "a"%string; "b"%string].
Proof. exact init_nonvacuous. Qed.

Example C12_slice_nonvacuous :
  index [(-1, ni_phase); (0, default_phase); (2, mkPhase "c" None 0)] (KSlice (Some 0) (Some 2) None)
  = IMany [(-1, ni_phase); (0, default_phase)].
Proof. exact slice_nonvacuous. Qed.

(* the former witnesses of the four repaired findings, now with the right results *)
Example C12_init_not_indexed_witness :
  init [0; 1; 2] (Some w1_pl) []
  = Ok (mkStore [0; 1; 2] [(0, mkPhase "a" (Some "m-3m"%string) 0); (1, mkPhase "b" None 0); (2, default_phase)] []).
Proof. exact init_not_indexed_witness. Qed.

Example C12_set_phase_id_array_witness :
  set_pid w2_st [true; true] (PArr [-1; 0])
  = (mkStore [-1; 0] [(-1, ni_phase); (0, default_phase)] [], None).
Proof. exact set_pid_array_witness. Qed.

Example C12_phases_in_data_witness :
  phases_in_data w3_st [false; false; true] = Ok [(3, default_phase)].
Proof. exact phases_in_data_witness. Qed.

Example C12_set_prop_witness :
  s_props (fst (set_prop (mkStore [0; 0] [(0, default_phase)] [("iq"%string, mkArr DFlt [2; 6])]) [false; true] "iq"
                         (VScalar DInt 7)))
  = [("iq"%string, mkArr DFlt [2; 28])].
Proof. exact set_prop_witness. Qed.
