(* C04 -- Symmetry-reduced misorientation angle is the true minimum over
   equivalents.  The reduced dot product that Orientation.dot computes from a
   list U of symmetry elements (model: Model/SymDot.v, tied to the code by the
   correspondence check) is compared with the brute-force maximum over ALL
   pairs of symmetrically equivalent orientations, for ALL real quaternions.
   The group data is regenerated from /repo on every run (Gen/Groups.v) and
   the set conditions are decided exactly in K = Q(sqrt2,sqrt3) and
   transferred to R by the ring homomorphism K -> R (Base/KtoR.v). *)
From Coq Require Import Reals ZArith QArith List String Bool.
From Verif Require Import Scalar RInst KField KtoR Quat QuatAlg GroupK Groups GroupFacts
  SymDot SymDotR SymDotK TwoSymAll.
Local Open Scope R_scope.

(* the algebraic heart, for ALL quaternions: <M, ~g2*g1> = Re (g2 * M * ~g1) *)
Theorem C04_dot_is_real_part_of_equivalent : forall M p1 p2 : quat (T:=R),
  qdot ROps M (qmul ROps (qconj ROps p2) p1) = qre (qmul ROps p2 (qmul ROps M (qconj ROps p1))).
Proof. exact dot_needed. Qed.
Print Assumptions C04_dot_is_real_part_of_equivalent.

(* GENERAL: whenever the list of symmetry elements used is, up to signs and
   duplicates, { ~g2 * g1 }, the computed value is the brute-force maximum
   (max dot <=> min angle, since angle = arccos (2 d^2 - 1) is antitone on [0,1]) *)
Theorem C04_reduced_dot_is_true_maximum : forall (U G1 G2 : list (rot (T:=R))),
  sign_equiv U (needed_set ROps G1 G2) ->
  forall O1 O2, code_dot ROps U O1 O2 = brute_dot ROps G1 G2 O1 O2.
Proof. exact code_dot_is_brute. Qed.
Print Assumptions C04_reduced_dot_is_true_maximum.

(* the value only depends on the SET of symmetry elements up to sign: the
   order of the elements, duplicates and the sign of each quaternion are irrelevant *)
Theorem C04_depends_on_set_only : forall (U V : list (rot (T:=R))) O1 O2,
  sign_equiv U V -> code_dot ROps U O1 O2 = code_dot ROps V O1 O2.
Proof. intros; apply code_dot_sign_equiv; assumption. Qed.
Print Assumptions C04_depends_on_set_only.

(* SAME SYMMETRY, all 38 named point groups, all pairs of orientations:
   the code uses the group itself and that is the needed set *)
Theorem C04_same_symmetry : forall g, In g groups ->
  forall O1 O2 : quat (T:=R),
    code_dot ROps (map rtoR (g_elems g)) O1 O2
    = brute_dot ROps (map rtoR (g_elems g)) (map rtoR (g_elems g)) O1 O2.
Proof.
  intros g Hg. apply code_dot_is_brute_K.
  exact (forallb_In _ _ all_same_sym_ok g Hg).
Qed.
Print Assumptions C04_same_symmetry.

(* TWO SYMMETRIES (two-phase comparison), all 38 x 38 ordered pairs: the code
   uses unique (G_other . G_self); this is the needed set { ~g2 * g1 } for
   every ordered pair, so the value is the true maximum for all orientations *)
Theorem C04_two_symmetries : forall g h, In g groups -> In h groups ->
  g_name g <> g_name h ->
  forall O1 O2 : quat (T:=R),
    code_dot ROps (map rtoR (code_set (g_elems g) (g_elems h))) O1 O2
    = brute_dot ROps (map rtoR (g_elems g)) (map rtoR (g_elems h)) O1 O2.
Proof.
  intros g h Hg Hh Hne. apply code_dot_is_brute_K.
  pose proof (two_sym_decided g h Hg Hh) as H.
  unfold two_sym_ok in H. apply String.eqb_neq in Hne. rewrite Hne in H. exact H.
Qed.
Print Assumptions C04_two_symmetries.

Example C04_nonvacuous : exists g h, In g groups /\ In h groups /\ g_name g <> g_name h.
Proof.
  exists (nth 15 groups (nth 0 groups (mkG "" nil 0 "" nil "" nil "" nil nil nil false false ""))),
         (nth 9 groups (nth 0 groups (mkG "" nil 0 "" nil "" nil "" nil nil nil false false ""))).
  vm_compute. repeat split; auto 50. discriminate.
Qed.
