(* C04 -- Symmetry-reduced misorientation angle is the true minimum over
   equivalents.  The reduced dot product that Orientation.dot computes from a
   list U of symmetry elements (model: Model/SymDot.v, tied to the code by the
   correspondence check) is compared with the brute-force maximum over ALL
   pairs of symmetrically equivalent orientations, for ALL real quaternions.
   The group data is regenerated from /repo on every run (Gen/Groups.v) and
   the set conditions are decided exactly in K = Q(sqrt2,sqrt3) and
   transferred to R by the ring homomorphism K -> R (Base/KtoR.v). *)
From Coq Require Import Reals ZArith QArith List String Bool.
From Verif Require Import Scalar RInst KField KtoR Quat QuatAlg GroupK Groups GroupFacts
  SymDot SymDotR SymDotK TwoSymAll SymDotCor GroupReal SymDotGroups CrossProofs NdIndex NdTranspose DotOuter.
Local Open Scope R_scope.

(* the algebraic heart, for ALL quaternions: <M, ~g2*g1> = Re (g2 * M * ~g1) *)
Theorem C04_dot_is_real_part_of_equivalent : forall M p1 p2 : quat (T:=R),
  qdot ROps M (qmul ROps (qconj ROps p2) p1) = qre (qmul ROps p2 (qmul ROps M (qconj ROps p1))).
Proof. exact dot_needed. Qed.
Print Assumptions C04_dot_is_real_part_of_equivalent.

(* GENERAL: whenever the list of symmetry elements used is, up to signs and
   duplicates, { ~g2 * g1 }, the computed value is the brute-force maximum
   (max dot <=> min angle, since angle = arccos (2 d^2 - 1) is antitone on [0,1]) *)
Theorem C04_reduced_dot_is_true_maximum : forall (U G1 G2 : list (rot (T:=R))),
  sign_equiv U (needed_set ROps G1 G2) ->
  forall O1 O2, code_dot ROps U O1 O2 = brute_dot ROps G1 G2 O1 O2.
Proof. exact code_dot_is_brute. Qed.
Print Assumptions C04_reduced_dot_is_true_maximum.

(* the value only depends on the SET of symmetry elements up to sign: the
   order of the elements, duplicates and the sign of each quaternion are irrelevant *)
Theorem C04_depends_on_set_only : forall (U V : list (rot (T:=R))) O1 O2,
  sign_equiv U V -> code_dot ROps U O1 O2 = code_dot ROps V O1 O2.
Proof. intros; apply code_dot_sign_equiv; assumption. Qed.
Print Assumptions C04_depends_on_set_only.

(* SAME SYMMETRY, all 38 named point groups, all pairs of orientations:
   the code uses the group itself and that is the needed set *)
Theorem C04_same_symmetry : forall g, In g groups ->
  forall O1 O2 : quat (T:=R),
    code_dot ROps (map rtoR (g_elems g)) O1 O2
    = brute_dot ROps (map rtoR (g_elems g)) (map rtoR (g_elems g)) O1 O2.
Proof.
  intros g Hg. apply code_dot_is_brute_K.
  exact (forallb_In _ _ all_same_sym_ok g Hg).
Qed.
Print Assumptions C04_same_symmetry.

(* TWO SYMMETRIES (two-phase comparison), all 38 x 38 ordered pairs: the code
   uses unique (G_other . G_self); this is the needed set { ~g2 * g1 } for
   every ordered pair, so the value is the true maximum for all orientations *)
Theorem C04_two_symmetries : forall g h, In g groups -> In h groups ->
  g_name g <> g_name h ->
  forall O1 O2 : quat (T:=R),
    code_dot ROps (map rtoR (code_set (g_elems g) (g_elems h))) O1 O2
    = brute_dot ROps (map rtoR (g_elems g)) (map rtoR (g_elems h)) O1 O2.
Proof.
  intros g h Hg Hh Hne. apply code_dot_is_brute_K.
  pose proof (two_sym_decided g h Hg Hh) as H.
  unfold two_sym_ok in H. apply String.eqb_neq in Hne. rewrite Hne in H. exact H.
Qed.
Print Assumptions C04_two_symmetries.

(* the value is symmetric in its arguments (both symmetries swapped with them) *)
Theorem C04_symmetric : forall (G1 G2 : list (rot (T:=R))) (O1 O2 : quat (T:=R)),
  brute_dot ROps G1 G2 O1 O2 = brute_dot ROps G2 G1 O2 O1.
Proof. exact brute_dot_symmetric. Qed.
Print Assumptions C04_symmetric.

(* ... unchanged when either argument is replaced by a symmetry-equivalent one g*O
   (general statement for lists closed under right multiplication by g and ~g) ... *)
Theorem C04_invariant_under_equivalents : forall (G1 G2 : list (rot (T:=R))) (g O1 O2 : quat (T:=R)),
  qnorm2 ROps g = 1 -> right_closed G1 g -> right_closed G1 (qconj ROps g) ->
  brute_dot ROps G1 G2 (qmul ROps g O1) O2 = brute_dot ROps G1 G2 O1 O2.
Proof. exact brute_dot_left_equiv. Qed.
Print Assumptions C04_invariant_under_equivalents.

(* ... in [0, 1] for unit quaternions (so the angle is defined), and equal to 1,
   i.e. reduced angle 0, for equivalent orientations *)
Theorem C04_range : forall (U : list (rot (T:=R))) (O1 O2 : quat (T:=R)),
  qnorm2 ROps O1 = 1 -> qnorm2 ROps O2 = 1 -> (forall s, In s U -> qnorm2 ROps (fst s) = 1) ->
  0 <= code_dot ROps U O1 O2 <= 1.
Proof. exact code_dot_range. Qed.
Print Assumptions C04_range.

Theorem C04_zero_for_equivalents : forall (U : list (rot (T:=R))) (g O1 : quat (T:=R)),
  In (g, false) U -> qnorm2 ROps g = 1 -> qnorm2 ROps O1 = 1 ->
  (forall s, In s U -> qnorm2 ROps (fst s) = 1) ->
  code_dot ROps U O1 (qmul ROps g O1) = 1.
Proof.
  intros U g O1 Hin Hg HO HU. apply Rle_antisym.
  - apply code_dot_range; auto. rewrite qnorm2_mul, Hg, HO. ring.
  - apply left_equivalent_zero_angle; assumption.
Qed.
Print Assumptions C04_zero_for_equivalents.

(* all of this for every one of the 38 named point groups as orix has them:
   Orientation.dot with symmetry G is symmetric and invariant under replacing
   either orientation by x*O for any proper operation x of G -- ALL orientations *)
Theorem C04_named_groups_symmetric_invariant : forall g, In g groups ->
  let G := map rtoR (g_elems g) in
  (forall O1 O2, code_dot ROps G O1 O2 = code_dot ROps G O2 O1) /\
  (forall x O1 O2, In x G -> snd x = false ->
     code_dot ROps G (qmul ROps (fst x) O1) O2 = code_dot ROps G O1 O2 /\
     code_dot ROps G O1 (qmul ROps (fst x) O2) = code_dot ROps G O1 O2).
Proof.
  intros g Hg G. split.
  - intros; apply named_group_dot_symmetric; exact Hg.
  - intros; apply named_group_dot_invariant; assumption.
Qed.
Print Assumptions C04_named_groups_symmetric_invariant.

(* the outer form: Orientation.dot_outer returns an array of shape self.shape ++ other.shape
   whose element (i ++ j) is the symmetry-reduced dot product of self[i] and other[j], for
   ALL shapes (also of different numbers of dimensions: repair 16d001b) -- the model
   Model/DotOuter.dot_outer_model applies the code's own transposition order *)
Theorem C04_dot_outer_layout :
  forall (U : list (rot (T:=R))) (A B : list (quat (T:=R))) (sa sb i j : list nat) (dq : quat (T:=R)),
  List.length A = size sa -> List.length B = size sb -> valid sa i -> valid sb j ->
  let '(s, l) := dot_outer_model ROps U A B sa sb in
  s = (sa ++ sb)%list /\
  nth (ravel (sa ++ sb)%list (i ++ j)%list) l 0 = code_dot ROps U (nth (ravel sa i) A dq) (nth (ravel sb j) B dq).
Proof. exact (dot_outer_layout ROps). Qed.
Print Assumptions C04_dot_outer_layout.

Example C04_nonvacuous : exists g h, In g groups /\ In h groups /\ g_name g <> g_name h.
Proof.
  exists (nth 15 groups (nth 0 groups (mkG "" nil 0 "" nil "" nil "" nil nil nil false false ""))),
         (nth 9 groups (nth 0 groups (mkG "" nil 0 "" nil "" nil "" nil nil nil false false ""))).
  vm_compute. repeat split; auto 50. discriminate.
Qed.
