(* C19 -- Sampling grids lie in and cover their target region.
   Property theorems only; proofs are in Proofs/C19Lists.v (filter / unique, any
   scalar type and the reals), Proofs/C19Unit.v (unit norms, grid sizes),
   Proofs/C19Reduced.v (exact image of Z), Proofs/C19Steps.v (step counts, Q),
   Proofs/C19Cover.v (covering of the uv mesh).

   The model (Model/C19Model.v) composes the kernels GENERATED from the source
   (eu2qu_single, cu2ro_single, ro2ax_single, ax2qu_single, from_polar, v_polar,
   v_azimuth, region_ge_k, Rotation._differentiators) with the model of
   Rotation.unique of C17; it is compared with the implementation element by
   element on every run.  Every theorem is for ALL step counts / resolutions, ALL
   lists of region normals (hence all point groups) and ALL grids.

   COVERING (the supremum over the continuum) is proved for the uv mesh only
   (C19_uv_mesh_covers); for all other grids it is NOT proved -- see
   design.d/C19.md -- and is monitored by the oracle. *)
From Coq Require Import Reals QArith List Bool ZArith Sorted.
From Verif Require Import Scalar RInst Quat QuatAlg C17Unique C17UniqueSpec C17Diff
  C19Model C19Lists C19Unit C19Reduced C19Steps C19Cover.
From Verif.Gen Require Import C20Stereo.
From Verif.Proofs Require C20ProjProofs.
Import ListNotations.
Local Open Scope R_scope.

(* ===================== fundamental sample = unique (filter region grid) ===== *)
(* every returned rotation satisfies the region predicate and is a grid point --
   any scalar type, any rounding in unique, any normals, any grid *)
Theorem C19_fundamental_inside :
  forall (rnd12 : R -> R) (normals grid : list (quatT (T:=R))) q,
  In q (sample_fundamental_on ROps rnd12 normals grid) ->
  in_region ROps normals q = true /\ In q grid.
Proof. exact (fun rnd12 => fundamental_inside ROps rnd12 rowcmp_R_order). Qed.
Print Assumptions C19_fundamental_inside.

(* what the region predicate says, and that q and -q get the same verdict *)
Theorem C19_region_predicate : forall (normals : list (quatT (T:=R))) (q : quatT (T:=R)),
  (in_region ROps normals q = true <->
   (forall n, In n normals -> - (1 / 1000000000) <= qdot ROps n q) \/
   (forall n, In n normals -> qdot ROps n q <= 1 / 1000000000)) /\
  in_region ROps normals (qneg ROps q) = in_region ROps normals q.
Proof. intros. split; [apply in_region_spec | apply in_region_neg]. Qed.
Print Assumptions C19_region_predicate.

(* end to end for the three SO(3) methods and any step count *)
Theorem C19_get_sample_fundamental_inside :
  forall (rnd12 : R -> R) (method n : Z) (normals : list (quatT (T:=R))) q,
  In q (get_sample_fundamental ROps rnd12 method n normals) ->
  in_region ROps normals q = true /\ qnorm2 ROps q = 1.
Proof.
  intros rnd12 method n normals q H. unfold get_sample_fundamental in H.
  apply (fundamental_inside ROps rnd12 rowcmp_R_order) in H. destruct H as [H1 H2].
  split; [exact H1 | exact (so3_grid_unit method n q H2)].
Qed.
Print Assumptions C19_get_sample_fundamental_inside.

(* no duplicates: two returned rotations never have the same key; with exact
   keys they are not equal, not even up to sign *)
Theorem C19_fundamental_distinct_keys :
  forall (rnd12 : R -> R) (normals grid : list (quatT (T:=R))),
  StronglySorted (fun x y => keq (rowcmp ROps) (key_antipodal ROps rnd12 (mk_rot x))
                                 (key_antipodal ROps rnd12 (mk_rot y)) = false)
                 (sample_fundamental_on ROps rnd12 normals grid).
Proof. exact (fun rnd12 => fundamental_distinct ROps rnd12 rowcmp_R_order). Qed.
Print Assumptions C19_fundamental_distinct_keys.

Theorem C19_fundamental_no_duplicates :
  forall (normals grid : list (quatT (T:=R))) d i j,
  (i < j)%nat -> (j < length (sample_fundamental_on ROps (fun t => t) normals grid))%nat ->
  let out := sample_fundamental_on ROps (fun t => t) normals grid in
  nth j out d <> nth i out d /\ nth j out d <> qneg ROps (nth i out d).
Proof. exact fundamental_nodup_exact. Qed.
Print Assumptions C19_fundamental_no_duplicates.

(* nothing but duplicates is removed: every in-region grid point is represented
   up to 32 delta^2, for every rounding function of resolution delta < 1/2 *)
Theorem C19_fundamental_complete :
  forall (rnd12 : R -> R) (delta : R) (normals grid : list (quatT (T:=R))) (q : quatT (T:=R)),
  (forall x, Rabs (rnd12 x - x) <= delta) -> delta < / 2 ->
  (forall p, In p grid -> qnorm2 ROps p = 1) ->
  In q grid -> in_region ROps normals q = true ->
  exists y, In y (sample_fundamental_on ROps rnd12 normals grid) /\
            1 - 32 * (delta * delta) <= qdot ROps y q * qdot ROps y q.
Proof. exact fundamental_complete_rounded. Qed.
Print Assumptions C19_fundamental_complete.

(* ================================ local sample = [c *] unique (filter angle) == *)
(* every returned rotation is  center * q'  with q' a grid point whose rotation
   angle 2 acos(a) is below the requested width; conj(center) * q gives q' back *)
Theorem C19_local_within_angle :
  forall (rnd12 : R -> R) (max_angle : R) (center : option (quatT (T:=R))) (grid : list (quatT (T:=R))) q,
  In q (sample_local_on ROps rnd12 max_angle center grid) ->
  exists q', In q' grid /\
    2 * acos (let '(a, _, _, _) := q' in a) < max_angle * (PI / 180) /\
    q = match center with None => q' | Some c => qmul ROps c q' end /\
    match center with
    | None => True
    | Some c => qnorm2 ROps c = 1 -> qmul ROps (qconj ROps c) q = q'
    end.
Proof. exact local_within. Qed.
Print Assumptions C19_local_within_angle.

(* ============================================ SO(3) grids: unit quaternions === *)
Theorem C19_so3_grids_unit : forall (method n : Z) q, In q (so3_grid ROps method n) -> qnorm2 ROps q = 1.
Proof. exact so3_grid_unit. Qed.
Print Assumptions C19_so3_grids_unit.

Theorem C19_haar_euler_unit_nonneg : forall n q, In q (haar_euler_grid ROps n) ->
  qnorm2 ROps q = 1 /\ 0 <= (let '(a, _, _, _) := q in a).
Proof. exact haar_euler_unit. Qed.
Print Assumptions C19_haar_euler_unit_nonneg.

Theorem C19_three_uniform_local_unit : forall n num1 num2 w q,
  In q (three_uniform_local_grid ROps n num1 num2 w) -> qnorm2 ROps q = 1.
Proof. exact three_uniform_local_unit. Qed.
Print Assumptions C19_three_uniform_local_unit.

(* the cubochoric map composed as the loop composes it gives a unit quaternion
   for EVERY cubochoric coordinate triple (all six pyramids, the centre, the
   identity and pi bands of the kernels) *)
Theorem C19_cubochoric_point_unit : forall x y z, qnorm2 ROps (cubo_point ROps x y z) = 1.
Proof. exact cubo_point_unit. Qed.
Print Assumptions C19_cubochoric_point_unit.

(* the loop discards nothing: (2N)^3 rotations for every N > 0 *)
Theorem C19_cubochoric_size : forall N, (0 < N)%Z ->
  length (cubochoric_grid ROps N) = (Z.to_nat (2 * N) * Z.to_nat (2 * N) * Z.to_nat (2 * N))%nat.
Proof. exact cubochoric_size. Qed.
Print Assumptions C19_cubochoric_size.

(* ... and this does not hinge on the exact value of step_size = L / N: the three
   loops keep all (2N)^3 points for EVERY step whose outermost coordinate N * step
   stays within the guard's tolerance, |N * step| <= L + 1e-8 (in floating point
   N * (L / N) exceeds L by an ulp for N = 65, 130, 260; with the guard `> L` the
   layer i = N, all rotations by pi, was dropped: repaired defect) *)
Theorem C19_cubochoric_size_robust : forall N step, (0 < N)%Z ->
  IZR N * Rabs step <= semi_edge_length ROps + 1 / 100000000 ->
  length (cubochoric_loop ROps step N) = (Z.to_nat (2 * N) * Z.to_nat (2 * N) * Z.to_nat (2 * N))%nat.
Proof. exact cubochoric_loop_size. Qed.
Print Assumptions C19_cubochoric_size_robust.

(* Haar-Euler grid: the rows Phi = 0 AND Phi = pi belong to the grid, for every
   azimuth pair of the grid (before the repair the last row was
   arccos(-1 + 2/half): no rotation with Phi = pi was sampled) *)
Theorem C19_haar_euler_reaches_poles : forall n a g, (2 <= n)%nat ->
  In a (linspace ROps (c0 ROps) (twopi ROps) n false) ->
  In g (linspace ROps (c0 ROps) (twopi ROps) n false) ->
  In (eu2qu ROps (a, 0, g)) (haar_euler_grid ROps n) /\
  In (eu2qu ROps (a, PI, g)) (haar_euler_grid ROps n).
Proof. exact haar_euler_reaches_poles. Qed.
Print Assumptions C19_haar_euler_reaches_poles.

(* no hole in Phi: every Phi in [0, pi] is within 1 / half in cos of a row of the
   grid (half of the spacing 2 / half of the cosines), uniformly up to both poles *)
Theorem C19_haar_euler_beta_covers : forall n Phi, (2 <= n)%nat -> 0 <= Phi <= PI ->
  exists b, In b (haar_euler_beta ROps n) /\ 0 <= b <= PI /\
            Rabs (cos b - cos Phi) <= 1 / INR (Nat.div2 n).
Proof. exact haar_euler_beta_covers. Qed.
Print Assumptions C19_haar_euler_beta_covers.

(* three-uniform-samples ("quaternion") grid: the sheets u_1 = 0 and u_1 = 1 (all rotations
   by pi about axes in the e2-e3 plane) belong to the grid for every (u_2, u_3) node, because
   u_1 is sampled with its end point *)
Theorem C19_three_uniform_reaches_sheets : forall n u2 u3, (2 <= n)%nat ->
  In u2 (linspace ROps (c0 ROps) (c1 ROps) n false) ->
  In u3 (linspace ROps (c0 ROps) (c1 ROps) n false) ->
  In (three_uniform_point ROps 0 u2 u3) (three_uniform_grid ROps n) /\
  In (three_uniform_point ROps 1 u2 u3) (three_uniform_grid ROps n).
Proof. exact three_uniform_reaches_sheets. Qed.
Print Assumptions C19_three_uniform_reaches_sheets.

(* no hole in u_1: every u in [0, 1] is within half a step of a node of the u_1 axis *)
Theorem C19_three_uniform_u1_covers : forall n u, (2 <= n)%nat -> 0 <= u <= 1 ->
  exists u1, In u1 (linspace ROps (c0 ROps) (c1 ROps) n true) /\ 0 <= u1 <= 1 /\
             Rabs (u - u1) <= 1 / (2 * INR (n - 1)).
Proof. exact three_uniform_u1_covers. Qed.
Print Assumptions C19_three_uniform_u1_covers.

(* ==================================================== step counts (exact Q) === *)
Theorem C19_num_steps : forall (res : Q) even odd, (0 < res)%Q ->
  (360 <= inject_Z (resolution_to_num_steps res even odd) * res)%Q /\
  Z.even (resolution_to_num_steps res true false) = true /\
  Z.odd (resolution_to_num_steps res false true) = true.
Proof.
  intros. split; [apply num_steps_covers; assumption|]. split; [apply num_steps_even | apply num_steps_odd].
Qed.
Print Assumptions C19_num_steps.

Theorem C19_s2_steps : forall res : Q, (0 < res)%Q ->
  (360 <= inject_Z (fst (uv_steps res)) * res)%Q /\ (180 <= inject_Z (snd (uv_steps res) - 1) * res)%Q /\
  (360 <= inject_Z (fst (equal_area_steps res)) * res)%Q.
Proof.
  intros res H. destruct (uv_steps_cover res H) as [A B]. destruct (equal_area_steps_cover res H) as [C _].
  auto.
Qed.
Print Assumptions C19_s2_steps.

Theorem C19_semi_edge_steps_nearest : forall q : Q,
  (Qabs.Qabs (inject_Z (round_half_even q) - q) <= 1 # 2)%Q.
Proof. exact round_half_even_close. Qed.
Print Assumptions C19_semi_edge_steps_nearest.

(* ================================================== S2 meshes: unit vectors === *)
Theorem C19_polar_meshes_unit : forall na np v,
  (In v (uv_mesh ROps na np) \/ In v (equal_area_mesh ROps na np)) -> n2 v = 1.
Proof. intros na np v [H|H]; [apply (uv_mesh_unit na np v H) | apply (equal_area_mesh_unit na np v H)]. Qed.
Print Assumptions C19_polar_meshes_unit.

Theorem C19_cube_meshes_unit : forall grid_type n v, In v (cube_mesh ROps grid_type n) -> n2 v = 1.
Proof. exact cube_mesh_unit. Qed.
Print Assumptions C19_cube_meshes_unit.

(* FULL clause: every hexagonal / icosahedral mesh point is a unit vector.
   Proved: it is a unit vector unless the raw polyhedron point is the zero vector;
   that no raw point is zero is not proved (checked by the oracle). *)
Theorem C19_polyhedral_meshes_unit_partial : forall edges n m v,
  (In v (hex_mesh ROps n) \/ In v (ico_mesh ROps edges m)) -> n2 v = 1 \/ v = (0, 0, 0).
Proof. intros edges n m v [H|H]; apply (normalised_mesh_unit _ v H). Qed.
Print Assumptions C19_polyhedral_meshes_unit_partial.

(* covering of the uv mesh: every direction (given by spherical coordinates) has a
   mesh point within chord r / sqrt 2, i.e.  1 - <g, v>  <=  (hA^2 + hT^2) / 8  with
   hA = 2 pi / steps_azimuth, hT = pi / (steps_polar - 1), both <= r by C19_s2_steps *)
Theorem C19_uv_mesh_covers : forall (na np : nat) (a t : R),
  (1 <= na)%nat -> (2 <= np)%nat ->
  1 / 100000000 + 1 / 100000 * PI < PI / INR (np - 1) ->
  0 <= a <= 2 * PI -> 0 <= t <= PI ->
  exists g, In g (uv_mesh ROps na np) /\
    1 - vdot ROps g (from_polar1 ROps (a, t))
    <= ((2 * PI / INR na) * (2 * PI / INR na) + (PI / INR (np - 1)) * (PI / INR (np - 1))) / 8.
Proof. exact uv_mesh_covers. Qed.
Print Assumptions C19_uv_mesh_covers.

(* ================================================= reduced fundamental sample == *)
(* for EVERY polar angle and azimuth the rotation from_euler([0, polar, (pi/2 - az) % 2pi])
   maps Z exactly onto the direction with these spherical coordinates *)
Theorem C19_reduced_rotation_polar : forall a t,
  qrot ROps (eu2qu ROps (0, t, Rfmod (PI / 2 - a) (2 * PI))) (0, 0, 1) = from_polar ROps false a t 1.
Proof. exact reduced_rotation_polar. Qed.
Print Assumptions C19_reduced_rotation_polar.

(* exactness on unit directions (outside the snapping band of Vector3d.azimuth, C20) *)
Theorem C19_reduced_maps_z : forall x y z,
  x * x + y * y + z * z = 1 -> C20ProjProofs.nosnap x -> C20ProjProofs.nosnap y ->
  qrot ROps (eu2qu ROps (reduced_euler ROps (x, y, z))) (e3 ROps) = (x, y, z).
Proof. exact reduced_maps_z. Qed.
Print Assumptions C19_reduced_maps_z.

(* every returned rotation comes from a mesh direction inside the sector, is a unit
   quaternion and has phi1 = 0; every mesh direction inside the sector is used *)
Theorem C19_reduced_from_sector : forall normals pts q, In q (reduced_on ROps normals pts) ->
  exists v, In v pts /\ in_sector ROps normals v = true /\
            q = eu2qu ROps (reduced_euler ROps v) /\ qnorm2 ROps q = 1 /\
            fst (fst (reduced_euler ROps v)) = 0.
Proof. exact reduced_from_sector. Qed.
Print Assumptions C19_reduced_from_sector.

Theorem C19_reduced_complete : forall normals pts v, In v pts -> in_sector ROps normals v = true ->
  In (eu2qu ROps (reduced_euler ROps v)) (reduced_on ROps normals pts).
Proof. exact reduced_complete. Qed.
Print Assumptions C19_reduced_complete.

Theorem C19_reduced_exact : forall normals pts q,
  (forall v, In v pts -> n2 v = 1 /\ C20ProjProofs.nosnap (fst (fst v)) /\ C20ProjProofs.nosnap (snd (fst v))) ->
  In q (reduced_on ROps normals pts) ->
  In (qrot ROps q (e3 ROps)) pts /\ in_sector ROps normals (qrot ROps q (e3 ROps)) = true.
Proof. exact reduced_exact. Qed.
Print Assumptions C19_reduced_exact.

Theorem C19_sector_predicate : forall (normals : list (vecT (T:=R))) (v : vecT (T:=R)),
  in_sector ROps normals v = true <-> forall n, In n normals -> - (1 / 1000000000) < vdot ROps n v.
Proof. exact in_sector_spec. Qed.
Print Assumptions C19_sector_predicate.

(* non-vacuity: a unit direction with no component in the snapping band; a
   resolution; a region with one normal and a grid point inside it *)
Example C19_nonvacuous :
  (3/5) * (3/5) + 0 * 0 + (4/5) * (4/5) = 1 /\ C20ProjProofs.nosnap (3/5) /\ C20ProjProofs.nosnap 0 /\
  in_region ROps [(0, 1, 0, 0)] (1, 0, 0, 0) = true /\
  In (1, 0, 0, 0) (sample_fundamental_on ROps (fun t => t) [(0, 1, 0, 0)] [(1, 0, 0, 0)]).
Proof. exact nonvacuous_example. Qed.
