(* C15 -- placeholder, replaced below *)
From Coq Require Import String List.
From Verif Require Import C15Tables C15Common.
Import ListNotations.
Local Open Scope string_scope.
Theorem C15_select_text : select_plugin "ang" false None = Some "ang" /\ select_plugin "ctf" false None = Some "ctf".
Proof. split; reflexivity. Qed.
Print Assumptions C15_select_text.
