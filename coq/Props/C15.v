(* C15 -- Vendor file readers decode every field of the formats they support.
   Property theorems only.  All statements are about the token/dataset-level
   reader models of Model/C15*.v (column tables, footprints, Laue table, alias
   table and group names are REGENERATED from /repo into Gen/C15Tables.v), for
   an arbitrary scalar type T (numbers are carried, never rounded).
   Shape of every codec theorem:  parse_v (render_v f) = expected_map f. *)
From Coq Require Import ZArith List Bool String.
From Verif Require Import Scalar C15Tables C15Common C15Ang C15Ctf C15H5 C15AngP C15CtfP C15CommonP C15H5P.
Import ListNotations.
Local Open Scope string_scope.
Local Open Scope list_scope.

(* ======================================================================= .ang *)
(* header: every "# Phase / MaterialName / Formula / Symmetry / LatticeConstants" field of every
   phase block reaches PhaseList, for any number of phases, free lines and field values *)
Theorem C15_ang_header_fields : forall (T : Type) (f : angfile (T:=T)), wf_names f ->
  phases_from_header (render_hdr f) =
  mkH (hdr_ids_of f) (hdr_names_of f) (map ap_sym (af_phases f)) (map ap_lat (af_phases f)).
Proof. exact @phases_render. Qed.
Print Assumptions C15_ang_header_fields.

Theorem C15_ang_header_ids : forall (T : Type) (f : angfile (T:=T)) (ids : list Z),
  map ap_id (af_phases f) = map Some ids -> af_phases f <> [] -> hdr_ids_of f = ids.
Proof. exact @hdr_ids_all. Qed.
Print Assumptions C15_ang_header_ids.

Theorem C15_ang_header_names_formula : forall (T : Type) (f : angfile (T:=T)) (fs : list string),
  map ap_formula (af_phases f) = map Some fs -> forallb (fun s => negb (String.eqb s "")) fs = true ->
  hdr_names_of f = fs.
Proof. exact @hdr_names_formulas. Qed.
Print Assumptions C15_ang_header_names_formula.

Theorem C15_ang_header_names_material : forall (T : Type) (f : angfile (T:=T)),
  (exists p, In p (af_phases f) /\ ap_formula p = None) ->
  hdr_names_of f = map (fun p => join " " (ap_name p)) (af_phases f).
Proof. exact @hdr_names_material. Qed.
Print Assumptions C15_ang_header_names_material.

(* EDAX TSL, 10 columns: radians, ci == -1 -> phase -1, um, documented names *)
Theorem C15_ang_tsl10 : forall (T : Type) (Op : Ops T) (f : angfile (T:=T)) (p0 : apoint (T:=T)) pts,
  wf_names f -> no_fp "EMsoft" f -> no_fp "ACOM" f -> no_fp "Column names: phi1, Phi, phi2" f ->
  af_pts f = p0 :: pts -> List.length (p_rest p0) = 2%nat ->
  parse_ang Op (render_hdr f) (map (render_pt (T:=T)) (af_pts f)) =
  bind (hdr_phaselist Op f) (fun pl =>
    Ok (crystal_map Op 1 (map p_eu (af_pts f)) (map p_x (af_pts f)) (map p_y (af_pts f)) (map (pid_ci Op) (af_pts f))
          [("iq", pv p_q (af_pts f)); ("ci", pv p_c (af_pts f));
           ("detector_signal", pv (rest_at Op 0) (af_pts f)); ("fit", pv (rest_at Op 1) (af_pts f))]
          "um" pl false)).
Proof. exact @parse_tsl10. Qed.
Print Assumptions C15_ang_tsl10.

Theorem C15_ang_tsl14 : forall (T : Type) (Op : Ops T) (f : angfile (T:=T)) (p0 : apoint (T:=T)) pts,
  wf_names f -> no_fp "EMsoft" f -> no_fp "ACOM" f -> no_fp "Column names: phi1, Phi, phi2" f ->
  af_pts f = p0 :: pts -> List.length (p_rest p0) = 6%nat ->
  parse_ang Op (render_hdr f) (map (render_pt (T:=T)) (af_pts f)) =
  bind (hdr_phaselist Op f) (fun pl =>
    Ok (crystal_map Op 1 (map p_eu (af_pts f)) (map p_x (af_pts f)) (map p_y (af_pts f)) (map (pid_ci Op) (af_pts f))
          [("iq", pv p_q (af_pts f)); ("ci", pv p_c (af_pts f));
           ("detector_signal", pv (rest_at Op 0) (af_pts f)); ("fit", pv (rest_at Op 1) (af_pts f));
           ("unknown1", pv (rest_at Op 2) (af_pts f)); ("unknown2", pv (rest_at Op 3) (af_pts f));
           ("unknown3", pv (rest_at Op 4) (af_pts f)); ("unknown4", pv (rest_at Op 5) (af_pts f))]
          "um" pl false)).
Proof. exact @parse_tsl14. Qed.
Print Assumptions C15_ang_tsl14.

Theorem C15_ang_emsoft : forall (T : Type) (Op : Ops T) (f : angfile (T:=T)) (p0 : apoint (T:=T)) pts,
  af_vendor f = AEmsoft -> wf_names f -> no_fp "ACOM" f -> no_fp "Column names: phi1, Phi, phi2" f ->
  af_pts f = p0 :: pts -> List.length (p_rest p0) = 0%nat ->
  parse_ang Op (render_hdr f) (map (render_pt (T:=T)) (af_pts f)) =
  bind (hdr_phaselist Op f) (fun pl =>
    Ok (crystal_map Op 1 (map p_eu (af_pts f)) (map p_x (af_pts f)) (map p_y (af_pts f)) (map p_pid (af_pts f))
          [("iq", pv p_q (af_pts f)); ("dp", pv p_c (af_pts f))] "um" pl false)).
Proof. exact @parse_emsoft. Qed.
Print Assumptions C15_ang_emsoft.

Theorem C15_ang_astar : forall (T : Type) (Op : Ops T) (f : angfile (T:=T)) (p0 : apoint (T:=T)) pts,
  af_vendor f = AAstar -> wf_names f -> no_fp "Column names: phi1, Phi, phi2" f ->
  af_pts f = p0 :: pts -> List.length (p_rest p0) = 1%nat ->
  parse_ang Op (render_hdr f) (map (render_pt (T:=T)) (af_pts f)) =
  bind (hdr_phaselist Op f) (fun pl =>
    Ok (crystal_map Op 1 (map p_eu (af_pts f)) (map p_x (af_pts f)) (map p_y (af_pts f)) (map p_pid (af_pts f))
          [("ind", pv p_q (af_pts f)); ("rel", pv p_c (af_pts f)); ("relx100", pv (rest_at Op 0) (af_pts f))]
          "nm" pl false)).
Proof. exact @parse_astar. Qed.
Print Assumptions C15_ang_astar.

(* FULL clause for orix-written files: parse (render f) = expected incl. the extra property columns.
   Proved: vendor detection and the column names (standard ten + the header's extra names with
   spaces replaced by underscores), for any list of extra names; the assignment of the data columns
   to a name list of symbolic length is left to the correspondence. *)
Theorem C15_ang_orix_columns_partial : forall (T : Type) (f : angfile (T:=T)) (ncols : nat),
  af_vendor f = AOrix ->
  find (has_fp "Column names: phi1, Phi, phi2")
       (map ALInfo (af_pre f) ++ flat_map render_phase (af_phases f) ++ map ALInfo (af_post f)) = None ->
  ang_columns (render_hdr f) ncols =
    ("orix", ["euler1"; "euler2"; "euler3"; "x"; "y"; "iq"; "ci"; "phase_id"; "detector_signal"; "fit"]
             ++ map spaces2underscore (af_extra f), false).
Proof. intros T f n Hv Hc. apply columns_orix. apply vendor_orix; assumption. Qed.
Print Assumptions C15_ang_orix_columns_partial.

(* the unexpected-column-count clause: EVERY other width gives generic names and the warning *)
Theorem C15_ang_unexpected_columns : forall (T : Type) (hdr : list (angline (T:=T))) (v : string)
    (fl : option angline) (ncols : nat),
  ang_vendor hdr = (v, fl) -> String.eqb v "orix" = false ->
  existsb (Nat.eqb ncols) (map (@List.length string) (variants_of v)) = false ->
  ang_columns hdr ncols = ("unknown", generic_names ncols, true).
Proof. intros T hdr v fl n Hv Ho He. rewrite (columns_of_vendor hdr v fl n Hv Ho), He. reflexivity. Qed.
Print Assumptions C15_ang_unexpected_columns.

Theorem C15_ang_unexpected_columns_tsl : forall (T : Type) (f : angfile (T:=T)) (n : nat),
  no_fp "EMsoft" f -> no_fp "ACOM" f -> no_fp "Column names: phi1, Phi, phi2" f ->
  n <> 10%nat -> n <> 14%nat ->
  ang_columns (render_hdr f) n = ("unknown", generic_names n, true).
Proof. exact @columns_unexpected_tsl. Qed.
Print Assumptions C15_ang_unexpected_columns_tsl.

Theorem C15_ang_unexpected_columns_emsoft : forall (T : Type) (f : angfile (T:=T)) (n : nat),
  af_vendor f = AEmsoft -> no_fp "ACOM" f -> no_fp "Column names: phi1, Phi, phi2" f -> n <> 8%nat ->
  ang_columns (render_hdr f) n = ("unknown", generic_names n, true).
Proof. exact @columns_unexpected_emsoft. Qed.
Print Assumptions C15_ang_unexpected_columns_emsoft.

Theorem C15_ang_unexpected_columns_astar : forall (T : Type) (f : angfile (T:=T)) (n : nat),
  af_vendor f = AAstar -> no_fp "Column names: phi1, Phi, phi2" f -> n <> 9%nat ->
  ang_columns (render_hdr f) n = ("unknown", generic_names n, true).
Proof. exact @columns_unexpected_astar. Qed.
Print Assumptions C15_ang_unexpected_columns_astar.

Example C15_ang_generic_names_nonvacuous :
  generic_names 8 = ["euler1"; "euler2"; "euler3"; "x"; "y"; "unknown1"; "unknown2"; "phase_id"] /\
  generic_names 11 = ["euler1"; "euler2"; "euler3"; "x"; "y"; "unknown1"; "unknown2"; "phase_id";
                      "unknown3"; "unknown4"; "unknown5"].
Proof. exact generic_names_10_12. Qed.

(* symmetry codes: every EDAX TSL code, the dihexagonal 62 included *)
Theorem C15_ang_symmetry_codes :
  map resolve_pg ["43"; "23"; "62"; "6"; "32"; "3"; "42"; "4"; "22"; "2"; "20"; "1"; "m3m"] =
  map Some ["432"; "23"; "622"; "6"; "32"; "3"; "422"; "4"; "222"; "2/m"; "121"; "1"; "m-3m"].
Proof. exact tsl_codes_resolve. Qed.
Print Assumptions C15_ang_symmetry_codes.

Example C15_ang_symmetry62_nonvacuous : forall (T : Type) (Op : Ops T),
  exists m, parse_ang Op (render_hdr (ang_wit Op AAstar "62" [z0 Op]))
                      (map (render_pt (T:=T)) (af_pts (ang_wit Op AAstar "62" [z0 Op]))) = Ok m
            /\ map (fun kp => (fst kp, ph_pg (snd kp))) (xm_phases m) = [(1%Z, Some "622")].
Proof. exact @ang_sym62_loads. Qed.

Example C15_ang_symmetry43_nonvacuous : forall (T : Type) (Op : Ops T),
  exists m, parse_ang Op (render_hdr (ang_wit Op AAstar "43" [z0 Op]))
                      (map (render_pt (T:=T)) (af_pts (ang_wit Op AAstar "43" [z0 Op]))) = Ok m
            /\ xm_unit m = "nm" /\ xm_warn m = false
            /\ map (fun kp => (fst kp, ph_pg (snd kp))) (xm_phases m) = [(1%Z, Some "432")].
Proof. exact @ang_sym43_loads. Qed.

(* an ASTAR file with an unexpected width loses its scan unit (nm -> um) *)
Theorem C15_ang_astar_unit_generic_refuted : forall (T : Type) (Op : Ops T),
  exists (f : angfile (T:=T)) m, af_vendor f = AAstar /\
    parse_ang Op (render_hdr f) (map (render_pt (T:=T)) (af_pts f)) = Ok m /\
    xm_unit m = "um" /\ xm_warn m = true.
Proof.
  intros T Op. destruct (ang_astar_generic_unit Op) as [m [H1 [H2 [H3 _]]]].
  exists (ang_wit Op AAstar "43" [z0 Op; z0 Op]), m. repeat split; assumption.
Qed.
Print Assumptions C15_ang_astar_unit_generic_refuted.

(* ======================================================================= .ctf *)
Theorem C15_ctf_header : forall (T : Type) (f : ctffile (T:=T)), take_header (render_chdr f) = chdr_body f.
Proof. exact @header_of_render. Qed.
Print Assumptions C15_ctf_header.

Theorem C15_ctf_phases : forall (T : Type) (f : ctffile (T:=T)) (pgs : list (option string)),
  wf_misc f -> map laue_pg (cf_phases f) = map Some pgs ->
  ctf_phases (chdr_body f) =
  Ok (mkCH (map cp_name (cf_phases f)) pgs (map sg_opt (cf_phases f)) (map cp_lat (cf_phases f))).
Proof. exact @ctf_phases_render. Qed.
Print Assumptions C15_ctf_phases.

(* Oxford / Bruker / MTEX: degrees, phase 0 -> -1, um, names, columns after BS ignored *)
Theorem C15_ctf_oxford_bruker_mtex : forall (T : Type) (Op : Ops T) (f : ctffile (T:=T)) (p0 : cpoint (T:=T)) pts
    (pgs : list (option string)),
  wf_misc f -> map laue_pg (cf_phases f) = map Some pgs -> cf_pts f = p0 :: pts ->
  String.eqb (ctf_vendor (chdr_body f)) "emsoft" = false ->
  String.eqb (ctf_vendor (chdr_body f)) "astar" = false ->
  parse_ctf Op (render_chdr f) (map (render_cpt (T:=T)) (cf_pts f)) =
  bind (ctf_phaselist Op f pgs) (fun pl =>
    Ok (crystal_map Op 1 (map (eu_deg2rad Op) (map c_eu (cf_pts f))) (map c_x (cf_pts f)) (map c_y (cf_pts f))
          (map cpid (cf_pts f))
          [("bands", cv c_bands (cf_pts f)); ("error", cv c_err (cf_pts f)); ("MAD", cv c_mad (cf_pts f));
           ("BC", cv c_bc (cf_pts f)); ("BS", cv c_bs (cf_pts f))] "um" pl false)).
Proof. exact @parse_ctf_plain. Qed.
Print Assumptions C15_ctf_oxford_bruker_mtex.

Theorem C15_ctf_emsoft : forall (T : Type) (Op : Ops T) (f : ctffile (T:=T)) (p0 : cpoint (T:=T)) pts
    (pgs : list (option string)),
  wf_misc f -> map laue_pg (cf_phases f) = map Some pgs -> cf_pts f = p0 :: pts ->
  ctf_vendor (chdr_body f) = "emsoft" ->
  parse_ctf Op (render_chdr f) (map (render_cpt (T:=T)) (cf_pts f)) =
  bind (ctf_phaselist Op f pgs) (fun pl =>
    Ok (crystal_map Op 1 (map (eu_deg2rad Op) (map c_eu (cf_pts f))) (map c_x (cf_pts f)) (map c_y (cf_pts f))
          (map cpid (cf_pts f))
          [("bands", cv c_bands (cf_pts f)); ("error", cv c_err (cf_pts f)); ("DP", cv c_mad (cf_pts f));
           ("OSM", cv c_bc (cf_pts f)); ("IQ", cv c_bs (cf_pts f))] "um" pl false)).
Proof. exact @parse_ctf_emsoft. Qed.
Print Assumptions C15_ctf_emsoft.

(* ASTAR: every field as for Oxford; the coordinates are those of the header grid
   (c * XStep, r * YStep, row-major, for YCells x XCells points) for ANY grid -- single rows and
   single columns included -- and whatever the four-decimal coordinate columns contain *)
Theorem C15_ctf_astar : forall (T : Type) (Op : Ops T) (f : ctffile (T:=T)) (p0 : cpoint (T:=T)) pts
    (pgs : list (option string)),
  wf_misc f -> map laue_pg (cf_phases f) = map Some pgs -> cf_pts f = p0 :: pts ->
  ctf_vendor (chdr_body f) = "astar" ->
  parse_ctf Op (render_chdr f) (map (render_cpt (T:=T)) (cf_pts f)) =
  bind (ctf_phaselist Op f pgs) (fun pl =>
    Ok (crystal_map Op 1 (map (eu_deg2rad Op) (map c_eu (cf_pts f)))
          (fst (grid_coords Op (cf_nrows f) (cf_ncols f) (cf_dx f) (cf_dy f)))
          (snd (grid_coords Op (cf_nrows f) (cf_ncols f) (cf_dx f) (cf_dy f)))
          (map cpid (cf_pts f))
          [("bands", cv c_bands (cf_pts f)); ("error", cv c_err (cf_pts f)); ("MAD", cv c_mad (cf_pts f));
           ("BC", cv c_bc (cf_pts f)); ("BS", cv c_bs (cf_pts f))] "um" pl false)).
Proof. exact @parse_ctf_astar. Qed.
Print Assumptions C15_ctf_astar.

Example C15_ctf_astar_line_nonvacuous : forall (T : Type) (Op : Ops T),
  exists m, parse_ctf Op (render_chdr (ctf_wit Op CAstar 11 225 1 2 [cpt0 Op (z0 Op) (z0 Op); cpt0 Op (z0 Op) (z0 Op)]))
               (map (render_cpt (T:=T)) [cpt0 Op (z0 Op) (z0 Op); cpt0 Op (z0 Op) (z0 Op)]) = Ok m
            /\ xm_x m = [o_mul Op (o_ofZ Op 0) (o_ofZ Op 1); o_mul Op (o_ofZ Op 1) (o_ofZ Op 1)]
            /\ xm_y m = [o_mul Op (o_ofZ Op 0) (o_ofZ Op 1); o_mul Op (o_ofZ Op 0) (o_ofZ Op 1)]
            /\ xm_pid m = [1%Z; 1%Z].
Proof. exact @ctf_astar_line_loads. Qed.

(* Laue classes and space groups *)
Theorem C15_ctf_laue_classes :
  forallb (fun k => match py_index ctf_laue_ids (k - 1) with
                    | Some l => match resolve_pg l with Some v => String.eqb v l | None => false end
                    | None => false end)
          [1; 2; 3; 4; 5; 6; 7; 8; 9; 10; 11]%Z = true.
Proof. exact laue_classes_resolve. Qed.
Print Assumptions C15_ctf_laue_classes.

Example C15_ctf_laue10_nonvacuous : forall (T : Type) (Op : Ops T),
  exists m, parse_ctf Op (render_chdr (ctf_wit Op COxford 10 205 1 2 [cpt0 Op (z0 Op) (z0 Op); cpt0 Op (o_ofZ Op 1) (z0 Op)]))
               (map (render_cpt (T:=T)) [cpt0 Op (z0 Op) (z0 Op); cpt0 Op (o_ofZ Op 1) (z0 Op)]) = Ok m
            /\ map (fun kp => (fst kp, ph_sg (snd kp), ph_pg (snd kp))) (xm_phases m) = [(1%Z, Some 205%Z, Some "m-3")].
Proof. exact @ctf_laue10_loads. Qed.

Example C15_ctf_laue10_without_spacegroup_nonvacuous : forall (T : Type) (Op : Ops T),
  exists m, parse_ctf Op (render_chdr (ctf_wit Op COxford 10 0 1 2 [cpt0 Op (z0 Op) (z0 Op); cpt0 Op (o_ofZ Op 1) (z0 Op)]))
               (map (render_cpt (T:=T)) [cpt0 Op (z0 Op) (z0 Op); cpt0 Op (o_ofZ Op 1) (z0 Op)]) = Ok m
            /\ map (fun kp => (fst kp, ph_sg (snd kp), ph_pg (snd kp))) (xm_phases m) = [(1%Z, None, Some "m-3")].
Proof. exact @ctf_laue10_nosg_loads. Qed.

Example C15_ctf_laue11_nonvacuous : forall (T : Type) (Op : Ops T),
  exists m, parse_ctf Op (render_chdr (ctf_wit Op COxford 11 225 1 2 [cpt0 Op (z0 Op) (z0 Op); cpt0 Op (o_ofZ Op 1) (z0 Op)]))
               (map (render_cpt (T:=T)) [cpt0 Op (z0 Op) (z0 Op); cpt0 Op (o_ofZ Op 1) (z0 Op)]) = Ok m
            /\ map (fun kp => (fst kp, ph_sg (snd kp), ph_pg (snd kp))) (xm_phases m) = [(1%Z, Some 225%Z, Some "m-3m")].
Proof. exact @ctf_laue11_loads. Qed.

(* EVERY valid space group of the header is kept and determines the point group -- centrosymmetric
   or not, and whatever the Laue class field says: the reader hands Phase() the space group alone *)
Theorem C15_ctf_spacegroup_kept : forall (T : Type) (name : string) (laue n : Z) (lat : list T),
  sg_valid n = true ->
  ctf_point_group laue n = Some None /\
  mk_phase name (Some n) None lat = Ok (mkPhase name (Some n) (Some (sg_pg n)) lat).
Proof. exact @phase_ctf_sg. Qed.
Print Assumptions C15_ctf_spacegroup_kept.

(* no space group in the header (0): the point group is the Laue class *)
Theorem C15_ctf_laue_without_spacegroup : forall (T : Type) (name l : string) (laue : Z) (lat : list T),
  py_index ctf_laue_ids (laue - 1) = Some l -> resolve_pg l = Some l ->
  ctf_point_group laue 0 = Some (Some l) /\
  mk_phase name None (Some l) lat = Ok (mkPhase name None (Some l) lat).
Proof. exact @phase_ctf_laue_nosg. Qed.
Print Assumptions C15_ctf_laue_without_spacegroup.

Example C15_ctf_spacegroup_noncentro_nonvacuous : forall (T : Type) (Op : Ops T),
  exists m, parse_ctf Op (render_chdr (ctf_wit Op COxford 11 216 1 2 [cpt0 Op (z0 Op) (z0 Op); cpt0 Op (o_ofZ Op 1) (z0 Op)]))
               (map (render_cpt (T:=T)) [cpt0 Op (z0 Op) (z0 Op); cpt0 Op (o_ofZ Op 1) (z0 Op)]) = Ok m
            /\ map (fun kp => (fst kp, ph_sg (snd kp), ph_pg (snd kp))) (xm_phases m) = [(1%Z, Some 216%Z, Some "-43m")].
Proof. exact @ctf_sg216_kept. Qed.

(* ============================================================ phases in the map *)
Theorem C15_phase_from_code : forall (T : Type) (name s v : string) (lat : list T),
  resolve_pg s = Some v -> mk_phase name None (Some s) lat = Ok (mkPhase name None (Some v) lat).
Proof. exact @phase_of_code. Qed.
Print Assumptions C15_phase_from_code.

Theorem C15_phase_bruker : forall (T : Type) (name : string) (n : Z) (lat : list T),
  sg_valid n = true -> mk_phase name (Some n) None lat = Ok (mkPhase name (Some n) (Some (sg_pg n)) lat).
Proof. exact @phase_bruker. Qed.
Print Assumptions C15_phase_bruker.

(* FULL clause: the map's phases are the header phases USED by the data (plus not_indexed).
   Proved when the data use every header phase (with and without not-indexed points); the
   removal loop for unused phases is covered by the correspondence. *)
Theorem C15_phases_all_used_partial : forall (T : Type) (Op : Ops T) (pl : list (Z * phase (T:=T))) (pids : list Z),
  zunique pids = map fst pl -> (forall k, In k (map fst pl) -> k <> (-1)%Z) -> reconcile Op pl pids = pl.
Proof. exact @reconcile_all_used. Qed.
Print Assumptions C15_phases_all_used_partial.

Theorem C15_phases_all_used_not_indexed_partial : forall (T : Type) (Op : Ops T) (pl : list (Z * phase (T:=T)))
    (pids : list Z),
  zunique pids = (-1)%Z :: map fst pl -> (forall k, In k (map fst pl) -> (-1 < k)%Z) ->
  reconcile Op pl pids = (-1, not_indexed_phase Op)%Z :: pl.
Proof. exact @reconcile_all_used_ni. Qed.
Print Assumptions C15_phases_all_used_not_indexed_partial.

(* ==================================================================== h5ebsd *)
(* Bruker: for EVERY dataset record the map's y, x and phase ids are Y SAMPLE, X SAMPLE (minus their
   minimum) and Phase (0 -> -1) put into map order by one and the same permutation (x then reversed) *)
Theorem C15_bruker_same_order : forall (T : Type) (Op : Ops T) (t : btok (T:=T)) (m : xmap (T:=T)),
  parse_bruker Op t = Ok m ->
  exists props, bruker_props bruker_properties (bt_data t) = Ok props /\
    xm_y m = reorder (o_ofZ Op 0) (bruker_order t)
               (sub_min Op (match aget "YSAMPLE" props with Some v => v | None => [] end)) /\
    xm_x m = rev (reorder (o_ofZ Op 0) (bruker_order t)
               (sub_min Op (match aget "XSAMPLE" props with Some v => v | None => [] end))) /\
    xm_pid m = reorder 0%Z (bruker_order t) (map (fun p => if (p =? 0)%Z then (-1)%Z else p) (bt_phase t)).
Proof. exact @bruker_same_order. Qed.
Print Assumptions C15_bruker_same_order.

(* rows stored in reverse: phase ids AND y come back in grid order *)
Theorem C15_bruker_rows : forall (T : Type) (Op : Ops T) (dy y0 : T),
  exists m, parse_bruker Op (render_bruker Op (bruker_wit Op dy y0)) = Ok m /\
    xm_pid m = [1%Z; 2%Z] /\
    xm_y m = rev (sub_min Op [o_add Op y0 (o_mul Op (o_ofZ Op 1) dy); o_add Op y0 (o_mul Op (o_ofZ Op 0) dy)]).
Proof. exact @bruker_rows_witness. Qed.
Print Assumptions C15_bruker_rows.

Example C15_bruker_in_order_nonvacuous : forall (T : Type) (Op : Ops T) (dy y0 : T),
  exists m, parse_bruker Op (render_bruker Op
       (mkBF 2 1 (o_ofZ Op 1) dy (zz Op) y0 true 0%Z 0%Z [0%nat; 1%nat] (bf_phases (bruker_wit Op dy y0))
             (bf_pts (bruker_wit Op dy y0)))) = Ok m /\
    xm_pid m = [1%Z; 2%Z] /\
    xm_y m = sub_min Op [o_add Op y0 (o_mul Op (o_ofZ Op 0) dy); o_add Op y0 (o_mul Op (o_ofZ Op 1) dy)] /\
    map (fun kp => (fst kp, ph_sg (snd kp), ph_pg (snd kp))) (xm_phases m) =
      [(1%Z, Some 225%Z, Some "m-3m"); (2%Z, Some 229%Z, Some "m-3m")].
Proof. exact @bruker_in_order_witness. Qed.

(* EMsoft: 1-based top-match index k selects dictionary row k-1 (degrees -> radians) *)
Theorem C15_emsoft_topmatch_lookup : forall (T : Type) (Op : Ops T) (dict : list (T * T * T)) (k : Z),
  (1 <= k <= Z.of_nat (List.length dict))%Z ->
  py_index (map (eu_deg2rad Op) dict) (k - 1) = option_map (eu_deg2rad Op) (nth_error dict (Z.to_nat (k - 1))).
Proof. exact @emsoft_lookup. Qed.
Print Assumptions C15_emsoft_topmatch_lookup.

(* reader selection *)
Theorem C15_reader_selection :
  select_plugin "ang" false None = Some "ang" /\ select_plugin "ctf" false None = Some "ctf" /\
  (forall ext, In ext ["h5"; "hdf5"; "h5ebsd"] ->
     select_plugin ext true (Some "Bruker Nano") = Some "bruker_h5ebsd" /\
     select_plugin ext true (Some "EMEBSDDictionaryIndexing.f90") = Some "emsoft_h5ebsd").
Proof.
  split; [reflexivity|]. split; [reflexivity|]. intros ext H. simpl in H.
  destruct H as [<-|[<-|[<-|[]]]]; split; vm_compute; reflexivity.
Qed.
Print Assumptions C15_reader_selection.
