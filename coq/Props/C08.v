(* C08 -- Inverse pole figure colours respect crystal symmetry.
   Property theorems only; proofs are in Proofs/C08ColorP.v, C08GeomP.v,
   C08ProjP.v, C08ShapeP.v, C08WitnessP.v.  The colour kernels hsl_to_hsv,
   rgb_from_polar_coordinates and the lightness formula of direction2color are
   GENERATED from /repo (Gen/C08Color.v); in_fundamental_sector,
   polar_coordinates_in_sector, _calculate_azimuth, _correct_azimuth and
   matplotlib's hsv_to_rgb are the hand model Model/C08Model.v (compared with
   the implementation on every run).  All statements are over the reals. *)
From Coq Require Import Reals ZArith List Bool.
From Verif Require Import Scalar RInst NdIndex C08Color Quat QuatAlg C08Model
  C08ColorP C08GeomP C08ProjP C08ShapeP C08WitnessP C08BoundaryP.
Import ListNotations.
Local Open Scope R_scope.

(* ---- range: a finite RGB triplet in [0,1] -------------------------------- *)

(* reference hsv_to_rgb maps [0,1]^3 into [0,1]^3 (all six sextants, h = 1, s = 0) *)
Theorem C08_hsv_to_rgb_range : forall h s v, in01 h -> in01 s -> in01 v ->
  rgb01 (hsv_to_rgb ROps h s v).
Proof. exact hsv_to_rgb_range. Qed.
Print Assumptions C08_hsv_to_rgb_range.

(* translated hsl_to_hsv keeps the hue and maps [0,1]^2 into [0,1]^2 (incl. the 0/0 case) *)
Theorem C08_hsl_to_hsv_range : forall h s l, in01 s -> in01 l ->
  let '(h', s', v') := hsl_to_hsv ROps h s l in h' = h /\ in01 s' /\ in01 v'.
Proof. exact hsl_to_hsv_range. Qed.
Print Assumptions C08_hsl_to_hsv_range.

(* rgb_from_polar_coordinates: EVERY real azimuth, lightness in [0,1] *)
Theorem C08_rgb_from_polar_range : forall az l, in01 l -> rgb01 (rgb_from_polar ROps az l).
Proof. exact rgb_from_polar_range. Qed.
Print Assumptions C08_rgb_from_polar_range.

(* the polar coordinate is never negative, for any vector, sector and rounding *)
Theorem C08_polar_nonneg : forall (rd : Rnd (T:=R)) sec v, 0 <= polar_of ROps rd sec v.
Proof. exact polar_of_nonneg. Qed.
Print Assumptions C08_polar_nonneg.

(* ... and at most 1 for every unit direction of the closed sector (and of its
   tolerance band: n.v + n.c >= 0), for every monotone rounding fixing -1 and 1 *)
Theorem C08_polar_range : forall (rd : Rnd (T:=R)),
  (forall x y, x <= y -> r10 rd x <= r10 rd y) -> r10 rd 1 = 1 -> r10 rd (-1) = -1 ->
  forall sec v, s_center sec <> (0, 0, 0) -> dot v v = 1 ->
  (forall n, In n (s_normals sec) -> 0 <= dot n v + dot n (vunit ROps (s_center sec))) ->
  0 <= polar_of ROps rd sec v <= 1.
Proof. exact polar_of_range. Qed.
Print Assumptions C08_polar_range.

(* colour of every non-zero direction of the sector is an RGB triplet in [0,1],
   for every azimuth-correction table *)
Theorem C08_color_range : forall (rd : Rnd (T:=R)),
  (forall x y, x <= y -> r10 rd x <= r10 rd y) -> r10 rd 1 = 1 -> r10 rd (-1) = -1 ->
  forall sec tbl h, s_center sec <> (0, 0, 0) -> h <> (0, 0, 0) ->
  (forall n, In n (s_normals sec) ->
     0 <= dot n (vunit ROps h) + dot n (vunit ROps (s_center sec))) ->
  rgb01 (color_in_sector ROps rd sec tbl h).
Proof. exact color_in_sector_range. Qed.
Print Assumptions C08_color_range.
(* FULL clause "finite RGB in [0,1] for all directions": additionally needs that
   in_fundamental_sector lands in the closed sector (C07(b)); where it does not
   (m-3: known finding of C07) the oracle checks the range on the implementation. *)

(* ---- shape --------------------------------------------------------------- *)
Theorem C08_shape : forall (f : vec3 (T:=R) -> vec3 (T:=R)) (shape idx : list nat) vs (k : nat) d,
  length vs = size shape -> valid shape idx -> (k < 3)%nat ->
  length (flat3 (map f vs)) = size (color_shape shape) /\
  nth (ravel (color_shape shape) (idx ++ [k])) (flat3 (map f vs)) d
  = comp k (f (nth (ravel shape idx) vs (d, d, d))).
Proof. exact color_array_layout. Qed.
Print Assumptions C08_shape.

(* ---- colour depends only on the position in the sector --------------------- *)
Theorem C08_color_function_of_projection : forall (rd : Rnd (T:=R)) G sec m3 tbl v w,
  project ROps rd m3 G sec v = project ROps rd m3 G sec w ->
  direction2color ROps rd m3 G sec tbl v = direction2color ROps rd m3 G sec tbl w.
Proof. exact color_function_of_projection. Qed.
Print Assumptions C08_color_function_of_projection.

Theorem C08_orientation_is_direction : forall (rd : Rnd (T:=R)) G sec tbl m3 d o,
  orientation2color ROps rd m3 G sec tbl d o = direction2color ROps rd m3 G sec tbl (ract ROps o d).
Proof. exact orientation2color_is_direction. Qed.
Print Assumptions C08_orientation_is_direction.

(* closed form: hue from the azimuth, saturation 1 - polar, value 1 *)
Theorem C08_color_closed_form : forall az p, 0 <= p <= 1 ->
  color_of_polar ROps az p = hsv_to_rgb ROps (Rfmod (az / (2 * PI)) 1) (1 - p) 1.
Proof. exact color_of_polar_closed. Qed.
Print Assumptions C08_color_closed_form.

(* HSL lightness of the colour is 1/2 + polar/2: strictly lighter towards the centre *)
Theorem C08_lightness : forall az p, 0 <= p <= 1 ->
  lightness_rgb ROps (color_of_polar ROps az p) = 1 / 2 + p / 2.
Proof. exact color_of_polar_lightness. Qed.
Print Assumptions C08_lightness.

(* the sector centre has polar coordinate 1 ... *)
Theorem C08_center_polar_one : forall (rd : Rnd (T:=R)) sec,
  forallb (fun n => o_eqb ROps (vdot ROps n (vunit ROps (s_center sec))) (o_ofZ ROps 0)) (s_normals sec) = false ->
  polar_of ROps rd sec (vunit ROps (s_center sec)) = 1.
Proof. exact polar_of_center. Qed.
Print Assumptions C08_center_polar_one.

(* ... polar coordinate 1 is white, and ONLY polar coordinate 1 is white: the
   centre is the lightest point of the key *)
Theorem C08_center_white : forall az, color_of_polar ROps az 1 = (1, 1, 1).
Proof. exact color_of_polar_white. Qed.
Print Assumptions C08_center_white.

Theorem C08_white_only_at_center : forall az p, 0 <= p <= 1 ->
  color_of_polar ROps az p = (1, 1, 1) -> p = 1.
Proof. exact color_white_only_at_one. Qed.
Print Assumptions C08_white_only_at_center.

Theorem C08_lighter_towards_centre : forall az1 az2 p q, 0 <= p <= 1 -> 0 <= q <= 1 -> p < q ->
  lightness_rgb ROps (color_of_polar ROps az1 p) < lightness_rgb ROps (color_of_polar ROps az2 q).
Proof. exact color_lighter_towards_centre. Qed.
Print Assumptions C08_lighter_towards_centre.

(* the sector boundary (polar 0) is fully saturated, and with the IDEAL azimuth
   correction (vertex azimuths 0, 2pi/3, 4pi/3) the three corners are pure
   red, green, blue *)
Theorem C08_boundary_saturated : forall az,
  let '(r, g, b) := color_of_polar ROps az 0 in Rmax (Rmax r g) b = 1 /\ Rmin (Rmin r g) b = 0.
Proof. exact color_boundary_saturated. Qed.
Print Assumptions C08_boundary_saturated.

(* a unit direction on a bounding plane of the sector has polar coordinate 0
   (exact arithmetic), so EVERY boundary direction -- the corners included --
   is fully saturated, for every azimuth-correction table *)
Theorem C08_boundary_polar_zero : forall sec (v n : vec3 (T:=R)),
  s_center sec <> (0, 0, 0) -> dot v v = 1 -> In n (s_normals sec) ->
  dot n v = 0 -> 0 < dot n (vunit ROps (s_center sec)) ->
  polar_of ROps rd_id sec v = 0.
Proof. exact polar_of_boundary. Qed.
Print Assumptions C08_boundary_polar_zero.

Theorem C08_boundary_direction_saturated : forall sec tbl (v n : vec3 (T:=R)),
  s_center sec <> (0, 0, 0) -> dot v v = 1 -> In n (s_normals sec) ->
  dot n v = 0 -> 0 < dot n (vunit ROps (s_center sec)) ->
  let '(r, g, b) := color_of_polar ROps (azimuth_of ROps sec tbl v) (polar_of ROps rd_id sec v) in
  Rmax (Rmax r g) b = 1 /\ Rmin (Rmin r g) b = 0.
Proof. exact color_on_boundary_saturated. Qed.
Print Assumptions C08_boundary_direction_saturated.

Theorem C08_corners_ideal_partial :
  color_of_polar ROps 0 0 = (1, 0, 0) /\ color_of_polar ROps (2 * PI / 3) 0 = (0, 1, 0)
  /\ color_of_polar ROps (4 * PI / 3) 0 = (0, 0, 1).
Proof. exact (conj color_corner_red (conj color_corner_green color_corner_blue)). Qed.
Print Assumptions C08_corners_ideal_partial.
(* FULL clause: direction2color [001],[101],[111] = red, green, blue for the m-3m
   key.  Missing: that _correct_azimuth
   maps the vertex azimuths to 0, 2pi/3, 4pi/3 -- the code's 1000-point table
   does so only to 2e-2 per channel (checked by the oracle at the exact corners;
   the table itself is compared with the model's table on every run). *)

(* ---- invariance under the Laue group -------------------------------------- *)

(* the fold "rotate back from the nearest rotated centre" is invariant under
   every unit s under which the list G is closed, wherever the nearest centre
   is unique -- for ANY list, centre and rounding *)
Theorem C08_fold_invariant : forall (rd : Rnd (T:=R)) G sec,
  (forall g, In g G -> unitr g) -> G <> [] ->
  forall s v, unitr s -> closed_under G s -> unique_best rd G sec v ->
  project0 ROps rd G sec (ract ROps s v) = project0 ROps rd G sec v.
Proof. exact project0_invariant. Qed.
Print Assumptions C08_fold_invariant.

(* colours of equivalent directions coincide -- conditional on the C07 fact
   [sector_fixed] (the fold does not move directions of the sector) *)
Theorem C08_direction_invariance_partial : forall (rd : Rnd (T:=R)) G sec,
  (forall g, In g G -> unitr g) -> G <> [] -> s_normals sec <> [] ->
  forall tbl s v, sector_fixed rd G sec -> unitr s -> closed_under G s -> unique_best rd G sec v ->
  direction2color ROps rd false G sec tbl (ract ROps s v) = direction2color ROps rd false G sec tbl v.
Proof. exact direction2color_invariant. Qed.
Print Assumptions C08_direction_invariance_partial.

(* the same for orientations: s*o and o get one colour (left multiplication) *)
Theorem C08_orientation_invariance_partial : forall (rd : Rnd (T:=R)) G sec,
  (forall g, In g G -> unitr g) -> G <> [] -> s_normals sec <> [] ->
  forall tbl s o d, sector_fixed rd G sec -> unitr s -> unitr o -> closed_under G s ->
  unique_best rd G sec (ract ROps o d) ->
  orientation2color ROps rd false G sec tbl d (rmul ROps s o)
  = orientation2color ROps rd false G sec tbl d o.
Proof. exact orientation2color_invariant. Qed.
Print Assumptions C08_orientation_invariance_partial.
(* FULL clause: identical colours for all Laue-equivalent directions, for the
   Laue group of every named point group.  Missing: [sector_fixed] per group
   (C07), and the Laue group named "-3" (which goes through the special branch
   of in_fundamental_sector, modelled and correspondence-checked, not proved). *)

(* the clause FAILS on the faithful model for the Laue group that Symmetry.laue
   builds for point group 211 (x-axis setting) with the sector selected by its
   name "2/m" (z-axis setting): a direction of the sector and its mirror image
   are both kept -- for every rounding.  Replayed on the implementation by the
   oracle (known finding invariance:*:211:*; same for m11 and 312). *)
Theorem C08_invariance_211_refuted : forall rd : Rnd (T:=R),
  exists s v, In s laue_211 /\ unitr s /\
    project ROps rd false laue_211 sector_2m (ract ROps s v)
    <> project ROps rd false laue_211 sector_2m v.
Proof. exact invariance_211_refuted. Qed.
Print Assumptions C08_invariance_211_refuted.

(* non-vacuity: the hypotheses of the invariance theorem are met by the Laue
   group -1 with a non-trivial element and a direction it moves *)
Example C08_invariance_nonvacuous :
  let s : rot (T:=R) := ((1, 0, 0, 0), true) in
  let v : vec3 (T:=R) := (1 / 5, 2 / 5, 4 / 5) in
  (forall g, In g laue_m1 -> unitr g) /\ laue_m1 <> [] /\ unitr s /\
  closed_under laue_m1 s /\ unique_best rd_exact laue_m1 sector_m1 v /\
  ract ROps s v <> v.
Proof. exact invariance_nonvacuous. Qed.

Example C08_range_nonvacuous : in01 (1 / 3) /\ in01 (3 / 4) /\ rgb01 (hsv_to_rgb ROps (1 / 3) (3 / 4) 1).
Proof. exact range_nonvacuous. Qed.
