(* C17 -- unique() returns a duplicate-free cover with valid index maps.
   Property theorems only; proofs are in Proofs/C17UniqueSpec.v (lists),
   Proofs/C17Diff.v (reals), Proofs/C17Witness.v (vm_compute witnesses).

   The models (Model/C17Unique.v) are generic in the comparison [cmp] of keys
   and in the rounding function; every theorem below is for ALL input lists,
   EVERY total order on keys ([cmp_order]) and EVERY rounding / zero-test /
   key function, so in particular for np.round to 10 / 12 decimals whatever
   its behaviour at the rounding thresholds is.  "Documented equality" of two
   elements = equality of their keys ([keq cmp (key x) (key y) = true]);
   on rows of reals that is literal equality of the rounded rows
   (C17_key_equality_R). *)
From Coq Require Import Reals List Bool Arith ZArith Sorted Permutation.
From Verif Require Import Scalar RInst Quat C17Differentiators C17Unique C17UniqueSpec C17Diff C17Witness.
Import ListNotations.

(* ================= numpy.unique(axis=0, return_index, return_inverse) ===== *)
(* sorted, pairwise distinct rows *)
Theorem C17_npunique_sorted_distinct :
  forall K (cmp : K -> K -> comparison), cmp_order cmp -> forall rows : list K,
  StronglySorted (fun a b => cmp a b = Lt) (fst (fst (np_unique cmp rows))).
Proof. exact (fun K cmp CO rows => usort_sorted cmp CO rows). Qed.
Print Assumptions C17_npunique_sorted_distinct.

(* idx[k] is the FIRST position of the k-th sorted distinct row *)
Theorem C17_npunique_index :
  forall K (cmp : K -> K -> comparison), cmp_order cmp -> forall (rows : list K) (d : K) k,
  k < length (usort cmp rows) ->
  nth k (snd (fst (np_unique cmp rows))) 0 < length rows /\
  keq cmp (nth (nth k (snd (fst (np_unique cmp rows))) 0) rows d) (nth k (usort cmp rows) d) = true /\
  forall j, j < nth k (snd (fst (np_unique cmp rows))) 0 ->
            keq cmp (nth j rows d) (nth k (usort cmp rows) d) = false.
Proof. exact (fun K cmp CO rows d k => npu_idx_spec cmp CO rows d k). Qed.
Print Assumptions C17_npunique_index.

(* us[inv[j]] = rows[j] (as keys) *)
Theorem C17_npunique_inverse :
  forall K (cmp : K -> K -> comparison), cmp_order cmp -> forall (rows : list K) (d : K) j,
  j < length rows ->
  nth j (snd (np_unique cmp rows)) 0 < length (usort cmp rows) /\
  keq cmp (nth (nth j (snd (np_unique cmp rows)) 0) (usort cmp rows) d) (nth j rows d) = true.
Proof. exact (fun K cmp CO rows d j => npu_inv_spec cmp CO rows d j). Qed.
Print Assumptions C17_npunique_inverse.

(* np.sort(idx) = increasing list of the first-occurrence positions, and
   selecting them is first-appearance de-duplication *)
Theorem C17_sorted_index_is_first_appearance :
  forall E K (cmp : K -> K -> comparison), cmp_order cmp -> forall (key : E -> K) (l : list E) (d : E),
  map (fun i => nth i l d) (sort_nat (snd (fst (np_unique cmp (map key l))))) = nubk cmp key l.
Proof.
  exact (fun E K cmp CO key l d =>
           eq_trans (f_equal (map (fun i => nth i l d)) (npu_sort_idx cmp CO (map key l) (key d)))
                    (firsts_nubk cmp CO key l d)).
Qed.
Print Assumptions C17_sorted_index_is_first_appearance.

(* ======================= Object3d.unique (Quaternion, Vector3d, Miller) ==== *)
(* returned elements: pairwise distinct; every non-dropped input is equal to
   one of them; every returned element is a rounded non-zero input; and the
   returned list IS the first-appearance de-duplication of the rounded
   zero-free data (order of first appearance kept) *)
Theorem C17_base_distinct_cover_order :
  forall E K (cmp : K -> K -> comparison), cmp_order cmp ->
  forall (rnd : E -> E) (iszero : E -> bool) (key : E -> K) (d : E) (flat : list E),
  base_contract cmp rnd iszero key d flat (fst (fst (obj_unique cmp rnd iszero key d flat))).
Proof. exact (fun E K cmp CO rnd iszero key d flat => obj_unique_contract cmp CO rnd iszero key d flat). Qed.
Print Assumptions C17_base_distinct_cover_order.

(* INDEX ARRAY.  Every idx[k] is a position of the FLATTENED INPUT holding a
   kept (non-zero) entry; np.sort(idx) is the increasing list of the positions
   of the first occurrences among the kept entries and selects exactly the
   returned entries, rnd (flat[np.sort(idx)[k]]) = out[k] -- on every input,
   zero rows included (repaired: idx used to count positions in the zero-free
   data).  Last clause = what remains of the finding below: idx itself is in
   increasing KEY order. *)
Theorem C17_base_index_partial :
  forall E K (cmp : K -> K -> comparison), cmp_order cmp ->
  forall (rnd : E -> E) (iszero : E -> bool) (key : E -> K) (d : E) (flat : list E),
  let data := obj_data rnd iszero flat in
  let out := fst (fst (obj_unique cmp rnd iszero key d flat)) in
  let idx := snd (fst (obj_unique cmp rnd iszero key d flat)) in
  (forall k, k < length idx ->
     nth k idx 0 < length flat /\ iszero (rnd (nth (nth k idx 0) flat d)) = false) /\
  sort_nat idx = map (fun i => nth i (obj_nzpos rnd iszero d flat) 0) (firsts cmp (map key data) (key d)) /\
  (forall k, k < length out -> nth k out d = rnd (nth (nth k (sort_nat idx) 0) flat d)) /\
  (forall a b, a < b -> b < length idx ->
     cmp (key (rnd (nth (nth a idx 0) flat d))) (key (rnd (nth (nth b idx 0) flat d))) = Lt).
Proof. exact (fun E K cmp CO rnd iszero key d flat => obj_idx_partial cmp CO rnd iszero key d flat). Qed.
Print Assumptions C17_base_index_partial.

(* FULL STATEMENT (index clause), which the faithful model still REFUTES:
     forall k < length out,  rnd (flat[idx[k]]) = out[k]
   idx is in key-sorted order while out is in first-appearance order (pinned
   by orix/tests/test_miller.py::TestMiller::test_unique) *)
Theorem C17_base_index_refuted :
  exists flat : list (list Z),
    let '(out, idx, inv) := zbase flat in
    filter (fun e => negb (zzero e)) flat = flat /\
    exists k, (k < length out)%nat /\ nth (nth k idx 0%nat) flat [] <> nth k out [].
Proof. exact base_index_refuted_order. Qed.
Print Assumptions C17_base_index_refuted.

(* outside the finding's stratum (keys first appear in increasing order) the
   index contract holds -- zero rows or not *)
Theorem C17_base_index_outside_finding :
  forall E K (cmp : K -> K -> comparison), cmp_order cmp ->
  forall (rnd : E -> E) (iszero : E -> bool) (key : E -> K) (d : E) (flat : list E),
  StronglySorted le (snd (fst (obj_unique cmp rnd iszero key d flat))) ->
  forall k, k < length (fst (fst (obj_unique cmp rnd iszero key d flat))) ->
    nth k (fst (fst (obj_unique cmp rnd iszero key d flat))) d
    = rnd (nth (nth k (snd (fst (obj_unique cmp rnd iszero key d flat))) 0) flat d).
Proof. exact (fun E K cmp CO rnd iszero key d flat => obj_index_outside cmp CO rnd iszero key d flat). Qed.
Print Assumptions C17_base_index_outside_finding.

(* the hypothesis is satisfiable on an input WITH zero rows *)
Example C17_base_index_outside_finding_nonvacuous :
  let flat := [[0;0;0];[1;0;0];[2;0;0];[1;0;0];[0;0;0];[3;0;0]]%Z in
  obj_data (fun r => r) zzero flat <> map (fun r => r) flat /\
  StronglySorted le (snd (fst (zbase flat))).
Proof. exact zbase_outside_example. Qed.

(* INVERSE ARRAY (repaired; was refuted): one entry per kept entry of the
   flattened input, and out[inv[j]] = data[j] up to the key, on every input *)
Theorem C17_base_inverse :
  forall E K (cmp : K -> K -> comparison), cmp_order cmp ->
  forall (rnd : E -> E) (iszero : E -> bool) (key : E -> K) (d : E) (flat : list E),
  let data := obj_data rnd iszero flat in
  let out := fst (fst (obj_unique cmp rnd iszero key d flat)) in
  let inv := snd (obj_unique cmp rnd iszero key d flat) in
  length inv = length data /\
  forall j, j < length data ->
    nth j inv 0 < length out /\ keq cmp (key (nth (nth j inv 0) out d)) (key (nth j data d)) = true.
Proof. exact (fun E K cmp CO rnd iszero key d flat => obj_inverse_contract cmp CO rnd iszero key d flat). Qed.
Print Assumptions C17_base_inverse.

(* dropped zero rows have no entry in inv (documented: zero entries are
   removed), so inv reconstructs the flattened input only if nothing is dropped *)
Theorem C17_base_inverse_length_refuted :
  exists flat : list (list Z),
    let '(out, idx, inv) := zbase flat in length inv <> length flat.
Proof. exact base_inverse_refuted_zero. Qed.
Print Assumptions C17_base_inverse_length_refuted.

Theorem C17_base_inverse_outside_finding :
  forall E K (cmp : K -> K -> comparison), cmp_order cmp ->
  forall (rnd : E -> E) (iszero : E -> bool) (key : E -> K) (d : E) (flat : list E),
  obj_data rnd iszero flat = map rnd flat ->
  length (snd (obj_unique cmp rnd iszero key d flat)) = length flat /\
  forall j, j < length flat ->
    nth j (snd (obj_unique cmp rnd iszero key d flat)) 0
      < length (fst (fst (obj_unique cmp rnd iszero key d flat))) /\
    keq cmp (key (nth (nth j (snd (obj_unique cmp rnd iszero key d flat)) 0)
                      (fst (fst (obj_unique cmp rnd iszero key d flat))) d))
            (key (nth j (map rnd flat) d)) = true.
Proof. exact (fun E K cmp CO rnd iszero key d flat => obj_inverse_outside cmp CO rnd iszero key d flat). Qed.
Print Assumptions C17_base_inverse_outside_finding.

(* the former witnesses of the repaired clauses, evaluated on the model *)
Example C17_base_repaired_examples :
  zbase [[0;0;0];[5;0;0]]%Z = ([[5;0;0]]%Z, [1], [0]) /\
  zbase [[3;0;0];[1;0;0];[3;0;0];[2;0;0]]%Z = ([[3;0;0];[1;0;0];[2;0;0]]%Z, [1;3;0], [0;1;0;2]).
Proof. exact (conj zbase_zero_example zbase_order_example). Qed.

(* the integer-row instance used for the witnesses satisfies the hypotheses
   of the general theorems *)
Example C17_witness_instance_nonvacuous : cmp_order zcmp.
Proof. exact zcmp_order. Qed.

(* ================================ Rotation.unique ========================== *)
(* all clauses, for both keys (antipodal=True / False): pairwise distinct,
   cover, idx strictly increasing = first occurrences, dat[k] = flat[idx[k]],
   dat[inv[j]] = flat[j] up to the key *)
Theorem C17_rotation_contract :
  forall E K (cmp : K -> K -> comparison), cmp_order cmp -> forall (key : E -> K) (d : E) (flat : list E),
  unique_contract cmp key d flat (fst (fst (rot_unique cmp key d flat)))
                  (snd (fst (rot_unique cmp key d flat))) (snd (rot_unique cmp key d flat)).
Proof. exact (fun E K cmp CO key d flat => rot_unique_contract cmp CO key d flat). Qed.
Print Assumptions C17_rotation_contract.

(* the returned rotations are the first-appearance de-duplication of the input *)
Theorem C17_rotation_first_appearance :
  forall E K (cmp : K -> K -> comparison), cmp_order cmp -> forall (key : E -> K) (d : E) (flat : list E),
  fst (fst (rot_unique cmp key d flat)) = nubk cmp key flat.
Proof. exact (fun E K cmp CO key d flat => rot_dat_nubk cmp CO key d flat). Qed.
Print Assumptions C17_rotation_first_appearance.

(* two inputs are sent to the same returned element iff their keys are equal *)
Theorem C17_rotation_merge_iff :
  forall E K (cmp : K -> K -> comparison), cmp_order cmp -> forall (key : E -> K) (d : E) (flat : list E) i j,
  i < length flat -> j < length flat ->
  (nth i (snd (rot_unique cmp key d flat)) 0 = nth j (snd (rot_unique cmp key d flat)) 0
   <-> keq cmp (key (nth i flat d)) (key (nth j flat d)) = true).
Proof. exact (fun E K cmp CO key d flat i j => rot_inverse_merge cmp CO key d flat i j). Qed.
Print Assumptions C17_rotation_merge_iff.

(* instance on the reals, any rounding functions: the comparison used on the
   key rows is a total order whose Eq is equality of the rows *)
Theorem C17_key_order_R : cmp_order (rowcmp ROps).
Proof. exact rowcmp_R_order. Qed.
Print Assumptions C17_key_order_R.

Theorem C17_key_equality_R : forall x y : list R, keq (rowcmp ROps) x y = true <-> x = y.
Proof. exact rowcmp_R_eq. Qed.
Print Assumptions C17_key_equality_R.

Theorem C17_rotation_contract_R :
  forall (rnd10 rnd12 : R -> R) (antipodal : bool) (flat : list (rot (T:=R))),
  let key := if antipodal then key_antipodal ROps rnd12 else key_plain ROps rnd10 in
  unique_contract (rowcmp ROps) key (zrot ROps) flat
                  (fst (fst (rotation_unique ROps rnd10 rnd12 antipodal flat)))
                  (snd (fst (rotation_unique ROps rnd10 rnd12 antipodal flat)))
                  (snd (rotation_unique ROps rnd10 rnd12 antipodal flat)).
Proof.
  exact (fun rnd10 rnd12 antipodal flat =>
           rot_unique_contract (rowcmp ROps) rowcmp_R_order
             (if antipodal then key_antipodal ROps rnd12 else key_plain ROps rnd10) (zrot ROps) flat).
Qed.
Print Assumptions C17_rotation_contract_R.

(* end to end, antipodal=True on the reals.  Exact keys: two inputs are sent to
   the same returned rotation IFF they have the same flag and are equal up to
   sign (q ~ -q); *)
Theorem C17_rotation_antipodal_merge_exact :
  forall (flat : list (rot (T:=R))) (i j : nat), i < length flat -> j < length flat ->
  let inv := snd (rotation_unique ROps (fun x => x) (fun x => x) true flat) in
  nth i inv 0 = nth j inv 0 <->
  (snd (nth i flat (zrot ROps)) = snd (nth j flat (zrot ROps)) /\
   (fst (nth j flat (zrot ROps)) = fst (nth i flat (zrot ROps)) \/
    fst (nth j flat (zrot ROps)) = qneg ROps (fst (nth i flat (zrot ROps))))).
Proof. exact rotation_merge_exact. Qed.
Print Assumptions C17_rotation_antipodal_merge_exact.

(* for EVERY rounding function q and -q with the same flag are merged; *)
Theorem C17_rotation_antipodal_always_merged :
  forall (rnd10 rnd12 : R -> R) (flat : list (rot (T:=R))) (i j : nat),
  i < length flat -> j < length flat ->
  snd (nth i flat (zrot ROps)) = snd (nth j flat (zrot ROps)) ->
  (fst (nth j flat (zrot ROps)) = fst (nth i flat (zrot ROps)) \/
   fst (nth j flat (zrot ROps)) = qneg ROps (fst (nth i flat (zrot ROps)))) ->
  let inv := snd (rotation_unique ROps rnd10 rnd12 true flat) in
  nth i inv 0 = nth j inv 0.
Proof. exact rotation_merge_always. Qed.
Print Assumptions C17_rotation_antipodal_always_merged.

(* and for every rounding function of resolution delta < 1/2 whatever is
   merged has the same flag and is the same rotation up to 32 delta^2
   (this is the statement that covers the 1e-12 threshold stratum) *)
Theorem C17_rotation_antipodal_merge_rounded :
  forall (rnd10 rnd12 : R -> R) (delta : R) (flat : list (rot (T:=R))) (i j : nat),
  (forall x, Rabs (rnd12 x - x) <= delta)%R -> (delta < / 2)%R ->
  i < length flat -> j < length flat ->
  qnorm2 ROps (fst (nth i flat (zrot ROps))) = 1%R -> qnorm2 ROps (fst (nth j flat (zrot ROps))) = 1%R ->
  let inv := snd (rotation_unique ROps rnd10 rnd12 true flat) in
  nth i inv 0 = nth j inv 0 ->
  snd (nth i flat (zrot ROps)) = snd (nth j flat (zrot ROps)) /\
  (1 - 32 * (delta * delta)
   <= qdot ROps (fst (nth i flat (zrot ROps))) (fst (nth j flat (zrot ROps)))
      * qdot ROps (fst (nth i flat (zrot ROps))) (fst (nth j flat (zrot ROps))))%R.
Proof. exact rotation_merge_rounded. Qed.
Print Assumptions C17_rotation_antipodal_merge_rounded.

(* Object3d.unique on rows of reals, every rounding function: no repeated
   row; every non-zero rounded input row is returned; nothing else is; order
   of first appearance *)
Theorem C17_base_contract_R :
  forall (rnd10 : R -> R) (flat : list (list R)),
  let out := fst (fst (base_unique ROps rnd10 flat)) in
  NoDup out /\
  (forall r, In r flat -> row_iszero ROps (map rnd10 r) = false -> In (map rnd10 r) out) /\
  (forall y, In y out -> exists r, In r flat /\ y = map rnd10 r /\ row_iszero ROps y = false) /\
  out = nubk (rowcmp ROps) (fun r => r) (filter (fun e => negb (row_iszero ROps e)) (map (map rnd10) flat)).
Proof. exact base_unique_R. Qed.
Print Assumptions C17_base_contract_R.

(* Rotation.unique returns as many values as the flags ask for on EVERY input,
   the empty one included (repaired: the early return used to hand back the
   bare object), and on the empty input they are empty *)
Theorem C17_rotation_arity :
  forall E (flat : list E) ri rv, rot_unique_arity flat ri rv = obj_unique_arity ri rv.
Proof. exact (fun E flat ri rv => rot_arity flat ri rv). Qed.
Print Assumptions C17_rotation_arity.

Theorem C17_rotation_empty :
  forall E K (cmp : K -> K -> comparison) (key : E -> K) (d : E), rot_unique cmp key d [] = ([], [], []).
Proof. exact (fun E K cmp key d => rot_unique_nil cmp key d). Qed.
Print Assumptions C17_rotation_empty.

(* ================== antipodal semantics: the differentiators =============== *)
(* the key list regenerated from Rotation._differentiators is the ten
   quadratic monomials followed by the flag *)
Theorem C17_differentiators_are_monomials : forall a b c d i : R,
  differentiators_gen ROps a b c d i = monomials ROps (a, b, c, d) ++ [i].
Proof. exact diff_gen_monomials. Qed.
Print Assumptions C17_differentiators_are_monomials.

(* q and -q with the same flag ALWAYS get the same key, for every rounding *)
Theorem C17_antipodal_same_key : forall (rnd : R -> R) (q : quat) (i : bool),
  key_antipodal ROps rnd (qneg ROps q, i) = key_antipodal ROps rnd (q, i).
Proof. exact key_antipodal_neg. Qed.
Print Assumptions C17_antipodal_same_key.

(* the ten monomials determine a quaternion up to sign (all quaternions) *)
Theorem C17_monomials_determine_up_to_sign : forall q q' : quat,
  monomials ROps q = monomials ROps q' <-> (q' = q \/ q' = qneg ROps q).
Proof. exact monomials_iff. Qed.
Print Assumptions C17_monomials_determine_up_to_sign.

(* hence with exact keys: merged <=> same flag and equal up to sign *)
Theorem C17_antipodal_key_exact : forall (q : quat) (i : bool) (q' : quat) (i' : bool),
  key_antipodal ROps (fun x => x) (q, i) = key_antipodal ROps (fun x => x) (q', i')
  <-> (i = i' /\ (q' = q \/ q' = qneg ROps q)).
Proof. exact key_antipodal_exact. Qed.
Print Assumptions C17_antipodal_key_exact.

(* with ANY rounding function of resolution delta < 1/2: rotations merged by
   the antipodal key have the same flag and are the same rotation up to
   1 - <q,q'>^2 <= 32 delta^2  (delta = 5e-13 for np.round(., 12)) *)
Theorem C17_antipodal_key_rounded :
  forall (rnd : R -> R) (delta : R), (forall x, Rabs (rnd x - x) <= delta)%R -> (delta < / 2)%R ->
  forall (q : quat) (i : bool) (q' : quat) (i' : bool),
  qnorm2 ROps q = 1%R -> qnorm2 ROps q' = 1%R ->
  key_antipodal ROps rnd (q, i) = key_antipodal ROps rnd (q', i') ->
  i = i' /\ (1 - 32 * (delta * delta) <= qdot ROps q q' * qdot ROps q q')%R.
Proof. exact (fun rnd delta H Hd q i q' i' => key_antipodal_merged rnd delta H q i q' i' Hd). Qed.
Print Assumptions C17_antipodal_key_rounded.

(* antipodal=False: merged rotations have the same flag and components
   within 2 delta; q and -q are NOT merged unless q is within delta of 0 *)
Theorem C17_plain_key_rounded :
  forall (rnd : R -> R) (delta : R), (forall x, Rabs (rnd x - x) <= delta)%R -> (delta < / 2)%R ->
  forall (q : quat) (i : bool) (q' : quat) (i' : bool),
  key_plain ROps rnd (q, i) = key_plain ROps rnd (q', i') ->
  i = i' /\
  let '(a, b, c, d) := q in let '(a', b', c', d') := q' in
  (Rabs (a - a') <= 2 * delta /\ Rabs (b - b') <= 2 * delta /\
   Rabs (c - c') <= 2 * delta /\ Rabs (d - d') <= 2 * delta)%R.
Proof. exact (fun rnd delta H Hd q i q' i' => key_plain_merged rnd delta H q i q' i' Hd). Qed.
Print Assumptions C17_plain_key_rounded.

(* the hypotheses on the rounding function are satisfied by exact decimal
   rounding (half to even) to dec >= 1 decimals *)
Example C17_rounding_nonvacuous : forall (dec : nat) (x : R),
  (Rabs (Rround dec x - x) <= / 2 / pow10 dec)%R /\ ((0 < dec)%nat -> (/ 2 / pow10 dec < / 2)%R).
Proof. exact (fun dec x => conj (Rround_close dec x) (Rround_delta_small dec)). Qed.

(* ================================ Miller.unique ============================ *)
(* use_symmetry=False forwards the base class (and inherits its index-order finding) *)
Theorem C17_miller_forwards_base :
  forall E K K2 (cmp : K -> K -> comparison) (cmp2 : K2 -> K2 -> comparison)
         (rnd : E -> E) (iszero : E -> bool) (key : E -> K) (d : E) (okey : E -> K2) (flat : list E),
  miller_unique cmp cmp2 rnd iszero key d okey false flat
  = (fst (fst (obj_unique cmp rnd iszero key d flat)), snd (fst (obj_unique cmp rnd iszero key d flat))).
Proof. exact (fun E K K2 cmp cmp2 rnd iszero key d okey flat => miller_nosym cmp cmp2 rnd iszero key d okey flat). Qed.
Print Assumptions C17_miller_forwards_base.

(* use_symmetry=True: one representative per canonical orbit key (pairwise
   distinct keys; every vector returned by the base class has a returned
   vector with the same key; returned vectors come from the base result) *)
Theorem C17_miller_sym_distinct_cover :
  forall E K K2 (cmp : K -> K -> comparison) (cmp2 : K2 -> K2 -> comparison),
  cmp_order cmp -> cmp_order cmp2 ->
  forall (rnd : E -> E) (iszero : E -> bool) (key : E -> K) (d : E) (okey : E -> K2) (flat : list E),
  let v := fst (fst (obj_unique cmp rnd iszero key d flat)) in
  let out := fst (miller_unique cmp cmp2 rnd iszero key d okey true flat) in
  (forall a b, a < b -> b < length out -> keq cmp2 (okey (nth a out d)) (okey (nth b out d)) = false) /\
  (forall y, In y v -> exists z, In z out /\ keq cmp2 (okey z) (okey y) = true) /\
  (forall z, In z out -> In z v).
Proof.
  exact (fun E K K2 cmp cmp2 CO CO2 rnd iszero key d okey flat =>
           conj (miller_sym_distinct cmp cmp2 CO2 rnd iszero key d okey flat)
                (conj (miller_sym_cover cmp cmp2 CO2 rnd iszero key d okey flat)
                      (miller_sym_from cmp cmp2 CO2 rnd iszero key d okey flat))).
Qed.
Print Assumptions C17_miller_sym_distinct_cover.

(* FULL STATEMENT (order of first appearance), REFUTED; what holds instead is
   strictly decreasing orbit-key order *)
Theorem C17_miller_sym_order_refuted :
  exists flat : list (list Z), fst (zmiller true flat) <> nubk zcmp zokey flat.
Proof. exact miller_order_refuted. Qed.
Print Assumptions C17_miller_sym_order_refuted.

Theorem C17_miller_sym_order_partial :
  forall E K K2 (cmp : K -> K -> comparison) (cmp2 : K2 -> K2 -> comparison),
  cmp_order cmp -> cmp_order cmp2 ->
  forall (rnd : E -> E) (iszero : E -> bool) (key : E -> K) (d : E) (okey : E -> K2) (flat : list E) a b,
  let out := fst (miller_unique cmp cmp2 rnd iszero key d okey true flat) in
  a < b -> b < length out -> cmp2 (okey (nth b out d)) (okey (nth a out d)) = Lt.
Proof.
  exact (fun E K K2 cmp cmp2 CO CO2 rnd iszero key d okey flat a b =>
           miller_sym_decreasing cmp cmp2 CO2 rnd iszero key d okey flat a b).
Qed.
Print Assumptions C17_miller_sym_order_partial.

(* INDEX ARRAY (repaired; was refuted): the k-th returned vector is the
   rounded entry at position idx[k] of the flattened input, on every input *)
Theorem C17_miller_sym_index :
  forall E K K2 (cmp : K -> K -> comparison) (cmp2 : K2 -> K2 -> comparison),
  cmp_order cmp -> cmp_order cmp2 ->
  forall (rnd : E -> E) (iszero : E -> bool) (key : E -> K) (d : E) (okey : E -> K2) (flat : list E) k,
  let out := fst (miller_unique cmp cmp2 rnd iszero key d okey true flat) in
  let idx := snd (miller_unique cmp cmp2 rnd iszero key d okey true flat) in
  k < length out -> length idx = length out /\ nth k out d = rnd (nth (nth k idx 0) flat d).
Proof.
  exact (fun E K K2 cmp cmp2 CO CO2 rnd iszero key d okey flat k =>
           miller_sym_index cmp cmp2 CO CO2 rnd iszero key d okey flat k).
Qed.
Print Assumptions C17_miller_sym_index.

Example C17_miller_sym_index_example :
  zmiller true [[1;0;0];[0;1;0];[-1;0;0];[0;0;1]]%Z = ([[0;0;1];[0;1;0];[1;0;0]]%Z, [3;1;0]).
Proof. exact zmiller_index_example. Qed.

(* the canonical orbit key (sorted orbit) identifies exactly the orbits of a
   finite group given as a list closed under right multiplication *)
Theorem C17_orbit_key_equivalent :
  forall G V (act : G -> V -> V) (mul : G -> G -> G) (ops : list G) (leb : V -> V -> bool),
  (forall x y, leb x y = true \/ leb y x = true) ->
  (forall x y z, leb x y = true -> leb y z = true -> leb x z = true) ->
  (forall x y, leb x y = true -> leb y x = true -> x = y) ->
  (forall g h x, act (mul g h) x = act g (act h x)) ->
  forall g0 x, Permutation (map (fun g => mul g g0) ops) ops ->
  okey_abs act ops leb (act g0 x) = okey_abs act ops leb x.
Proof. exact (fun G V act mul ops leb T Tr An AM g0 x => okey_equiv act mul ops leb T Tr An AM g0 x). Qed.
Print Assumptions C17_orbit_key_equivalent.

Theorem C17_orbit_key_sound :
  forall G V (act : G -> V -> V) (ops : list G) (leb : V -> V -> bool),
  (forall x y, leb x y = true \/ leb y x = true) ->
  (forall x y z, leb x y = true -> leb y z = true -> leb x z = true) ->
  (forall x y, leb x y = true -> leb y x = true -> x = y) ->
  forall e x y, In e ops -> (forall z, act e z = z) ->
  okey_abs act ops leb x = okey_abs act ops leb y -> exists g, In g ops /\ y = act g x.
Proof. exact (fun G V act ops leb T Tr An e x y => okey_sound act ops leb T Tr An e x y). Qed.
Print Assumptions C17_orbit_key_sound.
