(* C18 -- Results do not depend on evaluation strategy.
   Property theorems only; proofs are in Proofs/C18Alg.v (element-level algebra
   over the reals), Proofs/C18NdP.v (n-dimensional chunked evaluation) and
   Proofs/C18Lazy.v (the lazy wrappers against their eager modes).

   The lazy formulas (outer_dask_qq / outer_dask_qv / dot_outer_dask_vv in
   Gen/C18Dask.v) and the eager kernels (Gen/QuatKernels.v) are REGENERATED
   from orix/quaternion/quaternion.py and orix/vector/vector3d.py on every
   check; the list-level wrappers (Model/C18Model.v) are tied to /repo by the
   Coq-evaluated correspondence.  Objects are (shape, flat C-order list).

   Clauses NOT carried by a theorem (oracle + correspondence only):
   * backend: numpy-quaternion is an external library; C18_backend_vector_product
     shows that the two formulas orix uses agree IF numpy-quaternion's `*` is the
     Hamilton product and `~` is conj/|q|^2; every operation is run on both
     backends on the same inputs on every check.
   * dtype: float32 / integer inputs are exactly representable reals, so over
     the reals there is nothing to prove; the rounding of float32 arithmetic
     paths is checked by the oracle only (it found it; since repaired, see design.d). *)
From Coq Require Import Reals List Bool Arith.
From Verif Require Import Scalar RInst NdIndex QuatKernels Conversions Quat QuatAlg RotArr
  C18Dask C18Nd C18Model C18NdP C18Alg C18Lazy.
Import ListNotations.
Local Open Scope R_scope.

(* ====================== 1. the lazy formulas against the eager kernels ====================== *)

(* dask quaternion x quaternion formula = Hamilton product kernel, ALL quaternions *)
Theorem C18_dask_quaternion_formula : forall p q : quat,
  dq_mul ROps p q = qmul ROps p q.
Proof. exact dq_mul_eq. Qed.
Print Assumptions C18_dask_quaternion_formula.

(* dask quaternion x vector formula = qu_rotate_vec kernel on unit quaternions *)
Theorem C18_dask_vector_formula_unit : forall (q : quat) (v : vec3),
  qnorm2 ROps q = 1 -> dq_rot ROps q v = qrot ROps q v.
Proof. exact dq_rot_unit. Qed.
Print Assumptions C18_dask_vector_formula_unit.

(* for every quaternion it is q v q* (conjugate, not inverse) ... *)
Theorem C18_dask_vector_formula_is_conjugation : forall (q : quat) (v : vec3),
  dq_rot ROps q v = qvec (qmul ROps (qmul ROps q (vq ROps v)) (qconj ROps q)).
Proof. exact dq_rot_sandwich. Qed.
Print Assumptions C18_dask_vector_formula_is_conjugation.

(* ... i.e. the eager result (both backends rotate by q/|q|) scaled by |q|^2 *)
Theorem C18_dask_vector_formula_scaled : forall (q : quat) (v : vec3),
  q <> zq ROps -> dq_rot ROps q v = vscale ROps (qnorm2 ROps q) (qv_mul_builtin ROps q v).
Proof. exact dq_rot_scaled. Qed.
Print Assumptions C18_dask_vector_formula_scaled.

(* the bare formula equals the eager q*v exactly when |q| = 1 (or v = 0) -- which
   is why Quaternion.outer(Vector3d, lazy=True) must (and, since the repair, does)
   hand self.unit to _outer_dask: *)
Theorem C18_lazy_vector_equals_eager_iff : forall (q : quat) (v : vec3),
  q <> zq ROps ->
  (dq_rot ROps q v = qv_mul_builtin ROps q v <-> qnorm2 ROps q = 1 \/ v = zv ROps).
Proof. exact dq_rot_eq_iff. Qed.
Print Assumptions C18_lazy_vector_equals_eager_iff.

(* ... and on the normalised quaternion it IS the eager result, for every q <> 0 *)
Theorem C18_dask_vector_formula_normalised : forall (q : quat) (v : vec3),
  q <> zq ROps -> dq_rot ROps (qunit ROps q) v = qv_mul_builtin ROps q v.
Proof. exact dq_rot_qunit. Qed.
Print Assumptions C18_dask_vector_formula_normalised.

(* the two formulas of Quaternion.__mul__(Vector3d) (numpy-quaternion branch:
   vector part of (q v) ~q ; built-in branch: qu_rotate_vec(q/|q|, v)) agree on
   every non-zero quaternion -- PARTIAL for the backend clause: `*` and `~` of
   the external library are modelled, not verified *)
Theorem C18_backend_vector_product_partial : forall (q : quat) (v : vec3),
  q <> zq ROps -> qv_mul_npq ROps q v = qv_mul_builtin ROps q v.
Proof. exact qv_backends_agree. Qed.
Print Assumptions C18_backend_vector_product_partial.

(* the clip at 1 in the eager Rotation.dot_outer never acts on unit quaternions *)
Theorem C18_unit_dot_at_most_one : forall p q : quat,
  qnorm2 ROps p = 1 -> qnorm2 ROps q = 1 -> Rabs (qdot ROps p q) <= 1.
Proof. exact qdot_unit_le1. Qed.
Print Assumptions C18_unit_dot_at_most_one.

(* ====================== 2. chunked evaluation, every chunk size, every shape ====================== *)

(* the blocks partition the index space: every valid index lies in exactly one
   block of the chunk grid, at exactly one offset *)
Theorem C18_chunks_partition : forall k s idx,
  (0 < k)%nat -> valid s idx ->
  (valid (grid k s) (blk_of k idx) /\ valid (blk_shape k s (blk_of k idx)) (off_of k idx) /\
   glob k (blk_of k idx) (off_of k idx) = idx) /\
  (forall b j, length b = length s -> valid (blk_shape k s b) j -> glob k b j = idx ->
     b = blk_of k idx /\ j = off_of k idx).
Proof.
  intros k s idx Hk Hv. split; [apply blk_cover; assumption|].
  intros b j Hl Hj E. destruct (blk_unique k s b j Hk Hl Hj) as [E1 [E2 _]].
  rewrite E in E1, E2. split; symmetry; assumption.
Qed.
Print Assumptions C18_chunks_partition.

(* a chunk size beyond every axis gives a single block: the whole array *)
Theorem C18_one_block_beyond_size : forall k s idx,
  valid s idx -> Forall (fun n => (n <= k)%nat) s -> (0 < k)%nat ->
  blk_of k idx = repeat 0%nat (length s) /\ off_of k idx = idx.
Proof. exact blk_whole. Qed.
Print Assumptions C18_one_block_beyond_size.

(* storing all blocks rebuilds the array; element-wise expressions commute with blocking *)
Theorem C18_blockwise_elementwise : forall (A B : Type) (da : A) (f : A -> B) k s xs,
  (0 < k)%nat -> length xs = size s ->
  assemble da k s (block da k s xs) = xs /\ blocked_map da (f da) f k s xs = map f xs.
Proof. intros; split; [apply assemble_blocks | apply blocked_map_eq]; assumption. Qed.
Print Assumptions C18_blockwise_elementwise.

(* two-operand outer expressions: blockwise = whole, for all k >= 1 (also beyond
   the operand sizes), all shapes sA, sB (any numbers of axes, length-1 axes) *)
Theorem C18_blockwise_outer : forall (A B C : Type) (f : A -> B -> C) da db dc k sA sB xs ys,
  (0 < k)%nat -> length xs = size sA -> length ys = size sB ->
  blocked_outer da db dc f k sA sB xs ys = outer f xs ys.
Proof. exact @blocked_outer_eq. Qed.
Print Assumptions C18_blockwise_outer.

(* the one-dimensional list-of-chunks form (Base/NdIndex.chunks), independent
   chunk sizes for the two operands *)
Theorem C18_chunked_outer_lists : forall (A B C : Type) (f : A -> B -> C) k k' xs ys,
  (0 < k)%nat -> (0 < k')%nat -> chunked_outer f k k' xs ys = outer f xs ys.
Proof. exact @chunked_outer_eq. Qed.
Print Assumptions C18_chunked_outer_lists.

(* a max-reduction over a chunked axis (max of per-chunk maxima) is the max *)
Theorem C18_chunked_max_reduction : forall k l, (0 < k)%nat -> chunked_lmax ROps k l = lmax0 ROps l.
Proof. exact chunked_lmax_eq. Qed.
Print Assumptions C18_chunked_max_reduction.

(* ====================== 3. the lazy wrappers = their eager modes ====================== *)

Theorem C18_quaternion_outer_lazy : forall k sA sB (A B : list quat),
  (0 < k)%nat -> length A = size sA -> length B = size sB ->
  qq_outer_lazy ROps k sA sB A B = qq_outer_eager ROps A B.
Proof. exact qq_outer_lazy_eq. Qed.
Print Assumptions C18_quaternion_outer_lazy.

(* Quaternion.outer(Vector3d): FULL clause -- every non-zero quaternion, unit or not
   (the zero quaternion has no eager result: rotate_vectors raises) *)
Theorem C18_quaternion_vector_outer_lazy : forall k sA sV (A : list quat) (V : list vec3),
  (0 < k)%nat -> length A = size sA -> length V = size sV -> Forall (fun q => q <> zq ROps) A ->
  qv_outer_lazy ROps k sA sV A V = qv_outer_eager ROps A V.
Proof. exact qv_outer_lazy_eq. Qed.
Print Assumptions C18_quaternion_vector_outer_lazy.

(* Rotation.outer(Rotation): values AND improper flags, no hypothesis on norms *)
Theorem C18_rotation_outer_lazy : forall k sA sB (A B : list rot),
  (0 < k)%nat -> length A = size sA -> length B = size sB ->
  rot_outer_lazy ROps k sA sB A B = rot_outer_eager ROps A B.
Proof. exact rot_outer_lazy_eq. Qed.
Print Assumptions C18_rotation_outer_lazy.

(* Rotation.outer(Vector3d), improper rotations included *)
Theorem C18_rotation_vector_outer_lazy : forall k sA sV (A : list rot) (V : list vec3),
  (0 < k)%nat -> length A = size sA -> length V = size sV -> all_unit A ->
  rot_vouter_lazy ROps k sA sV A V = rot_vouter_eager ROps A V.
Proof. exact rot_vouter_lazy_eq. Qed.
Print Assumptions C18_rotation_vector_outer_lazy.

Theorem C18_vector_dot_outer_lazy : forall k sU sV (U V : list vec3),
  (0 < k)%nat -> length U = size sU -> length V = size sV ->
  vec_dot_outer_lazy ROps k sU sV U V = vec_dot_outer_eager ROps U V.
Proof. exact vec_dot_outer_lazy_eq. Qed.
Print Assumptions C18_vector_dot_outer_lazy.

(* axis layout of the lazy outer products: indexed self.shape ++ other.shape *)
Theorem C18_lazy_outer_layout : forall k sA sB (A B : list rot) (V : list vec3) i j d dv,
  (0 < k)%nat -> length A = size sA -> length B = size sB -> length V = size sB -> all_unit A ->
  valid sA i -> valid sB j ->
  (aget d (sA ++ sB) (rot_outer_lazy ROps k sA sB A B) (i ++ j) = rmul ROps (aget d sA A i) (aget d sB B j)
   /\ length (rot_outer_lazy ROps k sA sB A B) = size (sA ++ sB)) /\
  (aget dv (sA ++ sB) (rot_vouter_lazy ROps k sA sB A V) (i ++ j) = ract ROps (aget d sA A i) (aget dv sB V j)
   /\ length (rot_vouter_lazy ROps k sA sB A V) = size (sA ++ sB)).
Proof.
  intros. split; [apply rot_outer_lazy_layout | apply rot_vouter_lazy_layout]; assumption.
Qed.
Print Assumptions C18_lazy_outer_layout.

(* every lazy wrapper returns the same list for any two chunk sizes (no
   hypothesis on the quaternions at all) *)
Theorem C18_chunk_size_independent :
  forall k k' sA sB (A B : list rot) (V : list vec3) (QA QB : list quat) (U : list vec3),
  (0 < k)%nat -> (0 < k')%nat ->
  length A = size sA -> length B = size sB -> length V = size sB ->
  length QA = size sA -> length QB = size sB -> length U = size sA ->
  rot_outer_lazy ROps k sA sB A B = rot_outer_lazy ROps k' sA sB A B /\
  rot_vouter_lazy ROps k sA sB A V = rot_vouter_lazy ROps k' sA sB A V /\
  qq_outer_lazy ROps k sA sB QA QB = qq_outer_lazy ROps k' sA sB QA QB /\
  qv_outer_lazy ROps k sA sB QA V = qv_outer_lazy ROps k' sA sB QA V /\
  vec_dot_outer_lazy ROps k sA sB U V = vec_dot_outer_lazy ROps k' sA sB U V /\
  (forall S, ori_dot_outer_lazy ROps k sA sB A B S = ori_dot_outer_lazy ROps k' sA sB A B S) /\
  (forall S, awo_lazy ROps k sA sB A B S = awo_lazy ROps k' sA sB A B S).
Proof. exact lazy_chunk_independent. Qed.
Print Assumptions C18_chunk_size_independent.

(* Misorientation.get_distance_matrix (always lazy; the two symmetry axes are
   chunked too and reduced over): equals its defining formula
   max_{a,b,c} |(s_a m_i s_b m_j^-1) . s_c| for every chunk size *)
Theorem C18_misorientation_distance_matrix : forall k k' s (X S : list rot),
  (0 < k)%nat -> (0 < k')%nat -> length X = size s ->
  mis_dm_lazy ROps k s X S = mis_dm_spec_with ROps (ang ROps) s X S /\
  mis_dm_lazy ROps k s X S = mis_dm_lazy ROps k' s X S.
Proof.
  intros; split; [apply mis_dm_lazy_eq_spec | apply mis_dm_chunk_independent]; assumption.
Qed.
Print Assumptions C18_misorientation_distance_matrix.

(* ====================== 4. Orientation.angle_with_outer / _dot_outer_dask ====================== *)

(* what the lazy path returns, all shapes (any numbers of axes): indexed
   self.shape ++ other.shape, element (i ++ j) = max over the symmetry elements s
   that are improper exactly when the pair is (xor of the two flags) of
   |(other_j self_i^-1) . s|, 0 if there is none *)
Theorem C18_orientation_lazy_characterised : forall k ss so (X Y S : list rot) i j,
  (0 < k)%nat -> length X = size ss -> length Y = size so -> valid ss i -> valid so j ->
  let r := ori_dot_outer_lazy ROps k ss so X Y S in
  fst r = ss ++ so /\ length (snd r) = size (ss ++ so) /\
  aget 0 (ss ++ so) (snd r) (i ++ j)
  = sym_dot_lazy ROps S (rmul ROps (aget (zq ROps, false) so Y j) (rinv ROps (aget (zq ROps, false) ss X i))).
Proof. exact ori_lazy_char. Qed.
Print Assumptions C18_orientation_lazy_characterised.

(* what the eager path returns, all shapes: same layout, same selection, clipped at 1 *)
Theorem C18_orientation_eager_characterised : forall ss so (X Y S : list rot) i j,
  length X = size ss -> length Y = size so -> valid ss i -> valid so j ->
  let r := ori_dot_outer_eager ROps ss so X Y S in
  fst r = ss ++ so /\ length (snd r) = size (ss ++ so) /\
  aget 0 (ss ++ so) (snd r) (i ++ j)
  = sym_dot_eager ROps S (rmul ROps (aget (zq ROps, false) so Y j) (rinv ROps (aget (zq ROps, false) ss X i))).
Proof. exact ori_eager_char. Qed.
Print Assumptions C18_orientation_eager_characterised.

(* layout clause for angle_with_outer: both modes return self.shape ++ other.shape
   for every pair of shapes, every chunk size, all operands *)
Theorem C18_angle_with_outer_layout : forall k ss so (X Y S : list rot),
  fst (awo_lazy ROps k ss so X Y S) = ss ++ so /\ fst (awo_eager ROps ss so X Y S) = ss ++ so /\
  length (snd (awo_lazy ROps k ss so X Y S)) = size (ss ++ so) /\
  length (snd (awo_eager ROps ss so X Y S)) = size (ss ++ so).
Proof. exact awo_layout. Qed.
Print Assumptions C18_angle_with_outer_layout.

(* the two symmetry reductions agree for EVERY pair, proper or improper, and every
   list of unit symmetry elements, proper or improper (eager: 0 where exactly one
   of pair / element is improper, clip at 1; lazy: da.where on the same condition) *)
Theorem C18_symmetry_reduction : forall (S : list rot) (m : rot),
  qnorm2 ROps (fst m) = 1 -> Forall (fun s => qnorm2 ROps (fst s) = 1) S ->
  sym_dot_eager ROps S m = sym_dot_lazy ROps S m.
Proof. exact sym_dot_eq. Qed.
Print Assumptions C18_symmetry_reduction.

(* FULL clause: angle_with_outer(lazy=True, chunk_size=k) = angle_with_outer(lazy=False),
   shape and values, for every chunk size, every pair of shapes and ALL improper
   flags on self, on other and on the symmetry elements (unit quaternions, which
   Rotation.__init__ guarantees) *)
Theorem C18_angle_with_outer_lazy : forall k ss so (X Y S : list rot),
  (0 < k)%nat -> length X = size ss -> length Y = size so ->
  all_unit X -> all_unit Y -> all_unit S ->
  awo_lazy ROps k ss so X Y S = awo_eager ROps ss so X Y S.
Proof. exact awo_lazy_eq_eager. Qed.
Print Assumptions C18_angle_with_outer_lazy.

(* Orientation.get_distance_matrix(lazy) = angle_with_outer(self, self, lazy), all flags *)
Theorem C18_orientation_distance_matrix_lazy : forall k s (X S : list rot),
  (0 < k)%nat -> length X = size s -> all_unit X -> all_unit S ->
  awo_lazy ROps k s s X X S = awo_eager ROps s s X X S.
Proof. exact odm_lazy_eq_eager. Qed.
Print Assumptions C18_orientation_distance_matrix_lazy.

(* the flags are not idle: under the group {1} a pair with an improper `other`
   is at angle pi in BOTH modes, a proper pair at angle 0 *)
Theorem C18_angle_with_outer_improper_pair :
  ang ROps (sym_dot_eager ROps [((1, 0, 0, 0), false)] ((1, 0, 0, 0), true)) = PI /\
  ang ROps (sym_dot_lazy ROps [((1, 0, 0, 0), false)] ((1, 0, 0, 0), true)) = PI /\
  ang ROps (sym_dot_lazy ROps [((1, 0, 0, 0), false)] ((1, 0, 0, 0), false)) = 0.
Proof. exact awo_improper_pair_pi. Qed.
Print Assumptions C18_angle_with_outer_improper_pair.

(* ====================== 5. whole array vs element by element ====================== *)

(* an element-wise kernel applied to the whole n-d object gives, at every
   multi-index, the kernel applied to that element (the translator checks on
   every run that each *_2d / *_3d wrapper of _conversions.py is literally
   `for i in prange(n): out[i] = f_single(in[i])`, whose semantics is map) *)
Theorem C18_whole_vs_elementwise : forall (A B : Type) (f : A -> B) d s xs idx,
  aget (f d) s (map f xs) idx = f (aget d s xs idx).
Proof. exact @aget_map. Qed.
Print Assumptions C18_whole_vs_elementwise.

(* ... and for the outer products: element (i ++ j) of the whole result is the
   product of the two elements *)
Theorem C18_outer_whole_vs_elementwise : forall (A B C : Type) (f : A -> B -> C) da db dc sA sB xs ys i j,
  length xs = size sA -> length ys = size sB -> valid sA i -> valid sB j ->
  aget dc (sA ++ sB) (outer f xs ys) (i ++ j) = f (aget da sA xs i) (aget db sB ys j).
Proof. exact @outer_get. Qed.
Print Assumptions C18_outer_whole_vs_elementwise.

(* non-vacuity: a non-trivial unit quaternion, valid indices into a 2x3 array
   split into 2x2 chunks, and the concrete block grid *)
Example C18_nonvacuous :
  qnorm2 ROps (1/2, 1/2, 1/2, 1/2) = 1 /\ valid [2; 3]%nat [1; 2]%nat /\
  grid 2 [2; 3]%nat = [1; 2]%nat /\ blk_of 2 [1; 2]%nat = [0; 1]%nat /\ off_of 2 [1; 2]%nat = [1; 0]%nat /\
  blk_shape 2 [2; 3]%nat [0; 1]%nat = [2; 1]%nat.
Proof. repeat split; try reflexivity; [qunfold; field | repeat constructor]. Qed.
