(* C16 -- Array-like objects have value semantics under structural operations.
   Property theorems only; proofs are in Proofs/C16Proofs.v (faithful = spec,
   naturality, index-array representation), Proofs/C16Layout.v (which
   permutation each operation is) and Proofs/C16Findings.v (metadata, the
   clauses repaired by the `fix:` commits, read-only properties).

   Objects are (shape, rows, metadata); a row is (value, improper flag), i.e.
   one line of orix's widened `_data`.  `step_cls` is the FAITHFUL machine:
   one Coq function per method of Object3d / Quaternion / Rotation /
   Misorientation / Orientation / Vector3d / Miller as written in /repo (tied to
   the source by the correspondence check on every run).  `step_spec` is the
   SPECIFICATION: every structural operation acts on the rows exactly as on
   an index array, element-wise operations map over rows, metadata is kept.
   Everything is generic in the value type V and its unit/inverse/negation. *)
From Coq Require Import ZArith List Bool Permutation Sorted.
From Verif Require Import Scalar NdIndex C16Model C16Index C16Proofs C16Layout C16Shape C16Findings.
Import ListNotations.

(* ---- 1. the implementation's methods ARE the specification, for every class,
   every operation, every shape/flags/metadata ([wf] is the class invariant:
   metadata fields a class does not have are at their defaults, classes
   without an improper column carry no flag) *)
Theorem C16_step : forall V (vf : vfuns V) c o (x : obj V),
  wf c x = true -> step_cls vf c o x = step_spec vf c o x.
Proof. exact @step_faithful. Qed.
Print Assumptions C16_step.

(* ---- 2. ... hence for ALL finite programs (induction over the operation
   list; the class invariant is preserved) *)
Theorem C16_programs : forall V (vf : vfuns V) c p (x : obj V),
  wf c x = true -> run (step_cls vf c) p x = run (step_spec vf c) p x.
Proof. exact @run_faithful. Qed.
Print Assumptions C16_programs.

(* ---- 3. structural programs permute the rows (value AND flag together)
   exactly as they permute the index array 0..n-1, for every class, shape,
   program; errors included (None = raises on both sides) *)
Theorem C16_index_array : forall V (vf : vfuns V) c p s (rows : list (V * bool)),
  Forall (fun e => e = EId) (flat_map op_eops p) ->
  arun (sact vf c) (drow vf) p (s, rows)
  = option_map (fun a => (fst a, gather (drow vf) rows (snd a)))
               (arun act_idx (length rows) p (s, seq 0 (length rows))).
Proof. exact @struct_index_array. Qed.
Print Assumptions C16_index_array.

(* the two combined -- the headline for the implementation's method table:
   a structural program (getitem / reshape / flatten / transpose / squeeze, any
   length) on an object of any class returns the rows gathered exactly as the
   index array is, with the same metadata, or raises exactly when the
   index-array run is an error *)
Theorem C16_class_index_array : forall V (vf : vfuns V) c p (x : obj V),
  wf c x = true -> forallb is_struct p = true ->
  run (step_cls vf c) p x
  = option_map (fun a => mkObj (fst a) (gather (drow vf) (orows x) (snd a)) (ometa x))
               (arun act_idx (length (orows x)) p (oshape x, seq 0 (length (orows x)))).
Proof. exact @class_index_array. Qed.
Print Assumptions C16_class_index_array.

(* ---- 4. ... and with element-wise operations (unit, ~, -, stacks of them)
   interleaved: every output element is ONE input element (read at the place
   the index-array run says) with the element-wise history replayed on the
   pair (value, flag) *)
Theorem C16_representation : forall E (act : eop -> option (E -> E)) (d : E) p s l,
  arun act d p (s, l)
  = option_map (fun a => (fst a, map (interp act d l) (snd a)))
               (arun (act_sym act) (length l, []) p (s, iota (length l))).
Proof. exact @representation. Qed.
Print Assumptions C16_representation.

(* naturality: programs commute with any map of elements that commutes with
   the element-wise operations used *)
Theorem C16_naturality : forall E1 E2 (act1 : eop -> option (E1 -> E1)) (act2 : eop -> option (E2 -> E2))
    (h : E1 -> E2) (d1 : E1) p s l,
  Forall (compat act1 act2 h) (flat_map op_eops p) ->
  arun act2 (h d1) p (s, map h l) = option_map (amap h) (arun act1 d1 p (s, l)).
Proof. exact @arun_nat. Qed.
Print Assumptions C16_naturality.

(* ---- 5. which permutation: layouts for all shapes *)
(* transpose: result[i'] = source[i], i'[j] = i[axes[j]], shape'[j] = shape[axes[j]] *)
Theorem C16_transpose_layout : forall s axes idx,
  perm_ok (length s) axes = true -> valid s idx ->
  let idx' := map (fun a => nth a idx 0) axes in
  valid (tr_shape s axes) idx' /\
  nth (ravel (tr_shape s axes) idx') (idx_transpose s axes) 0 = ravel s idx.
Proof. exact transpose_layout. Qed.
Print Assumptions C16_transpose_layout.

Theorem C16_transpose_is_permutation : forall s axes,
  perm_ok (length s) axes = true -> Permutation (seq 0 (size s)) (idx_transpose s axes).
Proof. exact transpose_permutation. Qed.
Print Assumptions C16_transpose_is_permutation.

(* flatten (= `.T` then C-order ravel, the code's formula) is Fortran order:
   element (i0, i1, ...) lands at i0 + s0*(i1 + s1*(...)), the same rule for
   every number of axes, size-1 and empty axes included; it moves every
   element exactly once; and flatten o flatten = flatten *)
Theorem C16_flatten_fortran_order : forall s idx,
  valid s idx -> nth (ravelF s idx) (idx_flatten s) 0 = ravel s idx.
Proof. exact flatten_layout. Qed.
Print Assumptions C16_flatten_fortran_order.

Theorem C16_flatten_is_permutation : forall s, Permutation (seq 0 (size s)) (idx_flatten s).
Proof. exact flatten_permutation. Qed.
Print Assumptions C16_flatten_is_permutation.

Theorem C16_flatten_idempotent : forall E (act : eop -> option (E -> E)) (d : E) s l a1,
  astep act d OFlatten (s, l) = Some a1 -> astep act d OFlatten a1 = Some a1.
Proof. exact @flatten_idempotent. Qed.
Print Assumptions C16_flatten_idempotent.

(* indexing with ints/slices: C-order cartesian product of the per-axis selections *)
Theorem C16_getitem_layout : forall s sels js,
  length sels = length s -> valid (map (@length nat) sels) js ->
  nth (ravel (map (@length nat) sels) js) (sel_positions s sels) 0 = ravel s (pick js sels).
Proof. exact getitem_layout. Qed.
Print Assumptions C16_getitem_layout.

(* boolean masks / integer lists: whole sub-blocks, in the order of the
   selected leading positions; a mask selects exactly its True bits in
   increasing order *)
Theorem C16_mask_layout : forall bs ps j r bits k,
  (j < length ps -> r < bs -> nth (j * bs + r) (blocks bs ps) 0 = nth j ps 0 * bs + r)
  /\ (forall p, In p (true_positions k bits) <-> (k <= p /\ nth (p - k) bits false = true))
  /\ StronglySorted lt (true_positions k bits).
Proof. exact mask_layout. Qed.
Print Assumptions C16_mask_layout.

(* stack: operand j sits at index j of a new last axis *)
Theorem C16_stack_layout : forall E (d : E) s (ls : list (list E)) idx j,
  valid s idx -> j < length ls ->
  nth (ravel (s ++ [length ls]) (idx ++ [j])) (stack_rows d (size s) ls) d
  = nth (ravel s idx) (nth j ls []) d.
Proof. exact @stack_layout. Qed.
Print Assumptions C16_stack_layout.

(* every operation returns a well-formed array: #rows = product of the shape
   (all keys, reshape arguments incl. the unknown dimension, stacks), so the
   invariant holds along every program *)
Theorem C16_shape_consistent : forall V (vf : vfuns V) c p (x x' : obj V),
  length (orows x) = size (oshape x) -> run (step_spec vf c) p x = Some x' ->
  length (orows x') = size (oshape x').
Proof. exact @run_spec_len_ok. Qed.
Print Assumptions C16_shape_consistent.

(* ---- 6. metadata: a program of single-object operations returns the assigned
   symmetry / phase / coordinate format (the symmetry pair of a
   misorientation swapped once per inversion) -- on the implementation's
   method table *)
Theorem C16_metadata_preserved : forall V (vf : vfuns V) c p (x x' : obj V),
  wf c x = true -> no_stack p = true ->
  run (step_cls vf c) p x = Some x' ->
  ometa x' = if (is_mis c && inv_parity p)%bool then meta_swap (ometa x) else ometa x.
Proof. exact @metadata_preserved_faithful. Qed.
Print Assumptions C16_metadata_preserved.

(* ---- 7. the clauses that were refuted before the `fix:` commits (the former
   known findings, now "fixed" entries of known_findings.d/C16.json), for every
   well-formed object; instances of theorem 1 spelled out *)
(* transpose of an object with >= 2 axes, of any class and with any flags:
   value and improper flag travel together, metadata kept *)
Theorem C16_transpose_flags : forall V (vf : vfuns V) c ax (x : obj V),
  wf c x = true -> Nat.eqb (length (oshape x)) 1 = false ->
  perm_ok (length (oshape x)) ax = true ->
  step_cls vf c (OTranspose (Some ax)) x
  = Some (mkObj (tr_shape (oshape x) ax)
                (gather (drow vf) (orows x) (idx_transpose (oshape x) ax)) (ometa x)).
Proof. exact @transpose_flags. Qed.
Print Assumptions C16_transpose_flags.

Theorem C16_transpose2_flags : forall V (vf : vfuns V) c (x : obj V),
  wf c x = true -> length (oshape x) = 2 ->
  step_cls vf c (OTranspose None) x
  = Some (mkObj (tr_shape (oshape x) [1; 0])
                (gather (drow vf) (orows x) (idx_transpose (oshape x) [1; 0])) (ometa x)).
Proof. exact @transpose2_flags. Qed.
Print Assumptions C16_transpose2_flags.

(* .unit of any class keeps every flag (and shape, metadata) *)
Theorem C16_unit_flags : forall V (vf : vfuns V) c (x : obj V),
  wf c x = true ->
  exists y, step_cls vf c (OEl EUnit) x = Some y
            /\ oshape y = oshape x /\ o_data y = map (v_unit vf) (o_data x)
            /\ o_flags y = o_flags x /\ ometa y = ometa x.
Proof. exact @unit_flags. Qed.
Print Assumptions C16_unit_flags.

Theorem C16_misorientation_unit_symmetry : forall V (vf : vfuns V) (x : obj V),
  wf CMis x = true ->
  exists y, step_cls vf CMis (OEl EUnit) x = Some y /\ ometa y = ometa x.
Proof. exact @misorientation_unit_symmetry. Qed.
Print Assumptions C16_misorientation_unit_symmetry.

Theorem C16_misorientation_neg_symmetry : forall V (vf : vfuns V) (x : obj V),
  wf CMis x = true ->
  exists y, step_cls vf CMis (OEl ENeg) x = Some y
            /\ o_data y = o_data x /\ o_flags y = map negb (o_flags x) /\ ometa y = ometa x.
Proof. exact @misorientation_neg_symmetry. Qed.
Print Assumptions C16_misorientation_neg_symmetry.

Theorem C16_miller_neg_metadata : forall V (vf : vfuns V) (x : obj V),
  wf CMil x = true ->
  exists y, step_cls vf CMil (OEl ENeg) x = Some y
            /\ oshape y = oshape x /\ o_data y = map (v_neg vf) (o_data x) /\ ometa y = ometa x.
Proof. exact @miller_neg_metadata. Qed.
Print Assumptions C16_miller_neg_metadata.

Theorem C16_miller_squeeze : forall V (vf : vfuns V) (x : obj V),
  wf CMil x = true ->
  step_cls vf CMil OSqueeze x
  = Some (mkObj (atleast1 (squeeze_shape (oshape x))) (orows x) (ometa x)).
Proof. exact @miller_squeeze. Qed.
Print Assumptions C16_miller_squeeze.

(* ---- 8. read-only properties: Vector3d.azimuth rounds near-zero x/y components
   on COPIES, the object is left as it is (the correspondence compares the
   implementation's data after the read with this model; the oracle
   deep-compares the operands around every property read); every other
   public property is a pure function in the model *)
Theorem C16_azimuth_no_mutation : forall T (x : obj (list T)), after_read PAzimuth x = x.
Proof. exact @azimuth_no_mutation. Qed.
Print Assumptions C16_azimuth_no_mutation.

Theorem C16_other_properties_pure_partial : forall T (x : obj (list T)) i,
  after_read (PPure i) x = x.
(* full statement: every public property leaves `_data`
   bit-identical.  In the model this is true by construction (the model is
   functional); what carries the clause is the oracle's deep comparison around
   every property read of every class on the implementation. *)
Proof. exact @pure_properties_no_mutation. Qed.
Print Assumptions C16_other_properties_pure_partial.

(* non-vacuity: a well-formed, non-trivial instance of the hypotheses of
   theorems 1, 2, 5, 6, 7: a 2x3 misorientation with mixed flags and symmetry
   (D6, Oh) through getitem / transpose / unit / minus / flatten / inverse /
   reshape / stack -- i.e. through the formerly refuted strata as well -- and a
   Miller object with phase and format through minus and squeeze *)
Example C16_nonvacuous :
  let x := mkObj [2; 3] [(1, true); (2, false); (3, true); (4, false); (5, false); (6, true)]
                 (mkMeta 3 5 0 0) in
  let p := [OGet (KBasic [KSlice None None (Some (-1)%Z)]); OTranspose None; OEl EUnit; OEl ENeg;
            OFlatten; OEl EInv; OReshape [3%Z; (-1)%Z]; OStack [EId; EInv]] in
  let q := [OGet (KBasic [KSlice None None (Some (-1)%Z)]); OTranspose None; OEl EUnit; OEl ENeg] in
  let m := mkObj [1; 2] [(7, false); (8, false)] (mkMeta 0 0 1 2) in
  wf CMis x = true
  /\ (exists y, run (step_cls vfN CMis) p x = Some y /\ oshape y = [3; 2; 2])
  /\ run (step_cls vfN CMis) q x
     = Some (mkObj [3; 2] [(4, true); (1, false); (5, true); (2, true); (6, false); (3, false)]
                   (mkMeta 3 5 0 0))
  /\ wf CMil m = true
  /\ run (step_cls vfN CMil) [OEl ENeg; OSqueeze] m
     = Some (mkObj [2] [(7, false); (8, false)] (mkMeta 0 0 1 2))
  /\ perm_ok 3 [2; 0; 1] = true /\ valid [2; 3; 4] [1; 2; 3].
Proof.
  repeat split; try (vm_compute; reflexivity).
  - eexists; split; vm_compute; reflexivity.
  - repeat constructor.
Qed.

(* keys with an Ellipsis (model extended after repair 32d9ef9): the Ellipsis stands for full slices of the axes that are
   not named, so such a key selects exactly what the expanded basic key selects; with more items than axes it raises *)
Theorem C16_ellipsis_key_is_expanded_basic_key : forall (s : list nat) (b a : list kitem),
  (length b + length a <= length s)%nat ->
  plan_get s (KEllip b a) =
  plan_get s (KBasic (b ++ repeat (KSlice None None None) (length s - (length b + length a)) ++ a)).
Proof.
  intros s b a H. unfold plan_get, expand_ellipsis. apply Nat.leb_le in H. rewrite H. reflexivity.
Qed.
Print Assumptions C16_ellipsis_key_is_expanded_basic_key.
Theorem C16_ellipsis_key_too_long_raises : forall (s : list nat) (b a : list kitem),
  (length s < length b + length a)%nat -> plan_get s (KEllip b a) = PErr.
Proof.
  intros s b a H. unfold plan_get, expand_ellipsis. apply Nat.leb_gt in H. rewrite H. reflexivity.
Qed.
Print Assumptions C16_ellipsis_key_too_long_raises.
