From Coq Require Import List.
From Verif Require Import NdIndex C16Model.
Theorem C16_placeholder : True. Proof. exact I. Qed.
