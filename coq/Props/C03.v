(* C03 -- Point groups are the crystallographic groups of their names and
   space groups.  The group data (coq/Gen/Groups.v) is regenerated on every
   run by RUNNING orix from /repo (all 38 named groups with their derived
   groups and query results; the point group and the diffpy symmetry
   operations of all 230 space groups) with every quaternion component
   recognised exactly in K = Q(sqrt2, sqrt3).  Every theorem below is an
   exhaustive, exact computation over that finite data (vm_compute inside
   the kernel), lifted to a universally quantified statement. *)
From Coq Require Import ZArith QArith List String Bool.
From Coq Require Import Reals.
From Verif Require Import Scalar RInst KField Quat GroupK ITARef Groups GroupChecks GroupFacts SymDotR SymDotK GroupReal.
Import ListNotations. Open Scope string_scope.

(* each named point group is a finite group: identity, closed under
   composition (all ordered pairs) and inversion, no duplicate operations, unit
   quaternions, and the order orix reports *)
Theorem C03_named_groups_are_groups : forall g, In g groups ->
  Z.of_nat (List.length (g_elems g)) = g_order g /\
  (exists e, In e (g_elems g) /\ kr_eqb kid e = true) /\
  (forall x y, In x (g_elems g) -> In y (g_elems g) ->
     exists z, In z (g_elems g) /\ kr_eqb (kmul x y) z = true) /\
  (forall x, In x (g_elems g) -> exists z, In z (g_elems g) /\ kr_eqb (kinv x) z = true) /\
  knodup (g_elems g) = true.
Proof.
  intros g Hg. pose proof (forallb_In _ _ all_groups_ok g Hg) as H.
  unfold group_ok in H. apply andb_prop in H. destruct H as [H1 H2].
  split; [symmetry; apply Z.eqb_eq; exact H2 | apply kis_group_spec; exact H1].
Qed.
Print Assumptions C03_named_groups_are_groups.

(* the same over the REAL numbers (transfer by the homomorphism K -> R): the
   embedded list is a group of unit quaternions up to overall sign, closed under
   the generated Hamilton product and under inversion *)
Theorem C03_named_groups_are_real_groups : forall g, In g groups ->
  let G := map rtoR (g_elems g) in
  (forall x, In x G -> qnorm2 ROps (fst x) = 1%R) /\
  (forall x y, In x G -> In y G -> exists z, In z G /\ req (rmul ROps x y) z) /\
  (forall x, In x G -> exists z, In z G /\ req (rinv ROps x) z).
Proof. exact named_groups_are_real_groups. Qed.
Print Assumptions C03_named_groups_are_real_groups.

(* the operations are those its Hermann-Mauguin name denotes (independent
   reference Model/ITARef.v), with the right order -- for every group but mm2 *)
Theorem C03_operations_match_name_outside_finding : forall g, In g groups ->
  g_name g <> "mm2" -> ita_ok g = true.
Proof.
  intros g Hg Hn. pose proof (forallb_In _ _ ita_ok_outside_mm2 g Hg) as H. cbv beta in H.
  apply orb_prop in H. destruct H as [H|H]; [|exact H].
  apply String.eqb_eq in H. contradiction.
Qed.
Print Assumptions C03_operations_match_name_outside_finding.

Theorem C03_operations_match_name_refuted : failing_groups ita_ok = ["mm2"].
Proof. exact ita_mm2_fails. Qed.
Print Assumptions C03_operations_match_name_refuted.

Theorem C03_reference_is_consistent : ita_table_ok = true.
Proof. exact ita_reference_consistent. Qed.
Print Assumptions C03_reference_is_consistent.

(* Laue group = the group extended by inversion (G u -G) and is a group *)
Theorem C03_laue : forall g, In g groups ->
  kseteq (g_laue g) (klaue_ref (g_elems g)) = true /\ kis_group (g_laue g) = true.
Proof.
  intros g Hg. pose proof (forallb_In _ _ all_laue_ok g Hg) as H.
  unfold laue_ok in H. apply andb_prop in H. exact H.
Qed.
Print Assumptions C03_laue.

(* proper subgroup = exactly the proper operations *)
Theorem C03_proper_subgroup : forall g, In g groups ->
  kseteq (g_proper g) (kproper_part (g_elems g)) = true /\
  kseteq (g_laue_proper g) (kproper_part (klaue_ref (g_elems g))) = true.
Proof.
  intros g Hg. pose proof (forallb_In _ _ all_proper_ok g Hg) as H. cbv beta in H.
  unfold proper_ok, laue_proper_ok in H.
  apply andb_prop in H. destruct H as [H1 H2]. apply andb_prop in H1. tauto.
Qed.
Print Assumptions C03_proper_subgroup.

(* subgroup / contains-inversion / is-proper queries agree with set inclusion,
   for all 38 x 38 ordered pairs of groups *)
Theorem C03_queries_agree_with_inclusion : forall g, In g groups ->
  g_contains_inversion g = kmem kinversion (g_elems g) /\
  g_is_proper g = forallb (fun r => negb (snd r)) (g_elems g) /\
  (forall h, In h groups ->
     existsb (String.eqb (g_name h)) (g_subgroups g) = ksubset (g_elems h) (g_elems g)).
Proof.
  intros g Hg. pose proof (forallb_In _ _ all_queries_ok g Hg) as H. cbv beta in H.
  apply andb_prop in H. destruct H as [H H3]. apply andb_prop in H. destruct H as [H1 H2].
  unfold inversion_ok in H1. unfold is_proper_ok in H2. unfold subgroups_ok in H3.
  apply andb_prop in H3. destruct H3 as [H3 _].
  repeat split.
  - apply eqb_prop; exact H1.
  - apply eqb_prop; exact H2.
  - intros h Hh. apply eqb_prop. exact (forallb_In _ _ H3 h Hh).
Qed.
Print Assumptions C03_queries_agree_with_inclusion.

(* all 230 space groups are covered *)
Theorem C03_spacegroups_enumerated : map sg_n spacegroups = map Z.of_nat (seq 1 230).
Proof. exact (proj2 sg_count). Qed.
Print Assumptions C03_spacegroups_enumerated.

(* the point group assigned to space group n is exactly the set of rotational
   parts of the space group's operations in the Cartesian crystal frame --
   for the 180 space groups outside the known finding ... *)
Theorem C03_spacegroup_point_group_outside_finding : forall s, In s spacegroups ->
  in_Z (sg_n s) sg_known_bad = false -> sg_ok s = true.
Proof.
  intros s Hs Hn. pose proof (forallb_In _ _ sg_ok_outside_known s Hs) as H. cbv beta in H.
  rewrite Hn in H. exact H.
Qed.
Print Assumptions C03_spacegroup_point_group_outside_finding.

(* ... and fails for exactly the 50 listed ones (another axis setting) *)
Theorem C03_spacegroup_point_group_refuted : failing_sgs sg_ok = sg_known_bad.
Proof. exact sg_known_bad_fail. Qed.
Print Assumptions C03_spacegroup_point_group_refuted.

(* Phase(space_group=n).point_group is that same group object *)
Theorem C03_phase_uses_that_group : forallb sg_phase_pg_same spacegroups = true.
Proof. exact sg_phase_same. Qed.
Print Assumptions C03_phase_uses_that_group.

Example C03_nonvacuous : List.length groups = 38%nat /\ List.length spacegroups = 230%nat.
Proof. split; [exact group_count | exact (proj1 sg_count)]. Qed.
