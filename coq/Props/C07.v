(* C07 -- Fundamental sector is a fundamental domain and projection into it is
   exact.  Model: Model/SectorModel.v (Vector3d.in_fundamental_sector with
   its special cases, argmax tie-break and "keep the ones already inside"),
   tied to the code by the correspondence check; the sector normals, centre
   and group elements are taken from the implementation at run time. *)
From Coq Require Import Reals ZArith List Bool Lra.
From Verif Require Import Scalar RInst Quat QuatAlg SectorModel SectorProofs.
Import ListNotations.
Local Open Scope R_scope.

(* the projection returns s * v for an operation s composed of listed group
   elements and their inverses -- for every direction (any length), every
   group list, every sector, every special case *)
Theorem C07_projection_is_group_image : forall kind tol (S : list (rot (T:=R))) N center v,
  let r := project ROps idR kind tol S N center v in
  r = v \/
  (exists s, (In s S \/ s = (qone ROps, false)) /\ r = ract ROps (rinv ROps s) v) \/
  (exists f, (In f S \/ f = (qone ROps, false)) /\ r = ract ROps f v) \/
  (exists s f, (In s S \/ s = (qone ROps, false)) /\ (In f S \/ f = (qone ROps, false)) /\
               r = ract ROps (rinv ROps s) (ract ROps f v)).
Proof. exact project_is_group_image. Qed.
Print Assumptions C07_projection_is_group_image.

(* the projection is exact: it never changes the length (non-unit input) *)
Theorem C07_projection_keeps_length : forall kind tol (S : list (rot (T:=R))) N center v,
  (forall s, In s S -> qnorm2 ROps (fst s) = 1) ->
  let r := project ROps idR kind tol S N center v in vdot ROps r r = vdot ROps v v.
Proof. exact project_keeps_length. Qed.
Print Assumptions C07_projection_keeps_length.

(* a direction inside the closed sector is left unchanged; so projecting twice
   changes nothing whenever the first projection lands inside the sector *)
Theorem C07_inside_is_fixed : forall tol (S : list (rot (T:=R))) N center v,
  in_sector ROps tol N v = true -> project ROps idR 0 tol S N center v = v.
Proof. exact project_fixes_inside. Qed.
Print Assumptions C07_inside_is_fixed.

Theorem C07_idempotent_partial : forall tol (S : list (rot (T:=R))) N center v,
  in_sector ROps tol N (project ROps idR 0 tol S N center v) = true ->
  project ROps idR 0 tol S N center (project ROps idR 0 tol S N center v)
  = project ROps idR 0 tol S N center v.
Proof. exact project_idempotent_if_lands_inside. Qed.
Print Assumptions C07_idempotent_partial.

(* PARTIAL.  FULL clauses not carried by a theorem: "the result lies inside the
   closed sector", "equivalents project to the same direction off the
   boundary", "every direction has an equivalent inside and directions in
   general position exactly one".  With the sector centres the code uses
   (binary64 means of a 1-degree mesh, or three-decimal MTEX constants) the
   Voronoi cell of the centre is only within ~1e-16..1e-3 of the sector, so
   these clauses are statements about the 1e-9 tolerance, not exact cone
   identities; they are decided by the brute-force oracle on stratified
   directions (on / within 1e-9 of every bounding plane, vertices, rotation
   axes, both hemispheres, non-unit lengths) for all 38 groups and their Laue
   groups, and by the Coq-evaluated correspondence of the projection itself. *)

Example C07_nonvacuous :
  in_sector ROps (1 / 1000000000) [(0, 0, 1)] (0, 0, 1) = true.
Proof.
  unfold in_sector, vdot. cbn [forallb]. rsimpl. rewrite andb_true_r. apply Rltb_true. lra.
Qed.
