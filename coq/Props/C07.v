(* C07 -- Fundamental sector is a fundamental domain and projection into it is
   exact.  Model: Model/SectorModel.v (Vector3d.in_fundamental_sector with
   its special cases, argmax tie-break and "keep the ones already inside"),
   tied to the code by the correspondence check; the sector normals, centre
   and group elements are taken from the implementation at run time. *)
From Coq Require Import Reals ZArith List Bool Lra.
From Coq Require Import QArith String.
From Verif Require Import Scalar RInst KField KtoR KSign Quat QuatAlg GroupK Groups SymDotK SectorModel SectorProofs
  CoverCheck CoverSound SectorCertsAll SectorDomain.
Import ListNotations.
Local Open Scope R_scope.
Open Scope string_scope.

(* the projection returns s * v for an operation s composed of listed group
   elements and their inverses -- for every direction (any length), every
   group list, every sector, every special case *)
Theorem C07_projection_is_group_image : forall kind tol (S : list (rot (T:=R))) N center v,
  let r := project ROps idR kind tol S N center v in
  r = v \/
  (exists s, (In s S \/ s = (qone ROps, false)) /\ r = ract ROps (rinv ROps s) v) \/
  (exists f, (In f S \/ f = (qone ROps, false)) /\ r = ract ROps f v) \/
  (exists s f, (In s S \/ s = (qone ROps, false)) /\ (In f S \/ f = (qone ROps, false)) /\
               r = ract ROps (rinv ROps s) (ract ROps f v)).
Proof. exact project_is_group_image. Qed.
Print Assumptions C07_projection_is_group_image.

(* the projection is exact: it never changes the length (non-unit input) *)
Theorem C07_projection_keeps_length : forall kind tol (S : list (rot (T:=R))) N center v,
  (forall s, In s S -> qnorm2 ROps (fst s) = 1) ->
  let r := project ROps idR kind tol S N center v in vdot ROps r r = vdot ROps v v.
Proof. exact project_keeps_length. Qed.
Print Assumptions C07_projection_keeps_length.

(* a vector whose direction (unit vector) is inside the closed sector is left unchanged; so projecting twice
   changes nothing whenever the first projection lands inside the sector *)
Theorem C07_inside_is_fixed : forall tol (S : list (rot (T:=R))) N center v,
  in_sector ROps tol N (vunit ROps v) = true -> project ROps idR 0 tol S N center v = v.
Proof. exact project_fixes_inside. Qed.
Print Assumptions C07_inside_is_fixed.

Theorem C07_idempotent_partial : forall tol (S : list (rot (T:=R))) N center v,
  in_sector ROps tol N (vunit ROps (project ROps idR 0 tol S N center v)) = true ->
  project ROps idR 0 tol S N center (project ROps idR 0 tol S N center v)
  = project ROps idR 0 tol S N center v.
Proof. exact project_idempotent_if_lands_inside. Qed.
Print Assumptions C07_idempotent_partial.

(* ---------------------------------------------------------------------------------------------
   THE SECTOR IS A FUNDAMENTAL DOMAIN.  Subjects: the 38 named point groups and the 38 groups
   returned by their .laue (76 subjects; operations from Gen/Groups.v, sector normals from
   Gen/SectorCerts*.v -- both regenerated from /repo on every run and recognised exactly in
   K = Q(sqrt2, sqrt3)).  70 subjects carry a certificate; the other 6 are refuted below. *)

(* no gaps: EVERY real direction x (any length, either hemisphere, on or off any boundary) has a
   symmetry-equivalent r * x in the closed sector *)
Theorem C07_sector_has_no_gaps : forall sc, In sc (List.concat all_sector_certs) ->
  forall x : vec3 (T:=R), exists r, In r (sc_ops sc) /\
    forall n, In n (sc_N sc) -> 0 <= vdot ROps (vtoR n) (ract ROps (rtoR r) x).
Proof. exact sector_covers. Qed.
Print Assumptions C07_sector_has_no_gaps.

(* ... hence passes the code's test  n . v > -tol  for every positive tolerance *)
Theorem C07_sector_has_no_gaps_tol : forall sc, In sc (List.concat all_sector_certs) ->
  forall (tol : R) (x : vec3 (T:=R)), 0 < tol ->
  exists r, In r (sc_ops sc) /\ in_sector ROps tol (map vtoR (sc_N sc)) (ract ROps (rtoR r) x) = true.
Proof.
  intros sc H tol x Ht. destruct (sector_covers sc H x) as [r [Hr Hc]].
  exists r. split; [exact Hr|]. apply in_cone_in_sector; assumption.
Qed.
Print Assumptions C07_sector_has_no_gaps_tol.

(* no overlaps: a direction strictly inside the sector is strictly inside under NO other operation
   (the first operation of every subject is the identity) *)
Theorem C07_sector_has_no_overlaps : forall sc, In sc (List.concat all_sector_certs) ->
  forall x : vec3 (T:=R), (forall n, In n (sc_N sc) -> 0 < vdot ROps (vtoR n) x) ->
  forall r, In r (tl (sc_ops sc)) ->
    ~ (forall n, In n (sc_N sc) -> 0 < vdot ROps (vtoR n) (ract ROps (rtoR r) x)).
Proof. exact sector_no_overlap. Qed.
Print Assumptions C07_sector_has_no_overlaps.

(* exactly one: two operations that both map a direction strictly inside the sector are the same operation (same
   improper flag, quaternions equal up to the overall sign) -- with "no gaps": a direction in general position has
   exactly one symmetry-equivalent inside the sector.  Uses closure and inverses of the operation lists, checked
   exactly for all 70 subjects. *)
Theorem C07_exactly_one_operation : forall sc, In sc (List.concat all_sector_certs) ->
  forall (x : vec3 (T:=R)) r s, In r (sc_ops sc) -> In s (sc_ops sc) ->
  (forall n, In n (sc_N sc) -> 0 < vdot ROps (vtoR n) (ract ROps (rtoR r) x)) ->
  (forall n, In n (sc_N sc) -> 0 < vdot ROps (vtoR n) (ract ROps (rtoR s) x)) ->
  snd (rtoR s) = snd (rtoR r) /\ (fst (rtoR s) = fst (rtoR r) \/ fst (rtoR s) = qneg ROps (fst (rtoR r))).
Proof. exact sector_unique_operation. Qed.
Print Assumptions C07_exactly_one_operation.

(* ALL SYMMETRY-EQUIVALENT DIRECTIONS HAVE THE SAME REPRESENTATIVE OFF THE BOUNDARY: if an operation r maps x, and an
   operation s maps the equivalent direction g * x, strictly inside the sector, the two images coincide -- for ANY rule
   that picks r and s (in particular for the projection, whose result is such an image by C07_projection_is_group_image,
   whenever it lands strictly inside) *)
Theorem C07_equivalents_have_one_representative : forall sc, In sc (List.concat all_sector_certs) ->
  forall (x : vec3 (T:=R)) g r s, In g (sc_ops sc) -> In r (sc_ops sc) -> In s (sc_ops sc) ->
  (forall n, In n (sc_N sc) -> 0 < vdot ROps (vtoR n) (ract ROps (rtoR r) x)) ->
  (forall n, In n (sc_N sc) -> 0 < vdot ROps (vtoR n) (ract ROps (rtoR s) (ract ROps (rtoR g) x))) ->
  ract ROps (rtoR s) (ract ROps (rtoR g) x) = ract ROps (rtoR r) x.
Proof. exact sector_representative_unique. Qed.
Print Assumptions C07_equivalents_have_one_representative.

Theorem C07_sector_first_operation_is_identity : forall sc, In sc (List.concat all_sector_certs) ->
  exists r rest, sc_ops sc = r :: rest /\ rtoR r = (qone ROps, false).
Proof. exact sector_identity_first. Qed.
Print Assumptions C07_sector_first_operation_is_identity.

(* every one of the 76 subjects is either certified (70) or refuted (6) -- none is skipped *)
Theorem C07_all_sectors_decided :
  subjects_covered (List.concat all_sector_certs) sector_defects = true /\
  List.length (List.concat all_sector_certs) = 70%nat /\ List.length groups = 38%nat.
Proof. split; [exact sector_subjects_all_decided|split; [exact sector_cert_count|exact sector_group_count]]. Qed.
Print Assumptions C07_all_sectors_decided.

(* REFUTED for six subjects (known findings m11, 1m1, -6m2, laue(211), laue(m11), laue(312)): an exact
   rational direction NONE of whose equivalents lies in the closed sector *)
Theorem C07_sector_is_domain_refuted : forall sd, In sd sector_defects ->
  forall r, In r (subject_ops (sd_name sd) (sd_laue sd)) ->
    ~ (forall n, In n (sd_N sd) -> 0 <= vdot ROps (vtoR n) (ract ROps (rtoR r) (vtoR (kv_ofQ (sd_dir sd))))).
Proof. intros sd H. exact (proj2 (sector_defects_are_gaps sd H)). Qed.
Print Assumptions C07_sector_is_domain_refuted.

(* ... and these six are exactly the listed ones (group name, Laue?) -- a seventh breaks this proof *)
Theorem C07_defective_sectors_are_the_known_ones :
  map (fun sd => (sd_name sd, sd_laue sd)) sector_defects = known_defective_sectors.
Proof. exact sector_defects_are_the_known_ones. Qed.
Print Assumptions C07_defective_sectors_are_the_known_ones.

(* PARTIAL.  Clauses about the PROJECTION not carried by a theorem: "the projected direction lies inside
   the closed sector" and "equivalents project to the same direction off the boundary".  The projection
   chooses the operation by the distance to a sector centre; with the centres the code uses (binary64
   means of a 1-degree mesh, or three-decimal MTEX constants) the Voronoi cell of the centre is only
   within ~1e-16..1e-3 of the sector, so these clauses are statements about the 1e-9 tolerance, not exact
   cone identities; they are decided by the brute-force oracle on stratified directions (on / within 1e-9
   of every bounding plane, vertices, rotation axes, both hemispheres, non-unit lengths) for all 38 groups
   and their Laue groups, and by the Coq-evaluated correspondence of the projection itself. *)

Example C07_nonvacuous :
  in_sector ROps (1 / 1000000000) [(0, 0, 1)] (0, 0, 1) = true.
Proof.
  unfold in_sector, vdot. cbn [forallb]. rsimpl. rewrite andb_true_r. apply Rltb_true. lra.
Qed.

(* non-vacuity of the hypotheses of C07_sector_has_no_overlaps / C07_exactly_one_operation: a certified subject
   (point group -1, sector z >= 0) and a direction strictly inside its sector *)
Definition pick_sc (name : string) : option sector_cert :=
  find (fun sc => String.eqb (sc_name sc) name && negb (sc_laue sc)) (List.concat all_sector_certs).
Example C07_overlap_hypotheses_nonvacuous :
  exists sc (x : vec3 (T:=R)), In sc (List.concat all_sector_certs) /\ sc_N sc <> [] /\
    (forall n, In n (sc_N sc) -> 0 < vdot ROps (vtoR n) x).
Proof.
  destruct (pick_sc "-1") as [sc|] eqn:E; [|vm_compute in E; discriminate].
  exists sc, (0, 0, 1). unfold pick_sc in E. pose proof (find_some _ _ E) as [Hin _].
  assert (HN : sc_N sc = [(K0, K0, K1)]).
  { vm_compute in E. inversion E. reflexivity. }
  split; [exact Hin|]. rewrite HN. split; [discriminate|].
  intros n [<-|[]]. unfold vtoR, vdot. rewrite toR_K0, toR_K1. rsimpl. lra.
Qed.
