(* C09 -- Crystal frame alignment and Miller index conversions are exact
   linear maps.  Property theorems only; proofs are in Proofs/C09*.v.

   The statements are about
     * the definitions GENERATED from orix/vector/miller.py (coq/Gen/C09Miller.v):
       uvw2UVTW UVTW2uvw hkl2hkil hkil2hkl (+ mtex convention), check_UVTW,
       check_hkil, transform_space, cross_format, fmt_space;
     * the hand-written model (Model/C09Model.v) of diffpy's setLatBase / reciprocal(),
       _new_structure_matrix_from_alignment, the Phase.structure setter and the
       Miller object, tied to the code by the correspondence check,
   instantiated on the real numbers.  [lattice_of_base A = Ok L] says: L is the
   lattice object a Phase holds after diffpy accepted the base A (rows a, b, c). *)
From Coq Require Import Reals List Bool.
From Verif Require Import Scalar RInst C09Lin C09Miller C09Model.
From Verif Require Import C09LinAlg C09Alg C09Align C09Obj C09Main.
Import ListNotations.
Local Open Scope R_scope.

(* ================= 4-index <-> 3-index ================= *)

(* uvw -> UVTW -> uvw is the identity and U+V+T = 0, for all real triplets *)
Theorem C09_uvw_UVTW_roundtrip : forall x : vec3 R,
  t3 (UVTW2uvw ROps) (t4 (uvw2UVTW ROps) x) = x /\
  (let '(U, V, T, W) := t4 (uvw2UVTW ROps) x in U + V + T = 0).
Proof. exact m_uvw_UVTW. Qed.
Print Assumptions C09_uvw_UVTW_roundtrip.

Theorem C09_UVTW_uvw_roundtrip : forall q : vec4 R,
  (let '(U, V, T, W) := q in U + V + T = 0) -> t4 (uvw2UVTW ROps) (t3 (UVTW2uvw ROps) q) = q.
Proof. exact UVTW_uvw_UVTW. Qed.
Print Assumptions C09_UVTW_uvw_roundtrip.

Theorem C09_hkl_hkil_roundtrip : forall x : vec3 R,
  t3 (hkil2hkl ROps) (t4 (hkl2hkil ROps) x) = x /\
  (let '(h, k, i, l) := t4 (hkl2hkil ROps) x in h + k + i = 0).
Proof. exact m_hkl_hkil. Qed.
Print Assumptions C09_hkl_hkil_roundtrip.

Theorem C09_hkil_hkl_roundtrip : forall q : vec4 R,
  (let '(h, k, i, l) := q in h + k + i = 0) -> t4 (hkl2hkil ROps) (t3 (hkil2hkl ROps) q) = q.
Proof. exact hkil_hkl_hkil. Qed.
Print Assumptions C09_hkil_hkl_roundtrip.

(* the "mtex" convention: same laws, and it is the default one scaled by 3 *)
Theorem C09_mtex_convention : forall (x : vec3 R) (q : vec4 R),
  t3 (UVTW2uvw_mtex ROps) (t4 (uvw2UVTW_mtex ROps) x) = x /\
  (let '(U, V, T, W) := t4 (uvw2UVTW_mtex ROps) x in U + V + T = 0) /\
  ((let '(U, V, T, W) := q in U + V + T = 0) ->
   t4 (uvw2UVTW_mtex ROps) (t3 (UVTW2uvw_mtex ROps) q) = q) /\
  t4 (uvw2UVTW_mtex ROps) x
  = (let '(U, V, T, W) := t4 (uvw2UVTW ROps) x in (3 * U, 3 * V, 3 * T, 3 * W)).
Proof. exact m_mtex. Qed.
Print Assumptions C09_mtex_convention.

(* the consistency checks of the constructor accept exactly |sum| <= 1e-4 *)
Theorem C09_4index_checks : forall q : vec4 R,
  (b4 (check_UVTW ROps) q = true <-> (let '(U, V, T, W) := q in Rabs (U + V + T) <= 1 / 10000)) /\
  (b4 (check_hkil ROps) q = true <-> (let '(h, k, i, l) := q in Rabs (h + k + i) <= 1 / 10000)).
Proof. exact m_checks. Qed.
Print Assumptions C09_4index_checks.

(* ================= the lattice object ================= *)

(* direct and reciprocal bases are dual: base . recbase = recbase . base = I *)
Theorem C09_base_recbase_dual : forall (A : mat3 R) (L : lattice R),
  lattice_of_base ROps A = Ok L ->
  mmul ROps (l_base L) (l_recbase L) = mid ROps /\ mmul ROps (l_recbase L) (l_base L) = mid ROps.
Proof. exact base_recbase_dual. Qed.
Print Assumptions C09_base_recbase_dual.

(* the metric tensors diffpy computes from lengths and cosines are A A^T and B^T B *)
Theorem C09_metric_tensors : forall (A : mat3 R) (L : lattice R),
  lattice_of_base ROps A = Ok L ->
  l_metrics L = gram A /\ (forall G, l_rec_metrics L = Ok G -> G = rgram A).
Proof. exact metrics_are_gram. Qed.
Print Assumptions C09_metric_tensors.

(* every right-handed base with volume >= 1e-8 is accepted ... *)
Theorem C09_lattice_accepted_partial : forall A : mat3 R,
  1 / 100000000 <= mdet ROps A -> exists L, lattice_of_base ROps A = Ok L.
Proof. exact m_lattice_accepted. Qed.
Print Assumptions C09_lattice_accepted_partial.
(* full statement would be: 0 < mdet A -> accepted.  Missing: cells with volume below 1e-8
   (in the user's length unit) are rejected by diffpy's determinant guard: *)
Theorem C09_lattice_small_cell_refuted :
  exists A : mat3 R, 0 < mdet ROps A /\ lattice_of_base ROps A = Err LatticeError.
Proof. exact small_cell_refuted. Qed.
Print Assumptions C09_lattice_small_cell_refuted.

(* ================= space conversions ================= *)

(* each conversion is multiplication of the row vector by one fixed matrix
   (an exact linear map), and these matrices are I, A, A^-1, A^-T, A^T, A A^T, B^T B *)
Theorem C09_conversions_linear : forall (A : mat3 R) (L : lattice R) (si so : space) (v w : vec3 R),
  lattice_of_base ROps A = Ok L -> transform_space ROps L si so v = Ok w ->
  w = vmat ROps v (conv_mat A si so).
Proof. exact m_conversions_linear. Qed.
Print Assumptions C09_conversions_linear.

Theorem C09_linear_maps : forall (s : R) (x y : vec3 R) (M : mat3 R),
  vmat ROps (vadd ROps (vscale ROps s x) y) M = vadd ROps (vscale ROps s (vmat ROps x M)) (vmat ROps y M).
Proof. exact vmat_linear. Qed.
Print Assumptions C09_linear_maps.

(* converting s1 -> s2 -> s3 equals converting s1 -> s3, for all 27 triples of
   {direct, reciprocal, Cartesian} *)
Theorem C09_conversions_compose :
  forall (A : mat3 R) (L : lattice R) (s1 s2 s3 : space) (v v1 v2 v3 : vec3 R),
  lattice_of_base ROps A = Ok L ->
  transform_space ROps L s1 s2 v = Ok v1 -> transform_space ROps L s2 s3 v1 = Ok v2 ->
  transform_space ROps L s1 s3 v = Ok v3 -> v2 = v3.
Proof. exact conversions_compose. Qed.
Print Assumptions C09_conversions_compose.

(* ... in particular there and back is the identity, for all 9 pairs *)
Theorem C09_conversions_roundtrip :
  forall (A : mat3 R) (L : lattice R) (s1 s2 : space) (v v1 v2 : vec3 R),
  lattice_of_base ROps A = Ok L ->
  transform_space ROps L s1 s2 v = Ok v1 -> transform_space ROps L s2 s1 v1 = Ok v2 -> v2 = v.
Proof. exact conversions_roundtrip. Qed.
Print Assumptions C09_conversions_roundtrip.

(* no conversion raises, for all nine pairs, on every lattice a Phase can hold *)
Theorem C09_conversions_total :
  forall (A : mat3 R) (L : lattice R) (s1 s2 : space) (v : vec3 R),
  lattice_of_base ROps A = Ok L -> exists w, transform_space ROps L s1 s2 v = Ok w.
Proof. exact conversions_total. Qed.
Print Assumptions C09_conversions_total.

(* ... including reciprocal -> direct on cells of volume > 1e8, where diffpy's
   lattice.reciprocal() raises (the conversion used to go through it) *)
Theorem C09_conversions_large_cell :
  exists (A : mat3 R) (L : lattice R),
    lattice_of_base ROps A = Ok L /\ 100000000 < mdet ROps A /\
    l_rec_metrics L = Err LatticeError /\
    forall v : vec3 R, transform_space ROps L Sr Sd v = Ok (vmat ROps v (rgram A)).
Proof. exact conversion_rd_large_cell. Qed.
Print Assumptions C09_conversions_large_cell.

(* ================= zone law, duality, lengths ================= *)

(* <uvw A, hkl B^T> = uh + vk + wl *)
Theorem C09_zone_law : forall (A : mat3 R) (L : lattice R) (uvw hkl x g : vec3 R),
  lattice_of_base ROps A = Ok L ->
  transform_space ROps L Sd Sc uvw = Ok x -> transform_space ROps L Sr Sc hkl = Ok g ->
  vdot ROps x g = vdot ROps uvw hkl.
Proof. exact zone_law. Qed.
Print Assumptions C09_zone_law.

(* a_i . a*_j = delta_ij *)
Theorem C09_dual_bases : forall (A : mat3 R) (L : lattice R) (i j : nat) (ai arj : vec3 R),
  lattice_of_base ROps A = Ok L ->
  transform_space ROps L Sd Sc (e_ i) = Ok ai -> transform_space ROps L Sr Sc (e_ j) = Ok arj ->
  vdot ROps ai arj = vdot ROps (e_ i) (e_ j).
Proof. exact dual_bases. Qed.
Print Assumptions C09_dual_bases.

Theorem C09_dual_bases_delta : forall i j : nat, (i < 3)%nat -> (j < 3)%nat ->
  vdot ROps (e_ i) (e_ j) = if Nat.eqb i j then 1 else 0.
Proof. exact e_dot. Qed.
Print Assumptions C09_dual_bases_delta.

(* |hkl B^T|^2 = hkl G* hkl^T, where hkl G* is the reciprocal -> direct conversion of hkl
   (G* = recbase.T @ recbase); diffpy's lattice.reciprocal().metrics, when it can be
   built, is the same G* *)
Theorem C09_reciprocal_length : forall (A : mat3 R) (L : lattice R) (hkl g : vec3 R),
  lattice_of_base ROps A = Ok L -> transform_space ROps L Sr Sc hkl = Ok g ->
  (exists u, transform_space ROps L Sr Sd hkl = Ok u /\ vnorm2 ROps g = vdot ROps u hkl) /\
  (forall Gs, l_rec_metrics L = Ok Gs -> vnorm2 ROps g = vdot ROps (vmat ROps hkl Gs) hkl).
Proof. exact m_reciprocal_length. Qed.
Print Assumptions C09_reciprocal_length.

Theorem C09_direct_length : forall (A : mat3 R) (L : lattice R) (uvw x : vec3 R),
  lattice_of_base ROps A = Ok L -> transform_space ROps L Sd Sc uvw = Ok x ->
  vnorm2 ROps x = vdot ROps (vmat ROps uvw (l_metrics L)) uvw.
Proof. exact m_direct_length. Qed.
Print Assumptions C09_direct_length.

(* a reciprocal lattice vector's length is 1/d_hkl: on the first lattice plane
   { uvw : uh+vk+wl = 1 } every point is at distance >= 1/|g| from the origin
   and some point is at exactly that distance *)
Theorem C09_dspacing : forall (A : mat3 R) (L : lattice R) (hkl g : vec3 R),
  lattice_of_base ROps A = Ok L -> transform_space ROps L Sr Sc hkl = Ok g -> hkl <> (0, 0, 0) ->
  0 < vnorm2 ROps g /\
  (forall uvw x, vdot ROps uvw hkl = 1 -> transform_space ROps L Sd Sc uvw = Ok x ->
                 1 <= vnorm2 ROps x * vnorm2 ROps g) /\
  (exists uvw x, vdot ROps uvw hkl = 1 /\ transform_space ROps L Sd Sc uvw = Ok x /\
                 vnorm2 ROps x * vnorm2 ROps g = 1).
Proof. exact m_dspacing. Qed.
Print Assumptions C09_dspacing.

(* ================= cross products ================= *)

Theorem C09_cross_perpendicular : forall u v : vec3 R,
  vdot ROps (vcross ROps u v) u = 0 /\ vdot ROps (vcross ROps u v) v = 0.
Proof. exact m_cross_perp. Qed.
Print Assumptions C09_cross_perpendicular.

(* Miller.cross of compatible vectors never raises, in any of the five formats: the result
   is x1 x x2; 3-index stays 3-index and 4-index stays 4-index; lattice formats are reported
   in the dual space (direct <-> reciprocal), the Cartesian format "xyz" stays "xyz" *)
Theorem C09_cross_dual_format : forall (f1 f2 : fmt) (x1 x2 : vec3 R),
  compatible f1 f2 = true ->
  exists f', cross ROps f1 x1 f2 x2 = Ok (f', vcross ROps x1 x2) /\
             (f1 <> Fxyz -> fmt_space f' <> fmt_space f1) /\ (f1 = Fxyz -> f' = Fxyz) /\
             is4 f' = is4 f1 /\
             vdot ROps (vcross ROps x1 x2) x1 = 0 /\ vdot ROps (vcross ROps x1 x2) x2 = 0.
Proof. exact cross_dual_format. Qed.
Print Assumptions C09_cross_dual_format.

(* the indices of the product in the dual space:
   [u1] x [u2] = V (u1 x u2) as (hkl);   (h1) x (h2) = (h1 x h2)/V as [uvw] *)
Theorem C09_cross_indices :
  forall (A : mat3 R) (L : lattice R) (i1 i2 x1 x2 : vec3 R) (f f' : fmt) (z : vec3 R) (c : list R),
  lattice_of_base ROps A = Ok L -> f = Fuvw \/ f = Fhkl ->
  make ROps L f (l3 i1) = Ok x1 -> make ROps L f (l3 i2) = Ok x2 ->
  cross ROps f x1 f x2 = Ok (f', z) -> coords ROps L f' z = Ok c ->
  (f = Fuvw -> f' = Fhkl /\ c = l3 (vscale ROps (mdet ROps A) (vcross ROps i1 i2))) /\
  (f = Fhkl -> f' = Fuvw /\ c = l3 (vscale ROps (/ mdet ROps A) (vcross ROps i1 i2))).
Proof. exact m_cross_indices. Qed.
Print Assumptions C09_cross_indices.

(* the zone axis of two planes lies in both planes *)
Theorem C09_zone_axis : forall (A : mat3 R) (h1 h2 : vec3 R),
  mdet ROps A <> 0 ->
  let z := vcross ROps (vmat ROps h1 (mtr (minv ROps A))) (vmat ROps h2 (mtr (minv ROps A))) in
  let uvw := vmat ROps z (minv ROps A) in
  vdot ROps uvw h1 = 0 /\ vdot ROps uvw h2 = 0.
Proof. exact zone_axis. Qed.
Print Assumptions C09_zone_axis.

(* ================= frame alignment ================= *)

(* for EVERY non-singular base: the new base is the old one times a proper rotation *)
Theorem C09_align_is_rotation : forall A N : mat3 R,
  mdet ROps A <> 0 -> align ROps A = Ok N ->
  exists Rm : mat3 R, N = mmul ROps A Rm /\ mmul ROps Rm (mtr Rm) = mid ROps /\ mdet ROps Rm = 1.
Proof. exact align_is_rotation. Qed.
Print Assumptions C09_align_is_rotation.

(* lattice parameters unchanged: same Gram matrix, same (a, b, c, cos alpha, cos beta, cos gamma) *)
Theorem C09_align_lattice_parameters : forall A N : mat3 R,
  mdet ROps A <> 0 -> align ROps A = Ok N ->
  gram N = gram A /\ cell_of_base ROps N = cell_of_base ROps A.
Proof. exact m_align_cell. Qed.
Print Assumptions C09_align_lattice_parameters.

(* a along e1, c* along e3, right-handed: on the lattice object of the new base *)
Theorem C09_align_axes : forall (A N : mat3 R) (L : lattice R),
  0 < mdet ROps A -> align ROps A = Ok N -> lattice_of_base ROps N = Ok L ->
  (exists p, transform_space ROps L Sd Sc (1, 0, 0) = Ok (p, 0, 0) /\ 0 < p) /\
  (exists z, transform_space ROps L Sr Sc (0, 0, 1) = Ok (0, 0, z) /\ 0 < z) /\
  mdet ROps (l_base L) = mdet ROps A.
Proof. exact m_align_axes. Qed.
Print Assumptions C09_align_axes.

(* the new base is lower triangular with positive diagonal (a = (|a|,0,0), b in the e1-e2 plane) *)
Theorem C09_align_shape : forall A N : mat3 R,
  mdet ROps A <> 0 -> align ROps A = Ok N ->
  exists p q r s t u : R,
    N = ((p, 0, 0), (q, r, 0), (s, t, u)) /\
    p = vnorm ROps (mrow A 0) /\ 0 < p /\ 0 < r /\ p * r * u = mdet ROps A.
Proof. exact align_shape. Qed.
Print Assumptions C09_align_shape.

(* the Phase.structure setter: total on every base diffpy accepts, the lattice it
   installs is that of the aligned base, and every atom keeps its Cartesian position *)
Theorem C09_structure_setter_atoms : forall (A : mat3 R) (fracs : list (vec3 R)),
  1 / 100000000 <= mdet ROps A ->
  exists (N : mat3 R) (fr' : list (vec3 R)),
    align ROps A = Ok N /\
    set_structure ROps A fracs = Ok (Lat N, fr') /\
    map (fun f' => vmat ROps f' N) fr' = map (fun f => vmat ROps f A) fracs /\
    length fr' = length fracs.
Proof. exact set_structure_spec. Qed.
Print Assumptions C09_structure_setter_atoms.

(* an aligned base is a fixed point; the result does not depend on the initial
   rotation of the base (it is a function of the lattice parameters only) *)
Theorem C09_align_idempotent : forall A N : mat3 R,
  mdet ROps A <> 0 -> align ROps A = Ok N -> align ROps N = Ok N.
Proof. exact align_idempotent. Qed.
Print Assumptions C09_align_idempotent.

Theorem C09_align_rotation_invariant : forall A Rm : mat3 R,
  mdet ROps A <> 0 -> rotation Rm -> align ROps (mmul ROps A Rm) = align ROps A.
Proof. exact align_rotation_invariant. Qed.
Print Assumptions C09_align_rotation_invariant.

(* left-handed input is not made right-handed by the alignment (c* ends along -e3);
   the setter then fails in diffpy ("base is not right-handed") *)
Theorem C09_align_lefthanded : forall (A N : mat3 R) (fracs : list (vec3 R)),
  mdet ROps A < 0 -> align ROps A = Ok N ->
  (exists z : R, vmat ROps (0, 0, 1) (mtr (minv ROps N)) = (0, 0, z) /\ z < 0) /\
  set_structure ROps A fracs = Err LatticeError.
Proof. exact m_align_lefthanded. Qed.
Print Assumptions C09_align_lefthanded.

(* ================= the Miller object ================= *)

(* coordinates given in format f1, read in ANY format f2, used to rebuild the
   vector, and read back in f1: same vector, same coordinates -- all 25 pairs *)
Theorem C09_object_roundtrip :
  forall (A : mat3 R) (L : lattice R) (f1 f2 : fmt) (c1 c2 c1' : list R) (x x' : vec3 R),
  lattice_of_base ROps A = Ok L -> wf f1 c1 ->
  make ROps L f1 c1 = Ok x -> coords ROps L f2 x = Ok c2 ->
  make ROps L f2 c2 = Ok x' -> coords ROps L f1 x' = Ok c1' ->
  x' = x /\ c1' = c1.
Proof. exact m_object_roundtrip. Qed.
Print Assumptions C09_object_roundtrip.

(* ... and none of these steps raises; 4-index output always satisfies the sum rule *)
Theorem C09_object_total : forall (A : mat3 R) (L : lattice R) (f1 f2 : fmt) (c1 : list R),
  lattice_of_base ROps A = Ok L -> wf f1 c1 ->
  exists x c2, make ROps L f1 c1 = Ok x /\ coords ROps L f2 x = Ok c2 /\ wf f2 c2 /\
               make ROps L f2 c2 = Ok x.
Proof. exact m_object_total. Qed.
Print Assumptions C09_object_total.

(* Miller.length is the Cartesian norm in every format *)
Theorem C09_object_length : forall (A : mat3 R) (L : lattice R) (f : fmt) (x : vec3 R) (l : R),
  lattice_of_base ROps A = Ok L -> length_of ROps L f x = Ok l -> l = vnorm ROps x.
Proof. exact m_object_length. Qed.
Print Assumptions C09_object_length.

(* dot product of a direct and a reciprocal lattice vector (stored data) = uh+vk+wl *)
Theorem C09_object_dot : forall (A : mat3 R) (L : lattice R) (uvw hkl x g : vec3 R),
  lattice_of_base ROps A = Ok L ->
  make ROps L Fuvw (l3 uvw) = Ok x -> make ROps L Fhkl (l3 hkl) = Ok g ->
  vdot ROps x g = vdot ROps uvw hkl.
Proof. exact m_object_dot. Qed.
Print Assumptions C09_object_dot.

(* arrays of any shape: element-wise, same number of vectors *)
Theorem C09_arrays_elementwise : forall (A : mat3 R) (f : fmt) (xs : list (vec3 R)) (cs : list (list R)),
  coords_arr ROps (Lat A) f xs = Ok cs ->
  length cs = length xs /\
  forall i x, nth_error xs i = Some x ->
              exists c, nth_error cs i = Some c /\ coords ROps (Lat A) f x = Ok c.
Proof. exact coords_arr_elementwise. Qed.
Print Assumptions C09_arrays_elementwise.

Theorem C09_transform_arrays_elementwise :
  forall (L : lattice R) (si so : space) (vs ws : list (vec3 R)),
  transform_space_arr ROps L si so vs = Ok ws ->
  length ws = length vs /\
  forall i v, nth_error vs i = Some v ->
              exists w, nth_error ws i = Some w /\ transform_space ROps L si so v = Ok w.
Proof. exact transform_arr_elementwise. Qed.
Print Assumptions C09_transform_arrays_elementwise.

(* ================= non-vacuity ================= *)

(* an oblique (triclinic) base satisfies the hypotheses; a non-trivial proper
   rotation exists; 4-index input with U+V+T = 0 is well-formed *)
Example C09_nonvacuous :
  (lattice_of_base ROps tricl = Ok (Lat tricl) /\ mdet ROps tricl = 60) /\
  rotation rotz90 /\ wf FUVTW [2; -1; -1; 3] /\ wf Fhkl [1; 2; 3].
Proof.
  split; [exact tricl_ok|]. split; [exact rotz90_rotation|]. split; [simpl; ring | exact I].
Qed.
