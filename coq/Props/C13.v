(* C13 -- orix HDF5 save/load is lossless.  Property theorems only.
   Model: Model/C13Store.v (dict2hdf5group / hdf5group2dict, h5py as the identity
   on typed arrays and fixed-width byte strings, links in name order) and
   Model/C13Map.v (crystalmap2dict ... dict2crystalmap, CrystalMap.__init__,
   Phase.__init__); rotations go through the GENERATED kernels qu2eu / eu2qu.
   `wf` (Proofs/C13Main.v) collects the hypotheses the proof forced; every one of
   them is replayed on the implementation (design.d/C13.md, known findings). *)
From Coq Require Import ZArith List Bool String Reals Permutation Sorted Lia.
From Verif Require Import Scalar RInst Quat C13Store C13Map C13StoreP C13MapP C13Main C13Euler.
Import ListNotations.

(* ---- the generic store ------------------------------------------------------ *)
(* reading what dict2hdf5group wrote returns the "expected reading" rd of the
   python dict, for EVERY nested dict of strings, scalars, arrays and None items
   (a None item is skipped with a warning, the items after it are written) *)
Theorem C13_store_roundtrip : forall (T : Type) (v : pv T), h52dict (dict2h5 v) = rd v.
Proof. exact @store_roundtrip. Qed.
Print Assumptions C13_store_roundtrip.
Theorem C13_none_skipped : forall (T : Type) (k : string) (l : list (string * pv T)),
  dict2h5 (PD ((k, PN) :: l)) = dict2h5 (PD l).
Proof. exact @none_skipped. Qed.
Print Assumptions C13_none_skipped.

(* FULL clause: every str value is read back unchanged: every string of Unicode
   scalar values without NUL characters (UTF-8 written into len(bytes)+1 bytes,
   UTF-8 read).  [python cannot encode lone surrogates; numpy/h5py drop trailing
   NULs of a fixed-width item] *)
Theorem C13_string_roundtrip : forall s : pystr, ustr s -> decode_str (str_stored s) = s.
Proof. exact str_roundtrip. Qed.
Print Assumptions C13_string_roundtrip.
Theorem C13_string_ascii : forall s : pystr, ascii_str s -> decode_str (str_stored s) = s.
Proof. exact str_roundtrip_ascii. Qed.
Print Assumptions C13_string_ascii.
(* bytes that are not valid UTF-8 (files of other writers) are read as latin-1 *)
Theorem C13_string_fallback : forall b : list Z, utf8_dec b = None -> decode_str b = latin1 b.
Proof. exact decode_str_fallback. Qed.
Print Assumptions C13_string_fallback.

(* FULL clause: every array is read back unchanged.  Holds unless its first axis has length one ... *)
Theorem C13_array_len_not_one : forall (T : Type) (a : arr T), (alen a <> 1)%nat -> unwrap a = RA a.
Proof. exact @unwrap_id. Qed.
Print Assumptions C13_array_len_not_one.
(* ... refuted for length one: hdf5group2dict hands a scalar on (for one-point maps the map reader restores the
   point axis since repair 4fb3c89, Model/C13Map.restore_point_axis) *)
Theorem C13_array_len_one_refuted : forall (T : Type) (x : T), exists a : arr T, alen a = 1%nat /\ unwrap a <> RA a.
Proof. exact @unwrap_one_refuted. Qed.
Print Assumptions C13_array_len_one_refuted.

(* phase ids written as str(i) and read with int(k) *)
Theorem C13_phase_id_keys : forall z : Z, zint (zstr z) = Some z.
Proof. exact zint_zstr. Qed.
Print Assumptions C13_phase_id_keys.

(* ---- phases ----------------------------------------------------------------- *)
(* forall-fin: all 230 space groups (the monoclinic 3..9 with point groups named
   "2" / "m" included) and all 38 named point groups satisfy the decidable reload
   condition sym_ok ... *)
Theorem C13_spacegroups_reload : forall n : Z, (1 <= n <= 230)%Z ->
  sym_ok (Some n) (Some (sg2pg n)) = true.
Proof. exact sym_ok_spacegroups. Qed.
Print Assumptions C13_spacegroups_reload.
Theorem C13_pointgroups_reload : forall g : string, In g pg_names -> sym_ok None (Some (s2p g)) = true.
Proof. exact sym_ok_pointgroups. Qed.
Print Assumptions C13_pointgroups_reload.
(* ... under which Phase(...), called as dict2phase calls it (point group only
   when there is no space group), rebuilds the same (space group, point group) *)
Theorem C13_phase_symmetry : forall (T : Type) (ccanon : pystr -> pystr) (restruct : structure (T:=T) -> structure (T:=T))
  name sg pg st col, sym_ok sg pg = true ->
  mk_phase ccanon restruct name sg (reader_pg sg pg) st col = Some (mkPhase name sg pg (ccanon col) (restruct st)).
Proof. exact @mk_phase_ok. Qed.
Print Assumptions C13_phase_symmetry.
(* the repaired monoclinic cases, explicitly: space groups 3 (point group "2", an
   alias of "2/m") and 6 (point group "m", not a name in _groups) *)
Theorem C13_spacegroup_3 : forall (T : Type) ccanon (restruct : structure (T:=T) -> structure (T:=T)) name st col,
  mk_phase ccanon restruct name (Some 3%Z) None st col
  = Some (mkPhase name (Some 3%Z) (Some (s2p "2")) (ccanon col) (restruct st)).
Proof. exact @mk_phase_sg3. Qed.
Print Assumptions C13_spacegroup_3.
Theorem C13_spacegroup_6 : forall (T : Type) ccanon (restruct : structure (T:=T) -> structure (T:=T)) name st col,
  mk_phase ccanon restruct name (Some 6%Z) None st col
  = Some (mkPhase name (Some 6%Z) (Some (s2p "m")) (ccanon col) (restruct st)).
Proof. exact @mk_phase_sg6. Qed.
Print Assumptions C13_spacegroup_6.

(* FULL clause: atoms come back in their order, for every number of atoms: the
   reader sorts the links "0", "1", "10", "2", ... by int(key) *)
Theorem C13_atoms_order : forall (T : Type) (ats : list (atom (T:=T))),
  Forall wf_atom ats -> read_atoms (sortk (atoms_dict ats)) = Some ats.
Proof. exact @atoms_rt. Qed.
Print Assumptions C13_atoms_order.

(* a well-formed phase (name and colour encodable, canonical colour, aligned
   structure, sym_ok, well-formed atoms) is rebuilt exactly *)
Theorem C13_phase_roundtrip : forall (T : Type) ccanon (restruct : structure (T:=T) -> structure (T:=T)) (p : phase),
  wf_phase ccanon restruct p -> dict2phase ccanon restruct (rd (phase2dict p)) = Some p.
Proof. exact @phase_rt. Qed.
Print Assumptions C13_phase_roundtrip.

(* CrystalMap.__init__ leaves a phase list alone whose ids are np.unique(phase_id)
   and whose -1 entry is the default not-indexed phase *)
Theorem C13_constructor_fixpoint : forall (T : Type) (O : Ops T) ccanon restruct fresh rsh rots pid x y
  (pl : list (Z * phase (T:=T))) props unit ind,
  map fst pl = np_unique pid -> pl <> [] ->
  (forall p, In ((-1)%Z, p) pl -> p = ni_phase O ccanon restruct) ->
  ~ (x = None /\ y = None) ->
  mk_cmap O ccanon restruct fresh rsh rots pid x y pl props unit ind
  = Some (mkMap rsh rots pid x y ind props unit pl).
Proof. exact @mk_cmap_fix. Qed.
Print Assumptions C13_constructor_fixpoint.

(* ---- the map ------------------------------------------------------------------ *)
(* FULL clause: forall maps m, load (save m) = m up to rotation equality.
   Proved for every well-formed m (record wf: not exactly one point, at least one
   point in the data, property names distinct and not reserved, encodable scan
   unit or None, listed phases = phases in use, default not-indexed phase,
   well-formed phases): saving succeeds, loading succeeds, and the loaded map has
   the same rotation shape (length-one axes included), phase ids, coordinates,
   mask, scan unit and phases, the same properties (listed in name order), and
   rotations re-created from the stored Euler angles with the stored improper
   flags (reload_rot; see C13_rotation_* below). *)
Theorem C13_load_save_outside_findings : forall (T : Type) (O : Ops T) ccanon restruct fresh ver (m : cmap (T:=T)),
  wf O ccanon restruct m ->
  exists f props', save O ver m = Some f /\
    load O ccanon restruct fresh f = Some (reloaded O m props') /\ Permutation props' (m_props m).
Proof. exact @load_save. Qed.
Print Assumptions C13_load_save_outside_findings.

(* second cycle: the loaded map is well-formed again; saving and loading it
   succeeds and preserves the same fields *)
Theorem C13_second_cycle : forall (T : Type) (O : Ops T) ccanon restruct fresh ver (m : cmap (T:=T)),
  wf O ccanon restruct m ->
  exists f1 p1 f2 p2,
    save O ver m = Some f1 /\ load O ccanon restruct fresh f1 = Some (reloaded O m p1) /\
    save O ver (reloaded O m p1) = Some f2 /\
    load O ccanon restruct fresh f2 = Some (reloaded O (reloaded O m p1) p2) /\
    Permutation p1 (m_props m) /\ Permutation p2 (m_props m).
Proof. exact @second_cycle. Qed.
Print Assumptions C13_second_cycle.

(* ---- rotations (over the reals, generated kernels) ---------------------------- *)
(* FULL clause: forall rotations r, the rotation re-created from the stored Euler
   angles and improper flag is r (same improper flag, quaternion = +-normalised
   quaternion).  Proved for proper AND improper rotations on the generic Euler
   branch outside the kernels' 1e-9 bands (C01 lemma eu2qu_qu2eu_generic); the
   exact gimbal branch Phi = 0 is covered by correspondence + oracle only. *)
Theorem C13_rotation_roundtrip_partial : forall r : rotation (T:=R),
  euler_generic (fst r) -> rot_same r (reload_rot r).
Proof. exact rot_roundtrip_generic. Qed.
Print Assumptions C13_rotation_roundtrip_partial.
Theorem C13_rotation_improper_kept : forall r : rotation (T:=R), snd (reload_rot r) = snd r.
Proof. exact rot_improper_kept. Qed.
Print Assumptions C13_rotation_improper_kept.
Theorem C13_rotation_gimbal_pi_refuted :
  exists r : rotation (T:=R), snd r = false /\ qnorm2 ROps (fst r) = 1%R /\ ~ rot_same r (reload_rot r).
Proof. exact rot_gimbal_pi_refuted. Qed.
Print Assumptions C13_rotation_gimbal_pi_refuted.

(* ---- non-vacuity: a concrete well-formed three-point map of shape (3, 1) with
   an improper rotation, a not-indexed point, a masked point, a property, a
   non-ASCII scan unit, a monoclinic phase and an atom (abstract functions =
   identity) ------ *)
Definition ex_arr (l : list R) : arr R := mkArr "float64" [List.length l] (DF l).
Definition ex_phase : phase (T:=R) :=
  mkPhase [945; 45; 70; 101]%Z (Some 6%Z) (Some (sg2pg 6)) (s2p "tab:blue")
    (mkLat (ex_arr [4; 4; 4; 90; 90; 90]%R) (mkArr "float64" [3; 3]%nat (DF [1; 0; 0; 0; 1; 0; 0; 0; 1]%R)),
     [mkAtom (s2p "Al") [] 1%R (ex_arr [0; 0; 0]%R) (mkArr "float64" [3; 3]%nat (DF [0; 0; 0; 0; 0; 0; 0; 0; 0]%R))]).
Definition ex_map : cmap (T:=R) :=
  mkMap [3%nat; 1%nat] [((1, 0, 0, 0)%R, false); ((1, 0, 0, 0)%R, true); ((1, 0, 0, 0)%R, false)] [0; -1; 0]%Z
    (Some (ex_arr [0; 1; 2]%R)) None [true; true; false]
    [("iq"%string, ex_arr [1; 2; 3]%R)] (Some [181; 109]%Z)
    [((-1)%Z, ni_phase ROps (fun c => c) (fun s => s)); (0%Z, ex_phase)].
Example C13_wf_nonvacuous : wf ROps (fun c => c) (fun s => s) ex_map.
Proof.
  constructor; cbn.
  - discriminate.
  - discriminate.
  - intros [H _]. discriminate.
  - intros a [= <-]. cbn. discriminate.
  - discriminate.
  - repeat constructor. intros [].
  - intros k [<-|[]]. reflexivity.
  - repeat constructor. cbn. discriminate.
  - intros u [= <-]. apply ustrb_sound. reflexivity.
  - reflexivity.
  - discriminate.
  - intros p [H|[H|[]]]; [now inversion H|discriminate].
  - assert (A : forall p : phase (T:=R), ustrb (ph_name p) = true -> ustrb (ph_color p) = true ->
                sym_ok (ph_sg p) (ph_pg p) = true ->
                (alen (l_abcABG (fst (ph_st p))) <> 1)%nat -> (alen (l_baserot (fst (ph_st p))) <> 1)%nat ->
                Forall wf_atom (snd (ph_st p)) ->
                wf_phase (fun c => c) (fun s => s) p).
    { intros p H1 H2 H3 H4 H5 H7. repeat split; auto using ustrb_sound. }
    assert (B : wf_atom (T:=R) (mkAtom (s2p "Al") [] 1%R (ex_arr [0; 0; 0]%R)
                                (mkArr "float64" [3; 3]%nat (DF [0; 0; 0; 0; 0; 0; 0; 0; 0]%R)))).
    { split; [apply ustrb_sound; reflexivity|]. split; [apply ustrb_sound; reflexivity|].
      split; cbn; discriminate. }
    constructor; [|constructor; [|constructor]]; apply A; try reflexivity; cbn; try discriminate; try lia.
    + constructor.
    + constructor; [exact B|constructor].
Qed.
