(* C13 -- orix HDF5 save/load is lossless.  Property theorems only.
   Model: Model/C13Store.v (dict2hdf5group / hdf5group2dict, h5py as the identity
   on typed arrays and fixed-width byte strings, links in name order) and
   Model/C13Map.v (crystalmap2dict ... dict2crystalmap, CrystalMap.__init__,
   Phase.__init__); rotations go through the GENERATED kernels qu2eu / eu2qu.
   `wf` (Proofs/C13Main.v) collects the hypotheses the proof forced; every one of
   them is replayed on the implementation (design.d/C13.md, known findings). *)
From Coq Require Import ZArith List Bool String Reals Permutation Sorted Lia.
From Verif Require Import Scalar RInst Quat C13Store C13Map C13StoreP C13MapP C13Main C13Euler.
Import ListNotations.

(* ---- the generic store ------------------------------------------------------ *)
(* reading what dict2hdf5group wrote returns the "expected reading" rd of the
   python dict, for every None-free nested dict of strings, scalars and arrays *)
Theorem C13_store_roundtrip : forall (T : Type) (v : pv T),
  none_free v = true -> h52dict (dict2h5 v) = rd v.
Proof. exact @store_roundtrip. Qed.
Print Assumptions C13_store_roundtrip.

(* FULL clause: every str value is read back unchanged.  Holds for ASCII ... *)
Theorem C13_string_ascii : forall s : pystr, ascii_str s -> latin1 (str_stored s) = s.
Proof. exact str_roundtrip_ascii. Qed.
Print Assumptions C13_string_ascii.
(* ... refuted otherwise (UTF-8 written into len+1 bytes, latin-1 read): "µm" *)
Theorem C13_string_nonascii_refuted : exists s : pystr, latin1 (str_stored s) <> s.
Proof. exact str_roundtrip_nonascii_refuted. Qed.
Print Assumptions C13_string_nonascii_refuted.

(* FULL clause: every array is read back unchanged.  Holds unless its first axis has length one ... *)
Theorem C13_array_len_not_one : forall (T : Type) (a : arr T), (alen a <> 1)%nat -> unwrap a = RA a.
Proof. exact @unwrap_id. Qed.
Print Assumptions C13_array_len_not_one.
(* ... refuted for length one (one-point maps): the reader hands a scalar to the constructor *)
Theorem C13_array_len_one_refuted : forall (T : Type) (x : T), exists a : arr T, alen a = 1%nat /\ unwrap a <> RA a.
Proof. exact @unwrap_one_refuted. Qed.
Print Assumptions C13_array_len_one_refuted.

(* scan_unit=None: the writer's `break` drops the rest of the header (the phases) *)
Theorem C13_none_drops_rest_refuted : forall (T : Type) (k k' : string) (v : pv T),
  dict2h5 (PD [(k, PN); (k', v)]) = HG [].
Proof. exact @none_drops_rest. Qed.
Print Assumptions C13_none_drops_rest_refuted.

(* phase ids written as str(i) and read with int(k) *)
Theorem C13_phase_id_keys : forall z : Z, zint (zstr z) = Some z.
Proof. exact zint_zstr. Qed.
Print Assumptions C13_phase_id_keys.

(* ---- phases ----------------------------------------------------------------- *)
(* forall-fin: all 230 space groups except 3..9, and all 38 named point groups,
   satisfy the decidable reload condition sym_ok ... *)
Theorem C13_spacegroups_reload : forall n : Z, (1 <= n <= 230)%Z -> ~ (3 <= n <= 9)%Z ->
  sym_ok (Some n) (Some (sg2pg n)) = true.
Proof. exact sym_ok_spacegroups. Qed.
Print Assumptions C13_spacegroups_reload.
Theorem C13_pointgroups_reload : forall g : string, In g pg_names -> sym_ok None (Some (s2p g)) = true.
Proof. exact sym_ok_pointgroups. Qed.
Print Assumptions C13_pointgroups_reload.
(* ... under which Phase(...) rebuilds the same (space group, point group) *)
Theorem C13_phase_symmetry : forall (T : Type) (ccanon : pystr -> pystr) (restruct : structure (T:=T) -> structure (T:=T))
  name sg pg st col, sym_ok sg pg = true ->
  mk_phase ccanon restruct name sg pg st col = Some (mkPhase name sg pg (ccanon col) (restruct st)).
Proof. exact @mk_phase_ok. Qed.
Print Assumptions C13_phase_symmetry.
(* refuted for the monoclinic space groups: 3..5 store "2" (an alias of 2/m; the
   space group is dropped), 6..9 store "m" (no group name; ValueError) *)
Theorem C13_spacegroup_3_refuted : forall (T : Type) ccanon (restruct : structure (T:=T) -> structure (T:=T)) name st col,
  mk_phase ccanon restruct name (Some 3%Z) (Some (sg2pg 3)) st col
  = Some (mkPhase name None (Some (s2p "2/m")) (ccanon col) (restruct st)).
Proof. exact @mk_phase_sg3_refuted. Qed.
Print Assumptions C13_spacegroup_3_refuted.
Theorem C13_spacegroup_6_refuted : forall (T : Type) ccanon (restruct : structure (T:=T) -> structure (T:=T)) name st col,
  mk_phase ccanon restruct name (Some 6%Z) (Some (sg2pg 6)) st col = None.
Proof. exact @mk_phase_sg6_refuted. Qed.
Print Assumptions C13_spacegroup_6_refuted.
Theorem C13_spacegroup_monoclinic_not_ok : forall n : Z, (3 <= n <= 9)%Z -> sym_ok (Some n) (Some (sg2pg n)) = false.
Proof. exact sym_ok_monoclinic_false. Qed.
Print Assumptions C13_spacegroup_monoclinic_not_ok.

(* FULL clause: atoms come back in their order.  Up to ten atoms ... *)
Theorem C13_atoms_order_le10 : forall (T : Type) (ats : list (atom (T:=T))),
  (List.length ats <= 10)%nat -> Forall wf_atom ats ->
  all_some (map (fun kv : string * rv T => dict2atom (snd kv)) (sortk (atoms_dict ats))) = Some ats.
Proof. exact @atoms_rt. Qed.
Print Assumptions C13_atoms_order_le10.
(* ... refuted from eleven on: link "10" is listed before "2" *)
Theorem C13_atoms_order_refuted : forall (T : Type) (a : atom (T:=T)),
  map fst (sortk (atoms_dict (repeat a 11)))
  = ["0"; "1"; "10"; "2"; "3"; "4"; "5"; "6"; "7"; "8"; "9"]%string.
Proof. exact @atoms_order_refuted. Qed.
Print Assumptions C13_atoms_order_refuted.

(* a well-formed phase (ASCII name, canonical colour, aligned structure, sym_ok,
   at most ten well-formed atoms) is rebuilt exactly *)
Theorem C13_phase_roundtrip : forall (T : Type) ccanon (restruct : structure (T:=T) -> structure (T:=T)) (p : phase),
  wf_phase ccanon restruct p -> dict2phase ccanon restruct (rd (phase2dict p)) = Some p.
Proof. exact @phase_rt. Qed.
Print Assumptions C13_phase_roundtrip.

(* CrystalMap.__init__ leaves a phase list alone whose ids are np.unique(phase_id)
   and whose -1 entry is the default not-indexed phase *)
Theorem C13_constructor_fixpoint : forall (T : Type) (O : Ops T) ccanon restruct fresh rsh rots pid x y
  (pl : list (Z * phase (T:=T))) props unit ind,
  map fst pl = np_unique pid -> pl <> [] ->
  (forall p, In ((-1)%Z, p) pl -> p = ni_phase O ccanon restruct) ->
  ~ (x = None /\ y = None) ->
  mk_cmap O ccanon restruct fresh rsh rots pid x y pl props unit ind
  = Some (mkMap rsh rots pid x y ind props unit pl).
Proof. exact @mk_cmap_fix. Qed.
Print Assumptions C13_constructor_fixpoint.

(* ---- the map ------------------------------------------------------------------ *)
(* FULL clause: forall maps m, load (save m) = m up to rotation equality.
   Proved for every well-formed m (record wf: not exactly one point, no length-one
   rotation axis, at least one point in the data, property names distinct and not
   reserved, ASCII scan unit, listed phases = phases in use, default not-indexed
   phase, well-formed phases): saving succeeds, loading succeeds, and the loaded
   map has the same rotation shape, phase ids, coordinates, mask, scan unit and
   phases, the same properties (listed in name order), and rotations re-created
   from the stored Euler angles with improper = false (see C13_rotation_* below). *)
Theorem C13_load_save_outside_findings : forall (T : Type) (O : Ops T) ccanon restruct fresh ver (m : cmap (T:=T)),
  wf O ccanon restruct m ->
  exists f props', save O ver m = Some f /\
    load O ccanon restruct fresh f = Some (reloaded O m props') /\ Permutation props' (m_props m).
Proof. exact @load_save. Qed.
Print Assumptions C13_load_save_outside_findings.

(* second cycle: the loaded map is well-formed again; saving and loading it
   succeeds and preserves the same fields *)
Theorem C13_second_cycle : forall (T : Type) (O : Ops T) ccanon restruct fresh ver (m : cmap (T:=T)),
  wf O ccanon restruct m ->
  exists f1 p1 f2 p2,
    save O ver m = Some f1 /\ load O ccanon restruct fresh f1 = Some (reloaded O m p1) /\
    save O ver (reloaded O m p1) = Some f2 /\
    load O ccanon restruct fresh f2 = Some (reloaded O (reloaded O m p1) p2) /\
    Permutation p1 (m_props m) /\ Permutation p2 (m_props m).
Proof. exact @second_cycle. Qed.
Print Assumptions C13_second_cycle.

(* ---- rotations (over the reals, generated kernels) ---------------------------- *)
(* FULL clause: forall rotations r, the rotation re-created from the stored Euler
   angles is r (same improper flag, quaternion = +-normalised quaternion).
   Proved for proper rotations on the generic Euler branch outside the kernels'
   1e-9 bands (C01 lemma eu2qu_qu2eu_generic); the exact gimbal branch Phi = 0 is
   covered by correspondence + oracle only. *)
Theorem C13_rotation_roundtrip_partial : forall r : rotation (T:=R),
  snd r = false -> euler_generic (fst r) -> rot_same r (reload_rot r).
Proof. exact rot_roundtrip_generic. Qed.
Print Assumptions C13_rotation_roundtrip_partial.
Theorem C13_rotation_improper_refuted : exists r : rotation (T:=R), snd r = true /\ ~ rot_same r (reload_rot r).
Proof. exact rot_improper_refuted. Qed.
Print Assumptions C13_rotation_improper_refuted.
Theorem C13_rotation_gimbal_pi_refuted :
  exists r : rotation (T:=R), snd r = false /\ qnorm2 ROps (fst r) = 1%R /\ ~ rot_same r (reload_rot r).
Proof. exact rot_gimbal_pi_refuted. Qed.
Print Assumptions C13_rotation_gimbal_pi_refuted.

(* ---- non-vacuity: a concrete well-formed two-point, two-phase map with a
   not-indexed point, a property and atoms (abstract functions = identity) ------ *)
Definition ex_arr (l : list R) : arr R := mkArr "float64" [List.length l] (DF l).
Definition ex_phase : phase (T:=R) :=
  mkPhase (s2p "al") (Some 225%Z) (Some (sg2pg 225)) (s2p "tab:blue")
    (mkLat (ex_arr [4; 4; 4; 90; 90; 90]%R) (mkArr "float64" [3; 3]%nat (DF [1; 0; 0; 0; 1; 0; 0; 0; 1]%R)),
     [mkAtom (s2p "Al") [] 1%R (ex_arr [0; 0; 0]%R) (mkArr "float64" [3; 3]%nat (DF [0; 0; 0; 0; 0; 0; 0; 0; 0]%R))]).
Definition ex_map : cmap (T:=R) :=
  mkMap [3%nat] [((1, 0, 0, 0)%R, false); ((1, 0, 0, 0)%R, false); ((1, 0, 0, 0)%R, false)] [0; -1; 0]%Z
    (Some (ex_arr [0; 1; 2]%R)) None [true; true; false]
    [("iq"%string, ex_arr [1; 2; 3]%R)] (Some (s2p "um"))
    [((-1)%Z, ni_phase ROps (fun c => c) (fun s => s)); (0%Z, ex_phase)].
Example C13_wf_nonvacuous : wf ROps (fun c => c) (fun s => s) ex_map.
Proof.
  constructor; cbn.
  - discriminate.
  - reflexivity.
  - discriminate.
  - intros [H _]. discriminate.
  - intros a [= <-]. cbn. discriminate.
  - discriminate.
  - repeat constructor. intros [].
  - intros k [<-|[]]. reflexivity.
  - repeat constructor. cbn. discriminate.
  - exists (s2p "um"). split; [reflexivity|]. apply asciib_sound. reflexivity.
  - reflexivity.
  - discriminate.
  - intros p [H|[H|[]]]; [now inversion H|discriminate].
  - assert (A : forall p : phase (T:=R), asciib (ph_name p) = true -> asciib (ph_color p) = true ->
                sym_ok (ph_sg p) (ph_pg p) = true ->
                (alen (l_abcABG (fst (ph_st p))) <> 1)%nat -> (alen (l_baserot (fst (ph_st p))) <> 1)%nat ->
                (List.length (snd (ph_st p)) <= 10)%nat -> Forall wf_atom (snd (ph_st p)) ->
                wf_phase (fun c => c) (fun s => s) p).
    { intros p H1 H2 H3 H4 H5 H6 H7. repeat split; auto using asciib_sound. }
    assert (B : wf_atom (T:=R) (mkAtom (s2p "Al") [] 1%R (ex_arr [0; 0; 0]%R)
                                (mkArr "float64" [3; 3]%nat (DF [0; 0; 0; 0; 0; 0; 0; 0; 0]%R)))).
    { split; [apply asciib_sound; reflexivity|]. split; [apply asciib_sound; reflexivity|].
      split; cbn; discriminate. }
    constructor; [|constructor; [|constructor]]; apply A; try reflexivity; cbn; try discriminate; try lia.
    + constructor.
    + constructor; [exact B|constructor].
Qed.
