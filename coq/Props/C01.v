(* C01 -- Rotation representations convert consistently and round-trip.
   Property theorems only.  All statements are about the kernels GENERATED
   from orix/quaternion/_conversions.py, instantiated on the real numbers;
   the kernels' thresholds (1e-9, 1e-8, 1e-3) are modelled exactly, and each
   theorem says exactly which threshold bands it excludes. *)
From Coq Require Import Reals List Bool Lra.
From Verif Require Import Scalar RInst QuatKernels Conversions Quat QuatAlg
  ConvEuler ConvMatrix ConvAxis ConvHomochoric Atan2 ConvEulerInv ConvInj Rodrigues3 ConvRodrigues3.
Local Open Scope R_scope.

(* -- orientation matrix ---------------------------------------------------- *)
(* matrix times vector equals quaternion times vector *)
Theorem C01_matrix_action : forall (q : quat) (v : vec3),
  qnorm2 ROps q = 1 -> mvec ROps (qu2om ROps q) v = qrot ROps q v.
Proof. exact qu2om_action. Qed.
Print Assumptions C01_matrix_action.

Theorem C01_matrix_proper_orthogonal : forall q : quat, qnorm2 ROps q = 1 ->
  mmul ROps (qu2om ROps q) (mtrans (qu2om ROps q)) = mid ROps /\ mdet ROps (qu2om ROps q) = 1.
Proof. intros q H; split; [apply qu2om_orthogonal | apply qu2om_det]; exact H. Qed.
Print Assumptions C01_matrix_proper_orthogonal.

(* FULL clause (after repair 86e5199 of the 180-degree case): forall unit q with no
   component inside the band om2qu zeroes (4x^2 < 1e-9), om2qu (qu2om q) = +-q --
   both hemispheres AND rotations by exactly 180 degrees, where the signs are
   taken from the symmetric part of the matrix *)
Theorem C01_matrix_roundtrip : forall q : quat,
  qnorm2 ROps q = 1 ->
  (let '(a, b, c, d) := q in
   clear_of_band a /\ clear_of_band b /\ clear_of_band c /\ clear_of_band d) ->
  om2qu ROps (qu2om ROps q) = q \/ om2qu ROps (qu2om ROps q) = qneg ROps q.
Proof. exact om2qu_qu2om. Qed.
Print Assumptions C01_matrix_roundtrip.

(* the generated kernel is convertible to a structured specification
   (Proofs/ConvMatrix.om2qu_spec): any change of the kernel breaks this *)
Theorem C01_matrix_kernel_is_spec : forall m00 m01 m02 m10 m11 m12 m20 m21 m22 : R,
  om2qu_single ROps m00 m01 m02 m10 m11 m12 m20 m21 m22 = om2qu_spec m00 m01 m02 m10 m11 m12 m20 m21 m22.
Proof. exact om2qu_is_spec. Qed.
Print Assumptions C01_matrix_kernel_is_spec.

(* -- Bunge Euler angles ------------------------------------------------------ *)
(* every Euler triplet gives a unit quaternion with non-negative scalar part
   whose matrix is the independent reference Rz(phi2).Rx(Phi).Rz(phi1) *)
Theorem C01_euler_unit : forall e : vec3, qnorm2 ROps (eu2qu ROps e) = 1.
Proof. exact eu2qu_unit. Qed.
Print Assumptions C01_euler_unit.

Theorem C01_euler_reference : forall e : vec3, qu2om ROps (eu2qu ROps e) = bunge e.
Proof. exact qu2om_eu2qu. Qed.
Print Assumptions C01_euler_reference.

(* FULL clause: forall unit q, the Euler angles of q describe q's rotation,
   round-trip to +-q and lie in [0,2pi]x[0,pi]x[0,2pi].  Proved on the generic
   branch (chi >= 1e-9) when no raw angle falls in the (0,1e-9) band the kernel
   zeroes; the gimbal branch Phi = pi is refuted below. *)
Theorem C01_euler_inverse_partial : forall a b c d : R,
  a * a + b * b + c * c + d * d = 1 -> 1 / 1000000000 <= chi a b c d ->
  clear_angle (t0 a b c d) -> clear_angle (t1 a b c d) -> clear_angle (t2 a b c d) ->
  bunge (qu2eu ROps (a, b, c, d)) = qu2om ROps (a, b, c, d).
Proof. exact qu2eu_generic_matrix. Qed.
Print Assumptions C01_euler_inverse_partial.

Theorem C01_euler_roundtrip_partial : forall a b c d : R,
  a * a + b * b + c * c + d * d = 1 -> 1 / 1000000000 <= chi a b c d ->
  clear_angle (t0 a b c d) -> clear_angle (t1 a b c d) -> clear_angle (t2 a b c d) ->
  eu2qu ROps (qu2eu ROps (a, b, c, d)) = (a, b, c, d) \/
  eu2qu ROps (qu2eu ROps (a, b, c, d)) = qneg ROps (a, b, c, d).
Proof. exact eu2qu_qu2eu_generic. Qed.
Print Assumptions C01_euler_roundtrip_partial.

Theorem C01_euler_range_partial : forall a b c d : R,
  a * a + b * b + c * c + d * d = 1 -> 1 / 1000000000 <= chi a b c d ->
  let '(e0, e1, e2) := qu2eu ROps (a, b, c, d) in
  0 <= e0 < 2 * PI /\ 0 <= e1 <= PI /\ 0 <= e2 < 2 * PI.
Proof. exact qu2eu_generic_range. Qed.
Print Assumptions C01_euler_range_partial.

(* gimbal branch Phi = 0 (b = c = 0 exactly): the returned (phi1, 0, 0) describe q *)
Theorem C01_euler_gimbal0 : forall a d : R,
  a * a + d * d = 1 -> bunge (qu2eu ROps (a, 0, 0, d)) = qu2om ROps (a, 0, 0, d).
Proof. exact qu2eu_gimbal0_matrix. Qed.
Print Assumptions C01_euler_gimbal0.

Theorem C01_euler_gimbal_pi_refuted :
  exists q : quat, qnorm2 ROps q = 1 /\ bunge (qu2eu ROps q) <> qu2om ROps q.
Proof. exact qu2eu_gimbal_pi_refuted. Qed.
Print Assumptions C01_euler_gimbal_pi_refuted.

(* -- axis-angle ---------------------------------------------------------------- *)
(* FULL clause: forall unit q, ax2qu (qu2ax q) = +-q and the angle is in [0,pi].
   KERNEL level: proved on the positive hemisphere outside the small-angle
   bands; on the negative hemisphere the kernel pair returns the INVERSE
   rotation and an angle in (pi, 2pi) (refuted below).  The public wrappers
   to_axes_angles / to_rodrigues(frank=True) canonicalise the sign first (after
   the repair 281bcbf), see C01_axis_roundtrip_public; to_homochoric does not
   (pinned by test_from_to_homochoric) and stays a known finding. *)
Theorem C01_axis_roundtrip_pos_partial : forall a b c d : R,
  a * a + b * b + c * c + d * d = 1 ->
  1 / 1000000000 <= a -> 1 / 100000000 <= 2 * acos a ->
  ax2qu ROps (qu2ax ROps (a, b, c, d)) = (a, b, c, d).
Proof. exact ax2qu_qu2ax_pos. Qed.
Print Assumptions C01_axis_roundtrip_pos_partial.

Theorem C01_axis_angle_range_pos : forall a : R, 0 <= a <= 1 -> 0 <= 2 * acos a <= PI.
Proof. exact qu2ax_angle_range_pos. Qed.
Print Assumptions C01_axis_angle_range_pos.

Theorem C01_axis_neg_returns_inverse : forall a b c d : R,
  a * a + b * b + c * c + d * d = 1 -> a <= - (1 / 1000000000) -> -1 < a ->
  ax2qu ROps (qu2ax ROps (a, b, c, d)) = qconj ROps (a, b, c, d) /\ PI < 2 * acos a.
Proof.
  intros a b c d Hu Ha Hm; split; [apply ax2qu_qu2ax_neg | apply qu2ax_angle_neg]; auto.
  split; [apply Rlt_le; exact Hm|]. eapply Rle_lt_trans; [exact Ha|].
  apply Ropp_lt_gt_0_contravar. apply Rlt_gt. apply Rdiv_lt_0_compat; [apply Rlt_0_1|].
  apply IZR_lt. reflexivity.
Qed.
Print Assumptions C01_axis_neg_returns_inverse.

Theorem C01_axis_roundtrip_neg_refuted :
  exists q : quat, qnorm2 ROps q = 1 /\
    ax2qu ROps (qu2ax ROps q) <> q /\ ax2qu ROps (qu2ax ROps q) <> qneg ROps q.
Proof. exact ax_roundtrip_neg_refuted. Qed.
Print Assumptions C01_axis_roundtrip_neg_refuted.

(* PUBLIC to_axes_angles / to_rodrigues(frank=True): the wrapper chooses the sign of
   the unit quaternion (Quat.qpos) before the kernel, so the round trip holds on
   BOTH hemispheres (outside the small-angle bands) and the angle is in [0, pi] *)
Theorem C01_axis_roundtrip_public : forall a b c d : R,
  a * a + b * b + c * c + d * d = 1 ->
  1 / 1000000000 <= Rabs a -> 1 / 100000000 <= 2 * acos (Rabs a) ->
  ax2qu ROps (qu2ax ROps (qpos ROps (a, b, c, d))) = (a, b, c, d) \/
  ax2qu ROps (qu2ax ROps (qpos ROps (a, b, c, d))) = qneg ROps (a, b, c, d).
Proof. exact ax_roundtrip_public. Qed.
Print Assumptions C01_axis_roundtrip_public.

Theorem C01_axis_angle_range_public : forall a b c d : R,
  a * a + b * b + c * c + d * d = 1 ->
  let '(a', _, _, _) := qpos ROps (a, b, c, d) in 0 <= 2 * acos a' <= PI.
Proof. exact ax_angle_range_public. Qed.
Print Assumptions C01_axis_angle_range_public.

(* -- homochoric ------------------------------------------------------------------- *)
Theorem C01_homochoric_range_pos : forall a b c d : R,
  a * a + b * b + c * c + d * d = 1 -> 0 <= a ->
  vdot ROps (qu2ho ROps (a, b, c, d)) (qu2ho ROps (a, b, c, d)) <= ho_max * ho_max.
Proof. exact ho_range_pos. Qed.
Print Assumptions C01_homochoric_range_pos.

Theorem C01_homochoric_range_neg_refuted :
  exists q : quat, qnorm2 ROps q = 1 /\
    ho_max * ho_max < vdot ROps (qu2ho ROps q) (qu2ho ROps q).
Proof. exact ho_range_neg_refuted. Qed.
Print Assumptions C01_homochoric_range_neg_refuted.

(* -- Rodrigues-Frank ---------------------------------------------------------------- *)
(* (n, w) -> (n, tan(w/2)) -> (n, w) for a unit axis, outside the documented
   exclusions (w < 1e-8, |w - pi| < 1e-3, where the kernel returns infinity) *)
Theorem C01_rodrigues_roundtrip_partial : forall x y z w : R,
  x * x + y * y + z * z = 1 ->
  1 / 100000000 <= w -> w < PI -> 1 / 1000 <= PI - w ->
  1 / 100000000 <= tan (w * (1 / 2)) ->
  ro2ax ROps (ax2ro ROps (x, y, z, w)) = (x, y, z, w).
Proof. exact ro2ax_ax2ro. Qed.
Print Assumptions C01_rodrigues_roundtrip_partial.

(* -- three-component Rodrigues vector (Model/Rodrigues3.v: Quaternion.axis, .angle,
   to_rodrigues(), from_rodrigues(ro)) ------------------------------------------------ *)
(* q -> axis * tan(angle/2) -> from_rodrigues returns q for 0 < a and -q for a < -1e-6
   (Quaternion.axis negates the vector part only below -1e-6), outside the small-angle
   band of ax2qu; rotations by exactly pi (a = 0: tan(pi/2)) have no meaning over R and
   are covered by the floating-point correspondence and the oracle stratum anglepi *)
Theorem C01_rodrigues3_roundtrip : forall a b c d : R,
  a * a + b * b + c * c + d * d = 1 -> a * a < 1 ->
  0 < a \/ a < -1 / 1000000 ->
  1 / 100000000 <= 2 * atan (sqrt (1 - a * a) / Rabs a) ->
  from_ro3 ROps (to_ro3 ROps (a, b, c, d) (a, b, c, d)) = (a, b, c, d) \/
  from_ro3 ROps (to_ro3 ROps (a, b, c, d) (a, b, c, d)) = qneg ROps (a, b, c, d).
Proof. exact ro3_roundtrip. Qed.
Print Assumptions C01_rodrigues3_roundtrip.

(* the hypothesis 0 < a \/ a < -1e-6 is forced: for -1e-6 <= a < 0 the axis is not negated and
   the round trip returns (-a, b, c, d), a rotation about the same axis whose angle differs by
   4 asin |a| <= 4e-6 rad (below the oracle's tolerance; recorded in design.d/C01.md) *)
Theorem C01_rodrigues3_roundtrip_band : forall a b c d : R,
  a * a + b * b + c * c + d * d = 1 -> -1 / 1000000 <= a < 0 ->
  1 / 100000000 <= 2 * atan (sqrt (1 - a * a) / Rabs a) ->
  from_ro3 ROps (to_ro3 ROps (a, b, c, d) (a, b, c, d)) = (- a, b, c, d).
Proof. exact ro3_roundtrip_band. Qed.
Print Assumptions C01_rodrigues3_roundtrip_band.

Example C01_rodrigues3_nonvacuous :
  let a := 1 / 2 in a * a + a * a + a * a + a * a = 1 /\ a * a < 1 /\ 0 < a /\
  1 / 100000000 <= 2 * atan (sqrt (1 - a * a) / Rabs a).
Proof.
  cbv zeta. repeat split; try lra.
  assert (H : 1 <= sqrt (1 - 1 / 2 * (1 / 2)) / Rabs (1 / 2)).
  { rewrite Rabs_right by lra. apply Rmult_le_reg_r with (1 / 2); [lra|].
    unfold Rdiv at 2. rewrite Rmult_assoc, Rinv_l by lra. rewrite Rmult_1_r, Rmult_1_l.
    apply Rsqr_incr_0_var; [|apply sqrt_pos]. rewrite Rsqr_sqrt by lra. unfold Rsqr. lra. }
  pose proof PI2_1 as HP.
  assert (atan 1 <= atan (sqrt (1 - 1 / 2 * (1 / 2)) / Rabs (1 / 2))).
  { destruct H as [H|H]; [left; apply atan_increasing; exact H|right; rewrite <- H; reflexivity]. }
  rewrite atan_1 in *. lra.
Qed.

(* non-vacuity of the guards: q = (1/2,1/2,1/2,1/2) *)
Example C01_guards_nonvacuous :
  qnorm2 ROps (1/2, 1/2, 1/2, 1/2) = 1 /\ clear_of_band (1/2) /\ clear_of_band 0 /\ 1 / 1000000000 <= chi (1/2) (1/2) (1/2) (1/2).
Proof.
  split; [unfold qnorm2; rsimpl; field|]. split; [|split].
  - unfold clear_of_band, eps9. intros H. exfalso. lra.
  - unfold clear_of_band. intros _. reflexivity.
  - unfold chi. replace ((1 / 2 * (1 / 2) + 1 / 2 * (1 / 2)) * (1 / 2 * (1 / 2) + 1 / 2 * (1 / 2))) with ((1/2) * (1/2)) by field.
    rewrite sqrt_square by lra. lra.
Qed.
