(* C14 -- .ang export/import preserves the map up to the format's precision.
   Property theorems only; the model is Model/C14Ang.v (writer and reader of
   orix/io/plugins/ang.py with the CrystalMap/PhaseList code they use), proofs
   are in Proofs/C14Lemmas.v, C14Grid.v, C14Header.v, C14Round.v, C14Wit.v.

   All numerical quantisers (np.round, float32 cast, '%.5f', '%.3f', '%.6f',
   k*dx, Rotation.to_euler) are universally quantified function parameters:
   the theorems hold for every choice of them. *)
From Coq Require Import ZArith String Ascii List Bool.
From Verif Require Import C14Ang C14Lemmas C14Grid C14Header C14Round C14Wit.
Import ListNotations.
Open Scope Z_scope.

(* FULL STATEMENT (not provable: the faithful model refutes it on the strata
   of the _refuted theorems below):
     forall m kw, read (write m kw) = Some (expected m kw).
   Proved: for every map and every keyword combination for which the writer
   produces a file (C14_write_defined: it does unless the map has no point in
   data or the caller names a missing property / layer), under the guards
   collected in `clean`
     - phase names are non-empty and their words are separated by single blanks
       (name_ok; names MAY contain blanks since the reader's "Formula" line was repaired),
     - extra column names (blanks -> '_') are distinct and differ from the ten standard columns,
     - each axis with more than one point is resolved by the 5 printed decimals (axis_ok),
     - no indexed point has a written confidence index of exactly -1,
   (no guard on the number of points any more: maps of 1, 2, 3 points, 3 points
   in data, one point in data, single-column and single-point maps are covered)
   the reader returns exactly `expected`: same grid shape (unit axes dropped)
   and 5-decimal steps; phase id = position in the phase list (1..n) for
   indexed points and -1 otherwise; rotations = the 5-decimal Euler angles for
   indexed points and (4pi,4pi,4pi) otherwise; columns iq, ci,
   detector_signal, fit and the extra columns under their names with value
   q32 (rnd5 v) for indexed points and the sentinels 0 / -1 / 0 / 180 / 0
   otherwise; the phase list of the file = the map's phases renumbered 1..n in
   list order with names, proper point groups and '%.3f' lattice constants,
   reconciled with the ids present in the data by CrystalMap.__init__. *)
Theorem C14_roundtrip_outside_finding :
  forall (T Rot : Type) (t0 t1 : T) (coord : T -> nat -> Z) (rnd5 : T -> Z) (q32 : Z -> Z)
         (prt3 prt6 : T -> Z) (to_eu : Rot -> T * T * T)
         (m : @cmap T Rot) (kw : kwargs) (f : file) (g : @geom T),
    write t0 t1 coord rnd5 q32 prt3 prt6 to_eu m kw = Some f ->
    geometry t1 m = Some g ->
    clean coord rnd5 q32 m kw g ->
    read f = Some (expected coord rnd5 q32 prt3 to_eu m kw g).
Proof. exact @roundtrip. Qed.
Print Assumptions C14_roundtrip_outside_finding.

(* the hypotheses are satisfiable and the writer does produce a file: a 2x3
   map with a masked point, a not-indexed point, two phases with ids 3 and 7,
   two properties and one extra column *)
Example C14_roundtrip_nonvacuous :
  exists f, zwrite m_good kw_good = Some f /\ zgeometry m_good = Some g_good /\ zclean m_good kw_good g_good.
Proof. exact good_instance. Qed.
(* ... also for a single-point map whose phase name contains a blank *)
Example C14_roundtrip_nonvacuous_point :
  exists f, zwrite m_point kw0 = Some f /\ zgeometry m_point = Some g_point /\ zclean m_point kw0 g_point.
Proof. exact point_instance. Qed.
Example C14_roundtrip_value_nonvacuous :
  (f <- zwrite m_good kw_good ;; read f) = Some (zexpected m_good kw_good g_good)
  /\ r_pid (zexpected m_good kw_good g_good) = [1; 2; 1; -1; -1; 2]
  /\ map fst (r_phases (zexpected m_good kw_good g_good)) = [-1; 1; 2]
  /\ map fst (r_props (zexpected m_good kw_good g_good)) = ["iq"; "ci"; "detector_signal"; "fit"; "dp"]%string.
Proof. exact good_roundtrip_value. Qed.

(* the writer is defined: a map is refused only when it has no point in data,
   a phase has a point group outside the named groups, or a value cannot be
   taken at a point in data (missing property name, layer index on 1-D
   rotations / out of range).  No map is refused for its size or shape. *)
Theorem C14_write_defined :
  forall (T Rot : Type) (t0 t1 : T) (coord : T -> nat -> Z) (rnd5 : T -> Z) (q32 : Z -> Z)
         (prt3 prt6 : T -> Z) (to_eu : Rot -> T * T * T) (m : @cmap T Rot) (kw : kwargs),
    in_pts m <> [] ->
    (forall kv, In kv (real_phases m) -> pg_known (snd kv)) ->
    (forall p, nth p (m_in m) false = true -> point_ok rnd5 q32 to_eu m kw p) ->
    exists f, write t0 t1 coord rnd5 q32 prt3 prt6 to_eu m kw = Some f.
Proof. exact @write_defined. Qed.
Print Assumptions C14_write_defined.

(* plain identifiers (the former guard) satisfy the guard on names *)
Theorem C14_name_guard_weaker : forall s, nospace s = true -> sempty s = false -> name_ok s.
Proof. exact nospace_name_ok. Qed.
Print Assumptions C14_name_guard_weaker.

(* the strata of the repaired defects, computed in the model: each map is
   written, read back as `expected`, and has the stated shape / ids / names *)
Theorem C14_roundtrip_small_map :
  rt_exp (mk 1 3 (all_in 3) [0; 0; 0] one_phase []) kw0
         (fun r => r_shape r = [3%nat] /\ r_dx r = 150000 /\ r_pid r = [1; 1; 1])
  /\ rt_exp (mk 1 2 (all_in 2) [0; 0] one_phase []) kw0 (fun r => r_shape r = [2%nat] /\ r_pid r = [1; 1])
  /\ rt_exp (mk 3 1 (all_in 3) [0; -1; 0] one_phase []) kw0 (fun r => r_shape r = [3%nat] /\ r_pid r = [1; -1; 1]).
Proof. exact fixed_small_map. Qed.
Print Assumptions C14_roundtrip_small_map.
Theorem C14_roundtrip_three_in_data :
  rt_exp (mk 2 3 [true; true; true; false; false; false] [0; 0; 0; 0; 0; 0] one_phase []) kw0
         (fun r => r_shape r = [3%nat] /\ r_pid r = [1; 1; 1]).
Proof. exact fixed_three_in_data. Qed.
Print Assumptions C14_roundtrip_three_in_data.
Theorem C14_roundtrip_single_row :
  rt_exp (mk 2 3 [false; true; false; false; false; false] [0; 0; 0; 0; 0; 0] one_phase []) kw0
         (fun r => r_shape r = [] /\ r_pid r = [1] /\ r_eul r = [(1000, 50000, 100000)]).
Proof. exact fixed_single_row. Qed.
Print Assumptions C14_roundtrip_single_row.
Theorem C14_roundtrip_single_column :
  rt_exp (mk 4 1 (all_in 4) [0; 0; 0; 0] one_phase []) kw0
         (fun r => r_shape r = [4%nat] /\ r_dy r = 50000 /\ r_dx r = 0).
Proof. exact fixed_single_column. Qed.
Print Assumptions C14_roundtrip_single_column.
Theorem C14_roundtrip_single_point :
  rt_exp (mk 1 1 [true] [0] one_phase []) kw0 (fun r => r_shape r = [] /\ r_pid r = [1]).
Proof. exact fixed_single_point. Qed.
Print Assumptions C14_roundtrip_single_point.
Theorem C14_roundtrip_blank_name :
  rt_exp (mk 2 2 (all_in 4) [0; 0; 0; 0] [(0, ph "iron alpha" "432")] []) kw0
         (fun r => map (fun kv => rp_name (snd kv)) (r_phases r) = ["iron alpha"%string]).
Proof. exact fixed_blank_name. Qed.
Print Assumptions C14_roundtrip_blank_name.
Theorem C14_default_ds :
  rt_exp (mk 2 2 (all_in 4) [0; 0; 0; 0] one_phase
             [{| pr_name := "ds"; pr_multi := false; pr_vals := map (fun v => [v]) [5; 6; 7; 8] |}]) kw0
         (fun r => assoc_s "detector_signal" (r_props r) = Some [5; 6; 7; 8]).
Proof. exact fixed_default_ds. Qed.
Print Assumptions C14_default_ds.

(* alias table, all 38 named point groups: the name the writer prints for the
   proper subgroup is one word and the reader resolves it to that subgroup *)
Theorem C14_alias_table :
  forall g pr, proper_of g = Some pr ->
    resolve_pg (alias_of pr) = Some pr /\ words (alias_of pr) = [alias_of pr].
Proof. exact alias_roundtrip. Qed.
Print Assumptions C14_alias_table.
Theorem C14_alias_table_exhaustive : length pg_table = 38%nat /\ forallb alias_entry_ok pg_table = true.
Proof. split; [reflexivity | exact alias_table_all]. Qed.
Print Assumptions C14_alias_table_exhaustive.

(* grid: for EVERY coordinate printer that resolves the axes, the reader's
   step/extent computation returns the written shape and the printed step *)
Theorem C14_grid_read_back : forall (fx fy : nat -> Z) nr nc,
  (0 < nr)%nat -> (0 < nc)%nat ->
  ((1 < nc)%nat -> axis_ok fx nc) -> ((1 < nr)%nat -> axis_ok fy nr) ->
  let xs := map (fun k => fx (Nat.modulo k nc)) (seq 0 (nr * nc)) in
  let ys := map (fun k => fy (Nat.div k nc)) (seq 0 (nr * nc)) in
  (match extent_of ys with Some n => [n] | None => [] end)
    ++ (match extent_of xs with Some n => [n] | None => [] end) = squeeze nr nc
  /\ step_of xs = (if Nat.ltb 1 nc then fx 1%nat else 0)
  /\ step_of ys = (if Nat.ltb 1 nr then fy 1%nat else 0).
Proof. exact grid_read_back. Qed.
Print Assumptions C14_grid_read_back.
(* steps that are multiples of 10^-5 always resolve their axis, for every length *)
Theorem C14_grid_exact_steps : forall s n, 0 < s -> axis_ok (fun k => Z.of_nat k * s) n.
Proof. exact axis_ok_linear. Qed.
Print Assumptions C14_grid_exact_steps.

(* header: vendor detection finds the orix footprint and the extra column
   names; the phase blocks are parsed back to the renumbered phase list *)
Theorem C14_header_vendor :
  forall (T Rot : Type) (t0 : T) (prt3 prt6 : T -> Z) (m : @cmap T Rot) (g : @geom T) (kw : kwargs) hdr,
    header_of t0 prt3 prt6 m g kw = Some hdr -> names_plain m ->
    vendor_of hdr = VOrix /\ orix_column_names hdr = Some (orix_cols ++ map normx (k_extra kw)).
Proof. exact @header_vendor. Qed.
Print Assumptions C14_header_vendor.
Theorem C14_header_phases :
  forall (T Rot : Type) (t0 : T) (prt3 prt6 : T -> Z) (m : @cmap T Rot) (g : @geom T) (kw : kwargs) hdr,
    header_of t0 prt3 prt6 m g kw = Some hdr -> names_plain m ->
    phase_list_of (parse_raw hdr) = Some (renumbered prt3 m).
Proof. exact @header_phases. Qed.
Print Assumptions C14_header_phases.

(* ---- strata where the faithful model violates the property (each replayed
   on the implementation by the check; see known_findings.d/C14.json) *)
Theorem C14_roundtrip_blank_run_name_refuted :
  exists m kw, map (fun kv => ph_name (snd kv)) (m_phases m) = [" lead"%string]
               /\ rt_sat (zwrite m kw) (fun r => map (fun kv => rp_name (snd kv)) (r_phases r) = ["lead"%string]).
Proof. exact ref_blank_run_name. Qed.
Print Assumptions C14_roundtrip_blank_run_name_refuted.
Theorem C14_roundtrip_ci_collision_refuted :
  exists m kw, m_pid m = [0; 0; 0; 0] /\ rt_sat (zwrite m kw) (fun r => r_pid r = [1; -1; 1; 1]).
Proof. exact ref_ci_collision. Qed.
Print Assumptions C14_roundtrip_ci_collision_refuted.
Theorem C14_roundtrip_coarse_step_refuted :
  exists m kw, m_rows m = 1%nat /\ m_cols m = 110%nat /\ rt_sat (cwrite m kw) (fun r => r_shape r = [111%nat] /\ r_dx r = 100).
Proof. exact ref_coarse_step. Qed.
Print Assumptions C14_roundtrip_coarse_step_refuted.
Theorem C14_roundtrip_extra_named_ci_refuted :
  exists m kw, m_pid m = [0; -1; 0; 1] /\ rt_sat (zwrite m kw) (fun r => r_pid r = [1; 0; 1; 2]).
Proof. exact ref_extra_named_ci. Qed.
Print Assumptions C14_roundtrip_extra_named_ci_refuted.
