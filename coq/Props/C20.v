(* C20 -- Stereographic projection is an exact bijection; pole densities are
   normalised.  Property theorems only; proofs are in Proofs/C20Atan2.v,
   Proofs/C20ProjProofs.v and Proofs/C20PdfProofs.v.

   The projection / spherical-coordinate statements are about the definitions
   GENERATED on every run from orix/projections/stereographic.py (_vector2xy,
   xy2vector) and orix/vector/vector3d.py (from_polar, to_polar, azimuth, polar,
   radial) into Gen/C20Stereo.v, wrapped by Model/C20Proj.v; the pole-density
   statements are about the hand model Model/C20Pdf.v.  All on the reals. *)
From Coq Require Import Reals List Bool Lra.
From Verif Require Import Scalar RInst.
From Verif.Gen Require Import C20Stereo.
From Verif.Model Require Import C20Proj C20Pdf.
From Verif.Proofs Require Import C20Atan2 C20ProjProofs C20PdfProofs C20ConvProofs.
Import ListNotations.
Local Open Scope R_scope.

(* ---------------------------------------------------------------- forward *)
(* every point returned by vector2xy(pole) comes from a vector whose UNIT vector
   passed the hemisphere test (selu); whatever the length of that vector, the
   squared radius is at most (1 + 1e-9)/(1 - 1e-9) (the test tolerates
   -pole*z > -1e-9 on the unit vector), and if the vector lies on the closed far
   hemisphere the point is in the CLOSED UNIT DISK -- all lengths, the zero vector
   included (it is returned at the origin) *)
Theorem C20_forward_disk : forall p vs X Y, is_pole p -> In (X, Y) (vector2xy ROps p vs) ->
  exists v, In v vs /\ selu p v = true /\ (X, Y) = project1 ROps p v /\
    X * X + Y * Y <= (1 + eps9) / (1 - eps9) /\
    (p * snd v <= 0 -> X * X + Y * Y <= 1).
Proof. exact forward_disk. Qed.
Print Assumptions C20_forward_disk.

Example C20_forward_disk_nonvacuous :
  is_pole (-1) /\ In (0, 0) (vector2xy ROps (-1) [(0, 0, 1)]).
Proof.
  split; [right; reflexivity |].
  apply in_vector2xy. exists (0, 0, 1). split; [left; reflexivity | split].
  - unfold selu. rewrite vunit_of_unit by (simpl; lra). apply sel_true. unfold eps9. lra.
  - unfold project1. rewrite vunit_of_unit by (simpl; lra). rewrite k_value by lra.
    f_equal; field.
Qed.

(* kernel level, unit vectors, both poles: exact radius formula and the disk *)
Theorem C20_radius_formula : forall x y z p, is_pole p -> unit3 (x, y, z) -> z <> p ->
  let '(X, Y) := vector2xy_k ROps x y z p in X * X + Y * Y = (1 + p * z) / (1 - p * z).
Proof. exact k_radius. Qed.
Print Assumptions C20_radius_formula.

Theorem C20_unit_disk : forall x y z p, is_pole p -> unit3 (x, y, z) -> p * z <= 0 ->
  let '(X, Y) := vector2xy_k ROps x y z p in X * X + Y * Y <= 1.
Proof. exact k_disk_closed. Qed.
Print Assumptions C20_unit_disk.

(* division guarded at the projection point *)
Theorem C20_pole_guard : forall x y p, vector2xy_k ROps x y p p = (0, 0).
Proof. exact k_at_pole. Qed.
Print Assumptions C20_pole_guard.

(* the hemisphere test is made on the UNIT vector (repaired: it used to be made on
   the vector as given, so that every vector shorter than 1e-9 passed the test of
   both hemispheres): the selection depends on the direction only, it is the test
   -pole * z > -1e-9 |v|, and only vectors within 1e-9 |v| of the equator are
   selected for both hemispheres *)
Theorem C20_selection_on_unit_vector : forall p k x y z,
  is_pole p -> 0 < k -> nrm (x, y, z) <> 0 ->
  selu p (k * x, k * y, k * z) = selu p (x, y, z) /\
  (selu p (x, y, z) = true <-> - eps9 * nrm (x, y, z) < - p * z) /\
  (selu (-1) (x, y, z) = true -> selu 1 (x, y, z) = true -> Rabs z < eps9 * nrm (x, y, z)).
Proof. exact selection_spec. Qed.
Print Assumptions C20_selection_on_unit_vector.

(* the former counterexample (3e-10, 0, -4e-10), unit vector (0.6, 0, -0.8): not
   returned for the upper hemisphere, returned for the lower one at (1/3, 0) *)
Example C20_short_vector_selection :
  let v : vec3 (T:=R) := (3 / 10000000000, 0, - 4 / 10000000000) in
  selu (-1) v = false /\ selu 1 v = true /\ project1 ROps 1 v = (1 / 3, 0).
Proof. exact short_vector_selection. Qed.

(* --------------------------------------------------------------- inverse *)
(* the inverse projection recovers every unit vector but the projection point *)
Theorem C20_inverse_of_forward : forall x y z p, is_pole p -> unit3 (x, y, z) -> z <> p ->
  xy2vec ROps p (vector2xy_k ROps x y z p) = (x, y, z).
Proof. exact inverse_of_forward. Qed.
Print Assumptions C20_inverse_of_forward.

(* array level, non-unit input: every returned point maps back to the unit
   vector of the vector it came from, whatever its (non-zero) length *)
Theorem C20_roundtrip : forall p vs P, is_pole p -> In P (vector2xy ROps p vs) ->
  exists v, In v vs /\ selu p v = true /\ P = project1 ROps p v /\
    (nrm v <> 0 -> xy2vec ROps p P = vunit ROps v).
Proof. exact forward_roundtrip. Qed.
Print Assumptions C20_roundtrip.

(* every plane point is the image of its inverse image, which is a unit vector
   different from the projection point, on the far closed hemisphere iff the
   point is in the closed unit disk: the projection is a bijection between the
   closed hemisphere and the closed disk, for both poles *)
Theorem C20_forward_of_inverse : forall X Y p, is_pole p ->
  let v := xy2vec ROps p (X, Y) in
  unit3 v /\ snd v <> p /\
  (let '(x, y, z) := v in vector2xy_k ROps x y z p) = (X, Y) /\
  (p * snd v <= 0 <-> X * X + Y * Y <= 1).
Proof. exact forward_of_inverse. Qed.
Print Assumptions C20_forward_of_inverse.

(* normalisation: unit vectors are left alone, the result is a unit vector,
   positive scaling is irrelevant *)
Theorem C20_normalisation : forall k x y z, 0 < k -> nrm (x, y, z) <> 0 ->
  unit3 (vunit ROps (x, y, z)) /\ vunit ROps (k * x, k * y, k * z) = vunit ROps (x, y, z) /\
  (unit3 (x, y, z) -> vunit ROps (x, y, z) = (x, y, z)).
Proof.
  intros k x y z Hk Hn. split; [apply vunit_unit; exact Hn | split].
  - apply vunit_scale; assumption.
  - apply vunit_of_unit.
Qed.
Print Assumptions C20_normalisation.

(* ----------------------------------------------------------------- split *)
Theorem C20_split_upper : forall vs P,
  In P (fst (vector2xy_split ROps vs)) <->
  exists v, In v vs /\ - eps9 < snd (vunit ROps v) /\ P = project1 ROps (-1) v.
Proof. exact split_upper. Qed.
Print Assumptions C20_split_upper.

Theorem C20_split_lower : forall vs P,
  In P (snd (vector2xy_split ROps vs)) <->
  exists v, In v vs /\ snd (vunit ROps v) < eps9 /\ P = project1 ROps 1 v.
Proof. exact split_lower. Qed.
Print Assumptions C20_split_lower.

(* z >= 0 is selected for the upper set, z <= 0 for the lower set (equatorial
   vectors for both), every vector for at least one; |z| >= 1e-9 |v| for only one,
   whatever the length |v| > 0 *)
Theorem C20_split_cover : forall v : vec3 (T:=R),
  (0 <= snd v -> selu (-1) v = true) /\ (snd v <= 0 -> selu 1 v = true) /\
  (selu (-1) v = true \/ selu 1 v = true) /\
  (nrm v <> 0 -> eps9 * nrm v <= snd v -> selu 1 v = false) /\
  (nrm v <> 0 -> snd v <= - eps9 * nrm v -> selu (-1) v = false).
Proof. exact split_cover. Qed.
Print Assumptions C20_split_cover.

Theorem C20_split_lengths : forall vs,
  (length vs <= length (fst (vector2xy_split ROps vs)) + length (snd (vector2xy_split ROps vs)))%nat.
Proof. exact split_lengths. Qed.
Print Assumptions C20_split_lengths.

(* ------------------------------------------------- spherical coordinates *)
(* arctan2 over the reals is the angle of (x, y) *)
Theorem C20_atan2_spec : forall x y, (x <> 0 \/ y <> 0) ->
  cos (Ratan2 y x) = x / rho x y /\ sin (Ratan2 y x) = y / rho x y /\ - PI < Ratan2 y x <= PI.
Proof. intros x y H. destruct (atan2_cos_sin x y H). repeat split; auto; apply atan2_range. Qed.
Print Assumptions C20_atan2_spec.

Theorem C20_spherical_ranges : forall x y z,
  0 <= v_azimuth ROps x y z < 2 * PI /\ 0 <= v_polar ROps x y z <= PI.
Proof. intros. split; [apply azimuth_range | apply polar_range]. Qed.
Print Assumptions C20_spherical_ranges.

(* Cartesian -> spherical -> Cartesian, EVERY non-zero vector of any length,
   radians and degrees: z and x^2 + y^2 come back exactly (to_polar reads polar
   and radial from the vector as given; Vector3d.azimuth rounds copies), x and y
   up to the rounding of the azimuth, at most 3e-8 |v| *)
Theorem C20_cart_sph_cart : forall deg x y z, 0 < nrm (x, y, z) ->
  let '(x', y', z') := polar2vec_r ROps deg (vec2polar ROps deg (x, y, z)) in
  z' = z /\ x' * x' + y' * y' = x * x + y * y /\
  Rabs (x' - x) <= 3 * tol8 * nrm (x, y, z) /\ Rabs (y' - y) <= 3 * tol8 * nrm (x, y, z).
Proof. exact cart_sph_cart_all. Qed.
Print Assumptions C20_cart_sph_cart.

(* ... and EXACTLY when x and y are zero or larger than 1e-8 |v| (the rounding band
   of Vector3d.azimuth is relative to the length of the vector) *)
Theorem C20_cart_sph_cart_exact : forall deg x y z,
  0 < nrm (x, y, z) -> nosnapr (nrm (x, y, z)) x -> nosnapr (nrm (x, y, z)) y ->
  polar2vec_r ROps deg (vec2polar ROps deg (x, y, z)) = (x, y, z).
Proof. exact cart_sph_cart_exact. Qed.
Print Assumptions C20_cart_sph_cart_exact.

Example C20_cart_sph_cart_nonvacuous :
  0 < nrm (0, 3, -4) /\ nosnapr (nrm (0, 3, -4)) 0 /\ nosnapr (nrm (0, 3, -4)) 3.
Proof.
  pose proof (nrm_sq 0 3 (-4)) as E. pose proof (nrm_nonneg (0, 3, -4)) as H.
  assert (Hn : nrm (0, 3, -4) = 5) by nra.
  rewrite Hn. split; [lra | split; [left; reflexivity | right; unfold tol8; rewrite Rabs_right; lra]].
Qed.

(* the radius reported by to_polar is the length of the vector as given, and the
   former counterexample of the absolute 1e-8 band, (1e-9, 1e-9, 0) (it used to
   come out with radius 0), round-trips exactly *)
Theorem C20_radius_kept : forall deg x y z, snd (vec2polar ROps deg (x, y, z)) = nrm (x, y, z).
Proof. exact radius_kept. Qed.
Print Assumptions C20_radius_kept.

Example C20_short_vector_roundtrip :
  let v : vec3 (T:=R) := (1 / 1000000000, 1 / 1000000000, 0) in
  0 < nrm v /\ polar2vec_r ROps false (vec2polar ROps false v) = v.
Proof. exact short_vector_roundtrip. Qed.

(* spherical -> Cartesian -> spherical: ANY radius r > 0, polar strictly between
   the poles, azimuth in [0, 2pi) resp. [0, 360), direction cosines x/r, y/r zero or
   larger than 1e-8 (the hypothesis no longer depends on r) *)
Theorem C20_sph_cart_sph_rad : forall a t r, 0 < r -> 0 < t < PI -> 0 <= a < 2 * PI ->
  nosnap (cos a * sin t) -> nosnap (sin a * sin t) ->
  vec2polar ROps false (polar2vec_r ROps false (a, t, r)) = (a, t, r).
Proof. exact sph_cart_sph_rad. Qed.
Print Assumptions C20_sph_cart_sph_rad.

Theorem C20_sph_cart_sph_deg : forall a t r, 0 < r -> 0 < t < 180 -> 0 <= a < 360 ->
  nosnap (cos (a * (PI / 180)) * sin (t * (PI / 180))) ->
  nosnap (sin (a * (PI / 180)) * sin (t * (PI / 180))) ->
  vec2polar ROps true (polar2vec_r ROps true (a, t, r)) = (a, t, r).
Proof. exact sph_cart_sph_deg. Qed.
Print Assumptions C20_sph_cart_sph_deg.

(* at the pole the azimuth is not recoverable (comes back as 0), polar and radius are *)
Theorem C20_sph_cart_sph_pole : forall a r, 0 < r ->
  vec2polar ROps false (polar2vec_r ROps false (a, 0, r)) = (0, 0, r).
Proof. exact sph_cart_sph_pole. Qed.
Print Assumptions C20_sph_cart_sph_pole.

(* degrees flag = scaling *)
Theorem C20_degrees_scaling : forall v a t r,
  vec2polar ROps true v =
    (let '(a', t', r') := vec2polar ROps false v in (a' * (180 / PI), t' * (180 / PI), r')) /\
  polar2vec_r ROps true (a, t, r) = polar2vec_r ROps false (a * (PI / 180), t * (PI / 180), r).
Proof. intros. split; [apply to_polar_deg | apply from_polar_deg]. Qed.
Print Assumptions C20_degrees_scaling.

(* the polar angle is on the upper grid [0, pi/2] exactly for z >= 0 and on the
   lower grid [pi/2, pi] exactly for z <= 0 *)
Theorem C20_polar_hemisphere : forall x y z, 0 < nrm (x, y, z) ->
  (0 <= v_polar ROps x y z <= PI / 2 <-> 0 <= z) /\ (PI / 2 <= v_polar ROps x y z <= PI <-> z <= 0).
Proof. intros. split; [apply polar_upper | apply polar_lower]; assumption. Qed.
Print Assumptions C20_polar_hemisphere.

(* ------------------------------------------------------------ histogram *)
(* the sum of all bins is the sum of the weights of the samples that fall in
   the grid, for every list of samples and weights of any sign *)
Theorem C20_hist_total : forall ea ep ss, (2 <= length ea)%nat -> (2 <= length ep)%nat ->
  rect (pred (length ea)) (pred (length ep)) (hist2d ROps ea ep ss) /\
  sum2 ROps (hist2d ROps ea ep ss) = sumT ROps (map (weight_in ea ep) ss).
Proof. exact hist_total. Qed.
Print Assumptions C20_hist_total.

(* a value is binned iff it lies between the first and the last edge (sorted edges) *)
Theorem C20_bin_iff_in_range : forall a l x, incr (a :: l) -> (1 <= length l)%nat ->
  (bin_of ROps (a :: l) x <> None <-> a <= x <= last (a :: l) 0).
Proof. exact bin_of_some. Qed.
Print Assumptions C20_bin_iff_in_range.

Theorem C20_hist_nonneg : forall ea ep ss,
  Forall (fun s => 0 <= snd s) ss -> nonneg2 (hist2d ROps ea ep ss).
Proof. exact hist_nonneg. Qed.
Print Assumptions C20_hist_nonneg.

(* folding into the sector (np.add.at) keeps the total and non-negativity *)
Theorem C20_fold_total : forall nr nc idx vals, length idx = length vals ->
  Forall (fun ij => (fst ij < nr)%nat /\ (snd ij < nc)%nat) idx ->
  rect nr nc (fold_at ROps nr nc idx vals) /\ sum2 ROps (fold_at ROps nr nc idx vals) = sumT ROps vals.
Proof. exact fold_at_total. Qed.
Print Assumptions C20_fold_total.

Theorem C20_fold_nonneg : forall nr nc idx vals,
  Forall (fun x => 0 <= x) vals -> nonneg2 (fold_at ROps nr nc idx vals).
Proof. exact fold_at_nonneg. Qed.
Print Assumptions C20_fold_nonneg.

(* MRD: after hist / hist.mean() the mean over the valid (unmasked) bins is 1 *)
Theorem C20_mrd_mean_one : forall mask vals, (0 < mcount mask)%nat -> msum ROps mask vals <> 0 ->
  mmean ROps mask (mrd ROps mask vals) = 1.
Proof. exact mrd_mean_one. Qed.
Print Assumptions C20_mrd_mean_one.

Theorem C20_mrd_nonneg : forall mask vals, Forall (fun x => 0 <= x) vals -> (0 < mcount mask)%nat ->
  msum ROps mask vals <> 0 -> Forall (fun x => 0 <= x) (mrd ROps mask vals).
Proof. exact mrd_nonneg. Qed.
Print Assumptions C20_mrd_nonneg.

(* ------------------------------------------------------------- smoothing *)
(* scipy.ndimage correlate1d with "wrap": total kept for ANY kernel of sum 1;
   with "reflect": total kept for a SYMMETRIC kernel of sum 1; any line length *)
Theorem C20_wrap_total : forall w x, (0 < length x)%nat ->
  sumT ROps (corr1 ROps ext_wrap w x) = sumT ROps w * sumT ROps x.
Proof. exact corr1_wrap_total. Qed.
Print Assumptions C20_wrap_total.

Theorem C20_reflect_total : forall w r x, sym_kernel w r -> (0 < length x)%nat ->
  sumT ROps (corr1 ROps ext_reflect w x) = sumT ROps w * sumT ROps x.
Proof. exact corr1_reflect_total. Qed.
Print Assumptions C20_reflect_total.

(* gaussian_filter(hist, s, mode=("wrap", "reflect")) keeps shape, total and sign *)
Theorem C20_smoothing_total : forall w nr nc m, kernel_ok w -> (0 < nr)%nat -> (0 < nc)%nat ->
  rect nr nc m ->
  rect nr nc (gauss2d ROps w nr nc m) /\ sum2 ROps (gauss2d ROps w nr nc m) = sum2 ROps m.
Proof. exact gauss2d_total. Qed.
Print Assumptions C20_smoothing_total.

Theorem C20_smoothing_nonneg : forall w nr nc m, Forall (fun v => 0 <= v) w -> nonneg2 m ->
  nonneg2 (gauss2d ROps w nr nc m).
Proof. exact gauss2d_nonneg. Qed.
Print Assumptions C20_smoothing_nonneg.

Example C20_kernel_nonvacuous : kernel_ok [1 / 4; 1 / 2; 1 / 4].
Proof.
  split; [exists 1%nat; split; [reflexivity |] | split].
  - intros [| [| [| k]]] H; simpl; try reflexivity. simpl in H. exfalso. apply (Nat.nle_succ_0 k).
    do 2 apply le_S_n. exact H.
  - simpl. rsimpl. unfold zero. rsimpl. lra.
  - repeat constructor; lra.
Qed.

(* ------------------------------------------------------ whole pipeline *)
(* symmetry=None, mrd=False: the smoothed histogram sums to the total weight of
   the samples in the grid, has (#azimuth bins x #polar bins) entries and is
   non-negative for non-negative weights; weights of any sign, any number of
   vectors, any resolution (edge lists) and any smoothing kernel width *)
Theorem C20_pdf_total : forall ea ep w ss, kernel_ok w -> (2 <= length ea)%nat -> (2 <= length ep)%nat ->
  sumT ROps (pdf_of_samples ROps ea ep w false ss) = sumT ROps (map (weight_in ea ep) ss) /\
  length (pdf_of_samples ROps ea ep w false ss) = (pred (length ea) * pred (length ep))%nat /\
  (Forall (fun s => 0 <= snd s) ss -> Forall (fun v => 0 <= v) (pdf_of_samples ROps ea ep w false ss)).
Proof. exact pdf_counts_total. Qed.
Print Assumptions C20_pdf_total.

(* ... and the samples in the grid are exactly the vectors of the hemisphere:
   upper grid (polar edges 0 .. pi/2): non-zero and z >= 0; lower grid
   (pi/2 .. pi): non-zero and z <= 0 (equatorial vectors in both); vectors of any
   length are counted *)
Theorem C20_counted_vectors : forall ea ep x y z w,
  (grid_ok ea ep 0 (PI / 2) ->
   (cell ROps ea ep (angles ROps (x, y, z), w) <> None <-> 0 < nrm (x, y, z) /\ 0 <= z)) /\
  (grid_ok ea ep (PI / 2) PI ->
   (cell ROps ea ep (angles ROps (x, y, z), w) <> None <-> 0 < nrm (x, y, z) /\ z <= 0)).
Proof. intros. split; [apply counted_upper | apply counted_lower]. Qed.
Print Assumptions C20_counted_vectors.

Example C20_grid_nonvacuous : grid_ok [0; 2 * PI] [0; PI / 2] 0 (PI / 2).
Proof.
  exists [2 * PI], [PI / 2]. pose proof PI_RGT_0.
  repeat split; simpl; auto; lra.
Qed.

(* symmetry=None, mrd=True: the density averages to exactly 1 over all bins
   whenever the total weight in the grid is not zero *)
Theorem C20_pdf_mrd_mean : forall ea ep w ss, kernel_ok w -> (2 <= length ea)%nat -> (2 <= length ep)%nat ->
  sumT ROps (map (weight_in ea ep) ss) <> 0 ->
  let h := pdf_of_samples ROps ea ep w true ss in
  mmean ROps (repeat true (length h)) h = 1.
Proof. exact pdf_mrd_mean. Qed.
Print Assumptions C20_pdf_mrd_mean.

(* with a point group -- PARTIAL.  Full statement: for every point group G and
   all vectors vs, vs' with vs'_i = g_i vs_i, g_i in G, not on sector boundaries:
   pdf(vs', symmetry=G) = pdf(vs, symmetry=G).  Proved here: the folded density
   depends on the vectors only through Vector3d.in_fundamental_sector, so it is
   unchanged whenever the replacement vectors are folded to the same directions.
   That in_fundamental_sector(g v) = in_fundamental_sector(v) is property C07(e)
   (it FAILS for m11, 1m1, -4, -6m2 and rarely for 23, m-3, 432: known findings,
   replayed on the implementation by the oracle for all 38 groups) *)
Theorem C20_symmetry_invariance_partial :
  forall (fs : vec3 (T:=R) -> vec3 (T:=R)) ea ep w cr cc idx mask domrd vs vs' ws,
  Forall2 (fun v v' => fs v' = fs v) vs vs' ->
  pdf_sym ROps fs ea ep w cr cc idx mask domrd vs' ws = pdf_sym ROps fs ea ep w cr cc idx mask domrd vs ws.
Proof. exact pdf_sym_invariant. Qed.
Print Assumptions C20_symmetry_invariance_partial.
