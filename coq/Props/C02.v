(* C02 -- Quaternion and rotation products form a faithful group action on
   vectors.  Property theorems only; proofs are in Proofs/QuatAlg.v and
   Base/NdIndex.v.  All statements are about the definitions GENERATED from
   orix/quaternion/quaternion.py (qu_multiply_gufunc, qu_rotate_vec_gufunc,
   qu_conj_gufunc) and orix/quaternion/_conversions.py (qu2om_single),
   instantiated on the real numbers. *)
From Coq Require Import Reals List Bool.
From Verif Require Import Scalar RInst NdIndex QuatKernels Conversions Quat RotArr QuatAlg.
Local Open Scope R_scope.

(* (R1*R2)*v = R1*(R2*v) for all unit quaternions and all vectors *)
Theorem C02_action_composes : forall (p q : quat) (v : vec3),
  qnorm2 ROps p = 1 -> qnorm2 ROps q = 1 ->
  qrot ROps (qmul ROps p q) v = qrot ROps p (qrot ROps q v).
Proof. exact qrot_mul. Qed.
Print Assumptions C02_action_composes.

(* the matrix of a product is the product of the matrices (all quaternions) *)
Theorem C02_matrix_of_product : forall p q : quat,
  qu2om ROps (qmul ROps p q) = mmul ROps (qu2om ROps p) (qu2om ROps q).
Proof. exact qu2om_mul. Qed.
Print Assumptions C02_matrix_of_product.

(* R * ~R is the identity *)
Theorem C02_inverse : forall q : quat,
  qnorm2 ROps q = 1 -> qmul ROps q (qconj ROps q) = qone ROps.
Proof. exact qmul_conj_unit. Qed.
Print Assumptions C02_inverse.

(* products of unit quaternions stay unit *)
Theorem C02_unit_closed : forall p q : quat,
  qnorm2 ROps p = 1 -> qnorm2 ROps q = 1 -> qnorm2 ROps (qmul ROps p q) = 1.
Proof. exact qmul_unit. Qed.
Print Assumptions C02_unit_closed.

(* associativity of the Hamilton product (all quaternions) *)
Theorem C02_assoc : forall p q r : quat,
  qmul ROps (qmul ROps p q) r = qmul ROps p (qmul ROps q r).
Proof. exact qmul_assoc. Qed.
Print Assumptions C02_assoc.

(* rotated vectors keep lengths and mutual angles: all inner products are
   preserved, by proper and improper rotations alike *)
Theorem C02_isometry : forall (r : rot) (u v : vec3),
  qnorm2 ROps (fst r) = 1 -> vdot ROps (ract ROps r u) (ract ROps r v) = vdot ROps u v.
Proof. exact ract_dot. Qed.
Print Assumptions C02_isometry.

(* an improper rotation acts as its proper part followed by inversion, and
   the action of (possibly improper) rotations composes *)
Theorem C02_improper_action : forall (r s : rot) (v : vec3),
  qnorm2 ROps (fst r) = 1 -> qnorm2 ROps (fst s) = 1 ->
  ract ROps (rmul ROps r s) v = ract ROps r (ract ROps s v).
Proof. exact ract_mul. Qed.
Print Assumptions C02_improper_action.

Theorem C02_improper_inverse : forall (r : rot) (v : vec3),
  qnorm2 ROps (fst r) = 1 -> ract ROps (rinv ROps r) (ract ROps r v) = v.
Proof. exact ract_inv. Qed.
Print Assumptions C02_improper_inverse.

(* properness combines by parity under products and inverses; unary minus toggles it *)
Theorem C02_parity : forall r s : rot,
  snd (rmul ROps r s) = xorb (snd r) (snd s) /\ snd (rinv ROps r) = snd r /\
  snd (rneg r) = negb (snd r) /\
  (forall v, ract ROps (rneg r) v = vneg ROps (ract ROps r v)).
Proof. intros r s; repeat split; intros; apply ract_neg. Qed.
Print Assumptions C02_parity.

(* outer products: exactly the pairwise products, indexed as
   self.shape ++ other.shape (C order), for every pair of shapes --
   including empty shapes (scalars-like) and axes of length 0 or 1 *)
Theorem C02_outer_layout : forall (sA sB : list nat) (A B : list rot) (i j : list nat) d,
  length A = size sA -> length B = size sB -> valid sA i -> valid sB j ->
  nth (ravel (sA ++ sB) (i ++ j)) (outer (rmul ROps) A B) d
  = rmul ROps (nth (ravel sA i) A d) (nth (ravel sB j) B d)
  /\ length (outer (rmul ROps) A B) = size (sA ++ sB).
Proof. intros; apply outer_shaped; assumption. Qed.
Print Assumptions C02_outer_layout.

Theorem C02_outer_vectors_layout : forall (sA sB : list nat) (A : list rot) (B : list vec3) i j d dv,
  length A = size sA -> length B = size sB -> valid sA i -> valid sB j ->
  nth (ravel (sA ++ sB) (i ++ j)) (outer (ract ROps) A B) dv
  = ract ROps (nth (ravel sA i) A d) (nth (ravel sB j) B dv)
  /\ length (outer (ract ROps) A B) = size (sA ++ sB).
Proof. intros; apply outer_shaped; assumption. Qed.
Print Assumptions C02_outer_vectors_layout.

(* element-wise products of broadcastable shapes (NumPy rule, model Base/NdIndex.bcast2,
   tied to the implementation by the correspondence): the element at every valid
   multi-index of the broadcast shape is the product of the operands' elements at
   that index with the size-1 / missing axes clamped to 0 *)
Theorem C02_broadcast_elementwise : forall (sA sB s : list nat) (A B l : list rot) d,
  rbcast ROps sA sB A B = Some (s, l) ->
  bshape sA sB = Some s /\ length l = size s /\
  forall idx, valid s idx ->
    nth (ravel s idx) l d =
    rmul ROps (nth (ravel (pad_shape (length s) sA) (bidx (pad_shape (length s) sA) idx)) A (zq ROps, false))
              (nth (ravel (pad_shape (length s) sB) (bidx (pad_shape (length s) sB) idx)) B (zq ROps, false)).
Proof. intros sA sB s A B l d H. exact (bcast2_spec _ _ _ d sA sB A B s l H). Qed.
Print Assumptions C02_broadcast_elementwise.

(* non-vacuity: the hypotheses are met by a non-trivial unit quaternion *)
Example C02_nonvacuous : qnorm2 ROps (1/2, 1/2, 1/2, 1/2) = 1 /\ valid (2 :: 3 :: nil)%nat (1 :: 2 :: nil)%nat.
Proof. split; [qunfold; field | repeat constructor]. Qed.
