(* C06 -- All symmetry-aware operations agree on one equivalence relation.
   A relational property: corollaries of the C02 / C04 / C05 models.  The
   relation angle_with / dot / IPF use is LEFT multiplication by group
   operations (O ~ g*O). *)
From Coq Require Import Reals ZArith List Bool.
From Coq Require Import QArith String.
From Verif Require Import Scalar RInst KField KtoR Quat QuatAlg GroupK Groups SymDot SymDotR SymDotK ZoneModel ZoneProofs CrossProofs
  CoverCheck CoverSound SectorCertsAll SectorDomain.
Import ListNotations.
Local Open Scope R_scope.

(* members g*O of the set of equivalents have zero symmetry-reduced angle
   (reduced dot product >= 1) to O -- every list of symmetry elements, every g
   in it, every orientation *)
Theorem C06_left_equivalents_zero_angle : forall (U : list (rot (T:=R))) (g O1 : quat),
  In (g, false) U -> qnorm2 ROps g = 1 -> qnorm2 ROps O1 = 1 ->
  1 <= code_dot ROps U O1 (qmul ROps g O1).
Proof. exact left_equivalent_zero_angle. Qed.
Print Assumptions C06_left_equivalents_zero_angle.

(* ... and the crystal direction of any sample direction is the symmetry
   image g*(O*v), so a projection that is constant on symmetry orbits (C07)
   gives the same sector direction and the same IPF colour (C08) *)
Theorem C06_left_equivalents_same_orbit_direction : forall (g O1 : quat) (v : vec3),
  qnorm2 ROps g = 1 -> qnorm2 ROps O1 = 1 ->
  qrot ROps (qmul ROps g O1) v = qrot ROps g (qrot ROps O1 v).
Proof. exact left_equivalent_direction. Qed.
Print Assumptions C06_left_equivalents_same_orbit_direction.

(* ... and that projection exists for the sectors the code builds: for each of the 70 certified subjects (C07), an
   orientation O and an equivalent g * O give, for any sample direction v, crystal directions with ONE representative
   strictly inside the fundamental sector -- whichever operations r, s bring them there.  Hence the same sector
   direction, and the same IPF colour (a function of that direction, C08), off the sector boundary. *)
Theorem C06_equivalent_orientations_same_sector_direction : forall sc, In sc (List.concat all_sector_certs) ->
  forall (O1 : quat) (v : vec3) g r s, qnorm2 ROps O1 = 1 ->
  In g (sc_ops sc) -> In r (sc_ops sc) -> In s (sc_ops sc) ->
  (forall n, In n (sc_N sc) -> 0 < vdot ROps (vtoR n) (ract ROps (rtoR r) (qrot ROps O1 v))) ->
  (forall n, In n (sc_N sc) -> 0 < vdot ROps (vtoR n) (ract ROps (rtoR s) (ract ROps (rmul ROps (rtoR g) (O1, false)) v))) ->
  ract ROps (rtoR s) (ract ROps (rmul ROps (rtoR g) (O1, false)) v) = ract ROps (rtoR r) (qrot ROps O1 v).
Proof.
  intros sc Hsc O1 v g r s HO Hg Hr Hs Or Os.
  destruct (sc_group_facts sc Hsc) as [Hu _]. pose proof (kunit_sound _ g Hu Hg) as Ug.
  assert (E : ract ROps (rmul ROps (rtoR g) (O1, false)) v = ract ROps (rtoR g) (qrot ROps O1 v)).
  { rewrite ract_mul by assumption. reflexivity. }
  rewrite E in Os |- *. exact (sector_representative_unique sc Hsc (qrot ROps O1 v) g r s Hg Hr Hs Or Os).
Qed.
Print Assumptions C06_equivalent_orientations_same_sector_direction.

(* the symmetry-reduced-zone representative of an orientation is O*g: the
   symmetry is multiplied on the RIGHT (faithful model of the loop with Gl = C1) *)
Theorem C06_reduction_right_orbit : forall eps N (Gr : list (quat (T:=R))) M,
  Gr <> [] -> exists gr, In gr Gr /\ reduce ROps eps N [qone ROps] Gr M = qmul ROps M gr.
Proof. exact reduction_is_right_multiple. Qed.
Print Assumptions C06_reduction_right_orbit.

(* a right multiple is an equivalent of the INVERSE orientations ... *)
Theorem C06_right_multiple_equivalent_for_inverses : forall (U : list (rot (T:=R))) (g O1 : quat),
  In (qconj ROps g, false) U -> qnorm2 ROps g = 1 -> qnorm2 ROps O1 = 1 ->
  1 <= code_dot ROps U (qconj ROps O1) (qconj ROps (qmul ROps O1 g)).
Proof. exact right_multiple_is_left_equivalent_of_inverses. Qed.
Print Assumptions C06_right_multiple_equivalent_for_inverses.

(* ... but NOT an equivalent of the orientation itself: the FULL clause
   "an orientation and its reduced-zone representative have zero reduced angle"
   is refuted on the faithful model (222, O = (4/5,0,3/5,0), g = 2x) *)
Theorem C06_reduction_side_refuted :
  exists (U : list (rot (T:=R))) (g O1 : quat), In (g, false) U /\ qnorm2 ROps g = 1 /\ qnorm2 ROps O1 = 1 /\
    code_dot ROps U O1 (qmul ROps O1 g) < 1.
Proof. exact right_multiple_not_equivalent_refuted. Qed.
Print Assumptions C06_reduction_side_refuted.

(* PARTIAL: the Euler-fundamental-region representative (special rotations and primary axis order per proper group
   name) is checked by the cross-method oracle for all 38 groups, not by a theorem; that the PROJECTION lands strictly
   inside the sector (the hypothesis of the theorem above) is the oracle-only clause of C07. *)

Example C06_nonvacuous : In ((0, 1, 0, 0), false) G222 /\ qnorm2 ROps (4/5, 0, 3/5, 0) = 1.
Proof. split; [right; left; reflexivity | unfold qnorm2; rsimpl; field]. Qed.
