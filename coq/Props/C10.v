(* C10 -- Miller symmetry operations enumerate true orbits.
   Property theorems only; proofs are in Proofs/C10Orbit.v (orbit-stabiliser),
   Proofs/C10Sym.v (symmetrise, multiplicity, angle_with, unique),
   Proofs/C10Round.v (integer rounding) and Proofs/C10Inst.v (exact instance,
   witnesses).  All statements are about the executable model Model/C10Model.v
   (and C17's model of Object3d.unique / Miller.unique it builds on), which is
   run against /repo on every check.

   Conventions: E = vectors, G = operations, [ops] the point group as a list,
   [act g v] the action; [rnd] = rounding to 10 decimals, [iszero] = the
   np.isclose(.,0) filter of Object3d.unique, [key]/[cmp] = the row order of
   np.unique.  [exact_on v] says rounding neither changes nor removes an image
   of v (exact equality is then the de-duplication relation); the 1e-10
   threshold stratum, where this fails, is C10_rounding_splits_cluster_refuted
   and a known finding.  Two defects of orix found by this property
   (multiplicity of n-d objects, angle_with with several other vectors) are
   repaired; their clauses are proved at full strength (C10_multiplicity_nd,
   C10_angle_min_over_orbit, C10_angle_elementwise). *)
From Coq Require Import ZArith List Bool Arith Reals.
From Verif Require Import NdIndex C17Unique C17UniqueSpec C10Model C10Orbit C10Sym C10Inst C10Round.
Import ListNotations.

(* ------------------------------------------------------------ symmetrise() *)
(* exactly the images of each vector under all operations, vector by vector
   (flattened input order), operations in group order *)
Theorem C10_symmetrise_all_images :
  forall (G E : Type) (d : E) (act : G -> E -> E) (ops : list G) (vs : list E),
  symmetrise_all d act ops vs = flat_map (fun v => map (fun g => act g v) ops) vs.
Proof. exact (fun G E d act ops vs => symmetrise_all_spec d act ops vs). Qed.
Print Assumptions C10_symmetrise_all_images.

(* --------------------------------------------------- symmetrise(unique=True) *)
(* for EVERY rounding function: the returned vectors are the per-vector blocks
   concatenated in input order, multiplicity = block length, and the index
   array repeats the input position multiplicity times *)
Theorem C10_symmetrise_unique_blocks :
  forall (G E K : Type) (cmp : K -> K -> comparison), cmp_order cmp ->
  forall (rnd : E -> E) (iszero : E -> bool) (key : E -> K) (d zero : E) (exact0 : E -> bool)
         (act : G -> E -> E) (ops : list G),
  exact0 zero = true -> (forall e, exact0 e = true -> iszero e = true) ->
  forall vs : list E,
  symmetrise_unique cmp rnd iszero key d zero exact0 act ops vs
  = (concat (map (block_of cmp rnd iszero key d act ops) vs),
     map (fun v => length (block_of cmp rnd iszero key d act ops v)) vs,
     idx_spec 0 (map (block_of cmp rnd iszero key d act ops) vs)).
Proof.
  exact (fun G E K cmp CO rnd iszero key d zero exact0 act ops Z0 Z1 vs =>
           symmetrise_unique_spec cmp CO rnd iszero key d zero exact0 act ops Z0 Z1 vs).
Qed.
Print Assumptions C10_symmetrise_unique_blocks.

(* each block: first-appearance de-duplication of the rounded non-zero images *)
Theorem C10_unique_block_first_appearance :
  forall (G E K : Type) (cmp : K -> K -> comparison), cmp_order cmp ->
  forall (rnd : E -> E) (iszero : E -> bool) (key : E -> K) (d : E) (act : G -> E -> E) (ops : list G) (v : E),
  block_of cmp rnd iszero key d act ops v
  = nubk cmp key (filter (fun e => negb (iszero e)) (map rnd (map (fun g => act g v) ops))).
Proof. exact (fun G E K cmp CO rnd iszero key d act ops v => block_spec cmp CO rnd iszero key d act ops v). Qed.
Print Assumptions C10_unique_block_first_appearance.

(* with exact de-duplication the block is the duplicate-free list of the
   distinct images of the vector ... *)
Theorem C10_unique_block_is_orbit :
  forall (G E K : Type) (cmp : K -> K -> comparison), cmp_order cmp ->
  forall (rnd : E -> E) (iszero : E -> bool) (key : E -> K) (d : E) (act : G -> E -> E) (ops : list G),
  (forall x y, keq cmp (key x) (key y) = true <-> x = y) ->
  forall v, exact_on rnd iszero act ops v ->
  block_of cmp rnd iszero key d act ops v = nubk cmp key (orbit_of act ops v) /\
  NoDup (block_of cmp rnd iszero key d act ops v) /\
  (forall w, In w (block_of cmp rnd iszero key d act ops v) <-> In w (orbit_of act ops v)).
Proof.
  exact (fun G E K cmp CO rnd iszero key d act ops KE v H =>
           block_is_orbit cmp CO rnd iszero key d act ops KE v H).
Qed.
Print Assumptions C10_unique_block_is_orbit.

(* ... listed in the order of first appearance among [g.v | g in G] *)
Theorem C10_unique_block_order :
  forall (E K : Type) (cmp : K -> K -> comparison) (key : E -> K) (d : E),
  (forall x y, keq cmp (key x) (key y) = true <-> x = y) ->
  forall (l : list E) k, k < length (nubk cmp key l) ->
  exists j, j < length l /\ nth j l d = nth k (nubk cmp key l) d /\
            forall i, i < j -> nth i l d <> nth k (nubk cmp key l) d.
Proof. exact (fun E K cmp key d KE l k => nubk_first cmp key d KE l k). Qed.
Print Assumptions C10_unique_block_order.

(* ------------------------------------------- multiplicity divides |G| *)
(* orbit-stabiliser, for any finite group given as a duplicate-free closed
   list acting on a type with decidable equality *)
Theorem C10_orbit_stabiliser :
  forall (Gt V : Type) (veq : V -> V -> bool), (forall x y, veq x y = true <-> x = y) ->
  forall (mul : Gt -> Gt -> Gt) (inv : Gt -> Gt) (e : Gt) (act : Gt -> V -> V) (G : list Gt),
  group_action mul inv e act G ->
  forall v (L : list V), NoDup L -> (forall w, In w L <-> In w (orbit act G v)) ->
  length L * length (stab veq act G v) = length G.
Proof. exact (fun Gt V veq H mul inv e act G GA v L => orbit_stabiliser veq H mul inv e act G GA v L). Qed.
Print Assumptions C10_orbit_stabiliser.

Theorem C10_multiplicity_divides_group_order :
  forall (G E K : Type) (cmp : K -> K -> comparison), cmp_order cmp ->
  forall (rnd : E -> E) (iszero : E -> bool) (key : E -> K) (d : E) (veq : E -> E -> bool)
         (mul : G -> G -> G) (inv : G -> G) (e : G) (act : G -> E -> E) (ops : list G),
  (forall x y, keq cmp (key x) (key y) = true <-> x = y) ->
  (forall x y, veq x y = true <-> x = y) ->
  group_action mul inv e act ops ->
  forall v, exact_on rnd iszero act ops v ->
  length (block_of cmp rnd iszero key d act ops v) * length (stab veq act ops v) = length ops /\
  Nat.divide (length (block_of cmp rnd iszero key d act ops v)) (length ops).
Proof.
  exact (fun G E K cmp CO rnd iszero key d veq mul inv e act ops KE VE GA v H =>
           conj (multiplicity_orbit_stabiliser cmp CO rnd iszero key d veq mul inv e act ops KE VE GA v H)
                (multiplicity_divides cmp CO rnd iszero key d veq mul inv e act ops KE VE GA v H)).
Qed.
Print Assumptions C10_multiplicity_divides_group_order.

(* symmetrically equivalent vectors have the same multiplicity *)
Theorem C10_multiplicity_invariant :
  forall (G E K : Type) (cmp : K -> K -> comparison), cmp_order cmp ->
  forall (rnd : E -> E) (iszero : E -> bool) (key : E -> K) (d : E)
         (mul : G -> G -> G) (inv : G -> G) (e : G) (act : G -> E -> E) (ops : list G),
  (forall x y, keq cmp (key x) (key y) = true <-> x = y) ->
  group_action mul inv e act ops ->
  forall v g, In g ops -> exact_on rnd iszero act ops v -> exact_on rnd iszero act ops (act g v) ->
  length (block_of cmp rnd iszero key d act ops (act g v)) = length (block_of cmp rnd iszero key d act ops v).
Proof.
  exact (fun G E K cmp CO rnd iszero key d mul inv e act ops KE GA v g =>
           multiplicity_invariant cmp CO rnd iszero key d mul inv e act ops KE GA v g).
Qed.
Print Assumptions C10_multiplicity_invariant.

(* Miller.multiplicity of an object of ANY shape (data = its C-order list):
   multiplicity[ix] = number of distinct (rounded) images of self[ix].  (Before
   the repair of orix -- column-major flatten, row-major reshape -- this held
   for 1-d objects only.) *)
Theorem C10_multiplicity_nd :
  forall (G E K : Type) (cmp : K -> K -> comparison), cmp_order cmp ->
  forall (rnd : E -> E) (iszero : E -> bool) (key : E -> K) (d zero : E) (exact0 : E -> bool)
         (act : G -> E -> E) (ops : list G),
  exact0 zero = true -> (forall e, exact0 e = true -> iszero e = true) ->
  forall shape (data : list E), length data = size shape ->
  multiplicity cmp rnd iszero key d zero exact0 act ops shape data
  = map (fun v => length (block_of cmp rnd iszero key d act ops v)) data.
Proof.
  exact (fun G E K cmp CO rnd iszero key d zero exact0 act ops Z0 Z1 shape data H =>
           multiplicity_nd cmp CO rnd iszero key d zero exact0 act ops Z0 Z1 shape data H).
Qed.
Print Assumptions C10_multiplicity_nd.

(* the 1-d case *)
Theorem C10_multiplicity_1d :
  forall (G E K : Type) (cmp : K -> K -> comparison), cmp_order cmp ->
  forall (rnd : E -> E) (iszero : E -> bool) (key : E -> K) (d zero : E) (exact0 : E -> bool)
         (act : G -> E -> E) (ops : list G),
  exact0 zero = true -> (forall e, exact0 e = true -> iszero e = true) ->
  forall n (data : list E), length data = n ->
  multiplicity cmp rnd iszero key d zero exact0 act ops [n] data
  = map (fun v => length (block_of cmp rnd iszero key d act ops v)) data.
Proof.
  exact (fun G E K cmp CO rnd iszero key d zero exact0 act ops Z0 Z1 n data H =>
           multiplicity_1d cmp CO rnd iszero key d zero exact0 act ops Z0 Z1 n data H).
Qed.
Print Assumptions C10_multiplicity_1d.

(* FULL STATEMENT (near-duplicates at the 1e-10 threshold are merged) REFUTED:
   de-duplication by comparing rounded values splits a cluster of evaluations
   of the same image that differ by one unit in the 11th decimal; the
   resulting multiplicity (4) does not divide the number of operations (6) *)
Theorem C10_rounding_splits_cluster_refuted :
  exists col : list Z,
    length col = 6 /\
    (forall i, i < 3 -> (Z.abs (nth i col 0%Z - nth (i + 3) col 0%Z) <= 1)%Z) /\
    ~ Nat.divide (length (zuniq_rounded col)) 6.
Proof. exact rounding_splits_cluster_refuted. Qed.
Print Assumptions C10_rounding_splits_cluster_refuted.

(* ------------------------------------------- angle_with(use_symmetry=True) *)
(* ANY shapes (objects as shape + C-order list): self and other are broadcast
   against each other by the NumPy rules, and the entry at every index of the
   broadcast shape is a minimum of the angles between the vector of self and
   ALL images of the corresponding vector of other -- and of no other vector.
   No hypothesis on rounding is left: the images are no longer de-duplicated. *)
Theorem C10_angle_min_over_orbit :
  forall (G E A : Type) (leb : A -> A -> bool) (ang : E -> E -> A) (act : G -> E -> E) (ops : list G) (d : E),
  (forall x y, leb x y = true \/ leb y x = true) ->
  (forall x y z, leb x y = true -> leb y z = true -> leb x z = true) ->
  forall (sS sO : list nat) (self other : list E) s res,
  angle_with_sym leb ang act ops d sS sO self other = Some (s, res) ->
  bshape sS sO = Some s /\ length res = size s /\
  forall k, k < size s ->
    is_min leb (nth k res (ang d d))
      (map (fun g => ang (nth (ravel (pad_shape (length s) sS) (bidx (pad_shape (length s) sS) (unravel s k))) self d)
                         (act g (nth (ravel (pad_shape (length s) sO) (bidx (pad_shape (length s) sO) (unravel s k))) other d)))
           ops).
Proof.
  exact (fun G E A leb ang act ops d LT LTr sS sO self other s res =>
           angle_with_sym_spec leb ang act ops d LT LTr sS sO self other s res).
Qed.
Print Assumptions C10_angle_min_over_orbit.

(* equally many vectors: ELEMENT-WISE (the clause the unrepaired code violated) *)
Theorem C10_angle_elementwise :
  forall (G E A : Type) (leb : A -> A -> bool) (ang : E -> E -> A) (act : G -> E -> E) (ops : list G) (d : E),
  (forall x y, leb x y = true \/ leb y x = true) ->
  (forall x y z, leb x y = true -> leb y z = true -> leb x z = true) ->
  forall n (self other : list E), ops <> [] ->
  exists res, angle_with_sym leb ang act ops d [n] [n] self other = Some ([n], res) /\ length res = n /\
    forall i, i < n ->
      is_min leb (nth i res (ang d d)) (map (fun g => ang (nth i self d) (act g (nth i other d))) ops).
Proof.
  exact (fun G E A leb ang act ops d LT LTr n self other =>
           angle_elementwise leb ang act ops d LT LTr n self other).
Qed.
Print Assumptions C10_angle_elementwise.

(* one other vector: the minimum over its images, for every vector of self *)
Theorem C10_angle_one_other :
  forall (G E A : Type) (leb : A -> A -> bool) (ang : E -> E -> A) (act : G -> E -> E) (ops : list G) (d : E),
  (forall x y, leb x y = true \/ leb y x = true) ->
  (forall x y z, leb x y = true -> leb y z = true -> leb x z = true) ->
  forall n (self : list E) (w : E), ops <> [] ->
  exists res, angle_with_sym leb ang act ops d [n] [1] self [w] = Some ([n], res) /\ length res = n /\
    forall i, i < n ->
      is_min leb (nth i res (ang d d)) (map (fun g => ang (nth i self d) (act g w)) ops).
Proof.
  exact (fun G E A leb ang act ops d LT LTr n self w =>
           angle_one_other leb ang act ops d LT LTr n self w).
Qed.
Print Assumptions C10_angle_one_other.

(* --------------------------------------------- unique(use_symmetry=True) *)
(* exactly one returned vector per orbit: every non-zero input vector (as
   rounded) has a returned vector in its orbit, and it is the only one; no
   two returned vectors are equivalent.  okey = sorted list of images. *)
Theorem C10_unique_sym_one_per_orbit :
  forall (G E K : Type) (cmp : K -> K -> comparison) (cmp2 : list E -> list E -> comparison),
  cmp_order cmp -> cmp_order cmp2 ->
  forall (rnd : E -> E) (iszero : E -> bool) (key : E -> K) (d : E)
         (mul : G -> G -> G) (inv : G -> G) (e : G) (act : G -> E -> E) (ops : list G) (leb : E -> E -> bool),
  (forall x y, keq cmp (key x) (key y) = true <-> x = y) ->
  (forall x y, cmp2 x y = Eq <-> x = y) ->
  (forall x y, leb x y = true \/ leb y x = true) ->
  (forall x y z, leb x y = true -> leb y z = true -> leb x z = true) ->
  (forall x y, leb x y = true -> leb y x = true -> x = y) ->
  group_action mul inv e act ops ->
  forall flat : list E,
  let out := fst (miller_unique cmp cmp2 rnd iszero key d (okey act ops leb) true flat) in
  (forall x, In x flat -> iszero (rnd x) = false ->
     exists z, In z out /\ equivalent act ops z (rnd x) /\
               forall z', In z' out -> equivalent act ops z' (rnd x) -> z' = z) /\
  (forall a b, a < b -> b < length out -> ~ equivalent act ops (nth a out d) (nth b out d)) /\
  (forall z, In z out -> In z (fst (fst (obj_unique cmp rnd iszero key d flat)))).
Proof.
  exact (fun G E K cmp cmp2 CO CO2 rnd iszero key d mul inv e act ops leb KE C2 LT LTr LA GA flat =>
           conj (unique_one_per_orbit cmp cmp2 CO CO2 rnd iszero key d mul inv e act ops leb KE C2 LT LTr LA GA flat)
                (conj (unique_sym_distinct cmp cmp2 CO2 rnd iszero key d mul inv e act ops leb LT LTr LA GA flat)
                      (unique_sym_from cmp cmp2 CO2 rnd iszero key d act ops leb flat))).
Qed.
Print Assumptions C10_unique_sym_one_per_orbit.

(* ----------------------------------------------------- round() *)
(* for integer indices (a,b,c) /= 0 scaled by any t > 0: if the largest
   coprime index max|a,b,c|/gcd is at most max_index (and max_index <= 42),
   _round_indices returns exactly the coprime indices (a,b,c)/gcd -- a
   parallel lattice vector with coprime indices *)
Theorem C10_round_parallel_coprime :
  forall (a b c : Z) (t : R) (M : nat),
  (a, b, c) <> (0, 0, 0)%Z -> (0 < t)%R ->
  (Z.max (Z.abs a) (Z.max (Z.abs b) (Z.abs c)) / Z.gcd a (Z.gcd b c) <= Z.of_nat M)%Z ->
  (6 * Z.of_nat M ^ 4 < 20000000)%Z ->
  let g := Z.gcd a (Z.gcd b c) in
  round_indices RInst.ROps Rrint M [(t * IZR a)%R; (t * IZR b)%R; (t * IZR c)%R]
  = [(a / g)%Z; (b / g)%Z; (c / g)%Z] /\
  Z.gcd (a / g) (Z.gcd (b / g) (c / g)) = 1%Z /\
  (a = g * (a / g) /\ b = g * (b / g) /\ c = g * (c / g))%Z.
Proof. exact round_parallel_coprime. Qed.
Print Assumptions C10_round_parallel_coprime.

(* ----------------------------------------------------- metadata *)
(* derived objects keep the phase and the coordinate format *)
Theorem C10_metadata_kept :
  forall (E F : Type) (f : list E -> list F) (m : miller E),
  m_phase (derive f m) = m_phase m /\ m_fmt (derive f m) = m_fmt m.
Proof. exact (fun E F f m => conj eq_refl eq_refl). Qed.
Print Assumptions C10_metadata_kept.

(* ------------------------------------------------------------ non-vacuity *)
(* the hypotheses are satisfiable: the 48 integer matrices of m-3m form a
   group_action on Z^3; [110] is exact_on, has 12 images, stabiliser 4 *)
Example C10_group_action_nonvacuous : group_action zmmul ztrans zmid zact z_m3m /\ length z_m3m = 48.
Proof. exact (conj z_m3m_group eq_refl). Qed.
Example C10_multiplicity_nonvacuous :
  exact_on (fun x => x) zis0 zact z_m3m (1, 1, 0)%Z /\
  length (zblock z_m3m (1, 1, 0)%Z) = 12 /\ length (stab zveqb zact z_m3m (1, 1, 0)%Z) = 4 /\
  length z_m3m = 48.
Proof. exact mult_110_m3m. Qed.
Example C10_symmetrise_unique_nonvacuous :
  zsym_unique z_4 [(1, 0, 0); (0, 0, 2); (0, 0, 0); (1, 1, 0)]%Z
  = ([(1, 0, 0); (0, 1, 0); (-1, 0, 0); (0, -1, 0); (0, 0, 2); (1, 1, 0); (-1, 1, 0); (-1, -1, 0); (1, -1, 0)]%Z,
     [4; 1; 0; 4], [0; 0; 0; 0; 1; 3; 3; 3; 3]%Z).
Proof. exact sym_unique_4. Qed.
Example C10_key_order_nonvacuous :
  cmp_order zcmp /\ (forall x y, keq zcmp (zkey x) (zkey y) = true <-> x = y).
Proof. exact (conj zcmp_order zkey_eq). Qed.
(* the inputs on which the unrepaired code went wrong: m-3m, the (2,3) object
   [100],[110],[111] / [123],[001],[112] has multiplicities 6,12,8 / 48,6,24;
   [100],[110] against [501],[111]: the second angle is the one to the nearest
   image of [111] (cos^2 = 4/6), which the angle to an image of [501] (36/52) is not *)
Example C10_multiplicity_nd_nonvacuous :
  group_action zmmul ztrans zmid zact z_m3m /\ length w_data = size w_shape /\
  zmultiplicity z_m3m w_shape w_data = [6; 12; 8; 48; 6; 24] /\
  map (fun v => length (zblock z_m3m v)) w_data = [6; 12; 8; 48; 6; 24].
Proof. exact multiplicity_nd_example. Qed.
Example C10_angle_elementwise_nonvacuous :
  zangle_with_sym z_m3m [(1, 0, 0); (1, 1, 0)]%Z [(5, 0, 1); (1, 1, 1)]%Z
  = Some ([2], [(5, 26); (2, 3)]%Z) /\
  is_min zang_leb (2, 3)%Z (map (fun g => zang (1, 1, 0)%Z (zact g (1, 1, 1)%Z)) z_m3m) /\
  ~ is_min zang_leb (6, 26)%Z (map (fun g => zang (1, 1, 0)%Z (zact g (1, 1, 1)%Z)) z_m3m).
Proof. exact angle_elementwise_example. Qed.
