(* C11 -- Crystal map selections compose like intersections; per-point data
   stays aligned.  Property theorems only; the model is Model/C11CMap.v
   (CrystalMap.__getitem__, the masked accessors, shape/row/col,
   get_map_data, tied to /repo by the correspondence check), proofs are in
   Proofs/C11Nd.v C11Sel.v C11Acc.v C11Grid.v C11Wit.v.

   Vocabulary: a map is its full-size arrays + the mask `ind`; `acc_id m` are
   the ids in the data; `ref_getitem`/`ref_run` is the reference selection on
   id lists (filter by bounding-box-relative row/col, by mask position, by
   phase); `wf m` = array lengths agree with the original shape and every
   coordinate axis determines its grid index through round((c - min c)/step)
   (proved below for EVERY exact grid, any origin, any positive step; `wfb`
   decides it).

   The model follows the code after the four C11 repairs (slice path ANDs with
   the old mask; data slices relative to the map origin; RGB guess only for
   items with ndim > 1; single-point maps).  The theorems that the model of
   the unrepaired code refuted (C11_mask_then_slice_refuted,
   C11_stride_then_slice_refuted, C11_origin_refuted,
   C11_origin_map_data_refuted, C11_half_step_refuted,
   C11_map_data_array3_refuted, C11_single_point_refuted) are replaced by the
   positive theorems at full strength: no rectangle guard, no origin
   condition, no `oshape <> []`, any item kind.  Their concrete witnesses are
   kept as `_nonvacuous` regression instances at the end. *)
From Coq Require Import String Ascii ZArith QArith List Bool.
From Verif Require Import NdIndex C11CMap C11Nd C11Sel C11Acc C11Grid C11Wit.
Import ListNotations.
Close Scope Q_scope.
Open Scope nat_scope.

(* ---------------------------------------------------------------------
   Selections follow the reference model, for EVERY history on EVERY
   well-formed map: slice/int keys may meet any (also non-rectangular)
   selection, masks and phase keys any state.  The only condition left in
   `hist_guard` concerns the KEY, not the map state: for a phase key the phase
   list must not contain a phase that is itself called "indexed" (then the key
   is ambiguous between the keyword and the name) and must not be empty. *)
Theorem C11_selection_history :
  forall (V R : Type) (ops : list key) (m : cmap V R) (ids' : list nat),
  wf m -> hist_guard (static m) (acc_id m) ops ->
  ref_run (static m) (acc_id m) ops = Ok ids' ->
  exists m', run m ops = Ok m' /\ same_arrays m m' /\ wf m' /\ acc_id m' = ids'.
Proof. intros V R. exact sim_history. Qed.
Print Assumptions C11_selection_history.

(* one step, and what the guard is made of *)
Theorem C11_selection_step :
  forall (V R : Type) (m : cmap V R) (k : key) (ids' : list nat),
  wf m -> guard (static m) (acc_id m) k ->
  ref_getitem (static m) (acc_id m) k = Ok ids' ->
  exists m', getitem m k = Ok m' /\ same_arrays m m' /\ wf m' /\ acc_id m' = ids'.
Proof. intros V R. exact sim_step. Qed.
Print Assumptions C11_selection_step.

(* slice / int / tuple keys need no guard: any state of a well-formed map *)
Theorem C11_slice_selection :
  forall (V R : Type) (m : cmap V R) (ks : list key1) (ids' : list nat),
  wf m -> ref_getitem (static m) (acc_id m) (KSel ks) = Ok ids' ->
  exists m', getitem m (KSel ks) = Ok m' /\ same_arrays m m' /\
             length (ind m') = length (ind m) /\ acc_id m' = ids'.
Proof. intros V R. exact sim_sel. Qed.
Print Assumptions C11_slice_selection.

(* boolean masks need no guard at all (any mask of the right length, any state) *)
Theorem C11_mask_selection :
  forall (V R : Type) (m : cmap V R) (b : list bool) (ids' : list nat),
  ref_getitem (static m) (acc_id m) (KMask b) = Ok ids' ->
  exists m', getitem m (KMask b) = Ok m' /\ same_arrays m m' /\
             length (ind m') = length (ind m) /\ acc_id m' = ids'.
Proof. intros V R. exact sim_mask. Qed.
Print Assumptions C11_mask_selection.

(* the nested loop over keys and phases is, point-wise, "some key matches" *)
Theorem C11_phase_mask_pointwise :
  forall phases keys pids, phase_mask phases keys pids = map (model_keep phases keys) pids.
Proof. exact phase_mask_pointwise. Qed.
Print Assumptions C11_phase_mask_pointwise.

(* EXACT behaviour of the slice path with NO rectangle assumption: the new
   map holds the points OF THE MAP BEING INDEXED whose bounding-box relative
   (row, col) is hit by the key -- the key intersected with the old mask. *)
Theorem C11_slice_path_exact :
  forall (V R : Type) (m : cmap V R) ks Is,
  wf m -> acc_id m <> [] -> ks <> [] ->
  let bb := bbox (oshape m) (acc_id m) in
  length (wshape_of bb) <? length ks = false ->
  mapM2 key_idx (ks ++ repeat kfull (length (wshape_of bb) - length ks)) (wshape_of bb) = Ok Is ->
  exists m', getitem m (KSel ks) = Ok m' /\ same_arrays m m' /\
    length (ind m') = length (ind m) /\
    acc_id m' = filter (fun p => forallb2 memb (rel_idx (unravel (oshape m) p) bb) Is) (acc_id m).
Proof. intros V R. exact getitem_sel_exact. Qed.
Print Assumptions C11_slice_path_exact.

(* never a point absent from the map being indexed: on the reference side ... *)
Theorem C11_never_absent :
  forall g ops ids ids', ref_run g ids ops = Ok ids' -> incl ids' ids.
Proof. intros g ops. exact (ref_run_incl g ops). Qed.
Print Assumptions C11_never_absent.

(* ... and on the MODEL side with no hypothesis at all: any map (a regular
   grid or not), any key, any history *)
Theorem C11_never_absent_model :
  forall (V R : Type) (ops : list key) (m m' : cmap V R),
  run m ops = Ok m' -> incl (acc_id m') (acc_id m).
Proof. intros V R ops. exact (run_incl ops). Qed.
Print Assumptions C11_never_absent_model.

(* ---------------------------------------------------------------------
   Per-point data stays aligned: every accessor returns, at position k, the
   ORIGINAL array's value at the k-th id.  No guard: holds in every state. *)
Theorem C11_alignment :
  forall (V R : Type) (m : cmap V R),
  (length (ind m) = length (pid m) ->
     acc_pid m = map (fun i => nth i (pid m) 0%Z) (acc_id m)) /\
  (forall d, length (ind m) = length (rots m) ->
     acc_rot m = map (fun i => nth i (rots m) d) (acc_id m)) /\
  (forall k arr d, assoc k (props m) = Some arr -> length (ind m) = length arr ->
     acc_prop m k = Some (map (fun i => nth i arr d) (acc_id m))) /\
  (forall c, coord (xs m) = Some c -> length (ind m) = length c ->
     acc_x m = Some (map (fun i => nth i c 0%Q) (acc_id m))) /\
  (forall c, coord (ys m) = Some c -> length (ind m) = length c ->
     acc_y m = Some (map (fun i => nth i c 0%Q) (acc_id m))) /\
  acc_size m = length (acc_id m).
Proof.
  intros V R m. split; [apply acc_pid_aligned|]. split; [intros d; apply acc_rot_aligned|].
  split; [apply acc_prop_aligned|]. split; [apply acc_x_aligned|]. split; [apply acc_y_aligned|].
  apply acc_size_ids.
Qed.
Print Assumptions C11_alignment.

(* the source map is unchanged and shares all full-size arrays with every
   selection made from it: any successful history only replaces the mask *)
Theorem C11_source_unchanged :
  forall (V R : Type) (ops : list key) (m m' : cmap V R), run m ops = Ok m' -> same_arrays m m'.
Proof. intros V R ops. exact (run_same_arrays ops). Qed.
Print Assumptions C11_source_unchanged.

(* the property dictionary object is shared between a map and its selections;
   each `.prop` access re-synchronises its mask, so `m.prop[k]` is m's data
   whatever map touched the dictionary before *)
Theorem C11_prop_resync :
  forall (V R : Type) (m : cmap V R) register k,
  view_get (prop_access m register) (props m) k = acc_prop m k.
Proof. intros V R. exact prop_resync. Qed.
Print Assumptions C11_prop_resync.

(* ---------------------------------------------------------------------
   shape = bounding box of the selected points (any grid origin) *)
Theorem C11_shape_bbox :
  forall (V R : Type) (m : cmap V R),
  wf m -> acc_id m <> [] -> acc_shape m = Ok (wshape_of (bbox (oshape m) (acc_id m))).
Proof. intros V R. exact acc_shape_bbox. Qed.
Print Assumptions C11_shape_bbox.

(* row / col = grid index minus the bounding-box corner (any origin, any state) *)
Theorem C11_row_col_2d :
  forall (V R : Type) (m : cmap V R) nr nc,
  oshape m = [nr; nc] -> length (ind m) = nr * nc -> acc_id m <> [] ->
  acc_row m = Ok (map (fun p => ix [nr; nc] 0 p - fst (nth 0 (bbox [nr; nc] (acc_id m)) (0, 0)))
                      (acc_id m)) /\
  acc_col m = Ok (map (fun p => ix [nr; nc] 1 p - fst (nth 1 (bbox [nr; nc] (acc_id m)) (0, 0)))
                      (acc_id m)).
Proof. intros V R m nr nc H1 H2 H3. split; [apply acc_row_2d | apply acc_col_2d]; assumption. Qed.
Print Assumptions C11_row_col_2d.

Theorem C11_row_col_1d :
  forall (V R : Type) (m : cmap V R) n,
  oshape m = [n] -> length (ind m) = n -> acc_id m <> [] ->
  let rel := map (fun p => p - nminl (acc_id m)) (acc_id m) in
  let zero := map (fun _ => 0) (acc_id m) in
  (acc_x m <> None -> acc_row m = Ok zero /\ acc_col m = Ok rel) /\
  (acc_x m = None -> acc_row m = Ok rel /\ acc_col m = Ok zero).
Proof. intros V R. exact acc_rowcol_1d. Qed.
Print Assumptions C11_row_col_1d.

(* a single-point map (0-dimensional, shape ()): the point sits at row 0, col 0 *)
Theorem C11_row_col_0d :
  forall (V R : Type) (m : cmap V R),
  oshape m = [] -> length (ind m) = 1 -> acc_id m <> [] ->
  acc_id m = [0] /\ acc_row m = Ok [0] /\ acc_col m = Ok [0].
Proof. intros V R. exact acc_rowcol_0d. Qed.
Print Assumptions C11_row_col_0d.

(* get_map_data: output shape = bounding box; the k-th value sits at the
   ravelled bounding-box-relative index of the k-th point; every other cell is
   the fill value (None).  For an attribute name and for a 1-D array item
   (is_array) alike, for every number of selected points (also 3), for every
   original shape (also () of a single-point map), for every grid origin. *)
Theorem C11_map_data_placement :
  forall (V R : Type) (m : cmap V R) (is_array : bool) (vals : list V) (d : V),
  wf m -> acc_id m <> [] -> length vals = length (acc_id m) ->
  let ws := wshape_of (bbox (oshape m) (acc_id m)) in
  exists out,
    get_map_data m is_array vals = Ok (ws, out) /\
    length out = size ws /\
    (forall k, k < length (acc_id m) ->
       out_pos m (nth k (acc_id m) 0) < size ws /\
       nth (out_pos m (nth k (acc_id m) 0)) out None = Some (nth k vals d)) /\
    (forall q, q < size ws -> (forall p, In p (acc_id m) -> out_pos m p <> q) ->
       nth q out None = None).
Proof. intros V R. exact get_map_data_placement. Qed.
Print Assumptions C11_map_data_placement.

(* ---------------------------------------------------------------------
   "any grid origin and step size": the coordinate hypothesis of `wf`
   (axis_ok) holds for EVERY exact grid axis c[p] = o + index(p)*st with st > 0
   and ANY origin o; and the step / presence the model derives from such an
   array are st / "present". *)
Theorem C11_any_origin_and_step :
  forall (s : list nat) (d : nat) (o st st' : Q) (c : list Q),
  (0 < st)%Q -> (st' == st)%Q ->
  length c = size s ->
  (forall p, p < size s -> (nth p c 0 == o + inject_Z (Z.of_nat (ix s d p)) * st)%Q) ->
  axis_ok s d (c, st').
Proof. exact exact_grid_axis_ok. Qed.
Print Assumptions C11_any_origin_and_step.

Theorem C11_grid_step_size :
  forall (n : nat) (f : nat -> nat) (o st : Q), (0 < st)%Q ->
  forall p0 p1, p0 < n -> p1 < n -> f p0 = 0 -> f p1 = 1 ->
  (step_of (Some (gc n f o st)) == st)%Q /\ coord (Some (gc n f o st)) = Some (gc n f o st).
Proof. exact gc_step. Qed.
Print Assumptions C11_grid_step_size.

(* constructor + well-formedness for EVERY 2-D exact grid (>= 2 rows and
   columns), any positive step sizes, ANY origin: `init` succeeds, the
   original shape is (nr, nc) and the map satisfies `wf`, so all theorems above
   apply to it and (wf is preserved) to everything selected from it. *)
Theorem C11_exact_grid_wellformed :
  forall (V R : Type) (nr nc : nat) (ox oy dx dy : Q),
  2 <= nr -> 2 <= nc -> (0 < dx)%Q -> (0 < dy)%Q ->
  forall pid0 (rots0 : list R) (props0 : list (string * list V)) phases0 ind0,
  length ind0 = nr * nc -> length pid0 = nr * nc ->
  exists m : cmap V R,
    init (Some (grid_x nr nc ox dx)) (Some (grid_y nr nc oy dy)) pid0 rots0 props0 phases0 ind0 = Ok m /\
    oshape m = [nr; nc] /\ ind m = ind0 /\ pid m = pid0 /\ rots m = rots0 /\ props m = props0 /\ wf m.
Proof. intros V R. exact exact_grid2_wf. Qed.
Print Assumptions C11_exact_grid_wellformed.

(* the decidable checks imply the Prop-level hypotheses (used by the
   correspondence to evaluate the guards on generated cases) *)
Theorem C11_guards_decidable :
  forall (V R : Type) (m : cmap V R) ops,
  wfb m = true -> hist_guardb (static m) (acc_id m) ops = true ->
  wf m /\ hist_guard (static m) (acc_id m) ops.
Proof. intros V R m ops H1 H2. split; [apply wfb_wf | apply hist_guardb_guard]; assumption. Qed.
Print Assumptions C11_guards_decidable.

(* ------------------------------------------------------- non-vacuity *)
Example C11_history_nonvacuous :
  wfb m34 = true /\ oshape m34 = [3; 4] /\
  hist_guardb (static m34) (acc_id m34) hist_ok = true /\
  ref_run (static m34) (acc_id m34) hist_ok = Ok [4; 8; 10] /\
  ids_res (run m34 hist_ok) = Ok [4; 8; 10].
Proof.
  split; [exact (proj1 m34_wf)|]. split; [exact (proj1 (proj2 m34_wf))|]. exact hist_ok_guard.
Qed.

Example C11_1d_nonvacuous : wfb m10 = true /\ oshape m10 = [10].
Proof. exact m10_wf. Qed.

(* maps with grid origin 2 steps / 3 steps / exactly half a step from zero
   satisfy wf; a history whose slice keys meet non-rectangular selections *)
Example C11_any_origin_nonvacuous :
  (wfb m34_off = true /\ oshape m34_off = [3; 4]) /\
  (wfb m10_off = true /\ oshape m10_off = [10]) /\
  (wfb m10_half = true /\ oshape m10_half = [10]).
Proof. exact off_wf. Qed.

Example C11_nonrect_history_nonvacuous :
  hist_guardb (static m34_off) (acc_id m34_off) hist_nonrect = true /\
  ref_run (static m34_off) (acc_id m34_off) hist_nonrect = Ok [1; 2; 10; 11] /\
  ids_res (run m34_off hist_nonrect) = Ok [1; 2; 10; 11].
Proof. exact hist_nonrect_guard. Qed.

(* ---------------------------------------------------------------------
   Regression instances: the concrete inputs on which the model of the
   unrepaired code refuted the property now satisfy it (vm_compute; the same
   inputs are replayed on the implementation by the oracle on every run). *)

(* boolean mask then slice: the masked-out point 5 stays out *)
Example C11_mask_then_slice_nonvacuous :
  ids_res (run m34 [KMask mask_not5; KSel [kfull; kfull]]) = Ok [0; 1; 2; 3; 4; 6; 7; 8; 9; 10; 11] /\
  ref_run (static m34) (acc_id m34) [KMask mask_not5; KSel [kfull; kfull]]
    = Ok [0; 1; 2; 3; 4; 6; 7; 8; 9; 10; 11].
Proof. exact (proj2 wit_mask_then_slice). Qed.

Example C11_stride_then_slice_nonvacuous :
  ids_res (run m34 [KSel [KSlice None None (Some 2%Z)]; KSel [kfull]]) = Ok [0; 1; 2; 3; 8; 9; 10; 11] /\
  ref_run (static m34) (acc_id m34) [KSel [KSlice None None (Some 2%Z)]; KSel [kfull]]
    = Ok [0; 1; 2; 3; 8; 9; 10; 11].
Proof. exact (proj2 wit_stride_then_slice). Qed.

(* non-zero grid origin: slicing selects the reference ids, nothing is added,
   get_map_data shows the whole map *)
Example C11_origin_nonvacuous :
  (ids_res (getitem m34_off (KSel [sl 0 2; sl 0 2])) = Ok [0; 1; 4; 5] /\
   ref_getitem (static m34_off) (acc_id m34_off) (KSel [sl 0 2; sl 0 2]) = Ok [0; 1; 4; 5]) /\
  (ids_res (run m10_off [KMask mask_only0]) = Ok [0] /\
   ids_res (run m10_off [KMask mask_only0; KSel [kfull]]) = Ok [0]) /\
  (acc_shape m10_off = Ok [10] /\
   get_map_data m10_off false (map (fun p => (3 * Z.of_nat p)%Z) (seq 0 10))
   = Ok ([10], map (fun p => Some (3 * Z.of_nat p)%Z) (seq 0 10))).
Proof.
  split; [exact (proj2 (proj2 wit_origin_slice)) |].
  split; [split; [exact (proj1 wit_origin_keep) | exact (proj1 (proj2 wit_origin_keep))] |].
  exact wit_origin_map_data.
Qed.

(* origin exactly half a step: the one-point selection has shape (1,) *)
Example C11_half_step_nonvacuous :
  ids_res (getitem m10_half (KSel [sl 1 2])) = Ok [1] /\
  (m <- getitem m10_half (KSel [sl 1 2]) ;; acc_shape m) = Ok [1] /\
  ids_res (run m10_half [KSel [sl 1 3]; KSel [kfull]]) = Ok [1; 2].
Proof. exact wit_half_step. Qed.

(* get_map_data(1-D array item) with exactly 3 selected points *)
Example C11_map_data_array3_nonvacuous :
  (m <- getitem m34 (KMask mask_156) ;; get_map_data m true [10; 20; 30]%Z)
  = Ok ([2; 2], [Some 10; None; Some 20; Some 30]%Z).
Proof. exact (proj1 wit_array3). Qed.

(* a single-point map: shape (), row = col = [0], 0-d map data; an int key is
   rejected by model and reference alike (no axis to index), masks work *)
Example C11_single_point_nonvacuous :
  oshape m1 = [] /\ acc_id m1 = [0] /\ wfb m1 = true /\
  acc_shape m1 = Ok [] /\
  get_map_data m1 false [7%Z] = Ok ([], [Some 7%Z]) /\
  acc_row m1 = Ok [0] /\ acc_col m1 = Ok [0] /\
  ids_res (getitem m1 (KSel [KInt 0])) = Err IndexError /\
  ref_getitem (static m1) (acc_id m1) (KSel [KInt 0]) = Err IndexError /\
  ids_res (getitem m1 (KMask [true])) = Ok [0] /\
  ids_res (getitem m1 (KPhase ["indexed"%string])) = Ok [] /\
  ref_getitem (static m1) (acc_id m1) (KPhase ["indexed"%string]) = Ok [].
Proof. exact wit_single_point. Qed.
