(* C11 -- Crystal map selections compose like intersections; per-point data
   stays aligned.  Property theorems only; the model is Model/C11CMap.v
   (CrystalMap.__getitem__, the masked accessors, shape/row/col,
   get_map_data, tied to /repo by the correspondence check), proofs are in
   Proofs/C11Nd.v C11Sel.v C11Acc.v C11Wit.v.

   Vocabulary: a map is its full-size arrays + the mask `ind`; `acc_id m` are
   the ids in the data; `ref_getitem`/`ref_run` is the reference selection on
   id lists (filter by bounding-box-relative row/col, by mask position, by
   phase); `wf m` = array lengths agree with the original shape and every
   coordinate axis determines its grid index through round(c/step) with zero
   offset (holds for any step size and any origin closer than half a step to
   zero; `wfb` decides it); `rect` = the current selection is a full rectangle. *)
From Coq Require Import String Ascii ZArith QArith List Bool.
From Verif Require Import NdIndex C11CMap C11Nd C11Sel C11Acc C11Grid C11Wit.
Import ListNotations.
Close Scope Q_scope.
Open Scope nat_scope.

(* ---------------------------------------------------------------------
   Selections follow the reference model, for EVERY history.
   Full-strength statement would have no `hist_guard`; the faithful model
   refutes it (C11_mask_then_slice_refuted, C11_origin_refuted below), so this
   is the statement outside the two findings' strata:
   guard = every slice/int key is applied to a full-rectangle selection, and
   (for phase keys) no phase is itself called "indexed"; wf = zero grid offset. *)
Theorem C11_selection_history_partial :
  forall (V R : Type) (ops : list key) (m : cmap V R) (ids' : list nat),
  wf m -> hist_guard (static m) (acc_id m) ops ->
  ref_run (static m) (acc_id m) ops = Ok ids' ->
  exists m', run m ops = Ok m' /\ same_arrays m m' /\ wf m' /\ acc_id m' = ids'.
Proof. intros V R. exact sim_history. Qed.
Print Assumptions C11_selection_history_partial.

(* one step, and what the guard is made of *)
Theorem C11_selection_step_partial :
  forall (V R : Type) (m : cmap V R) (k : key) (ids' : list nat),
  wf m -> guard (static m) (acc_id m) k ->
  ref_getitem (static m) (acc_id m) k = Ok ids' ->
  exists m', getitem m k = Ok m' /\ same_arrays m m' /\ wf m' /\ acc_id m' = ids'.
Proof. intros V R. exact sim_step. Qed.
Print Assumptions C11_selection_step_partial.

(* boolean masks need no guard at all (any mask of the right length, any state) *)
Theorem C11_mask_selection :
  forall (V R : Type) (m : cmap V R) (b : list bool) (ids' : list nat),
  ref_getitem (static m) (acc_id m) (KMask b) = Ok ids' ->
  exists m', getitem m (KMask b) = Ok m' /\ same_arrays m m' /\
             length (ind m') = length (ind m) /\ acc_id m' = ids'.
Proof. intros V R. exact sim_mask. Qed.
Print Assumptions C11_mask_selection.

(* the nested loop over keys and phases is, point-wise, "some key matches" *)
Theorem C11_phase_mask_pointwise :
  forall phases keys pids, phase_mask phases keys pids = map (model_keep phases keys) pids.
Proof. exact phase_mask_pointwise. Qed.
Print Assumptions C11_phase_mask_pointwise.

(* EXACT behaviour of the slice path with NO rectangle assumption: the new
   map holds every point of the old bounding box whose relative (row, col) is
   hit by the key -- whether or not that point was in the old map.  This is
   the theorem that exposes the mask-then-slice defect. *)
Theorem C11_slice_path_exact :
  forall (V R : Type) (m : cmap V R) ks Is,
  wf m -> acc_id m <> [] -> ks <> [] ->
  let bb := bbox (oshape m) (acc_id m) in
  length (wshape_of bb) <? length ks = false ->
  mapM2 key_idx (ks ++ repeat kfull (length (wshape_of bb) - length ks)) (wshape_of bb) = Ok Is ->
  exists m', getitem m (KSel ks) = Ok m' /\ same_arrays m m' /\
    length (ind m') = length (ind m) /\
    acc_id m' = filter (fun p => in_win (unravel (oshape m) p) bb &&
                                 forallb2 memb (rel_idx (unravel (oshape m) p) bb) Is)
                       (seq 0 (size (oshape m))).
Proof. intros V R. exact getitem_sel_exact. Qed.
Print Assumptions C11_slice_path_exact.

(* never a point absent from the map being indexed (reference side; with
   C11_selection_history_partial it transfers to the model under the guards) *)
Theorem C11_never_absent :
  forall g ops ids ids', ref_run g ids ops = Ok ids' -> incl ids' ids.
Proof. intros g ops. exact (ref_run_incl g ops). Qed.
Print Assumptions C11_never_absent.

(* ---------------------------------------------------------------------
   Per-point data stays aligned: every accessor returns, at position k, the
   ORIGINAL array's value at the k-th id.  No guard: holds in every state. *)
Theorem C11_alignment :
  forall (V R : Type) (m : cmap V R),
  (length (ind m) = length (pid m) ->
     acc_pid m = map (fun i => nth i (pid m) 0%Z) (acc_id m)) /\
  (forall d, length (ind m) = length (rots m) ->
     acc_rot m = map (fun i => nth i (rots m) d) (acc_id m)) /\
  (forall k arr d, assoc k (props m) = Some arr -> length (ind m) = length arr ->
     acc_prop m k = Some (map (fun i => nth i arr d) (acc_id m))) /\
  (forall c, coord (xs m) = Some c -> length (ind m) = length c ->
     acc_x m = Some (map (fun i => nth i c 0%Q) (acc_id m))) /\
  (forall c, coord (ys m) = Some c -> length (ind m) = length c ->
     acc_y m = Some (map (fun i => nth i c 0%Q) (acc_id m))) /\
  acc_size m = length (acc_id m).
Proof.
  intros V R m. split; [apply acc_pid_aligned|]. split; [intros d; apply acc_rot_aligned|].
  split; [apply acc_prop_aligned|]. split; [apply acc_x_aligned|]. split; [apply acc_y_aligned|].
  apply acc_size_ids.
Qed.
Print Assumptions C11_alignment.

(* the source map is unchanged and shares all full-size arrays with every
   selection made from it: any successful history only replaces the mask *)
Theorem C11_source_unchanged :
  forall (V R : Type) (ops : list key) (m m' : cmap V R), run m ops = Ok m' -> same_arrays m m'.
Proof. intros V R ops. exact (run_same_arrays ops). Qed.
Print Assumptions C11_source_unchanged.

(* the property dictionary object is shared between a map and its selections;
   each `.prop` access re-synchronises its mask, so `m.prop[k]` is m's data
   whatever map touched the dictionary before *)
Theorem C11_prop_resync :
  forall (V R : Type) (m : cmap V R) register k,
  view_get (prop_access m register) (props m) k = acc_prop m k.
Proof. intros V R. exact prop_resync. Qed.
Print Assumptions C11_prop_resync.

(* ---------------------------------------------------------------------
   shape = bounding box of the selected points (needs the zero grid offset:
   C11_origin_map_data_refuted) *)
Theorem C11_shape_bbox_partial :
  forall (V R : Type) (m : cmap V R),
  wf m -> acc_id m <> [] -> acc_shape m = Ok (wshape_of (bbox (oshape m) (acc_id m))).
Proof. intros V R. exact acc_shape_bbox. Qed.
Print Assumptions C11_shape_bbox_partial.

(* row / col = grid index minus the bounding-box corner (any origin, any state) *)
Theorem C11_row_col_2d :
  forall (V R : Type) (m : cmap V R) nr nc,
  oshape m = [nr; nc] -> length (ind m) = nr * nc -> acc_id m <> [] ->
  acc_row m = Ok (map (fun p => ix [nr; nc] 0 p - fst (nth 0 (bbox [nr; nc] (acc_id m)) (0, 0)))
                      (acc_id m)) /\
  acc_col m = Ok (map (fun p => ix [nr; nc] 1 p - fst (nth 1 (bbox [nr; nc] (acc_id m)) (0, 0)))
                      (acc_id m)).
Proof. intros V R m nr nc H1 H2 H3. split; [apply acc_row_2d | apply acc_col_2d]; assumption. Qed.
Print Assumptions C11_row_col_2d.

Theorem C11_row_col_1d :
  forall (V R : Type) (m : cmap V R) n,
  oshape m = [n] -> length (ind m) = n -> acc_id m <> [] ->
  let rel := map (fun p => p - nminl (acc_id m)) (acc_id m) in
  let zero := map (fun _ => 0) (acc_id m) in
  (acc_x m <> None -> acc_row m = Ok zero /\ acc_col m = Ok rel) /\
  (acc_x m = None -> acc_row m = Ok rel /\ acc_col m = Ok zero).
Proof. intros V R. exact acc_rowcol_1d. Qed.
Print Assumptions C11_row_col_1d.

(* get_map_data: output shape = bounding box; the k-th value sits at the
   ravelled bounding-box-relative index of the k-th point; every other cell is
   the fill value (None) *)
Theorem C11_map_data_placement_partial :
  forall (V R : Type) (m : cmap V R) (vals : list V) (d : V),
  wf m -> acc_id m <> [] -> oshape m <> [] -> length vals = length (acc_id m) ->
  let ws := wshape_of (bbox (oshape m) (acc_id m)) in
  exists out,
    get_map_data m false vals = Ok (ws, out) /\
    length out = size ws /\
    (forall k, k < length (acc_id m) ->
       out_pos m (nth k (acc_id m) 0) < size ws /\
       nth (out_pos m (nth k (acc_id m) 0)) out None = Some (nth k vals d)) /\
    (forall q, q < size ws -> (forall p, In p (acc_id m) -> out_pos m p <> q) ->
       nth q out None = None).
Proof. intros V R. exact get_map_data_placement. Qed.
Print Assumptions C11_map_data_placement_partial.

(* ---------------------------------------------------------------------
   "any grid origin and step size": the coordinate hypothesis of `wf`
   (axis_ok) holds for EVERY exact grid axis c[p] = o + index(p)*st with st > 0
   and the origin strictly closer than half a step to zero; and the step /
   presence the model derives from such an array are st / "present".
   (Origins half a step or more away: C11_origin_refuted, C11_half_step_refuted.) *)
Theorem C11_any_origin_and_step_partial :
  forall (s : list nat) (d : nat) (o st st' : Q) (c : list Q),
  (0 < st)%Q -> (- (1 # 2) < o / st)%Q -> (o / st < 1 # 2)%Q -> (st' == st)%Q ->
  length c = size s ->
  (forall p, p < size s -> (nth p c 0 == o + inject_Z (Z.of_nat (ix s d p)) * st)%Q) ->
  axis_ok s d (c, st').
Proof. exact exact_grid_axis_ok. Qed.
Print Assumptions C11_any_origin_and_step_partial.

Theorem C11_grid_step_size :
  forall (n : nat) (f : nat -> nat) (o st : Q), (0 < st)%Q ->
  forall p0 p1, p0 < n -> p1 < n -> f p0 = 0 -> f p1 = 1 ->
  (step_of (Some (gc n f o st)) == st)%Q /\ coord (Some (gc n f o st)) = Some (gc n f o st).
Proof. exact gc_step. Qed.
Print Assumptions C11_grid_step_size.

(* constructor + well-formedness for EVERY 2-D exact grid (>= 2 rows and
   columns), any positive step sizes, any origin within half a step: `init`
   succeeds, the original shape is (nr, nc) and the map satisfies `wf`, so all
   _partial theorems above apply to it and (wf is preserved) to everything
   selected from it. *)
Theorem C11_exact_grid_wellformed :
  forall (V R : Type) (nr nc : nat) (ox oy dx dy : Q),
  2 <= nr -> 2 <= nc -> (0 < dx)%Q -> (0 < dy)%Q ->
  (- (1 # 2) < ox / dx)%Q -> (ox / dx < 1 # 2)%Q -> (- (1 # 2) < oy / dy)%Q -> (oy / dy < 1 # 2)%Q ->
  forall pid0 (rots0 : list R) (props0 : list (string * list V)) phases0 ind0,
  length ind0 = nr * nc -> length pid0 = nr * nc ->
  exists m : cmap V R,
    init (Some (grid_x nr nc ox dx)) (Some (grid_y nr nc oy dy)) pid0 rots0 props0 phases0 ind0 = Ok m /\
    oshape m = [nr; nc] /\ ind m = ind0 /\ pid m = pid0 /\ rots m = rots0 /\ props m = props0 /\ wf m.
Proof. intros V R. exact exact_grid2_wf. Qed.
Print Assumptions C11_exact_grid_wellformed.

(* the decidable checks imply the Prop-level hypotheses (used by the
   correspondence to evaluate the guards on generated cases) *)
Theorem C11_guards_decidable :
  forall (V R : Type) (m : cmap V R) ops,
  wfb m = true -> hist_guardb (static m) (acc_id m) ops = true ->
  wf m /\ hist_guard (static m) (acc_id m) ops.
Proof. intros V R m ops H1 H2. split; [apply wfb_wf | apply hist_guardb_guard]; assumption. Qed.
Print Assumptions C11_guards_decidable.

(* ---------------------------------------------------------------------
   REFUTED clauses: the faithful model violates the property; each witness is
   replayed on the implementation by the oracle (known findings). *)

(* boolean mask (or strided slice) then slice: a point absent from the map
   being indexed is re-included, although origin = 0 and the map is wf *)
Theorem C11_mask_then_slice_refuted :
  exists (m m1 m2 : cmap Z Z) (b : list bool) (k : key) (p : nat),
    wfb m = true /\ getitem m (KMask b) = Ok m1 /\ getitem m1 k = Ok m2 /\
    In p (acc_id m2) /\ ~ In p (acc_id m1) /\
    ref_run (static m) (acc_id m) [KMask b; k] = Ok (acc_id m1).
Proof. exact wit_mask_then_slice_ex. Qed.
Print Assumptions C11_mask_then_slice_refuted.

Theorem C11_stride_then_slice_refuted :
  ids_res (run m34 [KSel [KSlice None None (Some 2%Z)]; KSel [kfull]]) = Ok (seq 0 12) /\
  ref_run (static m34) (acc_id m34) [KSel [KSlice None None (Some 2%Z)]; KSel [kfull]]
    = Ok [0; 1; 2; 3; 8; 9; 10; 11].
Proof. exact (proj2 wit_stride_then_slice). Qed.
Print Assumptions C11_stride_then_slice_refuted.

(* non-zero grid origin: slicing raises / silently adds a foreign point /
   get_map_data is cropped *)
Theorem C11_origin_refuted :
  (ids_res (getitem m34_off (KSel [sl 0 2; sl 0 2])) = Err ValueError /\
   ref_getitem (static m34_off) (acc_id m34_off) (KSel [sl 0 2; sl 0 2]) = Ok [0; 1; 4; 5]) /\
  (ids_res (run m10_off [KMask mask_only0]) = Ok [0] /\
   ids_res (run m10_off [KMask mask_only0; KSel [kfull]]) = Ok [0; 3]).
Proof.
  split; [exact (proj2 (proj2 wit_origin_raises)) |].
  split; [exact (proj1 wit_origin_silent) | exact (proj1 (proj2 wit_origin_silent))].
Qed.
Print Assumptions C11_origin_refuted.

Theorem C11_origin_map_data_refuted :
  acc_shape m10_off = Ok [10] /\
  get_map_data m10_off false (map (fun p => (3 * Z.of_nat p)%Z) (seq 0 10))
  = Ok ([7], map (fun p => Some (3 * Z.of_nat p)%Z) (seq 3 7)).
Proof. exact wit_origin_map_data. Qed.
Print Assumptions C11_origin_map_data_refuted.

(* origin exactly half a step: the extent of a one-point selection is empty *)
Theorem C11_half_step_refuted :
  ids_res (getitem m10_half (KSel [sl 1 2])) = Ok [1] /\
  (m <- getitem m10_half (KSel [sl 1 2]) ;; acc_shape m) = Ok [0].
Proof. split; [exact (proj1 wit_half_step) | exact (proj1 (proj2 wit_half_step))]. Qed.
Print Assumptions C11_half_step_refuted.

(* get_map_data(array item) with exactly 3 selected points: values are not
   placed at their (row, col); the output gets a trailing axis of length 3 *)
Theorem C11_map_data_array3_refuted :
  (m <- getitem m34 (KMask mask_156) ;; get_map_data m true [10; 20; 30]%Z)
  = Ok ([2; 2; 3], [Some 10; Some 20; Some 30; None; None; None;
                    Some 10; Some 20; Some 30; Some 10; Some 20; Some 30]%Z).
Proof. exact (proj1 wit_rgb_misread). Qed.
Print Assumptions C11_map_data_array3_refuted.

(* a single-point map (shape ()) can be neither sliced nor gridded *)
Theorem C11_single_point_refuted :
  oshape m1 = [] /\ acc_id m1 = [0] /\
  ids_res (getitem m1 (KSel [KInt 0])) = Err IndexError /\
  get_map_data m1 false [0%Z] = Err TypeError /\ acc_row m1 = Err ValueError.
Proof. exact wit_single_point. Qed.
Print Assumptions C11_single_point_refuted.

(* ------------------------------------------------------- non-vacuity *)
Example C11_history_nonvacuous :
  wfb m34 = true /\ oshape m34 = [3; 4] /\
  hist_guardb (static m34) (acc_id m34) hist_ok = true /\
  ref_run (static m34) (acc_id m34) hist_ok = Ok [4; 8; 10] /\
  ids_res (run m34 hist_ok) = Ok [4; 8; 10].
Proof.
  split; [exact (proj1 m34_wf)|]. split; [exact (proj1 (proj2 m34_wf))|]. exact hist_ok_guard.
Qed.

Example C11_1d_nonvacuous : wfb m10 = true /\ oshape m10 = [10].
Proof. exact m10_wf. Qed.
