(* Arrays of rotations / vectors as (shape, flat C-order list): outer and
   broadcast element-wise products of orix.quaternion.Rotation.  No proofs. *)
From Coq Require Import ZArith List Bool.
From Verif Require Import Scalar NdIndex Quat.
Import ListNotations.

Section RotArr.
Context {T : Type} (O : Ops T).

Definition router (A B : list (rot (T:=T))) : list rot := outer (rmul O) A B.
Definition vouter (A : list (rot (T:=T))) (V : list (vec3 (T:=T))) : list vec3 := outer (ract O) A V.

Definition zq : quat (T:=T) := (o_ofZ O 0, o_ofZ O 0, o_ofZ O 0, o_ofZ O 0).
Definition zv : vec3 (T:=T) := (o_ofZ O 0, o_ofZ O 0, o_ofZ O 0).

Definition rbcast (sA sB : list nat) (A B : list (rot (T:=T))) :=
  bcast2 (rmul O) (zq, false) (zq, false) sA sB A B.
Definition vbcast (sA sB : list nat) (A : list (rot (T:=T))) (V : list (vec3 (T:=T))) :=
  bcast2 (ract O) (zq, false) zv sA sB A V.
End RotArr.

(* comparison helpers on floats for the correspondence check *)
From Coq Require Import PrimFloat.
From Verif Require Import FInst.

Definition q_close (p q : quat (T:=float)) : bool :=
  let '(a, b, c, d) := p in let '(e, f, g, h) := q in
  fclose a e && fclose b f && fclose c g && fclose d h.
(* equal as rotations: up to overall sign *)
Definition q_close_pm (p q : quat (T:=float)) : bool :=
  q_close p q || q_close p (qneg FOps q).
Definition v_close (u v : vec3 (T:=float)) : bool :=
  let '(a, b, c) := u in let '(x, y, z) := v in fclose a x && fclose b y && fclose c z.
Definition r_close (r s : rot (T:=float)) : bool := q_close (fst r) (fst s) && Bool.eqb (snd r) (snd s).
Definition r_close_pm (r s : rot (T:=float)) : bool := q_close_pm (fst r) (fst s) && Bool.eqb (snd r) (snd s).

Fixpoint all2 {A} (f : A -> A -> bool) (xs ys : list A) : bool :=
  match xs, ys with
  | [], [] => true
  | x :: xs', y :: ys' => f x y && all2 f xs' ys'
  | _, _ => false
  end.

Definition shape_eqb (s t : list nat) : bool := all2 Nat.eqb s t.
