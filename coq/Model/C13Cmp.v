(* C13 -- comparison helpers on binary64 for the correspondence check (model
   tree vs dump of the real file; model-loaded map vs implementation-loaded
   map).  Executable definitions only. *)
From Coq Require Import ZArith List Bool String PrimFloat.
From Verif Require Import Scalar FInst Quat RotArr C13Store C13Map.
Import ListNotations.

Fixpoint list_eqb {A} (e : A -> A -> bool) (a b : list A) : bool :=
  match a, b with
  | [], [] => true
  | x :: a', y :: b' => e x y && list_eqb e a' b'
  | _, _ => false
  end.
Fixpoint fang_list (a b : list float) : bool :=
  match a, b with
  | [], [] => true
  | x :: a', y :: b' => fclose_ang x y && fang_list a' b'
  | _, _ => false
  end.
Definition ad_close (ang : bool) (a b : adata float) : bool :=
  match a, b with
  | DF x, DF y => if ang then fang_list x y else fclose_list x y
  | DI x, DI y => list_eqb Z.eqb x y
  | DB x, DB y => list_eqb Bool.eqb x y
  | _, _ => false
  end.
Definition arr_close (ang : bool) (a b : arr float) : bool :=
  String.eqb (a_dt a) (a_dt b) && list_eqb Nat.eqb (a_sh a) (a_sh b) && ad_close ang (a_d a) (a_d b).
Definition oarr_close (a b : option (arr float)) : bool :=
  match a, b with Some x, Some y => arr_close false x y | None, None => true | _, _ => false end.
Definition is_angle_key (k : string) : bool :=
  String.eqb k "phi1" || String.eqb k "Phi" || String.eqb k "phi2".

(* python int datasets: the dtype name of a python int is platform int64 *)
Definition dt_norm (a : arr float) : arr float :=
  if String.eqb (a_dt a) "int" then mkArr "int64" (a_sh a) (a_d a) else a.

Fixpoint h5_close (ang : bool) (a b : h5 float) : bool :=
  match a, b with
  | HG l, HG l' =>
      (fix go (l l' : list (string * h5 float)) : bool :=
         match l, l' with
         | [], [] => true
         | (k, x) :: r, (k', y) :: r' => String.eqb k k' && h5_close (is_angle_key k) x y && go r r'
         | _, _ => false
         end) l l'
  | HS w s, HS w' s' => Z.eqb w w' && list_eqb Z.eqb s s'
  | HA x, HA y => arr_close ang (dt_norm x) (dt_norm y)
  | _, _ => false
  end.

Definition opt_eqb {A} (e : A -> A -> bool) (a b : option A) : bool :=
  match a, b with Some x, Some y => e x y | None, None => true | _, _ => false end.
Definition atom_close (a b : atom (T:=float)) : bool :=
  pstr_eqb (at_element a) (at_element b) && pstr_eqb (at_label a) (at_label b) && fclose (at_occ a) (at_occ b)
  && arr_close false (at_xyz a) (at_xyz b) && arr_close false (at_U a) (at_U b).
Definition phase_close (p q : phase (T:=float)) : bool :=
  pstr_eqb (ph_name p) (ph_name q) && opt_eqb Z.eqb (ph_sg p) (ph_sg q) && opt_eqb pstr_eqb (ph_pg p) (ph_pg q)
  && pstr_eqb (ph_color p) (ph_color q)
  && arr_close false (l_abcABG (fst (ph_st p))) (l_abcABG (fst (ph_st q)))
  && arr_close false (l_baserot (fst (ph_st p))) (l_baserot (fst (ph_st q)))
  && list_eqb atom_close (snd (ph_st p)) (snd (ph_st q)).
Definition map_close (a b : cmap (T:=float)) : bool :=
  list_eqb Nat.eqb (m_rsh a) (m_rsh b)
  && list_eqb r_close_pm (m_rots a) (m_rots b)
  && list_eqb Z.eqb (m_pid a) (m_pid b)
  && oarr_close (m_x a) (m_x b) && oarr_close (m_y a) (m_y b)
  && list_eqb Bool.eqb (m_ind a) (m_ind b)
  && list_eqb (fun p q => String.eqb (fst p) (fst q) && arr_close false (snd p) (snd q))
              (sortk (m_props a)) (sortk (m_props b))
  && opt_eqb pstr_eqb (m_unit a) (m_unit b)
  && list_eqb (fun p q => Z.eqb (fst p) (fst q) && phase_close (snd p) (snd q)) (m_phases a) (m_phases b).

(* instantiation of the abstract external behaviour for the correspondence:
   colour canonicalisation from the table observed on the implementation,
   structure re-alignment = identity (every Phase already holds an aligned
   structure; compared with a float tolerance), no invented phases *)
Definition canon_of (tab : list (pystr * pystr)) (c : pystr) : pystr :=
  match find (fun kv => pstr_eqb (fst kv) c) tab with Some kv => snd kv | None => c end.
Definition dummy_phase : phase (T:=float) :=
  mkPhase [] None None [] (default_lat FOps, []).

Record case := mkCase {
  c_m : cmap (T:=float); c_ver : pystr; c_canon : list (pystr * pystr);
  c_file : option (h5 float); c_loaded : option (cmap (T:=float)) }.

Definition save_ok (c : case) : bool :=
  match save FOps (c_ver c) (c_m c), c_file c with
  | None, None => true
  | Some f, Some g => h5_close false (h5_sort f) g
  | _, _ => false
  end.
Definition load_ok (c : case) : bool :=
  match c_file c with
  | None => true
  | Some g =>
      match load FOps (canon_of (c_canon c)) (fun s => s) (fun _ _ => dummy_phase) g, c_loaded c with
      | None, None => true
      | Some a, Some b => map_close a b
      | _, _ => false
      end
  end.
Definition ok (c : case) : bool := save_ok c && load_ok c.

(* the symmetry tables as observed in the source *)
Definition tables_ok (sg : list string) (al : list (string * list string)) (gr : list string) : bool :=
  list_eqb String.eqb sg sg2pg_table
  && list_eqb (fun a b => String.eqb (fst a) (fst b) && list_eqb String.eqb (snd a) (snd b)) al pg_aliases
  && list_eqb String.eqb gr pg_names.
