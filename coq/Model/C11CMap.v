(* C11 -- executable model of orix.crystal_map.CrystalMap selection
   (__getitem__), the masked accessors, shape / row / col and get_map_data,
   plus the reference ("spec") selection on id lists.  Definitions only; the
   proofs are in Proofs/C11*.v.

   Modelled source (orix/crystal_map/crystal_map.py):
     __getitem__ 609-680, id/size/shape/x/y/row/col/phase_id/rotations/prop
     313-420 480-499 560-565, get_map_data 782-912,
     _data_slices_from_coordinates 1041-1115, _step_size_from_coordinates 1118-1136
   and crystal_map_properties.py 60-93.

   The model follows the code AFTER the four C11 repairs (fix: commits
   01-getitem-slice-keeps-masked-out-points, 02-data-slices-relative-to-map-
   origin, 03-get-map-data-rgb-guess-needs-2d-item, 04-single-point-map-row-
   col-get-map-data): the slice path ANDs the key with the old mask inside the
   window, data slices are computed from coordinates relative to the minimum
   of ALL points, a 1-D array item is never read as an RGB triple, and a
   0-dimensional (single point) map has row = col = [0] and a 0-d map array.

   A map is the tuple of its FULL-SIZE arrays plus the boolean mask
   is_in_data; a selection differs from its source only in the mask
   (copy.copy is shallow).  Coordinates are rationals (the exact values of
   the float64 coordinates); float rounding of c/step is not modelled. *)
From Coq Require Import String Ascii ZArith QArith Qround List Bool Lia.
From Verif Require Import NdIndex.
Import ListNotations.
Close Scope Q_scope.
Open Scope nat_scope.

Inductive err := ValueError | IndexError | TypeError.
Inductive res (A : Type) := Ok (a : A) | Err (e : err).
Arguments Ok {A} a.
Arguments Err {A} e.
Definition bind {A B} (r : res A) (f : A -> res B) : res B :=
  match r with Ok a => f a | Err e => Err e end.
Notation "x <- r ;; k" := (bind r (fun x => k)) (at level 61, r at next level, right associativity).

Fixpoint mapM {A B} (f : A -> res B) (l : list A) : res (list B) :=
  match l with
  | [] => Ok []
  | a :: t => b <- f a ;; bs <- mapM f t ;; Ok (b :: bs)
  end.

Fixpoint mapM2 {A B C} (f : A -> B -> res C) (l1 : list A) (l2 : list B) : res (list C) :=
  match l1, l2 with
  | a :: t1, b :: t2 => c <- f a b ;; cs <- mapM2 f t1 t2 ;; Ok (c :: cs)
  | _, _ => Ok []
  end.

Fixpoint forallb2 {A B} (f : A -> B -> bool) (l1 : list A) (l2 : list B) : bool :=
  match l1, l2 with
  | a :: t1, b :: t2 => f a b && forallb2 f t1 t2
  | [], [] => true
  | _, _ => false
  end.

(* ---------------------------------------------------------------- numpy *)
(* a[mask] *)
Fixpoint mask_filter {A} (m : list bool) (l : list A) : list A :=
  match m, l with
  | b :: m', a :: l' => if b then a :: mask_filter m' l' else mask_filter m' l'
  | _, _ => []
  end.

(* np.arange(n)[mask]: positions of True *)
Definition ids_of (m : list bool) : list nat := mask_filter m (seq 0 (length m)).
Definition count (m : list bool) : nat := length (ids_of m).

(* out = full(d); out[mask] = vals *)
Fixpoint scatter {A} (d : A) (m : list bool) (vals : list A) : list A :=
  match m with
  | [] => []
  | true :: m' => hd d vals :: scatter d m' (tl vals)
  | false :: m' => d :: scatter d m' vals
  end.

Definition memb (i : nat) (I : list nat) : bool := existsb (Nat.eqb i) I.

Fixpoint nminl_from (a : nat) (l : list nat) : nat :=
  match l with [] => a | b :: t => nminl_from (Nat.min a b) t end.
Fixpoint nmaxl_from (a : nat) (l : list nat) : nat :=
  match l with [] => a | b :: t => nmaxl_from (Nat.max a b) t end.
Definition nminl (l : list nat) : nat := match l with [] => 0 | a :: t => nminl_from a t end.
Definition nmaxl (l : list nat) : nat := match l with [] => 0 | a :: t => nmaxl_from a t end.

(* ------------------------------------------------------------ rationals *)
Definition qmin (a b : Q) : Q := if Qle_bool a b then a else b.
Definition qmax (a b : Q) : Q := if Qle_bool a b then b else a.
Definition qminl (l : list Q) : Q := match l with [] => 0%Q | a :: t => fold_left qmin t a end.
Definition qmaxl (l : list Q) : Q := match l with [] => 0%Q | a :: t => fold_left qmax t a end.

(* np.around followed by int(): round half to even *)
Definition rhe (q : Q) : Z :=
  let f := Qfloor q in
  match Qcompare (q - inject_Z f)%Q (1 # 2)%Q with
  | Lt => f
  | Gt => (f + 1)%Z
  | Eq => if Z.even f then f else (f + 1)%Z
  end.

(* ----------------------------------------------------- python slices/ints *)
Inductive key1 := KInt (i : Z) | KSlice (a b s : option Z).
Definition kfull : key1 := KSlice None None None.

(* PySlice_AdjustIndices for one bound *)
Definition norm_bound (n lo hi v : Z) : Z :=
  let v' := if (v <? 0)%Z then (v + n)%Z else v in
  if (v' <? 0)%Z then lo else if (n <=? v')%Z then hi else v'.

Definition range_len (a b s : Z) : Z :=
  if (0 <? s)%Z then (if (a <? b)%Z then ((b - a - 1) / s + 1)%Z else 0%Z)
  else (if (b <? a)%Z then ((a - b - 1) / (- s) + 1)%Z else 0%Z).

Definition py_range (a b s : Z) : list Z :=
  map (fun i => (a + Z.of_nat i * s)%Z) (seq 0 (Z.to_nat (range_len a b s))).

(* indices of an axis of length n selected by one key element
   (np.zeros(shape)[key] = True) *)
Definition key_idx (k : key1) (n : nat) : res (list nat) :=
  let nz := Z.of_nat n in
  match k with
  | KInt i =>
      if ((i <? - nz) || (nz <=? i))%Z then Err IndexError
      else Ok [Z.to_nat (if (i <? 0)%Z then (i + nz)%Z else i)]
  | KSlice a b s =>
      let st := match s with Some x => x | None => 1%Z end in
      if (st =? 0)%Z then Err ValueError else
      let lo := if (st <? 0)%Z then (-1)%Z else 0%Z in
      let hi := if (st <? 0)%Z then (nz - 1)%Z else nz in
      let a' := match a with Some v => norm_bound nz lo hi v
                           | None => if (st <? 0)%Z then (nz - 1)%Z else 0%Z end in
      let b' := match b with Some v => norm_bound nz lo hi v
                           | None => if (st <? 0)%Z then (-1)%Z else nz end in
      Ok (map Z.to_nat (py_range a' b' st))
  end.

(* window [lo, hi) of an axis of length n addressed by slice(a, b) *)
Definition win_bounds (n : nat) (ab : Z * Z) : nat * nat :=
  let nz := Z.of_nat n in
  let a := Z.to_nat (norm_bound nz 0 nz (fst ab)) in
  let b := Z.to_nat (norm_bound nz 0 nz (snd ab)) in
  (a, Nat.max a b).

Definition in_win (idx : list nat) (W : list (nat * nat)) : bool :=
  forallb2 (fun i w => (fst w <=? i) && (i <? snd w)) idx W.

Definition rel_idx (idx : list nat) (W : list (nat * nat)) : list nat :=
  zip_with (fun i w => i - fst w) idx W.

Definition wshape_of (W : list (nat * nat)) : list nat := map (fun w => snd w - fst w) W.

(* target.reshape(oshape)[slices] &= value, value given as a function of its
   index vector, value shape vshape; numpy broadcasting of the value into the
   window (in-place operator: the value must broadcast to the window shape) *)
Definition window_assign (oshape : list nat) (old : list bool) (ds : list (Z * Z))
           (vshape : list nat) (S : list nat -> bool) : res (list bool) :=
  if negb (length old =? size oshape) then Err ValueError else
  if negb (length ds =? length oshape) then Err IndexError else
  let W := zip_with win_bounds oshape ds in
  if negb (forallb2 (fun w v => (w =? v) || (v =? 1)) (wshape_of W) vshape) then Err ValueError
  else Ok (map (fun p => let idx := unravel oshape p in
                         if in_win idx W
                         then nth p old false &&
                              S (zip_with (fun r v => if v =? 1 then 0 else r) (rel_idx idx W) vshape)
                         else nth p old false)
               (seq 0 (length old))).

(* ------------------------------------------------------------ strings *)
Definition lower_ascii (c : ascii) : ascii :=
  let n := nat_of_ascii c in
  if (65 <=? n) && (n <=? 90) then ascii_of_nat (n + 32) else c.
Fixpoint lower (s : string) : string :=
  match s with EmptyString => EmptyString | String c t => String (lower_ascii c) (lower t) end.
Definition is_indexed_kw (k : string) : bool := String.eqb (lower k) "indexed"%string.

(* the nested loop of __getitem__ over keys and self.phases *)
Definition phase_mask (phases : list (Z * string)) (keys : list string) (pids : list Z) : list bool :=
  fold_left (fun msk k =>
    fold_left (fun msk ph =>
      if String.eqb k (snd ph) then zip_with (fun b p => b || Z.eqb p (fst ph)) msk pids
      else if is_indexed_kw k then zip_with (fun b p => b || negb (Z.eqb p (-1))) msk pids
      else msk) phases msk) keys (repeat false (length pids)).

Inductive key :=
| KSel (ks : list key1)          (* int / slice / tuple of them *)
| KMask (b : list bool)          (* boolean numpy array *)
| KPhase (names : list string).  (* str / tuple of str *)

(* ================================================================= map *)
Section Model.
Context {V R : Type}.

Record cmap := {
  xs : option (list Q);            (* _x *)
  ys : option (list Q);            (* _y *)
  pid : list Z;                    (* _phase_id *)
  rots : list R;                   (* _rotations, one entry per point *)
  props : list (string * list V);  (* _prop, full-size arrays *)
  phases : list (Z * string);      (* phase list: (id, name) in id order *)
  ind : list bool;                 (* is_in_data *)
  oshape : list nat                (* _original_shape *)
}.

Definition set_ind (m : cmap) (i : list bool) : cmap :=
  {| xs := xs m; ys := ys m; pid := pid m; rots := rots m; props := props m;
     phases := phases m; ind := i; oshape := oshape m |}.

(* x / y property: None if absent or only one distinct value among ALL points *)
Definition all_equal (l : list Q) : bool :=
  match l with [] => true | a :: t => forallb (Qeq_bool a) t end.
Definition coord (c : option (list Q)) : option (list Q) :=
  match c with Some l => if all_equal l then None else Some l | None => None end.

(* _step_size_from_coordinates: second smallest distinct value - smallest *)
Definition step_of (c : option (list Q)) : Q :=
  match c with
  | None => 0%Q
  | Some l => let m0 := qminl l in
              match filter (fun v => negb (Qle_bool v m0)) l with
              | [] => 0%Q
              | r => (qminl r - m0)%Q
              end
  end.

(* the (coordinate array, step) pairs that _data_slices_from_coordinates
   iterates over, in (y, x) order *)
Definition axis1 (c : option (list Q)) : list (list Q * Q) :=
  match coord c with
  | Some l => if Qeq_bool (step_of c) 0%Q then [] else [(l, step_of c)]
  | None => []
  end.
Definition axes (m : cmap) : list (list Q * Q) := axis1 (ys m) ++ axis1 (xs m).

(* CrystalMap._data_slices_from_coordinates first subtracts the minimum of
   ALL coordinates of the axis (v - np.min(self._all_coordinates[k])); min and
   max commute with that shift *)
Definition slice1 (sel : list bool) (only : bool) (a : list Q * Q) : res (Z * Z) :=
  let c0 := qminl (fst a) in
  let cs := if only then mask_filter sel (fst a) else fst a in
  match cs with
  | [] => Err ValueError                       (* np.min of an empty array *)
  | _ => Ok (rhe ((qminl cs - c0) / snd a)%Q, rhe ((qmaxl cs - c0) / snd a + 1)%Q)
  end.

Definition data_slices (only : bool) (m : cmap) : res (list (Z * Z)) :=
  mapM (slice1 (ind m) only) (axes m).

Definition shape_of_slices (ds : list (Z * Z)) : list nat :=
  map (fun ab => Z.to_nat (snd ab - fst ab)) ds.

Definition acc_shape (m : cmap) : res (list nat) :=
  ds <- data_slices true m ;; Ok (shape_of_slices ds).

(* constructor: sets _original_shape from ALL coordinates *)
Definition init (x y : option (list Q)) (p : list Z) (r : list R) (pr : list (string * list V))
           (ph : list (Z * string)) (i : list bool) : res cmap :=
  let m0 := {| xs := x; ys := y; pid := p; rots := r; props := pr; phases := ph; ind := i;
               oshape := [] |} in
  ds <- data_slices false m0 ;;
  Ok {| xs := x; ys := y; pid := p; rots := r; props := pr; phases := ph; ind := i;
        oshape := shape_of_slices ds |}.

(* ------------------------------------------------------- __getitem__ *)
Definition getitem_sel (m : cmap) (ks : list key1) : res cmap :=
  match ks with
  | [] => Err IndexError                        (* key[0] of an empty tuple *)
  | _ =>
    shp <- acc_shape m ;;                       (* self.ndim *)
    if length shp <? length ks then Err IndexError else   (* slices[i] = k *)
    Is <- mapM2 key_idx (ks ++ repeat kfull (length shp - length ks)) shp ;;
    ds <- data_slices true m ;;
    i' <- window_assign (oshape m) (ind m) ds shp (fun j => forallb2 memb j Is) ;;
    Ok (set_ind m i')
  end.

Definition getitem_mask (m : cmap) (b : list bool) : res cmap :=
  let n := count (ind m) in
  if length b =? n then Ok (set_ind m (scatter false (ind m) b))
  else if length b =? 1 then Ok (set_ind m (scatter false (ind m) (repeat (hd false b) n)))
  else Err ValueError.

Definition getitem_phase (m : cmap) (names : list string) : res cmap :=
  match names with
  | [] => Err IndexError
  | _ => Ok (set_ind m (scatter false (ind m)
                          (phase_mask (phases m) names (mask_filter (ind m) (pid m)))))
  end.

Definition getitem (m : cmap) (k : key) : res cmap :=
  match k with
  | KSel ks => getitem_sel m ks
  | KMask b => getitem_mask m b
  | KPhase names => getitem_phase m names
  end.

Fixpoint run (m : cmap) (ops : list key) : res cmap :=
  match ops with
  | [] => Ok m
  | k :: rest => m' <- getitem m k ;; run m' rest
  end.

(* --------------------------------------------------------- accessors *)
Definition acc_id (m : cmap) : list nat := ids_of (ind m).
Definition acc_size (m : cmap) : nat := count (ind m).
Definition acc_x (m : cmap) : option (list Q) := option_map (mask_filter (ind m)) (coord (xs m)).
Definition acc_y (m : cmap) : option (list Q) := option_map (mask_filter (ind m)) (coord (ys m)).
Definition acc_pid (m : cmap) : list Z := mask_filter (ind m) (pid m).
Definition acc_rot (m : cmap) : list R := mask_filter (ind m) (rots m).

Fixpoint assoc (k : string) (d : list (string * list V)) : option (list V) :=
  match d with
  | [] => None
  | (k', v) :: t => if String.eqb k k' then Some v else assoc k t
  end.
Definition acc_prop (m : cmap) (k : string) : option (list V) :=
  option_map (mask_filter (ind m)) (assoc k (props m)).

(* The CrystalMapProperties object is SHARED between a map and all its
   selections; it keeps its own copy of the mask, which every `.prop` access
   overwrites with the accessing map's mask. *)
Definition prop_access (m : cmap) (register : list bool) : list bool := ind m.
Definition view_get (register : list bool) (d : list (string * list V)) (k : string) : option (list V) :=
  option_map (mask_filter register) (assoc k d).

(* row / col: indices of the 2-D (padded) original shape, minus their minimum *)
Definition rc_shape (m : cmap) : res (nat * nat) :=
  match oshape m with
  | [] => Ok (1, 1)                             (* single point *)
  | [n] => Ok (match acc_x m with None => (n, 1) | Some _ => (1, n) end)
  | [a; b] => Ok (a, b)
  | _ => Err ValueError
  end.

Definition acc_row (m : cmap) : res (list nat) :=
  s <- rc_shape m ;;
  if negb (length (ind m) =? fst s * snd s) then Err IndexError else   (* boolean index size *)
  let rows := mask_filter (ind m) (map (fun p => p / snd s) (seq 0 (fst s * snd s))) in
  match rows with
  | [] => Err ValueError
  | _ => Ok (map (fun r => r - nminl rows) rows)
  end.

Definition acc_col (m : cmap) : res (list nat) :=
  s <- rc_shape m ;;
  if negb (length (ind m) =? fst s * snd s) then Err IndexError else
  let cols := mask_filter (ind m) (map (fun p => p mod snd s) (seq 0 (fst s * snd s))) in
  match cols with
  | [] => Err ValueError
  | _ => Ok (map (fun r => r - nminl cols) cols)
  end.

(* get_map_data(item): vals = the values of the in-data points (what the
   attribute lookup returned, or the 1-D array passed as item: is_array); None =
   fill value.  Returns (shape, flat C-order data).  The RGB guess needs
   item.ndim > 1, so a 1-D array item goes through the same scalar path as an
   attribute name (dtype handling is not modelled): is_array does not matter.
   On a 0-dimensional (single point) map the sliced array is a NumPy scalar,
   which cannot be filled: an EMPTY selection of such a map raises TypeError. *)
Definition get_map_data (m : cmap) (is_array : bool) (vals : list V)
  : res (list nat * list (option V)) :=
  let n := count (ind m) in
  let map_size := size (oshape m) in
  if negb (length (ind m) =? map_size) then Err IndexError else   (* array[self.is_in_data] *)
  if negb ((length vals =? n) || (length vals =? 1)) then Err ValueError else
  let svals : list (option V) :=
    if length vals =? n then map Some vals else repeat (hd_error vals) n in
  ds <- data_slices true m ;;
  if negb (length ds =? length (oshape m)) then Err IndexError else
  let W := zip_with win_bounds (oshape m) ds in
  let ws := wshape_of W in
  let cell (q : nat) : nat := ravel (oshape m) (zip_with (fun j w => j + fst w) (unravel ws q) W) in
  let full := scatter None (ind m) svals in
  match oshape m, n with
  | [], 0 => Err TypeError       (* np.float64 scalar does not support item assignment *)
  | _, _ => Ok (ws, map (fun q => nth (cell q) full None) (seq 0 (size ws)))
  end.

End Model.
Arguments cmap : clear implicits.

(* ============================================================ reference *)
(* The reference selection tracks only the ascending list of original ids. *)
Record grid := { g_shape : list nat; g_pid : list Z; g_phases : list (Z * string) }.

Definition ix (s : list nat) (d p : nat) : nat := nth d (unravel s p) 0.

(* per axis [lo, hi) of the bounding box of the points `ids` *)
Definition bbox (s : list nat) (ids : list nat) : list (nat * nat) :=
  map (fun d => let c := map (ix s d) ids in (nminl c, S (nmaxl c))) (seq 0 (length s)).

Definition ref_phase_keep (phases : list (Z * string)) (keys : list string) (p : Z) : bool :=
  existsb (fun k => existsb (fun ph => Z.eqb (fst ph) p && String.eqb k (snd ph)) phases
                    || (is_indexed_kw k && negb (Z.eqb p (-1)))) keys.

Definition ref_getitem (g : grid) (ids : list nat) (k : key) : res (list nat) :=
  match k with
  | KMask b => if length b =? length ids then Ok (mask_filter b ids) else Err ValueError
  | KPhase names =>
      match names with
      | [] => Err IndexError
      | _ => Ok (filter (fun p => ref_phase_keep (g_phases g) names (nth p (g_pid g) 0%Z)) ids)
      end
  | KSel ks =>
      match ks, ids with
      | [], _ => Err IndexError
      | _, [] => Err ValueError
      | _, _ =>
        let bb := bbox (g_shape g) ids in
        let shp := wshape_of bb in
        if length shp <? length ks then Err IndexError else
        Is <- mapM2 key_idx (ks ++ repeat kfull (length shp - length ks)) shp ;;
        Ok (filter (fun p => forallb2 memb (rel_idx (unravel (g_shape g) p) bb) Is) ids)
      end
  end.

Fixpoint ref_run (g : grid) (ids : list nat) (ops : list key) : res (list nat) :=
  match ops with
  | [] => Ok ids
  | k :: rest => ids' <- ref_getitem g ids k ;; ref_run g ids' rest
  end.

Definition static {V R} (m : cmap V R) : grid :=
  {| g_shape := oshape m; g_pid := pid m; g_phases := phases m |}.

(* ------------------------------------------------------------- guards *)
(* no phase is called "indexed" (any case), and there is at least one phase *)
Definition phases_okb (phases : list (Z * string)) : bool :=
  negb (length phases =? 0) && forallb (fun ph => negb (is_indexed_kw (snd ph))) phases.

(* the only guard left: for a phase key, the keyword "indexed" must not be
   shadowed by a phase of that name (then the key itself is ambiguous) *)
Definition guardb (g : grid) (ids : list nat) (k : key) : bool :=
  match k with
  | KSel _ => true
  | KPhase _ => phases_okb (g_phases g)
  | KMask _ => true
  end.

Fixpoint hist_guardb (g : grid) (ids : list nat) (ops : list key) : bool :=
  match ops with
  | [] => true
  | k :: rest => guardb g ids k &&
                 match ref_getitem g ids k with Ok ids' => hist_guardb g ids' rest | Err _ => true end
  end.

(* grid well-formedness of the coordinates, decidable version:
   every axis' coordinate array determines the axis index through
   round((c - min c)/step) (any grid origin), and is monotone in it. *)
Definition axis_okb (s : list nat) (d : nat) (a : list Q * Q) : bool :=
  let c := fst a in let st := snd a in let c0 := qminl c in
  (length c =? size s) &&
  forallb (fun p =>
    Z.eqb (rhe ((nth p c 0%Q - c0) / st)%Q) (Z.of_nat (ix s d p)) &&
    Z.eqb (rhe ((nth p c 0%Q - c0) / st + 1)%Q) (Z.of_nat (ix s d p) + 1)%Z &&
    forallb (fun q => implb (ix s d p <=? ix s d q) (Qle_bool (nth p c 0%Q) (nth q c 0%Q)))
            (seq 0 (size s)))
    (seq 0 (size s)).

Definition grid_okb {V R} (m : cmap V R) : bool :=
  (length (axes m) =? length (oshape m)) &&
  forallb (fun d => match nth_error (axes m) d with
                    | Some a => axis_okb (oshape m) d a | None => false end)
          (seq 0 (length (oshape m))).

Definition wfb {V R} (m : cmap V R) : bool :=
  (length (ind m) =? size (oshape m)) && (length (pid m) =? size (oshape m)) && grid_okb m.
