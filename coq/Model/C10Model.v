(* C10 -- executable model of the symmetry-aware operations of orix.vector.Miller
     orix/vector/miller.py   symmetrise, multiplicity, angle_with(use_symmetry),
                             unique(use_symmetry) (= C17Unique.miller_unique),
                             round / _round_indices, metadata propagation
     orix/_base.py           Object3d.flatten (column-major!), Object3d.unique
                             (= C17Unique.obj_unique)
   Written once, generic in the element type, the de-duplication key, the
   rounding function and the group action; instantiated on binary64 (the
   correspondence check), on the reals (theorems) and on integer vectors /
   integer matrices (exact witnesses).   Definitions only, no proofs. *)
From Coq Require Import ZArith List Bool Arith.
From Verif Require Import Scalar NdIndex Quat C17Unique.
Import ListNotations.

(* ================================================================ generic *)
Section Generic.
Context {G E K : Type} (cmp : K -> K -> comparison) (rnd : E -> E) (iszero : E -> bool)
        (key : E -> K) (d : E)
        (zero : E)              (* the padding element of Vector3d.zero *)
        (exact0 : E -> bool)    (* np.sum(np.abs(data), axis=-1) == 0 *)
        (act : G -> E -> E) (ops : list G).

(* operations.outer(self.flatten()): a (|G|, n) array, one row per operation *)
Definition outer_rows (vs : list E) : list (list E) := map (fun g => map (act g) vs) ops.
(* v2[:, i] *)
Definition column (rows : list (list E)) (i : nat) : list E := map (fun r => nth i r d) rows.
Definition columns (n : nat) (rows : list (list E)) : list (list E) := map (column rows) (seq 0 n).
(* Object3d.flatten() of a 2-d object: data.T.reshape(dim, -1).T = column-major *)
Definition flattenF2 (n : nat) (rows : list (list E)) : list E := concat (columns n rows).

(* symmetrise(unique=False) *)
Definition symmetrise_all (vs : list E) : list E := flattenF2 (length vs) (outer_rows vs).

(* vi = v2[:, i].unique()  -- Object3d.unique, first returned value *)
Definition uniq (col : list E) : list E := fst (fst (obj_unique cmp rnd iszero key d col)).

(* the loop of symmetrise(unique=True):
     v3 = zero((n_v, |G|)); multiplicity = zeros(n_v); idx = -ones(v3.size); l_accum = 0
     for i: vi = v2[:, i].unique(); l = vi.size; v3[i, :l] = vi; multiplicity[i] = l
            idx[l_accum : l_accum + l] = i; l_accum += l                             *)
Record sym_state : Type := mkSt {
  st_rows : list (list E); st_mult : list nat; st_idx : list Z; st_acc : nat }.

(* a[start : start+len] = x  (numpy clamps the slice to the array) *)
Definition set_slice (a : list Z) (start len : nat) (x : Z) : list Z :=
  firstn start a ++ repeat x (Nat.min len (length a - start)) ++ skipn (start + len) a.

Definition sym_step (m : nat) (st : sym_state) (icol : nat * list E) : sym_state :=
  let vi := uniq (snd icol) in
  let l := length vi in
  mkSt (st_rows st ++ [vi ++ repeat zero (m - l)])
       (st_mult st ++ [l])
       (set_slice (st_idx st) (st_acc st) l (Z.of_nat (fst icol)))
       (st_acc st + l).

Definition sym_init (n m : nat) : sym_state := mkSt [] [] (repeat (-1)%Z (n * m)) 0.

Definition sym_loop_from (m : nat) (st : sym_state) (i0 : nat) (cols : list (list E)) : sym_state :=
  fold_left (sym_step m) (combine (seq i0 (length cols)) cols) st.

(*   non_zero = np.sum(np.abs(v3.data), axis=-1) != 0
     v2 = v3[non_zero]; idx = idx[: np.sum(non_zero)]                                *)
Definition sym_finish (st : sym_state) : list E * list nat * list Z :=
  let nz := filter (fun e => negb (exact0 e)) (concat (st_rows st)) in
  (nz, st_mult st, firstn (length nz) (st_idx st)).

(* symmetrise(unique=True, return_multiplicity=True, return_index=True) from the
   columns of the outer product (m = number of operations) *)
Definition symmetrise_unique_cols (m : nat) (cols : list (list E)) : list E * list nat * list Z :=
  sym_finish (sym_loop_from m (sym_init (length cols) m) 0 cols).

Definition symmetrise_unique (vs : list E) : list E * list nat * list Z :=
  symmetrise_unique_cols (length ops) (columns (length vs) (outer_rows vs)).

(* ---- n-d input: Object3d.flatten() enumerates the elements in column-major
   (Fortran) order: position k of the flattened object holds the element
   whose REVERSED multi-index is the C-order unravelling of k in the reversed
   shape.  data is the C-order element list. *)
Definition flattenF (shape : list nat) (data : list E) : list E :=
  map (fun k => nth (ravel shape (rev (unravel (rev shape) k))) data d) (seq 0 (size shape)).

(* Miller.symmetrise on an n-d object *)
Definition symmetrise_nd (shape : list nat) (data : list E) : list E :=
  symmetrise_all (flattenF shape data).
Definition symmetrise_unique_nd (shape : list nat) (data : list E) : list E * list nat * list Z :=
  symmetrise_unique (flattenF shape data).

(* Miller.multiplicity:  _, l = self.symmetrise(unique=True, return_multiplicity=True)
                         return l.reshape(self.shape[::-1]).T
   l is in the order of flatten() (column-major).  Reshaping it (C order) to
   the REVERSED shape and transposing puts l[ravel (rev shape) (rev idx)] at
   the multi-index idx: the inverse of flattenF.  Result as the C-order list
   of an array of shape self.shape *)
Definition unflattenF {A : Type} (dA : A) (shape : list nat) (l : list A) : list A :=
  map (fun k => nth (ravel (rev shape) (rev (unravel shape k))) l dA) (seq 0 (size shape)).
Definition multiplicity (shape : list nat) (data : list E) : list nat :=
  unflattenF 0 shape (snd (fst (symmetrise_unique_nd shape data))).

(* the specification: number of distinct images of one vector *)
Definition orbit_of (v : E) : list E := map (fun g => act g v) ops.
Definition block_of (v : E) : list E := uniq (orbit_of v).
End Generic.

(* =============================================== angle_with(use_symmetry=True)
     other2 = self.phase.point_group.outer(other)            (|G|,) + other.shape
     other2 = other2.transpose( *range(1, other2.ndim), 0)    other.shape + (|G|,)
     self2 = self.reshape( *self.shape, 1)                    self.shape + (1,)
     cosines = self2.dot(other2) / (self2.norm * other2.norm)
     cosines = np.round(cosines, 12)
     angles = np.min(np.arccos(cosines), axis=-1)
   self and other are broadcast against each other (NumPy rules, as without
   symmetry); for every broadcast pair (v, w) the minimum runs over the images
   of w only.  generic part: minimum over a list (np.min raises on an empty
   axis) *)
Section MinList.
Context {A : Type} (leb : A -> A -> bool).
Definition min2 (x y : A) : A := if leb x y then x else y.
Definition lmin (l : list A) : option A :=
  match l with [] => None | x :: t => Some (fold_left min2 t x) end.
End MinList.

Section AngleGeneric.
Context {G E A : Type} (leb : A -> A -> bool) (ang : E -> E -> A) (act : G -> E -> E) (ops : list G) (d : E).
(* the smallest angle between v and an image of w *)
Definition sym_min_angle (v w : E) : A :=
  match lmin leb (map (fun g => ang v (act g w)) ops) with Some a => a | None => ang v w end.
(* objects as (shape, C-order list); result = (broadcast shape, C-order list);
   None = the shapes cannot be broadcast (ValueError) *)
Definition angle_with_sym (sS sO : list nat) (self other : list E) : option (list nat * list A) :=
  match ops with
  | [] => None
  | _ => bcast2 sym_min_angle d d sS sO self other
  end.
End AngleGeneric.

(* ============================== unique(use_symmetry=True), selection step
   C17Unique.miller_unique with the canonical orbit keys supplied as a list
   (keys[i] = key of v[i]):   _, idx = np.unique(keys, return_index=True, axis=0)
                              v = v[idx[::-1]]
   Proofs/C10Sym.v (miller_unique_select) shows it IS miller_unique when
   keys = map okey v. *)
Definition sym_select {E K2 : Type} (cmp2 : K2 -> K2 -> comparison) (d : E) (v : list E) (keys : list K2)
  : list E :=
  let '(_, idx2, _) := np_unique cmp2 keys in map (fun i => nth i v d) (rev idx2).

(* ================================================= numerical instances *)
Section Numeric.
Context {T : Type} (O : Ops T).

Definition zrow : list T := [o_ofZ O 0; o_ofZ O 0; o_ofZ O 0].
(* np.sum(np.abs(row)) == 0 *)
Definition row_exact0 (r : list T) : bool :=
  o_eqb O (fold_left (fun s x => o_add O s (o_abs O x)) r (o_ofZ O 0)) (o_ofZ O 0).
Definition ract_row (g : rot (T:=T)) (r : list T) : list T := vec2row (ract O g (row2vec O r)).

Definition sym_all_num (ops : list (rot (T:=T))) (vs : list (list T)) : list (list T) :=
  symmetrise_all [] ract_row ops vs.

Definition sym_unique_cols_num (rnd10 : T -> T) (m : nat) (cols : list (list (list T)))
  : list (list T) * list nat * list Z :=
  symmetrise_unique_cols (rowcmp O) (map rnd10) (row_iszero O) (fun r => r) [] zrow row_exact0 m cols.

Definition sym_unique_num (rnd10 : T -> T) (ops : list (rot (T:=T))) (vs : list (list T))
  : list (list T) * list nat * list Z :=
  symmetrise_unique (rowcmp O) (map rnd10) (row_iszero O) (fun r => r) [] zrow row_exact0 ract_row ops vs.

(* canonical key of an orbit GIVEN as the list of its images:
   data = orbit.round(10); data[np.lexsort(data.T)] flattened *)
Definition orbit_key_of (rnd10 : T -> T) (orb : list (list T)) : list T :=
  concat (isort (revrow_leb O) (map (map rnd10) orb)).
Definition unique_sym_from_orbits (rnd10 : T -> T) (v : list (list T)) (orbits : list (list (list T)))
  : list (list T) :=
  sym_select (rowcmp O) [] v (map (orbit_key_of rnd10) orbits).

(* angle between two rows as Miller.angle_with(use_symmetry=True) computes it *)
Definition rdot (r s : list T) : T := vdot O (row2vec O r) (row2vec O s).
Definition rnorm (r : list T) : T := o_sqrt O (rdot r r).
Definition sym_angle (rnd12 : T -> T) (v w : list T) : T :=
  o_acos O (rnd12 (o_div O (rdot v w) (o_mul O (rnorm v) (rnorm w)))).
Definition angle_with_sym_num (rnd12 : T -> T) (ops : list (rot (T:=T))) (sS sO : list nat)
           (self other : list (list T)) : option (list nat * list T) :=
  angle_with_sym (o_leb O) (sym_angle rnd12) ract_row ops [] sS sO self other.

(* ---------------------------------------------------- _round_indices
     idx_flat = idx[..., [0, 1, 3]] if 4 indices
     max_per_set = max |idx_flat|;  multipliers = 1..max_index
     idx_scaled = idx_flat / max_per_set * m
     error = 1e-7 * round(1e7 * sum((s - round s)^2) / sum(s^2)); argmin (first)
     multiplier = (argmin + 1) / max_per_set;  new = round(multiplier * idx)
   rint : np.round to an integer (half to even) *)
Context (rint : T -> Z).
Definition absmax (r : list T) : T := fold_left (fun m x => o_max O m (o_abs O x)) r (o_ofZ O 0).
Definition sumsq (r : list T) : T := fold_left (fun s x => o_add O s (o_mul O x x)) r (o_ofZ O 0).
Definition drop_third (idx : list T) : list T :=
  match idx with [a; b; _; c] => [a; b; c] | _ => idx end.
Definition round_err (w : list T) (m : Z) : Z :=
  let s := map (fun x => o_mul O x (o_ofZ O m)) w in
  let fr := map (fun x => o_sub O x (o_ofZ O (rint x))) s in
  rint (o_div O (o_mul O (o_ofZ O 10000000) (sumsq fr)) (sumsq s)).
End Numeric.

(* index of the first minimal element (np.argmin) *)
Fixpoint argmin_from (best : Z) (bi i : nat) (l : list Z) : nat :=
  match l with
  | [] => bi
  | x :: t => if (x <? best)%Z then argmin_from x i (S i) t else argmin_from best bi (S i) t
  end.
Definition argmin_first (l : list Z) : nat :=
  match l with [] => 0 | x :: t => argmin_from x 0 1 t end.

Section Round.
Context {T : Type} (O : Ops T) (rint : T -> Z).
Definition round_indices (max_index : nat) (idx : list T) : list Z :=
  let flat := drop_third idx in
  let mx := absmax O flat in
  let w := map (fun x => o_div O x mx) flat in
  let errs := map (fun m => round_err O rint w (Z.of_nat m)) (seq 1 max_index) in
  let mstar := S (argmin_first errs) in
  let mult := o_div O (o_ofZ O (Z.of_nat mstar)) mx in
  map (fun x => rint (o_mul O mult x)) idx.
End Round.

(* ================================================== metadata propagation
   every derived object is built as  self.__class__(xyz=..., phase=self.phase)
   followed by  m.coordinate_format = self.coordinate_format; round() builds
   the class from the keyword arguments {coordinate_format: new, phase: self.phase} or a
   deepcopy for "xyz" *)
Inductive cfmt : Type := Fxyz | Fuvw | FUVTW | Fhkl | Fhkil.
Record miller (E : Type) : Type := mkMiller { m_data : list E; m_phase : nat; m_fmt : cfmt }.
Arguments mkMiller {E}. Arguments m_data {E}. Arguments m_phase {E}. Arguments m_fmt {E}.
Definition derive {E F} (f : list E -> list F) (m : miller E) : miller F :=
  mkMiller (f (m_data m)) (m_phase m) (m_fmt m).

(* ========================================= exact instance: integer vectors
   (triples) acted on by 3x3 integer matrices (all operations of the cubic,
   tetragonal and orthorhombic point groups are of this form); no rounding,
   exact zero test *)
Definition zv3 : Type := (Z * Z * Z)%type.
Definition zm3 : Type := (zv3 * zv3 * zv3)%type.          (* rows *)
Local Open Scope Z_scope.
Definition zdot3 (a b : zv3) : Z :=
  let '(a1, a2, a3) := a in let '(b1, b2, b3) := b in a1 * b1 + a2 * b2 + a3 * b3.
Definition zact (m : zm3) (v : zv3) : zv3 :=
  let '(r1, r2, r3) := m in (zdot3 r1 v, zdot3 r2 v, zdot3 r3 v).
Definition ztrans (m : zm3) : zm3 :=
  let '((a11, a12, a13), (a21, a22, a23), (a31, a32, a33)) := m in
  ((a11, a21, a31), (a12, a22, a32), (a13, a23, a33)).
Definition zmmul (a b : zm3) : zm3 :=
  let '(r1, r2, r3) := a in let '(c1, c2, c3) := ztrans b in
  ((zdot3 r1 c1, zdot3 r1 c2, zdot3 r1 c3),
   (zdot3 r2 c1, zdot3 r2 c2, zdot3 r2 c3),
   (zdot3 r3 c1, zdot3 r3 c2, zdot3 r3 c3)).
Definition zmid : zm3 := ((1, 0, 0), (0, 1, 0), (0, 0, 1)).
Definition zkey (v : zv3) : list Z := let '(a, b, c) := v in [a; b; c].
Definition zcmp : list Z -> list Z -> comparison := lexcmp Z.compare.
Definition zveqb (a b : zv3) : bool := keq zcmp (zkey a) (zkey b).
Definition zis0 (v : zv3) : bool := zveqb v (0, 0, 0).
Definition z0 : zv3 := (0, 0, 0).
Definition zmkey (m : zm3) : list Z := let '(r1, r2, r3) := m in zkey r1 ++ zkey r2 ++ zkey r3.
Definition zmeqb (a b : zm3) : bool := keq zcmp (zmkey a) (zmkey b).
Local Close Scope Z_scope.

Definition zsym_all (ops : list zm3) (vs : list zv3) : list zv3 := symmetrise_all z0 zact ops vs.
Definition zsym_unique (ops : list zm3) (vs : list zv3) : list zv3 * list nat * list Z :=
  symmetrise_unique zcmp (fun v => v) zis0 zkey z0 z0 zis0 zact ops vs.
Definition zblock (ops : list zm3) (v : zv3) : list zv3 :=
  block_of zcmp (fun v => v) zis0 zkey z0 zact ops v.
Definition zmultiplicity (ops : list zm3) (shape : list nat) (data : list zv3) : list nat :=
  multiplicity zcmp (fun v => v) zis0 zkey z0 z0 zis0 zact ops shape data.

(* the angle between u and w, up to the factor |u|, as an exactly comparable
   pair (u.w, w.w):  angle(u,w) <= angle(u,w')  iff  u.w/|w| >= u.w'/|w'| *)
Definition zang (u w : zv3) : Z * Z := (zdot3 u w, zdot3 w w).
Definition zang_leb (p q : Z * Z) : bool :=
  let '(a, n) := p in let '(b, m) := q in
  if (0 <=? a)%Z then (if (0 <=? b)%Z then (b * b * n <=? a * a * m)%Z else true)
  else (if (0 <=? b)%Z then false else (a * a * m <=? b * b * n)%Z).
Definition zangle_with_sym (ops : list zm3) (self other : list zv3) : option (list nat * list (Z * Z)) :=
  angle_with_sym zang_leb zang zact ops z0 [length self] [length other] self other.

(* closure of a generator list under products (bounded iteration) *)
Definition zadd_new (acc : list zm3) (x : zm3) : list zm3 :=
  if existsb (zmeqb x) acc then acc else acc ++ [x].
Fixpoint zclose (fuel : nat) (acc : list zm3) : list zm3 :=
  match fuel with
  | O => acc
  | S f => zclose f (fold_left zadd_new (flat_map (fun a => map (zmmul a) acc) acc) acc)
  end.
(* the 48 operations of m-3m from a 4-fold, a 3-fold and the inversion; the
   4 operations of the group 4 *)
Definition z_c4z : zm3 := ((0, -1, 0), (1, 0, 0), (0, 0, 1))%Z.
Definition z_c3 : zm3 := ((0, 0, 1), (1, 0, 0), (0, 1, 0))%Z.
Definition z_inv : zm3 := ((-1, 0, 0), (0, -1, 0), (0, 0, -1))%Z.
Definition z_m3m : list zm3 := zclose 4 [zmid; z_c4z; z_c3; z_inv].
Definition z_4 : list zm3 := zclose 3 [zmid; z_c4z].

(* de-duplication by rounded values on a fixed-point scalar: values in units
   of 1e-11, rounding to the 10th decimal = to a multiple of 10, half to even *)
Definition zround10 (x : Z) : Z :=
  let q := (x / 10)%Z in let r := (x mod 10)%Z in
  if (r <? 5)%Z then (10 * q)%Z else if (5 <? r)%Z then (10 * (q + 1))%Z
  else if Z.even q then (10 * q)%Z else (10 * (q + 1))%Z.
Definition zuniq_rounded (col : list Z) : list Z :=
  uniq Z.compare zround10 (fun _ => false) (fun x => x) 0%Z col.

(* ------------------------------------------------ binary64 (evaluation only) *)
From Coq Require Import PrimFloat FloatOps.
From Verif Require Import FInst.
Local Open Scope float_scope.

(* float holding an integer value -> Z *)
Definition f2Z (x : float) : Z :=
  match Prim2SF x with
  | SpecFloat.S754_finite s m ex =>
      let v := Z.shiftl (Zpos m) ex in if s then (- v)%Z else v
  | _ => 0%Z
  end.
Definition f_rint (x : float) : Z := f2Z (frint x).
Definition f_round12c : float -> float := f_round_dec 12.

Definition fsym_unique_cols := sym_unique_cols_num FOps f_round10.
Definition fround_indices := round_indices FOps f_rint.

Fixpoint zs_eqb (a b : list Z) : bool :=
  match a, b with
  | [], [] => true
  | x :: a', y :: b' => Z.eqb x y && zs_eqb a' b'
  | _, _ => false
  end.
Definition rows_close (a b : list (list float)) : bool :=
  (fix go (a b : list (list float)) : bool :=
     match a, b with
     | [], [] => true
     | r :: a', s :: b' => fclose_list r s && go a' b'
     | _, _ => false
     end) a b.
