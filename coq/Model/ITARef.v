(* Independent reference: the 32 crystallographic point groups (plus the axis
   setting variants orix names) from standard generators in the crystal
   Cartesian frame (a || e1, c || e3; hexagonal family: b at 120 deg from a),
   following International Tables A.  Written by hand; nothing here comes
   from orix.  Executable definitions only. *)
From Coq Require Import ZArith QArith List String Bool.
From Verif Require Import Scalar KField Quat GroupK.
Import ListNotations. Open Scope string_scope.

Definition h_ := Kscale (1#2) K1.
Definition s2_ := Kscale (1#2) Ksqrt2.
Definition s3_ := Kscale (1#2) Ksqrt3.
Definition o_ := K0.
Definition i_ := K1.

(* proper rotations: (cos w/2, n sin w/2) *)
Definition r2x : krot := ((o_, i_, o_, o_), false).
Definition r2y : krot := ((o_, o_, i_, o_), false).
Definition r2z : krot := ((o_, o_, o_, i_), false).
Definition r3z : krot := ((h_, o_, o_, s3_), false).
Definition r4z : krot := ((s2_, o_, o_, s2_), false).
Definition r6z : krot := ((s3_, o_, o_, h_), false).
Definition r3d : krot := ((h_, h_, h_, h_), false).          (* 3-fold about [111] *)
Definition imp (r : krot) : krot := (fst r, true).            (* followed by inversion *)
Definition inv1 : krot := ((i_, o_, o_, o_), true).           (* inversion -1 *)
Definition mx := imp r2x.  (* mirror plane perpendicular to x *)
Definition my := imp r2y.
Definition mz := imp r2z.

(* name -> (generators, order) *)
Definition ita_table : list (string * (list krot * nat)) := [
  ("1", ([], 1%nat)); ("-1", ([inv1], 2%nat));
  ("211", ([r2x], 2%nat)); ("121", ([r2y], 2%nat)); ("112", ([r2z], 2%nat)); ("2", ([r2z], 2%nat));
  ("m11", ([mx], 2%nat)); ("1m1", ([my], 2%nat)); ("11m", ([mz], 2%nat)); ("m", ([mz], 2%nat));
  ("2/m", ([r2z; mz], 4%nat));
  ("222", ([r2z; r2x], 4%nat)); ("mm2", ([mx; my], 4%nat)); ("mmm", ([mx; my; mz], 8%nat));
  ("4", ([r4z], 4%nat)); ("-4", ([imp r4z], 4%nat)); ("4/m", ([r4z; mz], 8%nat));
  ("422", ([r4z; r2x], 8%nat)); ("4mm", ([r4z; mx], 8%nat)); ("-42m", ([imp r4z; r2x], 8%nat));
  ("4/mmm", ([r4z; mz; mx], 16%nat));
  ("3", ([r3z], 3%nat)); ("-3", ([imp r3z], 6%nat));
  ("321", ([r3z; r2x], 6%nat)); ("312", ([r3z; r2y], 6%nat)); ("32", ([r3z; r2x], 6%nat));
  ("3m", ([r3z; mx], 6%nat)); ("-3m", ([imp r3z; r2x], 12%nat));
  ("6", ([r6z], 6%nat)); ("-6", ([imp r6z], 6%nat)); ("6/m", ([r6z; mz], 12%nat));
  ("622", ([r6z; r2x], 12%nat)); ("6mm", ([r6z; mx], 12%nat)); ("-6m2", ([imp r6z; mx], 12%nat));
  ("6/mmm", ([r6z; mz; mx], 24%nat));
  ("23", ([r2z; r2x; r3d], 12%nat)); ("m-3", ([r2z; r2x; r3d; inv1], 24%nat));
  ("432", ([r4z; r3d], 24%nat)); ("-43m", ([imp r4z; r3d], 24%nat)); ("m-3m", ([r4z; r3d; inv1], 48%nat)) ].

Fixpoint lookup {A} (name : string) (t : list (string * A)) : option A :=
  match t with
  | [] => None
  | (n, v) :: t' => if String.eqb n name then Some v else lookup name t'
  end.

Definition ita_group (name : string) : option (list krot * nat) :=
  match lookup name ita_table with
  | Some (gens, order) => Some (kgenerate gens, order)
  | None => None
  end.

(* the self-consistency of the reference itself: every entry generates a group
   of the tabulated order *)
Definition ita_table_ok : bool :=
  forallb (fun e => let G := kgenerate (fst (snd e)) in
                    kis_group G && Nat.eqb (List.length G) (snd (snd e))) ita_table.
