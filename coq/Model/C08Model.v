(* C08 -- executable model of the TSL inverse-pole-figure colour key
   (orix/plot/direction_color_keys/_util.py, direction_color_key_tsl.py,
   orix/plot/orientation_color_keys/ipf_color_key_tsl.py and
   Vector3d.in_fundamental_sector).  Definitions only, no proofs.

   Everything is written once over [Ops T]: theorems are stated on [ROps]
   (Proofs/C08*.v), the correspondence check evaluates the same definitions on
   binary64 ([FOps]) against the implementation.

   The scalar kernels hsl_to_hsv / rgb_from_polar_coordinates / the lightness
   formula of direction2color are NOT written here: they are regenerated from
   /repo (Gen/C08Color.v).  matplotlib's hsv_to_rgb is the hand-written
   reference [hsv_to_rgb] below (differentially tested on every run).

   The three roundings of the code (np.round(.,10) in Vector3d.angle_with,
   .round(12) in in_fundamental_sector, np.round(.).astype(int) in
   _correct_azimuth) are the fields of the parameter [rd : Rnd]; theorems
   quantify over it (with the properties they need), the float evaluation uses
   the real roundings ([frnd] at the end of this file).

   The data of a fundamental sector (normals, centre, vertices) and the
   elements of the Laue group are INPUTS of the model (they are outputs of
   Symmetry.fundamental_sector / Symmetry.laue, which belong to C07 / C03). *)
From Coq Require Import ZArith List Bool.
From Verif Require Import Scalar C08Color Quat.
Import ListNotations.

Section C08.
Context {T : Type} (O : Ops T).

Record Rnd := mkRnd { r10 : T -> T; r12 : T -> T; ridx : T -> nat }.
Context (rd : Rnd).

Notation "x + y" := (o_add O x y).
Notation "x - y" := (o_sub O x y).
Notation "x * y" := (o_mul O x y).
Notation "x / y" := (o_div O x y).
Notation c0 := (o_ofZ O 0).
Notation c1 := (o_ofZ O 1).
Notation c2 := (o_ofZ O 2).
Notation V := (vec3 (T:=T)).

(* ------------------------------------------------------------------ *)
(* matplotlib.colors.hsv_to_rgb on one (h, s, v) triple.
   i = int(h*6) is decided by comparisons (h*6 < 1, < 2, ...); h*6 >= 6 is
   the case i = 6, i % 6 == 0 (h = 1).  Faithful for -1/6 < h < 7/6. *)
Definition hsv_sextant (i : Z) (h6 s v : T) : V :=
  let f := h6 - o_ofZ O i in
  let p := v * (c1 - s) in
  let q := v * (c1 - s * f) in
  let t := v * (c1 - s * (c1 - f)) in
  match i with
  | 0%Z | 6%Z => (v, t, p)
  | 1%Z => (q, v, p)
  | 2%Z => (p, v, t)
  | 3%Z => (p, q, v)
  | 4%Z => (t, p, v)
  | _ => (v, p, q)
  end.

Definition hsv_to_rgb (h s v : T) : V :=
  let h6 := h * o_ofZ O 6 in
  if o_eqb O s c0 then (v, v, v)
  else if o_ltb O h6 c1 then hsv_sextant 0 h6 s v
  else if o_ltb O h6 c2 then hsv_sextant 1 h6 s v
  else if o_ltb O h6 (o_ofZ O 3) then hsv_sextant 2 h6 s v
  else if o_ltb O h6 (o_ofZ O 4) then hsv_sextant 3 h6 s v
  else if o_ltb O h6 (o_ofZ O 5) then hsv_sextant 4 h6 s v
  else if o_ltb O h6 (o_ofZ O 6) then hsv_sextant 5 h6 s v
  else hsv_sextant 6 h6 s v.

(* rgb_from_polar_coordinates / direction2color's colour map with the reference *)
Definition rgb_from_polar (azimuth lightness : T) : V :=
  rgb_from_polar_coordinates O hsv_to_rgb azimuth lightness.
Definition color_of_polar (azimuth polar : T) : V :=
  direction2color_k O hsv_to_rgb azimuth polar.

(* ------------------------------------------------------------------ *)
(* Vector3d vocabulary *)
Definition vsub (a b : V) : V :=
  let '(x, y, z) := a in let '(u, v, w) := b in (x - u, y - v, z - w).
Definition vscale (s : T) (a : V) : V := let '(x, y, z) := a in (s * x, s * y, s * z).
Definition vnorm (a : V) : T :=
  let '(x, y, z) := a in o_sqrt O ((x * x + y * y) + z * z).
Definition vzero : V := (c0, c0, c0).
Definition xvec : V := (c1, c0, c0).
Definition zvec : V := (c0, c0, c1).
(* Object3d.unit = nan_to_num(data / norm): the zero vector stays zero *)
Definition vunit (a : V) : V :=
  let n := vnorm a in
  if o_eqb O n c0 then vzero else let '(x, y, z) := a in (x / n, y / n, z / n).
Definition is_zero (a : V) : bool :=
  let '(x, y, z) := a in o_eqb O x c0 && o_eqb O y c0 && o_eqb O z c0.
(* Vector3d.angle_with: arccos(round(dot / |a| / |b|, 10)) *)
Definition angle_with (a b : V) : T :=
  o_acos O (r10 rd ((vdot O a b / vnorm a) / vnorm b)).

Definition two_pi : T := c2 * o_pi O.

(* _calculate_azimuth(center, rx, v) -- center and v are unit vectors.
   (the final azimuth[isnan] = 0 is dead for finite input: unit() never
   produces nan, atan2(0,0) = 0) *)
Definition calc_azimuth (c rx v : V) : T :=
  let rxp := vunit (vsub rx (vscale (vdot O rx c) c)) in
  let ry := vunit (vcross O c rxp) in
  let d := vunit (vsub v c) in
  o_fmod O (o_atan2 O (vdot O ry d) (vdot O rxp d)) two_pi.

(* ------------------------------------------------------------------ *)
(* A fundamental sector as data *)
Record sector := mkSector {
  s_normals : list V;      (* unit normals *)
  s_center : V;            (* FundamentalSector.center as returned (not normalised) *)
  s_vertices : list V      (* FundamentalSector.vertices (unit) *)
}.

Definition s_rx (sec : sector) : V :=
  let c := vunit (s_center sec) in
  match s_vertices sec with
  | [] => vsub xvec c         (* point group -1 has no vertices *)
  | _ => vsub zvec c          (* north pole to sector centre *)
  end.

(* ------------------------------------------------------------------ *)
(* np.interp(x, xp, fp) for increasing xp, pts = combine xp fp *)
Fixpoint interp_scan (x : T) (pts : list (T * T)) (dflt : T) : T :=
  match pts with
  | [] => dflt
  | (x0, y0) :: r =>
      match r with
      | [] => y0
      | (x1, y1) :: _ =>
          if o_ltb O x x1 then ((y1 - y0) / (x1 - x0)) * (x - x0) + y0
          else interp_scan x r dflt
      end
  end.
Definition interp (x : T) (pts : list (T * T)) : T :=
  match pts with
  | [] => x
  | (x0, y0) :: _ => if o_leb O x x0 then y0 else interp_scan x pts y0
  end.

Fixpoint sumT (l : list T) : T :=
  match l with [] => c0 | x :: r => x + sumT r end.
(* np.cumsum *)
Fixpoint cumsum_from (acc : T) (l : list T) : list T :=
  match l with [] => [] | x :: r => (acc + x) :: cumsum_from (acc + x) r end.
Definition minl (l : list T) : T :=
  match l with [] => o_inf O | x :: r => fold_left (o_min O) r x end.

(* insertion sort (np.sort of the three vertex azimuths) *)
Fixpoint insert (x : T) (l : list T) : list T :=
  match l with
  | [] => [x]
  | y :: r => if o_ltb O y x then y :: insert x r else x :: l
  end.
Definition sortT (l : list T) : list T := fold_right insert [] l.

(* Quaternion.from_axes_angles(axis, w) followed by .unit *)
Definition qunit (q : quat (T:=T)) : quat :=
  let n := o_sqrt O (qnorm2 O q) in
  let '(a, b, c, d) := q in (a / n, b / n, c / n, d / n).
Definition rot_about (axis : V) (w : T) : quat :=
  let '(x, y, z) := vunit axis in qunit (ax2qu O (x, y, z, w)).

Definition m_pts : nat := 1000.
Definition lin_step : T := two_pi / o_ofZ O 999.
(* np.linspace(0, 2 pi, 1000)[k] *)
Definition az2 (k : nat) : T :=
  if Nat.eqb k 999 then two_pi else o_ofZ O (Z.of_nat k) * lin_step.

(* divide the entries with index in [lo, hi) by s *)
Fixpoint scale_range (l : list T) (i lo hi : nat) (s : T) : list T :=
  match l with
  | [] => []
  | x :: r => (if Nat.leb lo i && Nat.ltb i hi then x / s else x) :: scale_range r (S i) lo hi s
  end.
Definition seg_sum (l : list T) (lo hi : nat) : T :=
  sumT (firstn (hi - lo) (skipn lo l)).
Definition normalise_seg (l : list T) (lo hi : nat) : list T :=
  scale_range l 0 lo hi (seg_sum l lo hi / o_ofZ O 3).

(* the 1000-point table of _correct_azimuth: list of (azimuth2[k], polar[k]) *)
Definition correct_table (sec : sector) : list (T * T) :=
  let c := vunit (s_center sec) in
  let rx := s_rx sec in
  let n0 := vunit (vcross O rx c) in
  let ks := seq 0 999 in
  let normals := map (fun k => qrot O (rot_about c (az2 k)) n0) ks in
  let polar := map (fun nk => minl (map (fun n => angle_with (vcross O n nk) c) (s_normals sec))) normals in
  let polar :=
    match s_vertices sec with
    | [_; _; _] =>
        let ang := sortT (map (calc_azimuth c rx) (s_vertices sec)) in
        let a3 := map (fun a => ridx rd ((o_ofZ O 1000 * a) / two_pi)) ang in
        let a3 := match a3 with a :: r => if Nat.ltb a 10 then r else a3 | [] => [] end in
        let i0 := nth 0 a3 0%nat in
        let i1 := nth 1 a3 0%nat in
        let p1 := normalise_seg polar 0 i0 in
        let p2 := normalise_seg p1 i0 i1 in
        normalise_seg p2 i1 (length p2)
    | _ => polar
    end in
  let s := sumT polar in
  let cum := map (fun x => two_pi * x) (c0 :: cumsum_from c0 (map (fun x => x / s) polar)) in
  combine (map az2 (seq 0 1000)) cum.

(* ------------------------------------------------------------------ *)
(* polar_coordinates_in_sector(sector, v) with the table precomputed *)
Definition polar_ratio (c v vcn n : V) : T :=
  let bp := vunit (vcross O vcn n) in
  if is_zero bp then c1        (* 0/0 = nan on both angles -> replaced by 1 *)
  else
    let a := angle_with (vneg O v) bp in
    let b := angle_with (vneg O c) bp in
    if o_eqb O b c0 then (if o_eqb O a c0 then c1 else o_inf O) else a / b.

Definition polar_of (sec : sector) (v : V) : T :=
  let c := vunit (s_center sec) in
  if forallb (fun n => o_eqb O (vdot O n c) c0) (s_normals sec)
  then angle_with c v / o_pi O
  else let vcn := vunit (vcross O v c) in
       minl (map (polar_ratio c v vcn) (s_normals sec)).

Definition azimuth_of (sec : sector) (tbl : list (T * T)) (v : V) : T :=
  let c := vunit (s_center sec) in
  let az := calc_azimuth c (s_rx sec) v in
  match s_vertices sec with
  | [] => az
  | _ => interp az tbl
  end.

Definition polar_coordinates (sec : sector) (tbl : list (T * T)) (h : V) : T * T :=
  let v := vunit h in (azimuth_of sec tbl v, polar_of sec v).

(* ------------------------------------------------------------------ *)
(* SphericalRegion.__ge__ : all(normal . v > -1e-9) *)
Definition in_sector (sec : sector) (v : V) : bool :=
  forallb (fun n => o_ltb O (o_opp O (o_ofQ O 1 1000000000)) (vdot O n v)) (s_normals sec).

Fixpoint argmax_from (best : T) (bi i : nat) (xs : list T) : nat :=
  match xs with
  | [] => bi
  | x :: r => if o_ltb O best x then argmax_from x i (S i) r else argmax_from best bi (S i) r
  end.
Definition argmax (xs : list T) : nat :=
  match xs with [] => 0%nat | x :: r => argmax_from x 0 1 r end.

Definition rid : rot (T:=T) := (qone O, false).

(* the fold of in_fundamental_sector without the final mask *)
Definition closeness (G : list (rot (T:=T))) (c v : V) : list T :=
  map (fun g => r12 rd (vdot O v (ract O g c))) G.
Definition project0 (G : list (rot (T:=T))) (sec : sector) (v : V) : V :=
  let k := argmax (closeness G (s_center sec) v) in
  ract O (rinv O (nth k G rid)) v.
(* Vector3d.in_fundamental_sector(symmetry).  Of the special-cased names
   (321, 312, 32, -4, -3) only "-3" is the name of a Laue group: [m3] = the
   Laue group is named "-3"; then vectors with z < 0 are first mapped by
   symmetry[3] and only symmetry[:3] take part in the fold. *)
Definition pre_m3 (G : list (rot (T:=T))) (v : V) : V :=
  let '(_, _, z) := v in if o_ltb O z c0 then ract O (nth 3 G rid) v else v.
Definition project (m3 : bool) (G : list (rot (T:=T))) (sec : sector) (v : V) : V :=
  match s_normals sec with
  | [] => v                                  (* center.size == 0 *)
  | _ =>
      let v' := if m3 then pre_m3 G v else v in
      let S := if m3 then firstn 3 G else G in
      if in_sector sec v' then v' else project0 S sec v'
  end.

(* ------------------------------------------------------------------ *)
(* colour of a direction that already is in the sector *)
Definition color_in_sector (sec : sector) (tbl : list (T * T)) (h : V) : V :=
  let '(az, p) := polar_coordinates sec tbl h in color_of_polar az p.

Definition direction2color (m3 : bool) (G : list (rot (T:=T))) (sec : sector) (tbl : list (T * T)) (v : V) : V :=
  color_in_sector sec tbl (project m3 G sec v).

Definition orientation2color (m3 : bool) (G : list (rot (T:=T))) (sec : sector) (tbl : list (T * T))
           (d : V) (o : rot (T:=T)) : V :=
  direction2color m3 G sec tbl (ract O o d).

(* array level: one colour per element, C order; colour array = flattened
   triples, shape = input shape ++ [3] *)
Definition flat3 (cs : list V) : list T :=
  flat_map (fun c => let '(r, g, b) := c in [r; g; b]) cs.
Definition directions2colors m3 G sec tbl (vs : list V) : list V := map (direction2color m3 G sec tbl) vs.
Definition orientations2colors m3 G sec tbl d (os : list (rot (T:=T))) : list V :=
  map (orientation2color m3 G sec tbl d) os.
Definition color_shape (shape : list nat) : list nat := shape ++ [3%nat].

(* HSL lightness of an RGB colour: (max + min) / 2 *)
Definition lightness_rgb (c : V) : T :=
  let '(r, g, b) := c in
  (o_max O (o_max O r g) b + o_min O (o_min O r g) b) / c2.

End C08.

(* ------------------------------------------------------------------ *)
(* float instance of the roundings, for the correspondence check only *)
From Coq Require Import PrimFloat.
From Verif Require Import FInst.

Definition f_round_dec (scale : float) (x : float) : float := (fround (x * scale) / scale)%float.
Definition f_ridx (x : float) : nat :=
  let r := fround x in
  match find (fun k => (Z2f (Z.of_nat k) =? r)%float) (seq 0 1002) with
  | Some k => k
  | None => O
  end.
Definition frnd : Rnd (T:=float) :=
  mkRnd (f_round_dec 1e10) (f_round_dec 1e12) f_ridx.

Definition v3_close_tol (tol : float) (a b : float * float * float) : bool :=
  let '(a0, a1, a2) := a in let '(b0, b1, b2) := b in
  fclose_tol tol a0 b0 && fclose_tol tol a1 b1 && fclose_tol tol a2 b2.
