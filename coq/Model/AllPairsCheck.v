(* All ordered pairs of the 38 named point groups for which get_proper_groups defines a region (C05):
   the pairs (gl, gr) the reduction loop runs over -- two proper or two improper operations -- are, up to the
   signs of the quaternions, exactly the pairs of operations of the two PROPER groups that get_proper_groups
   (translated from the source: Gen/ProperGroups.v) selects and for which the region is built.
   Checkers only (executable, no proofs). *)
From Coq Require Import ZArith QArith List String Bool.
From Verif Require Import Scalar KField KSign Quat GroupK Groups ProperGroups ZoneModel CertCheck CoverCheck ExistCheck RegionCertsAll.
Import ListNotations.

Definition sel_name (s : sel) (g : gobs) : string :=
  match s with SelSelf => g_name g | SelProper => g_proper_name g | SelLaueProper => g_laue_proper_name g end.

Definition gpg_names (g1 g2 : gobs) : option (string * string) :=
  match gpg (g_is_proper g1) (g_contains_inversion g1) (g_is_proper g2) (g_contains_inversion g2) with
  | Some ((sd1, s1), (sd2, s2)) =>
      Some (sel_name s1 (if sd1 then g1 else g2), sel_name s2 (if sd2 then g1 else g2))
  | None => None
  end.

Definition find_rc (n1 n2 : string) : option region_cert :=
  find (fun rc => String.eqb (rc_l rc) n1 && String.eqb (rc_r rc) n2) (List.concat all_region_certs).

Definition kproper (G : list krot) : list kquat := map fst (filter (fun r => negb (snd r)) G).
Definition kimproper (G : list krot) : list kquat := map fst (filter (fun r => snd r) G).

Definition pairs_equiv (G1 G2 : list krot) (A B : list kquat) : bool :=
  forallb (fun ab => kq_pm_mem (fst ab) A && kq_pm_mem (snd ab) B) (code_pairs G1 G2) &&
  forallb (fun a => forallb (fun b =>
     (kq_pm_mem a (kproper G1) && kq_pm_mem b (kproper G2)) ||
     (kq_pm_mem a (kimproper G1) && kq_pm_mem b (kimproper G2))) B) A.

Definition pair_ok (g1 g2 : gobs) : bool :=
  match gpg_names g1 g2 with
  | None => true
  | Some (n1, n2) =>
      match find_rc n1 n2 with
      | None => false
      | Some _ => pairs_equiv (g_elems g1) (g_elems g2) (pquats n1) (pquats n2)
      end
  end.

Definition all_pairs_ok : bool := forallb (fun g1 => forallb (fun g2 => pair_ok g1 g2) groups) groups.
Definition n_pairs_with_region : nat :=
  List.length (filter (fun p => match gpg_names (fst p) (snd p) with Some _ => true | None => false end) (list_prod groups groups)).
