(* Exact certificates that a list of half-spaces (a polyhedral cone S given by
   normals N) is a fundamental domain of a finite group G of (im)proper
   rotations acting on R^3 -- used for the fundamental sectors of C07 and for
   the axis fundamental zones inside the orientation regions of C05.

   * cover tree: inner nodes split space by a plane, a leaf names an operation
     g of G and writes every  g^-1 * n  (n in N) as a non-negative
     K-combination of the plane normals collected on the path;
   * Gordan certificates: for g <> e a non-trivial non-negative combination of
     N and g^-1 * N that vanishes.

   Checkers only (executable, no proofs); soundness over the reals is in
   Proofs/CoverSound.v. *)
From Coq Require Import ZArith QArith List String Bool.
From Verif Require Import Scalar KField KSign Quat GroupK Groups.
Import ListNotations.

Definition kvec := vec3 (T:=K).
Definition kv_zero : kvec := (K0, K0, K0).
Definition kv_add (u v : kvec) : kvec :=
  let '(a, b, c) := u in let '(x, y, z) := v in (Kadd a x, Kadd b y, Kadd c z).
Definition kv_scale (l : K) (u : kvec) : kvec :=
  let '(a, b, c) := u in (Kmul l a, Kmul l b, Kmul l c).

Fixpoint vcomb (C : list kvec) (c : list (nat * K)) : kvec :=
  match c with
  | [] => kv_zero
  | (j, l) :: c' => kv_add (kv_scale l (nth j C kv_zero)) (vcomb C c')
  end.

Definition coeffs_ok (C : list kvec) (c : list (nat * K)) : bool :=
  forallb (fun jl => Knonneg (snd jl) && Nat.ltb (fst jl) (List.length C)) c.
Definition vcert_ok (C : list kvec) (target : kvec) (c : list (nat * K)) : bool :=
  coeffs_ok C c && kv_eqb (vcomb C c) target.

Definition Kpos (x : K) : bool := match Ksign x with Some Gt => true | _ => false end.
Definition Kneg (x : K) : bool := match Ksign x with Some Lt => true | _ => false end.

Inductive ctree :=
| CLeaf (g : nat) (certs : list (list (nat * K)))
| CSplit (h : kvec) (t1 t2 : ctree).

Fixpoint all2b {A B} (f : A -> B -> bool) (l1 : list A) (l2 : list B) : bool :=
  match l1, l2 with
  | [], [] => true
  | a :: l1', b :: l2' => f a b && all2b f l1' l2'
  | _, _ => false
  end.

(* tree_ok G N C t: on the cell { v : c.v >= 0 for c in C } some g of G maps v into the cone N *)
Fixpoint tree_ok (G : list krot) (N : list kvec) (C : list kvec) (t : ctree) : bool :=
  match t with
  | CLeaf g certs =>
      match nth_error G g with
      | Some r => all2b (fun n c => vcert_ok C (ract KOps (rinv KOps r) n) c) N certs
      | None => false
      end
  | CSplit h t1 t2 => tree_ok G N (h :: C) t1 && tree_ok G N (vneg KOps h :: C) t2
  end.

(* the open cone N and its image under r^-1 do not meet *)
Definition gordan_ok (N : list kvec) (r : krot) (c : list (nat * K)) : bool :=
  let V := app N (map (ract KOps (rinv KOps r)) N) in
  coeffs_ok V c && kv_eqb (vcomb V c) kv_zero && existsb (fun jl => Kpos (snd jl)) c.

(* ---- sectors of the named point groups and of their Laue groups (C07) -------------- *)
Record sector_cert := mkSC {
  sc_name : string; sc_laue : bool;        (* the group of that name, or the result of its .laue *)
  sc_N : list kvec;                        (* exact directions of the sector normals *)
  sc_tree : ctree;
  sc_gordan : list (list (nat * K))        (* one per operation other than the first *)
}.

Definition group_named (name : string) : option gobs :=
  find (fun g => String.eqb (g_name g) name) groups.
Definition subject_ops (name : string) (laue : bool) : list krot :=
  match group_named name with
  | Some g => if laue then g_laue g else g_elems g
  | None => []
  end.

Definition identity_first (G : list krot) : bool :=
  match G with r :: _ => kq_eqb (fst r) (qone KOps) && negb (snd r) | [] => false end.

Definition sc_ok (sc : sector_cert) : bool :=
  let G := subject_ops (sc_name sc) (sc_laue sc) in
  identity_first G && kunit G && kclosed G && kinv_closed G
  && tree_ok G (sc_N sc) [] (sc_tree sc)
  && all2b (fun r c => gordan_ok (sc_N sc) r c) (tl G) (sc_gordan sc).

(* ---- sectors that are NOT fundamental domains: exact witnesses ------------------- *)
Record sector_defect := mkSD {
  sd_name : string; sd_laue : bool; sd_N : list kvec;
  sd_op : nat;                 (* 0: gap;  k > 0: overlap with the image under operation k *)
  sd_dir : Q * Q * Q
}.
Definition kv_ofQ (w : Q * Q * Q) : kvec := let '(a, b, c) := w in (KofQ a, KofQ b, KofQ c).

Definition sd_ok (sd : sector_defect) : bool :=
  let G := subject_ops (sd_name sd) (sd_laue sd) in
  let w := kv_ofQ (sd_dir sd) in
  match sd_op sd with
  | O => negb (Nat.eqb (List.length G) 0) &&
         forallb (fun r => existsb (fun n => Kneg (vdot KOps n (ract KOps r w))) (sd_N sd)) G
  | S _ => match nth_error G (sd_op sd) with
           | Some r => forallb (fun n => Kpos (vdot KOps n w)) (sd_N sd) &&
                       forallb (fun n => Kpos (vdot KOps n (ract KOps r w))) (sd_N sd) &&
                       negb (kr_eqb r kid)
           | None => false
           end
  end.

(* every (group, own / Laue) subject is either certified or listed as defective *)
Definition subject_eqb (a b : string * bool) : bool := String.eqb (fst a) (fst b) && Bool.eqb (snd a) (snd b).
Definition subjects_covered (certs : list sector_cert) (defs : list sector_defect) : bool :=
  forallb (fun g => forallb (fun l =>
     existsb (fun sc => subject_eqb (sc_name sc, sc_laue sc) (g_name g, l)) certs ||
     existsb (fun sd => subject_eqb (sd_name sd, sd_laue sd) (g_name g, l)) defs) [false; true]) groups.
