(* C15 -- vendor file readers: definitions shared by the reader models.
   Executable definitions only (no proofs).

   * token-level numbers, results/errors, the loaded-map record;
   * string helpers (substring search, decimal printing of nat);
   * Phase(...) constructor: alias table + group-name lookup (tables generated
     from orix/quaternion/symmetry.py into Gen/C15Tables.v), space group ->
     point group name (diffpy table, checked exhaustively for 1..230 by the
     harness on every run), "space group is dropped when its point group
     differs from the given point group";
   * PhaseList(ids=, names=, space_groups=, point_groups=, structures=);
   * the phase-list reconciliation of CrystalMap.__init__. *)
From Coq Require Import ZArith List Bool String Ascii.
From Verif Require Import Scalar C15Tables.
Import ListNotations.
Local Open Scope string_scope.

(* ------------------------------------------------------------ strings *)
Fixpoint contains (p s : string) : bool :=
  String.prefix p s || match s with EmptyString => false | String _ s' => contains p s' end.

Fixpoint join (sep : string) (ws : list string) : string :=
  match ws with
  | [] => ""
  | [w] => w
  | w :: ws' => w ++ sep ++ join sep ws'
  end.

Definition TAB : string := String (ascii_of_nat 9) EmptyString.

Definition digit (n : nat) : string := String (ascii_of_nat (48 + n)) EmptyString.
Fixpoint nat2str_aux (fuel n : nat) (acc : string) : string :=
  match fuel with
  | O => acc
  | S f => let acc' := digit (Nat.modulo n 10) ++ acc in
           if Nat.ltb n 10 then acc' else nat2str_aux f (Nat.div n 10) acc'
  end.
Definition nat2str (n : nat) : string := nat2str_aux (S n) n "".

(* python  s.replace(" ", "_") *)
Fixpoint spaces2underscore (s : string) : string :=
  match s with
  | EmptyString => EmptyString
  | String c s' => String (if Ascii.eqb c " "%char then "_"%char else c) (spaces2underscore s')
  end.

Definition mem_str (s : string) (l : list string) : bool := existsb (String.eqb s) l.
Definition memZ (z : Z) (l : list Z) : bool := existsb (Z.eqb z) l.

(* ------------------------------------------------- results and errors *)
(* the exception classes the readers can raise on the inputs we model *)
Inductive err := EValue | EIndex | EOther.
Inductive result (A : Type) := Ok (a : A) | Err (e : err).
Arguments Ok {A} _. Arguments Err {A} _.

Definition bind {A B} (r : result A) (f : A -> result B) : result B :=
  match r with Ok a => f a | Err e => Err e end.

Fixpoint mapM {A B} (f : A -> result B) (l : list A) : result (list B) :=
  match l with
  | [] => Ok []
  | a :: l' => bind (f a) (fun b => bind (mapM f l') (fun bs => Ok (b :: bs)))
  end.

(* python list indexing with negative indices *)
Definition py_index {A} (l : list A) (k : Z) : option A :=
  let n := Z.of_nat (List.length l) in
  if (0 <=? k)%Z && (k <? n)%Z then nth_error l (Z.to_nat k)
  else if (k <? 0)%Z && (- n <=? k)%Z then nth_error l (Z.to_nat (n + k))
  else None.

(* insertion-ordered dict as association list: d[k] = v *)
Fixpoint aset {V} (k : string) (v : V) (d : list (string * V)) : list (string * V) :=
  match d with
  | [] => [(k, v)]
  | (k', v') :: d' => if String.eqb k k' then (k, v) :: d' else (k', v') :: aset k v d'
  end.
Definition aget {V} (k : string) (d : list (string * V)) : option V :=
  match find (fun p => String.eqb k (fst p)) d with Some p => Some (snd p) | None => None end.

(* dict keyed by Z kept sorted by key (OrderedDict(sorted(d.items()))) *)
Fixpoint zset {V} (k : Z) (v : V) (d : list (Z * V)) : list (Z * V) :=
  match d with
  | [] => [(k, v)]
  | (k', v') :: d' => if (k =? k')%Z then (k, v) :: d'
                      else if (k <? k')%Z then (k, v) :: (k', v') :: d'
                      else (k', v') :: zset k v d'
  end.
Definition zget {V} (k : Z) (d : list (Z * V)) : option V :=
  match find (fun p => (k =? fst p)%Z) d with Some p => Some (snd p) | None => None end.
Definition zdel {V} (k : Z) (d : list (Z * V)) : list (Z * V) :=
  filter (fun p => negb (k =? fst p)%Z) d.

(* np.unique on integers: sorted, duplicates removed *)
Fixpoint zinsert (k : Z) (l : list Z) : list Z :=
  match l with
  | [] => [k]
  | k' :: l' => if (k =? k')%Z then l else if (k <? k')%Z then k :: l else k' :: zinsert k l'
  end.
Definition zunique (l : list Z) : list Z := fold_right zinsert [] l.

Section Common.
Context {T : Type} (O : Ops T).

(* a number as it stands in a data row / dataset: written as a decimal
   fraction or as an integer.  np.loadtxt reads both as float64. *)
Inductive num := NF (x : T) | NI (z : Z).
Definition nval (n : num) : T := match n with NF x => x | NI z => o_ofZ O z end.
(* the integer columns (phase ids) are always rendered as integers; astype(int)
   truncation of a fractional value is NOT modelled (mapped to 0) *)
Definition nint (n : num) : Z := match n with NI z => z | NF _ => 0%Z end.

Definition deg2rad (x : T) : T := o_mul O x (o_div O (o_pi O) (o_ofZ O 180)).
Definition eu_deg2rad (e : T * T * T) : T * T * T :=
  let '(a, b, c) := e in (deg2rad a, deg2rad b, deg2rad c).

Fixpoint lmin (d : T) (l : list T) : T :=
  match l with
  | [] => d
  | x :: l' => lmin (if o_ltb O x d then x else d) l'
  end.
Definition list_min (l : list T) : T := match l with [] => o_ofZ O 0 | x :: l' => lmin x l' end.

(* ------------------------------------------------------------ phases *)
Record phase := mkPhase {
  ph_name : string;
  ph_sg : option Z;            (* space group number *)
  ph_pg : option string;       (* name of Phase.point_group *)
  ph_lat : list T              (* a b c alpha beta gamma *)
}.

Definition default_lat : list T :=
  [o_ofZ O 1; o_ofZ O 1; o_ofZ O 1; o_ofZ O 90; o_ofZ O 90; o_ofZ O 90].
Definition default_phase : phase := mkPhase "" None None default_lat.
Definition not_indexed_phase : phase := mkPhase "not_indexed" None None default_lat.

(* Phase.point_group setter on a string: alias table, then lookup by name *)
Definition unalias (s : string) : string :=
  match find (fun p => mem_str s (snd p)) point_group_aliases with
  | Some p => fst p
  | None => s
  end.
Definition resolve_pg (s : string) : option string :=
  let v := unalias s in if mem_str v group_names then Some v else None.

(* get_point_group(n).name -- the International Tables ranges (diffpy) *)
Definition sg_pg (n : Z) : string :=
  if (n <=? 1)%Z then "1" else if (n <=? 2)%Z then "-1" else if (n <=? 5)%Z then "2"
  else if (n <=? 9)%Z then "m" else if (n <=? 15)%Z then "2/m" else if (n <=? 24)%Z then "222"
  else if (n <=? 46)%Z then "mm2" else if (n <=? 74)%Z then "mmm" else if (n <=? 80)%Z then "4"
  else if (n <=? 82)%Z then "-4" else if (n <=? 88)%Z then "4/m" else if (n <=? 98)%Z then "422"
  else if (n <=? 110)%Z then "4mm" else if (n <=? 122)%Z then "-42m" else if (n <=? 142)%Z then "4/mmm"
  else if (n <=? 146)%Z then "3" else if (n <=? 148)%Z then "-3" else if (n <=? 155)%Z then "32"
  else if (n <=? 161)%Z then "3m" else if (n <=? 167)%Z then "-3m" else if (n <=? 173)%Z then "6"
  else if (n <=? 174)%Z then "-6" else if (n <=? 176)%Z then "6/m" else if (n <=? 182)%Z then "622"
  else if (n <=? 186)%Z then "6mm" else if (n <=? 190)%Z then "-6m2" else if (n <=? 194)%Z then "6/mmm"
  else if (n <=? 199)%Z then "23" else if (n <=? 206)%Z then "m-3" else if (n <=? 214)%Z then "432"
  else if (n <=? 220)%Z then "-43m" else "m-3m".
Definition sg_valid (n : Z) : bool := (1 <=? n)%Z && (n <=? 230)%Z.

(* Phase(name=, space_group=, point_group=, structure=Structure(lattice)) :
   the space group is set first; a point group given as a string must resolve
   to a group name (else ValueError); when both are given and the point group
   of the space group has another name, the space group is set to None (with a
   warning) and the given point group is kept. *)
Definition mk_phase (name : string) (sg : option Z) (pg : option string) (lat : list T) : result phase :=
  match sg with
  | Some n => if sg_valid n then
      match pg with
      | None => Ok (mkPhase name (Some n) (Some (sg_pg n)) lat)
      | Some s => match resolve_pg s with
                  | None => Err EValue
                  | Some v => if String.eqb (sg_pg n) v then Ok (mkPhase name (Some n) (Some v) lat)
                              else Ok (mkPhase name None (Some v) lat)
                  end
      end
    else Err EValue
  | None =>
      match pg with
      | None => Ok (mkPhase name None None lat)
      | Some s => match resolve_pg s with
                  | None => Err EValue
                  | Some v => Ok (mkPhase name None (Some v) lat)
                  end
      end
  end.

Definition zmax (l : list Z) : Z := match l with [] => 0%Z | k :: r => fold_right Z.max k r end.

(* PhaseList(ids=, names=, space_groups=, point_groups=, structures=) : one
   entry per index up to the longest list; missing entries are None (an entry
   of `point_groups` may itself be None); a missing id is max(ids) + k.  The
   dict is sorted by id (a repeated id overwrites). *)
Fixpoint phaselist_loop (n : nat) (i : nat) (iter : Z) (ids : list Z) (names : list string)
    (sgs : list (option Z)) (pgs : list (option string)) (lats : list (list T))
    (acc : list (Z * phase)) : result (list (Z * phase)) :=
  match n with
  | 0%nat => Ok acc
  | S n' =>
      let name := nth i names "" in
      let sg := nth i sgs None in
      let pg := nth i pgs None in
      let lat := nth i lats default_lat in
      let '(id, iter') := match nth_error ids i with
                          | Some k => (k, iter)
                          | None => ((zmax ids + iter + 1)%Z, (iter + 1)%Z)
                          end in
      bind (mk_phase name sg pg lat) (fun p =>
        phaselist_loop n' (S i) iter' ids names sgs pgs lats (zset id p acc))
  end.
Definition phaselist (ids : list Z) (names : list string) (sgs : list (option Z))
    (pgs : list (option string)) (lats : list (list T)) : result (list (Z * phase)) :=
  let n := fold_right Nat.max 0%nat [List.length ids; List.length names; List.length sgs; List.length pgs; List.length lats] in
  phaselist_loop n 0 0%Z ids names sgs pgs lats [].

(* ------------------------------------------- CrystalMap.__init__ phases *)
(* "remove the phases whose ID is not in the ID array, in descending list
   order", stopping as soon as the number of removed phases reaches n *)
Fixpoint del_loop (ks : list Z) (n : nat) (pl : list (Z * phase)) (uniq : list Z) : list (Z * phase) :=
  match ks with
  | [] => pl
  | i :: ks' =>
      let '(pl', n') := if memZ i uniq then (pl, n) else (zdel i pl, Nat.pred n) in
      if Nat.eqb n' 0 then pl' else del_loop ks' n' pl' uniq
  end.

Definition reconcile (pl : list (Z * phase)) (pids : list Z) : list (Z * phase) :=
  let uniq0 := zunique pids in
  let incl_ni := match uniq0 with k :: _ => (k =? -1)%Z | [] => false end in
  let uniq := if incl_ni then tl uniq0 else uniq0 in
  let ids := map fst pl in
  let nl := List.length ids in
  let nu := List.length uniq in
  let pl1 :=
    if Nat.ltb nu nl then del_loop (rev ids) (nl - nu) pl uniq
    else if Nat.ltb nl nu then
      map (fun i => match zget i pl with Some p => (i, p) | None => (i, default_phase) end) uniq
    else pl in
  let pl2 := combine uniq (map snd pl1) in
  if incl_ni then zset (-1)%Z not_indexed_phase pl2 else pl2.

(* -------------------------------------------------------- loaded map *)
Record xmap := mkMap {
  xm_rw : nat;                          (* rotations per point *)
  xm_eu : list (T * T * T);             (* Bunge angles in RADIANS handed to Rotation.from_euler (lab2crystal) *)
  xm_x : list T;
  xm_y : list T;
  xm_pid : list Z;
  xm_props : list (string * (nat * list T));   (* name -> (values per point, flat values) *)
  xm_unit : string;
  xm_phases : list (Z * phase);
  xm_warn : bool                        (* the "Number of columns ..." warning was issued *)
}.

(* CrystalMap(rotations, phase_id, x, y, phase_list, prop, scan_unit) as far as
   the observed fields go *)
Definition crystal_map (rw : nat) (eu : list (T * T * T)) (x y : list T) (pid : list Z)
    (props : list (string * (nat * list T))) (unit : string) (pl : list (Z * phase)) (warn : bool) : xmap :=
  mkMap rw eu x y pid props unit (reconcile pl pid) warn.

(* column k of a table of rows *)
Definition col (k : nat) (rows : list (list num)) : list num := map (fun r => nth k r (NI 0)) rows.
Definition ncols_of (rows : list (list num)) : nat := match rows with r :: _ => List.length r | [] => 0 end.

Fixpoint zip3 (a b c : list T) : list (T * T * T) :=
  match a, b, c with
  | x :: a', y :: b', z :: c' => (x, y, z) :: zip3 a' b' c'
  | _, _, _ => []
  end.

End Common.

Arguments NF {T} _. Arguments NI {T} _.
Arguments mkPhase {T} _ _ _ _.
Arguments mkMap {T} _ _ _ _ _ _ _ _ _.

(* ----------------------------------------------- reader selection (io.load) *)
(* plugins whose file_extensions contain the (lower-cased) extension; with more
   than one candidate and an HDF5 file, the LAST candidate whose `manufacturer`
   is a substring of the file's top-level Manufacturer dataset; else the first *)
Definition select_plugin (ext : string) (is_hdf5 : bool) (manufacturer : option string) : option string :=
  let readers := filter (fun p => mem_str ext (snd p)) io_plugins in
  match readers with
  | [] => None
  | r :: rest =>
      if (negb (Nat.eqb (List.length rest) 0)) && is_hdf5 then
        match manufacturer with
        | None => None
        | Some m =>
            fold_left (fun acc p => match snd (fst p) with
                                    | Some pm => if contains pm m then Some (fst (fst p)) else acc
                                    | None => acc end) readers None
        end
      else Some (fst (fst r))
  end.
