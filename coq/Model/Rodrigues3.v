(* C01: the three-component Rodrigues vector, the one public conversion that does not go
   through a kernel of _conversions.py (hand-written model; tie: correspondence, cases of
   tools/props/C01.py).

   orix/quaternion/quaternion.py
     Quaternion.axis          stack(b, c, d); negated where a < -1e-6; (0, 0, sign a) where the
                              norm is 0; divided by the norm
     Quaternion.angle         2 * nan_to_num(arccos(|a|))
     Quaternion.to_rodrigues  (frank=False)  Q = self.unit;  Q.axis * tan(self.angle / 2)
     Quaternion.from_rodrigues (angles=None) angles = 2 arctan |ro|;
                              from_axes_angles(ro, angles) = unit(ax2qu(unit(ro), angles)); .unit
   orix/vector/vector3d.py    Vector3d.unit = nan_to_num(data / norm)

   ax2qu is the kernel GENERATED from the source (Gen/Conversions.v). *)
From Coq Require Import ZArith List Bool.
From Verif Require Import Scalar Quat.
From Verif.Gen Require Import Conversions.

Section Rodrigues3.
Context {T : Type} (O : Ops T).
Local Notation quat := (quat (T:=T)).
Local Notation vec3 := (vec3 (T:=T)).

Definition c0 : T := o_ofZ O 0.
Definition c1 : T := o_ofZ O 1.
Definition c2 : T := o_ofZ O 2.

Definition vnorm3 (v : vec3) : T :=
  let '(x, y, z) := v in o_sqrt O (o_add O (o_add O (o_mul O x x) (o_mul O y y)) (o_mul O z z)).

(* Vector3d.unit: 0 / 0 = nan becomes 0 *)
Definition vunit0 (v : vec3) : vec3 :=
  let '(x, y, z) := v in let n := vnorm3 v in
  if o_eqb O n c0 then (c0, c0, c0) else (o_div O x n, o_div O y n, o_div O z n).

(* Quaternion.axis *)
Definition q_axis (q : quat) : vec3 :=
  let '(a, b, c, d) := q in
  let v := if o_ltb O a (o_ofQ O (-1) 1000000) then (o_opp O b, o_opp O c, o_opp O d) else (b, c, d) in
  let n := vnorm3 v in
  if o_eqb O n c0
  then (c0, c0, if o_ltb O c0 a then c1 else if o_ltb O a c0 then o_opp O c1 else c0)
  else let '(x, y, z) := v in (o_div O x n, o_div O y n, o_div O z n).

(* Quaternion.angle *)
Definition q_angle (q : quat) : T :=
  let '(a, _, _, _) := q in
  if o_ltb O c1 (o_abs O a) then c0 else o_mul O c2 (o_acos O (o_abs O a)).

(* to_rodrigues(): the axis of the NORMALISED quaternion [qn] times tan(angle / 2) of the
   quaternion as given [q0] *)
Definition to_ro3 (q0 qn : quat) : vec3 :=
  let '(x, y, z) := q_axis qn in
  let t := o_tan O (o_div O (q_angle q0) c2) in
  (o_mul O x t, o_mul O y t, o_mul O z t).

Definition qunit (p : quat) : quat :=
  let '(a, b, c, d) := p in
  let n := o_sqrt O (o_add O (o_add O (o_add O (o_mul O a a) (o_mul O b b)) (o_mul O c c)) (o_mul O d d)) in
  (o_div O a n, o_div O b n, o_div O c n, o_div O d n).

(* from_rodrigues(ro) without angles *)
Definition from_ro3 (ro : vec3) : quat :=
  let w := o_mul O c2 (o_atan O (vnorm3 ro)) in
  let '(x, y, z) := vunit0 ro in
  qunit (qunit (ax2qu O (x, y, z, w))).

End Rodrigues3.
