(* C04 / C18: Orientation.dot_outer -- the axis layout.
   orix/quaternion/orientation.py, Orientation.dot_outer:
     symmetry = _get_unique_symmetry_elements(other.symmetry, self.symmetry)
     M = other.outer(~self)                               shape other.shape ++ self.shape
     highest = max over symmetry of |M . s|               (SymDot.code_dot per pair)
     order = tuple(range(other.ndim, other.ndim + self.ndim)) + tuple(range(other.ndim))
     return highest.transpose(order...)                    shape self.shape ++ other.shape
   Hand-written model; tie: correspondence (cases Couter of tools/props/C04.py). *)
From Coq Require Import ZArith List Bool.
From Verif Require Import Scalar Quat NdIndex NdTranspose SymDot.
Import ListNotations.

Section DotOuter.
Context {T : Type} (O : Ops T).
Local Notation quat := (quat (T:=T)).
Local Notation rot := (rot (T:=T)).

Definition dot_outer_model (U : list rot) (A B : list quat) (sa sb : list nat) : list nat * list T :=
  let inner := outer (fun b a => code_dot O U a b) B A in      (* shape sb ++ sa *)
  transpose_nd (o_ofZ O 0) (perm_swap (length sa) (length sb)) (sb ++ sa) inner.

(* the result has shape self.shape ++ other.shape and its element (i ++ j) is the
   symmetry-reduced dot product of self[i] and other[j]: for all shapes, also of different
   numbers of dimensions (before the repair 16d001b the order was right only for equal ndim) *)
Theorem dot_outer_layout (U : list rot) (A B : list quat) (sa sb i j : list nat) (dq : quat) :
  length A = size sa -> length B = size sb -> valid sa i -> valid sb j ->
  let '(s, l) := dot_outer_model U A B sa sb in
  s = sa ++ sb /\
  nth (ravel (sa ++ sb) (i ++ j)) l (o_ofZ O 0) = code_dot O U (nth (ravel sa i) A dq) (nth (ravel sb j) B dq).
Proof.
  intros HA HB Hi Hj. unfold dot_outer_model.
  pose proof (transpose_swap_spec (o_ofZ O 0) sa sb (outer (fun b a => code_dot O U a b) B A) i j Hi Hj) as H.
  destruct (transpose_nd (o_ofZ O 0) (perm_swap (length sa) (length sb)) (sb ++ sa)
              (outer (fun b a => code_dot O U a b) B A)) as [s l].
  destruct H as [Hs Hn]. split; [exact Hs|]. rewrite Hn.
  destruct (outer_shaped (fun b a => code_dot O U a b) sb sa B A j i dq dq (o_ofZ O 0) HB HA Hj Hi) as [E _].
  exact E.
Qed.

End DotOuter.
