(* C19 -- executable model of orix.sampling:
     orix/sampling/SO3_sampling.py        _resolution_to_num_steps, _euler_angles_haar_measure,
                                          _three_uniform_samples_method (with and without max_angle)
     orix/sampling/_cubochoric_sampling.py resolution_to_semi_edge_steps, _cubochoric_sampling_loop
     orix/sampling/sample_generators.py   get_sample_fundamental, get_sample_local,
                                          _remove_larger_than_angle, get_sample_reduced_fundamental
     orix/sampling/S2_sampling.py         uv, equal-area, cube (3 grid types), hexagonal, icosahedral meshes
     orix/sampling/_polyhedral_sampling.py edge grids, _compose_from_faces
     orix/quaternion/orientation_region.py OrientationRegion.__gt__
     orix/vector/spherical_region.py      SphericalRegion.__ge__
   The scalar kernels are NOT re-modelled: the grids call the definitions GENERATED from
   the source (Gen/Conversions.v: cu2ro_single, ro2ax_single, ax2qu_single, eu2qu_single;
   Gen/C20Stereo.v: from_polar, v_polar, v_azimuth, region_ge_k) and Rotation.unique is the
   model of C17 (Model/C17Unique.v: rotation_unique).
   Everything is generic in [Ops T]: theorems on ROps, evaluation on FOps.
   Definitions only, no proofs. *)
From Coq Require Import ZArith QArith Qround List Bool.
From Verif Require Import Scalar QuatKernels Conversions Quat C17Differentiators C17Unique.
From Verif.Gen Require Import C20Stereo.
Import ListNotations.

(* ===================================================== step counts (exact, Q) *)
(* np.round: nearest integer, ties to even *)
Definition round_half_even (q : Q) : Z :=
  let f := Qfloor q in
  match Qcompare (q - inject_Z f) (1 # 2) with
  | Lt => f
  | Gt => (f + 1)%Z
  | Eq => if Z.even f then f else (f + 1)%Z
  end.

(* _resolution_to_num_steps(resolution, even_only, odd_only) *)
Definition resolution_to_num_steps (res : Q) (even_only odd_only : bool) : Z :=
  let n := Qceiling (360 / res) in
  let m := (n mod 2)%Z in
  if (even_only && (m =? 1)%Z) || (odd_only && (m =? 0)%Z) then (n + 1)%Z else n.

(* resolution_to_semi_edge_steps: int(np.round(131.97049 / (resolution - 0.03732))) *)
Definition resolution_to_semi_edge_steps (res : Q) : Z :=
  round_half_even ((13197049 # 100000) / (res - (3732 # 100000))).

(* _sample_S2_uv_mesh_coordinates, hemisphere="both": (steps_azimuth, steps_polar) *)
Definition uv_steps (res : Q) : Z * Z :=
  (Qceiling (360 / res), (Qceiling (180 / res) + 1)%Z).

(* _sample_S2_equal_area_coordinates, hemisphere="both": (azimuth_num, polar_num);
   azimuth_range / (pi/2) * steps = 4 * steps, polar_range * steps = 2 * steps *)
Definition equal_area_steps (res : Q) : Z * Z :=
  let steps := Qceiling (90 / res) in ((4 * steps)%Z, (2 * steps + 1)%Z).

(* default S2 method of get_sample_reduced_fundamental by crystal system
   0 triclinic 1 monoclinic 2 orthorhombic 3 tetragonal 4 cubic 5 trigonal 6 hexagonal
   -> 0 icosahedral, 1 spherified_cube_edge, 2 hexagonal *)
Definition default_s2_method (system : Z) : Z :=
  if ((system =? 0) || (system =? 1))%Z then 0%Z
  else if ((system =? 5) || (system =? 6))%Z then 2%Z else 1%Z.

Definition zrange (lo hi : Z) : list Z :=
  map (fun k => (lo + Z.of_nat k)%Z) (seq 0 (Z.to_nat (hi - lo))).

Section Sampling.
Context {T : Type} (O : Ops T).

Definition quatT : Type := (T * T * T * T)%type.
Definition vecT : Type := (T * T * T)%type.

Definition ofN (n : nat) : T := o_ofZ O (Z.of_nat n).
Definition c0 : T := o_ofZ O 0.
Definition c1 : T := o_ofZ O 1.
Definition c2 : T := o_ofZ O 2.
Definition twopi : T := o_mul O c2 (o_pi O).
(* np.deg2rad(x) = x * (pi / 180) *)
Definition deg2rad (x : T) : T := o_mul O x (o_div O (o_pi O) (o_ofZ O 180)).
Definition eps9 : T := o_ofQ O 1 1000000000.

(* the step-count formulas that go through tan / arctan cannot be computed in Q;
   they are modelled RELATIONALLY:  n = int(np.ceil(x))  iff  n - 1 < x <= n
   (tol = 0 in the theorems; the correspondence uses tol = 1e-9 so that a value of x
   that is an integer up to rounding is accepted with either neighbour) *)
Definition is_ceil (tol x : T) (n : Z) : bool :=
  o_ltb O (o_sub O (o_ofZ O (n - 1)) tol) x && o_leb O x (o_add O (o_ofZ O n) tol).
(* n = int(x) for x >= 0 *)
Definition is_floor (tol x : T) (n : Z) : bool :=
  o_leb O (o_sub O (o_ofZ O n) tol) x && o_ltb O x (o_add O (o_ofZ O (n + 1)) tol).

(* np.linspace(start, stop, num, endpoint): y_i = i * step + start, step =
   (stop - start) / div, div = num - 1 or num (div = 0, i.e. one point with
   endpoint: y_i = i * (stop - start) + start); with endpoint and num > 1 the last
   entry is set to stop *)
Definition linspace (start stop : T) (num : nat) (endpoint : bool) : list T :=
  let div := if endpoint then (num - 1)%nat else num in
  let step := if (div =? 0)%nat then o_sub O stop start
              else o_div O (o_sub O stop start) (ofN div) in
  let ys := map (fun i => o_add O (o_mul O (ofN i) step) start) (seq 0 num) in
  if endpoint && (1 <? num)%nat then removelast ys ++ [stop] else ys.

(* ============================================================ SO(3) grids *)
(* _euler_angles_haar_measure: np.array(np.meshgrid(alpha, beta, gamma)).T.reshape(-1, 3)
   runs gamma slowest, then alpha, beta fastest;
   beta = arccos(linspace(1, -1, num=half_steps + 1, endpoint=True)): both poles
   Phi = 0 and Phi = pi are rows of the grid *)
Definition haar_euler_beta (n : nat) : list T :=
  map (o_acos O) (linspace c1 (o_ofZ O (-1)) (S (Nat.div2 n)) true).

Definition haar_euler_angles (n : nat) : list vecT :=
  let alpha := linspace c0 twopi n false in
  let beta := haar_euler_beta n in
  flat_map (fun g => flat_map (fun a => map (fun b => (a, b, g)) beta) alpha) alpha.

Definition haar_euler_grid (n : nat) : list quatT := map (eu2qu O) (haar_euler_angles n).

(* _three_uniform_samples_method: meshgrid(u_1, u_2, u_3) flattened runs u_2 slowest,
   then u_1, u_3 fastest *)
Definition three_uniform_point (u1 u2 u3 : T) : quatT :=
  let a := o_sqrt O (o_sub O c1 u1) in
  let b := o_sqrt O u1 in
  let s2 := o_sin O (o_mul O twopi u2) in let cc2 := o_cos O (o_mul O twopi u2) in
  let s3 := o_sin O (o_mul O twopi u3) in let cc3 := o_cos O (o_mul O twopi u3) in
  (o_mul O a s2, o_mul O a cc2, o_mul O b s3, o_mul O b cc3).

Definition three_uniform_mesh (u_1 u_2 u_3 : list T) : list quatT :=
  flat_map (fun u2 => flat_map (fun u1 => map (fun u3 => three_uniform_point u1 u2 u3) u_3) u_1) u_2.

Definition three_uniform_grid (n : nat) : list quatT :=
  three_uniform_mesh (linspace c0 c1 n true) (linspace c0 c1 n false) (linspace c0 c1 n false).

(* np.arcsin through the operations of the interface *)
Definition o_asin (x : T) : T := o_atan2 O x (o_sqrt O (o_sub O c1 (o_mul O x x))).

(* the max_angle variant used by get_sample_local(method="quaternion") *)
Definition e_1_min (max_angle : T) : T := o_cos O (deg2rad (o_div O max_angle c2)).
Definition u_1_max (max_angle : T) : T := o_sub O c1 (o_powN O (e_1_min max_angle) 2).
Definition u_2_min (max_angle : T) : T :=
  o_div O (o_div O (o_asin (e_1_min max_angle)) c2) (o_pi O).
(* num_1 = int(num_steps * u_1_max + 0.5), num_2 = int(num_steps * (1 - u_2_min) + 0.5) *)
Definition num_1_arg (n : nat) (max_angle : T) : T :=
  o_add O (o_mul O (ofN n) (u_1_max max_angle)) (o_ofQ O 1 2).
Definition num_2_arg (n : nat) (max_angle : T) : T :=
  o_add O (o_mul O (ofN n) (o_sub O c1 (u_2_min max_angle))) (o_ofQ O 1 2).
Definition three_uniform_local_grid (n num1 num2 : nat) (max_angle : T) : list quatT :=
  three_uniform_mesh (linspace c0 (u_1_max max_angle) num1 true)
                     (linspace (u_2_min max_angle) c1 num2 true)
                     (linspace c0 c1 n false).

(* _cubochoric_sampling_loop *)
Definition semi_edge_length : T := o_mul O (o_ofQ O 1 2) (o_rpow O (o_pi O) 2 3).

Definition cubo_point (x y z : T) : quatT :=
  let '(r0, r1, r2, r3) := cu2ro_single O x y z in
  let '(a0, a1, a2, a3) := ro2ax_single O r0 r1 r2 r3 in
  ax2qu_single O a0 a1 a2 a3.

Definition max_abs3 (x y z : T) : T := o_max O (o_max O (o_abs O x) (o_abs O y)) (o_abs O z).

(* guard of the loop:  np.max(np.abs(xyz)) > semi_edge_length + 1e-8  *)
Definition cubo_cell (step : T) (i j k : Z) : list quatT :=
  let x := o_mul O (o_ofZ O i) step in
  let y := o_mul O (o_ofZ O j) step in
  let z := o_mul O (o_ofZ O k) step in
  if o_ltb O (o_add O semi_edge_length (o_ofQ O 1 100000000)) (max_abs3 x y z)
  then [] else [cubo_point x y z].

(* the three nested loops for a given step_size *)
Definition cubochoric_loop (step : T) (N : Z) : list quatT :=
  let idx := zrange (- N + 1) (N + 1) in
  flat_map (fun i => flat_map (fun j => flat_map (fun k => cubo_cell step i j k) idx) idx) idx.

Definition cubochoric_grid (N : Z) : list quatT :=
  cubochoric_loop (o_div O semi_edge_length (o_ofZ O N)) N.

(* ======================================================= regions and filters *)
(* OrientationRegion.__gt__ (called for  rot < region):
     c = normals.dot_outer(rot);  all(c >= -eps9) or all(c <= eps9)  *)
Definition in_region (normals : list quatT) (q : quatT) : bool :=
  forallb (fun n => o_leb O (o_opp O eps9) (qdot O n q)) normals
  || forallb (fun n => o_leb O (qdot O n q) eps9) normals.

Definition mk_rot (q : quatT) : rot (T:=T) := (q, false).

(* Rotation.unique() with the default antipodal=True, on proper rotations *)
Definition unique_rot (rnd12 : T -> T) (qs : list quatT) : list quatT :=
  map fst (fst (fst (rotation_unique O (fun x => x) rnd12 true (map mk_rot qs)))).

(* get_sample_fundamental, after the grid:  rot = rot[rot < region]; rot = rot.unique() *)
Definition sample_fundamental_on (rnd12 : T -> T) (normals grid : list quatT) : list quatT :=
  unique_rot rnd12 (filter (in_region normals) grid).

(* _remove_larger_than_angle: arccos(rot.a) < deg2rad(max_angle / 2) *)
Definition within_angle (max_angle : T) (q : quatT) : bool :=
  let '(a, _, _, _) := q in o_ltb O (o_acos O a) (deg2rad (o_div O max_angle c2)).

(* get_sample_local, after the grid: filter, unique, optional  center * rot *)
Definition sample_local_on (rnd12 : T -> T) (max_angle : T) (center : option quatT)
           (grid : list quatT) : list quatT :=
  let u := unique_rot rnd12 (filter (within_angle max_angle) grid) in
  match center with
  | None => u
  | Some c => map (qmul O c) u
  end.

(* method: 0 cubochoric (step count = semi edge steps), 1 haar_euler, 2 quaternion *)
Definition so3_grid (method : Z) (n : Z) : list quatT :=
  if (method =? 1)%Z then haar_euler_grid (Z.to_nat n)
  else if (method =? 2)%Z then three_uniform_grid (Z.to_nat n)
  else cubochoric_grid n.

Definition get_sample_fundamental (rnd12 : T -> T) (method n : Z) (normals : list quatT) : list quatT :=
  sample_fundamental_on rnd12 normals (so3_grid method n).

(* ================================================================ S2 meshes *)
(* Object3d.unit = nan_to_num(data / norm) *)
Definition vnorm19 (v : vecT) : T :=
  let '(x, y, z) := v in
  o_sqrt O (o_add O (o_add O (o_powN O x 2) (o_powN O y 2)) (o_powN O z 2)).
Definition vunit19 (v : vecT) : vecT :=
  let '(x, y, z) := v in
  let n := vnorm19 v in
  if o_eqb O n c0 then (c0, c0, c0) else (o_div O x n, o_div O y n, o_div O z n).

Definition from_polar1 (ap : T * T) : vecT := from_polar O false (fst ap) (snd ap) c1.

(* np.isclose(x, c) with the default rtol = 1e-5, atol = 1e-8 *)
Definition isclose (x c : T) : bool :=
  o_leb O (o_abs O (o_sub O x c))
        (o_add O (o_ofQ O 1 100000000) (o_mul O (o_ofQ O 1 100000) (o_abs O c))).

(* _remove_pole_duplicates: drop (azimuth > 0) at polar ~ 0 and polar ~ pi *)
Definition keep_pole (ap : T * T) : bool :=
  let '(a, p) := ap in
  negb ((isclose p c0 && o_ltb O c0 a) || (isclose p (o_pi O) && o_ltb O c0 a)).

(* np.meshgrid(azimuth, polar): polar slowest, azimuth fastest *)
Definition polar_mesh (azimuth polar : list T) : list (T * T) :=
  flat_map (fun p => map (fun a => (a, p)) azimuth) polar.

Definition polar_vectors (azimuth polar : list T) : list vecT :=
  map (fun ap => vunit19 (from_polar1 ap)) (filter keep_pole (polar_mesh azimuth polar)).

(* sample_S2_uv_mesh(resolution): hemisphere "both", offset 0 *)
Definition uv_azimuth (na : nat) : list T := linspace c0 twopi na false.
Definition uv_polar (np : nat) : list T :=
  let pmax := deg2rad (o_ofZ O 180) in
  filter (fun p => o_leb O p pmax) (linspace (deg2rad c0) pmax np true).
Definition uv_mesh (na np : nat) : list vecT := polar_vectors (uv_azimuth na) (uv_polar np).

(* sample_S2_equal_area_mesh(resolution): hemisphere "both" *)
Definition equal_area_polar (np : nat) : list T :=
  map (o_acos O) (linspace c1 (o_ofZ O (-1)) np true).
Definition equal_area_mesh (na np : nat) : list vecT :=
  polar_vectors (linspace c0 twopi na false) (equal_area_polar np).

(* _polyhedral_sampling edge grids; np.arange(-n, n) * spacing *)
Definition edge_normalized (n : Z) : list T :=
  map (fun i => o_mul O (o_ofZ O i) (o_div O c1 (o_ofZ O n))) (zrange (- n) n).
Definition edge_equiangular (len : T) (n : Z) : list T :=
  let inc := o_div O (o_atan O len) (o_ofZ O n) in
  map (fun i => o_tan O (o_mul O (o_ofZ O i) inc)) (zrange (- n) n).
Definition edge_spherified_edge (n : Z) : list T := edge_equiangular c1 n.
Definition edge_spherified_corner (n : Z) : list T :=
  map (fun t => o_div O t (o_sqrt O c2)) (edge_equiangular (o_sqrt O c2) n).
(* arguments of np.ceil in _number_of_equidistant_steps / _number_of_equiangular_steps *)
Definition cube_steps_arg (grid_type : Z) (res : T) : T :=
  if (grid_type =? 0)%Z then o_div O c1 (o_tan O (deg2rad res))
  else if (grid_type =? 1)%Z then o_div O (o_atan O c1) (deg2rad res)
  else o_div O (o_atan O (o_sqrt O c2)) (deg2rad res).
Definition cube_edge (grid_type : Z) (n : Z) : list T :=
  if (grid_type =? 0)%Z then edge_normalized n
  else if (grid_type =? 1)%Z then edge_spherified_edge n else edge_spherified_corner n.

(* sample_S2_cube_mesh: x, y = meshgrid(g, g) ravelled (y slowest), six faces, two corners *)
Definition cube_points (g : list T) : list vecT :=
  let xy := flat_map (fun y => map (fun x => (x, y)) g) g in
  let m1 := o_ofZ O (-1) in
  let ng := o_opp O in
  map (fun p => (ng (fst p), ng (snd p), ng c1)) xy
  ++ map (fun p => (fst p, snd p, c1)) xy
  ++ map (fun p => (c1, fst p, ng (snd p))) xy
  ++ map (fun p => (ng c1, ng (fst p), snd p)) xy
  ++ map (fun p => (fst p, ng c1, snd p)) xy
  ++ map (fun p => (ng (fst p), c1, ng (snd p))) xy
  ++ [(m1, c1, c1); (c1, m1, m1)].
Definition cube_mesh (grid_type n : Z) : list vecT := map vunit19 (cube_points (cube_edge grid_type n)).

(* sample_S2_hexagonal_mesh *)
Definition hex_steps_arg (res : T) : T := o_div O c2 (o_tan O (deg2rad res)).
Definition hex_edge : T := o_div O c2 (o_sqrt O (o_ofZ O 3)).
Definition hex_face (n : Z) : list vecT :=
  let g := map (fun i => o_mul O (o_ofZ O i) (o_div O c1 (o_ofZ O n))) (zrange 0 (n + 1)) in
  let uv := flat_map (fun v => map (fun u => (u, v)) (tl g)) g in
  let pts := map (fun p =>
      let x := o_add O (o_mul O hex_edge (fst p)) (o_mul O (o_div O hex_edge c2) (snd p)) in
      let y := snd p in
      let z := o_add O (o_sub O (o_mul O (o_div O (o_ofZ O (-1)) hex_edge) x)
                                (o_mul O (o_ofQ O 1 2) y)) c1 in
      (x, y, z)) uv in
  filter (fun p => o_ltb O (o_ofQ O (-1) 10000000) (snd p)) pts.
Definition rotz (r : T) (p : vecT) : vecT :=
  let '(x, y, z) := p in
  (o_sub O (o_mul O (o_cos O r) x) (o_mul O (o_sin O r) y),
   o_add O (o_mul O (o_sin O r) x) (o_mul O (o_cos O r) y), z).
Definition hex_points (n : Z) : list vecT :=
  let face := hex_face n in
  let angle := deg2rad (o_ofZ O 60) in
  let top := flat_map (fun i => map (rotz (o_mul O (o_ofZ O i) angle)) face) (zrange 0 6) in
  let bottom := filter (fun p => o_ltb O (snd p) (o_ofQ O (-1) 10000000))
                       (map (fun p => (fst p, o_mul O (snd p) (o_ofZ O (-1)))) top) in
  top ++ [(c0, c0, c1)] ++ bottom ++ [(c0, c0, o_ofZ O (-1))].
Definition hex_mesh (n : Z) : list vecT := map vunit19 (hex_points n).

(* sample_S2_icosahedral_mesh / _compose_from_faces.  The iteration order of the
   python set of edges is an INPUT of the model (the harness rebuilds the set with
   the statement of the source). *)
Definition golden : T := o_div O (o_add O c1 (o_sqrt O (o_ofZ O 5))) c2.
Definition ico_corners : list vecT :=
  let t := golden in let m := o_opp O in
  [(m c1, t, c0); (c1, t, c0); (m c1, m t, c0); (c1, m t, c0);
   (c0, m c1, t); (c0, c1, t); (c0, m c1, m t); (c0, c1, m t);
   (t, c0, m c1); (t, c0, c1); (m t, c0, m c1); (m t, c0, c1)].
Definition ico_faces : list (nat * nat * nat) :=
  [(0, 11, 5); (0, 5, 1); (0, 1, 7); (0, 7, 10); (0, 10, 11); (1, 5, 9); (5, 11, 4);
   (11, 10, 2); (10, 7, 6); (7, 1, 8); (3, 9, 4); (3, 4, 2); (3, 2, 6); (3, 6, 8);
   (3, 8, 9); (4, 9, 5); (2, 4, 11); (6, 2, 10); (8, 6, 7); (9, 8, 1)]%nat.
Definition vlin3 (a b c : T) (p q r : vecT) : vecT :=
  let '(p0, p1, p2) := p in let '(q0, q1, q2) := q in let '(r0, r1, r2) := r in
  (o_add O (o_add O (o_mul O p0 a) (o_mul O q0 b)) (o_mul O r0 c),
   o_add O (o_add O (o_mul O p1 a) (o_mul O q1 b)) (o_mul O r1 c),
   o_add O (o_add O (o_mul O p2 a) (o_mul O q2 b)) (o_mul O r2 c)).
Definition vlin2 (a b : T) (p q : vecT) : vecT :=
  let '(p0, p1, p2) := p in let '(q0, q1, q2) := q in
  (o_add O (o_mul O a p0) (o_mul O b q0), o_add O (o_mul O a p1) (o_mul O b q1),
   o_add O (o_mul O a p2) (o_mul O b q2)).
Definition zerov : vecT := (c0, c0, c0).
(* a / (r_i * tan(resolution)): a = |corner| / sin(2 pi / 5), r_i = sqrt(3)/12 (3 + sqrt 5) a *)
Definition ico_steps_arg (res : T) : T :=
  let a := o_div O (o_sqrt O (o_add O (o_add O (o_powN O (o_ofZ O (-1)) 2) (o_powN O golden 2)) (o_powN O c0 2)))
                   (o_sin O (o_div O twopi (o_ofZ O 5))) in
  let ri := o_mul O (o_mul O (o_div O (o_sqrt O (o_ofZ O 3)) (o_ofZ O 12))
                           (o_add O (o_ofZ O 3) (o_sqrt O (o_ofZ O 5)))) a in
  o_div O a (o_mul O ri (o_tan O (deg2rad res))).
Definition ico_points (edges : list (nat * nat)) (n : nat) : list vecT :=
  let cs := ico_corners in
  let cn := fun i => nth i cs zerov in
  let nT := ofN n in
  (* t = np.linspace(1 / n, 1.0, n - 1, endpoint=False) *)
  let ts := linspace (o_div O c1 nT) c1 (n - 1) false in
  let edge_nodes := flat_map (fun e => map (fun t => vlin2 (o_sub O c1 t) t (cn (fst e)) (cn (snd e))) ts) edges in
  let bary := flat_map (fun i => map (fun j => (o_div O (ofN i) nT, o_div O (ofN j) nT))
                                      (seq 1 (n - i - 1))) (seq 1 (n - 1)) in
  let face_nodes := flat_map (fun f => let '(f0, f1, f2) := f in
      map (fun b => vlin3 (o_sub O (o_sub O c1 (fst b)) (snd b)) (snd b) (fst b) (cn f0) (cn f1) (cn f2)) bary)
      ico_faces in
  cs ++ edge_nodes ++ face_nodes.
Definition ico_mesh (edges : list (nat * nat)) (n : nat) : list vecT := map vunit19 (ico_points edges n).

(* ================================================= reduced fundamental sample *)
(* v <= sector  ==  SphericalRegion.__ge__:  all(normals.dot_outer(v) > -1e-9) *)
Definition in_sector (normals : list vecT) (v : vecT) : bool :=
  forallb (fun n => let '(n0, n1, n2) := n in let '(x, y, z) := v in region_ge_k O n0 n1 n2 x y z) normals.

(* euler = [0, polar, (pi/2 - azimuth) % (2 pi)] *)
Definition reduced_euler (v : vecT) : vecT :=
  let '(x, y, z) := v in
  (c0, v_polar O x y z, o_fmod O (o_sub O (o_div O (o_pi O) c2) (v_azimuth O x y z)) (o_mul O c2 (o_pi O))).

Definition reduced_on (normals : list vecT) (pts : list vecT) : list quatT :=
  map (fun v => eu2qu O (reduced_euler v)) (filter (in_sector normals) pts).

Definition e3 : vecT := (c0, c0, c1).
End Sampling.
