(* Boolean checks over the regenerated group data (Gen/Groups.v).  Executable
   definitions only; Props/C03.v states them for all groups / all 230 space
   groups and Proofs/GroupFacts.v lifts them to Prop. *)
From Coq Require Import ZArith QArith List String Bool.
From Verif Require Import Scalar KField Quat GroupK ITARef Groups.
Import ListNotations. Open Scope string_scope.

Definition group_ok (g : gobs) : bool :=
  kis_group (g_elems g) && Z.eqb (g_order g) (Z.of_nat (List.length (g_elems g))).

Definition ita_ok (g : gobs) : bool :=
  match ita_group (g_name g) with
  | Some (G, n) => kseteq G (g_elems g) && Nat.eqb n (List.length (g_elems g))
  | None => false
  end.

Definition laue_ok (g : gobs) : bool :=
  kseteq (g_laue g) (klaue_ref (g_elems g)) && kis_group (g_laue g).
Definition proper_ok (g : gobs) : bool :=
  kseteq (g_proper g) (kproper_part (g_elems g)) && knodup (g_proper g).
Definition laue_proper_ok (g : gobs) : bool :=
  kseteq (g_laue_proper g) (kproper_part (klaue_ref (g_elems g))).
Definition inversion_ok (g : gobs) : bool :=
  Bool.eqb (g_contains_inversion g) (kmem kinversion (g_elems g)).
Definition is_proper_ok (g : gobs) : bool :=
  Bool.eqb (g_is_proper g) (forallb (fun r => negb (snd r)) (g_elems g)).
Definition subgroups_ok (g : gobs) : bool :=
  forallb (fun h => Bool.eqb (existsb (String.eqb (g_name h)) (g_subgroups g))
                             (ksubset (g_elems h) (g_elems g))) groups
  && forallb (fun h => Bool.eqb (existsb (String.eqb (g_name h)) (g_proper_subgroups g))
                                (ksubset (g_elems h) (g_elems g) && forallb (fun r => negb (snd r)) (g_elems h)))
             groups.

Definition sg_ok (s : sgobs) : bool :=
  km_seteq (map krot_matrix (sg_pg s)) (map (cartesian_op (sg_system s)) (sg_W s)).
Definition sg_proper_ok (s : sgobs) : bool :=
  kseteq (sg_pg_proper s) (kproper_part (klaue_ref (sg_pg s))) ||
  kseteq (sg_pg_proper s) (kproper_part (sg_pg s)).

(* the names / numbers on which a check fails (used for replays) *)
Definition failing_groups (chk : gobs -> bool) : list string :=
  map g_name (filter (fun g => negb (chk g)) groups).
Definition failing_sgs (chk : sgobs -> bool) : list Z :=
  map sg_n (filter (fun s => negb (chk s)) spacegroups).

(* Space groups whose assigned point group is in another axis setting than
   the space group's own operations (genuine defects of the unchanged tree,
   listed in known_findings.d/C03.json) *)
Open Scope Z_scope.
Definition sg_known_bad : list Z :=
  [3; 4; 5; 6; 7; 8; 9; 10; 11; 12; 13; 14; 15; 25; 26; 27; 28; 29; 30;
   31; 32; 33; 34; 35; 36; 37; 38; 39; 40; 41; 42; 43; 44; 45; 46; 115;
   116; 117; 118; 119; 120; 149; 151; 153; 157; 159; 162; 163; 189; 190].
Definition in_Z (n : Z) (l : list Z) : bool := existsb (Z.eqb n) l.
