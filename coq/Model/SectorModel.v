(* Vector3d.in_fundamental_sector and the closed-sector test
   (SphericalRegion.__ge__), generic in the scalar type; [rnd] models the
   numpy round(12) applied to the closeness values (identity over R).
   Executable definitions only. *)
From Coq Require Import ZArith List Bool.
From Verif Require Import Scalar Quat.
Import ListNotations.

Section Sector.
Context {T : Type} (O : Ops T) (rnd : T -> T).
Notation vec3 := (vec3 (T:=T)).
Notation rot := (rot (T:=T)).

(* v <= region : all n . v > -tol *)
Definition in_sector (tol : T) (N : list vec3) (v : vec3) : bool :=
  forallb (fun n => o_ltb O (o_opp O tol) (vdot O n v)) N.

(* index of the FIRST maximum (numpy argmax) *)
Fixpoint argmax_from (k best_k : nat) (best : T) (l : list T) : nat :=
  match l with
  | [] => best_k
  | x :: l' => if o_ltb O best x then argmax_from (S k) k x l' else argmax_from (S k) best_k best l'
  end.
Definition argmax (l : list T) : nat :=
  match l with [] => 0%nat | x :: l' => argmax_from 1 0 x l' end.

Definition vz (v : vec3) : T := let '(_, _, z) := v in z.

(* Vector3d.unit: data / norm, a zero vector stays zero (nan_to_num) *)
Definition vunit (v : vec3) : vec3 :=
  let '(x, y, z) := v in
  let n := o_sqrt O (vdot O v v) in
  if o_eqb O n (o_ofZ O 0) then v else (o_div O x n, o_div O y n, o_div O z n).

(* kind: 0 = plain; 1 = groups 321, 312, 32 (flip z<0 with the LAST element, then use the
   first three); 2 = group -3 (flip with element 3, then the first three); 3 = group -4
   (flip with the LAST element, then use the PROPER elements: repair 5e95612 -- before it
   -4 was of kind 1 and its first three elements contain the improper -4+) *)
Definition flip_of (kind : nat) (S : list rot) (d : rot) : option rot :=
  match kind with
  | 1%nat | 3%nat => Some (last S d)
  | 2%nat => Some (nth 3 S d)
  | _ => None
  end.
Definition sub_of (kind : nat) (S : list rot) : list rot :=
  match kind with
  | 1%nat | 2%nat => firstn 3 S
  | 3%nat => filter (fun s => negb (snd s)) S
  | _ => S
  end.

Definition project (kind : nat) (tol : T) (S : list rot) (N : list vec3) (center : option vec3)
           (v : vec3) : vec3 :=
  match center with
  | None => v
  | Some c =>
      let d := (qone O, false) in
      let v1 := match flip_of kind S d with
                | Some f => if o_ltb O (vz v) (o_ofZ O 0) then ract O f v else v
                | None => v
                end in
      let S1 := sub_of kind S in
      (* repair of the short-vector defect: the closeness to the rotated centres and the "already inside" test
         are taken on the unit vector; the operation found is applied to the vector itself *)
      let u1 := vunit v1 in
      let closeness := map (fun s => rnd (vdot O u1 (ract O s c))) S1 in
      let s := nth (argmax closeness) S1 d in
      let v2 := ract O (rinv O s) v1 in
      if in_sector tol N u1 then v1 else v2
  end.
End Sector.
