(* C13 -- record-level model of the crystal-map specific part of orix's HDF5
   plugin (orix/io/plugins/orix_hdf5.py): crystalmap2dict / phase2dict / ... on
   the writer side, dict2crystalmap / dict2phase / ... on the reader side, plus
   the parts of the constructors the reader goes through
   (CrystalMap.__init__ phase-list reconciliation, Phase.__init__ symmetry
   resolution).  Executable definitions only (no proofs). *)
From Coq Require Import ZArith List Bool String Ascii.
From Verif Require Import Scalar Quat C13Store.
Import ListNotations.
Local Open Scope Z_scope.

Definition s2p (s : string) : pystr := map (fun a => Z.of_nat (nat_of_ascii a)) (list_ascii_of_string s).
Fixpoint pstr_eqb (a b : pystr) : bool :=
  match a, b with
  | [], [] => true
  | x :: a', y :: b' => (x =? y) && pstr_eqb a' b'
  | _, _ => false
  end.

(* ---- tables of orix/quaternion/symmetry.py (tied to the source by the
   `tables` correspondence case on every run) ---- *)
(* name of get_point_group(n) for n = 1..230 *)
Definition sg2pg_table : list string :=
  [
   "1"; "-1"; "2"; "2"; "2"; "m"; "m"; "m"; "m"; "2/m"; "2/m"; "2/m"; "2/m"; "2/m"; "2/m";
   "222"; "222"; "222"; "222"; "222"; "222"; "222"; "222"; "222"; "mm2"; "mm2"; "mm2"; "mm2"; "mm2"; "mm2";
   "mm2"; "mm2"; "mm2"; "mm2"; "mm2"; "mm2"; "mm2"; "mm2"; "mm2"; "mm2"; "mm2"; "mm2"; "mm2"; "mm2"; "mm2";
   "mm2"; "mmm"; "mmm"; "mmm"; "mmm"; "mmm"; "mmm"; "mmm"; "mmm"; "mmm"; "mmm"; "mmm"; "mmm"; "mmm"; "mmm";
   "mmm"; "mmm"; "mmm"; "mmm"; "mmm"; "mmm"; "mmm"; "mmm"; "mmm"; "mmm"; "mmm"; "mmm"; "mmm"; "mmm"; "4";
   "4"; "4"; "4"; "4"; "4"; "-4"; "-4"; "4/m"; "4/m"; "4/m"; "4/m"; "4/m"; "4/m"; "422"; "422";
   "422"; "422"; "422"; "422"; "422"; "422"; "422"; "422"; "4mm"; "4mm"; "4mm"; "4mm"; "4mm"; "4mm"; "4mm";
   "4mm"; "4mm"; "4mm"; "4mm"; "4mm"; "-42m"; "-42m"; "-42m"; "-42m"; "-42m"; "-42m"; "-42m"; "-42m"; "-42m"; "-42m";
   "-42m"; "-42m"; "4/mmm"; "4/mmm"; "4/mmm"; "4/mmm"; "4/mmm"; "4/mmm"; "4/mmm"; "4/mmm"; "4/mmm"; "4/mmm"; "4/mmm"; "4/mmm"; "4/mmm";
   "4/mmm"; "4/mmm"; "4/mmm"; "4/mmm"; "4/mmm"; "4/mmm"; "4/mmm"; "3"; "3"; "3"; "3"; "-3"; "-3"; "32"; "32";
   "32"; "32"; "32"; "32"; "32"; "3m"; "3m"; "3m"; "3m"; "3m"; "3m"; "-3m"; "-3m"; "-3m"; "-3m";
   "-3m"; "-3m"; "6"; "6"; "6"; "6"; "6"; "6"; "-6"; "6/m"; "6/m"; "622"; "622"; "622"; "622";
   "622"; "622"; "6mm"; "6mm"; "6mm"; "6mm"; "-6m2"; "-6m2"; "-6m2"; "-6m2"; "6/mmm"; "6/mmm"; "6/mmm"; "6/mmm"; "23";
   "23"; "23"; "23"; "23"; "m-3"; "m-3"; "m-3"; "m-3"; "m-3"; "m-3"; "m-3"; "432"; "432"; "432"; "432";
   "432"; "432"; "432"; "432"; "-43m"; "-43m"; "-43m"; "-43m"; "-43m"; "-43m"; "m-3m"; "m-3m"; "m-3m"; "m-3m"; "m-3m";
   "m-3m"; "m-3m"; "m-3m"; "m-3m"; "m-3m"]%string.
Definition sg2pg (n : Z) : pystr := s2p (nth (Z.to_nat (n - 1)) sg2pg_table ""%string).
Definition sg_valid (n : Z) : bool := (1 <=? n) && (n <=? 230).
(* point_group_aliases *)
Definition pg_aliases : list (string * list string) :=
  [("121", ["20"]); ("2/m", ["2"]); ("222", ["22"]); ("422", ["42"]); ("432", ["43"]); ("622", ["62"]);
   ("m-3m", ["m3m"])]%string.
(* names of symmetry._groups *)
Definition pg_names : list string :=
  ["1"; "-1"; "211"; "121"; "112"; "m11"; "1m1"; "11m"; "2/m"; "222"; "mm2"; "mmm"; "4"; "-4"; "4/m";
   "422"; "4mm"; "-42m"; "4/mmm"; "3"; "-3"; "321"; "312"; "32"; "3m"; "-3m"; "6"; "-6"; "6/m"; "622";
   "6mm"; "-6m2"; "6/mmm"; "23"; "m-3"; "432"; "-43m"; "m-3m"]%string.

Definition pg_alias (v : pystr) : pystr :=
  match find (fun ca => existsb (fun a => pstr_eqb v (s2p a)) (snd ca)) pg_aliases with
  | Some ca => s2p (fst ca)
  | None => v
  end.
(* Phase.point_group setter on a string: alias, then look the name up in
   _groups; None = ValueError *)
Definition pg_resolve (v : pystr) : option pystr :=
  let v' := pg_alias v in
  if existsb (fun g => pstr_eqb v' (s2p g)) pg_names then Some v' else None.

Section Map.
Context {T : Type} (O : Ops T).

Record atom := mkAtom { at_element : pystr; at_label : pystr; at_occ : T; at_xyz : arr T; at_U : arr T }.
Record lattice := mkLat { l_abcABG : arr T; l_baserot : arr T }.
Definition structure := (lattice * list atom)%type.
(* observable attributes of a Phase: name, space group number, point group
   name, colour name, structure *)
Record phase := mkPhase { ph_name : pystr; ph_sg : option Z; ph_pg : option pystr; ph_color : pystr;
                          ph_st : structure }.
Definition rotation := (quat (T:=T) * bool)%type.
Record cmap := mkMap {
  m_rsh : list nat;                 (* shape of _rotations: [n] or [n; k] *)
  m_rots : list rotation;           (* flat, C order; (quaternion, improper) *)
  m_pid : list Z;                   (* _phase_id, all points *)
  m_x : option (arr T); m_y : option (arr T);
  m_ind : list bool;                (* is_in_data, all points *)
  m_props : list (string * arr T);  (* _prop, full arrays *)
  m_unit : option pystr;            (* scan_unit *)
  m_phases : list (Z * phase) }.    (* phases._dict, sorted by id *)

(* external behaviour, kept abstract (Section variables):
   ccanon   : Phase.color setter  (matplotlib name -> first name with the same hex)
   restruct : Phase.structure setter (re-alignment of the lattice, atoms kept in place)
   fresh    : default phases CrystalMap.__init__ invents for ids missing from the list *)
Variable ccanon : pystr -> pystr.
Variable restruct : structure -> structure.
Variable fresh : list pystr -> nat -> phase.

Definition f64 : string := "float64". Definition i64 : string := "int64". Definition b8 : string := "bool".
Definition fz (z : Z) : T := o_ofZ O z.
Definition default_lat : lattice :=
  mkLat (mkArr f64 [6%nat] (DF [fz 1; fz 1; fz 1; fz 90; fz 90; fz 90]))
        (mkArr f64 [3%nat; 3%nat] (DF [fz 1; fz 0; fz 0; fz 0; fz 1; fz 0; fz 0; fz 0; fz 1])).

(* ------------------------------------------------------------------ Phase() *)
Definition mk_phase (name : pystr) (sg : option Z) (pg : option pystr) (st : structure)
    (color : pystr) : option phase :=
  match (match sg with Some n => sg_valid n | None => true end) with
  | false => None                                        (* GetSpaceGroup raises *)
  | true =>
    match (match pg with Some v => match pg_resolve v with Some g => Some (Some g) | None => None end
                       | None => Some None end) with
    | None => None                                       (* ValueError: not a point group name *)
    | Some g =>
        let sg' : option Z :=
          match sg, g with
          | Some n, Some gn => if pstr_eqb (sg2pg n) gn then Some n else None
          | _, _ => sg
          end in
        let pg' : option pystr := match sg' with Some n => Some (sg2pg n) | None => g end in
        Some (mkPhase name sg' pg' (ccanon color) (restruct st))
    end
  end.

Definition ni_phase : phase :=
  mkPhase (s2p "not_indexed") None None (ccanon (s2p "white")) (restruct (default_lat, [])).

(* ------------------------------------------------------------ writer side *)
Definition qnormalize (q : quat (T:=T)) : quat (T:=T) :=
  qscale O (o_div O (fz 1) (o_sqrt O (qnorm2 O q))) q.
(* Rotation.to_euler(): qu2eu(self.unit.data); the improper flag is not consulted *)
Definition to_euler (r : rotation) : vec3 (T:=T) := qu2eu O (qnormalize (fst r)).
(* what the reader rebuilds from the stored Euler angles and improper flag *)
Definition reload_rot (r : rotation) : rotation := (eu2qu O (to_euler r), snd r).

Definition count_true (l : list bool) : nat := List.length (filter (fun b => b) l).
Definition per_point (m : cmap) : nat := match m_rsh m with [_; k] => k | _ => 1%nat end.

(* _step_size_from_coordinates: second smallest distinct value minus the
   smallest, python int 0 when there is only one distinct value (or no array) *)
Definition tmin (l : list T) : option T :=
  fold_left (fun acc x => match acc with None => Some x | Some a => Some (if o_ltb O x a then x else a) end) l None.
Definition zmin (l : list Z) : option Z :=
  fold_left (fun acc x => match acc with None => Some x | Some a => Some (Z.min x a) end) l None.
Definition step_of (c : option (arr T)) : pv T :=
  match c with
  | None => PI "int" 0
  | Some a =>
      match a_d a with
      | DF l => match tmin l with
                | Some lo => match tmin (filter (fun x => o_ltb O lo x) l) with
                             | Some hi => PF (a_dt a) (o_sub O hi lo) | None => PI "int" 0 end
                | None => PI "int" 0 end
      | DI l => match zmin l with
                | Some lo => match zmin (filter (fun x => lo <? x) l) with
                             | Some hi => PI (a_dt a) (hi - lo) | None => PI "int" 0 end
                | None => PI "int" 0 end
      | DB _ => PI "int" 0
      end
  end.
Definition asize (a : arr T) : Z := Z.of_nat (fold_right Nat.mul 1%nat (a_sh a)).

Definition atom2dict (a : atom) : pv T :=
  PD [("element", PS (at_element a)); ("label", PS (at_label a)); ("occupancy", PF f64 (at_occ a));
      ("xyz", PA (at_xyz a)); ("U", PA (at_U a))]%string.
Fixpoint enum_from {A} (i : Z) (l : list A) : list (Z * A) :=
  match l with [] => [] | x :: r => (i, x) :: enum_from (i + 1) r end.
Definition structure2dict (st : structure) : pv T :=
  PD [("lattice", PD [("abcABG", PA (l_abcABG (fst st))); ("baserot", PA (l_baserot (fst st)))]);
      ("atoms", PD (map (fun ia => (zstr (fst ia), atom2dict (snd ia))) (enum_from 0 (snd st))))]%string.
Definition phase2dict (p : phase) : pv T :=
  PD [("name", PS (ph_name p));
      ("space_group", match ph_sg p with Some n => PI "int" n | None => PS (s2p "None") end);
      ("point_group", match ph_pg p with Some g => PS g | None => PS (s2p "None") end);
      ("color", PS (ph_color p));
      ("structure", structure2dict (ph_st p))]%string.
Definition phaselist2dict (l : list (Z * phase)) : pv T :=
  PD (dict_update [] (map (fun ip => (zstr (fst ip), phase2dict (snd ip))) l)).

Definition zrange (n : nat) : list Z := map Z.of_nat (seq 0 n).
Definition reserved : list string :=
  ["y"; "x"; "phi1"; "Phi"; "phi2"; "improper"; "phase_id"; "id"; "is_in_data"]%string.

(* None = the writer raises (ZeroDivisionError in rotations_per_point when no
   point is in the data) *)
Definition crystalmap2dict (m : cmap) : option (pv T) :=
  let n := hd 0%nat (m_rsh m) in
  let eus := map to_euler (m_rots m) in
  let coord (c : option (arr T)) : pv T := match c with Some a => PA a | None => PI "int" 0 end in
  let csize (c : option (arr T)) : pv T := PI "int" (match c with Some a => asize a | None => 1 end) in
  if (count_true (m_ind m) =? 0)%nat then None else
  Some (PD [
    ("data", PD (dict_update
       [("y", coord (m_y m)); ("x", coord (m_x m));
        ("phi1", PA (mkArr f64 (m_rsh m) (DF (map (fun e => fst (fst e)) eus))));
        ("Phi", PA (mkArr f64 (m_rsh m) (DF (map (fun e => snd (fst e)) eus))));
        ("phi2", PA (mkArr f64 (m_rsh m) (DF (map (fun e => snd e) eus))));
        ("improper", PA (mkArr b8 (m_rsh m) (DB (map snd (m_rots m)))));
        ("phase_id", PA (mkArr i64 [n] (DI (m_pid m))));
        ("id", PA (mkArr i64 [n] (DI (zrange n))));
        ("is_in_data", PA (mkArr b8 [n] (DB (m_ind m))))]
       (map (fun ka => (fst ka, PA (snd ka))) (m_props m))));
    ("header", PD [
        ("grid_type", PS (s2p "square"));
        ("ny", csize (m_y m)); ("nx", csize (m_x m));
        ("y_step", step_of (m_y m)); ("x_step", step_of (m_x m));
        ("rotations_per_point", PI "int" (Z.of_nat (per_point m)));
        ("scan_unit", match m_unit m with Some u => PS u | None => PN end);
        ("phases", phaselist2dict (m_phases m))])]%string).

(* file_writer *)
Definition save (version : pystr) (m : cmap) : option (h5 T) :=
  match crystalmap2dict m with
  | None => None
  | Some d => Some (dict2h5 (PD [("manufacturer", PS (s2p "orix")); ("version", PS version);
                                 ("crystal_map", d)]%string))
  end.

(* ------------------------------------------------------------ reader side *)
Definition getS (d : dict (rv T)) (k : string) : option pystr :=
  match lookup k d with Some (RS s) => Some s | _ => None end.
Definition getD (d : dict (rv T)) (k : string) : option (dict (rv T)) :=
  match lookup k d with Some (RD l) => Some l | _ => None end.
Definition getA (d : dict (rv T)) (k : string) : option (arr T) :=
  match lookup k d with Some (RA a) => Some a | _ => None end.

Definition dict2atom (v : rv T) : option atom :=
  match v with
  | RD d =>
      match getS d "element", getS d "label", lookup "occupancy"%string d, getA d "xyz", getA d "U" with
      | Some e, Some l, Some (RF oc), Some xyz, Some U => Some (mkAtom e l oc xyz U)
      | _, _, _, _, _ => None
      end
  | _ => None
  end.
Fixpoint all_some {A} (l : list (option A)) : option (list A) :=
  match l with
  | [] => Some []
  | Some x :: r => match all_some r with Some r' => Some (x :: r') | None => None end
  | None :: _ => None
  end.
(* sorted association lists keyed by an integer (PhaseList keeps its dict sorted
   by phase id; dict2structure sorts the atom keys with key=int; both sorts are stable) *)
Fixpoint zinsert {A} (kv : Z * A) (l : list (Z * A)) : list (Z * A) :=
  match l with
  | [] => [kv]
  | kv' :: r => if fst kv <=? fst kv' then kv :: l else kv' :: zinsert kv r
  end.
Fixpoint sortz {A} (l : list (Z * A)) : list (Z * A) :=
  match l with [] => [] | kv :: r => zinsert kv (sortz r) end.

(* atoms=[dict2atom(atoms[key]) for key in sorted(atoms, key=int)] *)
Definition dict2structure (v : dict (rv T)) : option structure :=
  match getD v "lattice", getD v "atoms" with
  | Some ld, Some ad =>
      match getA ld "abcABG", getA ld "baserot",
            all_some (map (fun kv => match zint (fst kv), dict2atom (snd kv) with
                                     | Some i, Some a => Some (i, a) | _, _ => None end) ad) with
      | Some p, Some b, Some ats => Some (mkLat p b, map snd (sortz ats))
      | _, _, _ => None
      end
  | _, _ => None
  end.
Definition dict2phase (v : rv T) : option phase :=
  match v with
  | RD d =>
      match getD d "structure", getS d "name", lookup "space_group"%string d, getS d "point_group", getS d "color" with
      | Some sd, Some name, Some sgv, Some pgv, Some col =>
          match dict2structure sd with
          | Some st =>
              let pg : option pystr := if pstr_eqb pgv (s2p "None") then None else Some pgv in
              match sgv with
              | RS s => if pstr_eqb s (s2p "None") then mk_phase name None pg st col else None
              | RI z => mk_phase name (Some z) None st col   (* the space group determines the point group *)
              | _ => None
              end
          | None => None
          end
      | _, _, _, _, _ => None
      end
  | _ => None
  end.

Definition zlookup {A} (k : Z) (l : list (Z * A)) : option A :=
  match find (fun kv => fst kv =? k) l with Some kv => Some (snd kv) | None => None end.
Definition zremove {A} (k : Z) (l : list (Z * A)) : list (Z * A) :=
  filter (fun kv => negb (fst kv =? k)) l.
Definition zmem (k : Z) (l : list Z) : bool := existsb (Z.eqb k) l.

Definition dict2phaselist (d : dict (rv T)) : option (list (Z * phase)) :=
  match all_some (map (fun kv => match zint (fst kv), dict2phase (snd kv) with
                                 | Some i, Some p => Some (i, p) | _, _ => None end) d) with
  | Some l => Some (sortz l)
  | None => None
  end.

(* np.unique: sorted, without duplicates *)
Fixpoint uinsert (z : Z) (l : list Z) : list Z :=
  match l with
  | [] => [z]
  | y :: r => if z <? y then z :: l else if z =? y then l else y :: uinsert z r
  end.
Definition np_unique (l : list Z) : list Z := fold_right uinsert [] l.

(* the "remove superfluous phases" loop of CrystalMap.__init__ *)
Fixpoint del_loop (uniq : list Z) (ids_rev : list Z) (nd : nat) (pl : list (Z * phase)) : list (Z * phase) :=
  match ids_rev with
  | [] => pl
  | i :: r =>
      if zmem i uniq then del_loop uniq r nd pl
      else match nd with
           | S (S nd') => del_loop uniq r (S nd') (zremove i pl)
           | _ => zremove i pl
           end
  end.
Fixpoint add_missing (uniq : list Z) (pl : list (Z * phase)) (used : list pystr) (ci : nat) : list (Z * phase) :=
  match uniq with
  | [] => []
  | i :: r => match zlookup i pl with
              | Some p => (i, p) :: add_missing r pl used ci
              | None => (i, fresh used ci) :: add_missing r pl used (S ci)
              end
  end.

(* CrystalMap.__init__ ; None = an exception is raised *)
Definition mk_cmap (rsh : list nat) (rots : list rotation) (pid : list Z) (x y : option (arr T))
    (pl : list (Z * phase)) (props : list (string * arr T)) (unit : option pystr) (ind : list bool)
    : option cmap :=
  let n := hd 0%nat rsh in
  let x' : option (arr T) :=
    match x, y with None, None => Some (mkArr i64 [n] (DI (zrange n))) | _, _ => x end in
  match np_unique pid with
  | [] => None
  | u0 :: urest =>
      let incl := u0 =? -1 in
      let uniq := if incl then urest else u0 :: urest in
      let ids := map fst pl in
      let nl := List.length ids in let nu := List.length uniq in
      let pl1 : list (Z * phase) :=
        if (nu <? nl)%nat then del_loop uniq (rev ids) (nl - nu) pl
        else if (nl <? nu)%nat then add_missing uniq pl (map (fun ip => ph_color (snd ip)) pl) 0
        else pl in
      let pl2 := combine uniq (map snd pl1) in
      let pl3 := if incl then sortz ((-1, ni_phase) :: zremove (-1) pl2) else pl2 in
      Some (mkMap rsh rots pid x' y ind props unit pl3)
  end.

(* Rotation.from_euler(np.stack((phi1, Phi, phi2), axis=-1)); rotations.improper = improper *)
Fixpoint shape_eqb' (a b : list nat) : bool :=
  match a, b with
  | [], [] => true
  | x :: a', y :: b' => (x =? y)%nat && shape_eqb' a' b'
  | _, _ => false
  end.
Fixpoint zip3 (a b c : list T) : list (vec3 (T:=T)) :=
  match a, b, c with
  | x :: a', y :: b', z :: c' => (x, y, z) :: zip3 a' b' c'
  | _, _, _ => []
  end.
(* the "improper" dataset: absent in files of earlier versions (all proper);
   None = the assignment to Rotation.improper raises (shape mismatch) *)
Definition get_improper (data : dict (rv T)) (sh : list nat) (n : nat) : option (list bool) :=
  match lookup "improper"%string data with
  | None => Some (repeat false n)
  | Some (RA a) => match a_d a with
                   | DB l => if shape_eqb' (a_sh a) sh then Some l else None
                   | _ => None
                   end
  | Some _ => None
  end.
(* header.get("scan_unit"): absent (None was not written) = None *)
Definition get_unit (header : dict (rv T)) : option (option pystr) :=
  match lookup "scan_unit"%string header with
  | None => Some None
  | Some (RS s) => Some (Some s)
  | Some _ => None
  end.

(* repair 4fb3c89: hdf5group2dict returned the only element along the first axis of every per-point dataset of
   a one-point map; when "id" came back as a scalar, every dataset of "data" gets a new first axis
   (np.asarray(v)[np.newaxis]).  A numpy scalar keeps the dtype of its dataset; the store model forgets the dtype
   of a scalar, so the reader model is given the dtypes of the datasets of the "data" group of the file (dts). *)
Definition newaxis (dt : option string) (v : rv T) : rv T :=
  match v with
  | RI z => RA (mkArr (match dt with Some d => d | None => i64 end) [1%nat] (DI [z]))
  | RF x => RA (mkArr (match dt with Some d => d | None => f64 end) [1%nat] (DF [x]))
  | RB b => RA (mkArr (match dt with Some d => d | None => b8 end) [1%nat] (DB [b]))
  | RA a => RA (mkArr (a_dt a) (1%nat :: a_sh a) (a_d a))
  | other => other
  end.
Definition is_scalar (v : option (rv T)) : bool :=
  match v with Some (RI _) | Some (RF _) | Some (RB _) => true | _ => false end.
Definition restore_point_axis (dts : list (string * string)) (data : dict (rv T)) : dict (rv T) :=
  if is_scalar (lookup "id"%string data)
  then map (fun kv => (fst kv, newaxis (lookup (fst kv) dts) (snd kv))) data else data.

Definition dict2crystalmap_dt (dts : list (string * string)) (v : rv T) : option cmap :=
  match v with
  | RD top =>
    match option_map (restore_point_axis dts) (getD top "data"), getD top "header" with
    | Some data, Some header =>
      match getA data "phi1", getA data "Phi", getA data "phi2" with
      | Some a1, Some a2, Some a3 =>
        match a_d a1, a_d a2, a_d a3 with
        | DF e1, DF e2, DF e3 =>
          (* np.stack raises ValueError unless the three arrays have one shape *)
          if negb (shape_eqb' (a_sh a1) (a_sh a2) && shape_eqb' (a_sh a1) (a_sh a3)) then None else
          let rsh := a_sh a1 in
          match get_improper data rsh (List.length e1), get_unit header, getD header "phases" with
          | Some imp, Some unit, Some phd =>
            let rots := combine (map (eu2qu O) (zip3 e1 e2 e3)) imp in
            match dict2phaselist phd, getA data "phase_id", getA data "is_in_data" with
            | Some pl, Some pa, Some ia =>
              match a_d pa, a_d ia with
              | DI pid, DB ind =>
                let coord (k : string) : option (arr T) := getA data k in
                match all_some (map (fun kv => match snd kv with RA a => Some (fst kv, a) | _ => None end)
                                    (remove_keys reserved data)) with
                | Some props => mk_cmap rsh rots pid (coord "x"%string) (coord "y"%string) pl props unit ind
                | None => None
                end
              | _, _ => None
              end
            | _, _, _ => None
            end
          | _, _, _ => None
          end
        | _, _, _ => None
        end
      | _, _, _ => None
      end
    | _, _ => None
    end
  | _ => None
  end.

Definition dict2crystalmap (v : rv T) : option cmap := dict2crystalmap_dt [] v.

(* dtypes of the numeric datasets of /crystal_map/data *)
Definition h5_group (f : h5 T) (k : string) : option (h5 T) :=
  match f with HG l => lookup k l | _ => None end.
Definition data_dtypes (f : h5 T) : list (string * string) :=
  match h5_group f "crystal_map"%string with
  | Some cm =>
      match h5_group cm "data"%string with
      | Some (HG l) => flat_map (fun kv => match snd kv with HA a => [(fst kv, a_dt a)] | _ => [] end) l
      | _ => []
      end
  | None => []
  end.

(* file_reader *)
Definition load (f : h5 T) : option cmap :=
  match h52dict f with
  | RD top => match lookup "crystal_map"%string top with Some cm => dict2crystalmap_dt (data_dtypes f) cm | None => None end
  | _ => None
  end.

End Map.
