(* C17 -- executable model of the unique() family of orix.
     orix/_base.py            Object3d.unique           (Quaternion, Vector3d, Miller)
     orix/quaternion/rotation.py  Rotation.unique, Rotation._differentiators
     orix/vector/miller.py    Miller.unique
   and of numpy.unique(axis=0, return_index=True, return_inverse=True).

   Everything is written ONCE, generic in
     - a comparison [cmp] on keys (lexicographic comparison of rows of scalars
       in the numerical instances),
     - the scalar operations [Ops T] and the decimal rounding function [rnd]
       (np.round(., d): exact IEEE rint on binary64 for the correspondence
       check; ANY function on the reals in the theorems),
   so the definitions that are proved about (Proofs/C17*.v) are the very
   definitions that vm_compute runs against the implementation.
   Definitions only, no proofs. *)
From Coq Require Import ZArith List Bool Arith.
From Verif Require Import Scalar Quat C17Differentiators.
Import ListNotations.

(* ------------------------------------------------------------ list helpers *)
Section ListUtil.
Context {A : Type}.

(* index of the first element satisfying p; = length l when there is none *)
Fixpoint find_index (p : A -> bool) (l : list A) : nat :=
  match l with
  | [] => 0
  | x :: t => if p x then 0 else S (find_index p t)
  end.

(* stable insertion sort (np.sort / np.argsort(kind=stable) / np.lexsort) *)
Fixpoint isort_ins (leb : A -> A -> bool) (x : A) (l : list A) : list A :=
  match l with
  | [] => [x]
  | y :: t => if leb x y then x :: l else y :: isort_ins leb x t
  end.
Definition isort (leb : A -> A -> bool) (l : list A) : list A :=
  fold_right (isort_ins leb) [] l.
End ListUtil.

Definition sort_nat (l : list nat) : list nat := isort Nat.leb l.

(* np.argsort of a list of naturals: positions ordered by value (stable) *)
Definition argsort_nat (l : list nat) : list nat :=
  map snd (isort (fun a b : nat * nat => Nat.leb (fst a) (fst b)) (combine l (seq 0 (length l)))).

(* lexicographic comparison of rows; shorter row first on a common prefix *)
Fixpoint lexcmp {A} (c : A -> A -> comparison) (x y : list A) : comparison :=
  match x, y with
  | [], [] => Eq
  | [], _ :: _ => Lt
  | _ :: _, [] => Gt
  | a :: x', b :: y' => match c a b with Eq => lexcmp c x' y' | r => r end
  end.

(* ------------------------------------------------------------- numpy.unique *)
Section NpUnique.
Context {K : Type} (cmp : K -> K -> comparison).

Definition keq (a b : K) : bool := match cmp a b with Eq => true | _ => false end.

(* insertion into a strictly increasing list, equal keys are not repeated *)
Fixpoint uins (k : K) (l : list K) : list K :=
  match l with
  | [] => [k]
  | h :: t => match cmp k h with
              | Lt => k :: l
              | Eq => l
              | Gt => h :: uins k t
              end
  end.
Definition usort (rows : list K) : list K := fold_right uins [] rows.

(* np.unique(rows, axis=0, return_index=True, return_inverse=True):
   (sorted distinct rows, index of the first occurrence of each of them,
    position of every input row among the sorted distinct rows) *)
Definition np_unique (rows : list K) : list K * list nat * list nat :=
  let us := usort rows in
  (us,
   map (fun u => find_index (fun r => keq r u) rows) us,
   map (fun r => find_index (fun u => keq u r) us) rows).

(* reference notions used by the theorems (also executable) *)
(* j is the first position carrying its key *)
Definition is_first (rows : list K) (d : K) (j : nat) : bool :=
  Nat.eqb (find_index (fun r => keq r (nth j rows d)) rows) j.
Definition firsts (rows : list K) (d : K) : list nat :=
  filter (is_first rows d) (seq 0 (length rows)).
End NpUnique.

(* first-appearance de-duplication by key: the specification of "unique,
   order of first appearance kept" *)
Section Nub.
Context {E K : Type} (cmp : K -> K -> comparison) (key : E -> K).
Fixpoint nubk (l : list E) : list E :=
  match l with
  | [] => []
  | x :: t => x :: filter (fun y => negb (keq cmp (key x) (key y))) (nubk t)
  end.
End Nub.

(* ---------------------------------------------------------- Object3d.unique
     data = self.flatten()._data.round(10)
     is_nonzero = ~np.all(np.isclose(data, 0), axis=1)
     data = data[is_nonzero]
     _, idx, inv = np.unique(data, axis=0, return_index=True, return_inverse=True)
     obj = self.__class__(data[np.sort(idx), : self.dim]); obj._data = data[np.sort(idx)]
     idx = np.flatnonzero(is_nonzero)[idx]
     inv = np.argsort(np.argsort(idx))[inv]
     return obj, idx, inv                                                        *)
Section ObjUnique.
Context {E K : Type} (cmp : K -> K -> comparison)
        (rnd : E -> E) (iszero : E -> bool) (key : E -> K) (d : E).

Definition obj_data (flat : list E) : list E :=
  filter (fun e => negb (iszero e)) (map rnd flat).

(* np.flatnonzero(is_nonzero): positions, in the flattened input, of the
   entries that are kept *)
Definition obj_nzpos (flat : list E) : list nat :=
  filter (fun i => negb (iszero (rnd (nth i flat d)))) (seq 0 (length flat)).

Definition obj_unique (flat : list E) : list E * list nat * list nat :=
  let data := obj_data flat in
  let '(_, idx0, inv0) := np_unique cmp (map key data) in
  let idx := map (fun i => nth i (obj_nzpos flat) 0) idx0 in
  let rank := argsort_nat (argsort_nat idx) in
  (map (fun i => nth i data d) (sort_nat idx0), idx, map (fun u => nth u rank 0) inv0).
End ObjUnique.

(* ---------------------------------------------------------- Rotation.unique
     if self.size == 0: return self.empty()
     R = self.flatten()
     abcd = R._differentiators()  |  stack([a,b,c,d,improper]).round(10)
     _, idx, inv = np.unique(abcd, axis=0, return_index=True, return_inverse=True)
     idx_argsort = np.argsort(idx); idx_sort = idx[idx_argsort]
     inv_map = np.empty_like(idx_argsort); inv_map[idx_argsort] = arange(idx_argsort.size)
     inv = inv_map[inv]
     dat = R[idx_sort]; dat.improper = R.improper[idx_sort]
     return dat, idx_sort, inv                                                    *)
Section RotUnique.
Context {E K : Type} (cmp : K -> K -> comparison) (key : E -> K) (d : E).

Definition rot_unique (flat : list E) : list E * list nat * list nat :=
  let '(_, idx, inv) := np_unique cmp (map key flat) in
  let idx_argsort := argsort_nat idx in
  let idx_sort := map (fun p => nth p idx 0) idx_argsort in
  (* inv_map[idx_argsort[k]] = k *)
  let inv_map := map (fun p => find_index (Nat.eqb p) idx_argsort) (seq 0 (length idx_argsort)) in
  let inv' := map (fun u => nth u inv_map 0) inv in
  (map (fun i => nth i flat d) idx_sort, idx_sort, inv').

(* number of values the call returns: 1 (object only), 2 or 3.  The early
   return for an empty input builds the tuple (empty object, [idx], [inv])
   and unwraps it when it has a single member:
     out = (self.empty(),) + (empty array if return_index) + (... if return_inverse)
     return out if len(out) > 1 else out[0]                                      *)
Definition rot_unique_arity (flat : list E) (return_index return_inverse : bool) : nat :=
  let n := 1 + (if return_index then 1 else 0) + (if return_inverse then 1 else 0) in
  match flat with
  | [] => if Nat.ltb 1 n then n else 1
  | _ => n
  end.
Definition obj_unique_arity (return_index return_inverse : bool) : nat :=
  1 + (if return_index then 1 else 0) + (if return_inverse then 1 else 0).
End RotUnique.

(* ------------------------------------------------------------ Miller.unique
     out = super().unique(return_index=return_index)       -> v, idx
     if use_symmetry:
         v2 = operations.outer(v).flatten().reshape(n_v, operations.size)
         data = v2.data.round(10)
         data_sorted[i] = data[i][np.lexsort(data[i].T)]
         _, idx_sym = np.unique(data_sorted, return_index=True, axis=0)
         idx_sym = idx_sym[::-1]
         v = v[idx_sym]
         if return_index: idx = np.sort(idx)[idx_sym]
     return m, idx                                                               *)
Section MillerUnique.
Context {E K K2 : Type} (cmp : K -> K -> comparison) (cmp2 : K2 -> K2 -> comparison)
        (rnd : E -> E) (iszero : E -> bool) (key : E -> K) (d : E)
        (okey : E -> K2).      (* canonical form of the orbit of a vector *)

Definition miller_unique (use_symmetry : bool) (flat : list E) : list E * list nat :=
  let '(v, idx, _) := obj_unique cmp rnd iszero key d flat in
  if use_symmetry then
    let '(_, idx2, _) := np_unique cmp2 (map okey v) in
    let idx_sym := rev idx2 in
    (map (fun i => nth i v d) idx_sym, map (fun i => nth i (sort_nat idx) 0) idx_sym)
  else (v, idx).
End MillerUnique.

(* ------------------------------------------------------ numerical instances *)
Section Numeric.
Context {T : Type} (O : Ops T).

Definition ocmp (x y : T) : comparison :=
  if o_ltb O x y then Lt else if o_eqb O x y then Eq else Gt.

Definition rowcmp : list T -> list T -> comparison := lexcmp ocmp.

(* np.isclose(x, 0): |x - 0| <= atol + rtol*|0| with atol = 1e-8 *)
Definition isclose0 (x : T) : bool := o_leb O (o_abs O x) (o_ofQ O 1 100000000).
Definition row_iszero (r : list T) : bool := forallb isclose0 r.

(* Object3d.unique on rows of scalars; rnd10 = np.round(., 10) *)
Definition base_unique (rnd10 : T -> T) (flat : list (list T)) : list (list T) * list nat * list nat :=
  obj_unique rowcmp (map rnd10) row_iszero (fun r => r) [] flat.

(* Rotation._differentiators: the ten quadratic monomials and the flag.  The
   key functions below use the list REGENERATED from the source
   (Gen/C17Differentiators.v: differentiators_gen, rotation_plain_columns);
   [monomials] is the hand-written twin the algebraic lemmas are stated on,
   Proofs/C17Diff.v proves the two equal (so a changed formula breaks a proof) *)
Definition bflag (i : bool) : T := if i then o_ofZ O 1 else o_ofZ O 0.
Definition monomials (q : quat (T:=T)) : list T :=
  let '(a, b, c, d) := q in
  [o_mul O a a; o_mul O b b; o_mul O c c; o_mul O d d;
   o_mul O a b; o_mul O a c; o_mul O a d; o_mul O b c; o_mul O b d; o_mul O c d].
Definition key_antipodal (rnd12 : T -> T) (r : rot (T:=T)) : list T :=
  let '(a, b, c, d) := fst r in map rnd12 (differentiators_gen O a b c d (bflag (snd r))).
Definition key_plain (rnd10 : T -> T) (r : rot (T:=T)) : list T :=
  let '(a, b, c, d) := fst r in map rnd10 (rotation_plain_columns a b c d (bflag (snd r))).

Definition zrot : rot (T:=T) := ((o_ofZ O 0, o_ofZ O 0, o_ofZ O 0, o_ofZ O 0), false).

Definition rotation_unique (rnd10 rnd12 : T -> T) (antipodal : bool) (flat : list (rot (T:=T)))
  : list rot * list nat * list nat :=
  rot_unique rowcmp (if antipodal then key_antipodal rnd12 else key_plain rnd10) zrot flat.

(* Miller.unique: vectors as rows [x;y;z]; the point group as a list of
   (quaternion, improper) operations acting by Rotation * Vector3d *)
Definition row2vec (r : list T) : vec3 (T:=T) :=
  match r with
  | [x; y; z] => (x, y, z)
  | _ => (o_ofZ O 0, o_ofZ O 0, o_ofZ O 0)
  end.
Definition vec2row (v : vec3 (T:=T)) : list T := let '(x, y, z) := v in [x; y; z].
(* np.lexsort(a.T): last column is the primary key *)
Definition revrow_leb (r s : list T) : bool :=
  match lexcmp ocmp (rev r) (rev s) with Gt => false | _ => true end.
Definition orbit_key (rnd10 : T -> T) (ops : list (rot (T:=T))) (r : list T) : list T :=
  concat (isort revrow_leb (map (fun g => map rnd10 (vec2row (ract O g (row2vec r)))) ops)).

Definition miller_unique_num (rnd10 : T -> T) (ops : list (rot (T:=T))) (use_symmetry : bool)
           (flat : list (list T)) : list (list T) * list nat :=
  miller_unique rowcmp rowcmp (map rnd10) row_iszero (fun r => r) [] (orbit_key rnd10 ops)
                use_symmetry flat.
End Numeric.

(* ------------------------------------------------ binary64 (evaluation only) *)
From Coq Require Import PrimFloat.
From Verif Require Import FInst.
Local Open Scope float_scope.

(* np.round(x, d) = rint(x * 10^d) / 10^d  (numpy's multiply / rint / divide) *)
Definition frint (y : float) : float := if two52 <=? abs y then y else fround y.
Definition f_round_dec (dec : Z) (x : float) : float :=
  let p := Z2f (10 ^ dec) in frint (x * p) / p.
Definition f_round10 : float -> float := f_round_dec base_decimals.
Definition f_round10r : float -> float := f_round_dec rotation_plain_decimals.
Definition f_round12 : float -> float := f_round_dec differentiators_decimals.

Definition frow_eqb (r s : list float) : bool :=
  (fix go (r s : list float) : bool :=
     match r, s with
     | [], [] => true
     | x :: r', y :: s' => (x =? y) && go r' s'
     | _, _ => false
     end) r s.
Fixpoint frows_eqb (a b : list (list float)) : bool :=
  match a, b with
  | [], [] => true
  | r :: a', s :: b' => frow_eqb r s && frows_eqb a' b'
  | _, _ => false
  end.
Fixpoint nats_eqb (a b : list nat) : bool :=
  match a, b with
  | [], [] => true
  | x :: a', y :: b' => Nat.eqb x y && nats_eqb a' b'
  | _, _ => false
  end.
Definition frot_eqb (r s : rot (T:=float)) : bool :=
  let '(a, b, c, d) := fst r in let '(e, f, g, h) := fst s in
  (a =? e) && (b =? f) && (c =? g) && (d =? h) && Bool.eqb (snd r) (snd s).
Fixpoint frots_eqb (a b : list (rot (T:=float))) : bool :=
  match a, b with
  | [], [] => true
  | r :: a', s :: b' => frot_eqb r s && frots_eqb a' b'
  | _, _ => false
  end.
