(* C20 -- hand model of orix/measure/pole_density_function.py and of the
   equal-area grid of orix/sampling/S2_sampling.py
   (_sample_S2_equal_area_coordinates).  Executable definitions only; proofs
   are in Proofs/C20PdfProofs.v.

   pole_density_function(v, resolution, sigma, weights, hemisphere, symmetry, mrd):
     azimuth, polar = v.to_polar()                        (Gen/C20Stereo)
     edges = equal-area grid (4*steps azimuth bins on [0, 2pi], steps polar bins
             equally spaced in cos(polar))                [az_edges, polar_edges]
     hist = np.histogram2d(azimuth, polar, bins=edges, weights=weights)   [hist2d]
     hist = gaussian_filter(hist, sigma/resolution, mode=("wrap", "reflect")) [gauss2d]
     with symmetry: np.add.at(temp, (i, j), hist.ravel()) with (i, j) the coarse
             bin of the fine bin centre folded into the sector  [fold_at], mask
     mrd: hist / hist.mean()  (mean over the unmasked bins)      [mrd]          *)
From Coq Require Import ZArith List Bool.
From Verif Require Import Scalar.
From Verif.Gen Require Import C20Stereo.
From Verif.Model Require Import C20Proj.
Import ListNotations.

(* ---- generic list helpers (no scalars) ---- *)
Fixpoint upd {A} (f : A -> A) (i : nat) (l : list A) : list A :=
  match l, i with
  | [], _ => []
  | x :: r, O => f x :: r
  | x :: r, S i' => x :: upd f i' r
  end.

(* index extension of scipy.ndimage for a line of length n (n > 0) *)
Definition ext_wrap (n j : Z) : Z := (j mod n)%Z.
Definition ext_reflect (n j : Z) : Z :=
  let m := (j mod (2 * n))%Z in if (m <? n)%Z then m else (2 * n - 1 - m)%Z.

Section Pdf.
Context {T : Type} (O : Ops T).

Definition zero : T := o_ofZ O 0.
Definition ofnat (n : nat) : T := o_ofZ O (Z.of_nat n).

Fixpoint sumT (l : list T) : T :=
  match l with [] => zero | x :: r => o_add O x (sumT r) end.
Definition sum2 (m : list (list T)) : T := sumT (map sumT m).

(* ------------------------------------------------------------- the grid *)
(* steps = int(np.ceil(90 / resolution)) is computed by the caller; azimuth:
   np.linspace(0, 2 pi, 4*steps + 1); polar: arccos(linspace(c0, c1, steps + 1))
   with (c0, c1) = (1, 0) upper, (0, -1) lower *)
Definition az_edges (steps : nat) : list T :=
  map (fun k => o_div O (o_mul O (o_mul O (o_ofZ O 2) (o_pi O)) (ofnat k)) (ofnat (4 * steps)))
      (seq 0 (4 * steps + 1)).
Definition cos_edges (lower : bool) (steps : nat) : list T :=
  map (fun j => let t := o_div O (ofnat j) (ofnat steps) in
                if lower then o_opp O t else o_sub O (o_ofZ O 1) t)
      (seq 0 (steps + 1)).
Definition polar_edges (lower : bool) (steps : nat) : list T :=
  map (o_acos O) (cos_edges lower steps).

(* ------------------------------------------------------------ histogram *)
(* np.searchsorted(edges, x, side="right") on sorted edges *)
Fixpoint count_le (edges : list T) (x : T) : nat :=
  match edges with
  | [] => 0
  | e :: r => if o_leb O e x then S (count_le r x) else 0
  end.

(* np.histogram bin of x: bins are [e_i, e_i+1), the last one is closed;
   None = outside the grid (or nan) *)
Definition bin_of (edges : list T) (x : T) : option nat :=
  let n := pred (length edges) in
  match count_le edges x with
  | 0%nat => None
  | S i => if Nat.ltb i n then Some i
           else if o_eqb O x (last edges zero) then Some (pred n) else None
  end.

Definition add_at (i j : nat) (w : T) (m : list (list T)) : list (list T) :=
  upd (upd (fun x => o_add O x w) j) i m.
Definition zeros (nr nc : nat) : list (list T) := repeat (repeat zero nc) nr.

(* one sample = Some (azimuth, polar) or None (zero vector: polar is nan), and a weight *)
Definition sample : Type := (option (T * T) * T)%type.

Definition cell (ea ep : list T) (s : sample) : option (nat * nat) :=
  match fst s with
  | None => None
  | Some (a, p) =>
      match bin_of ea a, bin_of ep p with
      | Some i, Some j => Some (i, j)
      | _, _ => None
      end
  end.

Definition hist_step (ea ep : list T) (m : list (list T)) (s : sample) : list (list T) :=
  match cell ea ep s with Some (i, j) => add_at i j (snd s) m | None => m end.

Definition hist2d (ea ep : list T) (ss : list sample) : list (list T) :=
  fold_left (hist_step ea ep) ss (zeros (pred (length ea)) (pred (length ep))).

(* azimuth, polar, _ = v.to_polar(): polar = arccos(z / r) is nan when r = 0
   (the zero vector only: to_polar leaves the vector as given) *)
Definition angles (v : vec3 (T:=T)) : option (T * T) :=
  let '(x, y, z) := v in
  let '(a, p, r) := to_polar O false x y z in
  if o_eqb O r zero then None else Some (a, p).

Definition samples_of (vs : list (vec3 (T:=T))) (ws : list T) : list sample :=
  map (fun vw => (angles (fst vw), snd vw)) (combine vs ws).

(* ------------------------------------------------------------ smoothing *)
(* scipy.ndimage.correlate1d: out[i] = sum_k w[k] * x_ext[i + k - len(w)/2] *)
Definition corr1 (ext : Z -> Z -> Z) (w x : list T) : list T :=
  let n := Z.of_nat (length x) in
  let r := Z.of_nat (Nat.div2 (length w)) in
  map (fun i =>
         sumT (map (fun k => o_mul O (nth k w zero)
                               (nth (Z.to_nat (ext n (Z.of_nat i + Z.of_nat k - r)%Z)) x zero))
                   (seq 0 (length w))))
      (seq 0 (length x)).

Definition col (j : nat) (m : list (list T)) : list T := map (fun row => nth j row zero) m.
Definition transpose (nc : nat) (m : list (list T)) : list (list T) :=
  map (fun j => col j m) (seq 0 nc).

(* gaussian_filter(hist, s, mode=("wrap", "reflect")): axis 0 (azimuth) with
   wrap, then axis 1 (polar) with reflect, same kernel w *)
Definition gauss2d (w : list T) (nr nc : nat) (m : list (list T)) : list (list T) :=
  let m0 := transpose nr (map (corr1 ext_wrap w) (transpose nc m)) in
  map (corr1 ext_reflect w) m0.

(* ------------------------------------------------- folding with symmetry *)
(* np.digitize(x, inner) with inner = coarse_edges[1:-1] : always a valid bin *)
Definition digitize (inner : list T) (x : T) : nat := count_le inner x.

Definition fold_step (m : list (list T)) (e : (nat * nat) * T) : list (list T) :=
  add_at (fst (fst e)) (snd (fst e)) (snd e) m.
(* temp = zeros; np.add.at(temp, (i, j), hist.ravel()) *)
Definition fold_at (nr nc : nat) (idx : list (nat * nat)) (vals : list T) : list (list T) :=
  fold_left fold_step (combine idx vals) (zeros nr nc).

(* ------------------------------------------------------------------ MRD *)
Fixpoint msum (mask : list bool) (vals : list T) : T :=
  match mask, vals with
  | b :: mr, x :: vr => if b then o_add O x (msum mr vr) else msum mr vr
  | _, _ => zero
  end.
Fixpoint mcount (mask : list bool) : nat :=
  match mask with [] => 0 | b :: r => if b then S (mcount r) else mcount r end.
(* masked mean: sum of the valid bins / number of valid bins *)
Definition mmean (mask : list bool) (vals : list T) : T :=
  o_div O (msum mask vals) (ofnat (mcount mask)).
(* hist / hist.mean() *)
Definition mrd (mask : list bool) (vals : list T) : list T :=
  map (fun x => o_div O x (mmean mask vals)) vals.

(* ------------------------------------------------------- whole pipelines *)
(* symmetry=None: histogram, smoothing, no mask, MRD optional *)
Definition pdf_of_samples (ea ep w : list T) (domrd : bool) (ss : list sample) : list T :=
  let nr := pred (length ea) in let nc := pred (length ep) in
  let h := concat (gauss2d w nr nc (hist2d ea ep ss)) in
  if domrd then mrd (repeat true (length h)) h else h.

Definition pdf_plain (ea ep w : list T) (domrd : bool) (vs : list (vec3 (T:=T))) (ws : list T)
  : list T :=
  pdf_of_samples ea ep w domrd (samples_of vs ws).

(* with symmetry: vectors are first projected into the fundamental sector by
   [fs] (Vector3d.in_fundamental_sector -- external to this model, see C07); the
   fine histogram is folded by [idx] into the coarse grid and masked by [mask] *)
Definition pdf_sym (fs : vec3 (T:=T) -> vec3 (T:=T)) (ea ep w : list T) (cr cc : nat) (idx : list (nat * nat))
  (mask : list bool) (domrd : bool) (vs : list (vec3 (T:=T))) (ws : list T) : list T :=
  let nr := pred (length ea) in let nc := pred (length ep) in
  let h := concat (gauss2d w nr nc (hist2d ea ep (samples_of (map fs vs) ws))) in
  let t := concat (fold_at cr cc idx h) in
  if domrd then mrd mask t else t.

End Pdf.
