(* Exact Farkas certificates for orientation regions (C05): every half-space
   1 +- d of the unpruned large cell is a non-negative K-combination of the
   normals the region keeps.  Checker (executable, no proofs). *)
From Coq Require Import ZArith QArith List String Bool.
From Verif Require Import Scalar KField KSign Quat GroupK.
Import ListNotations.

Definition kquat := quat (T:=K).

Record region_cert := mkRC {
  rc_l : string; rc_r : string;
  rc_N : list kquat;                       (* exact directions of the region's normals *)
  rc_D : list kquat;                       (* exact distinguished points *)
  rc_certs : list (list (nat * K) * list (nat * K))   (* per d: certificate of 1+d and of 1-d *)
}.

Definition kq_zero : kquat := (K0, K0, K0, K0).
Definition kq_add (p q : kquat) : kquat :=
  let '(a, b, c, d) := p in let '(e, f, g, h) := q in (Kadd a e, Kadd b f, Kadd c g, Kadd d h).
Definition kq_scale (l : K) (p : kquat) : kquat :=
  let '(a, b, c, d) := p in (Kmul l a, Kmul l b, Kmul l c, Kmul l d).
Definition kq_one : kquat := (K1, K0, K0, K0).

Fixpoint comb (N : list kquat) (c : list (nat * K)) : kquat :=
  match c with
  | [] => kq_zero
  | (j, l) :: c' => kq_add (kq_scale l (nth j N kq_zero)) (comb N c')
  end.

Definition cert_ok (N : list kquat) (target : kquat) (c : list (nat * K)) : bool :=
  forallb (fun jl => Knonneg (snd jl) && Nat.ltb (fst jl) (List.length N)) c && kq_eqb (comb N c) target.

Fixpoint certs_ok (N : list kquat) (D : list kquat) (cs : list (list (nat * K) * list (nat * K))) : bool :=
  match D, cs with
  | [], [] => true
  | d :: D', (cp, cm) :: cs' =>
      cert_ok N (kq_add kq_one d) cp && cert_ok N (kq_add kq_one (qneg KOps d)) cm && certs_ok N D' cs'
  | _, _ => false
  end.

Definition rc_ok (rc : region_cert) : bool := certs_ok (rc_N rc) (rc_D rc) (rc_certs rc).

(* completeness of D w.r.t. two groups: every ~(gr*gl) is +-1 or a listed distinguished point *)
Definition kq_mem (q : kquat) (L : list kquat) : bool := existsb (kq_eqb q) L.
Definition is_pm_one (q : kquat) : bool := kq_eqb q kq_one || kq_eqb q (qneg KOps kq_one).
Definition d_complete (Gl Gr : list kquat) (D : list kquat) : bool :=
  forallb (fun gl => forallb (fun gr =>
     let c := qconj KOps (qmul KOps gr gl) in is_pm_one c || kq_mem c D) Gr) Gl.
