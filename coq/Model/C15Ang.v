(* C15 -- .ang reader (orix/io/plugins/ang.py), token level.
   Executable definitions only.

   A file is a list of header lines (already classified: the regular
   expressions of `_get_phases_from_header` are abstracted by the constructor
   of the line; whitespace is normalised) and a table of numeric rows.
   `render_ang` lays an abstract file out in the format of the given vendor,
   `parse_ang` follows `file_reader`. *)
From Coq Require Import ZArith List Bool String Ascii.
From Verif Require Import Scalar C15Tables C15Common.
Import ListNotations.
Local Open Scope string_scope.
Local Open Scope list_scope.

Section Ang.
Context {T : Type} (Op : Ops T).

Inductive angline :=
| ALPhase (id : Z)                 (* "# Phase <id>" *)
| ALName (ws : list string)        (* "# MaterialName <w1> <w2> ..."  ([] = no value: does not match) *)
| ALFormula (ws : list string)     (* "# Formula <w> ..." ([] = empty formula) *)
| ALSym (ws : list string)         (* "# Symmetry <code>" *)
| ALLat (vs : list T)              (* "# LatticeConstants a b c alpha beta gamma" *)
| ALInfo (ws : list string)        (* any other "# ..." line, as its words *)
| ALCols (names : list string).    (* "# Column names: n1, n2, ..." (written by orix) *)

Definition key_of (k : string) : string :=
  match aget k ang_header_keys with Some s => s | None => "" end.

(* the text of a line with whitespace normalised (for the footprint search) *)
Definition line_text (l : angline) : string :=
  match l with
  | ALPhase _ => ("# " ++ key_of "ids")%string
  | ALName ws => join " " ("#" :: key_of "names" :: ws)
  | ALFormula ws => join " " ("#" :: key_of "formulas" :: ws)
  | ALSym ws => join " " ("#" :: key_of "point_groups" :: ws)
  | ALLat _ => ("# " ++ key_of "lattice_constants")%string
  | ALInfo ws => join " " ("#" :: ws)
  | ALCols ns => ("# Column names: " ++ join ", " ns)%string
  end.

(* ---- _get_phases_from_header ---- *)
Definition line_ids (l : angline) : list Z := match l with ALPhase i => [i] | _ => [] end.
Definition line_names (l : angline) : list string :=
  match l with ALName (w :: ws) => [join " " (w :: ws)] | _ => [] end.
Definition line_formulas (l : angline) : list string :=
  match l with ALFormula (w :: ws) => [join " " (w :: ws)] | _ => [] end.   (* all words, as for names (repair 684967f) *)
Definition line_pgs (l : angline) : list string :=
  match l with ALSym (w :: ws) => [last (w :: ws) ""] | _ => [] end.
Definition line_lats (l : angline) : list (list T) := match l with ALLat vs => [vs] | _ => [] end.

Definition zrange (a : Z) (n : nat) : list Z := map (fun k => (a + Z.of_nat k)%Z) (seq 0 n).

Record hphases := mkH { h_ids : list Z; h_names : list string; h_pgs : list string; h_lats : list (list T) }.

Definition phases_from_header (hdr : list angline) : hphases :=
  let ids := flat_map line_ids hdr in
  let names0 := flat_map line_names hdr in
  let formulas := flat_map line_formulas hdr in
  let n := List.length names0 in
  let names := if Nat.eqb (List.length formulas) n && forallb (fun s => negb (String.eqb s "")) formulas
               then formulas else names0 in
  let ids' := match ids with
              | [] => zrange 0 n
              | _ => if Nat.ltb (List.length ids) n
                     then ids ++ zrange (zmax ids + 1) (n - List.length ids) else ids
              end in
  mkH ids' names (flat_map line_pgs hdr) (flat_map line_lats hdr).

(* ---- _get_vendor_columns ---- *)
Definition has_fp (fp : string) (l : angline) : bool := contains fp (line_text l).

Definition ang_vendor (hdr : list angline) : string * option angline :=
  fold_left (fun acc nf => match find (has_fp (snd nf)) hdr with
                           | Some l => (fst nf, Some l)
                           | None => acc end)
            ang_footprints (ang_default_vendor, None).

Definition variants_of (v : string) : list (list string) :=
  match aget v ang_column_names with Some vs => vs | None => [] end.

(* footprint_line.split(":")[1].split(",") , then lstrip and replace(" ", "_") *)
Definition colnames_of (l : angline) : list string :=
  match l with ALCols ns => map spaces2underscore ns | _ => [] end.

(* -> (vendor, column names, warning issued) *)
Definition ang_columns (hdr : list angline) (ncols : nat) : string * list string * bool :=
  let '(vendor, fl) := ang_vendor hdr in
  let variants := variants_of vendor in
  let expected := map (@List.length string) variants in
  let is_orix := String.eqb vendor "orix" &&
                 match fl with Some l => contains "Column names" (line_text l) | None => false end in
  if is_orix then
    (vendor, nth 0 variants [] ++
             skipn (nth 0 expected 0%nat) (match fl with Some l => colnames_of l | None => [] end), false)
  else if negb (existsb (Nat.eqb ncols) expected) then
    let base := nth 0 (variants_of "unknown") [] in
    ("unknown",
     base ++ map (fun i => (ang_extra_prefix ++ nat2str (i + ang_extra_offset))%string)
                 (seq 0 (ncols - List.length base)), true)
  else
    (vendor, match find (fun v => Nat.eqb (List.length v) ncols) variants with Some v => v | None => [] end, false).

(* ---- file_reader ---- *)
Record angdata := mkAD { ad_core : list (string * list (num (T:=T))); ad_prop : list (string * list (num (T:=T))) }.

(* for column, name in enumerate(column_names): data_dict[name] / prop[name] = file_data[:, column] *)
Fixpoint assign_cols (names : list string) (k : nat) (rows : list (list (num (T:=T)))) (d : angdata) : result angdata :=
  match names with
  | [] => Ok d
  | nm :: names' =>
      if Nat.ltb k (ncols_of rows) then
        let c := col k rows in
        assign_cols names' (S k) rows
          (if mem_str nm ang_core_names then mkAD (aset nm c (ad_core d)) (ad_prop d)
           else mkAD (ad_core d) (aset nm c (ad_prop d)))
      else Err EIndex
  end.

Definition core (nm : string) (d : angdata) : list (num (T:=T)) :=
  match aget nm (ad_core d) with Some c => c | None => [] end.

Definition minus1 : T := o_opp Op (o_ofZ Op 1).

Definition parse_ang (hdr : list angline) (rows : list (list (num (T:=T)))) : result (xmap (T:=T)) :=
  let h := phases_from_header hdr in
  let '(vendor, names, warn) := ang_columns hdr (ncols_of rows) in
  bind (assign_cols names 0 rows (mkAD [] [])) (fun d =>
  bind (phaselist Op (h_ids h) (h_names h) [] (map Some (h_pgs h))
          (firstn (List.length (h_names h)) (h_lats h))) (fun pl =>
  let pid0 := map nint (core "phase_id" d) in
  let pid :=
    if mem_str vendor ang_ci_vendors then
      match aget "ci" (ad_prop d) with
      | Some ci => map (fun p => if o_eqb Op (nval Op (fst p)) minus1 then (-1)%Z else snd p) (combine ci pid0)
      | None => pid0
      end
    else pid0 in
  let unit := if String.eqb vendor (fst ang_unit_special) then snd ang_unit_special else ang_unit_default in
  let v nm := map (nval Op) (core nm d) in
  let eu := zip3 (v "euler1") (v "euler2") (v "euler3") in
  let eu' := if ang_degrees then map (eu_deg2rad Op) eu else eu in
  Ok (crystal_map Op 1 eu' (v "x") (v "y") pid
        (map (fun p => (fst p, (1%nat, map (nval Op) (snd p)))) (ad_prop d)) unit pl warn))).

(* ------------------------------------------------------ abstract files *)
Inductive avendor := Tsl | AEmsoft | AAstar | AOrix.

Record aphase := mkAP {
  ap_id : option Z;              (* "# Phase n" line present? *)
  ap_name : list string;         (* words of the material name *)
  ap_formula : option string;    (* None: "# Formula" without a value *)
  ap_info : list (list string);  (* other lines of the phase block *)
  ap_sym : string;               (* symmetry code *)
  ap_lat : list T
}.

Record apoint := mkPt {
  p_eu : T * T * T;              (* radians *)
  p_x : T; p_y : T;
  p_q : T;                       (* iq / ind *)
  p_c : T;                       (* ci / dp / rel *)
  p_pid : Z;
  p_rest : list T                (* the columns after phase id *)
}.

Record angfile := mkAF {
  af_vendor : avendor;
  af_pre : list (list string);   (* free header lines before the phases *)
  af_phases : list aphase;
  af_post : list (list string);  (* free header lines after the phases *)
  af_extra : list string;        (* orix: names of the columns after the ten standard ones *)
  af_pts : list apoint           (* row-major *)
}.

Definition render_phase (p : aphase) : list angline :=
  (match ap_id p with Some i => [ALPhase i] | None => [] end) ++
  [ALName (ap_name p); ALFormula (match ap_formula p with Some f => [f] | None => [] end)] ++
  map ALInfo (ap_info p) ++ [ALSym [ap_sym p]; ALLat (ap_lat p)].

Definition orix_base_names : list string :=
  ["phi1"; "Phi"; "phi2"; "x"; "y"; "image_quality"; "confidence_index"; "phase_id"; "detector_signal"; "fit"].

Definition vendor_pre (v : avendor) : list angline :=
  match v with
  | AAstar => [ALInfo ["File"; "created"; "from"; "ACOM"; "RES"; "results"]]
  | AEmsoft => [ALInfo ["Info"; "patterns"; "indexed"; "using"; "EMsoft::EMEBSDDI"]]
  | _ => []
  end.
Definition vendor_post (f : angfile) : list angline :=
  match af_vendor f with AOrix => [ALCols (orix_base_names ++ af_extra f)] | _ => [] end.

Definition render_hdr (f : angfile) : list angline :=
  vendor_pre (af_vendor f) ++ map ALInfo (af_pre f) ++ flat_map render_phase (af_phases f) ++
  map ALInfo (af_post f) ++ vendor_post f.

Definition render_pt (p : apoint) : list (num (T:=T)) :=
  let '(a, b, c) := p_eu p in
  [NF a; NF b; NF c; NF (p_x p); NF (p_y p); NF (p_q p); NF (p_c p); NI (p_pid p)] ++ map NF (p_rest p).

Definition render_ang (f : angfile) : list angline * list (list (num (T:=T))) :=
  (render_hdr f, map render_pt (af_pts f)).

End Ang.

Arguments ALPhase {T} _. Arguments ALName {T} _. Arguments ALFormula {T} _.
Arguments ALSym {T} _. Arguments ALLat {T} _. Arguments ALInfo {T} _. Arguments ALCols {T} _.
Arguments mkAP {T} _ _ _ _ _ _. Arguments mkPt {T} _ _ _ _ _ _ _.
Arguments mkAF {T} _ _ _ _ _ _.
