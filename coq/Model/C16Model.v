(* C16 -- value semantics of orix's array-like objects under structural
   operations.  EXECUTABLE DEFINITIONS ONLY (no proofs).

   Layers
   1. array primitives on (shape, flat C-order element list): plans for
      getitem (int / slice / tuple keys, boolean masks, integer lists),
      reshape (with one -1), transpose, flatten (= reverse all axes, then
      C-order ravel, as `_data.T.reshape(d, -1).T` does), squeeze, stack;
   2. the SPECIFICATION machine: a structural operation acts on the rows
      (value, improper flag) of an object exactly as on an index array, the
      element-wise operations (unit, ~, -) act as `map` on rows, metadata is
      kept (swapped by ~ on a misorientation);
   3. the FAITHFUL machine: one function per method of Object3d / Quaternion /
      Rotation / Misorientation / Orientation / Vector3d / Miller, written from
      the code in /repo (which part of `_data` the method reads, what the
      constructor resets, which attribute the subclass re-attaches);
   4. programs (lists of operations) and their runs on both machines;
   5. read-only properties as state transformers. *)
From Coq Require Import ZArith List Bool Arith Lia.
From Verif Require Import Scalar NdIndex.
Import ListNotations.

(* ------------------------------------------------------------------ 1 *)
Definition gather {E} (d : E) (l : list E) (ks : list nat) : list E :=
  map (fun k => nth k l d) ks.

Definition atleast1 (s : list nat) : list nat := match s with [] => [1] | _ => s end.
Definition squeeze_shape (s : list nat) : list nat :=
  filter (fun n => negb (Nat.eqb n 1)) s.

(* a structural operation on a shape: error, keep the flat list under a new
   shape, or gather the listed source positions under a new shape *)
Inductive plan := PErr | PKeep (s' : list nat) | PGather (s' : list nat) (ps : list nat).

Definition apply_plan {E} (d : E) (l : list E) (p : plan) : option (list nat * list E) :=
  match p with
  | PErr => None
  | PKeep s' => Some (s', l)
  | PGather s' ps => Some (s', gather d l ps)
  end.

(* --- transpose: result.shape[j] = shape[axes[j]], result[i'] = a[i] with
   i[axes[j]] = i'[j] *)
Fixpoint pos (i : nat) (axes : list nat) : nat :=
  match axes with
  | [] => 0
  | a :: r => if Nat.eqb a i then 0 else S (pos i r)
  end.
Definition perm_ok (n : nat) (axes : list nat) : bool :=
  Nat.eqb (length axes) n && forallb (fun i => existsb (Nat.eqb i) axes) (seq 0 n).
Definition tr_shape (s axes : list nat) : list nat := map (fun a => nth a s 0) axes.
Definition tr_src (n : nat) (axes i' : list nat) : list nat :=
  map (fun i => nth (pos i axes) i' 0) (seq 0 n).
Definition idx_transpose (s axes : list nat) : list nat :=
  let s' := tr_shape s axes in
  map (fun k => ravel s (tr_src (length s) axes (unravel s' k))) (seq 0 (size s')).

(* --- flatten: `.T` (all axes reversed) then C-order ravel into one axis *)
Definition rev_axes (n : nat) : list nat := rev (seq 0 n).
Definition idx_flatten (s : list nat) : list nat := idx_transpose s (rev_axes (length s)).

(* Object3d.transpose(axes...): 1-D objects are returned as they are; no axes
   given is allowed for 2-D only and means (1, 0) *)
Definition plan_transpose (s : list nat) (axes : option (list nat)) : plan :=
  if Nat.eqb (length s) 1 then PKeep s else
  match axes with
  | None => if Nat.eqb (length s) 2 then PGather (tr_shape s [1; 0]) (idx_transpose s [1; 0]) else PErr
  | Some ax => if perm_ok (length s) ax then PGather (tr_shape s ax) (idx_transpose s ax) else PErr
  end.

Definition plan_flatten (s : list nat) : plan := PGather [size s] (idx_flatten s).
Definition plan_squeeze (s : list nat) : plan := PKeep (atleast1 (squeeze_shape s)).

(* --- reshape(dims...) with at most one unknown dimension; this NumPy treats
   every negative entry as the unknown one *)
Definition count_neg1 (dims : list Z) : nat := length (filter (fun z => Z.ltb z 0) dims).
Definition known_prod (dims : list Z) : Z :=
  fold_right (fun z acc => if Z.ltb z 0 then acc else (z * acc)%Z) 1%Z dims.
Definition resolve_shape (n : nat) (dims : list Z) : option (list nat) :=
  match dims with [] => None | _ =>
  let p := known_prod dims in
  match count_neg1 dims with
  | 0 => if Z.eqb p (Z.of_nat n) then Some (map Z.to_nat dims) else None
  | 1 => if Z.eqb p 0 then None
         else if Z.eqb (Z.of_nat n mod p) 0
              then Some (map (fun z => if Z.ltb z 0 then Z.to_nat (Z.of_nat n / p) else Z.to_nat z) dims)
              else None
  | _ => None
  end end.
Definition plan_reshape (s : list nat) (dims : list Z) : plan :=
  match resolve_shape (size s) dims with Some s' => PKeep s' | None => PErr end.

(* --- indexing keys *)
Inductive kitem := KInt (z : Z) | KSlice (start stop step : option Z).
Inductive key :=
| KBasic (items : list kitem)               (* int / slice / tuple of them *)
| KMask (mshape : list nat) (bits : list bool)  (* boolean array over leading axes *)
| KFancy (ixs : list Z)                     (* integer list on the first axis *)
| KEllip (before after : list kitem).       (* items, Ellipsis, items: the Ellipsis stands for full slices of the axes not named
                                               (since repair 32d9ef9 a key never reaches the component axis) *)

Definition norm_index (n : nat) (z : Z) : option nat :=
  let zn := Z.of_nat n in
  if (Z.leb (- zn) z && Z.ltb z zn)%bool
  then Some (Z.to_nat (if Z.ltb z 0 then z + zn else z)%Z) else None.

(* python slice(start, stop, step).indices(n) *)
Definition clip_bound (n step : Z) (is_stop : bool) (v : option Z) : Z :=
  let lower := if Z.ltb step 0 then (-1)%Z else 0%Z in
  let upper := if Z.ltb step 0 then (n - 1)%Z else n in
  match v with
  | None => if xorb (Z.ltb step 0) is_stop then upper else lower
  | Some x => if Z.ltb x 0 then Z.max (x + n) lower else Z.min x upper
  end.
Definition slice_len (a b st : Z) : Z :=
  if Z.ltb 0 st then (if Z.ltb a b then (b - a - 1) / st + 1 else 0)%Z
  else (if Z.ltb b a then (a - b - 1) / (- st) + 1 else 0)%Z.
Definition slice_indices (n : nat) (a b c : option Z) : option (list nat) :=
  let st := match c with None => 1%Z | Some x => x end in
  if Z.eqb st 0 then None else
  let a0 := clip_bound (Z.of_nat n) st false a in
  let b0 := clip_bound (Z.of_nat n) st true b in
  Some (map (fun j => Z.to_nat (a0 + Z.of_nat j * st)%Z) (seq 0 (Z.to_nat (slice_len a0 b0 st)))).

(* per axis: selected indices, and whether the axis survives (slice) or is
   dropped (integer) *)
Fixpoint basic_sels (s : list nat) (items : list kitem) : option (list (list nat * bool)) :=
  match s, items with
  | [], [] => Some []
  | [], _ :: _ => None
  | n :: s', [] =>
      match basic_sels s' [] with Some t => Some ((seq 0 n, true) :: t) | None => None end
  | n :: s', KInt z :: r =>
      match norm_index n z, basic_sels s' r with
      | Some i, Some t => Some (([i], false) :: t) | _, _ => None end
  | n :: s', KSlice a b c :: r =>
      match slice_indices n a b c, basic_sels s' r with
      | Some l, Some t => Some ((l, true) :: t) | _, _ => None end
  end.

(* C-order positions of the cartesian product of the per-axis selections *)
Fixpoint sel_positions (s : list nat) (sels : list (list nat)) : list nat :=
  match s, sels with
  | n :: s', sel :: r =>
      flat_map (fun i => map (fun q => i * size s' + q) (sel_positions s' r)) sel
  | _, _ => [0]
  end.

Definition kept_shape (sels : list (list nat * bool)) : list nat :=
  map (fun p => length (fst p)) (filter snd sels).

Fixpoint true_positions (k : nat) (bits : list bool) : list nat :=
  match bits with
  | [] => []
  | b :: r => if b then k :: true_positions (S k) r else true_positions (S k) r
  end.
Definition blocks (bs : nat) (ps : list nat) : list nat :=
  flat_map (fun p => seq (p * bs) bs) ps.
Fixpoint prefix_eqb (m s : list nat) : bool :=
  match m, s with
  | [], _ => true
  | a :: m', b :: s' => Nat.eqb a b && prefix_eqb m' s'
  | _ :: _, [] => false
  end.
Fixpoint norm_all (n : nat) (zs : list Z) : option (list nat) :=
  match zs with
  | [] => Some []
  | z :: r => match norm_index n z, norm_all n r with
              | Some i, Some t => Some (i :: t) | _, _ => None end
  end.

(* `np.atleast_2d(self.data[key])`: a fully integer-indexed element gets
   shape (1,) *)
Definition plan_basic (s : list nat) (items : list kitem) : plan :=
  match basic_sels s items with
  | Some sels => PGather (atleast1 (kept_shape sels)) (sel_positions s (map fst sels))
  | None => PErr
  end.
Definition expand_ellipsis (s : list nat) (b a : list kitem) : option (list kitem) :=
  let nb := (length b + length a)%nat in
  if Nat.leb nb (length s)
  then Some (b ++ repeat (KSlice None None None) (length s - nb) ++ a)
  else None.

Definition plan_get (s : list nat) (k : key) : plan :=
  match k with
  | KBasic items => plan_basic s items
  | KEllip b a =>
      match expand_ellipsis s b a with
      | Some items => plan_basic s items
      | None => PErr
      end
  | KMask m bits =>
      if (negb (Nat.eqb (length m) 0) && prefix_eqb m s && Nat.eqb (length bits) (size m))%bool
      then let rest := skipn (length m) s in
           let tp := true_positions 0 bits in
           PGather (length tp :: rest) (blocks (size rest) tp)
      else PErr
  | KFancy ixs =>
      match s with
      | n :: rest =>
          match norm_all n ixs with
          | Some l => PGather (length l :: rest) (blocks (size rest) l)
          | None => PErr
          end
      | [] => PErr
      end
  end.

(* --- stack(sequence): new LAST navigation axis (np.stack(..., axis=-2) on
   the widened arrays) *)
Definition stack_rows {E} (d : E) (n : nat) (ls : list (list E)) : list E :=
  flat_map (fun p => map (fun l => nth p l d) ls) (seq 0 n).

Fixpoint shape_eqn (a b : list nat) : bool :=
  match a, b with
  | [], [] => true
  | x :: a', y :: b' => Nat.eqb x y && shape_eqn a' b'
  | _, _ => false
  end.

(* ------------------------------------------------------------------ 2 *)
(* element-wise operations *)
Inductive eop := EId | EUnit | EInv | ENeg.

Inductive op :=
| OGet (k : key)
| OReshape (dims : list Z)
| OFlatten
| OTranspose (axes : option (list nat))
| OSqueeze
| OStack (vs : list eop)        (* cls.stack([v(o) for v in vs]) *)
| OEl (e : eop).                (* o.unit, ~o, -o *)

Definition plan_of (o : op) (s : list nat) : plan :=
  match o with
  | OGet k => plan_get s k
  | OReshape dims => plan_reshape s dims
  | OFlatten => plan_flatten s
  | OTranspose axes => plan_transpose s axes
  | OSqueeze => plan_squeeze s
  | _ => PErr
  end.

Fixpoint all_some {A} (l : list (option A)) : option (list A) :=
  match l with
  | [] => Some []
  | Some x :: r => match all_some r with Some t => Some (x :: t) | None => None end
  | None :: _ => None
  end.

(* the generic array machine: elements of any type E, element-wise operations
   given by [act] (None = the class does not have the operation) *)
Section ArrMachine.
Context {E : Type} (act : eop -> option (E -> E)) (d : E).

Local Notation arr := (list nat * list E)%type.

Definition astep (o : op) (a : arr) : option arr :=
  let '(s, l) := a in
  match o with
  | OEl e => match act e with Some f => Some (s, map f l) | None => None end
  | OStack vs =>
      match vs with
      | [] => None
      | _ => match all_some (map act vs) with
             | Some fs => Some (s ++ [length fs], stack_rows d (size s) (map (fun f => map f l) fs))
             | None => None
             end
      end
  | _ => apply_plan d l (plan_of o s)
  end.

Fixpoint arun (p : list op) (a : arr) : option arr :=
  match p with
  | [] => Some a
  | o :: r => match astep o a with Some a' => arun r a' | None => None end
  end.
End ArrMachine.

(* classes and metadata *)
Inductive cls := CQuat | CRot | CMis | COri | CVec | CMil.
Definition is_rot (c : cls) : bool := match c with CRot | CMis | COri => true | _ => false end.
Definition is_quat (c : cls) : bool := match c with CVec | CMil => false | _ => true end.

(* symmetry pair (ids; 0 = C1), phase (0 = None), coordinate format (0 = xyz) *)
Record meta := mkMeta { symL : Z; symR : Z; phase : Z; fmt : Z }.
Definition meta0 : meta := mkMeta 0 0 0 0.
Definition meta_swap (m : meta) : meta := mkMeta (symR m) (symL m) (phase m) (fmt m).
Definition meta_eqb (a b : meta) : bool :=
  (Z.eqb (symL a) (symL b) && Z.eqb (symR a) (symR b) && Z.eqb (phase a) (phase b)
   && Z.eqb (fmt a) (fmt b))%bool.

(* value-level functions of a class (unit, inverse, negation of ONE value)
   and a default value; the whole development is generic in these *)
Record vfuns (V : Type) := mkVfuns { v_unit : V -> V; v_inv : V -> V; v_neg : V -> V; v_dflt : V }.
Arguments v_unit {V} _. Arguments v_inv {V} _. Arguments v_neg {V} _. Arguments v_dflt {V} _.

Record obj (V : Type) := mkObj { oshape : list nat; orows : list (V * bool); ometa : meta }.
Arguments mkObj {V} _ _ _. Arguments oshape {V} _. Arguments orows {V} _. Arguments ometa {V} _.

Section Machines.
Context {V : Type} (vf : vfuns V).

Local Notation row := (V * bool)%type.
Definition drow : row := (v_dflt vf, false).

(* specification of the element-wise operations on one row (value, flag):
   the flag travels with the value; unary minus of a rotation toggles the
   flag and keeps the quaternion, of any other class negates the value *)
Definition sact (c : cls) (e : eop) : option (row -> row) :=
  match e with
  | EId => Some (fun r => r)
  | EUnit => Some (fun r => (v_unit vf (fst r), snd r))
  | EInv => if is_quat c then Some (fun r => (v_inv vf (fst r), snd r)) else None
  | ENeg => if is_rot c then Some (fun r => (fst r, negb (snd r)))
            else Some (fun r => (v_neg vf (fst r), snd r))
  end.

Definition smeta (c : cls) (o : op) (m : meta) : meta :=
  match o with
  | OEl EInv => match c with CMis => meta_swap m | _ => m end
  | OStack _ => meta0       (* several operands: no metadata claim *)
  | _ => m
  end.

Definition step_spec (c : cls) (o : op) (x : obj V) : option (obj V) :=
  match astep (sact c) drow o (oshape x, orows x) with
  | Some (s', l') => Some (mkObj s' l' (smeta c o (ometa x)))
  | None => None
  end.

(* ------------------------------------------------------------------ 3 *)
(* the implementation's view of an object: `_data` rows; `.data` = first dim
   columns, `.improper` = last column *)
Definition o_data (x : obj V) : list V := map fst (orows x).
Definition o_flags (x : obj V) : list bool := map snd (orows x).
(* cls(array): fresh object, flag column zero, class-default metadata *)
Definition mk (s : list nat) (data : list V) : obj V :=
  mkObj s (map (fun v => (v, false)) data) meta0.
(* R.improper = value *)
Definition set_flags (x : obj V) (fl : list bool) : obj V :=
  mkObj (oshape x) (combine (o_data x) fl) (ometa x).
(* obj._data = array *)
Definition set_rows (x : obj V) (s : list nat) (rows : list row) : obj V :=
  mkObj s rows (ometa x).
Definition set_meta (x : obj V) (m : meta) : obj V := mkObj (oshape x) (orows x) m.
(* M._symmetry = self._symmetry *)
Definition attach_sym (x self : obj V) : obj V :=
  set_meta x (mkMeta (symL (ometa self)) (symR (ometa self)) 0 0).
(* O.symmetry = self.symmetry   (the setter stores (C1, value)) *)
Definition attach_ori_sym (x self : obj V) : obj V :=
  set_meta x (mkMeta 0 (symR (ometa self)) 0 0).
(* Miller(xyz=..., phase=self.phase); m.coordinate_format = self.coordinate_format *)
Definition attach_miller (x self : obj V) : obj V :=
  set_meta x (mkMeta 0 0 (phase (ometa self)) (fmt (ometa self))).

Definition obind {A B} (x : option A) (f : A -> option B) : option B :=
  match x with Some a => f a | None => None end.

(* ---- Object3d *)
Definition base_getitem (k : key) (x : obj V) : option (obj V) :=
  match apply_plan (v_dflt vf) (o_data x) (plan_get (oshape x) k) with
  | Some (s', d') => Some (mk s' d') | None => None end.
Definition base_flatten (x : obj V) : option (obj V) :=
  (* obj = cls(data.T.reshape(dim,-1).T); obj._data = _data.T.reshape(real_dim,-1).T *)
  match apply_plan (v_dflt vf) (o_data x) (plan_flatten (oshape x)),
        apply_plan drow (orows x) (plan_flatten (oshape x)) with
  | Some (s', d'), Some (s'', r') => Some (set_rows (mk s' d') s'' r')
  | _, _ => None end.
Definition base_squeeze (c : cls) (x : obj V) : option (obj V) :=
  (* obj = cls(self): Miller(xyz=<Miller>) raises; obj._data = atleast_2d(_data.squeeze()) *)
  match c with
  | CMil => None
  | _ => match apply_plan drow (orows x) (plan_squeeze (oshape x)) with
         | Some (s', r') => Some (set_rows (mk (oshape x) (o_data x)) s' r')
         | None => None end
  end.
Definition base_reshape (dims : list Z) (x : obj V) : option (obj V) :=
  match apply_plan (v_dflt vf) (o_data x) (plan_reshape (oshape x) dims),
        apply_plan drow (orows x) (plan_reshape (oshape x) dims) with
  | Some (s', d'), Some (s'', r') => Some (set_rows (mk s' d') s'' r')
  | _, _ => None end.
Definition base_transpose (axes : option (list nat)) (x : obj V) : option (obj V) :=
  (* 1-D: `return self`; otherwise obj = cls(self.data.transpose(...));
     obj._data = self._data.transpose(...) *)
  if Nat.eqb (length (oshape x)) 1 then Some x else
  match apply_plan (v_dflt vf) (o_data x) (plan_transpose (oshape x) axes),
        apply_plan drow (orows x) (plan_transpose (oshape x) axes) with
  | Some (s', d'), Some (s'', r') => Some (set_rows (mk s' d') s'' r')
  | _, _ => None end.
Definition base_unit (x : obj V) : option (obj V) :=
  Some (mk (oshape x) (map (v_unit vf) (o_data x))).
Definition base_stack (xs : list (obj V)) : option (obj V) :=
  (* stack = np.stack([s._data ...], axis=-2); obj = cls(stack[..., :dim]); obj._data = stack *)
  match xs with
  | [] => None
  | x0 :: _ =>
      if forallb (fun x => shape_eqn (oshape x) (oshape x0)) xs
      then Some (mkObj (oshape x0 ++ [length xs])
                       (stack_rows drow (size (oshape x0)) (map orows xs)) meta0)
      else None
  end.

(* ---- Quaternion(Object3d) *)
Definition quat_invert (x : obj V) : option (obj V) :=
  Some (mk (oshape x) (map (v_inv vf) (o_data x))).
Definition quat_neg (x : obj V) : option (obj V) :=
  Some (mk (oshape x) (map (v_neg vf) (o_data x))).

(* ---- Rotation(Quaternion): widened data; overrides unit, getitem, invert, neg, flatten *)
Definition rot_unit (x : obj V) : option (obj V) :=
  (* R = super().unit; R.improper = self.improper *)
  obind (base_unit x) (fun R => Some (set_flags R (o_flags x))).
Definition rot_getitem (k : key) (x : obj V) : option (obj V) :=
  (* R = super().__getitem__(key); R.improper = self.improper[key] *)
  match base_getitem k x, apply_plan false (o_flags x) (plan_get (oshape x) k) with
  | Some R, Some (_, fl) => Some (set_flags R fl)
  | _, _ => None end.
Definition rot_invert (x : obj V) : option (obj V) :=
  obind (quat_invert x) (fun R => Some (set_flags R (o_flags x))).
Definition rot_neg (x : obj V) : option (obj V) :=
  (* R = cls(self.data); R.improper = logical_not(self.improper) *)
  Some (set_flags (mk (oshape x) (o_data x)) (map negb (o_flags x))).
Definition rot_flatten (x : obj V) : option (obj V) :=
  (* R = super().flatten(); R.improper = self.improper.T.flatten().T *)
  match base_flatten x, apply_plan false (o_flags x) (plan_flatten (oshape x)) with
  | Some R, Some (_, fl) => Some (set_flags R fl)
  | _, _ => None end.

(* ---- Misorientation(Rotation): re-attaches _symmetry in unit, getitem,
   invert (reversed), neg, reshape, flatten, squeeze, transpose *)
Definition mis_unit (x : obj V) : option (obj V) :=
  obind (rot_unit x) (fun M => Some (attach_sym M x)).
Definition mis_neg (x : obj V) : option (obj V) :=
  obind (rot_neg x) (fun M => Some (attach_sym M x)).
Definition mis_getitem (k : key) (x : obj V) : option (obj V) :=
  obind (rot_getitem k x) (fun M => Some (attach_sym M x)).
Definition mis_invert (x : obj V) : option (obj V) :=
  obind (rot_invert x) (fun M => Some (set_meta M (mkMeta (symR (ometa x)) (symL (ometa x)) 0 0))).
Definition mis_reshape (dims : list Z) (x : obj V) : option (obj V) :=
  obind (base_reshape dims x) (fun M => Some (attach_sym M x)).
Definition mis_flatten (x : obj V) : option (obj V) :=
  obind (rot_flatten x) (fun M => Some (attach_sym M x)).
Definition mis_squeeze (c : cls) (x : obj V) : option (obj V) :=
  obind (base_squeeze c x) (fun M => Some (attach_sym M x)).
Definition mis_transpose (axes : option (list nat)) (x : obj V) : option (obj V) :=
  obind (base_transpose axes x) (fun M => Some (attach_sym M x)).

(* ---- Orientation(Misorientation): overrides unit, invert, neg *)
Definition ori_unit (x : obj V) : option (obj V) :=
  obind (mis_unit x) (fun O => Some (attach_ori_sym O x)).
Definition ori_invert (x : obj V) : option (obj V) :=
  obind (mis_invert x) (fun O => Some (attach_ori_sym O x)).
Definition ori_neg (x : obj V) : option (obj V) :=
  obind (mis_neg x) (fun O => Some (attach_ori_sym O x)).

(* ---- Vector3d(Object3d): only neg; no __invert__ *)
Definition vec_neg (x : obj V) : option (obj V) :=
  Some (mk (oshape x) (map (v_neg vf) (o_data x))).

(* ---- Miller(Vector3d): re-attaches phase and coordinate format in unit,
   getitem, neg, flatten, transpose, reshape, squeeze *)
Definition data_only (x : obj V) : obj V := mk (oshape x) (o_data x).
Definition mil_wrap (r : option (obj V)) (self : obj V) : option (obj V) :=
  (* Miller(xyz=<result>.data, phase=self.phase) + coordinate format *)
  obind r (fun m => Some (attach_miller (data_only m) self)).
Definition mil_getitem (k : key) (x : obj V) : option (obj V) := mil_wrap (base_getitem k x) x.
Definition mil_unit (x : obj V) : option (obj V) := mil_wrap (base_unit x) x.
Definition mil_flatten (x : obj V) : option (obj V) := mil_wrap (base_flatten x) x.
Definition mil_transpose (axes : option (list nat)) (x : obj V) : option (obj V) :=
  mil_wrap (base_transpose axes x) x.
Definition mil_reshape (dims : list Z) (x : obj V) : option (obj V) :=
  mil_wrap (base_reshape dims x) x.
Definition mil_neg (x : obj V) : option (obj V) :=
  (* Miller(xyz=-self.data, phase=self.phase) + coordinate format *)
  Some (attach_miller (mk (oshape x) (map (v_neg vf) (o_data x))) x).
Definition mil_squeeze (x : obj V) : option (obj V) :=
  (* Miller(xyz=atleast_2d(self.data.squeeze()), phase=self.phase) + coordinate
     format; Object3d.squeeze (which cannot rebuild a Miller) is not called *)
  match apply_plan (v_dflt vf) (o_data x) (plan_squeeze (oshape x)) with
  | Some (s', d') => Some (attach_miller (mk s' d') x) | None => None end.

(* ---- method resolution *)
Definition m_getitem (c : cls) (k : key) (x : obj V) : option (obj V) :=
  match c with
  | CQuat | CVec => base_getitem k x
  | CRot => rot_getitem k x
  | CMis | COri => mis_getitem k x
  | CMil => mil_getitem k x
  end.
Definition m_reshape (c : cls) (dims : list Z) (x : obj V) : option (obj V) :=
  match c with
  | CMis | COri => mis_reshape dims x
  | CMil => mil_reshape dims x
  | _ => base_reshape dims x
  end.
Definition m_flatten (c : cls) (x : obj V) : option (obj V) :=
  match c with
  | CQuat | CVec => base_flatten x
  | CRot => rot_flatten x
  | CMis | COri => mis_flatten x
  | CMil => mil_flatten x
  end.
Definition m_transpose (c : cls) (axes : option (list nat)) (x : obj V) : option (obj V) :=
  match c with
  | CMis | COri => mis_transpose axes x
  | CMil => mil_transpose axes x
  | _ => base_transpose axes x
  end.
Definition m_squeeze (c : cls) (x : obj V) : option (obj V) :=
  match c with
  | CMis | COri => mis_squeeze c x
  | CMil => mil_squeeze x
  | _ => base_squeeze c x
  end.
Definition m_unit (c : cls) (x : obj V) : option (obj V) :=
  match c with
  | CQuat | CVec => base_unit x
  | CRot => rot_unit x
  | CMis => mis_unit x
  | COri => ori_unit x
  | CMil => mil_unit x
  end.
Definition m_invert (c : cls) (x : obj V) : option (obj V) :=
  match c with
  | CQuat => quat_invert x
  | CRot => rot_invert x
  | CMis => mis_invert x
  | COri => ori_invert x
  | CVec | CMil => None          (* TypeError: bad operand type for unary ~ *)
  end.
Definition m_neg (c : cls) (x : obj V) : option (obj V) :=
  match c with
  | CQuat => quat_neg x
  | CRot => rot_neg x
  | CMis => mis_neg x
  | COri => ori_neg x
  | CVec => vec_neg x
  | CMil => mil_neg x
  end.
Definition m_eop (c : cls) (e : eop) (x : obj V) : option (obj V) :=
  match e with
  | EId => Some x
  | EUnit => m_unit c x
  | EInv => m_invert c x
  | ENeg => m_neg c x
  end.

Definition step_cls (c : cls) (o : op) (x : obj V) : option (obj V) :=
  match o with
  | OGet k => m_getitem c k x
  | OReshape dims => m_reshape c dims x
  | OFlatten => m_flatten c x
  | OTranspose axes => m_transpose c axes x
  | OSqueeze => m_squeeze c x
  | OStack vs => obind (all_some (map (fun e => m_eop c e x) vs)) base_stack
  | OEl e => m_eop c e x
  end.

(* ------------------------------------------------------------------ 4 *)
Fixpoint run (step : op -> obj V -> option (obj V)) (p : list op) (x : obj V) : option (obj V) :=
  match p with
  | [] => Some x
  | o :: r => match step o x with Some x' => run step r x' | None => None end
  end.

(* class invariant of an object *)
Definition noflags (x : obj V) : bool := forallb (fun r => negb (snd r)) (orows x).
Definition wf_meta (c : cls) (m : meta) : bool :=
  match c with
  | CMis => Z.eqb (phase m) 0 && Z.eqb (fmt m) 0
  | COri => Z.eqb (symL m) 0 && Z.eqb (phase m) 0 && Z.eqb (fmt m) 0
  | CMil => Z.eqb (symL m) 0 && Z.eqb (symR m) 0
  | _ => meta_eqb m meta0
  end.
Definition wf (c : cls) (x : obj V) : bool :=
  wf_meta c (ometa x) && (is_rot c || noflags x).
End Machines.

(* ------------------------------------------------------------------ 5 *)
(* values as component lists over a scalar instance: quaternions (a,b,c,d),
   vectors (x,y,z) *)
Section ListValues.
Context {T : Type} (O : Ops T).
Definition l_norm2 (l : list T) : T :=
  fold_right (fun x acc => o_add O (o_mul O x x) acc) (o_ofZ O 0) l.
(* Object3d.unit: nan_to_num(data / norm) -- the zero vector stays zero *)
Definition l_unit (l : list T) : list T :=
  let n := o_sqrt O (l_norm2 l) in
  if o_eqb O n (o_ofZ O 0) then map (fun _ => o_ofZ O 0) l else map (fun x => o_div O x n) l.
(* Quaternion.__invert__: conj / norm**2 *)
Definition l_inv (l : list T) : list T :=
  let n2 := l_norm2 l in
  match l with
  | a :: r => o_div O a n2 :: map (fun x => o_div O (o_opp O x) n2) r
  | [] => []
  end.
Definition l_neg (l : list T) : list T := map (o_opp O) l.
Definition lvf : vfuns (list T) := mkVfuns (list T) l_unit l_inv l_neg [].

(* Vector3d.azimuth: atol = 1e-8 * self.radial; x[isclose(x, 0, atol=atol)] = 0;
   y[isclose(y, 0, atol=atol)] = 0 are written into COPIES of the x and y columns
   before arctan2 (radial = sqrt(x**2 + y**2 + z**2)) *)
Definition az_atol (v : list T) : T :=
  match v with
  | x :: y :: z :: _ =>
      o_mul O (o_ofQ O 1 100000000)
        (o_sqrt O (o_add O (o_add O (o_powN O x 2) (o_powN O y 2)) (o_powN O z 2)))
  | _ => o_ofQ O 1 100000000
  end.
Definition isclose0 (atol x : T) : bool := o_leb O (o_abs O x) atol.
Definition az_clean (v : list T) : list T :=
  let atol := az_atol v in
  match v with
  | x :: y :: r => (if isclose0 atol x then o_ofZ O 0 else x) :: (if isclose0 atol y then o_ofZ O 0 else y) :: r
  | _ => v
  end.
Definition az_value (v : list T) : T :=
  match az_clean v with
  | x :: y :: _ => let a := o_atan2 O y x in
                   if o_ltb O a (o_ofZ O 0) then o_add O a (o_mul O (o_ofZ O 2) (o_pi O)) else a
  | _ => o_ofZ O 0
  end.
Inductive prop_name := PAzimuth | PPure (id : nat).   (* every other public property *)
(* reading a property: the object afterwards *)
Definition after_read (p : prop_name) (x : obj (list T)) : obj (list T) :=
  match p with
  | PAzimuth => x     (* the rounding writes go to copies, not to `data` *)
  | PPure _ => x
  end.
Definition azimuth_values (x : obj (list T)) : list T := map (fun r => az_value (fst r)) (orows x).
End ListValues.
