(* C14 -- executable model of the .ang writer and reader of orix
   (orix/io/plugins/ang.py) together with the parts of CrystalMap they use
   (orix/crystal_map/crystal_map.py: get_map_data, shape/step from
   coordinates, the phase-list reconciliation of CrystalMap.__init__, and
   PhaseList.__init__).

   Level: records and tokens.  A file is a list of header lines (tokens) and a
   list of data rows whose cells are exact fixed-point numbers (Z scaled by
   10^5, as printed by '%w.5f') or integers ('%2i').  Everything numerical
   that happens BEFORE a number is printed (np.round, the float32 cast of the
   property array, '%.5f' / '%.3f' / '%.6f' of a binary64 value, k*dx) is a
   Section variable: the theorems hold for every such quantiser; the
   correspondence check instantiates them with bit-exact IEEE versions
   (Model/C14Float.v).

   Definitions only -- proofs are in Proofs/C14*.v.  The model is FAITHFUL:
   quirks of the code (an extra column named like a standard column, ci = -1,
   steps below the printed precision, runs of blanks in names, ...) are
   modelled as they are.  It follows the code after the repairs of
   get_map_data (maps of at most 3 points, exactly 3 points in data), of the
   reader (single data line; "Formula" line read like "MaterialName") and of
   the writer (single-column and single-point maps; "ds" default). *)
From Coq Require Import ZArith String Ascii List Bool Lia.
Import ListNotations.
Open Scope Z_scope.

(* ------------------------------------------------------------------ *)
(* small generic helpers                                               *)

Definition obind {A B} (o : option A) (f : A -> option B) : option B :=
  match o with Some a => f a | None => None end.
Notation "x <- o ;; k" := (obind o (fun x => k)) (at level 61, o at next level, right associativity).

Fixpoint sequence {A} (l : list (option A)) : option (list A) :=
  match l with
  | [] => Some []
  | o :: r => a <- o ;; r' <- sequence r ;; Some (a :: r')
  end.

Definition zlen {A} (l : list A) : Z := Z.of_nat (length l).

Fixpoint index_of (x : Z) (l : list Z) : option nat :=
  match l with
  | [] => None
  | y :: r => if x =? y then Some O else match index_of x r with Some i => Some (S i) | None => None end
  end.

Definition zmem (x : Z) (l : list Z) : bool := existsb (Z.eqb x) l.
Definition smem (x : string) (l : list string) : bool := existsb (String.eqb x) l.

Fixpoint zmin_list (d : Z) (l : list Z) : Z :=
  match l with [] => d | x :: r => Z.min x (zmin_list x r) end.
Fixpoint zmax_list (d : Z) (l : list Z) : Z :=
  match l with [] => d | x :: r => Z.max x (zmax_list x r) end.
Fixpoint nmin_list (d : nat) (l : list nat) : nat :=
  match l with [] => d | x :: r => Nat.min x (nmin_list x r) end.
Fixpoint nmax_list (d : nat) (l : list nat) : nat :=
  match l with [] => d | x :: r => Nat.max x (nmax_list x r) end.

(* insertion of (k,v) into an association list sorted by key; an existing key
   is overwritten (python dict + sorted(d.items())) *)
Fixpoint sins {V} (k : Z) (v : V) (l : list (Z * V)) : list (Z * V) :=
  match l with
  | [] => [(k, v)]
  | (k', v') :: r => if k <? k' then (k, v) :: l
                     else if k =? k' then (k, v) :: r
                     else (k', v') :: sins k v r
  end.

Fixpoint zinsert (x : Z) (l : list Z) : list Z :=
  match l with
  | [] => [x]
  | y :: r => if x <? y then x :: l else if x =? y then l else y :: zinsert x r
  end.
(* np.unique: sorted distinct values *)
Definition zunique (l : list Z) : list Z := fold_right zinsert [] l.

(* round half to even of a/b (b > 0): np.around of an exact quotient *)
Definition rdiv (a b : Z) : Z :=
  let q := a / b in let r := a mod b in
  if 2 * r <? b then q else if b <? 2 * r then q + 1 else if Z.even q then q else q + 1.

(* ------------------------------------------------------------------ *)
(* strings                                                             *)

Definition is_ws (c : ascii) : bool := Ascii.eqb c " " || Ascii.eqb c "009".

Definition lower_ascii (c : ascii) : ascii :=
  let n := nat_of_ascii c in
  if (Nat.leb 65 n && Nat.leb n 90)%bool then ascii_of_nat (n + 32) else c.

Fixpoint smap (f : ascii -> ascii) (s : string) : string :=
  match s with EmptyString => EmptyString | String c r => String (f c) (smap f r) end.
Fixpoint sfilter (f : ascii -> bool) (s : string) : string :=
  match s with EmptyString => EmptyString
  | String c r => if f c then String c (sfilter f r) else sfilter f r end.

(* k.lower().replace("_", "") *)
Definition norm_prop (s : string) : string :=
  sfilter (fun c => negb (Ascii.eqb c "_")) (smap lower_ascii s).

(* s.replace(" ", "_") and s.lstrip(" ") *)
Definition sp2us (s : string) : string :=
  smap (fun c => if Ascii.eqb c " " then "_"%char else c) s.
Fixpoint lstrip_sp (s : string) : string :=
  match s with
  | String c r => if Ascii.eqb c " " then lstrip_sp r else s
  | EmptyString => EmptyString
  end.

Definition sempty (s : string) : bool := match s with EmptyString => true | _ => false end.

(* list(filter(None, re.split("[ \t]", s))) *)
Fixpoint words_go (acc : string) (s : string) : list string :=
  match s with
  | EmptyString => if sempty acc then [] else [acc]
  | String c r =>
      if is_ws c then (if sempty acc then words_go EmptyString r else acc :: words_go EmptyString r)
      else words_go (acc ++ String c EmptyString)%string r
  end.
Definition words (s : string) : list string := words_go EmptyString s.
Fixpoint unwords (l : list string) : string :=
  match l with
  | [] => EmptyString
  | [w] => w
  | w :: r => (w ++ " " ++ unwords r)%string
  end.

Fixpoint is_prefix (p s : string) : bool :=
  match p, s with
  | EmptyString, _ => true
  | String a p', String b s' => Ascii.eqb a b && is_prefix p' s'
  | _, _ => false
  end.
(* python `p in s` *)
Fixpoint contains (p s : string) : bool :=
  is_prefix p s || match s with EmptyString => false | String _ r => contains p r end.

Fixpoint chars (s : string) : list string :=
  match s with EmptyString => [] | String c r => String c EmptyString :: chars r end.

(* ------------------------------------------------------------------ *)
(* data tables of the plugin / of symmetry.py (tied by the correspondence
   check: the harness dumps the run-time tables and Coq compares)        *)

(* (name, name of proper_subgroup) for the 38 named point groups _groups *)
Definition pg_table : list (string * string) :=
  [("1","1"); ("-1","1"); ("211","211"); ("121","121"); ("112","112"); ("m11","1");
   ("1m1","1"); ("11m","1"); ("2/m","112"); ("222","222"); ("mm2","211"); ("mmm","222");
   ("4","4"); ("-4","112"); ("4/m","4"); ("422","422"); ("4mm","4"); ("-42m","222");
   ("4/mmm","422"); ("3","3"); ("-3","3"); ("321","32"); ("312","312"); ("32","32");
   ("3m","3"); ("-3m","32"); ("6","6"); ("-6","3"); ("6/m","6"); ("622","622");
   ("6mm","6"); ("-6m2","312"); ("6/mmm","622"); ("23","23"); ("m-3","23"); ("432","432");
   ("-43m","23"); ("m-3m","432")]%string.

(* orix.quaternion.symmetry.point_group_aliases, in dict order *)
Definition alias_table : list (string * list string) :=
  [("121", ["20"]); ("2/m", ["2"]); ("222", ["22"]); ("422", ["42"]); ("432", ["43"]);
   ("622", ["62"]); ("m-3m", ["m3m"])]%string.

Definition group_names : list string := map fst pg_table.

Fixpoint assoc_s {V} (k : string) (l : list (string * V)) : option V :=
  match l with
  | [] => None
  | (k', v) :: r => if String.eqb k k' then Some v else assoc_s k r
  end.

Definition proper_of (g : string) : option string := assoc_s g pg_table.

(* writer: `for key, alias in point_group_aliases.items(): if name == key:
   name = alias[0]; break` *)
Fixpoint alias_go (tbl : list (string * list string)) (n : string) : string :=
  match tbl with
  | [] => n
  | (k, al) :: r => if String.eqb n k then hd n al else alias_go r n
  end.
Definition alias_of (n : string) : string := alias_go alias_table n.

(* Phase.point_group setter: `for correct, aliases in ...: if value in
   aliases: value = correct; break`, then look the name up in _groups *)
Fixpoint unalias_go (tbl : list (string * list string)) (n : string) : string :=
  match tbl with
  | [] => n
  | (k, al) :: r => if smem n al then k else unalias_go r n
  end.
Definition unalias (n : string) : string := unalias_go alias_table n.
Definition resolve_pg (s : string) : option string :=
  let n := unalias s in if smem n group_names then Some n else None.

(* column names of an orix-written file as the reader names them *)
Definition orix_cols : list string :=
  ["euler1"; "euler2"; "euler3"; "x"; "y"; "iq"; "ci"; "phase_id"; "detector_signal"; "fit"]%string.
(* ... and as the writer lists them in the header *)
Definition header_cols : list string :=
  ["phi1"; "Phi"; "phi2"; "x"; "y"; "image_quality"; "confidence_index"; "phase_id";
   "detector_signal"; "pattern_fit"]%string.
Definition core_fields : list string :=
  ["euler1"; "euler2"; "euler3"; "x"; "y"; "phase_id"]%string.

(* names searched for when a property keyword is not given *)
Definition search_names : list (list string) :=
  [["iq"; "imagequality"]; ["ci"; "confidenceindex"; "scores"; "correlation"];
   ["ds"; "ss"; "semsignal"; "detectorsignal"]; ["fit"; "patternfit"]]%string.

Definition fp_emsoft : string := "EMsoft".
Definition fp_astar : string := "ACOM".
Definition fp_orix : string := "Column names: phi1, Phi, phi2".

(* sentinels (fixed point 10^-5) *)
Definition four_pi5 : Z := 1256637.     (* '%8.5f' % (4*np.pi) *)
Definition ci_not_indexed5 : Z := -100000.
Definition fit_not_indexed5 : Z := 18000000.
Definition unit5 : Z := 100000.

(* ------------------------------------------------------------------ *)
(* the file (token level)                                              *)

Inductive cell := CF (z : Z)      (* '%w.5f': value = z / 10^5 *)
                | CI (z : Z).     (* '%2i' *)
Definition cell_fix (c : cell) : Z := match c with CF z => z | CI z => z * unit5 end.
(* ndarray.astype(int) of the parsed float: truncation *)
Definition cell_int (c : cell) : Z := match c with CF z => Z.quot z unit5 | CI z => z end.

Inductive hline :=
| LPhase (id : Z)                    (* "# Phase <id>" *)
| LMaterial (s : string)             (* "# MaterialName    <s>" *)
| LFormula (s : string)              (* "# Formula    <s>" *)
| LSymmetry (s : string)             (* "# Symmetry    <s>" *)
| LLattice (abc : list Z)            (* "# LatticeConstants    a b c al be ga", '%.3f' fixed point 10^-3 *)
| LGrid (xstep ystep : Z) (ncols nrows : nat)   (* XSTEP/YSTEP '%.6f', NCOLS_ODD/EVEN, NROWS *)
| LColumns (names : list string)     (* "# Column names: n1, n2, ..." *)
| LOther (s : string).               (* any other header line *)

Record file := { f_header : list hline; f_rows : list (list cell) }.

(* ------------------------------------------------------------------ *)
(* the map as the reader builds it                                     *)

Record rphase := { rp_name : string; rp_pg : option string; rp_lat : list Z }.
Definition default_lat3 : list Z := [1000; 1000; 1000; 90000; 90000; 90000].
Definition default_rphase : rphase := {| rp_name := ""; rp_pg := None; rp_lat := default_lat3 |}.
Definition not_indexed_rphase : rphase := {| rp_name := "not_indexed"; rp_pg := None; rp_lat := default_lat3 |}.

Record rmap := {
  r_shape : list nat;
  r_dx : Z; r_dy : Z;                     (* fixed point 10^-5 *)
  r_pid : list Z;
  r_eul : list (Z * Z * Z);               (* rotation = from_euler(z/10^5) *)
  r_props : list (string * list Z);
  r_phases : list (Z * rphase);
  r_unit : string }.

(* ================================================================== *)
(* READER                                                              *)

(* _get_vendor_columns: the footprint search (the LAST matching vendor of the
   dict emsoft, astar, orix wins; footprint_line = first line with the orix
   footprint) *)
Definition line_text (l : hline) : string :=
  match l with
  | LMaterial s => ("MaterialName    " ++ s)%string
  | LFormula s => ("Formula    " ++ s)%string
  | LSymmetry s => ("Symmetry    " ++ s)%string
  | LColumns ns => ("Column names: " ++ match ns with [] => "" | n :: r => fold_left (fun a b => a ++ ", " ++ b) r n end)%string
  | LOther s => s
  | _ => EmptyString
  end.

Inductive vendor := VTsl | VEmsoft | VAstar | VOrix.

Definition vendor_of (h : list hline) : vendor :=
  let v0 := VTsl in
  let v1 := if existsb (fun l => contains fp_emsoft (line_text l)) h then VEmsoft else v0 in
  let v2 := if existsb (fun l => contains fp_astar (line_text l)) h then VAstar else v1 in
  if existsb (fun l => contains fp_orix (line_text l)) h then VOrix else v2.

Definition footprint_line (h : list hline) : option hline :=
  find (fun l => contains fp_orix (line_text l)) h.

(* footprint_line.split(":")[1].split(",")[10:], lstrip(" "), replace(" ","_")
   -- modelled on the token list of the LColumns line (names without ':' and ',') *)
Definition orix_column_names (h : list hline) : option (list string) :=
  match footprint_line h with
  | Some (LColumns ns) => Some (orix_cols ++ map (fun s => sp2us (lstrip_sp s)) (skipn 10 ns))
  | _ => None
  end.

(* _get_phases_from_header: names and formulas = " ".join(group[1:]), point
   groups = group[-1] *)
Record raw_phases := { rw_ids : list Z; rw_names : list string; rw_formulas : list string;
                       rw_pgs : list string; rw_lats : list (list Z) }.
Definition raw_empty : raw_phases := {| rw_ids := []; rw_names := []; rw_formulas := []; rw_pgs := []; rw_lats := [] |}.

Definition raw_step (a : raw_phases) (l : hline) : raw_phases :=
  match l with
  | LPhase i => {| rw_ids := rw_ids a ++ [i]; rw_names := rw_names a; rw_formulas := rw_formulas a;
                   rw_pgs := rw_pgs a; rw_lats := rw_lats a |}
  | LMaterial s => match words s with
                   | [] => a      (* regex does not match "# MaterialName" *)
                   | ws => {| rw_ids := rw_ids a; rw_names := rw_names a ++ [unwords ws];
                              rw_formulas := rw_formulas a; rw_pgs := rw_pgs a; rw_lats := rw_lats a |}
                   end
  | LFormula s => match words s with
                  | [] => a
                  | ws => {| rw_ids := rw_ids a; rw_names := rw_names a;
                             rw_formulas := rw_formulas a ++ [unwords ws];   (* " ".join(group[1:]) *)
                             rw_pgs := rw_pgs a; rw_lats := rw_lats a |}
                  end
  | LSymmetry s => match words s with
                   | [] => a
                   | ws => {| rw_ids := rw_ids a; rw_names := rw_names a; rw_formulas := rw_formulas a;
                              rw_pgs := rw_pgs a ++ [last ws EmptyString]; rw_lats := rw_lats a |}
                   end
  | LLattice abc => {| rw_ids := rw_ids a; rw_names := rw_names a; rw_formulas := rw_formulas a;
                       rw_pgs := rw_pgs a; rw_lats := rw_lats a ++ [abc] |}
  | _ => a
  end.

Definition parse_raw (h : list hline) : raw_phases := fold_left raw_step h raw_empty.

(* "use formulas in place of names if they are all valid" + id completion *)
Definition final_names (r : raw_phases) : list string :=
  if (Nat.eqb (length (rw_formulas r)) (length (rw_names r)) && forallb (fun s => negb (sempty s)) (rw_formulas r))%bool
  then rw_formulas r else rw_names r.

Definition final_ids (r : raw_phases) : list Z :=
  let n := length (rw_names r) in
  let ids := rw_ids r in
  match ids with
  | [] => map Z.of_nat (seq 0 n)
  | _ => if Nat.ltb (length ids) n
         then ids ++ map (fun k => zmax_list 0 ids + 1 + Z.of_nat k) (seq 0 (n - length ids))
         else ids
  end.

(* PhaseList(ids=, names=, point_groups=, structures=) with structures =
   [Structure(title=name, lattice=...) for name, abc in zip(names, lattice_constants)];
   entry i exists for i < max of the four lengths; sorted by id *)
Definition build_phase (names pgs : list string) (lats : list (list Z)) (i : nat) : option rphase :=
  let nm := nth_error names i in
  let lat := match nth_error lats i, nm with Some l, Some _ => l | _, _ => default_lat3 end in
  match nth_error pgs i with
  | Some s => pg <- resolve_pg s ;;      (* ValueError for an unknown name *)
              Some {| rp_name := match nm with Some n => n | None => EmptyString end; rp_pg := Some pg; rp_lat := lat |}
  | None => Some {| rp_name := match nm with Some n => n | None => EmptyString end; rp_pg := None; rp_lat := lat |}
  end.

Definition phase_list_of (r : raw_phases) : option (list (Z * rphase)) :=
  let names := final_names r in
  let ids := final_ids r in
  (* max_entries over names, point_groups, ids, structures (= zip(names, lattice_constants)) *)
  let n := Nat.max (Nat.max (length names) (length (rw_pgs r)))
                   (Nat.max (length ids) (Nat.min (length names) (length (rw_lats r)))) in
  phs <- sequence (map (build_phase names (rw_pgs r) (rw_lats r)) (seq 0 n)) ;;
  let idl := map (fun i => match nth_error ids i with
                           | Some z => z
                           | None => zmax_list 0 ids + 1 + Z.of_nat (i - length ids)
                           end) (seq 0 n) in
  Some (fold_left (fun d kv => sins (fst kv) (snd kv) d) (combine idl phs) []).

(* CrystalMap.__init__: reconcile the phase list with the ids in the data *)
Fixpoint remove_superfluous (ids_desc : list Z) (uids : list Z) (nd : nat) (pl : list (Z * rphase))
  : list (Z * rphase) :=
  match nd with
  | O => pl
  | S nd' =>
      match ids_desc with
      | [] => pl
      | i :: r => if zmem i uids then remove_superfluous r uids nd pl
                  else remove_superfluous r uids nd' (filter (fun kv => negb (fst kv =? i)) pl)
      end
  end.

Fixpoint assoc_z {V} (k : Z) (l : list (Z * V)) : option V :=
  match l with
  | [] => None
  | (k', v) :: r => if k =? k' then Some v else assoc_z k r
  end.

Definition reconcile (pids : list Z) (pl : list (Z * rphase)) : list (Z * rphase) :=
  let u := zunique pids in
  let has_ni := match u with x :: _ => x =? -1 | [] => false end in
  let uids := if has_ni then tl u else u in
  let ids := map fst pl in
  let pl1 :=
    if Nat.ltb (length uids) (length ids)
    then remove_superfluous (rev ids) uids (length ids - length uids) pl
    else if Nat.ltb (length ids) (length uids)
    then map (fun i => (i, match assoc_z i pl with Some p => p | None => default_rphase end)) uids
    else pl in
  let pl2 := combine uids (map snd pl1) in    (* dict(zip(new_ids, values)) *)
  if has_ni then sins (-1) not_indexed_rphase pl2 else pl2.

(* step size and extent from a coordinate column (fixed point):
   _step_size_from_coordinates, _data_slices_from_coordinates *)
Definition step_of (xs : list Z) : Z :=
  match xs with
  | [] => 0
  | x :: _ =>
      let mn := zmin_list x xs in
      match filter (fun v => mn <? v) xs with
      | [] => 0
      | y :: r => zmin_list y (y :: r) - mn
      end
  end.

(* None when the coordinate is constant (self.x is None) or step == 0 *)
Definition extent_of (xs : list Z) : option nat :=
  match xs with
  | [] => None
  | x :: _ =>
      let st := step_of xs in
      if st =? 0 then None
      else let mn := zmin_list x xs in let mx := zmax_list x xs in
           (* int(np.around(c_max/step + 1)) - int(np.around(c_min/step)) *)
           Some (Z.to_nat (rdiv (mx + st) st - rdiv mn st))
  end.

(* the data_dict loop: later columns with the same name overwrite; the prop
   dict keeps the position of the first insertion *)
Definition column (rows : list (list cell)) (j : nat) : option (list cell) :=
  sequence (map (fun r => nth_error r j) rows).

Fixpoint last_index (n : string) (names : list string) (k : nat) : option nat :=
  match names with
  | [] => None
  | m :: r => match last_index n r (S k) with
              | Some j => Some j
              | None => if String.eqb n m then Some k else None
              end
  end.

Fixpoint dedup (l : list string) : list string :=
  match l with
  | [] => []
  | x :: r => x :: filter (fun y => negb (String.eqb x y)) (dedup r)
  end.

Definition field_col (rows : list (list cell)) (names : list string) (n : string) : option (list cell) :=
  j <- last_index n names 0 ;; column rows j.

Definition set_not_indexed (ci pid : list Z) : list Z :=
  map (fun cp => if fst cp =? ci_not_indexed5 then -1 else snd cp) (combine ci pid).

Fixpoint zip3 (a b c : list Z) : list (Z * Z * Z) :=
  match a, b, c with
  | x :: a', y :: b', z :: c' => (x, y, z) :: zip3 a' b' c'
  | _, _, _ => []
  end.

Definition read (f : file) : option rmap :=
  let h := f_header f in
  let rows := f_rows f in
  pl <- phase_list_of (parse_raw h) ;;
  (* np.loadtxt(..., ndmin=2): a single data row is a 1 x n array; without any
     data row the array has no column and file_data[:, 0] raises *)
  if Nat.eqb (length rows) 0 then None else
  match vendor_of h with
  | VOrix =>
      names <- orix_column_names h ;;
      (* every name needs its column (IndexError otherwise) *)
      _ <- sequence (map (fun j => column rows j) (seq 0 (length names))) ;;
      e1 <- field_col rows names "euler1" ;;
      e2 <- field_col rows names "euler2" ;;
      e3 <- field_col rows names "euler3" ;;
      xs <- field_col rows names "x" ;;
      ys <- field_col rows names "y" ;;
      pid <- field_col rows names "phase_id" ;;
      let pnames := dedup (filter (fun n => negb (smem n core_fields)) names) in
      props <- sequence (map (fun n => c <- field_col rows names n ;; Some (n, map cell_fix c)) pnames) ;;
      ci <- assoc_s "ci"%string props ;;       (* data_dict["prop"]["ci"] : KeyError otherwise *)
      let pid' := set_not_indexed ci (map cell_int pid) in
      let xs' := map cell_fix xs in
      let ys' := map cell_fix ys in
      Some {| r_shape := (match extent_of ys' with Some n => [n] | None => [] end)
                         ++ (match extent_of xs' with Some n => [n] | None => [] end);
              r_dx := step_of xs'; r_dy := step_of ys';
              r_pid := pid';
              r_eul := zip3 (map cell_fix e1) (map cell_fix e2) (map cell_fix e3);
              r_props := props;
              r_phases := reconcile pid' pl;
              r_unit := "um" |}
  | _ => None      (* other vendors: property C15 *)
  end.

(* ================================================================== *)
(* WRITER                                                              *)

Section Writer.
Context {T Rot : Type}.
Variable t0 t1 : T.                 (* 0 and 1 as step sizes *)
Variable coord : T -> nat -> Z.     (* '%.5f' % (k * step) *)
Variable rnd5 : T -> Z.             (* '%.5f' % np.round(v, 5) *)
Variable q32 : Z -> Z.              (* '%.5f' % float32(z / 10^5) *)
Variable prt3 : T -> Z.             (* '%.3f' % v, fixed point 10^-3 *)
Variable prt6 : T -> Z.             (* '%.6f' % v *)
Variable to_eu : Rot -> T * T * T.  (* Rotation.to_euler *)

Record prop := { pr_name : string; pr_multi : bool; pr_vals : list (list T) }.
Record phase := { ph_name : string; ph_pg : option string; ph_lat : list T }.
Record cmap := {
  m_rows : nat; m_cols : nat;           (* the original grid (all points), row-major *)
  m_dx : T; m_dy : T;
  m_in : list bool;                     (* is_in_data *)
  m_pid : list Z;                       (* _phase_id *)
  m_rmulti : bool;                      (* rotations array is 2-D (several per point) *)
  m_rots : list (list Rot);
  m_phases : list (Z * phase);          (* PhaseList, sorted by id *)
  m_props : list prop }.

Record kwargs := {
  k_index : option Z;
  k_iq : option string; k_ci : option string; k_ds : option string; k_fit : option string;
  k_extra : list string }.

(* python indexing a[:, i] on an axis of length n *)
Definition py_index {A} (l : list A) (i : Z) : option A :=
  let n := zlen l in
  if (0 <=? i) && (i <? n) then nth_error l (Z.to_nat i)
  else if (- n <=? i) && (i <? 0) then nth_error l (Z.to_nat (n + i))
  else None.

Definition in_pts (m : cmap) : list nat :=
  filter (fun p => nth p (m_in m) false) (seq 0 (m_rows m * m_cols m)).

Record geom := { g_nrows : nat; g_ncols : nat; g_dy : T; g_dx : T; g_pts : list nat }.

(* xmap.shape (bounding box of the points in data, per existing axis),
   _get_nrows_ncols_step_sizes, and the row-major list of the original point
   ids inside the bounding box (what get_map_data crops to) *)
Definition geometry (m : cmap) : option geom :=
  let R := m_rows m in let C := m_cols m in
  let pts := in_pts m in
  match pts with
  | [] => None                 (* np.min of an empty array *)
  | p0 :: _ =>
      let rs := map (fun p => Nat.div p C) pts in
      let cs := map (fun p => Nat.modulo p C) pts in
      let rmin := nmin_list 0 rs in let rmax := nmax_list 0 rs in
      let cmin := nmin_list 0 cs in let cmax := nmax_list 0 cs in
      let nr := (rmax - rmin + 1)%nat in let nc := (cmax - cmin + 1)%nat in
      let box := flat_map (fun r => map (fun c => (r * C + c)%nat) (seq cmin nc)) (seq rmin nr) in
      if (Nat.ltb 1 R && Nat.ltb 1 C)%bool
      then Some {| g_nrows := nr; g_ncols := nc; g_dy := m_dy m; g_dx := m_dx m; g_pts := box |}
      else if Nat.ltb 1 C      (* 1-D along x *)
      then Some {| g_nrows := 1; g_ncols := nc; g_dy := t1; g_dx := m_dx m; g_pts := box |}
      else if Nat.ltb 1 R      (* 1-D along y (xmap.x is None): a single column, dx := 1 *)
      then Some {| g_nrows := nr; g_ncols := 1; g_dy := m_dy m; g_dx := t1; g_pts := box |}
      else                     (* shape (): a single point, nrows = ncols = 1, dy, dx = xmap.dy, xmap.dx *)
           Some {| g_nrows := 1; g_ncols := 1; g_dy := m_dy m; g_dx := m_dx m; g_pts := box |}
  end.

(* get_map_data: three values per point (Euler angles) are recognised by the
   number of array dimensions, for every map size; a 1-D array is one value per
   point -- no map is refused on account of its size *)

Definition indexed_at (m : cmap) (p : nat) : bool :=
  (nth p (m_in m) false && negb (nth p (m_pid m) (-1) =? -1))%bool.

(* Euler angles of point p for the chosen layer *)
Definition rot_at (m : cmap) (idx : option Z) (p : nat) : option Rot :=
  let l := nth p (m_rots m) [] in
  match idx with
  | Some i => if m_rmulti m then py_index l i else None     (* 1-D rotations[:, i] raises *)
  | None => nth_error l 0
  end.

(* _get_prop_array: which property feeds a column, None = zeros *)
Definition find_prop (m : cmap) (n : string) : option prop :=
  find (fun pr => String.eqb (pr_name pr) n) (m_props m).

Definition search_prop (m : cmap) (cands : list string) : option prop :=
  let hit := find (fun k => existsb (fun pr => String.eqb (norm_prop (pr_name pr)) k) (m_props m)) cands in
  match hit with
  | Some k => find (fun pr => String.eqb (norm_prop (pr_name pr)) k) (m_props m)
  | None => None
  end.

Inductive colsrc := SrcZero | SrcProp (pr : prop) | SrcError.

Definition col_source (m : cmap) (desired : option string) (cands : list string) : colsrc :=
  match desired with
  | Some n =>
      if sempty n then (match search_prop m cands with Some pr => SrcProp pr | None => SrcZero end)
      else (match find_prop m n with Some pr => SrcProp pr | None => SrcError end)    (* KeyError *)
  | None => match search_prop m cands with Some pr => SrcProp pr | None => SrcZero end
  end.

(* value written for point p from a property: '%.5f' of float32 of np.round(v,5) *)
Definition prop_value (idx : option Z) (pr : prop) (p : nat) : option Z :=
  let l := nth p (pr_vals pr) [] in
  v <- (if pr_multi pr
        then py_index l (match idx with Some i => i | None => 0 end)
        else nth_error l 0) ;;
  Some (q32 (rnd5 v)).

Definition src_value (idx : option Z) (s : colsrc) (p : nat) : option Z :=
  match s with
  | SrcZero => Some 0
  | SrcProp pr => prop_value idx pr p
  | SrcError => None
  end.

(* phases without "not_indexed" *)
Definition real_phases (m : cmap) : list (Z * phase) :=
  filter (fun kv => negb (fst kv =? -1)) (m_phases m).

Definition default_pid (m : cmap) : Z :=
  if Nat.ltb 1 (length (real_phases m)) then 0 else -1.

Definition new_pid (m : cmap) (p : nat) : Z :=
  if nth p (m_in m) false
  then match index_of (nth p (m_pid m) (-1)) (map fst (real_phases m)) with
       | Some i => Z.of_nat i + 1
       | None => default_pid m
       end
  else default_pid m.

(* str(i) for the default phase name "phase<i>" -- the names are only compared *)
Definition digit (n : nat) : string :=
  String (ascii_of_nat (48 + n)) EmptyString.
Fixpoint nat_str_go (fuel n : nat) (acc : string) : string :=
  match fuel with
  | O => acc
  | S f => let acc' := (digit (Nat.modulo n 10) ++ acc)%string in
           if Nat.ltb n 10 then acc' else nat_str_go f (Nat.div n 10) acc'
  end.
Definition nat_str (n : nat) : string := nat_str_go (S n) n EmptyString.

Definition phase_block (i : nat) (ph : phase) : option (list hline) :=
  let id := S i in
  let nm := if sempty (ph_name ph) then ("phase" ++ nat_str id)%string else ph_name ph in
  pg <- match ph_pg ph with
        | None => Some "1"%string
        | Some g => pr <- proper_of g ;; Some (alias_of pr)
        end ;;
  Some [LPhase (Z.of_nat id); LMaterial nm; LFormula nm; LOther "Info"; LSymmetry pg;
        LLattice (map prt3 (ph_lat ph)); LOther "NumberFamilies    0"].

Definition header_of (m : cmap) (g : geom) (kw : kwargs) : option (list hline) :=
  let pl := real_phases m in
  blocks <- sequence (map (fun ip => phase_block (fst ip) (snd (snd ip)))
                          (rev (combine (seq 0 (length pl)) pl))) ;;
  Some ([LOther "TEM_PIXperUM           1.000000"; LOther "x-star                 0.000000";
         LOther "y-star                 0.000000"; LOther "z-star                 0.000000";
         LOther "WorkingDistance        0.000000"; LOther ""]
        ++ concat blocks
        ++ [LOther "GRID: SqrGrid";
            (* XSTEP/YSTEP print xmap.dx / xmap.dy, not the (dy, dx) used for the coordinates *)
            LGrid (prt6 (if Nat.ltb 1 (m_cols m) then m_dx m else t0))
                  (prt6 (if Nat.ltb 1 (m_rows m) then m_dy m else t0)) (g_ncols g) (g_nrows g);
            LOther ""; LOther "OPERATOR: orix"; LOther ""; LOther "SAMPLEID:"; LOther ""; LOther "SCANID:"; LOther "";
            LColumns (header_cols ++ k_extra kw); LOther ""]).

Definition std_sources (m : cmap) (kw : kwargs) : colsrc * colsrc * colsrc * colsrc :=
  (col_source m (k_iq kw) (nth 0 search_names []), col_source m (k_ci kw) (nth 1 search_names []),
   col_source m (k_ds kw) (nth 2 search_names []), col_source m (k_fit kw) (nth 3 search_names [])).
(* all_expected_prop_names + desired_prop_names[4:] : an empty extra name
   searches among the characters of "" and finds nothing *)
Definition extra_sources (m : cmap) (kw : kwargs) : list colsrc :=
  map (fun n => col_source m (Some n) []) (k_extra kw).

(* value of a property column at map point p: fill value 0 outside the data *)
Definition col_value (m : cmap) (kw : kwargs) (s : colsrc) (p : nat) : option Z :=
  if nth p (m_in m) false then src_value (k_index kw) s p else Some 0.

Definition euler_value (m : cmap) (kw : kwargs) (p : nat) : option (Z * Z * Z) :=
  if nth p (m_in m) false
  then r <- rot_at m (k_index kw) p ;;
       let '(a, b, c) := to_eu r in Some (rnd5 a, rnd5 b, rnd5 c)
  else Some (0, 0, 0).      (* fill_value *)

(* one line of the file: k = position in the written grid, p = original point *)
Definition row_of (m : cmap) (g : geom) (kw : kwargs) (k p : nat) : option (list cell) :=
  let live := indexed_at m p in
  let '(s0, s1, s2, s3) := std_sources m kw in
  eu <- euler_value m kw p ;;
  v0 <- col_value m kw s0 p ;; v1 <- col_value m kw s1 p ;;
  v2 <- col_value m kw s2 p ;; v3 <- col_value m kw s3 p ;;
  ex <- sequence (map (fun s => col_value m kw s p) (extra_sources m kw)) ;;
  let '(a, b, c) := eu in
  let x := coord (g_dx g) (Nat.modulo k (g_ncols g)) in
  let y := coord (g_dy g) (Nat.div k (g_ncols g)) in
  Some (if live
        then [CF a; CF b; CF c; CF x; CF y; CF v0; CF v1; CI (new_pid m p); CF v2; CF v3] ++ map CF ex
        else [CF four_pi5; CF four_pi5; CF four_pi5; CF x; CF y; CF 0; CF ci_not_indexed5;
              CI (new_pid m p); CF 0; CF fit_not_indexed5] ++ map (fun _ => CF 0) ex).

Definition write (m : cmap) (kw : kwargs) : option file :=
  g <- geometry m ;;
  hdr <- header_of m g kw ;;
  rows <- sequence (map (fun kp => row_of m g kw (fst kp) (snd kp))
                        (combine (seq 0 (length (g_pts g))) (g_pts g))) ;;
  Some {| f_header := hdr; f_rows := rows |}.

End Writer.
