(* C15 -- .ctf reader (orix/io/plugins/ctf.py), token level.
   Executable definitions only.

   A header line is a list of TAB-separated fields, already classified by the
   constructor; the numeric rows follow the "Phase X Y ..." line.  The decimal
   comma of Bruker headers is below token level (serialisation shim). *)
From Coq Require Import ZArith List Bool String Ascii.
From Verif Require Import Scalar C15Tables C15Common.
Import ListNotations.
Local Open Scope string_scope.
Local Open Scope list_scope.

Section Ctf.
Context {T : Type} (Op : Ops T).

Inductive ctfline :=
| CLText (fields : list string)                    (* any other line *)
| CLNum (key : string) (v : num (T:=T))           (* "XCells\t13", "XStep\t0.1", "AcqE1\t0" ... *)
| CLPhases (n : Z)                                 (* "Phases\t2" *)
| CLPhase (lat : list T) (name : string) (laue sg : Z) (rest : list string)
                                                   (* "a;b;c\tal;be;ga\tname\tlaue\tsg\t..." *)
| CLCols.                                          (* "Phase\tX\tY\tBands\t..." *)

(* text of a line as far as the vendor patterns can see it *)
Definition ctf_text (l : ctfline) : string :=
  match l with
  | CLText fs => join TAB fs
  | CLNum k _ => k
  | CLPhases _ => "Phases"
  | CLPhase _ name _ _ rest => join TAB (name :: rest)
  | CLCols => "Phase" ++ TAB ++ "X" ++ TAB ++ "Y"
  end%string.

(* vendor_pattern of _get_header; the character classes of the EMsoft version
   string are not modelled *)
Definition vendor_match (key : string) (l : ctfline) : bool :=
  let t := ctf_text l in
  if String.eqb key "emsoft" then
    contains "EMsoft v. " t && contains "; BANDS=pattern index, MAD=CI, BC=OSM, BS=IQ" t
  else if String.eqb key "astar" then
    contains ("Author" ++ TAB ++ "File created from ACOM RES results")%string t
    || contains "Author File created from ACOM RES results" t
  else if String.eqb key "mtex" then contains "Created from mtex" t
  else false.

Definition is_cols (l : ctfline) : bool := match l with CLCols => true | _ => false end.

Fixpoint take_header (ls : list ctfline) : list ctfline :=
  match ls with
  | [] => []
  | l :: ls' => if is_cols l then [] else l :: take_header ls'
  end.

Definition ctf_vendor (hdr : list ctfline) : string :=
  let vs := flat_map (fun l => filter (fun k => vendor_match k l) ctf_vendor_keys) hdr in
  match vs with [v] => v | _ => "oxford_or_bruker" end.

(* ---- _get_phases_from_header ---- *)
Definition starts_phases (l : ctfline) : bool :=
  match l with
  | CLPhases _ => true
  | CLText (f :: _) => String.prefix "Phases" f
  | _ => false
  end.

Fixpoint find_phases (ls : list ctfline) : option (Z * list ctfline) :=
  match ls with
  | [] => None
  | l :: ls' => if starts_phases l then
                  match l with CLPhases n => Some (n, ls') | _ => None end
                else find_phases ls'
  end.

Record cphases := mkCH { ch_names : list string; ch_pgs : list (option string); ch_sgs : list (option Z);
                         ch_lats : list (list T) }.

(* the point group handed to PhaseList for one phase line: the Laue class name
   `laue_ids[laue - 1]` (python indexing) ONLY when the header has no space
   group (0); with a space group the entry is None and the table is not
   indexed at all.  None = IndexError. *)
Definition ctf_point_group (laue sg : Z) : option (option string) :=
  if (sg =? 0)%Z then
    match py_index ctf_laue_ids (laue - 1) with Some pg => Some (Some pg) | None => None end
  else Some None.

Fixpoint read_phases (n : nat) (ls : list ctfline) (acc : cphases) : result cphases :=
  match n with
  | 0%nat => Ok acc
  | S n' =>
      match ls with
      | CLPhase lat name laue sg _ :: ls' =>
          match ctf_point_group laue sg with
          | Some pg =>
              read_phases n' ls'
                (mkCH (ch_names acc ++ [name]) (ch_pgs acc ++ [pg])
                      (ch_sgs acc ++ [if (sg =? 0)%Z then None else Some sg]) (ch_lats acc ++ [lat]))
          | None => Err EIndex
          end
      | [] => Err EIndex
      | _ => Err EOther
      end
  end.

Definition ctf_phases (hdr : list ctfline) : result cphases :=
  match find_phases hdr with
  | None => Err EOther
  | Some (n, rest) => read_phases (Z.to_nat n) rest (mkCH [] [] [] [])
  end.

(* ---- header values used by _fix_astar_coords ---- *)
Definition last_num (key : string) (hdr : list ctfline) : option (num (T:=T)) :=
  fold_left (fun acc l => match l with
                          | CLNum k v => if String.eqb k key then Some v else acc
                          | _ => acc end) hdr None.

Definition grid_coords (nrows ncols : nat) (sx sy : T) : list T * list T :=
  (flat_map (fun _ => map (fun c => o_mul Op (o_ofZ Op (Z.of_nat c)) sx) (seq 0 ncols)) (seq 0 nrows),
   flat_map (fun r => map (fun _ => o_mul Op (o_ofZ Op (Z.of_nat r)) sy) (seq 0 ncols)) (seq 0 nrows)).

(* _fix_astar_coords: the coordinates of an ASTAR file are ALWAYS those of the
   header grid, np.indices((YCells, XCells)) * (YStep, XStep), whatever the
   coordinate columns say (they are printed with four decimals only) *)
Definition fix_astar (hdr : list ctfline) : result (list T * list T) :=
  match last_num "XCells" hdr, last_num "YCells" hdr with
  | Some cx, Some cy =>
      match last_num "XStep" hdr, last_num "YStep" hdr with
      | Some sx, Some sy =>
          Ok (grid_coords (Z.to_nat (nint cy)) (Z.to_nat (nint cx)) (nval Op sx) (nval Op sy))
      | _, _ => Err EOther
      end
  | _, _ => Err EOther
  end.

(* ---- file_reader ---- *)
Fixpoint assign_ctf (em : bool) (names : list string) (k : nat) (rows : list (list (num (T:=T))))
    (core prop : list (string * list (num (T:=T)))) : result (list (string * list num) * list (string * list num)) :=
  match names with
  | [] => Ok (core, prop)
  | nm :: names' =>
      if Nat.ltb k (ncols_of rows) then
        let c := col k rows in
        if mem_str nm ctf_core_names then assign_ctf em names' (S k) rows (aset nm c core) prop
        else
          let nm' := if em then
                       match aget nm ctf_emsoft_mapping with Some m => m | None => nm end
                     else nm in
          assign_ctf em names' (S k) rows core (aset nm' c prop)
      else Err EIndex
  end.

Definition parse_ctf (lines : list ctfline) (rows : list (list (num (T:=T)))) : result (xmap (T:=T)) :=
  let hdr := take_header lines in
  let vendor := ctf_vendor hdr in
  bind (ctf_phases hdr) (fun ph =>
  bind (assign_ctf (String.eqb vendor "emsoft") ctf_column_names 0 rows [] []) (fun cp =>
  let '(core, prop) := cp in
  let v nm := map (nval Op) (match aget nm core with Some c => c | None => [] end) in
  bind (if String.eqb vendor "astar" then fix_astar hdr else Ok (v "x", v "y")) (fun xy =>
  bind (phaselist Op (map (fun k => Z.of_nat (S k)) (seq 0 (List.length (ch_names ph))))
          (ch_names ph) (ch_sgs ph) (ch_pgs ph) (ch_lats ph)) (fun pl =>
  let pid0 := map nint (match aget "phase_id" core with Some c => c | None => [] end) in
  let pid := map (fun p => if (p =? ctf_not_indexed_id)%Z then (-1)%Z else p) pid0 in
  let eu := zip3 (v "euler1") (v "euler2") (v "euler3") in
  let eu' := if ctf_degrees then map (eu_deg2rad Op) eu else eu in
  Ok (crystal_map Op 1 eu' (fst xy) (snd xy) pid
        (map (fun p => (fst p, (1%nat, map (nval Op) (snd p)))) prop) ctf_unit pl false))))).

(* ------------------------------------------------------ abstract files *)
Inductive cvendor := COxford | CBruker | CEmsoft | CAstar | CMtex.

Record cphase := mkCP { cp_lat : list T; cp_name : string; cp_laue : Z; cp_sg : Z; cp_rest : list string }.

Record cpoint := mkCPt {
  c_pid : Z; c_x : T; c_y : T;        (* coordinates as printed in the file *)
  c_bands : T; c_err : T;
  c_eu : T * T * T;                   (* degrees *)
  c_mad : T; c_bc : T; c_bs : T;
  c_extra : list T                    (* columns after BS (not part of the format) *)
}.

Record ctffile := mkCF {
  cf_vendor : cvendor;
  cf_prj : list string;               (* fields after "Prj" *)
  cf_author : string;
  cf_misc : list (list string);       (* further text lines ("Euler angles refer to ...") *)
  cf_nrows : nat; cf_ncols : nat; cf_dx : T; cf_dy : T;   (* XCells YCells XStep YStep *)
  cf_phases : list cphase;
  cf_pts : list cpoint
}.

Definition emsoft_line : string :=
  "EMsoft v. 4_1_1_9d5269a; BANDS=pattern index, MAD=CI, BC=OSM, BS=IQ".

Definition render_cphase (v : cvendor) (p : cphase) : ctfline :=
  CLPhase (cp_lat p) (cp_name p) (cp_laue p) (cp_sg p)
          (match v with CMtex => cp_rest p ++ ["Created from mtex"] | _ => cp_rest p end).

Definition render_chdr (f : ctffile) : list ctfline :=
  [CLText ["Channel Text File"];
   (match cf_vendor f with CEmsoft => CLText [emsoft_line] | _ => CLText ("Prj" :: cf_prj f) end);
   (match cf_vendor f with
    | CAstar => CLText ["Author"; "File created from ACOM RES results"]
    | _ => CLText ["Author"; cf_author f] end);
   CLText ["JobMode"; "Grid"];
   CLNum "XCells" (NI (Z.of_nat (cf_ncols f))); CLNum "YCells" (NI (Z.of_nat (cf_nrows f)));
   CLNum "XStep" (NF (cf_dx f)); CLNum "YStep" (NF (cf_dy f));
   CLNum "AcqE1" (NI 0); CLNum "AcqE2" (NI 0); CLNum "AcqE3" (NI 0)] ++
  map CLText (cf_misc f) ++
  [CLPhases (Z.of_nat (List.length (cf_phases f)))] ++
  map (render_cphase (cf_vendor f)) (cf_phases f) ++ [CLCols].

Definition render_cpt (p : cpoint) : list (num (T:=T)) :=
  let '(a, b, c) := c_eu p in
  [NI (c_pid p); NF (c_x p); NF (c_y p); NF (c_bands p); NF (c_err p); NF a; NF b; NF c;
   NF (c_mad p); NF (c_bc p); NF (c_bs p)] ++ map NF (c_extra p).

Definition render_ctf (f : ctffile) : list ctfline * list (list (num (T:=T))) :=
  (render_chdr f, map render_cpt (cf_pts f)).

End Ctf.

Arguments CLText {T} _. Arguments CLNum {T} _ _. Arguments CLPhases {T} _.
Arguments CLPhase {T} _ _ _ _ _. Arguments CLCols {T}.
Arguments mkCP {T} _ _ _ _ _. Arguments mkCPt {T} _ _ _ _ _ _ _ _ _ _.
Arguments mkCF {T} _ _ _ _ _ _ _ _ _ _.
