(* C18 -- n-dimensional chunked (dask-style) evaluation of shaped flat lists.
   Executable definitions only.

   An orix object is (shape, flat C-order list).  dask splits every navigation
   axis of length n into ceil(n/k) chunks of length k (the last one shorter);
   a BLOCK is addressed by one chunk number per axis.  The expression is
   evaluated per block and every block result is stored into the region of
   the in-memory target it covers (da.store).  [block] extracts a block,
   [assemble] is the target after all blocks were stored: element idx is read
   from the result of the block idx lies in, at its offset inside that block
   (Proofs/C18NdP.v shows that this block and offset exist and are unique). *)
From Coq Require Import List Arith.
From Verif Require Import NdIndex.
Import ListNotations.

Section Nd.
Context {A : Type}.

(* element at a multi-index *)
Definition aget (d : A) (s : list nat) (xs : list A) (idx : list nat) : A :=
  nth (ravel s idx) xs d.

(* the array of shape s whose element at idx is f idx *)
Definition tab (s : list nat) (f : list nat -> A) : list A :=
  map (fun n => f (unravel s n)) (seq 0 (size s)).
End Nd.

(* number of chunks of size k along an axis of length n *)
Definition cdiv (n k : nat) : nat := (n + k - 1) / k.
Definition grid (k : nat) (s : list nat) : list nat := map (fun n => cdiv n k) s.
(* extent of chunk number bi along an axis of length n *)
Definition blk_extent (k n bi : nat) : nat := Nat.min k (n - bi * k).
Definition blk_shape (k : nat) (s b : list nat) : list nat := zip_with (blk_extent k) s b.
(* global index of the element at offset j of block b *)
Definition glob (k : nat) (b j : list nat) : list nat := zip_with (fun bi ji => bi * k + ji) b j.
(* the block a global index lies in, and its offset inside that block *)
Definition blk_of (k : nat) (idx : list nat) : list nat := map (fun i => i / k) idx.
Definition off_of (k : nat) (idx : list nat) : list nat := map (fun i => i mod k) idx.

Section Blocks.
Context {A : Type}.

Definition block (d : A) (k : nat) (s : list nat) (xs : list A) (b : list nat) : list A :=
  tab (blk_shape k s b) (fun j => aget d s xs (glob k b j)).

Definition assemble (d : A) (k : nat) (s : list nat) (B : list nat -> list A) : list A :=
  tab s (fun idx => aget d (blk_shape k s (blk_of k idx)) (B (blk_of k idx)) (off_of k idx)).
End Blocks.

(* element-wise expression evaluated blockwise *)
Definition blocked_map {A B} (da : A) (db : B) (f : A -> B) (k : nat) (s : list nat) (xs : list A) : list B :=
  assemble db k s (fun b => map f (block da k s xs b)).

(* outer expression evaluated blockwise: block (bA ++ bB) of the result is the
   outer product of block bA of the first operand with block bB of the second
   (dask einsum / tensordot with no contracted chunked axis); the result has
   shape sA ++ sB and chunks (k..) on every axis *)
Definition blocked_outer {A B C} (da : A) (db : B) (dc : C) (f : A -> B -> C) (k : nat)
    (sA sB : list nat) (xs : list A) (ys : list B) : list C :=
  assemble dc k (sA ++ sB)
    (fun b => outer f (block da k sA xs (firstn (length sA) b)) (block db k sB ys (skipn (length sA) b))).

(* numpy transpose with axes = order: result axis t is source axis order[t] *)
Fixpoint find_pos (a : nat) (l : list nat) : nat :=
  match l with
  | [] => 0
  | x :: l' => if Nat.eqb x a then 0 else S (find_pos a l')
  end.
Definition tr_shape (s order : list nat) : list nat := map (fun a => nth a s 0) order.
Definition tr_src (n : nat) (order idx' : list nat) : list nat :=
  map (fun a => nth (find_pos a order) idx' 0) (seq 0 n).
Definition transpose_nd {A} (d : A) (s : list nat) (xs : list A) (order : list nat) : list A :=
  tab (tr_shape s order) (fun idx' => aget d s xs (tr_src (length s) order idx')).

(* one-dimensional, list-of-chunks form of the two-operand case (Base/NdIndex.chunks):
   for every chunk of the first operand, every element of it, every chunk of
   the second operand *)
Definition chunked_outer {A B C} (f : A -> B -> C) (k k' : nat) (xs : list A) (ys : list B) : list C :=
  concat (map (fun ca => flat_map (fun x => concat (map (map (f x)) (chunks k' ys))) ca) (chunks k xs)).
