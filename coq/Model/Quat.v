(* Quaternion / vector / matrix vocabulary on top of the GENERATED kernels
   (coq/Gen/QuatKernels.v, coq/Gen/Conversions.v).  No proofs here. *)
From Coq Require Import ZArith List Bool.
From Verif Require Import Scalar QuatKernels Conversions.
Import ListNotations.

Section Quat.
Context {T : Type} (O : Ops T).

Definition quat := (T * T * T * T)%type.
Definition vec3 := (T * T * T)%type.
Definition mat3 := (vec3 * vec3 * vec3)%type.

Definition qmul (p q : quat) : quat :=
  let '(a, b, c, d) := p in let '(e, f, g, h) := q in
  qu_multiply_gufunc O a b c d e f g h.
Definition qconj (q : quat) : quat :=
  let '(a, b, c, d) := q in qu_conj_gufunc O a b c d.
Definition qrot (q : quat) (v : vec3) : vec3 :=
  let '(a, b, c, d) := q in let '(x, y, z) := v in
  qu_rotate_vec_gufunc O a b c d x y z.
Definition qneg (q : quat) : quat :=
  let '(a, b, c, d) := q in (o_opp O a, o_opp O b, o_opp O c, o_opp O d).
Definition qnorm2 (q : quat) : T :=
  let '(a, b, c, d) := q in
  o_add O (o_add O (o_add O (o_mul O a a) (o_mul O b b)) (o_mul O c c)) (o_mul O d d).
Definition qdot (p q : quat) : T :=
  let '(a, b, c, d) := p in let '(e, f, g, h) := q in
  o_add O (o_add O (o_add O (o_mul O a e) (o_mul O b f)) (o_mul O c g)) (o_mul O d h).
Definition qone : quat := (o_ofZ O 1, o_ofZ O 0, o_ofZ O 0, o_ofZ O 0).
Definition qscale (s : T) (q : quat) : quat :=
  let '(a, b, c, d) := q in (o_mul O s a, o_mul O s b, o_mul O s c, o_mul O s d).

Definition vdot (u v : vec3) : T :=
  let '(a, b, c) := u in let '(x, y, z) := v in
  o_add O (o_add O (o_mul O a x) (o_mul O b y)) (o_mul O c z).
Definition vneg (v : vec3) : vec3 :=
  let '(x, y, z) := v in (o_opp O x, o_opp O y, o_opp O z).
Definition vcross (u v : vec3) : vec3 :=
  let '(a, b, c) := u in let '(x, y, z) := v in
  (o_sub O (o_mul O b z) (o_mul O c y),
   o_sub O (o_mul O c x) (o_mul O a z),
   o_sub O (o_mul O a y) (o_mul O b x)).

Definition mvec (m : mat3) (v : vec3) : vec3 :=
  let '(r0, r1, r2) := m in (vdot r0 v, vdot r1 v, vdot r2 v).
Definition mcol (m : mat3) (j : nat) : vec3 :=
  let '((a, b, c), (d, e, f), (g, h, i)) := m in
  match j with 0%nat => (a, d, g) | 1%nat => (b, e, h) | _ => (c, f, i) end.
Definition mmul (m n : mat3) : mat3 :=
  let '(r0, r1, r2) := m in
  ((vdot r0 (mcol n 0), vdot r0 (mcol n 1), vdot r0 (mcol n 2)),
   (vdot r1 (mcol n 0), vdot r1 (mcol n 1), vdot r1 (mcol n 2)),
   (vdot r2 (mcol n 0), vdot r2 (mcol n 1), vdot r2 (mcol n 2))).
Definition mtrans (m : mat3) : mat3 := (mcol m 0, mcol m 1, mcol m 2).
Definition mid : mat3 :=
  ((o_ofZ O 1, o_ofZ O 0, o_ofZ O 0), (o_ofZ O 0, o_ofZ O 1, o_ofZ O 0),
   (o_ofZ O 0, o_ofZ O 0, o_ofZ O 1)).
Definition mdet (m : mat3) : T :=
  let '(r0, r1, r2) := m in vdot r0 (vcross r1 r2).

Definition qu2om (q : quat) : mat3 :=
  let '(a, b, c, d) := q in qu2om_single O a b c d.
Definition om2qu (m : mat3) : quat :=
  let '((a, b, c), (d, e, f), (g, h, i)) := m in om2qu_single O a b c d e f g h i.
Definition eu2qu (e : vec3) : quat :=
  let '(x, y, z) := e in eu2qu_single O x y z.
Definition qu2eu (q : quat) : vec3 :=
  let '(a, b, c, d) := q in qu2eu_single O a b c d.
Definition qu2ax (q : quat) : quat :=
  let '(a, b, c, d) := q in qu2ax_single O a b c d.
Definition ax2qu (q : quat) : quat :=
  let '(a, b, c, d) := q in ax2qu_single O a b c d.
Definition ax2ro (q : quat) : quat :=
  let '(a, b, c, d) := q in ax2ro_single O a b c d.
Definition ro2ax (q : quat) : quat :=
  let '(a, b, c, d) := q in ro2ax_single O a b c d.
Definition qu2ho (q : quat) : vec3 :=
  let '(a, b, c, d) := q in qu2ho_single O a b c d.
Definition ho2ax (v : vec3) : quat :=
  let '(x, y, z) := v in ho2ax_single O x y z.
Definition cu2ho (v : vec3) : vec3 :=
  let '(x, y, z) := v in cu2ho_single O x y z.

(* a rotation with an improper flag, as orix.quaternion.Rotation stores it *)
Definition rot := (quat * bool)%type.
Definition rmul (r s : rot) : rot := (qmul (fst r) (fst s), xorb (snd r) (snd s)).
Definition rinv (r : rot) : rot := (qconj (fst r), snd r).
Definition rneg (r : rot) : rot := (fst r, negb (snd r)).
Definition ract (r : rot) (v : vec3) : vec3 :=
  if snd r then vneg (qrot (fst r) v) else qrot (fst r) v.
End Quat.

(* Quaternion._positive_scalar (public to_axes_angles / to_rodrigues(frank=True)
   choose the sign of the unit quaternion before calling the qu2ax kernel) *)
Definition qpos {T} (O : Ops T) (q : quat (T:=T)) : quat (T:=T) :=
  let '(a, _, _, _) := q in if o_ltb O a (o_ofZ O 0) then qneg O q else q.
