(* C09 -- small linear-algebra vocabulary shared by the GENERATED Miller
   kernels (coq/Gen/C09Miller.v) and the hand-written model (Model/C09Model.v).
   Executable definitions only, polymorphic in [Ops T]; no proofs here.

   Conventions follow orix/diffpy: vectors are ROW vectors, the structure
   matrix [A] has the direct base vectors a, b, c as its ROWS, and
   [vmat v M] is numpy's  v @ M . *)
From Coq Require Import ZArith List Bool.
From Verif Require Import Scalar.
Import ListNotations.

Definition vec3 (T : Type) : Type := (T * T * T)%type.
Definition vec4 (T : Type) : Type := (T * T * T * T)%type.
Definition mat3 (T : Type) : Type := (vec3 T * vec3 T * vec3 T)%type.

(* exceptions the modelled code can raise *)
Inductive exc : Type := ValueError | KeyError | LatticeError.
Inductive res (A : Type) : Type := Ok (a : A) | Err (e : exc).
Arguments Ok {A} _. Arguments Err {A} _.
Definition rbind {A B : Type} (r : res A) (f : A -> res B) : res B :=
  match r with Ok a => f a | Err e => Err e end.
Definition rmap {A B : Type} (f : A -> B) (r : res A) : res B :=
  match r with Ok a => Ok (f a) | Err e => Err e end.

Definition exc_eqb (a b : exc) : bool :=
  match a, b with
  | ValueError, ValueError | KeyError, KeyError | LatticeError, LatticeError => true
  | _, _ => false
  end.

(* the three spaces of orix.vector.miller._transform_space *)
Inductive space : Type := Sd | Sr | Sc.
(* the five coordinate formats of orix.vector.Miller *)
Inductive fmt : Type := Fxyz | Fuvw | FUVTW | Fhkl | Fhkil.
Definition fmt_eqb (a b : fmt) : bool :=
  match a, b with
  | Fxyz, Fxyz | Fuvw, Fuvw | FUVTW, FUVTW | Fhkl, Fhkl | Fhkil, Fhkil => true
  | _, _ => false
  end.
Definition space_eqb (a b : space) : bool :=
  match a, b with
  | Sd, Sd | Sr, Sr | Sc, Sc => true
  | _, _ => false
  end.

Section Lin.
Context {T : Type} (O : Ops T).

Definition zero : T := o_ofZ O 0.
Definition one : T := o_ofZ O 1.

Definition vdot (u v : vec3 T) : T :=
  let '(a, b, c) := u in let '(x, y, z) := v in
  o_add O (o_add O (o_mul O a x) (o_mul O b y)) (o_mul O c z).
Definition vadd (u v : vec3 T) : vec3 T :=
  let '(a, b, c) := u in let '(x, y, z) := v in (o_add O a x, o_add O b y, o_add O c z).
Definition vscale (s : T) (v : vec3 T) : vec3 T :=
  let '(x, y, z) := v in (o_mul O s x, o_mul O s y, o_mul O s z).
Definition vdivs (v : vec3 T) (s : T) : vec3 T :=
  let '(x, y, z) := v in (o_div O x s, o_div O y s, o_div O z s).
(* numpy.cross *)
Definition vcross (u v : vec3 T) : vec3 T :=
  let '(a, b, c) := u in let '(x, y, z) := v in
  (o_sub O (o_mul O b z) (o_mul O c y),
   o_sub O (o_mul O c x) (o_mul O a z),
   o_sub O (o_mul O a y) (o_mul O b x)).
Definition vnorm2 (v : vec3 T) : T := vdot v v.
(* Object3d.norm = sqrt(sum(square(data))) *)
Definition vnorm (v : vec3 T) : T := o_sqrt O (vnorm2 v).
(* Object3d.unit = data / norm *)
Definition vunit (v : vec3 T) : vec3 T := vdivs v (vnorm v).
Definition vzero : vec3 T := (zero, zero, zero).

Definition mrow (m : mat3 T) (i : nat) : vec3 T :=
  let '(r0, r1, r2) := m in
  match i with 0%nat => r0 | 1%nat => r1 | _ => r2 end.
Definition mcol (m : mat3 T) (j : nat) : vec3 T :=
  let '((a, b, c), (d, e, f), (g, h, i)) := m in
  match j with 0%nat => (a, d, g) | 1%nat => (b, e, h) | _ => (c, f, i) end.
(* M.T *)
Definition mtr (m : mat3 T) : mat3 T := (mcol m 0, mcol m 1, mcol m 2).
(* row vector times matrix:  numpy.matmul(v, M) = numpy.dot(v, M)  *)
Definition vmat (v : vec3 T) (m : mat3 T) : vec3 T :=
  (vdot v (mcol m 0), vdot v (mcol m 1), vdot v (mcol m 2)).
(* np.matmul(v, M), or np.copy(v) when there is no matrix *)
Definition apply_matrix (M : option (mat3 T)) (v : vec3 T) : vec3 T :=
  match M with None => v | Some m => vmat v m end.
Definition mmul (m n : mat3 T) : mat3 T :=
  let '(r0, r1, r2) := m in (vmat r0 n, vmat r1 n, vmat r2 n).
Definition mid : mat3 T := ((one, zero, zero), (zero, one, zero), (zero, zero, one)).
Definition mdet (m : mat3 T) : T :=
  let '(r0, r1, r2) := m in vdot r0 (vcross r1 r2).
(* exact inverse by cofactors (the model of numpy.linalg.inv):
   columns of the inverse are  (b x c, c x a, a x b) / det  *)
Definition minv (m : mat3 T) : mat3 T :=
  let '(r0, r1, r2) := m in
  let d := mdet m in
  mtr (vdivs (vcross r1 r2) d, vdivs (vcross r2 r0) d, vdivs (vcross r0 r1) d).

(* what orix reads from a diffpy Lattice (base, recbase, metrics), plus diffpy's
   reciprocal().metrics, which can raise *)
Record lattice : Type := mkLattice {
  l_base : mat3 T;                 (* lattice.base *)
  l_recbase : mat3 T;              (* lattice.recbase *)
  l_metrics : mat3 T;              (* lattice.metrics *)
  l_rec_metrics : res (mat3 T)     (* lattice.reciprocal().metrics -- may raise *)
}.

End Lin.

Arguments lattice T : clear implicits.
Arguments mkLattice {T} _ _ _ _.
Arguments l_base {T} _. Arguments l_recbase {T} _.
Arguments l_metrics {T} _. Arguments l_rec_metrics {T} _.
