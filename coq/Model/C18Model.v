(* C18 -- evaluation strategies of orix operations: eager vs lazy (dask) mode,
   numpy-quaternion vs built-in backend.  Executable definitions only, written
   once over [Ops T] (reals for the theorems, binary64 for the correspondence).

   The lazy formulas come from Gen/C18Dask.v (regenerated from
   Quaternion._outer_dask / Vector3d._dot_outer_dask on every check), the eager
   kernels from Gen/QuatKernels.v; chunked evaluation from Model/C18Nd.v.
   Objects are (shape, flat C-order list); a rotation is (quaternion, improper
   flag) as in Model/Quat.v.  The model is FAITHFUL to /repo as it is: both
   Orientation paths compute other x ~self and transpose the two groups of axes
   to self.shape ++ other.shape; both keep, for every pair, the symmetry elements
   that are improper exactly when the pair is (the eager one inside
   Rotation.dot_outer, the lazy one with da.where on the xor of the flags);
   angle_with_outer works on self.unit, which keeps the flags of self;
   Quaternion.outer(Vector3d, lazy=True) hands self.unit to _outer_dask. *)
From Coq Require Import ZArith List Bool.
From Verif Require Import Scalar NdIndex QuatKernels Conversions Quat RotArr C18Dask C18Nd.
Import ListNotations.

Section C18.
Context {T : Type} (O : Ops T).
Notation quat := (quat (T:=T)).
Notation vec3 := (vec3 (T:=T)).
Notation rot := (rot (T:=T)).

(* ---- element level ------------------------------------------------------- *)
(* the two da.einsum formula blocks of Quaternion._outer_dask *)
Definition dq_mul (p q : quat) : quat :=
  let '(a, b, c, d) := p in let '(e, f, g, h) := q in outer_dask_qq O a b c d e f g h.
Definition dq_rot (q : quat) (v : vec3) : vec3 :=
  let '(a, b, c, d) := q in let '(x, y, z) := v in outer_dask_qv O a b c d x y z.
Definition dv_dot (u v : vec3) : T :=
  let '(a, b, c) := u in let '(x, y, z) := v in dot_outer_dask_vv O a b c x y z.

Definition qnorm (q : quat) : T := o_sqrt O (qnorm2 O q).
(* Object3d.unit: data / norm *)
Definition qunit (q : quat) : quat :=
  let n := qnorm q in let '(a, b, c, d) := q in (o_div O a n, o_div O b n, o_div O c n, o_div O d n).
(* Quaternion.__invert__ and numpy-quaternion's ~q : conj / norm^2 *)
Definition qinv (q : quat) : quat :=
  let n2 := qnorm2 O q in let '(a, b, c, d) := qconj O q in
  (o_div O a n2, o_div O b n2, o_div O c n2, o_div O d n2).
Definition vq (v : vec3) : quat := let '(x, y, z) := v in (o_ofZ O 0, x, y, z).
Definition qvec (q : quat) : vec3 := let '(a, b, c, d) := q in (b, c, d).
Definition vscale (s : T) (v : vec3) : vec3 := let '(x, y, z) := v in (o_mul O s x, o_mul O s y, o_mul O s z).

(* Quaternion.__mul__(Vector3d), the two backends:
   numpy-quaternion:  as_vector_part((qu * from_vector_part(v)) * ~qu)
   built-in:          qu_rotate_vec(self.unit.data, v)                       *)
Definition qv_mul_npq (q : quat) (v : vec3) : vec3 := qvec (qmul O (qmul O q (vq v)) (qinv q)).
Definition qv_mul_builtin (q : quat) (v : vec3) : vec3 := qrot O (qunit q) v.

(* ---- Quaternion.outer ---------------------------------------------------- *)
Definition qq_outer_eager (A B : list quat) : list quat := outer (qmul O) A B.
Definition qq_outer_lazy (k : nat) (sA sB : list nat) (A B : list quat) : list quat :=
  blocked_outer (zq O) (zq O) (zq O) dq_mul k sA sB A B.
(* eager: both backends rotate by the normalised quaternion (built-in: the
   reshaped __mul__ above; numpy-quaternion: rotate_vectors) *)
Definition qv_outer_eager (A : list quat) (V : list vec3) : list vec3 := outer qv_mul_builtin A V.
(* lazy: self.unit._outer_dask(other) -- the dask formula on the normalised quaternions *)
Definition qv_outer_lazy (k : nat) (sA sV : list nat) (A : list quat) (V : list vec3) : list vec3 :=
  blocked_outer (zq O) (zv O) (zv O) dq_rot k sA sV (map qunit A) V.

(* ---- Rotation.outer: same post-processing of the flags in both modes ------ *)
Definition rot_outer_eager (A B : list rot) : list rot := router O A B.
Definition rot_outer_lazy (k : nat) (sA sB : list nat) (A B : list rot) : list rot :=
  combine (blocked_outer (zq O) (zq O) (zq O) dq_mul k sA sB (map fst A) (map fst B))
          (outer xorb (map snd A) (map snd B)).
Definition rot_vouter_eager (A : list rot) (V : list vec3) : list vec3 := vouter O A V.
Definition flip_if (fl : bool) (v : vec3) : vec3 := if fl then vneg O v else v.
Definition rot_vouter_lazy (k : nat) (sA sV : list nat) (A : list rot) (V : list vec3) : list vec3 :=
  zip_with flip_if (outer (fun (a : rot) (_ : vec3) => snd a) A V)
           (blocked_outer (zq O) (zv O) (zv O) dq_rot k sA sV (map fst A) V).

(* ---- Vector3d.dot_outer -------------------------------------------------- *)
Definition vec_dot_outer_eager (U V : list vec3) : list T := outer (vdot O) U V.
Definition vec_dot_outer_lazy (k : nat) (sU sV : list nat) (U V : list vec3) : list T :=
  blocked_outer (zv O) (zv O) (o_ofZ O 0) dv_dot k sU sV U V.

(* ---- Orientation.dot_outer / _dot_outer_dask / angle_with_outer ---------- *)
Definition lmax0 (l : list T) : T := fold_right (fun x m => o_max O x m) (o_ofZ O 0) l.

(* Rotation.dot_outer against the symmetry elements, then max over them:
   |dot| clipped at 1, and 0 where exactly one of the two is improper *)
Definition sym_term_eager (m s : rot) : T :=
  if xorb (snd m) (snd s) then o_ofZ O 0 else o_min O (o_ofZ O 1) (o_abs O (qdot O (fst m) (fst s))).
Definition sym_dot_eager (S : list rot) (m : rot) : T := lmax0 (map (sym_term_eager m) S).
(* da.einsum(M, symmetry.data) then da.max(abs(.)) (Misorientation.get_distance_matrix) *)
Definition sym_dot_all (S : list rot) (m : quat) : T :=
  lmax0 (map (fun s => o_abs O (qdot O m (fst s))) S).
(* Orientation._dot_outer_dask: abs(da.einsum(M, symmetry.data)), then
   da.where(improper[..., newaxis] == symmetry.improper, ., 0), then da.max;
   improper = logical_xor.outer(other.improper, self.improper) is the flag of m *)
Definition sym_term_lazy (m s : rot) : T :=
  if Bool.eqb (snd m) (snd s) then o_abs O (qdot O (fst m) (fst s)) else o_ofZ O 0.
Definition sym_dot_lazy (S : list rot) (m : rot) : T := lmax0 (map (sym_term_lazy m) S).
Definition zr : rot := (zq O, false).

(* order = range(other.ndim, other.ndim + self.ndim) + range(other.ndim), in both modes *)
Definition eager_order (ns no : nat) : list nat := seq no ns ++ seq 0 no.

(* self = X (shape ss), other = Y (shape so), S = unique symmetry elements *)
Definition ori_dot_outer_eager (ss so : list nat) (X Y S : list rot) : list nat * list T :=
  let M := outer (rmul O) Y (map (rinv O) X) in          (* other.outer(~self): so ++ ss *)
  let hd := map (sym_dot_eager S) M in
  let order := eager_order (length ss) (length so) in
  (tr_shape (so ++ ss) order, transpose_nd (o_ofZ O 0) (so ++ ss) hd order).

Definition ori_dot_outer_lazy (k : nat) (ss so : list nat) (X Y S : list rot) : list nat * list T :=
  let hd := blocked_outer zr zr (o_ofZ O 0)
                          (fun y x => sym_dot_lazy S (dq_mul (fst y) (qconj O (fst x)), xorb (snd y) (snd x)))
                          k so ss Y X in
  let order := eager_order (length ss) (length so) in
  (tr_shape (so ++ ss) order, transpose_nd (o_ofZ O 0) (so ++ ss) hd order).

(* arccos(2 d^2 - 1) with nan_to_num (argument above 1 -> nan -> 0) *)
Definition ang (d : T) : T :=
  let c := o_sub O (o_mul O (o_ofZ O 2) (o_mul O d d)) (o_ofZ O 1) in
  if o_ltb O (o_ofZ O 1) c then o_ofZ O 0 else o_acos O c.
(* cos of it, for a well-conditioned comparison with the implementation *)
Definition cang (d : T) : T :=
  let c := o_sub O (o_mul O (o_ofZ O 2) (o_mul O d d)) (o_ofZ O 1) in
  if o_ltb O (o_ofZ O 1) c then o_ofZ O 1 else c.

(* O = self.unit keeps the improper flags (and the symmetry) of self; the
   quaternions of an orientation are unit already *)
Definition awo_eager_with (h : T -> T) (ss so : list nat) (X Y S : list rot) : list nat * list T :=
  let r := ori_dot_outer_eager ss so X Y S in (fst r, map h (snd r)).
Definition awo_lazy_with (h : T -> T) (k : nat) (ss so : list nat) (X Y S : list rot) : list nat * list T :=
  let r := ori_dot_outer_lazy k ss so X Y S in (fst r, map h (snd r)).
Definition awo_eager := awo_eager_with ang.
Definition awo_lazy := awo_lazy_with ang.

(* ---- Misorientation.get_distance_matrix (always lazy) -------------------- *)
Definition chunked_lmax (k : nat) (l : list T) : T := lmax0 (map lmax0 (chunks k l)).

Definition mis_dm_with (h : T -> T) (red : list T -> T) (M2 : list quat) (s : list nat) (S : list rot)
  : list T :=
  let nS := length S in
  let sM2 := (nS :: s ++ [nS]) ++ s in
  tab (s ++ s) (fun ij =>
    let i := firstn (length s) ij in let j := skipn (length s) ij in
    h (red (map (fun a => red (map (fun b =>
         sym_dot_all S (aget (zq O) sM2 M2 (a :: i ++ [b] ++ j))) (seq 0 nS))) (seq 0 nS)))).

Definition mis_M1 (X S : list rot) : list quat :=
  outer (qmul O) (outer (qmul O) (map fst S) (map fst X)) (map fst S).

Definition mis_dm_lazy_with (h : T -> T) (k : nat) (s : list nat) (X S : list rot) : list nat * list T :=
  let nS := length S in
  let M2 := blocked_outer (zq O) (zq O) (zq O) dq_mul k (nS :: s ++ [nS]) s
                          (mis_M1 X S) (map (fun x => qconj O (fst x)) X) in
  (s ++ s, mis_dm_with h (chunked_lmax k) M2 s S).
Definition mis_dm_lazy := mis_dm_lazy_with ang.

(* the definition it implements: max over s_a, s_b, s_c of |(s_a m_i s_b m_j^-1) . s_c| *)
Definition mis_dm_spec_with (h : T -> T) (s : list nat) (X S : list rot) : list nat * list T :=
  let M2 := outer (qmul O) (mis_M1 X S) (map (fun x => qconj O (fst x)) X) in
  (s ++ s, mis_dm_with h lmax0 M2 s S).
End C18.

(* ---- comparison helpers on floats for the correspondence check ------------ *)
From Coq Require Import PrimFloat.
From Verif Require Import FInst.

Definition fl_close_tol (tol : float) (xs ys : list float) : bool := fclose_list_tol tol xs ys.
Definition f_loose : float := 0x1p-26%float.
