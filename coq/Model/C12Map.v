(* C12 -- executable model of the phase bookkeeping of
   orix/crystal_map/crystal_map.py (CrystalMap.__init__ phase reconciliation,
   phase_id setter, phases_in_data, orientations, selection by phase name /
   boolean mask) and of crystal_map_properties.py (__setitem__).
   Definitions only.

   A map and all maps selected from it share `_phase_id`, `_phases` and
   `_prop` (copy.copy in __getitem__ is shallow): the model has ONE store and
   a list of views (is_in_data masks over all points of the store). *)
From Coq Require Import ZArith List Bool String.
From Verif Require Import C12Phases.
Import ListNotations.
Open Scope Z_scope.

(* ------------------------------------------------------------- np.unique *)
Fixpoint set_insert (x : Z) (l : list Z) : list Z :=
  match l with
  | [] => [x]
  | y :: r => if x <? y then x :: y :: r else if x =? y then y :: r else y :: set_insert x r
  end.

Definition uniq (l : list Z) : list Z := fold_right set_insert [] l.

(* ------------------------------------------------ property value arrays *)
(* a float is modelled as an integer number of quarters (exact in binary64),
   so that `astype(int)` (truncation toward zero) is visible *)
Inductive dtype := DInt | DFlt.
Definition dtype_eqb (a b : dtype) : bool :=
  match a, b with DInt, DInt | DFlt, DFlt => true | _, _ => false end.

Record parr := mkArr { pdt : dtype; pvals : list Z }.

Definition cast1 (from to : dtype) (x : Z) : Z :=
  match from, to with
  | DFlt, DInt => Z.quot x 4
  | DInt, DFlt => x * 4
  | _, _ => x
  end.

Definition cast (to : dtype) (a : parr) : parr := mkArr to (map (cast1 (pdt a) to) (pvals a)).

Definition parr_eqb (a b : parr) : bool :=
  dtype_eqb (pdt a) (pdt b) && list_eqb Z.eqb (pvals a) (pvals b).

(* ------------------------------------------------------- store and views *)
Record store := mkStore {
  s_pid : list Z;                       (* _phase_id, all points *)
  s_phases : plist;                     (* _phases._dict *)
  s_props : list (string * parr) }.     (* _prop (insertion order) *)

Definition view := list bool.           (* is_in_data, all points *)

Fixpoint select_by {A} (v : view) (l : list A) : list A :=
  match v, l with
  | b :: v', x :: l' => if b then x :: select_by v' l' else select_by v' l'
  | _, _ => []
  end.

Definition count (v : view) : nat := List.length (filter (fun b => b) v).

(* a[v] = vals  (vals consumed in order at the True positions) *)
Fixpoint scatter {A} (v : view) (vals : list A) (old : list A) : list A :=
  match v, old with
  | b :: v', x :: old' =>
      if b then match vals with
                | y :: vals' => y :: scatter v' vals' old'
                | [] => x :: scatter v' [] old'
                end
      else x :: scatter v' vals old'
  | _, _ => old
  end.

(* a[v] = c *)
Fixpoint fill {A} (v : view) (c : A) (old : list A) : list A :=
  match v, old with
  | b :: v', x :: old' => (if b then c else x) :: fill v' c old'
  | _, _ => old
  end.

(* ---------------------------------------------- CrystalMap.__init__ *)
(* `for i in phase_ids[::-1]: if i not in unique: del phase_list[i]; n -= 1
                               if n == 0: break` *)
Fixpoint del_loop (l : list Z) (u : list Z) (nd : Z) (pl : plist) : plist :=
  match l with
  | [] => pl
  | i :: r =>
      let pl1 := if memZ i u then pl else dict_remove i pl in
      let nd1 := if memZ i u then nd else nd - 1 in
      if nd1 =? 0 then pl1 else del_loop r u nd1 pl1
  end.

Definition reconcile (pl : plist) (u : list Z) : plist :=
  let nd := Z.of_nat (List.length pl) - Z.of_nat (List.length u) in
  let pl1 :=
    if 0 <? nd then del_loop (rev (ids pl)) u nd pl
    else if nd <? 0 then
      pl_of_dict (map (fun i => (i, match dict_get i pl with Some p => p | None => default_phase end)) u)
    else pl in
  (* phase_list._dict = dict(zip(new_ids, phase_list._dict.values())) *)
  dict_of_pairs (combine u (map snd pl1)).

(* PhaseList(ids=unique_phase_ids) *)
Definition pl_default (u : list Z) : plist :=
  sort_by_id (dict_of_pairs (map (fun i => (i, default_phase)) u)).

(* `phase_list = phase_list.deepcopy(); if -1 in phase_list.ids: del phase_list[-1]` :
   a "not_indexed" entry of the caller's list takes no part in the reconciliation *)
Definition strip_ni (pl : plist) : plist :=
  if memZ (-1) (ids pl) then dict_remove (-1) pl else pl.

Definition init_phases (pid : list Z) (pl : option plist) : res plist :=
  match uniq pid with
  | [] => Err IndexError                        (* unique_phase_ids[0] on an empty map *)
  | u0 :: ur =>
      let incl := u0 =? -1 in
      let u := if incl then ur else u0 :: ur in
      let p := match pl with None => pl_default u | Some pl0 => reconcile (strip_ni pl0) u end in
      Ok (if incl then add_not_indexed p else p)
  end.

Definition init (pid : list Z) (pl : option plist) (props : list (string * parr)) : res store :=
  match init_phases pid pl with
  | Ok p => Ok (mkStore pid p props)
  | Err e => Err e
  end.

(* ------------------------------------------------ CrystalMap.__getitem__ *)
Inductive sel :=
| SNames (ks : list string)     (* xmap["a"], xmap["a", "b"], "indexed", "not_indexed" *)
| SMask (m : list bool).        (* boolean array of the size of the current selection *)

(* `for id, phase in phases: if k == phase.name: mask[pid == id] = True
                              elif k.lower() == "indexed": mask[pid != -1] = True` *)
Definition name_hits (pl : plist) (k : string) (x : Z) : bool :=
  existsb (fun kv => if String.eqb k (pname (snd kv)) then x =? fst kv
                     else String.eqb k "indexed" && negb (x =? -1)) pl.

Fixpoint map2 {A B C} (f : A -> B -> C) (a : list A) (b : list B) : list C :=
  match a, b with
  | x :: a', y :: b' => f x y :: map2 f a' b'
  | _, _ => []
  end.

Definition select (st : store) (v : view) (s : sel) : res view :=
  match s with
  | SNames ks =>
      Ok (map2 (fun b x => b && existsb (fun k => name_hits (s_phases st) k x) ks) v (s_pid st))
  | SMask m =>
      if Nat.eqb (List.length m) (count v)
      then Ok (scatter v m (map (fun _ => false) v))
      else Err ValueError
  end.

(* -------------------------------------------------- phase_id setter *)
Inductive pval := PScalar (z : Z) | PArr (zs : list Z).

(* `if np.any(np.asarray(value) == -1) and "not_indexed" not in self.phases.names:
       add_not_indexed()`   (zs = the assigned values; [z] for a scalar) *)
Definition has_m1 (zs : list Z) : bool := existsb (fun z => z =? -1) zs.

Definition maybe_add_ni (zs : list Z) (pl : plist) : plist :=
  if has_m1 zs && negb (memS ni_name (names pl)) then add_not_indexed pl else pl.

Definition set_pid (st : store) (v : view) (val : pval) : store * option exn :=
  match val with
  | PScalar z =>
      (mkStore (fill v z (s_pid st)) (maybe_add_ni [z] (s_phases st)) (s_props st), None)
  | PArr zs =>
      match zs with
      | [z] => (mkStore (fill v z (s_pid st)) (maybe_add_ni [z] (s_phases st)) (s_props st), None)  (* broadcast *)
      | _ => if Nat.eqb (List.length zs) (count v)
             then (mkStore (scatter v zs (s_pid st)) (maybe_add_ni zs (s_phases st)) (s_props st), None)
             else (st, Some ValueError)                             (* shape mismatch, nothing assigned *)
      end
  end.

(* ------------------------------------- CrystalMapProperties.__setitem__ *)
Inductive propval := VScalar (d : dtype) (z : Z) | VArr (d : dtype) (zs : list Z).

Fixpoint prop_get (k : string) (d : list (string * parr)) : option parr :=
  match d with
  | [] => None
  | (k', a) :: r => if String.eqb k k' then Some a else prop_get k r
  end.

Fixpoint prop_set (k : string) (a : parr) (d : list (string * parr)) : list (string * parr) :=
  match d with
  | [] => [(k, a)]
  | (k', a') :: r => if String.eqb k k' then (k, a) :: r else (k', a') :: prop_set k a r
  end.

(* np.result_type of the two modelled dtypes *)
Definition promote (a b : dtype) : dtype :=
  match a, b with DInt, DInt => DInt | _, _ => DFlt end.

Definition all_in (v : view) : bool := forallb (fun b => b) v.        (* np.all(self.is_in_data) *)

Definition set_prop (st : store) (v : view) (k : string) (val : propval) : store * option exn :=
  let n := List.length (s_pid st) in
  let d := match val with VScalar d _ => d | VArr d _ => d end in
  (* array = self.setdefault(key, np.zeros(n, dtype=value.dtype)) -- inserts zeros for a new key *)
  let old := match prop_get k (s_props st) with Some a => a | None => mkArr d (repeat 0 n) end in
  let props1 := match prop_get k (s_props st) with Some _ => s_props st | None => prop_set k old (s_props st) end in
  (* dtype = value.dtype if all points are in the data, else result_type(array.dtype, value.dtype) *)
  let dt := if all_in v then d else promote (pdt old) d in
  let arr := cast dt old in                                  (* array = array.astype(dtype) *)
  let cv := cast1 d dt in                                    (* the assignment converts the values *)
  match val with
  | VScalar _ z =>
      (mkStore (s_pid st) (s_phases st) (prop_set k (mkArr dt (fill v (cv z) (pvals arr))) props1), None)
  | VArr _ [z] =>
      (mkStore (s_pid st) (s_phases st) (prop_set k (mkArr dt (fill v (cv z) (pvals arr))) props1), None)
  | VArr _ zs =>
      if Nat.eqb (List.length zs) (count v)
      then (mkStore (s_pid st) (s_phases st) (prop_set k (mkArr dt (scatter v (map cv zs) (pvals arr))) props1), None)
      else (mkStore (s_pid st) (s_phases st) props1, Some ValueError)
  end.

(* ---------------------------------------------------- phases_in_data *)
Definition view_pid (st : store) (v : view) : list Z := select_by v (s_pid st).

Definition phases_in_data (st : store) (v : view) : res plist :=
  let u := uniq (view_pid st v) in
  let inter := filter (fun i => memZ i (ids (s_phases st))) u in        (* np.intersect1d *)
  match index (s_phases st) (KInts CArr inter) with
  | IErr e => Err e
  | IMany pl => Ok pl
  | IOne p =>
      (* PhaseList(phases=phase, ids=int(ids_in_data[0])) *)
      match inter with
      | i :: _ => Ok [(i, p)]
      | [] => Err IndexError
      end
  end.

(* -------------------------------------------------------- orientations *)
(* result: the name of the point group given to the orientations *)
Definition orientations (st : store) (v : view) : res string :=
  match phases_in_data st v with
  | Err e => Err e
  | Ok pl =>
      if Nat.eqb (List.length pl) 1 then
        match index pl (KSlice None None None) with       (* phases[:].point_group *)
        | IOne p => match ppg p with
                    | Some g => Ok g
                    | None => Err TypeError               (* Orientation.symmetry = None *)
                    end
        | IMany _ => Err AttributeError
        | IErr e => Err e
        end
      else Err ValueError
  end.

(* phases setter: only the SIZE is guarded *)
Definition set_phases_guard (st : store) (v : view) (value : plist) : bool :=
  negb (Nat.ltb (List.length value) (List.length (uniq (view_pid st v)))).

(* ------------------------------------------------------------ histories *)
Inductive op :=
| OSelect (v : nat) (s : sel)                         (* views ++ [xmap_v[s]] *)
| OSetPid (v : nat) (val : pval)                      (* xmap_v.phase_id = val *)
| OSetProp (v : nat) (k : string) (val : propval)     (* xmap_v.prop[k] = val *)
| OPhAdd (ps : list phase)                            (* xmap.phases.add(ps) *)
| OPhDel (k : dkey)                                   (* del xmap.phases[k] *)
| OPhAddNI                                            (* xmap.phases.add_not_indexed() *)
| OPhSort.                                            (* xmap.phases.sort_by_id() *)

Record mstate := mkState { m_store : store; m_views : list view }.

Definition with_phases (st : store) (pl : plist) : store := mkStore (s_pid st) pl (s_props st).

Definition step (s : mstate) (o : op) : mstate * option exn :=
  let st := m_store s in
  match o with
  | OSelect i sl =>
      match nth_error (m_views s) i with
      | None => (s, Some OtherError)
      | Some v => match select st v sl with
                  | Ok v' => (mkState st (m_views s ++ [v']), None)
                  | Err e => (s, Some e)
                  end
      end
  | OSetPid i val =>
      match nth_error (m_views s) i with
      | None => (s, Some OtherError)
      | Some v => let (st', e) := set_pid st v val in (mkState st' (m_views s), e)
      end
  | OSetProp i k val =>
      match nth_error (m_views s) i with
      | None => (s, Some OtherError)
      | Some v => let (st', e) := set_prop st v k val in (mkState st' (m_views s), e)
      end
  | OPhAdd ps => let (pl, e) := add (s_phases st) ps in (mkState (with_phases st pl) (m_views s), e)
  | OPhDel k => match del (s_phases st) k with
                | Ok pl => (mkState (with_phases st pl) (m_views s), None)
                | Err e => (s, Some e)
                end
  | OPhAddNI => (mkState (with_phases st (add_not_indexed (s_phases st))) (m_views s), None)
  | OPhSort => (mkState (with_phases st (sort_by_id (s_phases st))) (m_views s), None)
  end.

Definition run (ops : list op) (s : mstate) : mstate := fold_left (fun s o => fst (step s o)) ops s.

(* ----------------------------------------------- comparison helpers *)
Definition res_eqb {A} (eqb : A -> A -> bool) (a b : res A) : bool :=
  match a, b with
  | Ok x, Ok y => eqb x y
  | Err e, Err f => exn_eqb e f
  | _, _ => false
  end.

Definition props_eqb (a b : list (string * parr)) : bool :=
  list_eqb (fun x y => String.eqb (fst x) (fst y) && parr_eqb (snd x) (snd y)) a b.

Definition store_eqb (a b : store) : bool :=
  list_eqb Z.eqb (s_pid a) (s_pid b) && plist_eqb (s_phases a) (s_phases b)
  && props_eqb (s_props a) (s_props b).

Definition state_eqb (a b : mstate) : bool :=
  store_eqb (m_store a) (m_store b) && list_eqb (list_eqb Bool.eqb) (m_views a) (m_views b).
