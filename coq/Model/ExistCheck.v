(* Certificates for "every orbit { gl * x * gr } has a member inside the orientation region" (C05).
   Per ordered pair of proper point groups (same order as the region certificates):
     ec_H    the operations common to both groups (h in Gl with ~h in +-Gr),
     ec_L    for every kept normal: None = pure-vector normal (a face of the axis fundamental zone),
             Some i = it IS element i of the unpruned large cell [1+d0; 1-d0; 1+d1; ...],
     ec_W    for every distinguished point d the indices (i, j) with d = +- ~(Gr[j] * Gl[i]),
     ec_tree a cover tree: the images of the cone of the pure-vector normals under ec_H cover R^3.
   Checkers only (executable, no proofs); soundness over the reals is in Proofs/ExistSound.v. *)
From Coq Require Import ZArith QArith List String Bool.
From Verif Require Import Scalar KField KSign Quat GroupK Groups CertCheck CoverCheck.
Import ListNotations.

Record exist_cert := mkEC { ec_H : list kquat; ec_L : list (option nat); ec_W : list (nat * nat); ec_tree : ctree }.

Definition kq_re (q : kquat) : K := let '(a, _, _, _) := q in a.
Definition kq_vec (q : kquat) : kvec := let '(_, b, c, d) := q in (b, c, d).
Definition kq_pm_eqb (p q : kquat) : bool := kq_eqb p q || kq_eqb p (qneg KOps q).
Definition kq_pm_mem (q : kquat) (L : list kquat) : bool := existsb (kq_pm_eqb q) L.

Definition pure_normals (N : list kquat) : list kvec :=
  map kq_vec (filter (fun n => Kis0 (kq_re n)) N).
Definition large_cell_K (D : list kquat) : list kquat :=
  flat_map (fun d => [kq_add kq_one d; kq_add kq_one (qneg KOps d)]) D.

(* every listed distinguished point is +- ~(b * a) for operations a, b of the two groups *)
Definition d_sound (A B D : list kquat) (W : list (nat * nat)) : bool :=
  all2b (fun d ij => match nth_error A (fst ij), nth_error B (snd ij) with
                     | Some a, Some b => kq_pm_eqb d (qconj KOps (qmul KOps b a))
                     | _, _ => false
                     end) D W.

Definition hops (H : list kquat) : list krot := map (fun h => (h, false)) H.

Definition ec_ok (A B N D : list kquat) (ec : exist_cert) : bool :=
  forallb (fun h => kq_pm_mem h A && kq_pm_mem (qconj KOps h) B) (ec_H ec)
  && all2b (fun n o => match o with
                       | None => Kis0 (kq_re n)
                       | Some i => kq_eqb n (nth i (large_cell_K D) kq_zero) && Nat.ltb i (List.length (large_cell_K D))
                       end) N (ec_L ec)
  && tree_ok (hops (ec_H ec)) (pure_normals N) [] (ec_tree ec)
  && d_sound A B D (ec_W ec).

(* group facts needed: closed under products up to sign, unit quaternions *)
Definition qclosed_pm (A : list kquat) : bool :=
  forallb (fun a => forallb (fun b => kq_pm_mem (qmul KOps a b) A) A) A.
Definition qunit (A : list kquat) : bool := forallb (fun a => Keqb (qnorm2 KOps a) K1) A.
Definition qinv_closed_pm (A : list kquat) : bool := forallb (fun a => kq_pm_mem (qconj KOps a) A) A.

(* proper operations (quaternion parts) of a named group *)
Definition pquats (name : string) : list kquat :=
  match find (fun g => String.eqb (g_name g) name) groups with
  | Some g => map fst (filter (fun r => negb (snd r)) (g_elems g))
  | None => []
  end.
Definition pgroup_ok (name : string) : bool :=
  let A := pquats name in qclosed_pm A && qunit A && negb (Nat.eqb (List.length A) 0) && qinv_closed_pm A.

Definition proper_names : list string := map g_name (filter g_is_proper groups).
Definition name_listed (n : string) : bool := existsb (String.eqb n) proper_names.

Definition rc_ec_ok (rc : region_cert) (ec : exist_cert) : bool :=
  ec_ok (pquats (rc_l rc)) (pquats (rc_r rc)) (rc_N rc) (rc_D rc) ec
  && name_listed (rc_l rc) && name_listed (rc_r rc).
