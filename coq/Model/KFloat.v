(* Evaluation of K = Q(sqrt2, sqrt3) elements as binary64 floats, used only by
   correspondence checks to compare exact model data with runtime data. *)
From Coq Require Import ZArith QArith List Bool PrimFloat.
From Verif Require Import Scalar KField FInst Quat GroupK.
Local Open Scope float_scope.

Definition Q2f (q : Q) : float := Z2f (Qnum q) / pos2f (Qden q).
Definition K2f (x : K) : float :=
  Q2f (k1 x) + Q2f (k2 x) * sqrt 2 + Q2f (k3 x) * sqrt 3 + Q2f (k6 x) * sqrt 6.
Definition kq2f (q : quat (T:=K)) : quat (T:=float) :=
  let '(a, b, c, d) := q in (K2f a, K2f b, K2f c, K2f d).
Definition kr2f (r : krot) : rot (T:=float) := (kq2f (fst r), snd r).
