(* C14 -- binary64 instance of the quantisers of Model/C14Ang.v, bit exact
   with numpy / printf, used ONLY by the correspondence check (no theorem
   depends on this file), plus boolean equality of files and read-back maps. *)
From Coq Require Import ZArith String Ascii List Bool Floats.
From Verif Require Import FInst C14Ang.
Import ListNotations.
Open Scope Z_scope.

(* exact value of a finite float: m * 2^e *)
Definition f2ze (x : float) : Z * Z :=
  match Prim2SF x with
  | S754_finite s m e => ((if s then Z.neg m else Z.pos m), e)
  | _ => (0, 0)
  end.

(* round-half-even (m * 2^e * d): what '%.<k>f' prints for d = 10^k *)
Definition dec_round (d : Z) (me : Z * Z) : Z :=
  let (m, e) := me in
  if 0 <=? e then m * 2 ^ e * d else rdiv (m * d) (2 ^ (- e)).

Definition f_prt (d : Z) (x : float) : Z := dec_round d (f2ze x).

(* float32(x) as an exact (m, e): round the significand to 24 bits, half-even
   (binary32 subnormals / overflow are outside the generated range) *)
Definition to_f32 (me : Z * Z) : Z * Z :=
  let (m, e) := me in
  let nb := Z.log2 (Z.abs m) + 1 in
  if nb <=? 24 then (m, e) else let s := nb - 24 in (rdiv m (2 ^ s), e + s).

Definition f_coord (d : float) (k : nat) : Z := f_prt 100000 (Z2f (Z.of_nat k) * d)%float.
(* np.round(v, 5) = rint(v * 1e5) / 1e5, then '%.5f' *)
Definition f_npround5 (v : float) : float := (fround (v * 100000) / 100000)%float.
Definition f_rnd5 (v : float) : Z := f_prt 100000 (f_npround5 v).
(* '%.5f' % float32(z / 1e5) *)
Definition f_q32 (z : Z) : Z := dec_round 100000 (to_f32 (f2ze (Z2f z / 100000)%float)).

Definition FRot : Type := float * float * float.
Definition fcmap := @cmap float FRot.
Definition fwrite (m : fcmap) (kw : kwargs) : option file :=
  write 0%float 1%float f_coord f_rnd5 f_q32 (f_prt 1000) (f_prt 1000000) (fun r : FRot => r) m kw.

(* ---------------------------------------------------------------- equality *)
Fixpoint list_eqb {A} (eq : A -> A -> bool) (a b : list A) : bool :=
  match a, b with
  | [], [] => true
  | x :: a', y :: b' => eq x y && list_eqb eq a' b'
  | _, _ => false
  end.
Definition opt_eqb {A} (eq : A -> A -> bool) (a b : option A) : bool :=
  match a, b with
  | None, None => true
  | Some x, Some y => eq x y
  | _, _ => false
  end.
Definition cell_eqb (a b : cell) : bool :=
  match a, b with
  | CF x, CF y => x =? y
  | CI x, CI y => x =? y
  | _, _ => false
  end.
Definition hline_eqb (a b : hline) : bool :=
  match a, b with
  | LPhase x, LPhase y => x =? y
  | LMaterial x, LMaterial y => String.eqb x y
  | LFormula x, LFormula y => String.eqb x y
  | LSymmetry x, LSymmetry y => String.eqb x y
  | LLattice x, LLattice y => list_eqb Z.eqb x y
  | LGrid a1 a2 a3 a4, LGrid b1 b2 b3 b4 => (a1 =? b1) && (a2 =? b2) && Nat.eqb a3 b3 && Nat.eqb a4 b4
  | LColumns x, LColumns y => list_eqb String.eqb x y
  | LOther x, LOther y => String.eqb x y
  | _, _ => false
  end.
Definition file_eqb (a b : file) : bool :=
  list_eqb hline_eqb (f_header a) (f_header b) && list_eqb (list_eqb cell_eqb) (f_rows a) (f_rows b).
Definition rphase_eqb (a b : rphase) : bool :=
  String.eqb (rp_name a) (rp_name b) && opt_eqb String.eqb (rp_pg a) (rp_pg b)
  && list_eqb Z.eqb (rp_lat a) (rp_lat b).
Definition rmap_eqb (a b : rmap) : bool :=
  list_eqb Nat.eqb (r_shape a) (r_shape b) && (r_dx a =? r_dx b) && (r_dy a =? r_dy b)
  && list_eqb Z.eqb (r_pid a) (r_pid b)
  && list_eqb (fun p q => (fst (fst p) =? fst (fst q)) && (snd (fst p) =? snd (fst q)) && (snd p =? snd q))
              (r_eul a) (r_eul b)
  && list_eqb (fun p q => String.eqb (fst p) (fst q) && list_eqb Z.eqb (snd p) (snd q)) (r_props a) (r_props b)
  && list_eqb (fun p q => (fst p =? fst q) && rphase_eqb (snd p) (snd q)) (r_phases a) (r_phases b)
  && String.eqb (r_unit a) (r_unit b).

(* the run-time tables of orix against the model's *)
Definition tables_ok (groups : list (string * string)) (aliases : list (string * list string)) : bool :=
  list_eqb (fun p q => String.eqb (fst p) (fst q) && String.eqb (snd p) (snd q)) groups pg_table
  && list_eqb (fun p q => String.eqb (fst p) (fst q) && list_eqb String.eqb (snd p) (snd q)) aliases alias_table.

(* one correspondence case: the map, the keywords, the tokens of the file orix
   wrote (None = save raised) and the map orix loaded from it (None = load
   raised) *)
Inductive case :=
| Cmap (m : fcmap) (kw : kwargs) (wr : option file) (rd : option rmap)
| Ctables (groups : list (string * string)) (aliases : list (string * list string)).

Definition ok (c : case) : bool :=
  match c with
  | Cmap m kw wr rd =>
      opt_eqb file_eqb (fwrite m kw) wr
      && match wr with Some f => opt_eqb rmap_eqb (read f) rd | None => true end
  | Ctables g a => tables_ok g a
  end.
