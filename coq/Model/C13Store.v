(* C13 -- record-level model of the generic part of orix's HDF5 plugin:
     orix/io/plugins/orix_hdf5.py  dict2hdf5group   (writer, python dict -> HDF5)
     orix/io/plugins/_h5ebsd.py    hdf5group2dict   (reader, HDF5 -> python dict)
   The store itself (h5py) is modelled as the identity on typed arrays and on
   fixed-width byte strings; links of a group are listed in name order.
   Executable definitions only (no proofs). *)
From Coq Require Import ZArith List Bool String Ascii DecimalString DecimalZ.
Import ListNotations.
Local Open Scope Z_scope.

(* ---------------------------------------------------------------- strings *)
(* a python str = list of Unicode code points; bytes = list of 0..255 *)
Definition pystr := list Z.

Definition utf8_1 (c : Z) : list Z :=
  if c <? 128 then [c]
  else if c <? 2048 then [192 + c / 64; 128 + c mod 64]
  else if c <? 65536 then [224 + c / 4096; 128 + (c / 64) mod 64; 128 + c mod 64]
  else [240 + c / 262144; 128 + (c / 4096) mod 64; 128 + (c / 64) mod 64; 128 + c mod 64].
Definition utf8 (s : pystr) : list Z := flat_map utf8_1 s.

(* numpy/h5py drop the trailing NULs of a fixed-width "S" item *)
Fixpoint strip_nul (b : list Z) : list Z :=
  match b with
  | [] => []
  | c :: r => match strip_nul r with
              | [] => if c =? 0 then [] else [c]
              | r' => c :: r'
              end
  end.

(* writer:  val = val.encode(); ddtype = "S" + str(len(val) + 1)  -- the payload
   is the UTF-8 encoding, the width counts its BYTES (plus one), so h5py's
   truncation to the width never removes anything *)
Definition str_width (s : pystr) : Z := Z.of_nat (List.length (utf8 s)) + 1.
Definition str_stored (s : pystr) : list Z :=
  strip_nul (firstn (S (List.length (utf8 s))) (utf8 s)).
(* reader: value.decode("utf-8"), on UnicodeDecodeError value.decode("latin-1").
   utf8_dec = python's strict UTF-8 decoder (shortest form only, no surrogates,
   nothing above U+10FFFF); None = UnicodeDecodeError *)
Definition cont (b : Z) : bool := (128 <=? b) && (b <? 192).
Fixpoint utf8_dec (b : list Z) : option pystr :=
  match b with
  | [] => Some []
  | b0 :: r =>
      if b0 <? 128 then option_map (cons b0) (utf8_dec r)
      else if b0 <? 194 then None
      else if b0 <? 224 then
        match r with
        | b1 :: r1 =>
            if cont b1 then option_map (cons ((b0 - 192) * 64 + (b1 - 128))) (utf8_dec r1) else None
        | _ => None
        end
      else if b0 <? 240 then
        match r with
        | b1 :: b2 :: r2 =>
            let c := (b0 - 224) * 4096 + (b1 - 128) * 64 + (b2 - 128) in
            if cont b1 && cont b2 && (2048 <=? c) && negb ((55296 <=? c) && (c <? 57344))
            then option_map (cons c) (utf8_dec r2) else None
        | _ => None
        end
      else if b0 <? 245 then
        match r with
        | b1 :: b2 :: b3 :: r3 =>
            let c := (b0 - 240) * 262144 + (b1 - 128) * 4096 + (b2 - 128) * 64 + (b3 - 128) in
            if cont b1 && cont b2 && cont b3 && (65536 <=? c) && (c <? 1114112)
            then option_map (cons c) (utf8_dec r3) else None
        | _ => None
        end
      else None
  end.
Definition latin1 (b : list Z) : pystr := b.     (* one code point per byte *)
Definition decode_str (b : list Z) : pystr :=
  match utf8_dec b with Some s => s | None => latin1 b end.

(* decimal str(int) / int(str) of python *)
Definition zstr (z : Z) : string := NilZero.string_of_int (Z.to_int z).
Definition zint (s : string) : option Z :=
  match NilZero.int_of_string s with Some d => Some (Z.of_int d) | None => None end.

(* -------------------------------------------------------- association lists *)
Section Assoc.
Context {V : Type}.
Definition dict := list (string * V).
Fixpoint lookup (k : string) (l : dict) : option V :=
  match l with
  | [] => None
  | (k', v) :: r => if String.eqb k k' then Some v else lookup k r
  end.
Definition remove_key (k : string) (l : dict) : dict :=
  filter (fun kv => negb (String.eqb k (fst kv))) l.
Definition remove_keys (ks : list string) (l : dict) : dict :=
  filter (fun kv => negb (existsb (String.eqb (fst kv)) ks)) l.
(* python  d[k] = v  /  d.update({k: v}) : replace in place, else append *)
Fixpoint dict_set (k : string) (v : V) (l : dict) : dict :=
  match l with
  | [] => [(k, v)]
  | (k', v') :: r => if String.eqb k k' then (k', v) :: r else (k', v') :: dict_set k v r
  end.
Definition dict_update (l new : dict) : dict :=
  fold_left (fun acc kv => dict_set (fst kv) (snd kv) acc) new l.
(* h5py lists the links of a group in name order (bytewise) *)
Fixpoint kinsert (kv : string * V) (l : dict) : dict :=
  match l with
  | [] => [kv]
  | kv' :: r => if String.leb (fst kv) (fst kv') then kv :: l else kv' :: kinsert kv r
  end.
Fixpoint sortk (l : dict) : dict :=
  match l with [] => [] | kv :: r => kinsert kv (sortk r) end.
End Assoc.
Arguments dict V : clear implicits.

(* ------------------------------------------------------------------ arrays *)
Section Store.
Context {T : Type}.

Inductive adata := DF (l : list T) | DI (l : list Z) | DB (l : list bool).
(* dtype name (float64, int64, bool, float32, uint8, ...), shape, flat data *)
Record arr := mkArr { a_dt : string; a_sh : list nat; a_d : adata }.

Definition alen (a : arr) : nat := hd 0%nat (a_sh a).

(* python-side values put into the dict by crystalmap2dict *)
Inductive pv :=
| PD (l : list (string * pv))   (* dict *)
| PS (s : pystr)                (* str *)
| PI (dt : string) (z : Z)      (* python int / numpy integer scalar *)
| PF (dt : string) (x : T)      (* python float / numpy floating scalar *)
| PN                            (* None *)
| PA (a : arr).                 (* numpy array *)

(* HDF5 side *)
Inductive h5 :=
| HG (l : list (string * h5))   (* group (links in creation order here) *)
| HS (w : Z) (b : list Z)       (* dataset shape (1,), dtype S<w>, payload without trailing NULs *)
| HA (a : arr).                 (* numeric dataset *)

(* dict2hdf5group: every non-dict value becomes one dataset; scalars and
   strings get shape (1,); a value that cannot be written (None) is skipped
   with a warning (`continue`), the other items of the dict are written *)
Fixpoint dict2h5 (v : pv) : h5 :=
  match v with
  | PD l => HG (flat_map (fun kv => match snd kv with
                                    | PN => []
                                    | _ => [(fst kv, dict2h5 (snd kv))]
                                    end) l)
  | PS s => HS (str_width s) (str_stored s)
  | PI dt z => HA (mkArr dt [1%nat] (DI [z]))
  | PF dt x => HA (mkArr dt [1%nat] (DF [x]))
  | PN => HG []
  | PA a => HA a
  end.

(* reader-side values *)
Inductive rv :=
| RD (l : list (string * rv))
| RS (s : pystr)
| RI (z : Z) | RF (x : T) | RB (b : bool)
| RA (a : arr).

(* value = value[()];  if isinstance(value, np.ndarray) and len(value) == 1:
   value = value[0]   -- drops the first axis of EVERY dataset of length one *)
Definition unwrap (a : arr) : rv :=
  match a_sh a with
  | [1%nat] =>
      match a_d a with
      | DF [x] => RF x | DI [z] => RI z | DB [b] => RB b
      | _ => RA a
      end
  | 1%nat :: rest => RA (mkArr (a_dt a) rest (a_d a))
  | _ => RA a
  end.

Fixpoint h52dict (f : h5) : rv :=
  match f with
  | HG l => RD (sortk (map (fun kv => (fst kv, h52dict (snd kv))) l))
  | HS w b => RS (decode_str b)
  | HA a => unwrap a
  end.

(* canonical form of a file tree (links in name order at every level), used to
   compare the model's tree with a dump of the real file *)
Fixpoint h5_sort (f : h5) : h5 :=
  match f with
  | HG l => HG (sortk (map (fun kv => (fst kv, h5_sort (snd kv))) l))
  | _ => f
  end.

(* "expected reading" of a python value: what hdf5group2dict returns for the
   datasets dict2hdf5group wrote (Proofs/C13StoreP.v: h52dict (dict2h5 v) = rd v
   for every v); None items are not in the file *)
Fixpoint rd (v : pv) : rv :=
  match v with
  | PD l => RD (sortk (flat_map (fun kv => match snd kv with
                                           | PN => []
                                           | _ => [(fst kv, rd (snd kv))]
                                           end) l))
  | PS s => RS (decode_str (str_stored s))
  | PI dt z => RI z
  | PF dt x => RF x
  | PN => RD []
  | PA a => unwrap a
  end.

End Store.
Arguments adata T : clear implicits.
Arguments arr T : clear implicits.
Arguments pv T : clear implicits.
Arguments h5 T : clear implicits.
Arguments rv T : clear implicits.
