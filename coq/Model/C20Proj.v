(* C20 -- stereographic projection and spherical coordinates: the array-level
   wrappers around the kernels GENERATED into coq/Gen/C20Stereo.v from
   orix/projections/stereographic.py and orix/vector/vector3d.py.
   Executable definitions only; proofs are in Proofs/C20ProjProofs.v. *)
From Coq Require Import ZArith List Bool.
From Verif Require Import Scalar.
From Verif.Gen Require Import C20Stereo.
Import ListNotations.

Section Proj.
Context {T : Type} (O : Ops T).

Definition vec3 : Type := (T * T * T)%type.
Definition pt2 : Type := (T * T)%type.

(* Object3d.norm : np.sqrt(np.sum(np.square(data), axis=-1)) *)
Definition vnorm (v : vec3) : T :=
  let '(x, y, z) := v in
  o_sqrt O (o_add O (o_add O (o_powN O x 2) (o_powN O y 2)) (o_powN O z 2)).

(* Object3d.unit : np.nan_to_num(data / norm) -- a zero vector gives 0/0 = nan,
   which nan_to_num turns into 0 *)
Definition vunit (v : vec3) : vec3 :=
  let '(x, y, z) := v in
  let n := vnorm v in
  if o_eqb O n (o_ofZ O 0) then (o_ofZ O 0, o_ofZ O 0, o_ofZ O 0)
  else (o_div O x n, o_div O y n, o_div O z n).

(* SphericalRegion([0, 0, pole * -1]) *)
Definition hemi_normal (pole : T) : vec3 :=
  (o_ofZ O 0, o_ofZ O 0, o_mul O pole (o_ofZ O (-1))).

(* v <= region  ==  region >= v  ==  dot(normal, v) > -1e-9 *)
Definition region_ge (n v : vec3) : bool :=
  let '(n0, n1, n2) := n in let '(x, y, z) := v in region_ge_k O n0 n1 n2 x y z.

Definition project1 (pole : T) (v : vec3) : pt2 :=
  let '(x, y, z) := vunit v in vector2xy_k O x y z pole.

(* StereographicProjection(pole).vector2xy : v = v.unit; v = v[v <= region];
   _vector2xy(v, pole) -- the hemisphere test is made on the UNIT vectors, and
   _vector2xy normalises what it is given once more (project1) *)
Definition vector2xy (pole : T) (vs : list vec3) : list pt2 :=
  map (project1 pole) (filter (region_ge (hemi_normal pole)) (map vunit vs)).

(* StereographicProjection.vector2xy_split : v = v.unit; (upper with pole -1,
   lower with pole 1) *)
Definition vector2xy_split (vs : list vec3) : list pt2 * list pt2 :=
  (vector2xy (o_ofZ O (-1)) vs, vector2xy (o_ofZ O 1) vs).

Definition xy2vec (pole : T) (p : pt2) : vec3 := xy2vector O pole (fst p) (snd p).

(* spherical2xy : Vector3d.from_polar(azimuth, polar, degrees) then vector2xy *)
Definition polar2vec (degrees : bool) (ap : pt2) : vec3 :=
  from_polar O degrees (fst ap) (snd ap) (o_ofZ O 1).
Definition spherical2xy (pole : T) (degrees : bool) (aps : list pt2) : list pt2 :=
  vector2xy pole (map (polar2vec degrees) aps).

Definition vec2polar (degrees : bool) (v : vec3) : vec3 :=
  let '(x, y, z) := v in to_polar O degrees x y z.

(* xy2spherical : xy2vector then to_polar, (azimuth, polar) kept *)
Definition xy2spherical (pole : T) (degrees : bool) (p : pt2) : pt2 :=
  let '(a, t, _) := vec2polar degrees (xy2vec pole p) in (a, t).

Definition polar2vec_r (degrees : bool) (apr : vec3) : vec3 :=
  let '(a, p, r) := apr in from_polar O degrees a p r.

End Proj.
