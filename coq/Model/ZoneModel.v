(* Fundamental-zone reduction (Misorientation.map_into_symmetry_reduced_zone)
   and the inside test of OrientationRegion, generic in the scalar type.
   Executable definitions only. *)
From Coq Require Import ZArith List Bool.
From Verif Require Import Scalar Quat.
Import ListNotations.

Section Zone.
Context {T : Type} (O : Ops T).
Notation quat := (quat (T:=T)).

(* OrientationRegion.__gt__: all 4-D dot products with the normals are
   >= -eps, or all are <= eps *)
Definition inside_region (eps : T) (N : list quat) (x : quat) : bool :=
  forallb (fun n => o_leb O (o_opp O eps) (qdot O n x)) N ||
  forallb (fun n => o_leb O (qdot O n x) eps) N.

(* gl * M * gr on the quaternion parts (the improper flag is dropped by the
   base-class __setitem__, which copies the four data columns only) *)
Definition transform (gl gr M : quat) : quat := qmul O (qmul O gl M) gr.

(* the loop over iproduct(Gl, Gr): keep the first equivalent that is inside the
   region; an element that is never inside ends as the LAST equivalent tried *)
Fixpoint reduce_loop (eps : T) (N : list quat) (pairs : list (quat * quat)) (M cur : quat) : quat :=
  match pairs with
  | [] => cur
  | (gl, gr) :: rest =>
      let t := transform gl gr M in
      if inside_region eps N t then t else reduce_loop eps N rest M t
  end.
Definition reduce (eps : T) (N : list quat) (Gl Gr : list quat) (M : quat) : quat :=
  reduce_loop eps N (list_prod Gl Gr) M (qone O).

(* the pairs the loop runs over for two groups given with their improper flags: proper x proper, then
   improper x improper (quaternion parts; two improper operations map a misorientation to an equivalent one) *)
Definition code_pairs (G1 G2 : list (quat * bool)) : list (quat * quat) :=
  list_prod (map fst (filter (fun r => negb (snd r)) G1)) (map fst (filter (fun r => negb (snd r)) G2)) ++
  list_prod (map fst (filter (fun r => snd r) G1)) (map fst (filter (fun r => snd r) G2)).
Definition reduce_sym (eps : T) (N : list quat) (G1 G2 : list (quat * bool)) (M : quat) : quat :=
  reduce_loop eps N (code_pairs G1 G2) M (qone O).

(* the two plane normals attached to a distinguished point d, up to positive
   scaling: 1 + d and 1 - d *)
Definition qadd (p q : quat) : quat :=
  let '(a, b, c, d) := p in let '(e, f, g, h) := q in
  (o_add O a e, o_add O b f, o_add O c g, o_add O d h).
Definition plane_plus (d : quat) : quat := qadd (qone O) d.
Definition plane_minus (d : quat) : quat := qadd (qone O) (qneg O d).
Definition large_cell (D : list quat) : list quat :=
  flat_map (fun d => [plane_plus d; plane_minus d]) D.
End Zone.
