(* C15 -- h5ebsd readers (orix/io/plugins/bruker_h5ebsd.py, emsoft_h5ebsd.py,
   _h5ebsd.py), dataset level.  Executable definitions only.

   A file is the record of the datasets the reader looks at (h5py is assumed
   to be a faithful store).  `render_*` lays an abstract file out as the vendor
   writes it, `parse_*` follows the plugin. *)
From Coq Require Import ZArith List Bool String Ascii.
From Verif Require Import Scalar C15Tables C15Common.
Import ListNotations.
Local Open Scope string_scope.
Local Open Scope list_scope.

(* stable argsort of integer keys (insertion sort of (key, index) pairs);
   numpy's default argsort agrees with it whenever the keys are distinct *)
Fixpoint ins_key (p : Z * nat) (l : list (Z * nat)) : list (Z * nat) :=
  match l with
  | [] => [p]
  | q :: l' => if (fst q <=? fst p)%Z then q :: ins_key p l' else p :: l
  end.
Definition sort_keys (l : list (Z * nat)) : list (Z * nat) := fold_right ins_key [] l.
(* fold_right inserts the LAST element first, so equal keys keep their order *)
Definition argsort (keys : list Z) : list nat :=
  map snd (sort_keys (combine keys (seq 0 (List.length keys)))).

Definition take_idx {A} (d : A) (l : list A) (idx : list nat) : list A := map (fun k => nth k l d) idx.

Definition zmin (l : list Z) : Z := match l with [] => 0%Z | k :: r => fold_right Z.min k r end.
Definition count_of (k : Z) (l : list Z) : nat := List.length (filter (Z.eqb k) l).
Definition all_equal_nat (l : list nat) : bool :=
  match l with [] => true | a :: r => forallb (Nat.eqb a) r end.
Fixpoint consecutive (l : list Z) : bool :=
  match l with
  | a :: ((b :: _) as r) => (b - a =? 1)%Z && consecutive r
  | _ => true
  end.
(* _roi_is_rectangular *)
Definition roi_is_rectangular (rows cols : list Z) : bool :=
  let ur := zunique rows in let uc := zunique cols in
  consecutive ur && consecutive uc
  && all_equal_nat (map (fun k => count_of k rows) ur)
  && all_equal_nat (map (fun k => count_of k cols) uc).

Section H5.
Context {T : Type} (Op : Ops T).

(* ================================================================ Bruker *)
Record bphase := mkBP { bp_name : string; bp_it : Z; bp_lat : list T }.

(* the datasets of "Scan/EBSD/{Header,Data,SEM}" *)
Record btok := mkBT {
  bt_iy : option (list Z);                 (* SEM/IY *)
  bt_ix : option (list Z);                 (* SEM/IX *)
  bt_nrows : Z; bt_ncols : Z;              (* Header/NROWS, NCOLS *)
  bt_grid : string;                        (* Header/Grid Type *)
  bt_phase : list Z;                       (* Data/Phase *)
  bt_eu : list (string * list T);          (* Data/phi1, PHI, phi2  (degrees) *)
  bt_data : list (string * list T);        (* the other Data datasets by name *)
  bt_phases : list (Z * bphase)            (* Header/Phases/<id> *)
}.

Definition sub_min (l : list T) : list T := let m := list_min Op l in map (fun v => o_sub Op v m) l.

Fixpoint bruker_props (tbl : list (string * string)) (data : list (string * list T))
    : result (list (string * list T)) :=
  match tbl with
  | [] => Ok []
  | (pn, dn) :: tbl' =>
      match aget dn data with
      | Some v => bind (bruker_props tbl' data) (fun r => Ok ((pn, v) :: r))
      | None => Err EOther            (* KeyError *)
      end
  end.

(* set_map_shape: (ROI rectangular?, map shape, row / column index of every
   record relative to the ROI when SEM/IY and SEM/IX are present) *)
Definition bruker_shape_rc (t : btok) : bool * (Z * Z) * option (list Z * list Z) :=
  match bt_iy t, bt_ix t with
  | Some iy, Some ix =>
      let r0 := zmin iy in let c0 := zmin ix in
      (roi_is_rectangular iy ix,
       ((zmax iy - r0 + 1)%Z, (zmax ix - c0 + 1)%Z),
       Some (map (fun r => (r - r0)%Z) iy, map (fun c => (c - c0)%Z) ix))
  | _, _ => (true, (bt_nrows t, bt_ncols t), None)
  end.

(* final_preparations: map_order = argsort(ravel_multi_index((rows, cols), shape));
   None = no index datasets, the file order is taken to be the map order *)
Definition bruker_order (t : btok) : option (list nat) :=
  let '(_, shape, rc) := bruker_shape_rc t in
  match rc with
  | Some (rows, cols) => Some (argsort (map (fun p => (fst p * snd shape + snd p)%Z) (combine rows cols)))
  | None => None
  end.

(* a[map_order] *)
Definition reorder {A} (d : A) (ord : option (list nat)) (l : list A) : list A :=
  match ord with Some o => take_idx d l o | None => l end.

Definition parse_bruker (t : btok) : result (xmap (T:=T)) :=
  let '(rect, _, _) := bruker_shape_rc t in
  if negb (rect && String.eqb (bt_grid t) "isometric") then Err EValue else
  bind (bruker_props bruker_properties (bt_data t)) (fun props =>
  let getp nm := match aget nm props with Some v => v | None => [] end in
  let y := sub_min (getp "YSAMPLE") in
  let x := sub_min (getp "XSAMPLE") in
  bind (mapM (fun kp => bind (mk_phase (bp_name (snd kp)) (Some (bp_it (snd kp))) None (bp_lat (snd kp)))
                             (fun p => Ok (fst kp, p))) (bt_phases t)) (fun pl0 =>
  let pl1 := fold_left (fun acc kp => zset (fst kp) (snd kp) acc) pl0 [] in
  let has0 := memZ 0%Z (bt_phase t) in
  let pl := if has0 then zset (-1)%Z (not_indexed_phase Op) pl1 else pl1 in
  let pid := map (fun p => if (p =? 0)%Z then (-1)%Z else p) (bt_phase t) in
  let e nm := match aget nm (bt_eu t) with Some v => v | None => [] end in
  let eu := map (eu_deg2rad Op) (zip3 (e "phi1") (e "PHI") (e "phi2")) in
  (* final_preparations: y, x, phase ids, rotations and properties are all put
     into map order; x is then reversed *)
  let ord := bruker_order t in
  let z := o_ofZ Op 0 in
  Ok (crystal_map Op 1 (reorder (z, z, z) ord eu) (rev (reorder z ord x)) (reorder z ord y) (reorder 0%Z ord pid)
        (map (fun kv => (fst kv, (1%nat, reorder z ord (snd kv)))) props) bruker_unit pl false))).

(* ---- abstract Bruker file ---- *)
Record bpoint := mkBPt {
  b_pid : Z;
  b_eu : T * T * T;                 (* degrees *)
  b_vals : list T                   (* one value per entry of bruker_free_names *)
}.

(* the property datasets that carry free per-point values (all but X/Y SAMPLE) *)
Definition bruker_free_names : list string :=
  filter (fun n => negb (String.eqb n "X SAMPLE" || String.eqb n "Y SAMPLE")) (map snd bruker_properties).

Record bfile := mkBF {
  bf_nrows : nat; bf_ncols : nat; bf_dx : T; bf_dy : T; bf_x0 : T; bf_y0 : T;
  bf_roi : bool;                    (* SEM/IY, SEM/IX present *)
  bf_r0 : Z; bf_c0 : Z;             (* index of the first ROI row / column on the SEM image *)
  bf_order : list nat;              (* k-th record of the file is grid point bf_order[k] (row-major index) *)
  bf_phases : list (Z * bphase);
  bf_pts : list bpoint              (* row-major grid order *)
}.

Definition dflt_pt : bpoint := mkBPt 0%Z (o_ofZ Op 0, o_ofZ Op 0, o_ofZ Op 0) [].

(* stage coordinates of grid point p: y grows with the row, x DEcreases with
   the column (Bruker flips x) *)
Definition b_ysample (f : bfile) (p : nat) : T :=
  o_add Op (bf_y0 f) (o_mul Op (o_ofZ Op (Z.of_nat (Nat.div p (bf_ncols f)))) (bf_dy f)).
Definition b_xsample (f : bfile) (p : nat) : T :=
  o_add Op (bf_x0 f)
    (o_mul Op (o_ofZ Op (Z.of_nat (bf_ncols f - 1 - Nat.modulo p (bf_ncols f)))) (bf_dx f)).

Definition render_bruker (f : bfile) : btok :=
  let pt k := nth k (bf_pts f) dflt_pt in
  let ord := bf_order f in
  let e1 (p : bpoint) := let '(a, _, _) := b_eu p in a in
  let e2 (p : bpoint) := let '(_, b, _) := b_eu p in b in
  let e3 (p : bpoint) := let '(_, _, c) := b_eu p in c in
  mkBT
    (if bf_roi f then Some (map (fun p => (bf_r0 f + Z.of_nat (Nat.div p (bf_ncols f)))%Z) ord) else None)
    (if bf_roi f then Some (map (fun p => (bf_c0 f + Z.of_nat (Nat.modulo p (bf_ncols f)))%Z) ord) else None)
    (Z.of_nat (bf_nrows f)) (Z.of_nat (bf_ncols f)) "isometric"
    (map (fun p => b_pid (pt p)) ord)
    [("phi1", map (fun p => e1 (pt p)) ord); ("PHI", map (fun p => e2 (pt p)) ord);
     ("phi2", map (fun p => e3 (pt p)) ord)]
    (("X SAMPLE", map (b_xsample f) ord) :: ("Y SAMPLE", map (b_ysample f) ord) ::
     map (fun jn => (snd jn, map (fun p => nth (fst jn) (b_vals (pt p)) (o_ofZ Op 0)) ord))
         (combine (seq 0 (List.length bruker_free_names)) bruker_free_names))
    (bf_phases f).

(* ================================================================ EMsoft *)
Record etok := mkET {
  et_nrows : Z; et_ncols : Z;            (* Header/nRows, nColumns *)
  et_stepy : T;                          (* Header/Step Y *)
  et_xpos : list T;                      (* Data/X Position *)
  et_phase : list Z;                     (* Data/Phase *)
  et_nnk : Z;                            (* NMLparameters/EBSDIndexingNameListType/nnk *)
  et_fzcnt : Z;                          (* Data/FZcnt *)
  et_dict : list (T * T * T);            (* Data/DictionaryEulerAngles (degrees) *)
  et_top : list (list Z);                (* Data/TopMatchIndices, rows of nnk 1-based indices *)
  et_refined : option (list (T * T * T));(* Data/RefinedEulerAngles (radians) *)
  et_props : list (string * (list nat * list T));   (* other Data datasets: shape, flat values *)
  et_name : string;                      (* first [A-z0-9]+ run of Header/Phase/1/MaterialName *)
  et_pg : string;                        (* bracketed part of Header/Phase/1/Point Group *)
  et_lat : list T
}.

Definition prod_nat (l : list nat) : nat := fold_right Nat.mul 1%nat l.

(* set_properties *)
Fixpoint emsoft_props (names : list string) (dd : list (string * (list nat * list T))) (size nnk : nat)
    : result (list (string * (nat * list T))) :=
  match names with
  | [] => Ok []
  | nm :: names' =>
      match aget nm dd with
      | None => emsoft_props names' dd size nnk
      | Some (shape, vals) =>
          let p :=
            if Nat.eqb (last shape 0%nat) nnk && Nat.ltb size (prod_nat shape)
            then Ok (nnk, firstn (size * nnk) vals)
            else if Nat.eqb (prod_nat shape) size then Ok (1%nat, vals) else Err EValue in
          bind p (fun v => bind (emsoft_props names' dd size nnk) (fun r => Ok ((nm, v) :: r)))
      end
  end.

Definition parse_emsoft (refined : bool) (t : etok) : result (xmap (T:=T)) :=
  bind (mk_phase (et_name t) None (Some (et_pg t)) (et_lat t)) (fun ph =>
  let ny := Z.to_nat (et_nrows t) in let nx := Z.to_nat (et_ncols t) in
  let size := (ny * nx)%nat in
  (* y = np.sort(np.tile(np.arange(ny) * step_y, nx)) (step_y >= 0) *)
  let y := flat_map (fun r => repeat (o_mul Op (o_ofZ Op (Z.of_nat r)) (et_stepy t)) nx) (seq 0 ny) in
  let nnk := Z.to_nat (et_nnk t) in
  bind (if refined then
          match et_refined t with Some e => Ok (1%nat, e) | None => Err EOther end
        else
          let dict := map (eu_deg2rad Op) (firstn (Z.to_nat (et_fzcnt t)) (et_dict t)) in
          bind (mapM (fun i => match py_index dict (i - 1) with Some e => Ok e | None => Err EIndex end)
                     (List.concat (firstn size (et_top t)))) (fun e => Ok (nnk, e))) (fun rw_eu =>
  (* data_dict also holds TopMatchIndices itself (it is not in dont_read_data) *)
  let dd := et_props t ++ [("TopMatchIndices", ([List.length (et_top t); nnk],
                             map (fun i => o_ofZ Op i) (List.concat (et_top t))))] in
  bind (emsoft_props emsoft_properties dd size nnk) (fun props =>
  Ok (crystal_map Op (fst rw_eu) (snd rw_eu) (et_xpos t) y (et_phase t) props emsoft_unit [(0%Z, ph)] false)))).

(* ---- abstract EMsoft file ---- *)
Record efile := mkEF {
  ef_nrows : nat; ef_ncols : nat; ef_dx : T; ef_dy : T;
  ef_nnk : nat;                          (* top matches kept per point *)
  ef_dict : list (T * T * T);            (* dictionary Euler angles, degrees *)
  ef_pad_dict : list (T * T * T);        (* rows after FZcnt (padding) *)
  ef_top : list (list Z);                (* per point: nnk 1-based dictionary indices *)
  ef_pad_top : list (list Z);            (* padding rows after the map *)
  ef_refined : option (list (T * T * T));(* per point, radians *)
  ef_phase : list Z;
  ef_props : list (string * (list nat * list T));
  ef_name : string; ef_pg : string; ef_lat : list T
}.

Definition render_emsoft (f : efile) : etok :=
  mkET (Z.of_nat (ef_nrows f)) (Z.of_nat (ef_ncols f)) (ef_dy f)
       (flat_map (fun _ => map (fun c => o_mul Op (o_ofZ Op (Z.of_nat c)) (ef_dx f)) (seq 0 (ef_ncols f)))
                 (seq 0 (ef_nrows f)))
       (ef_phase f) (Z.of_nat (ef_nnk f)) (Z.of_nat (List.length (ef_dict f)))
       (ef_dict f ++ ef_pad_dict f) (ef_top f ++ ef_pad_top f) (ef_refined f) (ef_props f)
       (ef_name f) (ef_pg f) (ef_lat f).

End H5.

Arguments mkBP {T} _ _ _. Arguments mkBT {T} _ _ _ _ _ _ _ _ _.
Arguments mkBPt {T} _ _ _. Arguments mkBF {T} _ _ _ _ _ _ _ _ _ _ _ _.
Arguments mkET {T} _ _ _ _ _ _ _ _ _ _ _ _ _ _.
Arguments mkEF {T} _ _ _ _ _ _ _ _ _ _ _ _ _ _ _.
