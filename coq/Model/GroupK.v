(* Exact finite-group computations on rotations with quaternion components in
   K = Q(sqrt2, sqrt3), using the GENERATED Hamilton product / matrix kernels
   instantiated on KOps.  Executable definitions only. *)
From Coq Require Import ZArith QArith List String Bool.
From Verif Require Import Scalar KField QuatKernels Conversions Quat.
Import ListNotations.

Definition krot := (quat (T:=K) * bool)%type.

Definition kq_eqb (p q : quat (T:=K)) : bool :=
  let '(a, b, c, d) := p in let '(e, f, g, h) := q in
  Keqb a e && Keqb b f && Keqb c g && Keqb d h.
(* the same rotation: equal up to overall sign, same properness *)
Definition kr_eqb (r s : krot) : bool :=
  (kq_eqb (fst r) (fst s) || kq_eqb (fst r) (qneg KOps (fst s))) && Bool.eqb (snd r) (snd s).

Definition kmem (r : krot) (G : list krot) : bool := existsb (kr_eqb r) G.
Definition ksubset (G H : list krot) : bool := forallb (fun r => kmem r H) G.
Definition kseteq (G H : list krot) : bool := ksubset G H && ksubset H G.
Fixpoint knodup (G : list krot) : bool :=
  match G with [] => true | r :: G' => negb (kmem r G') && knodup G' end.
Fixpoint kdedup (G : list krot) : list krot :=
  match G with [] => [] | r :: G' => let D := kdedup G' in if kmem r D then D else r :: D end.

Definition kmul : krot -> krot -> krot := rmul KOps.
Definition kinv : krot -> krot := rinv KOps.
Definition kid : krot := (qone KOps, false).
Definition kinversion : krot := (qone KOps, true).

Definition kclosed (G : list krot) : bool :=
  forallb (fun r => forallb (fun s => kmem (kmul r s) G) G) G.
Definition kinv_closed (G : list krot) : bool := forallb (fun r => kmem (kinv r) G) G.
Definition kunit (G : list krot) : bool :=
  forallb (fun r => Keqb (qnorm2 KOps (fst r)) K1) G.
Definition kis_group (G : list krot) : bool :=
  kmem kid G && kclosed G && kinv_closed G && knodup G && kunit G.

Definition kproduct (G H : list krot) : list krot :=
  flat_map (fun r => map (kmul r) H) G.

(* closure of a generator list (fuel = number of squaring rounds) *)
Fixpoint kclosure (fuel : nat) (G : list krot) : list krot :=
  match fuel with
  | O => G
  | S f => let G' := kdedup (G ++ kproduct G G) in
           if Nat.eqb (List.length G') (List.length G) then G else kclosure f G'
  end.
Definition kgenerate (gens : list krot) : list krot := kclosure 8 (kdedup (kid :: gens)).

(* reference constructions (independent of orix) *)
Definition klaue_ref (G : list krot) : list krot := G ++ map (fun r => (fst r, negb (snd r))) G.
Definition kproper_part (G : list krot) : list krot := filter (fun r => negb (snd r)) G.

(* 3x3 matrices over K: the Cartesian matrix of an operation is
   (+-) qu2om q, using the generated qu2om_single on KOps *)
Definition kmat := (vec3 (T:=K) * vec3 (T:=K) * vec3 (T:=K))%type.
Definition kv_eqb (u v : vec3 (T:=K)) : bool :=
  let '(a, b, c) := u in let '(x, y, z) := v in Keqb a x && Keqb b y && Keqb c z.
Definition km_eqb (m n : kmat) : bool :=
  let '(a, b, c) := m in let '(x, y, z) := n in kv_eqb a x && kv_eqb b y && kv_eqb c z.
Definition km_neg (m : kmat) : kmat :=
  let '(a, b, c) := m in (vneg KOps a, vneg KOps b, vneg KOps c).
Definition krot_matrix (r : krot) : kmat :=
  let m := qu2om KOps (fst r) in if snd r then km_neg m else m.
Definition km_mem (m : kmat) (L : list kmat) : bool := existsb (km_eqb m) L.
Definition km_seteq (L M : list kmat) : bool :=
  forallb (fun m => km_mem m M) L && forallb (fun m => km_mem m L) M.

(* lattice bases (columns a, b, c in the Cartesian frame a || e1, c* || e3) of a
   representative cell per crystal family, with their inverses, exact in K *)
Definition kZ (z : Z) : K := KofZ z.
Definition km_of_Z (w : list Z) : kmat :=
  match w with
  | [a; b; c; d; e; f; g; h; i] => ((kZ a, kZ b, kZ c), (kZ d, kZ e, kZ f), (kZ g, kZ h, kZ i))
  | _ => ((K0, K0, K0), (K0, K0, K0), (K0, K0, K0))
  end.
Definition k_half := Kscale (1#2) K1.
Definition k_s3h := Kscale (1#2) Ksqrt3.
(* hexagonal family: a = (1,0,0), b = (-1/2, sqrt3/2, 0), c = (0,0,1) *)
Definition A_hex : kmat := ((K1, Kopp k_half, K0), (K0, k_s3h, K0), (K0, K0, K1)).
Definition Ainv_hex : kmat :=
  ((K1, Kscale (1#3) Ksqrt3, K0), (K0, Kscale (2#3) Ksqrt3, K0), (K0, K0, K1)).
Definition lattice_basis (system : string) : kmat * kmat :=
  if (String.eqb system "hexagonal" || String.eqb system "trigonal")%bool
  then (A_hex, Ainv_hex) else (mid KOps, mid KOps).
Definition cartesian_op (system : string) (w : list Z) : kmat :=
  let '(A, Ai) := lattice_basis system in mmul KOps A (mmul KOps (km_of_Z w) Ai).
