(* Certificates for "two members of one orbit strictly inside the orientation region coincide" (C05):
   for every pair (gl, gr) of operations other than the first (the identity pair), two Gordan
   certificates show that the open cone C = { x : n.x > 0 for the kept normals n } meets neither
   T^-1 C nor -T^-1 C, where T x = gl * x * gr and n.(T x) = (~gl * n * ~gr).x.
   Checkers only (executable, no proofs); soundness over the reals is in Proofs/UniqSound.v. *)
From Coq Require Import ZArith QArith List String Bool.
From Verif Require Import Scalar KField KSign Quat GroupK Groups CertCheck CoverCheck ExistCheck.
Import ListNotations.

Definition adj (gl gr n : kquat) : kquat := qmul KOps (qmul KOps (qconj KOps gl) n) (qconj KOps gr).

Definition qcoeffs_ok (V : list kquat) (c : list (nat * K)) : bool :=
  forallb (fun jl => Knonneg (snd jl) && Nat.ltb (fst jl) (List.length V)) c.
Definition gordan4_ok (V : list kquat) (c : list (nat * K)) : bool :=
  qcoeffs_ok V c && kq_eqb (comb V c) kq_zero && existsb (fun jl => Kpos (snd jl)) c.

Definition pair_ok (N : list kquat) (glr : kquat * kquat) (cs : list (nat * K) * list (nat * K)) : bool :=
  let M := map (adj (fst glr) (snd glr)) N in
  gordan4_ok (app N M) (fst cs) && gordan4_ok (app N (map (qneg KOps) M)) (snd cs).

Definition uniq_ok (A B N : list kquat) (cs : list (list (nat * K) * list (nat * K))) : bool :=
  all2b (pair_ok N) (tl (list_prod A B)) cs.

Definition rc_uniq_ok (rc : region_cert) (o : option (list (list (nat * K) * list (nat * K)))) : bool :=
  match o with
  | Some cs => uniq_ok (pquats (rc_l rc)) (pquats (rc_r rc)) (rc_N rc) cs
               && name_listed (rc_l rc) && name_listed (rc_r rc)
  | None => false
  end.

(* the first operation of a named proper group is the identity *)
Definition pgroup_id_first (name : string) : bool :=
  match pquats name with q :: _ => kq_eqb q kq_one | [] => false end.
