(* Symmetry-reduced dot products of orientations: what Orientation.dot computes
   (max over a list U of symmetry elements of |<O2 * ~O1, s>| with improper
   pairs zeroed) and the brute-force definition (max over all pairs of
   symmetrically equivalent orientations).  Generic in the scalar type. *)
From Coq Require Import ZArith List Bool.
From Verif Require Import Scalar Quat.
Import ListNotations.

Section SymDot.
Context {T : Type} (O : Ops T).
Notation quat := (quat (T:=T)).
Notation rot := (rot (T:=T)).

Definition qre (q : quat) : T := let '(a, _, _, _) := q in a.
Definition omax_list (l : list T) : T := fold_right (o_max O) (o_ofZ O 0) l.

Definition mis (O1 O2 : quat) : quat := qmul O O2 (qconj O O1).     (* other * ~self *)

Definition code_term (M : quat) (s : rot) : T :=
  if snd s then o_ofZ O 0 else o_abs O (qdot O M (fst s)).
Definition code_dot (U : list rot) (O1 O2 : quat) : T :=
  omax_list (map (code_term (mis O1 O2)) U).

Definition brute_term (M : quat) (g1 g2 : rot) : T :=
  if xorb (snd g1) (snd g2) then o_ofZ O 0
  else o_abs O (qre (qmul O (fst g2) (qmul O M (qconj O (fst g1))))).
Definition brute_dot (G1 G2 : list rot) (O1 O2 : quat) : T :=
  omax_list (flat_map (fun g1 => map (brute_term (mis O1 O2) g1) G2) G1).

(* the set of symmetry elements the brute-force definition corresponds to *)
Definition needed_elem (g1 g2 : rot) : rot :=
  (qmul O (qconj O (fst g2)) (fst g1), xorb (snd g1) (snd g2)).
Definition needed_set (G1 G2 : list rot) : list rot :=
  flat_map (fun g1 => map (needed_elem g1) G2) G1.

(* what the code uses for two symmetries: all products g1 * g2 (then unique) *)
Definition product_set (G1 G2 : list rot) : list rot :=
  flat_map (fun g1 => map (fun g2 => rmul O g1 g2) G2) G1.
End SymDot.
