(* C12 -- executable model of orix/crystal_map/phase_list.py : PhaseList.
   Definitions only (no proofs).  A PhaseList is its `_dict`, an ORDERED
   dictionary id -> Phase, modelled as an association list in insertion
   order with python-dict semantics (dict_set keeps the position of an
   existing key, appends a new one).  Sortedness is NOT built in: it is an
   invariant proved in Proofs/C12PhasesP.v.

   A Phase is modelled by what the property observes: name (structure.title,
   "" when no name was given), point-group name (None when the phase has no
   symmetry) and space-group number (0 = None).  The derivation of the point
   group from the space group is C03's subject and is not modelled here: the
   correspondence harness passes phases as observed after construction. *)
From Coq Require Import ZArith List Bool String.
Import ListNotations.
Open Scope Z_scope.

Record phase := mkPhase { pname : string; ppg : option string; psg : Z }.

Definition plist := list (Z * phase).

Inductive exn := ValueError | KeyError | IndexError | TypeError | AttributeError | OtherError.

Inductive res (A : Type) := Ok (a : A) | Err (e : exn).
Arguments Ok {A} a.
Arguments Err {A} e.

Definition ni_name : string := "not_indexed"%string.
Definition ni_phase : phase := mkPhase ni_name None 0.      (* Phase(name="not_indexed", color="white") *)
Definition default_phase : phase := mkPhase ""%string None 0. (* Phase() *)

(* ------------------------------------------------------------ equalities *)
Definition exn_eqb (a b : exn) : bool :=
  match a, b with
  | ValueError, ValueError | KeyError, KeyError | IndexError, IndexError
  | TypeError, TypeError | AttributeError, AttributeError | OtherError, OtherError => true
  | _, _ => false
  end.

Definition opt_eqb {A} (eqb : A -> A -> bool) (a b : option A) : bool :=
  match a, b with
  | None, None => true
  | Some x, Some y => eqb x y
  | _, _ => false
  end.

Fixpoint list_eqb {A} (eqb : A -> A -> bool) (a b : list A) : bool :=
  match a, b with
  | [], [] => true
  | x :: a', y :: b' => eqb x y && list_eqb eqb a' b'
  | _, _ => false
  end.

Definition phase_eqb (p q : phase) : bool :=
  String.eqb (pname p) (pname q) && opt_eqb String.eqb (ppg p) (ppg q) && (psg p =? psg q).

Definition entry_eqb (a b : Z * phase) : bool := (fst a =? fst b) && phase_eqb (snd a) (snd b).

Definition plist_eqb (a b : plist) : bool := list_eqb entry_eqb a b.

Definition memZ (x : Z) (l : list Z) : bool := existsb (Z.eqb x) l.
Definition memS (x : string) (l : list string) : bool := existsb (String.eqb x) l.

(* ------------------------------------------------------ python dict ops *)
Definition ids (pl : plist) : list Z := map fst pl.
Definition names (pl : plist) : list string := map (fun kv => pname (snd kv)) pl.
Definition pgs (pl : plist) : list (option string) := map (fun kv => ppg (snd kv)) pl.

Fixpoint dict_set (k : Z) (v : phase) (d : plist) : plist :=
  match d with
  | [] => [(k, v)]
  | (k', v') :: r => if k =? k' then (k, v) :: r else (k', v') :: dict_set k v r
  end.

Fixpoint dict_get (k : Z) (d : plist) : option phase :=
  match d with
  | [] => None
  | (k', v') :: r => if k =? k' then Some v' else dict_get k r
  end.

(* d.pop(k) for a key that is present; identity when it is not (callers test) *)
Fixpoint dict_remove (k : Z) (d : plist) : plist :=
  match d with
  | [] => []
  | (k', v') :: r => if k =? k' then r else (k', v') :: dict_remove k r
  end.

Definition dict_of_pairs (l : list (Z * phase)) : plist :=
  fold_left (fun d kv => dict_set (fst kv) (snd kv) d) l [].

(* sorted(d.items()) : stable insertion sort on the key *)
Fixpoint insert_by_id (kv : Z * phase) (l : plist) : plist :=
  match l with
  | [] => [kv]
  | kv' :: r => if fst kv <=? fst kv' then kv :: kv' :: r else kv' :: insert_by_id kv r
  end.

Definition sort_by_id (d : plist) : plist := fold_right insert_by_id [] d.

Fixpoint maxZ (x : Z) (l : list Z) : Z :=
  match l with [] => x | y :: r => maxZ (Z.max x y) r end.

(* -------------------------------------------------- PhaseList.__init__ *)
(* PhaseList(phases=[...], ids=...) : d = dict(zip(ids, phases)); ids default
   to arange(len(phases)); an empty list gives an empty phase list *)
Definition pl_of_phases (idl : option (list Z)) (ps : list phase) : plist :=
  let idl' := match idl with Some l => l | None => map Z.of_nat (seq 0 (List.length ps)) end in
  sort_by_id (dict_of_pairs (combine idl' ps)).

(* PhaseList(phases={id: phase}) *)
Definition pl_of_dict (d : list (Z * phase)) : plist := sort_by_id (dict_of_pairs d).

(* PhaseList(names=..., point_groups=..., ids=...) : one phase per index up to
   the longest input; a missing id is max(ids) + k + 1 (ValueError from max([])
   when ids is an empty sequence), missing name -> "", missing point group -> None *)
Definition flat_nth {A} (l : list (option A)) (i : nat) : option A :=
  match nth_error l i with Some (Some x) => Some x | _ => None end.

Fixpoint fields_loop (nm pg : list (option string)) (idl : list Z) (i n : nat) (it : Z) (d : plist)
  : res plist :=
  match n with
  | O => Ok d
  | S n' =>
      let name := match flat_nth nm i with Some s => s | None => ""%string end in
      let g := flat_nth pg i in
      match nth_error idl i with
      | Some k => fields_loop nm pg idl (S i) n' it (dict_set k (mkPhase name g 0) d)
      | None =>
          match idl with
          | [] => Err ValueError
          | x :: r => fields_loop nm pg idl (S i) n' (it + 1)
                        (dict_set (maxZ x r + it + 1) (mkPhase name g 0) d)
          end
      end
  end.

Definition pl_of_fields (nm pg : list (option string)) (idl : option (list Z)) : res plist :=
  let n := Nat.max (List.length nm) (Nat.max (List.length pg) (match idl with Some l => List.length l | None => O end)) in
  let idl' := match idl with Some l => l | None => map Z.of_nat (seq 0 n) end in
  match fields_loop nm pg idl' O n 0 [] with
  | Ok d => Ok (sort_by_id d)
  | Err e => Err e
  end.

(* ------------------------------------------------ python slice semantics *)
(* indices selected by slice(a, b, s) on a sequence of length n
   (PySlice_AdjustIndices); None = ValueError (step 0) *)
Definition clampZ (lo hi x : Z) : Z := Z.max lo (Z.min hi x).

Fixpoint range_from (fuel : nat) (i stop step : Z) : list Z :=
  match fuel with
  | O => []
  | S f => if (if 0 <? step then i <? stop else stop <? i)
           then i :: range_from f (i + step) stop step else []
  end.

Definition slice_indices (n : Z) (a b s : option Z) : option (list Z) :=
  let step := match s with Some x => x | None => 1 end in
  if step =? 0 then None else
  let lo := if 0 <? step then 0 else -1 in
  let hi := if 0 <? step then n else n - 1 in
  let adj (x : Z) : Z := if x <? 0 then Z.max (x + n) lo else Z.min x hi in
  let start := match a with Some x => adj x | None => if 0 <? step then 0 else n - 1 end in
  let stop := match b with Some x => adj x | None => if 0 <? step then n else -1 end in
  Some (range_from (Z.to_nat n) start stop step).

(* ------------------------------------------------ PhaseList.__getitem__ *)
Inductive ckind := CTuple | CList | CArr.

Inductive key :=
| KInt (i : Z)                                (* pl[3] *)
| KStr (s : string)                           (* pl["al"] *)
| KInts (c : ckind) (l : list Z)              (* pl[0, 1], pl[[0, 1]], pl[np.array([0, 1])] *)
| KStrs (c : ckind) (l : list string)         (* pl["al", "cu"], pl[["al", "cu"]] *)
| KSlice (a b s : option Z).                  (* pl[a:b:s] *)

Inductive ires := IErr (e : exn) | IOne (p : phase) | IMany (pl : plist).

(* `if d == {}: KeyError; if len(d) == 1: the phase; else PhaseList(d)` *)
Definition pack (d : plist) : ires :=
  match d with
  | [] => IErr KeyError
  | [kv] => IOne (snd kv)
  | _ => IMany (sort_by_id d)
  end.

Definition by_names (pl : plist) (ks : list string) : ires :=
  pack (filter (fun kv => memS (pname (snd kv)) ks) pl).

Definition by_ids (pl : plist) (ks : list Z) : ires :=
  if forallb (fun k => memZ k (ids pl)) ks
  then pack (filter (fun kv => memZ (fst kv) ks) pl)
  else IErr KeyError.                          (* self._dict[i] for a missing i *)

Definition entries_of (pl : plist) (l : list Z) : plist :=
  flat_map (fun i => match dict_get i pl with Some p => [(i, p)] | None => [] end) l.

Definition by_slice (pl : plist) (a b s : option Z) : ires :=
  match ids pl with
  | [] => IErr IndexError                      (* self.ids[0] *)
  | i0 :: r =>
      let start := if i0 =? -1 then -1 else 0 in
      let n := Z.max 0 (maxZ i0 r + 1 - start) in      (* len(np.arange(start, max(ids) + 1)) *)
      match slice_indices n a b s with
      | None => IErr ValueError
      | Some pos => pack (entries_of pl (map (fun p => p + start) pos))
      end
  end.

Definition index (pl : plist) (k : key) : ires :=
  match k with
  | KInt i => by_ids pl [i]
  | KStr s => by_names pl [s]
  | KInts CArr l => by_ids pl l
  | KInts _ [] => IErr IndexError              (* key_iter[0] on an empty tuple / list *)
  | KInts _ l => by_ids pl l
  | KStrs CArr _ => IErr KeyError              (* ndarray of str goes down the id path *)
  | KStrs _ [] => IErr IndexError
  | KStrs _ l => by_names pl l
  | KSlice a b s => by_slice pl a b s
  end.

(* ------------------------------------------------ PhaseList.__delitem__ *)
Inductive dkey := DelInt (i : Z) | DelStr (s : string) | DelOther.

Fixpoint first_id_with_name (s : string) (pl : plist) : option Z :=
  match pl with
  | [] => None
  | (k, p) :: r => if String.eqb s (pname p) then Some k else first_id_with_name s r
  end.

Definition del (pl : plist) (k : dkey) : res plist :=
  match k with
  | DelInt i => if memZ i (ids pl) then Ok (dict_remove i pl) else Err KeyError
  | DelStr s => match first_id_with_name s pl with
              | Some i => Ok (dict_remove i pl)
              | None => Err KeyError
              end
  | DelOther => Err TypeError
  end.

(* ---------------------------------- add_not_indexed, sort, id_from_name *)
Definition add_not_indexed (pl : plist) : plist := sort_by_id (dict_set (-1) ni_phase pl).

Definition id_from_name (pl : plist) (s : string) : res Z :=
  match first_id_with_name s pl with Some i => Ok i | None => Err KeyError end.

(* ------------------------------------------------------- PhaseList.add *)
Definition new_id (pl : plist) : Z :=
  match ids pl with [] => 0 | x :: r => maxZ x r + 1 end.

(* phases are added one by one; a clash raises AFTER the earlier ones were added *)
Fixpoint add (pl : plist) (ps : list phase) : plist * option exn :=
  match ps with
  | [] => (pl, None)
  | p :: r => if memS (pname p) (names pl) then (pl, Some ValueError)
              else add (dict_set (new_id pl) p pl) r
  end.

(* -------------------------------------------- histories of a phase list *)
Inductive plop :=
| PAdd (ps : list phase)
| PDel (k : dkey)
| PAddNI
| PSort
| PIndex (k : key).       (* continue with the returned list when it is a list *)

Definition pl_step (pl : plist) (o : plop) : plist :=
  match o with
  | PAdd ps => fst (add pl ps)
  | PDel k => match del pl k with Ok pl' => pl' | Err _ => pl end
  | PAddNI => add_not_indexed pl
  | PSort => sort_by_id pl
  | PIndex k => match index pl k with IMany pl' => pl' | _ => pl end
  end.

Definition pl_run (ops : list plop) (pl : plist) : plist := fold_left pl_step ops pl.
