(* C09 -- hand-written executable model (no proofs) of
     * diffpy.structure.Lattice.set_new_latt_base_vec (setLatBase) and
       Lattice.reciprocal(), as far as orix reads them,
     * orix.crystal_map.phase_list._new_structure_matrix_from_alignment and the
       Phase.structure setter,
     * the coordinate properties / constructor / setters / length / cross / dot
       of orix.vector.Miller,
   on top of the GENERATED kernels of coq/Gen/C09Miller.v
   (_uvw2UVTW, _UVTW2uvw, _hkl2hkil, _hkil2hkl, _check_UVTW, _check_hkil,
    _transform_space, the new_fmt table of Miller.cross, Miller.space).

   Faithful to the code as it is: exceptions are values ([res]), the 1e-8
   determinant guard of diffpy is modelled (setLatBase and reciprocal()); the
   format table of Miller.cross and the matrices of _transform_space are whatever
   the generated file says (a missing key is a KeyError).  Modelled, not verified: numpy.round(.., 12) of the aligned matrix
   is the identity here; numpy.linalg.inv is the exact inverse. *)
From Coq Require Import ZArith List Bool.
From Verif Require Import Scalar C09Lin C09Miller.
Import ListNotations.

Section Model.
Context {T : Type} (O : Ops T).

Definition eps8 : T := o_ofQ O 1 100000000.

(* ------------------------------------------------------------------ *)
(* diffpy Lattice.set_new_latt_base_vec                                 *)

(* the metric tensor as diffpy computes it from the base rows:
   a = sqrt(r0.r0), cg = r0.r1/(a*b), metrics[0][1] = a*b*cg, ... *)
Definition metrics_of_base (A : mat3 T) : mat3 T :=
  let '(r0, r1, r2) := A in
  let a := o_sqrt O (vdot O r0 r0) in
  let b := o_sqrt O (vdot O r1 r1) in
  let c := o_sqrt O (vdot O r2 r2) in
  let ca := o_div O (vdot O r1 r2) (o_mul O b c) in
  let cb := o_div O (vdot O r0 r2) (o_mul O a c) in
  let cg := o_div O (vdot O r0 r1) (o_mul O a b) in
  ((o_mul O a a, o_mul O (o_mul O a b) cg, o_mul O (o_mul O a c) cb),
   (o_mul O (o_mul O b a) cg, o_mul O b b, o_mul O (o_mul O b c) ca),
   (o_mul O (o_mul O c a) cb, o_mul O (o_mul O c b) ca, o_mul O c c)).

(* "base vectors are degenerate" / "base is not right-handed" *)
Definition base_ok (A : mat3 T) : bool :=
  let d := mdet O A in
  negb (o_ltb O (o_abs O d) eps8) && negb (o_ltb O d (zero O)).

(* metrics of Lattice(base=A) *)
Definition lat_metrics (A : mat3 T) : res (mat3 T) :=
  if base_ok A then Ok (metrics_of_base A) else Err LatticeError.

(* the lattice object after setLatBase(A); [l_rec_metrics] is
   lattice.reciprocal().metrics = Lattice(base=recbase.T).metrics, evaluated
   when it is read (diffpy's own reciprocal metric tensor; orix's
   _transform_space uses recbase.T @ recbase instead and does not read it) *)
Definition lattice_of_base (A : mat3 T) : res (lattice T) :=
  if base_ok A
  then Ok (mkLattice A (minv O A) (metrics_of_base A) (lat_metrics (mtr (minv O A))))
  else Err LatticeError.

(* cell parameters (a, b, c, cos alpha, cos beta, cos gamma) as setLatBase derives them *)
Definition cell_of_base (A : mat3 T) : (T * T * T * T * T * T)%type :=
  let '(r0, r1, r2) := A in
  let a := o_sqrt O (vdot O r0 r0) in
  let b := o_sqrt O (vdot O r1 r1) in
  let c := o_sqrt O (vdot O r2 r2) in
  (a, b, c, o_div O (vdot O r1 r2) (o_mul O b c), o_div O (vdot O r0 r2) (o_mul O a c),
   o_div O (vdot O r0 r1) (o_mul O a b)).

(* ------------------------------------------------------------------ *)
(* _new_structure_matrix_from_alignment                                  *)

Inductive axis : Type := Aa | Ab | Ac | Aar | Abr | Acr.

(* np.isclose(x, 0):  |x| <= 1e-8 *)
Definition isclose0 (x : T) : bool := o_leb O (o_abs O x) eps8.

Definition count_none (x y z : option axis) : nat :=
  (match x with None => 1 | _ => 0 end + match y with None => 1 | _ => 0 end
   + match z with None => 1 | _ => 0 end)%nat.

Definition new_structure_matrix (A : mat3 T) (x y z : option axis) : res (mat3 T) :=
  if Nat.ltb 1 (count_none x y z) then Err ValueError else
  let '(r0, r1, r2) := A in
  let ad := vunit O r0 in
  let bd := vunit O r1 in
  let cd := vunit O r2 in
  let ar := vunit O (vcross O bd cd) in
  let br := vunit O (vcross O cd ad) in
  let cr := vunit O (vcross O ad bd) in
  let pick (o : option axis) : vec3 T :=
    match o with
    | Some Aa => ad | Some Ab => bd | Some Ac => cd
    | Some Aar => ar | Some Abr => br | Some Acr => cr
    | None => vzero O
    end in
  let n0 := pick x in
  let n1 := pick y in
  let n2 := pick z in
  let n0 := if isclose0 (vnorm O n0) then vcross O n1 n2 else n0 in
  let n1 := if isclose0 (vnorm O n1) then vcross O n2 n0 else n1 in
  let n2 := if isclose0 (vnorm O n2) then vcross O n0 n1 else n2 in
  (* new_vectors.dot(old_matrix.reshape(3, 1)) : [i][j] = old[i] . new[j];  .round(12) = id *)
  Ok ((vdot O r0 n0, vdot O r0 n1, vdot O r0 n2),
      (vdot O r1 n0, vdot O r1 n1, vdot O r1 n2),
      (vdot O r2 n0, vdot O r2 n1, vdot O r2 n2)).

(* the alignment the Phase.structure setter asks for: x = "a", z = "c*" *)
Definition align (A : mat3 T) : res (mat3 T) := new_structure_matrix A (Some Aa) None (Some Acr).

(* the Cartesian frame (rows e1', e2', e3') chosen by [align], closed form *)
Definition align_frame (A : mat3 T) : mat3 T :=
  let '(r0, r1, r2) := A in
  let ad := vunit O r0 in
  let cr := vunit O (vcross O ad (vunit O r1)) in
  (ad, vcross O cr ad, cr).

(* ------------------------------------------------------------------ *)
(* Phase.structure setter: (old base, atoms' fractional coordinates) ->
   (new lattice, atoms' new fractional coordinates)                      *)
Definition set_structure (A : mat3 T) (fracs : list (vec3 T))
  : res (lattice T * list (vec3 T)) :=
  rbind (align A) (fun N =>
  let cart := map (fun f => vmat O f A) fracs in          (* old_xyz_cartn *)
  rbind (lattice_of_base N) (fun L =>                      (* lattice.setLatBase(new_matrix) *)
  Ok (L, map (fun x => vmat O x (l_recbase L)) cart))).    (* value.xyz_cartn = old_xyz_cartn *)

(* ------------------------------------------------------------------ *)
(* Miller, one vector at a time (every method below is element-wise over the
   leading axes; arrays are [map]s, see the *_arr versions)              *)

Definition t4 (f : T -> T -> T -> vec4 T) (v : vec3 T) : vec4 T := let '(x, y, z) := v in f x y z.
Definition t3 (f : T -> T -> T -> T -> vec3 T) (q : vec4 T) : vec3 T :=
  let '(x, y, z, w) := q in f x y z w.
Definition b4 (f : T -> T -> T -> T -> bool) (q : vec4 T) : bool :=
  let '(x, y, z, w) := q in f x y z w.

(* getters (properties uvw, hkl, UVTW, hkil) from the stored xyz *)
Definition get_uvw (L : lattice T) (x : vec3 T) : res (vec3 T) := transform_space O L Sc Sd x.
Definition get_hkl (L : lattice T) (x : vec3 T) : res (vec3 T) := transform_space O L Sc Sr x.
Definition get_UVTW (L : lattice T) (x : vec3 T) : res (vec4 T) := rmap (t4 (uvw2UVTW O)) (get_uvw L x).
Definition get_hkil (L : lattice T) (x : vec3 T) : res (vec4 T) := rmap (t4 (hkl2hkil O)) (get_hkl L x).

(* setters (no consistency check on 4-index input) *)
Definition set_uvw (L : lattice T) (c : vec3 T) : res (vec3 T) := transform_space O L Sd Sc c.
Definition set_hkl (L : lattice T) (c : vec3 T) : res (vec3 T) := transform_space O L Sr Sc c.
Definition set_UVTW (L : lattice T) (q : vec4 T) : res (vec3 T) := set_uvw L (t3 (UVTW2uvw O) q).
Definition set_hkil (L : lattice T) (q : vec4 T) : res (vec3 T) := set_hkl L (t3 (hkil2hkl O) q).

(* constructor Miller(uvw=..) / (UVTW=..) / (hkl=..) / (hkil=..): 4-index input is checked *)
Definition make_UVTW (L : lattice T) (q : vec4 T) : res (vec3 T) :=
  if b4 (check_UVTW O) q then set_UVTW L q else Err ValueError.
Definition make_hkil (L : lattice T) (q : vec4 T) : res (vec3 T) :=
  if b4 (check_hkil O) q then set_hkil L q else Err ValueError.

Definition l3 (v : vec3 T) : list T := let '(x, y, z) := v in [x; y; z].
Definition l4 (q : vec4 T) : list T := let '(x, y, z, w) := q in [x; y; z; w].

(* Miller.coordinates in format f *)
Definition coords (L : lattice T) (f : fmt) (x : vec3 T) : res (list T) :=
  match f with
  | Fxyz => Ok (l3 x)
  | Fuvw => rmap l3 (get_uvw L x)
  | FUVTW => rmap l4 (get_UVTW L x)
  | Fhkl => rmap l3 (get_hkl L x)
  | Fhkil => rmap l4 (get_hkil L x)
  end.

(* Miller(<f>=c, phase) -> stored xyz *)
Definition make (L : lattice T) (f : fmt) (c : list T) : res (vec3 T) :=
  match f, c with
  | Fxyz, [x; y; z] => Ok (x, y, z)
  | Fuvw, [x; y; z] => set_uvw L (x, y, z)
  | Fhkl, [x; y; z] => set_hkl L (x, y, z)
  | FUVTW, [x; y; z; w] => make_UVTW L (x, y, z, w)
  | Fhkil, [x; y; z; w] => make_hkil L (x, y, z, w)
  | _, _ => Err ValueError
  end.

(* Miller.length *)
Definition length_of (L : lattice T) (f : fmt) (x : vec3 T) : res T :=
  match f with
  | Fhkl | Fhkil =>   (* lattice.rnorm(self.hkl) = sqrt(sum(dot(hkl, recbase.T)**2)) *)
      rmap (fun h => vnorm O (vmat O h (mtr (l_recbase L)))) (get_hkl L x)
  | Fuvw | FUVTW =>   (* lattice.norm(self.uvw) = sqrt(sum(dot(uvw, base)**2)) *)
      rmap (fun u => vnorm O (vmat O u (l_base L))) (get_uvw L x)
  | Fxyz => Ok (vnorm O x)
  end.

(* _compatible_with for two vectors of the SAME phase: only the space matters *)
Definition compatible (f1 f2 : fmt) : bool := space_eqb (fmt_space f1) (fmt_space f2).

(* Miller.cross: (format, xyz) of the result *)
Definition cross (f1 : fmt) (x1 : vec3 T) (f2 : fmt) (x2 : vec3 T) : res (fmt * vec3 T) :=
  if compatible f1 f2
  then rmap (fun f => (f, vcross O x1 x2)) (cross_format f1)
  else Err ValueError.

(* Miller.dot *)
Definition dot (f1 : fmt) (x1 : vec3 T) (f2 : fmt) (x2 : vec3 T) : res T :=
  if compatible f1 f2 then Ok (vdot O x1 x2) else Err ValueError.

(* ------------------------------------------------------------------ *)
(* arrays: flattened data; an exception anywhere is an exception of the call *)
Fixpoint traverse {A B : Type} (f : A -> res B) (l : list A) : res (list B) :=
  match l with
  | [] => Ok []
  | a :: l' => rbind (f a) (fun b => rmap (cons b) (traverse f l'))
  end.

Definition coords_arr (L : lattice T) (f : fmt) (xs : list (vec3 T)) : res (list (list T)) :=
  traverse (coords L f) xs.
Definition make_arr (L : lattice T) (f : fmt) (cs : list (list T)) : res (list (vec3 T)) :=
  traverse (make L f) cs.

End Model.
