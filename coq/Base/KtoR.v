(* The embedding K = Q(sqrt2, sqrt3) -> R is a ring homomorphism, and the
   boolean equality of K is sound for it.  This is what lets an exact
   vm_compute fact about crystallographic operations in K become a hypothesis
   of a theorem about real quaternions. *)
From Coq Require Import ZArith QArith Qreals Reals Lra List Bool.
From Verif Require Import Scalar RInst KField.
Local Open Scope R_scope.

Definition toR (x : K) : R :=
  Q2R (k1 x) + Q2R (k2 x) * sqrt 2 + Q2R (k3 x) * sqrt 3 + Q2R (k6 x) * sqrt 6.

Lemma Q2R_red q : Q2R (Qred q) = Q2R q.
Proof. apply Qeq_eqR. apply Qred_correct. Qed.

Lemma s2s2 : sqrt 2 * sqrt 2 = 2. Proof. apply sqrt_sqrt; lra. Qed.
Lemma s3s3 : sqrt 3 * sqrt 3 = 3. Proof. apply sqrt_sqrt; lra. Qed.
Lemma s6s6 : sqrt 6 * sqrt 6 = 6. Proof. apply sqrt_sqrt; lra. Qed.
Lemma s2s3 : sqrt 2 * sqrt 3 = sqrt 6.
Proof. rewrite <- sqrt_mult by lra. replace (2 * 3) with 6 by lra. reflexivity. Qed.
Lemma s2s6 : sqrt 2 * sqrt 6 = 2 * sqrt 3.
Proof. rewrite <- s2s3. rewrite <- Rmult_assoc, s2s2. reflexivity. Qed.
Lemma s3s6 : sqrt 3 * sqrt 6 = 3 * sqrt 2.
Proof. rewrite <- s2s3. rewrite (Rmult_comm (sqrt 2)), <- Rmult_assoc, s3s3. reflexivity. Qed.

Lemma toR_red x : toR (Kred x) = toR x.
Proof. unfold toR, Kred; cbn [k1 k2 k3 k6]. rewrite !Q2R_red. reflexivity. Qed.

Lemma toR_add x y : toR (Kadd x y) = toR x + toR y.
Proof.
  unfold Kadd. rewrite toR_red. unfold toR; cbn [k1 k2 k3 k6]. rewrite !Q2R_plus. ring.
Qed.
Lemma toR_opp x : toR (Kopp x) = - toR x.
Proof.
  unfold Kopp. rewrite toR_red. unfold toR; cbn [k1 k2 k3 k6]. rewrite !Q2R_opp. ring.
Qed.
Lemma toR_sub x y : toR (Ksub x y) = toR x - toR y.
Proof. unfold Ksub. rewrite toR_add, toR_opp. ring. Qed.

Lemma toR_mul x y : toR (Kmul x y) = toR x * toR y.
Proof.
  destruct x as [a b c d], y as [e f g h]. unfold Kmul. rewrite toR_red.
  unfold toR; cbn [k1 k2 k3 k6]. rewrite !Q2R_plus, !Q2R_mult.
  change (Q2R 2) with (Q2R (2 # 1)). change (Q2R 3) with (Q2R (3 # 1)). change (Q2R 6) with (Q2R (6 # 1)).
  assert (H2 : Q2R (2 # 1) = 2) by (unfold Q2R; simpl; lra).
  assert (H3 : Q2R (3 # 1) = 3) by (unfold Q2R; simpl; lra).
  assert (H6 : Q2R (6 # 1) = 6) by (unfold Q2R; simpl; lra).
  rewrite H2, H3, H6.
  set (A := Q2R a); set (B := Q2R b); set (C := Q2R c); set (D := Q2R d).
  set (E := Q2R e); set (F := Q2R f); set (G := Q2R g); set (H := Q2R h).
  pose proof s2s2 as P22. pose proof s3s3 as P33. pose proof s6s6 as P66.
  pose proof s2s3 as P23. pose proof s2s6 as P26. pose proof s3s6 as P36.
  set (r2 := sqrt 2) in *. set (r3 := sqrt 3) in *. set (r6 := sqrt 6) in *.
  transitivity (A * E + B * F * (r2 * r2) + C * G * (r3 * r3) + D * H * (r6 * r6)
                + (A * F + B * E) * r2 + (C * H + D * G) * (r3 * r6)
                + (A * G + C * E) * r3 + (B * H + D * F) * (r2 * r6)
                + (A * H + D * E) * r6 + (B * G + C * F) * (r2 * r3)).
  - rewrite P22, P33, P66, P36, P26, P23. ring.
  - ring.
Qed.

Lemma toR_ofZ z : toR (KofZ z) = IZR z.
Proof.
  unfold KofZ, KofQ, toR; cbn [k1 k2 k3 k6]. rewrite Q2R_red.
  unfold Q2R, inject_Z; simpl. rewrite RMicromega.Q2R_0 || idtac.
  replace (Q2R 0) with 0 by (unfold Q2R; simpl; lra). lra.
Qed.

Lemma Qeq_bool_R p q : Qeq_bool p q = true -> Q2R p = Q2R q.
Proof. intros H. apply Qeq_eqR. apply Qeq_bool_iff. exact H. Qed.

Lemma Keqb_sound x y : Keqb x y = true -> toR x = toR y.
Proof.
  unfold Keqb. intros H. repeat (apply andb_prop in H; destruct H as [H ?]).
  unfold toR. repeat match goal with E : Qeq_bool _ _ = true |- _ => apply Qeq_bool_R in E; rewrite E; clear E end.
  reflexivity.
Qed.
