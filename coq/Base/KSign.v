(* Soundness of the sign computation of K = Q(sqrt2, sqrt3) (rational
   enclosures of sqrt 2, sqrt 3, sqrt 6 by Newton iterates) with respect to the
   embedding toR : K -> R. *)
From Coq Require Import ZArith QArith Qreals Reals Lra List Bool.
From Verif Require Import Scalar RInst KField KtoR.
Local Open Scope R_scope.

Lemma Q2R_2 : Q2R 2 = 2. Proof. unfold Q2R; simpl; lra. Qed.
Lemma Q2R_1 : Q2R 1 = 1. Proof. unfold Q2R; simpl; lra. Qed.
Lemma Q2R_0 : Q2R 0 = 0. Proof. unfold Q2R; simpl; lra. Qed.

Lemma Q2R_pos_neq (x : Q) : 0 < Q2R x -> ~ (x == 0)%Q.
Proof. intros H E. apply Qeq_eqR in E. rewrite Q2R_0 in E. lra. Qed.

(* one Newton step keeps an upper bound of the square root *)
Lemma newton_step (n x : Q) : 0 <= Q2R n -> 0 < Q2R x -> Q2R n <= Q2R x * Q2R x ->
  0 < Q2R (newton n x) /\ Q2R n <= Q2R (newton n x) * Q2R (newton n x).
Proof.
  intros Hn Hx Hsq. unfold newton. rewrite Q2R_red.
  assert (Hne : ~ (x == 0)%Q) by (apply Q2R_pos_neq; exact Hx).
  assert (E : Q2R ((x + n / x) / 2) = (Q2R x + Q2R n / Q2R x) / 2).
  { unfold Qdiv. rewrite Q2R_mult, Q2R_plus, Q2R_mult, !Q2R_inv; [|discriminate|exact Hne].
    rewrite Q2R_2. unfold Rdiv. reflexivity. }
  rewrite E. set (X := Q2R x) in *. set (N := Q2R n) in *.
  assert (Hq : 0 <= N / X) by (apply Rmult_le_pos; [lra|left; apply Rinv_0_lt_compat; lra]).
  split; [lra|].
  assert (Hid : (X + N / X) / 2 * ((X + N / X) / 2) - N = (X - N / X) * (X - N / X) / 4).
  { field. lra. }
  assert (0 <= (X - N / X) * (X - N / X)) by (apply Rle_0_sqr).
  lra.
Qed.

Lemma hi_n_bound (n : Q) (k : nat) : 0 <= Q2R n ->
  0 < Q2R (hi_n n k) /\ Q2R n <= Q2R (hi_n n k) * Q2R (hi_n n k).
Proof.
  intros Hn. induction k as [|k [IH1 IH2]].
  - cbn [hi_n]. unfold Qdiv. rewrite Q2R_mult, Q2R_red, Q2R_plus, Q2R_inv by discriminate.
    rewrite Q2R_1. split; nra.
  - cbn [hi_n]. apply newton_step; assumption.
Qed.

Lemma hi_n_ge_sqrt (n : Q) (k : nat) : 0 <= Q2R n -> sqrt (Q2R n) <= Q2R (hi_n n k).
Proof.
  intros Hn. destruct (hi_n_bound n k Hn) as [H1 H2].
  rewrite <- (sqrt_square (Q2R (hi_n n k))) by lra. apply sqrt_le_1; nra.
Qed.

Lemma lo_n_le_sqrt (n : Q) (k : nat) : 0 < Q2R n ->
  0 < Q2R (lo_n n k) /\ Q2R (lo_n n k) <= sqrt (Q2R n).
Proof.
  intros Hn. destruct (hi_n_bound n k (Rlt_le _ _ Hn)) as [H1 H2].
  pose proof (hi_n_ge_sqrt n k (Rlt_le _ _ Hn)) as H3.
  unfold lo_n. rewrite Q2R_red. unfold Qdiv. rewrite Q2R_mult, Q2R_inv by (apply Q2R_pos_neq; exact H1).
  set (h := Q2R (hi_n n k)) in *. set (N := Q2R n) in *.
  assert (Hs : 0 < sqrt N) by (apply sqrt_lt_R0; exact Hn).
  assert (Hss : sqrt N * sqrt N = N) by (apply sqrt_sqrt; lra).
  split.
  - apply Rmult_lt_0_compat; [lra|apply Rinv_0_lt_compat; lra].
  - apply (Rmult_le_reg_r h); [lra|]. rewrite Rmult_assoc, Rinv_l by lra. nra.
Qed.

(* interval product *)
Lemma iv_scale_sound (q sl sh : Q) (s : R) : Q2R sl <= s <= Q2R sh ->
  let '(l, h) := iv_scale q sl sh in Q2R l <= Q2R q * s <= Q2R h.
Proof.
  intros [H1 H2]. unfold iv_scale. destruct (Qle_bool 0 q) eqn:E.
  - apply Qle_bool_iff in E. apply Qle_Rle in E. rewrite Q2R_0 in E.
    rewrite !Q2R_mult. split; apply Rmult_le_compat_l; assumption.
  - assert (Hq : Q2R q < 0).
    { destruct (Rlt_dec (Q2R q) 0); [assumption|exfalso].
      assert (Hle : (0 <= q)%Q) by (apply Rle_Qle; rewrite Q2R_0; lra).
      apply Qle_bool_iff in Hle. congruence. }
    rewrite !Q2R_mult. split; nra.
Qed.

Lemma Q2R_n2 : Q2R 2 = 2. Proof. exact Q2R_2. Qed.
Lemma Q2R_n3 : Q2R 3 = 3. Proof. unfold Q2R; simpl; lra. Qed.
Lemma Q2R_n6 : Q2R 6 = 6. Proof. unfold Q2R; simpl; lra. Qed.

Lemma Kenclose_sound (k : nat) (x : K) :
  let '(l, h) := Kenclose k x in Q2R l <= toR x <= Q2R h.
Proof.
  unfold Kenclose, toR.
  pose proof (iv_scale_sound (k2 x) (lo_n 2 k) (hi_n 2 k) (sqrt 2)) as E2.
  pose proof (iv_scale_sound (k3 x) (lo_n 3 k) (hi_n 3 k) (sqrt 3)) as E3.
  pose proof (iv_scale_sound (k6 x) (lo_n 6 k) (hi_n 6 k) (sqrt 6)) as E6.
  destruct (iv_scale (k2 x) (lo_n 2 k) (hi_n 2 k)) as [l2 h2].
  destruct (iv_scale (k3 x) (lo_n 3 k) (hi_n 3 k)) as [l3 h3].
  destruct (iv_scale (k6 x) (lo_n 6 k) (hi_n 6 k)) as [l6 h6].
  assert (B2 : Q2R (lo_n 2 k) <= sqrt 2 <= Q2R (hi_n 2 k)).
  { rewrite <- Q2R_n2. split; [apply lo_n_le_sqrt; rewrite Q2R_n2; lra | apply hi_n_ge_sqrt; rewrite Q2R_n2; lra]. }
  assert (B3 : Q2R (lo_n 3 k) <= sqrt 3 <= Q2R (hi_n 3 k)).
  { rewrite <- Q2R_n3. split; [apply lo_n_le_sqrt; rewrite Q2R_n3; lra | apply hi_n_ge_sqrt; rewrite Q2R_n3; lra]. }
  assert (B6 : Q2R (lo_n 6 k) <= sqrt 6 <= Q2R (hi_n 6 k)).
  { rewrite <- Q2R_n6. split; [apply lo_n_le_sqrt; rewrite Q2R_n6; lra | apply hi_n_ge_sqrt; rewrite Q2R_n6; lra]. }
  specialize (E2 B2). specialize (E3 B3). specialize (E6 B6).
  rewrite !Q2R_red, !Q2R_plus. lra.
Qed.

Lemma Ksign_fuel_sound (fuel k : nat) (x : K) :
  match Ksign_fuel fuel k x with
  | Some Gt => 0 < toR x
  | Some Lt => toR x < 0
  | Some Eq => False
  | None => True
  end.
Proof.
  revert k. induction fuel as [|f IH]; intros k; cbn [Ksign_fuel]; [exact I|].
  pose proof (Kenclose_sound k x) as E. destruct (Kenclose k x) as [l h].
  destruct (Qlt_le_dec 0 l) as [Hl|Hl].
  - apply Qlt_Rlt in Hl. rewrite Q2R_0 in Hl. lra.
  - destruct (Qlt_le_dec h 0) as [Hh|Hh].
    + apply Qlt_Rlt in Hh. rewrite Q2R_0 in Hh. lra.
    + apply IH.
Qed.

Lemma toR_K0 : toR K0 = 0.
Proof. unfold K0. rewrite toR_ofZ. reflexivity. Qed.

Theorem Ksign_sound (x : K) :
  match Ksign x with
  | Some Gt => 0 < toR x
  | Some Lt => toR x < 0
  | Some Eq => toR x = 0
  | None => True
  end.
Proof.
  unfold Ksign. destruct (Kis0 x) eqn:E.
  - unfold Kis0 in E. apply Keqb_sound in E. rewrite E. apply toR_K0.
  - pose proof (Ksign_fuel_sound 12 3 x) as H. destruct (Ksign_fuel 12 3 x) as [[| |]|]; tauto.
Qed.

Definition Knonneg (x : K) : bool :=
  match Ksign x with Some Gt | Some Eq => true | _ => false end.
Lemma Knonneg_sound (x : K) : Knonneg x = true -> 0 <= toR x.
Proof.
  unfold Knonneg. pose proof (Ksign_sound x) as H. destruct (Ksign x) as [[| |]|]; intros E; try discriminate; lra.
Qed.

Lemma toR_K1 : toR K1 = 1.
Proof. unfold K1. rewrite toR_ofZ. reflexivity. Qed.
