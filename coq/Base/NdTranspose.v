(* numpy.transpose on row-major flattened arrays, and the block swap
   order = range(nb, nb + na) ++ range(nb) that Orientation.dot_outer applies to
   put the axes of self first. *)
From Coq Require Import List Arith Lia.
From Verif Require Import NdIndex.
Import ListNotations.

Fixpoint index_of (x : nat) (l : list nat) : nat :=
  match l with
  | [] => 0
  | y :: l' => if Nat.eqb y x then 0 else S (index_of x l')
  end.

(* numpy.transpose(a, perm): result shape s'[k] = s[perm[k]];
   result[idx'] = a[idx] with idx[perm[k]] = idx'[k], i.e. idx[ax] = idx'[index of ax in perm] *)
Definition transpose_nd {X} (d : X) (perm s : list nat) (l : list X) : list nat * list X :=
  let s' := map (fun k => nth k s 0) perm in
  (s', map (fun k' => let idx' := unravel s' k' in
                      let idx := map (fun ax => nth (index_of ax perm) idx' 0) (seq 0 (length s)) in
                      nth (ravel s idx) l d) (seq 0 (size s'))).

Definition perm_swap (na nb : nat) : list nat := seq nb na ++ seq 0 nb.

(* ------------------------------------------------------------------ index_of *)
Lemma index_of_seq x a n : a <= x < a + n -> index_of x (seq a n) = x - a.
Proof.
  revert a. induction n as [|n IH]; intros a H; [lia|].
  cbn [seq index_of]. destruct (Nat.eqb a x) eqn:E.
  - apply Nat.eqb_eq in E. lia.
  - apply Nat.eqb_neq in E. rewrite IH by lia. lia.
Qed.

Lemma index_of_app_in x l1 l2 : In x l1 -> index_of x (l1 ++ l2) = index_of x l1.
Proof.
  induction l1 as [|y l1 IH]; intros H; [destruct H|].
  cbn [app index_of]. destruct (Nat.eqb y x) eqn:E; [reflexivity|].
  apply Nat.eqb_neq in E. destruct H as [H|H]; [congruence|]. rewrite IH by exact H. reflexivity.
Qed.

Lemma index_of_app_notin x l1 l2 : ~ In x l1 -> index_of x (l1 ++ l2) = length l1 + index_of x l2.
Proof.
  induction l1 as [|y l1 IH]; intros H; [reflexivity|].
  cbn [app index_of length]. destruct (Nat.eqb y x) eqn:E.
  - apply Nat.eqb_eq in E. exfalso. apply H. left. exact E.
  - rewrite IH; [lia|]. intros Hin. apply H. right. exact Hin.
Qed.

(* ------------------------------------------------------------- slices via nth *)
Lemma map_nth_seq {X} (l : list X) (d : X) a n : a + n <= length l ->
  map (fun k => nth k l d) (seq a n) = firstn n (skipn a l).
Proof.
  revert a l. induction n as [|n IH]; intros a l H; [reflexivity|].
  cbn [seq map].
  assert (Hs : skipn a l = nth a l d :: skipn (S a) l).
  { clear IH. revert a H. induction l as [|x l IHl]; intros a H; [cbn in H; lia|].
    destruct a as [|a]; [reflexivity|]. cbn [skipn nth]. apply IHl. cbn in H. lia. }
  rewrite Hs. cbn [firstn]. f_equal. apply IH. lia.
Qed.

Lemma map_nth_seq_app_r {X} (l1 l2 : list X) d :
  map (fun k => nth k (l1 ++ l2) d) (seq (length l1) (length l2)) = l2.
Proof.
  rewrite map_nth_seq by (rewrite app_length; lia).
  rewrite skipn_app, skipn_all, Nat.sub_diag. cbn [app skipn]. apply firstn_all.
Qed.

Lemma map_nth_seq_app_l {X} (l1 l2 : list X) d :
  map (fun k => nth k (l1 ++ l2) d) (seq 0 (length l1)) = l1.
Proof.
  rewrite map_nth_seq by (rewrite app_length; lia). cbn [skipn].
  rewrite firstn_app, Nat.sub_diag, firstn_all. cbn [firstn]. apply app_nil_r.
Qed.

(* --------------------------------------------------------------- block swap *)
Lemma swap_shape (sa sb : list nat) :
  map (fun k => nth k (sb ++ sa) 0) (perm_swap (length sa) (length sb)) = sa ++ sb.
Proof.
  unfold perm_swap. rewrite map_app. f_equal.
  - apply map_nth_seq_app_r.
  - apply map_nth_seq_app_l.
Qed.

Lemma seq_add a n : seq a n = map (fun k => a + k) (seq 0 n).
Proof.
  revert a. induction n as [|n IH]; intros a; [reflexivity|].
  cbn [seq map]. rewrite Nat.add_0_r. f_equal.
  rewrite (IH (S a)), (IH 1), map_map. apply map_ext. intros k. lia.
Qed.

Lemma swap_index (i j : list nat) :
  map (fun ax => nth (index_of ax (perm_swap (length i) (length j))) (i ++ j) 0)
      (seq 0 (length j + length i)) = j ++ i.
Proof.
  rewrite seq_app, map_app. cbn [plus]. f_equal.
  - (* ax < nb: position na + ax *)
    rewrite <- (map_nth_seq_app_r i j 0) at 2.
    rewrite (seq_add (length i)), map_map.
    apply map_ext_in. intros ax Hax. apply in_seq in Hax. unfold perm_swap.
    rewrite index_of_app_notin by (rewrite in_seq; lia).
    rewrite seq_length, index_of_seq by lia.
    f_equal. lia.
  - (* nb <= ax < nb + na: position ax - nb *)
    rewrite <- (map_nth_seq_app_l i j 0) at 2.
    rewrite (seq_add (length j)), map_map.
    apply map_ext_in. intros k Hk. apply in_seq in Hk. unfold perm_swap.
    rewrite index_of_app_in by (rewrite in_seq; lia).
    rewrite index_of_seq by lia. f_equal. lia.
Qed.

Lemma valid_length s idx : valid s idx -> length idx = length s.
Proof. intros H. induction H as [|x y l l' _ _ IH]; [reflexivity|]. cbn [length]. f_equal. exact IH. Qed.

Theorem transpose_swap_spec {X} (d : X) (sa sb : list nat) (l : list X) (i j : list nat) :
  valid sa i -> valid sb j ->
  let '(s', l') := transpose_nd d (perm_swap (length sa) (length sb)) (sb ++ sa) l in
  s' = sa ++ sb /\
  nth (ravel (sa ++ sb) (i ++ j)) l' d = nth (ravel (sb ++ sa) (j ++ i)) l d.
Proof.
  intros Hi Hj. unfold transpose_nd. rewrite swap_shape. split; [reflexivity|].
  assert (Li : length i = length sa) by (apply valid_length; exact Hi).
  assert (Lj : length j = length sb) by (apply valid_length; exact Hj).
  pose proof (valid_app sa sb i j Hi Hj) as Hv.
  rewrite nth_map_seq by (apply ravel_lt; exact Hv).
  cbv zeta. rewrite unravel_ravel by exact Hv.
  rewrite app_length, <- Li, <- Lj. rewrite swap_index. reflexivity.
Qed.
