(* Shapes, C-order ravelled indices and outer products of flat lists.
   Objects of orix are modelled as (shape, flat C-order element list). *)
From Coq Require Import List Arith Lia.
Import ListNotations.

Definition size (s : list nat) : nat := fold_right Nat.mul 1 s.

Fixpoint ravel (s idx : list nat) : nat :=
  match s, idx with
  | n :: s', i :: idx' => i * size s' + ravel s' idx'
  | _, _ => 0
  end.

Definition valid (s idx : list nat) : Prop := Forall2 lt idx s.

Definition outer {A B C} (f : A -> B -> C) (xs : list A) (ys : list B) : list C :=
  flat_map (fun x => map (f x) ys) xs.

Lemma size_app s t : size (s ++ t) = size s * size t.
Proof. induction s as [|n s IH]; simpl; [lia|]. rewrite IH; lia. Qed.

Lemma ravel_lt s idx : valid s idx -> ravel s idx < size s.
Proof.
  intros H; induction H as [|i n idx s Hi Hrest IH]; simpl; [lia|].
  assert (i * size s + ravel s idx < (S i) * size s) by (simpl; lia).
  assert (S i * size s <= n * size s) by (apply Nat.mul_le_mono_r; lia). lia.
Qed.

Lemma ravel_app sA sB i j :
  valid sA i -> valid sB j ->
  ravel (sA ++ sB) (i ++ j) = ravel sA i * size sB + ravel sB j.
Proof.
  intros HA HB; induction HA as [|a n i sA Ha Hrest IH]; simpl; [lia|].
  rewrite IH, size_app; lia.
Qed.

Lemma valid_app sA sB i j : valid sA i -> valid sB j -> valid (sA ++ sB) (i ++ j).
Proof. intros; apply Forall2_app; assumption. Qed.

Lemma outer_length {A B C} (f : A -> B -> C) xs ys :
  length (outer f xs ys) = length xs * length ys.
Proof.
  unfold outer; induction xs as [|x xs IH]; simpl; [reflexivity|].
  rewrite app_length, map_length, IH; reflexivity.
Qed.

Lemma outer_nth {A B C} (f : A -> B -> C) xs ys i j da db dc :
  i < length xs -> j < length ys ->
  nth (i * length ys + j) (outer f xs ys) dc = f (nth i xs da) (nth j ys db).
Proof.
  unfold outer; revert i; induction xs as [|x xs IH]; intros i Hi Hj; simpl in *; [lia|].
  destruct i as [|i].
  - simpl. rewrite app_nth1 by (rewrite map_length; lia).
    rewrite (nth_indep _ dc (f x db)) by (rewrite map_length; lia).
    apply map_nth.
  - rewrite app_nth2 by (rewrite map_length; simpl; lia).
    rewrite map_length.
    replace (S i * length ys + j - length ys) with (i * length ys + j) by (simpl; lia).
    apply IH; lia.
Qed.

(* The outer product of two shaped objects: element (i ++ j) of the result,
   in C order under shape sA ++ sB, is f A[i] B[j]. *)
Theorem outer_shaped {A B C} (f : A -> B -> C) sA sB xs ys i j da db dc :
  length xs = size sA -> length ys = size sB -> valid sA i -> valid sB j ->
  nth (ravel (sA ++ sB) (i ++ j)) (outer f xs ys) dc
  = f (nth (ravel sA i) xs da) (nth (ravel sB j) ys db)
  /\ length (outer f xs ys) = size (sA ++ sB).
Proof.
  intros Hx Hy Hi Hj. split.
  - rewrite ravel_app by assumption. rewrite <- Hy.
    apply outer_nth; [rewrite Hx; apply ravel_lt | rewrite Hy; apply ravel_lt]; assumption.
  - rewrite outer_length, size_app; congruence.
Qed.

(* chunked evaluation: splitting a list into chunks of any positive size,
   mapping, and concatenating gives map (C18) *)
Fixpoint chunks_fuel {A} (fuel k : nat) (l : list A) : list (list A) :=
  match fuel with
  | O => []
  | S fuel' => match l with
               | [] => []
               | _ => firstn k l :: chunks_fuel fuel' k (skipn k l)
               end
  end.
Definition chunks {A} (k : nat) (l : list A) : list (list A) := chunks_fuel (length l) k l.

Lemma concat_chunks_fuel {A} (k : nat) : 0 < k -> forall fuel (l : list A),
  length l <= fuel -> concat (chunks_fuel fuel k l) = l.
Proof.
  intros Hk; induction fuel as [|fuel IH]; intros l Hl.
  - destruct l; simpl in *; [reflexivity|lia].
  - destruct l as [|a l]; [reflexivity|].
    cbn [chunks_fuel concat]. rewrite IH.
    + apply firstn_skipn.
    + rewrite skipn_length. simpl length in *. lia.
Qed.

Theorem concat_chunks {A} (k : nat) (l : list A) : 0 < k -> concat (chunks k l) = l.
Proof. intros Hk; apply concat_chunks_fuel; auto. Qed.

Theorem chunked_map {A B} (f : A -> B) (k : nat) (l : list A) :
  0 < k -> concat (map (map f) (chunks k l)) = map f l.
Proof.
  intros Hk. rewrite <- concat_map, concat_chunks by assumption. reflexivity.
Qed.

(* ---- NumPy broadcasting of two shaped flat lists (executable model) ---- *)
Fixpoint unravel (s : list nat) (k : nat) : list nat :=
  match s with
  | [] => []
  | n :: s' => (k / size s') mod n :: unravel s' (k mod size s')
  end.

Definition pad_shape (r : nat) (s : list nat) : list nat := repeat 1 (r - length s) ++ s.

Fixpoint zip_with {A B C} (f : A -> B -> C) (xs : list A) (ys : list B) : list C :=
  match xs, ys with
  | x :: xs', y :: ys' => f x y :: zip_with f xs' ys'
  | _, _ => []
  end.

Definition bdim (a b : nat) : nat := if Nat.eqb a 1 then b else a.
Definition bcompat (a b : nat) : bool := Nat.eqb a b || Nat.eqb a 1 || Nat.eqb b 1.

Definition bshape (sA sB : list nat) : option (list nat) :=
  let r := Nat.max (length sA) (length sB) in
  let pA := pad_shape r sA in let pB := pad_shape r sB in
  if forallb (fun x => x) (zip_with bcompat pA pB) then Some (zip_with bdim pA pB) else None.

Definition bidx (s idx : list nat) : list nat :=
  zip_with (fun n i => if Nat.eqb n 1 then 0 else i) s idx.

Definition bcast2 {A B C} (f : A -> B -> C) (da : A) (db : B)
           (sA sB : list nat) (xs : list A) (ys : list B) : option (list nat * list C) :=
  match bshape sA sB with
  | None => None
  | Some s =>
      let r := length s in
      let pA := pad_shape r sA in let pB := pad_shape r sB in
      Some (s, map (fun k => let idx := unravel s k in
                             f (nth (ravel pA (bidx pA idx)) xs da)
                               (nth (ravel pB (bidx pB idx)) ys db))
                   (seq 0 (size s)))
  end.

(* ---- unravel inverts ravel; element-wise meaning of broadcasting ---------- *)
Lemma unravel_ravel s idx : valid s idx -> unravel s (ravel s idx) = idx.
Proof.
  intros H. induction H as [|i n idx s Hi Hrest IH]; [reflexivity|].
  cbn [ravel unravel].
  pose proof (ravel_lt s idx Hrest) as Hlt.
  assert (Hs : 0 < size s) by lia.
  rewrite Nat.div_add_l by lia. rewrite (Nat.div_small (ravel s idx)) by assumption.
  rewrite Nat.add_0_r, (Nat.mod_small i n) by assumption.
  rewrite Nat.add_comm, Nat.mod_add by lia. rewrite Nat.mod_small by assumption.
  rewrite IH. reflexivity.
Qed.

Lemma nth_map_seq {C} (h : nat -> C) n k d : k < n -> nth k (map h (seq 0 n)) d = h k.
Proof.
  intros Hk. rewrite nth_indep with (d' := h 0) by (rewrite map_length, seq_length; exact Hk).
  rewrite map_nth, seq_nth by exact Hk. reflexivity.
Qed.

Lemma bcast2_spec {A B C} (f : A -> B -> C) da db dc sA sB xs ys s l :
  bcast2 f da db sA sB xs ys = Some (s, l) ->
  bshape sA sB = Some s /\ length l = size s /\
  forall idx, valid s idx ->
    nth (ravel s idx) l dc =
    f (nth (ravel (pad_shape (length s) sA) (bidx (pad_shape (length s) sA) idx)) xs da)
      (nth (ravel (pad_shape (length s) sB) (bidx (pad_shape (length s) sB) idx)) ys db).
Proof.
  unfold bcast2. destruct (bshape sA sB) as [s0|] eqn:E; [|discriminate].
  intros H. injection H as <- <-. split; [reflexivity|]. split.
  - rewrite map_length, seq_length. reflexivity.
  - intros idx Hv. pose proof (ravel_lt s0 idx Hv) as Hlt.
    rewrite nth_map_seq by exact Hlt. cbv zeta. rewrite unravel_ravel by exact Hv. reflexivity.
Qed.
