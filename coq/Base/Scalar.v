(* Generic scalar interface.  Every numerical definition that is generated
   from /repo (coq/Gen) or hand-modelled (coq/Model) is written once,
   polymorphic in [Ops T], and instantiated on the reals (theorems, RInst.v)
   and on primitive binary64 floats (evaluation for the correspondence check,
   FInst.v).  No proofs in this file. *)
From Coq Require Import ZArith List.
Import ListNotations.

Record Ops (T : Type) := mkOps {
  o_add : T -> T -> T;
  o_sub : T -> T -> T;
  o_mul : T -> T -> T;
  o_div : T -> T -> T;
  o_opp : T -> T;
  o_ofZ : Z -> T;
  (* exact rational constant  num / den ; decimal literals of the source are
     translated to this, so 1e-08 is exactly 1/10^8 in the model over R *)
  o_ofQ : Z -> positive -> T;
  o_pi : T;
  o_sqrt : T -> T;
  o_cos : T -> T;
  o_sin : T -> T;
  o_tan : T -> T;
  o_acos : T -> T;
  o_atan : T -> T;
  o_atan2 : T -> T -> T;          (* atan2 y x, numpy argument order *)
  o_abs : T -> T;
  (* x ** (p/q) for x >= 0 (0 ** r = 0) *)
  o_rpow : T -> Z -> positive -> T;
  (* python / numpy mod: result has the sign of the divisor *)
  o_fmod : T -> T -> T;
  o_ltb : T -> T -> bool;
  o_leb : T -> T -> bool;
  o_eqb : T -> T -> bool;
  o_inf : T;                       (* +infinity; no meaning over R, see RInst *)
  o_isinf : T -> bool
}.

Arguments o_add {T} _. Arguments o_sub {T} _. Arguments o_mul {T} _.
Arguments o_div {T} _. Arguments o_opp {T} _. Arguments o_ofZ {T} _.
Arguments o_ofQ {T} _. Arguments o_pi {T} _. Arguments o_sqrt {T} _.
Arguments o_cos {T} _. Arguments o_sin {T} _. Arguments o_tan {T} _.
Arguments o_acos {T} _. Arguments o_atan {T} _. Arguments o_atan2 {T} _.
Arguments o_abs {T} _. Arguments o_rpow {T} _. Arguments o_fmod {T} _.
Arguments o_ltb {T} _. Arguments o_leb {T} _. Arguments o_eqb {T} _.
Arguments o_inf {T} _. Arguments o_isinf {T} _.

(* Small integer power by repeated multiplication, as numba compiles x**2 *)
Fixpoint o_powN {T} (O : Ops T) (x : T) (n : nat) : T :=
  match n with
  | O => o_ofZ O 1
  | S O => x
  | S m => o_mul O x (o_powN O x m)
  end.

Definition o_max {T} (O : Ops T) (x y : T) : T := if o_ltb O x y then y else x.
Definition o_min {T} (O : Ops T) (x y : T) : T := if o_ltb O y x then y else x.
Definition o_gtb {T} (O : Ops T) (x y : T) : bool := o_ltb O y x.
Definition o_geb {T} (O : Ops T) (x y : T) : bool := o_leb O y x.
Definition o_neb {T} (O : Ops T) (x y : T) : bool := negb (o_eqb O x y).
