(* The exact number field K = Q(sqrt 2, sqrt 3): a + b*sqrt2 + c*sqrt3 + d*sqrt6
   with rational coefficients kept reduced.  All crystallographic point-group
   operations of orix have quaternion components in K, so finite-group facts
   are decided here exactly by vm_compute.  No proofs in this file. *)
From Coq Require Import ZArith QArith List Bool.
From Verif Require Import Scalar.
Import ListNotations.
Local Open Scope Q_scope.

Record K := mkK { k1 : Q; k2 : Q; k3 : Q; k6 : Q }.

Definition Kred (x : K) : K := mkK (Qred (k1 x)) (Qred (k2 x)) (Qred (k3 x)) (Qred (k6 x)).
Definition KofQ (q : Q) : K := mkK (Qred q) 0 0 0.
Definition KofZ (z : Z) : K := KofQ (inject_Z z).
Definition K0 : K := KofZ 0.
Definition K1 : K := KofZ 1.
Definition Ksqrt2 : K := mkK 0 1 0 0.
Definition Ksqrt3 : K := mkK 0 0 1 0.

Definition Kadd (x y : K) : K :=
  Kred (mkK (k1 x + k1 y) (k2 x + k2 y) (k3 x + k3 y) (k6 x + k6 y)).
Definition Kopp (x : K) : K := Kred (mkK (- k1 x) (- k2 x) (- k3 x) (- k6 x)).
Definition Ksub (x y : K) : K := Kadd x (Kopp y).
(* (a + b r2 + c r3 + d r6)(e + f r2 + g r3 + h r6), r2 r3 = r6, r2 r6 = 2 r3, r3 r6 = 3 r2 *)
Definition Kmul (x y : K) : K :=
  let '(mkK a b c d) := x in let '(mkK e f g h) := y in
  Kred (mkK (a * e + 2 * b * f + 3 * c * g + 6 * d * h)
            (a * f + b * e + 3 * c * h + 3 * d * g)
            (a * g + c * e + 2 * b * h + 2 * d * f)
            (a * h + d * e + b * g + c * f)).
Definition Kscale (q : Q) (x : K) : K :=
  Kred (mkK (q * k1 x) (q * k2 x) (q * k3 x) (q * k6 x)).

Definition Keqb (x y : K) : bool :=
  Qeq_bool (k1 x) (k1 y) && Qeq_bool (k2 x) (k2 y) &&
  Qeq_bool (k3 x) (k3 y) && Qeq_bool (k6 x) (k6 y).
Definition Kis0 (x : K) : bool := Keqb x K0.

(* ---- sign, by rational enclosures of sqrt2, sqrt3, sqrt6 ---------------- *)
(* enclosures [lo, hi] with lo^2 < n < hi^2, refined by Newton steps *)
Definition newton (n : Q) (x : Q) : Q := Qred ((x + n / x) / 2).
Fixpoint hi_n (n : Q) (k : nat) : Q :=     (* decreasing upper bounds of sqrt n *)
  match k with O => Qred (n + 1) / 1 | S k' => newton n (hi_n n k') end.
Definition lo_n (n : Q) (k : nat) : Q := Qred (n / hi_n n k).   (* lower bound *)

(* interval [l, h] of q * s where s in [sl, sh], sl > 0 *)
Definition iv_scale (q sl sh : Q) : Q * Q :=
  if Qle_bool 0 q then (q * sl, q * sh) else (q * sh, q * sl).

Definition Kenclose (k : nat) (x : K) : Q * Q :=
  let '(l2, h2) := iv_scale (k2 x) (lo_n 2 k) (hi_n 2 k) in
  let '(l3, h3) := iv_scale (k3 x) (lo_n 3 k) (hi_n 3 k) in
  let '(l6, h6) := iv_scale (k6 x) (lo_n 6 k) (hi_n 6 k) in
  (Qred (k1 x + l2 + l3 + l6), Qred (k1 x + h2 + h3 + h6)).

(* sign: Some Gt / Some Lt / Some Eq; None = precision exhausted (never
   observed; callers treat None as failure) *)
Fixpoint Ksign_fuel (fuel k : nat) (x : K) : option comparison :=
  match fuel with
  | O => None
  | S f =>
      let '(l, h) := Kenclose k x in
      if Qlt_le_dec 0 l then Some Gt
      else if Qlt_le_dec h 0 then Some Lt
      else Ksign_fuel f (S k) x
  end.
Definition Ksign (x : K) : option comparison :=
  if Kis0 x then Some Eq else Ksign_fuel 12 3 x.

Definition Kltb (x y : K) : bool :=
  match Ksign (Ksub y x) with Some Gt => true | _ => false end.
Definition Kleb (x y : K) : bool :=
  match Ksign (Ksub y x) with Some Gt | Some Eq => true | _ => false end.
Definition Kabs (x : K) : K := match Ksign x with Some Lt => Kopp x | _ => x end.

(* An [Ops] instance so that the GENERATED kernels (Hamilton product, vector
   rotation, matrices: only + - * and integer constants) can be run exactly.
   Division is by exact rationals only; transcendental fields are unused
   placeholders (K0) -- no generated definition that needs them is ever
   evaluated on this instance. *)
Definition Kinv_rat (x : K) : K :=
  (* inverse of a purely rational element; K0 otherwise (placeholder) *)
  if Qeq_bool (k2 x) 0 && Qeq_bool (k3 x) 0 && Qeq_bool (k6 x) 0 && negb (Qeq_bool (k1 x) 0)
  then KofQ (/ k1 x) else K0.
Definition KOps : Ops K := {|
  o_add := Kadd; o_sub := Ksub; o_mul := Kmul;
  o_div := fun x y => Kmul x (Kinv_rat y);
  o_opp := Kopp; o_ofZ := KofZ;
  o_ofQ := fun n d => KofQ (Qmake n d);
  o_pi := K0; o_sqrt := fun _ => K0; o_cos := fun _ => K0; o_sin := fun _ => K0;
  o_tan := fun _ => K0; o_acos := fun _ => K0; o_atan := fun _ => K0;
  o_atan2 := fun _ _ => K0; o_abs := Kabs; o_rpow := fun _ _ _ => K0;
  o_fmod := fun _ _ => K0; o_ltb := Kltb; o_leb := Kleb; o_eqb := Keqb;
  o_inf := K0; o_isinf := fun _ => false
|}.
