(* Real-number instance of the scalar interface.  All property theorems about
   numerical kernels are stated on this instance. *)
From Coq Require Import Reals ZArith Lra.
From Verif Require Import Scalar.
Local Open Scope R_scope.

Definition Rltb (x y : R) : bool := if Rlt_dec x y then true else false.
Definition Rleb (x y : R) : bool := if Rle_dec x y then true else false.
Definition Reqb (x y : R) : bool := if Req_EM_T x y then true else false.

(* numpy.arctan2(y, x) for finite arguments *)
Definition Ratan2 (y x : R) : R :=
  if Rlt_dec 0 x then atan (y / x)
  else if Rlt_dec x 0 then
         (if Rle_dec 0 y then atan (y / x) + PI else atan (y / x) - PI)
  else if Rlt_dec 0 y then PI / 2
  else if Rlt_dec y 0 then - (PI / 2)
  else 0.

Definition Rrpow (x : R) (p : Z) (q : positive) : R :=
  if Req_EM_T x 0 then 0 else Rpower x (IZR p / IZR (Zpos q)).

(* python-style mod: x - b*floor(x/b) *)
Definition Rfmod (x b : R) : R := x - b * IZR (Int_part (x / b)).

Definition ROps : Ops R := {|
  o_add := Rplus; o_sub := Rminus; o_mul := Rmult; o_div := Rdiv;
  o_opp := Ropp; o_ofZ := IZR;
  o_ofQ := fun n d => IZR n / IZR (Zpos d);
  o_pi := PI; o_sqrt := sqrt; o_cos := cos; o_sin := sin; o_tan := tan;
  o_acos := acos; o_atan := atan; o_atan2 := Ratan2; o_abs := Rabs;
  o_rpow := Rrpow; o_fmod := Rfmod;
  o_ltb := Rltb; o_leb := Rleb; o_eqb := Reqb;
  (* There is no infinity in R.  Kernels that produce it (ax2ro within 1e-3
     of pi) are only claimed by theorems outside that branch; the value here
     is arbitrary and [o_isinf] is constantly false. *)
  o_inf := 0; o_isinf := fun _ => false
|}.

Lemma Rltb_true x y : Rltb x y = true <-> x < y.
Proof. unfold Rltb; destruct (Rlt_dec x y); split; intros; auto; discriminate. Qed.
Lemma Rltb_false x y : Rltb x y = false <-> y <= x.
Proof. unfold Rltb; destruct (Rlt_dec x y); split; intros; auto; try discriminate; lra. Qed.
Lemma Rleb_true x y : Rleb x y = true <-> x <= y.
Proof. unfold Rleb; destruct (Rle_dec x y); split; intros; auto; discriminate. Qed.
Lemma Rleb_false x y : Rleb x y = false <-> y < x.
Proof. unfold Rleb; destruct (Rle_dec x y); split; intros; auto; try discriminate; lra. Qed.
Lemma Reqb_true x y : Reqb x y = true <-> x = y.
Proof. unfold Reqb; destruct (Req_EM_T x y); split; intros; auto; discriminate. Qed.
Lemma Reqb_false x y : Reqb x y = false <-> x <> y.
Proof. unfold Reqb; destruct (Req_EM_T x y); split; intros; auto; try discriminate; contradiction. Qed.

(* Unfold the instance down to plain operations on R. *)
Ltac rsimpl :=
  cbv [ROps o_add o_sub o_mul o_div o_opp o_ofZ o_ofQ o_pi o_sqrt o_cos o_sin
       o_tan o_acos o_atan o_atan2 o_abs o_rpow o_fmod o_ltb o_leb o_eqb
       o_inf o_isinf o_powN o_max o_min o_gtb o_geb o_neb] in *.
