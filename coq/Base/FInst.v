(* Binary64 instance of the scalar interface: an EVALUATOR ONLY.  It lets
   vm_compute run the very definitions the theorems talk about on the inputs
   the implementation was run on (correspondence check).  Nothing is proved
   about it; its accuracy (about 1e-14 relative for the elementary functions)
   only bounds the sensitivity of the correspondence check. *)
From Coq Require Import ZArith List PrimFloat FloatOps.
From Verif Require Import Scalar.
Import ListNotations.
Local Open Scope float_scope.

Fixpoint pos2f (p : positive) : float :=
  match p with
  | xH => 1
  | xO p => 2 * pos2f p
  | xI p => 2 * pos2f p + 1
  end.

Definition Z2f (z : Z) : float :=
  match z with
  | Z0 => 0
  | Zpos p => pos2f p
  | Zneg p => - pos2f p
  end.

Definition two52 : float := 4503599627370496.

(* round to nearest integer, valid for |x| < 2^51 *)
Definition fround (x : float) : float :=
  if x <? 0 then (x - two52) + two52 else (x + two52) - two52.

Definition ffloor (x : float) : float :=
  if two52 <=? abs x then x else
  let r := fround x in if x <? r then r - 1 else r.

Definition f_pi : float := 0x1.921fb54442d18p+1.
Definition f_pio2_hi : float := 0x1.921fb54442d18p+0.
Definition f_pio2_lo : float := 0x1.1a62633145c07p-54.

(* Horner evaluation of  c0 + c1 y + c2 y^2 ...  *)
Fixpoint horner (cs : list float) (y : float) : float :=
  match cs with
  | [] => 0
  | c :: cs' => c + y * horner cs' y
  end.

(* sin r and cos r for |r| <= pi/4 (Taylor) *)
Definition sin_k (r : float) : float :=
  let y := r * r in
  r * horner [1; -1/6; 1/120; -1/5040; 1/362880; -1/39916800; 1/6227020800;
              -1/1307674368000; 1/355687428096000; -1/121645100408832000] y.
Definition cos_k (r : float) : float :=
  let y := r * r in
  horner [1; -1/2; 1/24; -1/720; 1/40320; -1/3628800; 1/479001600;
          -1/87178291200; 1/20922789888000; -1/6402373705728000;
          1/2432902008176640000] y.

Definition f_sincos (x : float) : float * float :=
  let k := fround (x * (2 / f_pi)) in
  let r := (x - k * f_pio2_hi) - k * f_pio2_lo in
  (* k mod 4 *)
  let m := k - 4 * ffloor (k / 4) in
  let s := sin_k r in let c := cos_k r in
  if m =? 0 then (s, c)
  else if m =? 1 then (c, - s)
  else if m =? 2 then (- s, - c)
  else (- c, s).

Definition f_sin x := fst (f_sincos x).
Definition f_cos x := snd (f_sincos x).
Definition f_tan x := let (s, c) := f_sincos x in s / c.

(* atan for 0 <= x, by two half-angle reductions then Taylor *)
Definition atan_small (x : float) : float :=
  let y := x * x in
  x * horner [1; -1/3; 1/5; -1/7; 1/9; -1/11; 1/13; -1/15; 1/17; -1/19; 1/21;
              -1/23; 1/25; -1/27; 1/29] y.
Definition halve (x : float) : float := x / (1 + sqrt (1 + x * x)).
Definition atan_pos (x : float) : float :=
  if 1 <? x then f_pi / 2 - 4 * atan_small (halve (halve (1 / x)))
  else 4 * atan_small (halve (halve x)).
Definition f_atan (x : float) : float :=
  if x <? 0 then - atan_pos (- x) else atan_pos x.

Definition f_atan2 (y x : float) : float :=
  if 0 <? x then f_atan (y / x)
  else if x <? 0 then
    (if 0 <=? y then
       (if is_infinity (y / x) then f_pi / 2 else f_atan (y / x) + f_pi)
     else f_atan (y / x) - f_pi)
  else if 0 <? y then f_pi / 2
  else if y <? 0 then - (f_pi / 2)
  else 0.

(* better conditioned variant used when |y| > |x| *)
Definition f_atan2' (y x : float) : float :=
  if abs x <? abs y then
    (if 0 <? y then f_pi / 2 - f_atan (x / y) else - (f_pi / 2) - f_atan (x / y))
  else f_atan2 y x.

Definition f_acos (x : float) : float :=
  2 * f_atan2' (sqrt (1 - x)) (sqrt (1 + x)).

(* exp and ln for rpow *)
Definition f_ln2_hi : float := 0x1.62e42fefa39efp-1.
Definition f_ln2_lo : float := 0x1.abc9e3b39803fp-56.

Definition f_exp (x : float) : float :=
  let k := fround (x / f_ln2_hi) in
  let r := (x - k * f_ln2_hi) - k * f_ln2_lo in
  let e := horner [1; 1; 1/2; 1/6; 1/24; 1/120; 1/720; 1/5040; 1/40320; 1/362880;
                   1/3628800; 1/39916800; 1/479001600; 1/6227020800;
                   1/87178291200; 1/1307674368000] r in
  (* scale by 2^k *)
  let kz := match Prim2SF k with
            | SpecFloat.S754_finite s m ex =>
                let v := Z.shiftl (Zpos m) ex in if s then (- v)%Z else v
            | _ => 0%Z end in
  Z.ldexp e kz.

Definition f_ln (x : float) : float :=
  let (m, e) := Z.frexp x in     (* x = m * 2^e, 0.5 <= m < 1 *)
  let '(m, e) := if m <? 0x1.6a09e667f3bcdp-1 then (2 * m, (e - 1)%Z) else (m, e) in
  let t := (m - 1) / (m + 1) in
  let y := t * t in
  2 * t * horner [1; 1/3; 1/5; 1/7; 1/9; 1/11; 1/13; 1/15; 1/17; 1/19; 1/21; 1/23] y
  + Z2f e * f_ln2_hi + Z2f e * f_ln2_lo.

Definition f_rpow (x : float) (p : Z) (q : positive) : float :=
  if x <=? 0 then 0 else f_exp (Z2f p / pos2f q * f_ln x).

Definition f_fmod (x b : float) : float := x - b * ffloor (x / b).

Definition FOps : Ops float := {|
  o_add := add; o_sub := sub; o_mul := mul; o_div := div; o_opp := opp;
  o_ofZ := Z2f; o_ofQ := fun n d => Z2f n / pos2f d;
  o_pi := f_pi; o_sqrt := sqrt; o_cos := f_cos; o_sin := f_sin; o_tan := f_tan;
  o_acos := f_acos; o_atan := f_atan; o_atan2 := f_atan2'; o_abs := abs;
  o_rpow := f_rpow; o_fmod := f_fmod;
  o_ltb := ltb; o_leb := leb; o_eqb := eqb;
  o_inf := infinity; o_isinf := is_infinity
|}.

(* ---- comparison helpers for the correspondence check ---- *)
Definition f_tol : float := 0x1p-30.

Definition fmaxabs1 (y : float) : float := if 1 <? abs y then abs y else 1.

Definition fclose_tol (tol x y : float) : bool :=
  if is_nan x then is_nan y
  else if is_infinity x then (x =? y)
  else abs (x - y) <=? tol * fmaxabs1 y.

Definition fclose := fclose_tol f_tol.

(* equality of angles modulo 2 pi *)
Definition fclose_ang (x y : float) : bool :=
  let d := abs (x - y) in
  let d := d - 2 * f_pi * fround (d / (2 * f_pi)) in
  abs d <=? 0x1p-26.

Fixpoint fclose_list (xs ys : list float) : bool :=
  match xs, ys with
  | [], [] => true
  | x :: xs', y :: ys' => fclose x y && fclose_list xs' ys'
  | _, _ => false
  end.

Fixpoint fclose_list_tol (tol : float) (xs ys : list float) : bool :=
  match xs, ys with
  | [], [] => true
  | x :: xs', y :: ys' => fclose_tol tol x y && fclose_list_tol tol xs' ys'
  | _, _ => false
  end.

(* indices (starting at k) of the cases on which [ok] is false *)
Fixpoint bad_from {A} (ok : A -> bool) (k : nat) (cs : list A) : list nat :=
  match cs with
  | [] => []
  | c :: cs' => if ok c then bad_from ok (S k) cs' else k :: bad_from ok (S k) cs'
  end.
Definition bad {A} (ok : A -> bool) (cs : list A) : list nat := bad_from ok 0 cs.

(* numpy round(x, 12): multiply, round to nearest even integer, divide *)
Definition f_round12 (x : float) : float :=
  let y := x * 1e12 in
  if abs y <? two52 / 4 then fround y / 1e12 else x.
