#!/bin/bash
# Like tools/seedcheck_all.sh, but never touches /repo or /verif's build output:
# each lane works on its own copy of /verif (with the compiled .vo files) and its own scratch
# worktree of /repo HEAD, and runs the registered quick check with VERIF_REPO pointing at the
# worktree.  Several lanes run side by side; /repo stays usable for other checks meanwhile.
# Results: /verif/seeded/<name>/seedcheck.json
# usage: LANES=4 tools/seedcheck_iso.sh [name ...]
set -u
LANES=${LANES:-4}
ROOT=${SC_ROOT:-/tmp/sc}
names=(${@:-$(ls /verif/seeded)})
mkdir -p "$ROOT"
head=$(git -C /repo rev-parse --short HEAD)

lane() {
  local i=$1; shift
  local L=$ROOT/lane$i
  rm -rf "$L/verif"; mkdir -p "$L"
  git -C /repo worktree remove --force "$L/repo" >/dev/null 2>&1; rm -rf "$L/repo"
  git -C /repo worktree add --detach "$L/repo" >/dev/null 2>&1 || { echo "lane $i: no worktree"; return; }
  rsync -a --exclude .git --exclude 'build/numba' --exclude 'build/cases*' /verif/ "$L/verif/"
  for name in "$@"; do
    local d=/verif/seeded/$name
    local prop=$(python3 -c "import json;print(json.load(open('$d/meta.json'))['property'])")
    if ! git -C "$L/repo" apply --check "$d/patch.diff" 2>/dev/null; then
      python3 - "$d" <<'PY'
import json,sys
json.dump({"caught_by":"patch no longer applies to /repo HEAD (needs rebase)","exit":None},open(sys.argv[1]+"/seedcheck.json","w"),indent=1)
PY
      echo "$name: patch does not apply"; continue
    fi
    git -C "$L/repo" apply "$d/patch.diff"
    ( cd "$L/verif" && VERIF_REPO=$L/repo timeout 3000 ./check "$prop" --tier quick ) >"$L/$name.log" 2>&1; local rc=$?
    git -C "$L/repo" checkout -- . ; git -C "$L/repo" clean -fdq
    python3 - "$d" "$rc" "$prop" "$L/$name.log" "$head" "$L/verif" <<'PY'
import json,sys,re
d,rc,prop,log,head,lv=sys.argv[1],int(sys.argv[2]),sys.argv[3],sys.argv[4],sys.argv[5],sys.argv[6]
out="\n".join(l for l in open(log,errors="replace").read().split("\n") if l.startswith(("VIOLATION","BROKEN-TIE")))
sigs=[]
for line in out.split("\n"):
    m=re.match(r"VIOLATION property=\S+ replay=(\S+)",line)
    if m:
        try: sigs.append(json.load(open(m.group(1))).get("signature","tie"))
        except Exception: sigs.append("?")
broken=sorted(set(re.findall(r"BROKEN-TIE: property=\S+ (\w+):",out)))
caught=[]
if sigs: caught.append("oracle replay(s): "+", ".join(sorted(set(map(str,sigs)))[:6]))
if broken: caught.append("broken tie: "+"/".join(broken))
if "no-failing-input-found" in out: caught.append("no-failing-input-found")
json.dump({"check":f"./check {prop} --tier quick","exit":rc,"repo_head":head,
           "caught_by":("; ".join(caught) if rc==1 else "NOT CAUGHT (exit %d)"%rc)},open(d+"/seedcheck.json","w"),indent=1)
print(d.split("/")[-1], rc, "; ".join(caught)[:200], flush=True)
PY
  done
  git -C /repo worktree remove --force "$L/repo" >/dev/null 2>&1
  rm -rf "$L/verif" "$L/repo"
}

for ((i=0;i<LANES;i++)); do
  mine=()
  for ((j=i;j<${#names[@]};j+=LANES)); do mine+=("${names[$j]}"); done
  [ ${#mine[@]} -gt 0 ] && lane $i "${mine[@]}" &
done
wait
git -C /repo worktree prune
