#!/bin/bash
# usage: tools/seedtest.sh <seed-dir-name> [property]   -- apply seeded patch to /repo, run the check, undo
set -u
d=/verif/seeded/$1
prop=${2:-$(python3 -c "import json;print(json.load(open('$d/meta.json'))['property'])")}
git -C /repo status --porcelain | grep -q . && { echo "/repo not clean"; exit 9; }
git -C /repo apply "$d/patch.diff" || { echo "patch does not apply"; exit 9; }
trap 'git -C /repo checkout -- . ' EXIT
cd /verif && ./check "$prop" --tier "${TIER:-quick}"
echo "exit=$?"
