#!/bin/bash
# usage: tools/seedtest.sh <seed-dir-name> [property]   -- apply seeded patch to /repo, run the check, undo
set -u
d=/verif/seeded/$1
prop=${2:-$(python3 -c "import json;print(json.load(open('$d/meta.json'))['property'])")}
git -C /repo status --porcelain | grep -q . && { echo "/repo not clean"; exit 9; }
git -C /repo apply "$d/patch.diff" || { echo "patch does not apply"; exit 9; }
cp /verif/evidence/$prop.json /tmp/evidence_$prop.bak 2>/dev/null
trap 'git -C /repo checkout -- . ; cp /tmp/evidence_'$prop'.bak /verif/evidence/'$prop'.json 2>/dev/null' EXIT
cd /verif && ./check "$prop" --tier "${TIER:-quick}"
echo "exit=$?"
