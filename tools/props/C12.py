"""C12 -- crystal map phase bookkeeping stays consistent (DESIGN.md section 4, C12)."""
import json
import os

from vlib import BUILD, Check, run_cases, run_impl, zlist, zlit, blist

PROP = "C12"

HEADER = """From Verif Require Import C12Phases C12Map.
Open Scope Z_scope.
Open Scope string_scope.

Inductive ctor :=
| CtPhases (idl : option (list Z)) (ps : list phase)
| CtDict (d : list (Z * phase))
| CtFields (nm pg : list (option string)) (idl : option (list Z)).

Definition build (c : ctor) : res plist :=
  match c with
  | CtPhases i p => Ok (pl_of_phases i p)
  | CtDict d => Ok (pl_of_dict d)
  | CtFields a b i => pl_of_fields a b i
  end.

Definition ires_eqb (a b : ires) : bool :=
  match a, b with
  | IErr e, IErr f => exn_eqb e f
  | IOne p, IOne q => phase_eqb p q
  | IMany p, IMany q => plist_eqb p q
  | _, _ => false
  end.

Inductive plobs := PLStep (o : plop) (cont : bool) (e : option exn) (r : option ires) (after : plist).

Fixpoint pl_check (pl : plist) (steps : list plobs) : bool :=
  match steps with
  | [] => true
  | PLStep o cont e r after :: rest =>
      let '(pl', e', r') :=
        match o with
        | PAdd ps => let (p, x) := add pl ps in (p, x, None)
        | PDel k => match del pl k with Ok p => (p, None, None) | Err x => (pl, Some x, None) end
        | PAddNI => (add_not_indexed pl, None, None)
        | PSort => (sort_by_id pl, None, None)
        | PIndex k => match index pl k with
                      | IErr x => (pl, Some x, None)
                      | IOne p => (pl, None, Some (IOne p))
                      | IMany l => ((if cont then l else pl), None, Some (IMany l))
                      end
        end in
      opt_eqb exn_eqb e e' && opt_eqb ires_eqb r r' && plist_eqb pl' after && pl_check pl' rest
  end.

Definition qobs := (nat * res plist * res string)%type.

Definition q_check (s : mstate) (q : qobs) : bool :=
  let '(i, a, b) := q in
  match nth_error (m_views s) i with
  | None => false
  | Some v => res_eqb plist_eqb (phases_in_data (m_store s) v) a
              && res_eqb String.eqb (orientations (m_store s) v) b
  end.

Inductive mobs := MStep (o : op) (e : option exn) (after : mstate) (q : option qobs).

Fixpoint m_check (s : mstate) (steps : list mobs) : bool :=
  match steps with
  | [] => true
  | MStep o e after q :: rest =>
      let (s', e') := step s o in
      opt_eqb exn_eqb e e' && state_eqb s' after
      && match q with Some x => q_check s' x | None => true end
      && m_check s' rest
  end.

Fixpoint last_state (s : mstate) (steps : list mobs) : mstate :=
  match steps with [] => s | MStep o _ _ _ :: rest => last_state (fst (step s o)) rest end.

Inductive case :=
| CPl (c : ctor) (init : res plist) (steps : list plobs)
| CMap (pid : list Z) (pl : option (ctor * bool)) (inview : option (list bool))
       (props : list (string * parr)) (caller : option plist) (init : res mstate)
       (steps : list mobs) (final : list qobs).

Definition ok (c : case) : bool :=
  match c with
  | CPl ct ini steps =>
      res_eqb plist_eqb (build ct) ini
      && match build ct with Ok pl => pl_check pl steps | Err _ => true end
  | CMap pid pl inview props caller ini steps final =>
      let cl : res (option plist) :=
        match pl with
        | None => Ok None
        | Some (ct, prep) => match build ct with
                             | Ok p => Ok (Some (if prep then add_not_indexed p else p))
                             | Err e => Err e
                             end
        end in
      match cl with
      | Err _ => false
      | Ok cl' =>
          opt_eqb plist_eqb cl' caller
          && match init pid cl' props with
             | Err e => res_eqb state_eqb (Err e) ini
             | Ok st =>
                 let s0 := mkState st [match inview with Some v => v | None => map (fun _ => true) pid end] in
                 res_eqb state_eqb (Ok s0) ini && m_check s0 steps
                 && forallb (q_check (last_state s0 steps)) final
             end
      end
  end.
"""


# ------------------------------------------------------------- Coq literals
def cstr(s):
    return '"' + str(s).replace('"', '""') + '"'


def copt(x, f):
    return "None" if x is None else f"(Some {f(x)})"


def clist(xs, f):
    return "[" + "; ".join(f(x) for x in xs) + "]"


def cphase(p):
    return f"(mkPhase {cstr(p['n'] if p['n'] is not None else '')} {copt(p['g'], cstr)} {zlit(p['s'])})"


def centry(e):
    return f"({zlit(e[0])}, {cphase(e[1])})"


def cplist(pl):
    return clist(pl, centry)


def cexn(e):
    return e


def cres(r, f):
    return f"(Err {cexn(r['err'])})" if "err" in r else f"(Ok {f(r['ok'])})"


def coptz(x):
    return copt(x, zlit)


def cctor(c, phobs=None):
    if c["how"] == "phases":
        return f"(CtPhases {copt(c['ids'], zlist)} {clist(c['_phobs'], cphase)})"
    if c["how"] == "dict":
        return f"(CtDict {clist(list(zip(c['ids'], c['_phobs'])), centry)})"
    f = lambda l: clist(l or [], lambda s: copt(s, cstr))  # noqa
    return f"(CtFields {f(c['names'])} {f(c['pgs'])} {copt(c['ids'], zlist)})"


CK = {"tuple": "CTuple", "list": "CList", "arr": "CArr"}


def ckey(k):
    t = k["t"]
    if t == "int":
        return f"(KInt {zlit(k['v'])})"
    if t == "str":
        return f"(KStr {cstr(k['v'])})"
    if t == "ints":
        return f"(KInts {CK[k['c']]} {zlist(k['v'])})"
    if t == "strs":
        return f"(KStrs {CK[k['c']]} {clist(k['v'], cstr)})"
    return f"(KSlice {coptz(k['a'])} {coptz(k['b'])} {coptz(k['s'])})"


def cdkey(k):
    if k["t"] == "int":
        return f"(DelInt {zlit(k['v'])})"
    if k["t"] == "str":
        return f"(DelStr {cstr(k['v'])})"
    return "DelOther"


def cplop(o):
    if o["o"] == "add":
        return f"(PAdd {clist(o['_phobs'], cphase)})"
    if o["o"] == "del":
        return f"(PDel {cdkey(o['k'])})"
    if o["o"] == "addni":
        return "PAddNI"
    if o["o"] == "sort":
        return "PSort"
    return f"(PIndex {ckey(o['k'])})"


def cplstep(s):
    o = s["op"]
    r = "None"
    if "res" in s:
        r = (f"(Some (IOne {cphase(s['res']['one'])}))" if "one" in s["res"]
             else f"(Some (IMany {cplist(s['res']['many'])}))")
    cont = "true" if o.get("cont") else "false"
    return f"PLStep {cplop(o)} {cont} {copt(s['exn'], cexn)} {r} {cplist(s['after'])}"


def cdt(d):
    return {"i": "DInt", "f": "DFlt"}[d]


def carr(a):
    return f"(mkArr {cdt(a['d'])} {zlist(a['v'])})"


def cprops(ps):
    return clist(ps, lambda kv: f"({cstr(kv[0])}, {carr(kv[1])})")


def cstate(s):
    return (f"(mkState (mkStore {zlist(s['pid'])} {cplist(s['phases'])} {cprops(s['props'])}) "
            f"{clist(s['views'], blist)})")


def cq(q):
    return (f"({q['v']}%nat, {cres(q['pid'], cplist)}, {cres(q['ori'], cstr)})")


def cop(o):
    k = o["o"]
    if k == "select":
        s = o["s"]
        sl = f"(SNames {clist(s['v'], cstr)})" if s["t"] == "names" else f"(SMask {blist(s['v'])})"
        return f"(OSelect {o['v']}%nat {sl})"
    if k == "setpid":
        v = o["val"]
        pv = f"(PScalar {zlit(v['v'])})" if v["t"] == "scalar" else f"(PArr {zlist(v['v'])})"
        return f"(OSetPid {o['v']}%nat {pv})"
    if k == "setprop":
        v = o["val"]
        pv = (f"(VScalar {cdt(v['d'])} {zlit(v['v'])})" if v["t"] == "scalar"
              else f"(VArr {cdt(v['d'])} {zlist(v['v'])})")
        return f"(OSetProp {o['v']}%nat {cstr(o['k'])} {pv})"
    if k == "phadd":
        return f"(OPhAdd {clist(o['_phobs'], cphase)})"
    if k == "phdel":
        return f"(OPhDel {cdkey(o['k'])})"
    return {"phaddni": "OPhAddNI", "phsort": "OPhSort"}[k]


def cmstep(s):
    q = f"(Some {cq(s['q'])})" if "q" in s else "None"
    return f"MStep {cop(s['op'])} {copt(s['exn'], cexn)} {cstate(s['after'])} {q}"


def case_coq(c):
    if c["kind"] == "pl":
        return (f"CPl {cctor(c['ctor'])} {cres(c['init'], cplist)} "
                f"{clist(c['steps'], cplstep)}")
    pl = "None" if c["pl"] is None else f"(Some ({cctor(c['pl'])}, {'true' if c.get('plprep') else 'false'}))"
    return (f"CMap {zlist(c['pid'])} {pl} {copt(c['inview'], blist)} "
            f"{cprops([[k, a] for k, a in c['props']])} {copt(c['caller'], cplist)} "
            f"{cres(c['init'], cstate)} {clist(c['steps'], cmstep)} {clist(c.get('final', []), cq)}")


def correspond(ck, cases, chunk=60):
    chunks = []
    for i in range(0, len(cases), chunk):
        body = "Definition cases : list case := [\n" + ";\n".join(case_coq(c) for c in cases[i:i + chunk]) + "].\n"
        chunks.append((f"c{i // chunk}", body))
    res = run_cases(PROP, chunks, header_extra=HEADER)
    nbad = 0
    for (name, n, bad, err), i in zip(res, range(0, len(cases), chunk)):
        if err:
            ck.broken.append(("correspondence", f"cases file {name} did not evaluate: {err[-300:]}"))
            continue
        for b in bad:
            c = cases[i + b]
            nbad += 1
            ck.disagreement(f"model and implementation differ on a {c['kind']} program "
                            f"({c.get('stratum', c['kind'])})", slim(c))
    return nbad


def slim(c):
    """replayable payload of a case: inputs only"""
    if c["kind"] == "pl":
        return {"kind": "pl", "ctor": strip(c["ctor"]), "ops": [strip(o) for o in c["ops"]]}
    return {"kind": "map", "pid": c["pid"], "pl": strip(c["pl"]), "plprep": c.get("plprep", []),
            "inview": c["inview"], "props": c["props"], "ops": [strip(o) for o in c["ops"]]}


def strip(x):
    if isinstance(x, dict):
        return {k: strip(v) for k, v in x.items() if not k.startswith("_")}
    if isinstance(x, list):
        return [strip(v) for v in x]
    return x


def run(tier, seed, only=None):
    ck = Check(PROP, tier, seed)
    ck.trusted += ["hand-written model coq/Model/C12Phases.v, C12Map.v (tied to /repo by the correspondence on every run)",
                   "correspondence harness tools/impl/c12.py + canonicalisation in tools/props/C12.py",
                   "numpy semantics assumed and differentially tested: np.unique = sorted set, boolean-mask assignment "
                   "(broadcast of length-1 values, ValueError on other length mismatches, conversion of the assigned "
                   "values to the array's dtype), np.any(value == -1), np.result_type(int64, float64) = float64, "
                   "np.all of a mask, astype(int) truncates toward zero",
                   "python dict = insertion-ordered map; sorted(d.items()) = stable sort on unique keys",
                   "Phase objects are taken as observed (name, point-group name, space-group number); the "
                   "space-group -> point-group derivation is C03's subject"]
    ck.assumptions += ["colours and structures of phases are not modelled (not part of the property)",
                       "selections by slice/int are C11's subject; C12 models selections by phase name(s), "
                       "'indexed'/'not_indexed' and boolean masks (every subset of points is reachable by a mask)",
                       "the `phases` setter (rebinding the list of one view) is modelled only as its size guard",
                       "property values: int64 and float64 (multiples of 1/4) arrays and scalars, ndim <= 1"]
    if not ck.step_sanity():
        return ck.finish()
    ck.step_prove([], "Props/C12.v", extra=["Model/C12Phases.vo", "Model/C12Map.vo"])
    payload = {"seed": seed, "n": 240 if tier == "quick" else 9000, "exhaustive": 1 if tier == "quick" else 2}
    if only is not None:
        payload["only"] = only
    corpus, expect = [], []
    cdir = os.path.join(os.path.dirname(BUILD), "corpus", PROP)
    if os.path.isdir(cdir) and only is None:
        for f in sorted(os.listdir(cdir)):
            if f.endswith(".json"):
                d = json.load(open(os.path.join(cdir, f)))
                corpus.append(d["case"])
                if d.get("expect_sig"):
                    expect.append((f, d.get("theorem"), d["expect_sig"]))
    if corpus:
        # the corpus (incl. the witnesses of the _refuted theorems) runs first, one program per file
        outc = run_impl("c12.py", {"seed": seed, "only": corpus})
        sigs = set(f["sig"] for f in outc["fails"])
        gone = [f"{f} ({thm}): expected failure '{sig}' no longer reproduces on the implementation"
                for f, thm, sig in expect if sig not in sigs]
        ck.cov["witnesses_replayed"] = len(expect)
        ck.cov["witnesses_not_reproduced"] = gone
    else:
        outc = {"cases": [], "fails": [], "strata": {}}
    out = run_impl("c12.py", payload)
    cases = outc["cases"] + out["cases"]
    for c in cases:
        ck.count(c.get("stratum", c["kind"]), json.dumps(slim(c), sort_keys=True),
                 nontrivial=bool(c["ops"]) or c.get("stratum") == "exhaustive")
    for s, v in list(outc["strata"].items()) + list(out["strata"].items()):
        ck.cov["strata"][s] = ck.cov["strata"].get(s, 0) + v
    for c in cases[:4]:
        ck.sample(slim(c))
    correspond(ck, cases)
    for f in outc["fails"] + out["fails"]:
        ck.failure(f["sig"], f["what"], f["replay"])
    ck.cov["exhaustive_sweep"] = ("construction: every non-empty id set over {-1,0,1,3} x every phase list with ids from "
                            "{-1,0,1,2,3} of size <= %d (model validation only, not the theorem)"
                            % (3 if tier == "quick" else 4))
    ck.cov["partial_or_refuted"] = ["C12_phases_setter_guard_partial"]
    ck.cov["rule"] = ("1/3 phase-list programs (constructor by phases / phases+ids / dict / fields with unequal lengths, "
                      "duplicate, unsorted, sparse ids, with -1; then 1-6 add/del/add_not_indexed/sort/index ops with "
                      "keys of every kind incl. missing ids/names, empty containers, slices with negative/zero steps), "
                      "2/3 crystal-map programs (1-12 points; ids contiguous / sparse / with -1 / only -1; phase list "
                      "absent / fewer / equal / more phases, optionally holding not_indexed; optional is_in_data and "
                      "int/float properties; then 2-8 ops: selection by name(s)/indexed/not_indexed/mask from any "
                      "earlier view, scalar and array phase_id assignment (also wrong lengths, length 1, empty), "
                      "scalar/array int/float property assignment to present and new keys, phase-list "
                      "add/del/add_not_indexed/sort on the map's list); every step's full state (phase ids, phase "
                      "list, property arrays with dtype, all masks), exception kind, phases_in_data and orientations "
                      "symmetry are compared with the Coq model inside Coq; distinct = distinct program; "
                      "non-trivial = has at least one op or belongs to the exhaustive construction sweep")
    return ck.finish()


def replay(path):
    d = json.load(open(path))
    print(json.dumps(d, indent=1)[:4000])
    rep = d.get("replay")
    if rep is None and d.get("correspondence_cases"):
        rep = d["correspondence_cases"][0]["replay"]
    if isinstance(rep, dict) and rep.get("kind") in ("pl", "map"):
        return run("quick", d.get("seed", 0), only=[rep])
    return run("quick", d.get("seed", 0))
