"""C20 -- stereographic projection is an exact bijection; pole densities are
normalised (DESIGN.md section 4, C20; as-built notes in design.d/C20.md)."""
import json

from vlib import Check, fhex, run_cases, run_impl

PROP = "C20"


def v3(v):
    return "(" + ", ".join(fhex(x) for x in v) + ")"


def p2(p):
    return "(" + ", ".join(fhex(x) for x in p) + ")"


def lst(items):
    return "[" + "; ".join(items) + "]"


def fl(xs):
    return lst([fhex(x) for x in xs])


def bl(b):
    return "true" if b else "false"


HEADER = """From Verif.Gen Require Import C20Stereo.
From Verif.Model Require Import C20Proj C20Pdf.
Open Scope float_scope.
Definition V := (float * float * float)%type.
Definition P := (float * float)%type.
Inductive case :=
| Cproj (pole : float) (vs : list V) (out : list P)
| Cinv (pole : float) (pts : list P) (out : list V)
| Csplit (vs : list V) (up lo : list P)
| Cto (deg : bool) (vs out : list V)
| Cfrom (deg : bool) (apr out : list V)
| Cpdf (lower : bool) (steps : nat) (ea ep : list float) (sd : float) (radius : nat) (kern : list float)
       (domrd : bool) (vs : list V) (ws : list float) (aps : list (option P)) (shape : nat * nat)
       (out : option (list float)).
Definition p_close (a b : P) : bool := fclose (fst a) (fst b) && fclose (snd a) (snd b).
Definition v_close (a b : V) : bool :=
  let '(a0, a1, a2) := a in let '(b0, b1, b2) := b in fclose a0 b0 && fclose a1 b1 && fclose a2 b2.
Fixpoint all2 {A B} (f : A -> B -> bool) (xs : list A) (ys : list B) : bool :=
  match xs, ys with
  | [], [] => true
  | x :: xs', y :: ys' => f x y && all2 f xs' ys'
  | _, _ => false
  end.
(* scipy.ndimage._gaussian_kernel1d(sd, 0, radius), recomputed in Coq *)
Definition gkernel (sd : float) (radius : nat) : list float :=
  let ws := map (fun k => f_exp (-0.5 / (sd * sd) * ((Z2f (Z.of_nat k) - Z2f (Z.of_nat radius)) * (Z2f (Z.of_nat k) - Z2f (Z.of_nat radius)))))
                (seq 0 (2 * radius + 1)) in
  let s := sumT FOps ws in map (fun x => x / s) ws.
Fixpoint incrb (l : list float) : bool :=
  match l with
  | a :: ((b :: _) as r) => (a <? b) && incrb r
  | _ => true
  end.
Definition tol9 : float := 0x1p-27.
(* model angles of a vector vs the implementation's (nan = None) *)
Definition ang_close (m : option P * float) (i : option P) : bool :=
  match fst m, i with
  | None, None => true
  | Some a, Some b => p_close a b
  | _, _ => false
  end.
Definition ok (c : case) : bool :=
  match c with
  | Cproj pole vs out => all2 p_close (vector2xy FOps pole vs) out
  | Cinv pole pts out => all2 v_close (map (xy2vec FOps pole) pts) out
  | Csplit vs up lo =>
      let '(u, l) := vector2xy_split FOps vs in all2 p_close u up && all2 p_close l lo
  | Cto deg vs out => all2 v_close (map (vec2polar FOps deg) vs) out
  | Cfrom deg apr out => all2 v_close (map (polar2vec_r FOps deg) apr) out
  | Cpdf lower steps ea ep sd radius kern domrd vs ws aps shape out =>
      (* the implementation's grid is the model's grid, the kernel is scipy's *)
      fclose_list (az_edges FOps steps) ea && fclose_list (polar_edges FOps lower steps) ep &&
      (* hypothesis grid_ok of C20_counted_vectors, on the implementation's edges *)
      incrb ea && incrb ep && (hd 1 ea =? 0) && fclose (last ea 0) (2 * f_pi) &&
      fclose (hd 1 ep) (if lower then f_pi / 2 else 0) && fclose (last ep 0) (if lower then f_pi else f_pi / 2) &&
      fclose_list_tol tol9 (gkernel sd radius) kern &&
      Nat.eqb (fst shape) (pred (List.length ea)) && Nat.eqb (snd shape) (pred (List.length ep)) &&
      (* the model's to_polar of every vector agrees with the implementation's; the bins are
         then decided on the implementation's angle values, so that a 1-ulp difference of the
         float evaluator at a bin edge cannot flip a bin *)
      all2 ang_close (samples_of FOps vs ws) aps &&
      match out with
      | None => true
      | Some o => fclose_list_tol tol9 (pdf_of_samples FOps ea ep kern domrd (combine aps ws)) o
      end
  end.
"""


def case_coq(c):
    k = c["k"]
    if k == "proj":
        return f"Cproj {fhex(c['pole'])} {lst([v3(v) for v in c['vs']])} {lst([p2(p) for p in c['out']])}"
    if k == "inv":
        return f"Cinv {fhex(c['pole'])} {lst([p2(p) for p in c['pts']])} {lst([v3(v) for v in c['out']])}"
    if k == "split":
        return (f"Csplit {lst([v3(v) for v in c['vs']])} {lst([p2(p) for p in c['up']])} "
                f"{lst([p2(p) for p in c['lo']])}")
    if k == "to_polar":
        return f"Cto {bl(c['deg'])} {lst([v3(v) for v in c['vs']])} {lst([v3(v) for v in c['out']])}"
    if k == "from_polar":
        return f"Cfrom {bl(c['deg'])} {lst([v3(v) for v in c['apr']])} {lst([v3(v) for v in c['out']])}"
    if k == "pdf":
        out = "None" if c["out"] is None else f"(Some {fl(c['out'])})"
        return (f"Cpdf {bl(c['lower'])} {int(c['steps'])}%nat {fl(c['ea'])} {fl(c['ep'])} {fhex(c['sd'])} "
                f"{int(c['radius'])}%nat {fl(c['kern'])} {bl(c['mrd'])} {lst([v3(v) for v in c['vs']])} "
                f"{fl(c['ws'])} {lst(['None' if a is None else '(Some ' + p2(a) + ')' for a in c['aps']])} "
                f"({int(c['shape'][0])}%nat, {int(c['shape'][1])}%nat) {out}")
    raise ValueError(k)


def correspond(ck, cases):
    small = [c for c in cases if c["k"] != "pdf"]
    pdf = [c for c in cases if c["k"] == "pdf"]
    groups = []
    for i in range(0, len(small), 150):
        groups.append(small[i:i + 150])
    for i in range(0, len(pdf), 4):
        groups.append(pdf[i:i + 4])
    chunks = []
    for gi, g in enumerate(groups):
        body = "Definition cases : list case := [\n" + ";\n".join(case_coq(c) for c in g) + "].\n"
        chunks.append((f"c{gi}", body))
    res = run_cases(PROP, chunks, header_extra=HEADER)
    for (name, n, bad, err), g in zip(res, groups):
        if err:
            ck.broken.append(("correspondence", f"cases file {name} did not evaluate: {err[-300:]}"))
            continue
        if n != len(g):
            ck.broken.append(("correspondence", f"cases file {name}: {n} of {len(g)} cases evaluated"))
        for b in bad:
            c = g[b]
            rep = {k: c[k] for k in c if k not in ("ea", "ep", "kern", "out", "aps") or c["k"] != "pdf"}
            ck.disagreement(f"model and implementation differ on a {c['k']} case", rep)


def run(tier, seed, n=None):
    ck = Check(PROP, tier, seed)
    ck.trusted += [
        "translator tools/translate (pytrans + units_c20: element-wise reading of the numpy-vectorised "
        "_vector2xy, xy2vector, from_polar, to_polar, azimuth/polar/radial incl. the rounding of copies of x, y "
        "in azimuth; structural check of `v = v.unit` + hemisphere selection in vector2xy / vector2xy_split)",
        "FInst float evaluator (correspondence sensitivity only)",
        "np.histogram2d bin rule (searchsorted right, last bin closed) and scipy.ndimage.gaussian_filter "
        "(correlation with the normalised kernel, wrap/reflect index extension): modelled by hand in "
        "Model/C20Pdf.v and compared with the implementation's output on every run",
        "Vector3d.in_fundamental_sector (symmetry folding) is external to the C20 model: invariance of the "
        "folded density is conditional on C07 and checked by the oracle for all 38 point groups",
    ]
    ck.assumptions += [
        "theorems are over exact reals; float rounding is not modelled",
        "tolerances 1e-9 (hemisphere test on the unit vector) and 1e-8 |v| (np.isclose(atol=) in Vector3d.azimuth) are modelled as exact comparisons",
    ]
    if not ck.step_sanity():
        return ck.finish()
    ck.step_prove(["c20stereo"], "Props/C20.v", extra=["Model/C20Pdf.vo"])
    n = n or (360 if tier == "quick" else 6000)
    out = run_impl("c20.py", {"seed": seed, "n": n, "tier": tier})
    cases = out["cases"]
    for c in cases:
        ck.count(c["k"], json.dumps(c, sort_keys=True)[:4000])
    for s, v in out["strata"].items():
        ck.cov["strata"][s] = v
    for c in cases[:3]:
        ck.sample({k: c[k] for k in list(c)[:4]})
    correspond(ck, cases)
    for f in out["fails"]:
        ck.failure(f["sig"], f["what"], f["replay"])
    ck.cov["rule"] = (
        "vectors drawn from the strata unit / pole / equator / near-equator (|z| around the 1e-9 tolerance) / "
        "non-unit (1e-6..1e4) / shorter than 1e-9 / coordinate axes / x or y below 1e-8 (unit vectors: inside the "
        "rounding band of azimuth; short vectors: outside it) / zero, "
        "both projection poles, plane points inside / on / outside the unit circle, degrees and radians; "
        "pole densities over 7-9 resolutions x 6 smoothing widths x both hemispheres x 4 weight kinds x "
        "mrd on/off, compared bin by bin with the Coq model; folded densities for all 38 point groups "
        "(oracle: invariance under symmetry-equivalent replacement, non-negativity, MRD mean); distinct = "
        "distinct case payload")
    return ck.finish()


def replay(path):
    d = json.load(open(path))
    print(json.dumps(d, indent=1)[:3000])
    return run("quick", d.get("seed", 0))
