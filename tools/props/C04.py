"""C04 -- symmetry-reduced misorientation angle is the true minimum over equivalents."""
import json

from vlib import Check, fhex, run_cases, run_impl

PROP = "C04"


def q4(q):
    return "(" + ", ".join(fhex(x) for x in q) + ")"


def rots(r):
    return "[" + "; ".join(f"({q4(q)}, {'true' if i else 'false'})" for q, i in zip(r["q"], r["imp"])) + "]"


def qs(l):
    return "[" + "; ".join(q4(q) for q in l) + "]"


def nlist(s):
    return "[" + "; ".join(f"{int(x)}%nat" for x in s) + "]"


HEADER = """From Verif Require Import NdIndex NdTranspose Quat RotArr SymDot DotOuter KField GroupK Groups SymDotK KFloat ITARef.
Open Scope float_scope.
Inductive case :=
| Cdot (U : list (rot (T:=float))) (o1 o2 : quat (T:=float)) (out : float)
| Couter (U : list (rot (T:=float))) (A B : list (quat (T:=float))) (sa sb shape : list nat) (out : list float)
| Cset (n1 n2 : String.string) (U : list (rot (T:=float))).
(* the set of symmetry elements the code uses for the pair (self=n1, other=n2), as modelled exactly in K
   (SymDotK.code_set, the object of the theorems), against the runtime _get_unique_symmetry_elements *)
Definition gfind (n : String.string) : list krot :=
  match find (fun g => String.eqb (g_name g) n) groups with Some g => g_elems g | None => [] end.
Definition fsubset (A B : list (rot (T:=float))) : bool := forallb (fun a => existsb (r_close_pm a) B) A.
(* Orientation.dot_outer: Model/DotOuter.dot_outer_model (the object of C04_dot_outer_layout) on binary64 *)
Definition dot_outer_model := DotOuter.dot_outer_model FOps.
Definition ok (c : case) : bool :=
  match c with
  | Cdot U o1 o2 out => fclose (code_dot FOps U o1 o2) out
  | Couter U A B sa sb shape out =>
      let '(s, l) := dot_outer_model U A B sa sb in shape_eqb s shape && fclose_list l out
  | Cset n1 n2 U =>
      let M := map kr2f (if String.eqb n1 n2 then gfind n1 else code_set (gfind n1) (gfind n2)) in
      fsubset M U && fsubset U M && Nat.eqb (List.length M) (List.length U)
  end.
"""


def case_coq(c):
    if c["k"] == "set":
        return f'Cset "{c["pair"][0]}" "{c["pair"][1]}" {rots(c["U"])}'
    if c["k"] == "dot":
        return f"Cdot {rots(c['U'])} {q4(c['o1'])} {q4(c['o2'])} {fhex(c['out'])}"
    return (f"Couter {rots(c['U'])} {qs(c['A'])} {qs(c['B'])} {nlist(c['sa'])} {nlist(c['sb'])} "
            f"{nlist(c['shape'])} [" + "; ".join(fhex(x) for x in c["out"]) + "]")


def correspond(ck, cases, chunk=60):
    chunks = []
    for i in range(0, len(cases), chunk):
        body = "Definition cases : list case := [\n" + ";\n".join(case_coq(c) for c in cases[i:i + chunk]) + "].\n"
        chunks.append((f"c{i // chunk}", body))
    res = run_cases(PROP, chunks, header_extra=HEADER)
    for (name, n, bad, err), i in zip(res, range(0, len(cases), chunk)):
        if err:
            ck.broken.append(("correspondence", f"cases file {name} did not evaluate: {err[-300:]}"))
            continue
        for b in bad:
            c = cases[i + b]
            what = (f"model of Orientation.dot and implementation differ for pair {c.get('pair')}" if c["k"] == "dot"
                    else f"the exact model (SymDotK.code_set) of the symmetry elements used for pair {c.get('pair')} differs from _get_unique_symmetry_elements at run time" if c["k"] == "set"
                    else f"model of Orientation.dot_outer (incl. its axis transposition) and implementation differ for shapes {c['sa']} x {c['sb']}")
            ck.disagreement(what, {k: v for k, v in c.items() if k != "U"})


def run(tier, seed):
    ck = Check(PROP, tier, seed)
    ck.trusted += ["tools/translate/units_c03.py (group data by running orix; exact recognition in K)",
                   "translator for the Hamilton product kernel (used on K, R and float instances)",
                   "hand model Model/SymDot.v of Orientation.dot / dot_outer (tied by the correspondence check)",
                   "Rotation.unique on symmetry products modelled as exact de-duplication up to sign (C17)",
                   "dask lazy paths and Misorientation.get_distance_matrix are oracle-only here (lazy-vs-eager equality is C18)"]
    ck.assumptions += ["equivalents under improper operations are paired so that the product is proper (the code zeroes improper pairs)",
                       "angle = arccos(2 d^2 - 1) is antitone in d on [0,1]: max dot <=> min angle (not restated in Coq)",
                       "numeric maximum-disorientation constants per group are checked by the oracle only"]
    if not ck.step_sanity():
        return ck.finish()
    ck.step_prove(["groups", "quatkernels", "conversions"], "Props/C04.v", extra=["Model/SymDot.vo", "Model/DotOuter.vo", "Model/RotArr.vo", "Model/KFloat.vo", "Proofs/SymDotK.vo", "Model/ITARef.vo"])
    out = run_impl("c04.py", {"seed": seed, "n": 40 if tier == "quick" else 200, "thorough": tier != "quick"},
                   timeout=3000)
    cases = out["cases"]
    for c in cases:
        ck.count(c["k"], json.dumps({k: v for k, v in c.items() if k != "U"}, sort_keys=True)[:3000])
    for s, v in out["strata"].items():
        ck.cov["strata"][s] = v
    for c in cases[:2]:
        ck.sample({k: v for k, v in c.items() if k != "U"})
    correspond(ck, cases)
    for f in out["fails"]:
        ck.failure(f["sig"], f["what"], f["replay"])
    ck.cov["rule"] = ("single symmetry: random subset (quick) or all 38 groups (thorough) with equal / equivalent / within-1e-8 "
                      "orientation pairs; outer products over shape pairs with different ndim, eager and lazy (3 chunk sizes); "
                      "two-phase: random (quick) or all 1406 (thorough) ordered pairs of different groups; misorientation distance "
                      "matrices with Gl=Gr and Gl!=Gr; every value is compared with a brute-force maximum over all pairs of equivalents")
    return ck.finish()


def replay(path):
    d = json.load(open(path))
    print(json.dumps(d, indent=1)[:3000])
    return run("quick", d.get("seed", 0))
