"""C09 -- crystal frame alignment and Miller index conversions are exact linear
maps (DESIGN.md section 4, C09; as-built notes in design.d/C09.md)."""
import json

from vlib import Check, fhex, run_cases, run_impl

PROP = "C09"

# ------------------------------------------------------------------ Coq text
def v3(v):
    return "(" + ", ".join(fhex(x) for x in v) + ")"


v4 = v3


def m3(m):
    return "(" + ", ".join(v3(r) for r in m) + ")"


def lv(vs):
    return "[" + "; ".join(v3(v) for v in vs) + "]"


def lf(xs):
    return "[" + "; ".join(fhex(x) for x in xs) + "]"


def llf(xss):
    return "[" + "; ".join(lf(xs) for xs in xss) + "]"


def res(r, ok):
    if "err" in r:
        return f"(Err {r['err']})"
    return f"(Ok {ok(r['ok'])})"


AX = {"a": "Aa", "b": "Ab", "c": "Ac", "a*": "Aar", "b*": "Abr", "c*": "Acr"}
SP = {"d": "Sd", "r": "Sr", "c": "Sc"}
FM = {"xyz": "Fxyz", "uvw": "Fuvw", "UVTW": "FUVTW", "hkl": "Fhkl", "hkil": "Fhkil"}


def ax(a):
    return "None" if a is None else f"(Some {AX[a]})"


HEADER = """From Verif Require Import C09Lin C09Miller C09Model.
Open Scope float_scope.
Notation F := float.
Definition tol : F := 0x1p-30.
Definition fmaxabs (l : list F) : F := fold_left (fun m x => if m <? abs x then abs x else m) l 0.
(* element-wise |x - y| <= tol * (largest expected magnitude) *)
Fixpoint lclose_s (s : F) (xs ys : list F) : bool :=
  match xs, ys with
  | [], [] => true
  | x :: xs', y :: ys' => (abs (x - y) <=? tol * s) && lclose_s s xs' ys'
  | _, _ => false
  end.
Definition lclose (xs ys : list F) : bool := lclose_s (fmaxabs ys) xs ys.
Definition f3 (v : vec3 F) : list F := let '(x, y, z) := v in [x; y; z].
Definition f4 (v : vec4 F) : list F := let '(x, y, z, w) := v in [x; y; z; w].
Definition fm (m : mat3 F) : list F := let '(a, b, c) := m in f3 a ++ f3 b ++ f3 c.
Definition vlclose (xs ys : list (vec3 F)) : bool :=
  Nat.eqb (List.length xs) (List.length ys) && lclose (flat_map f3 xs) (flat_map f3 ys).
Definition qlclose (xs ys : list (vec4 F)) : bool :=
  Nat.eqb (List.length xs) (List.length ys) && lclose (flat_map f4 xs) (flat_map f4 ys).
Definition llclose (xs ys : list (list F)) : bool :=
  Nat.eqb (List.length xs) (List.length ys) && forallb (fun p => Nat.eqb (List.length (fst p)) (List.length (snd p))) (combine xs ys)
  && lclose (List.concat xs) (List.concat ys).
Definition mclose (a b : mat3 F) : bool := lclose (fm a) (fm b).
(* the aligned matrix is rounded to 12 decimals by the code (modelled as the identity):
   allow that absolute amount on top of the relative tolerance *)
Fixpoint lclose_r (s : F) (xs ys : list F) : bool :=
  match xs, ys with
  | [], [] => true
  | x :: xs', y :: ys' => (abs (x - y) <=? tol * s + 6e-13) && lclose_r s xs' ys'
  | _, _ => false
  end.
Definition mclose_r12 (a b : mat3 F) : bool := lclose_r (fmaxabs (fm b)) (fm a) (fm b).
Definition res_ok {X Y : Type} (cmp : X -> Y -> bool) (m : res X) (i : res Y) : bool :=
  match m, i with
  | Ok a, Ok b => cmp a b
  | Err e, Err e' => exc_eqb e e'
  | _, _ => false
  end.
Definition lat (A : mat3 F) : res (lattice F) := lattice_of_base FOps A.
Inductive case :=
| Cconv4 (uvw : list (vec3 F)) (UVTW UVTWm : list (vec4 F)) (back backm : list (vec3 F))
         (hkil : list (vec4 F)) (hkl : list (vec3 F)) (q : list (vec4 F)) (q_uvw q_hkl : list (vec3 F))
| Calign (A : mat3 F) (x y z : option axis) (r : res (mat3 F))
| Cphase (A : mat3 F) (fr : list (vec3 F))
         (r : res (mat3 F * mat3 F * mat3 F * res (mat3 F) * list (vec3 F)))
| Ctrans (A : mat3 F) (si so : space) (v : list (vec3 F)) (r : res (list (vec3 F)))
| Cmake (A : mat3 F) (f : fmt) (c : list (list F)) (r : res (list (vec3 F)))
| Ccoords (A : mat3 F) (x : list (vec3 F)) (oxyz ouvw oUVTW ohkl ohkil : list (list F))
| Clength (A : mat3 F) (x : list (vec3 F)) (lxyz luvw lUVTW lhkl lhkil : list F)
| Ccross (fa fb : fmt) (xa xb : list (vec3 F)) (r : res (fmt * list (vec3 F)))
| Cdot (fa fb : fmt) (xa xb : list (vec3 F)) (r : res (list F)).
Definition ok (c : case) : bool :=
  match c with
  | Cconv4 uvw U Um back backm hkil hkl q q_uvw q_hkl =>
      qlclose (map (t4 (uvw2UVTW FOps)) uvw) U && qlclose (map (t4 (uvw2UVTW_mtex FOps)) uvw) Um
      && vlclose (map (t3 (UVTW2uvw FOps)) U) back && vlclose (map (t3 (UVTW2uvw_mtex FOps)) Um) backm
      && qlclose (map (t4 (hkl2hkil FOps)) uvw) hkil && vlclose (map (t3 (hkil2hkl FOps)) hkil) hkl
      && vlclose (map (t3 (UVTW2uvw FOps)) q) q_uvw && vlclose (map (t3 (hkil2hkl FOps)) q) q_hkl
  | Calign A x y z r => res_ok mclose_r12 (new_structure_matrix FOps A x y z) r
  | Cphase A fr r =>
      res_ok (fun (m : lattice F * list (vec3 F))
                  (i : mat3 F * mat3 F * mat3 F * res (mat3 F) * list (vec3 F)) =>
                let '(L, fr') := m in let '(b, rb, g, rg, fi) := i in
                mclose (l_base L) b && mclose (l_recbase L) rb && mclose (l_metrics L) g
                && res_ok mclose (l_rec_metrics L) rg && vlclose fr' fi)
             (set_structure FOps A fr) r
  | Ctrans A si so v r =>
      match lat A with
      | Ok L => res_ok vlclose (transform_space_arr FOps L si so v) r
      | Err _ => false
      end
  | Cmake A f c r =>
      match lat A with
      | Ok L => res_ok vlclose (make_arr FOps L f c) r
      | Err _ => false
      end
  | Ccoords A x oxyz ouvw oUVTW ohkl ohkil =>
      match lat A with
      | Ok L => res_ok llclose (coords_arr FOps L Fxyz x) (Ok oxyz)
                && res_ok llclose (coords_arr FOps L Fuvw x) (Ok ouvw)
                && res_ok llclose (coords_arr FOps L FUVTW x) (Ok oUVTW)
                && res_ok llclose (coords_arr FOps L Fhkl x) (Ok ohkl)
                && res_ok llclose (coords_arr FOps L Fhkil x) (Ok ohkil)
      | Err _ => false
      end
  | Clength A x lxyz luvw lUVTW lhkl lhkil =>
      match lat A with
      | Ok L => res_ok lclose (traverse (length_of FOps L Fxyz) x) (Ok lxyz)
                && res_ok lclose (traverse (length_of FOps L Fuvw) x) (Ok luvw)
                && res_ok lclose (traverse (length_of FOps L FUVTW) x) (Ok lUVTW)
                && res_ok lclose (traverse (length_of FOps L Fhkl) x) (Ok lhkl)
                && res_ok lclose (traverse (length_of FOps L Fhkil) x) (Ok lhkil)
      | Err _ => false
      end
  | Ccross fa fb xa xb r =>
      res_ok (fun (m : list (fmt * vec3 F)) (i : fmt * list (vec3 F)) =>
                forallb (fun p => fmt_eqb (fst p) (fst i)) m && vlclose (map snd m) (snd i))
             (traverse (fun p => cross FOps fa (fst p) fb (snd p)) (combine xa xb)) r
  | Cdot fa fb xa xb r =>
      res_ok lclose (traverse (fun p => dot FOps fa (fst p) fb (snd p)) (combine xa xb)) r
  end.
"""


def case_coq(c):
    k = c["k"]
    if k == "conv4":
        return (f"Cconv4 {lv(c['uvw'])} {lv(c['UVTW'])} {lv(c['UVTWm'])} {lv(c['back'])} {lv(c['backm'])} "
                f"{lv(c['hkil'])} {lv(c['hkl'])} {lv(c['q'])} {lv(c['q_uvw'])} {lv(c['q_hkl'])}")
    if k == "align":
        x, y, z = c["axes"]
        return f"Calign {m3(c['A'])} {ax(x)} {ax(y)} {ax(z)} {res(c['res'], m3)}"
    if k == "phase":
        def okf(o):
            return (f"({m3(o['base'])}, {m3(o['recbase'])}, {m3(o['metrics'])}, "
                    f"{res(o['recmetrics'], m3)}, {lv(o['fracs'])})")
        return f"Cphase {m3(c['A'])} {lv(c['fracs'])} {res(c['res'], okf)}"
    if k == "trans":
        return f"Ctrans {m3(c['A'])} {SP[c['si']]} {SP[c['so']]} {lv(c['v'])} {res(c['res'], lv)}"
    if k == "make":
        return f"Cmake {m3(c['A'])} {FM[c['f']]} {llf(c['c'])} {res(c['res'], lv)}"
    if k == "coords":
        o = c["out"]
        return (f"Ccoords {m3(c['A'])} {lv(c['x'])} {llf(o['xyz'])} {llf(o['uvw'])} {llf(o['UVTW'])} "
                f"{llf(o['hkl'])} {llf(o['hkil'])}")
    if k == "length":
        o = c["out"]
        return (f"Clength {m3(c['A'])} {lv(c['x'])} {lf(o['xyz'])} {lf(o['uvw'])} {lf(o['UVTW'])} "
                f"{lf(o['hkl'])} {lf(o['hkil'])}")
    if k == "cross":
        return (f"Ccross {FM[c['fa']]} {FM[c['fb']]} {lv(c['xa'])} {lv(c['xb'])} "
                + res(c["res"], lambda o: f"({FM[o['f']]}, {lv(o['x'])})"))
    if k == "dot":
        return f"Cdot {FM[c['fa']]} {FM[c['fb']]} {lv(c['xa'])} {lv(c['xb'])} {res(c['res'], lf)}"
    raise ValueError(k)


def usable(c):
    """cases whose implementation result can be written as a Coq term"""
    def bad_exc(r):
        return isinstance(r, dict) and "err" in r and r["err"].startswith("Other:")
    if bad_exc(c.get("res")):
        return False
    if c["k"] == "phase" and "ok" in c["res"] and bad_exc(c["res"]["ok"]["recmetrics"]):
        return False
    if c["k"] in ("coords", "length") and len(c["out"]) != 5:
        return False
    return True


def correspond(ck, cases, chunk=120):
    good = []
    for c in cases:
        if usable(c):
            good.append(c)
        else:
            ck.disagreement(f"{c['k']} case: the implementation raised an exception the model does not have "
                            f"or returned an incomplete result", c)
    chunks = []
    for i in range(0, len(good), chunk):
        body = "Definition cases : list case := [\n" + ";\n".join(case_coq(c) for c in good[i:i + chunk]) + "].\n"
        chunks.append((f"c{i // chunk}", body))
    res_ = run_cases(PROP, chunks, header_extra=HEADER)
    for (name, n, bad, err), i in zip(res_, range(0, len(good), chunk)):
        if err:
            ck.broken.append(("correspondence", f"cases file {name} did not evaluate: {err[-300:]}"))
            continue
        if n != len(good[i:i + chunk]):
            ck.broken.append(("correspondence", f"cases file {name}: evaluated {n} of {len(good[i:i + chunk])} cases"))
        for b in bad:
            c = good[i + b]
            ck.disagreement(f"model and implementation differ on a {c['k']} case "
                            f"({c.get('si', '')}{c.get('so', '')}{c.get('f', '')}{c.get('fa', '')})", c)


def run(tier, seed, only=None):
    ck = Check(PROP, tier, seed)
    ck.trusted += ["translator tools/translate (pytrans + units_c09: 4-index kernels, checks, "
                   "_transform_space case table, Miller.cross format table, Miller.space)",
                   "diffpy.structure Lattice.set_new_latt_base_vec / reciprocal() modelled by hand "
                   "(Model/C09Model.v: determinant guards, metrics formula); numpy.linalg.inv assumed to be the "
                   "matrix inverse (both differentially tested each run)",
                   "FInst float evaluator (correspondence sensitivity only)"]
    ck.assumptions += ["theorems are over exact reals; float rounding is not modelled",
                       "numpy.round(new_matrix, 12) in _new_structure_matrix_from_alignment is modelled as the identity",
                       "np.matmul / np.dot over leading axes modelled as map over the flattened vectors "
                       "(correspondence-checked for 7 shapes incl. () and (0,))"]
    if not ck.step_sanity():
        return ck.finish()
    ck.step_prove(["c09miller"], "Props/C09.v", extra=["Model/C09Model.vo"])
    n = 27 if tier == "quick" else 1200
    payload = {"seed": seed, "n": n, "nvec": 3 if tier == "quick" else 6}
    if only is not None:
        payload["only"] = only
    out = run_impl("c09.py", payload)
    cases = out["cases"]
    for c in cases:
        lat = c.get("lattice", {})
        ck.count(c["k"] + ("/" + lat["family"] + "/" + lat["scale"] if lat else ""),
                 json.dumps({k: v for k, v in c.items() if k != "lattice"}, sort_keys=True)[:3000])
    for s, v in out["strata"].items():
        ck.cov["strata"][s] = v
    for c in cases[:2] + [c for c in cases if c["k"] == "phase"][:2]:
        ck.sample({k: c[k] for k in list(c)[:4]})
    correspond(ck, cases)
    for f in out["fails"]:
        ck.failure(f["sig"], f["what"], f["replay"])
    ck.cov["rule"] = ("lattices: 9 families (cubic ... triclinic, near-degenerate) x 3 length scales (normal, "
                      "large-cell V>1e8, small-cell V<1e-8) x initial base rotation (identity, random, axis swap) "
                      "x 0-3 atoms; indices: small/large integers, reals, axis vectors, zero; 7 array shapes; all "
                      "five coordinate formats, all nine space pairs, ten format pairs for cross/dot; distinct = "
                      "distinct case payload; every case is compared Coq-model vs implementation and checked by "
                      "the numpy oracle built from the lattice parameters")
    return ck.finish()


def replay(path):
    d = json.load(open(path))
    print(json.dumps(d, indent=1)[:3000])
    only = None
    rep = d.get("replay")
    if isinstance(rep, dict) and "lattice" in rep:
        only = rep["lattice"]
    return run("quick", d.get("seed", 0), only=only)
