"""C11 -- crystal map selections compose like intersections; per-point data stays
aligned (DESIGN.md section 4, C11; as-built notes in design.d/C11.md)."""
import json
import subprocess

from vlib import COQ, Check, fhex, run_cases, run_impl

PROP = "C11"

HEADER = r"""From Coq Require Import QArith.
From Verif Require Import NdIndex C11CMap.
Close Scope Q_scope.
Inductive pv := PF (f : float) | PZ (z : Z).
Definition pv_eqb (a b : pv) : bool :=
  match a, b with PF x, PF y => PrimFloat.eqb x y | PZ x, PZ y => Z.eqb x y | _, _ => false end.
Fixpoint list_eqb {A} (e : A -> A -> bool) (l1 l2 : list A) : bool :=
  match l1, l2 with
  | [], [] => true
  | a :: t1, b :: t2 => e a b && list_eqb e t1 t2
  | _, _ => false
  end.
Definition opt_eqb {A} (e : A -> A -> bool) (a b : option A) : bool :=
  match a, b with Some x, Some y => e x y | None, None => true | _, _ => false end.
Definition err_eqb (a b : err) : bool :=
  match a, b with ValueError, ValueError | IndexError, IndexError | TypeError, TypeError => true | _, _ => false end.
Definition res_eqb {A} (e : A -> A -> bool) (a b : res A) : bool :=
  match a, b with Ok x, Ok y => e x y | Err x, Err y => err_eqb x y | _, _ => false end.
Definition grid_eqb (a b : list nat * list (option pv)) : bool :=
  list_eqb Nat.eqb (fst a) (fst b) && list_eqb (opt_eqb pv_eqb) (snd a) (snd b).
Definition M := cmap pv (list float).
Record obs := mkobs {
  o_ids : list nat; o_shape : res (list nat); o_x : option (list Q); o_y : option (list Q);
  o_pid : list Z; o_rot : list (list float); o_p : option (list pv); o_q : option (list pv);
  o_row : res (list nat); o_col : res (list nat);
  o_gp : option (res (list nat * list (option pv)));
  o_gq : option (res (list nat * list (option pv)));
  o_ga : option (list pv * res (list nat * list (option pv))) }.
Definition gmd (m : M) (k : string) : res (list nat * list (option pv)) :=
  match acc_prop m k with Some v => get_map_data m false v | None => Err ValueError end.
Definition check_obs (m : M) (o : obs) : bool :=
  list_eqb Nat.eqb (acc_id m) (o_ids o) &&
  res_eqb (list_eqb Nat.eqb) (acc_shape m) (o_shape o) &&
  opt_eqb (list_eqb Qeq_bool) (acc_x m) (o_x o) &&
  opt_eqb (list_eqb Qeq_bool) (acc_y m) (o_y o) &&
  list_eqb Z.eqb (acc_pid m) (o_pid o) &&
  list_eqb (fclose_list_tol (0x1p-40)%float) (acc_rot m) (o_rot o) &&
  opt_eqb (list_eqb pv_eqb) (acc_prop m "p"%string) (o_p o) &&
  opt_eqb (list_eqb pv_eqb) (acc_prop m "q"%string) (o_q o) &&
  res_eqb (list_eqb Nat.eqb) (acc_row m) (o_row o) &&
  res_eqb (list_eqb Nat.eqb) (acc_col m) (o_col o) &&
  (match o_gp o with None => true | Some r => res_eqb grid_eqb (gmd m "p"%string) r end) &&
  (match o_gq o with None => true | Some r => res_eqb grid_eqb (gmd m "q"%string) r end) &&
  (match o_ga o with None => true | Some (item, r) => res_eqb grid_eqb (get_map_data m true item) r end).
Record case := mkcase {
  c_x : option (list Q); c_y : option (list Q); c_pid : list Z; c_rot : list (list float);
  c_props : list (string * list pv); c_phases : list (Z * string); c_ind : list bool;
  c_oshape : list nat; c_init : obs; c_steps : list (key * (err + obs)) }.
Fixpoint run_steps (m : M) (steps : list (key * (err + obs))) : bool :=
  match steps with
  | [] => true
  | (k, exp) :: rest =>
      match getitem m k, exp with
      | Ok m', inr o => check_obs m' o && run_steps m' rest
      | Err e, inl e' => err_eqb e e' && (match rest with [] => true | _ => false end)
      | _, _ => false
      end
  end.
Definition ok (c : case) : bool :=
  match init (c_x c) (c_y c) (c_pid c) (c_rot c) (c_props c) (c_phases c) (c_ind c) with
  | Ok m => list_eqb Nat.eqb (oshape m) (c_oshape c) && check_obs m (c_init c) && run_steps m (c_steps c)
  | Err _ => false
  end.
"""


# ------------------------------------------------------------------ encoding
def fl(x):
    return f"({fhex(x)})%float"


def zl(n):
    return f"({int(n)})%Z"


def lst(items):
    return "[" + "; ".join(items) + "]"


def qlist(a):
    if a is None:
        return "None"
    return "(Some " + lst(f"(Qmake ({n})%Z {d}%positive)" for n, d in a) + ")"


def natlist(a):
    return lst(str(int(v)) for v in a)


def resnat(g):
    if "err" in g:
        return f"(Err {g['err']})"
    return f"(Ok {natlist(g['ok'])})"


def pvl(a, kind):
    if a is None:
        return "None"
    return "(Some " + pvlist(a, kind) + ")"


def pvlist(a, kind):
    return lst((f"PF {fl(v)}" if kind == "f" else f"PZ {zl(v)}") for v in a)


def grid(g):
    """guard result of a get_map_data observation"""
    if g is None:
        return "None"
    return "(Some " + gridres(g) + ")"


def gridres(g):
    if "err" in g:
        return f"(Err {g['err']})"
    o = g["ok"]
    k = o["dtype"]
    cells = lst("None" if v is None else ("Some (PF " + fl(v) + ")" if k == "f" else "Some (PZ " + zl(v) + ")")
                for v in o["cells"])
    return f"(Ok ({natlist(o['shape'])}, {cells}))"


def obs(o):
    ga = "None"
    if o.get("ga") is not None:
        ga = f"(Some ({pvlist(o['ga']['item'], 'f')}, {gridres(o['ga']['res'])}))"
    return ("(mkobs " + " ".join([
        natlist(o["ids"]), resnat(o["shape"]), qlist(o["x"]), qlist(o["y"]),
        lst(zl(v) for v in o["pid"]), lst(lst(fl(v) for v in r) for r in o["rot"]),
        pvl(o["p"], "f"), pvl(o["q"], "z"), resnat(o["row"]), resnat(o["col"]),
        grid(o["gp"]), grid(o["gq"]), ga]) + ")")


def optz(v):
    return "None" if v is None else f"(Some {zl(v)})"


def key(op):
    if "sel" in op:
        ks = []
        for k in op["sel"]:
            if "int" in k:
                ks.append(f"KInt {zl(k['int'])}")
            else:
                a, b, s = k["sl"]
                ks.append(f"KSlice {optz(a)} {optz(b)} {optz(s)}")
        return "(KSel " + lst(ks) + ")"
    if "mask" in op:
        return "(KMask " + lst("true" if b else "false" for b in op["mask"]) + ")"
    return "(KPhase " + lst(f'"{n}"%string' for n in op["phase"]) + ")"


def case_coq(c):
    sp = c["spec"]
    n = sp["nr"] * sp["nc"]
    props = []
    if "p" in sp["props"]:
        props.append(f'("p"%string, {pvlist(sp["p"], "f")})')
    if "q" in sp["props"]:
        props.append(f'("q"%string, {pvlist(sp["q"], "z")})')
    ind = sp["ind"] if sp["ind"] is not None else [True] * n
    steps = []
    for s in c["steps"]:
        if "err" in s:
            steps.append(f"({key(s['op'])}, inl {s['err']})")
        else:
            steps.append(f"({key(s['op'])}, inr {obs(s['obs'])})")
    return ("mkcase " + " ".join([
        qlist(c["x"]), qlist(c["y"]), lst(zl(v) for v in sp["pid"]),
        lst(lst(fl(v) for v in r) for r in c["rot"]), lst(props),
        lst(f'({zl(i)}, "{nm}"%string)' for i, nm in c["phases"]),
        lst("true" if b else "false" for b in ind), natlist(c["oshape"]), obs(c["init"]), lst(steps)]))


def has_other(c):
    return "Other:" in json.dumps(c)


def correspond(ck, cases, chunk=40):
    good = []
    for c in cases:
        if has_other(c):
            ck.disagreement("implementation raised an exception type outside the model's enum "
                            "(ValueError/IndexError/TypeError)", {"spec": c["spec"], "tag": c["tag"],
                                                                   "ops": [s["op"] for s in c["steps"]]})
        else:
            good.append(c)
    chunks = []
    for i in range(0, len(good), chunk):
        body = "Definition cases : list case := [\n" + ";\n".join(case_coq(c) for c in good[i:i + chunk]) + "].\n"
        chunks.append((f"c{i // chunk}", body))
    res = run_cases(PROP, chunks, header_extra=HEADER)
    for (name, n, bad, err), i in zip(res, range(0, len(good), chunk)):
        if err:
            ck.broken.append(("correspondence", f"cases file {name} did not evaluate: {err[-400:]}"))
            continue
        if n != len(good[i:i + chunk]):
            ck.broken.append(("correspondence", f"cases file {name}: {n} cases evaluated, expected {len(good[i:i + chunk])}"))
        for b in bad:
            c = good[i + b]
            ck.disagreement(f"model and implementation differ on history {c['tag']} "
                            f"(map {c['spec']['kind']} {c['spec']['nr']}x{c['spec']['nc']}, stratum {c['strat']})",
                            {"spec": c["spec"], "ops": [s["op"] for s in c["steps"]], "tag": c["tag"]})


def run(tier, seed, only=None):
    ck = Check(PROP, tier, seed)
    ck.trusted += ["hand-written model coq/Model/C11CMap.v of CrystalMap.__getitem__/accessors/get_map_data, tied to "
                   "/repo by the Coq-evaluated correspondence on every run (inputs AND observed outputs embedded in "
                   "the cases files, compared inside Coq)",
                   "tools/impl/c11.py (generator, observation canonicaliser, numpy reference oracle)",
                   "NumPy indexing semantics (boolean mask, slice clipping, assignment broadcasting) as modelled in "
                   "C11CMap.v (key_idx, win_bounds, window_assign); differentially tested by the correspondence"]
    ck.assumptions += ["coordinates are exact rationals in the model (the exact values of the float64 coordinates); "
                       "float rounding of (c - min c)/step is not modelled (for grid coordinates the quotient is "
                       "an integer up to rounding, far from the rounding ties of np.around)",
                       "the selection theorems hold under wf (array lengths agree, every coordinate axis is a regular "
                       "grid: proved for every exact grid with any origin and any positive step) and, for phase keys "
                       "only, a phase list in which no phase is itself called 'indexed'",
                       "Rotation.__getitem__ re-normalises quaternions: rotations are compared to 1e-12",
                       "str.lower() modelled for ASCII only"]
    if not ck.step_sanity():
        return ck.finish()
    proved = ck.step_prove([], "Props/C11.v", extra=["Model/C11CMap.vo"])
    if tier != "quick" and proved:
        # independent re-check of the compiled proofs (and of the absence of axioms) by coqchk
        p = subprocess.run(["timeout", "900", "coqchk", "-silent", "-o", "-Q", ".", "Verif", "Verif.Props.C11"],
                           cwd=COQ, capture_output=True, text=True)
        txt = p.stdout + p.stderr
        ck.cov["coqchk"] = "ok, axioms: none" if (p.returncode == 0 and "Axioms: <none>" in txt) else txt[-400:]
        if p.returncode != 0:
            ck.broken.append(("proof", "coqchk rejects Props/C11.vo: " + txt[-300:]))
    n = 220 if tier == "quick" else 2500
    payload = {"seed": seed, "n": n, "exhaustive": tier != "quick"}
    if only is not None:
        payload["only"] = only
    out = run_impl("c11.py", payload, timeout=3000)
    cases = out["cases"]
    guarded = 0
    for c in cases:
        ops = [s["op"] for s in c["steps"]]
        nontrivial = len(ops) >= 1
        ck.count("history-length=%d" % len(ops), json.dumps({"spec": c["spec"], "ops": ops}, sort_keys=True),
                 nontrivial=nontrivial)
    for s, v in out["strata"].items():
        ck.cov["strata"][s] = v
    for c in cases[8:11] + cases[:1]:
        ck.sample({"map": {k: c["spec"][k] for k in ("kind", "nr", "nc", "ox", "oy", "dx", "dy", "rpp", "props")},
                   "ops": [s["op"] for s in c["steps"]], "final_ids": (c["steps"][-1].get("obs") or {}).get("ids")
                   if c["steps"] else c["init"]["ids"]})
    correspond(ck, cases)
    for f in out["fails"]:
        ck.failure(f["sig"], f["what"], f["replay"])
    wit = out.get("witnesses", {})
    # the former refutation witnesses are regression histories now: a failure on one of them is in out["fails"]
    # (reported above, a VIOLATION since the known-findings entries are of kind "fixed")
    ck.cov["regressions_replayed"] = wit
    ck.cov["exhaustive"] = False
    ck.cov["bounded_exhaustive"] = (
        "thorough tier: maps 2x2,2x3,3x2,3x3,(3,),(4,) x all op sequences of length<=3 over a 7-letter alphabet "
        "(support for the model's validation, not the theorem)") if tier != "quick" else "not run in quick tier"
    ck.cov["partial_clauses"] = []
    ck.cov["refuted_clauses"] = []
    ck.cov["repaired_clauses"] = {
        "C11_mask_then_slice_refuted, C11_stride_then_slice_refuted":
            "C11_slice_selection, C11_selection_history (no rectangle guard), C11_slice_path_exact, C11_never_absent_model",
        "C11_origin_refuted, C11_origin_map_data_refuted, C11_half_step_refuted":
            "C11_any_origin_and_step, C11_exact_grid_wellformed (any origin), C11_shape_bbox, C11_map_data_placement",
        "C11_map_data_array3_refuted": "C11_map_data_placement (any item kind)",
        "C11_single_point_refuted": "C11_row_col_0d, C11_map_data_placement (no oshape <> [] guard)"}
    ck.cov["rule"] = ("10 fixed regression histories (the former _refuted witnesses, replayed on the implementation) + random "
                      "histories of 1-6 selections (tuple/int/slice keys incl. negative/strided/out-of-range/too-many "
                      "indices, boolean masks incl. length-1 and wrong length, phase names incl. indexed/not_indexed/"
                      "unknown/tuples) generated adaptively from the reference state on maps of random 2-D/1-D-x/1-D-y/"
                      "single-point shape, dyadic and non-dyadic steps, origins zero / within half a step / integer offset / exact "
                      "half step, 7 phase-id patterns, 1 or 3 rotations per point, property sets {p,q},{p},{}, optional "
                      "initial is_in_data; after EVERY step all observables (id,shape,x,y,phase_id,rotations,props,row,"
                      "col,get_map_data of float/int/array item) are compared model-vs-implementation inside Coq and "
                      "checked against the numpy reference oracle (which also checks that a 2-D (n,3) item still gives "
                      "one RGB triple per point); audit strata (oracle only, x/* in strata): secondary accessors "
                      "(is_indexed, phases_in_data, rotations_shape, orientations, both access paths of a property, "
                      "bool/float32/2-D properties) and get_map_data of phase_id/id/x/y/is_indexed/rotations/orientations "
                      "and its decimals=/fill_value= paths on every state; int64/float32 coordinates, "
                      "create_coordinate_arrays, constant y, CrystalMap(rotations) alone, x/y origins of different modes, "
                      "maps up to 40x40; NumPy-integer keys (bare, tuple, slice bounds); sibling selections read "
                      "interleaved; deepcopy() inside the history; property writes through a selection; plot() image "
                      "arrays; distinct = distinct (map spec, op list); "
                      "non-trivial = at least one selection applied")
    return ck.finish()


def replay(path):
    d = json.load(open(path))
    print(json.dumps(d, indent=1)[:4000])
    rep = d.get("replay") or {}
    if "spec" in rep and "ops" in rep:
        # rep["extra"]: a failure of one of the audit strata with a history shape of its own (siblings, deepcopy,
        # property writes, plotting wrapper), replayed by the stratum's own routine
        out = run_impl("c11.py", {"seed": d.get("seed", 0), "only": [{"spec": rep["spec"], "ops": rep["ops"],
                                                                     "tag": "replay", "extra": rep.get("extra")}]})
        for f in out["fails"]:
            print(f"REPLAY-FAILURE sig={f['sig']}: {f['what']}")
        if not out["fails"]:
            print("REPLAY: the stored input no longer fails")
        return 1 if out["fails"] else 0
    return run("quick", d.get("seed", 0))
