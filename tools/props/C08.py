"""C08 -- inverse pole figure colours respect crystal symmetry (DESIGN.md section 4,
C08; as-built notes in design.d/C08.md)."""
import glob
import json
import os

from vlib import VERIF, Check, fhex, run_cases, run_impl

PROP = "C08"


def v3(v):
    return "(" + ", ".join(fhex(x) for x in v) + ")"


def q4(q):
    return "(" + ", ".join(fhex(x) for x in q) + ")"


def lst(items):
    return "[" + "; ".join(items) + "]"


def bl(b):
    return "true" if b else "false"


HEADER = """From Verif Require Import C08Color Quat C08Model.
Open Scope float_scope.
Definition V := (float * float * float)%type.
Inductive case :=
| Chsv (h s v : float) (rgb : V)
| Chsl (h s l : float) (out : V)
| Ctbl (impl : list float)
| Cdir (v h : V) (az pol : float) (rgb : V)
| Cori (q : quat (T:=float)) (imp : bool) (d : V) (rgb : V).
(* the roundings of the code, nudged up / down by a few ulp: a case on which the
   three variants disagree sits on a rounding boundary of round(.,10)/round(.,12)
   and is only required to match SOME candidate *)
Definition frnd_up : Rnd (T:=float) :=
  mkRnd (fun x => f_round_dec 1e10 (x + 4e-15)) (fun x => f_round_dec 1e12 (x + 4e-15)) f_ridx.
Definition frnd_dn : Rnd (T:=float) :=
  mkRnd (fun x => f_round_dec 1e10 (x - 4e-15)) (fun x => f_round_dec 1e12 (x - 4e-15)) f_ridx.
Definition color_at (rd : Rnd) (sec : sector) (tbl : list (float * float)) (h : V) : V :=
  let '(az, p) := polar_coordinates FOps rd sec tbl h in color_of_polar FOps az p.
Definition lenient (m3 : bool) (sec : sector) (G : list (rot (T:=float))) tbl (v out : V) : bool :=
  existsb (fun rd => existsb (fun h => v3_close_tol 1e-4 (color_at rd sec tbl h) out)
                             (v :: pre_m3 FOps G v :: map (fun g => ract FOps (rinv FOps g) v) G))
          [frnd; frnd_up; frnd_dn].
Definition stable (m3 : bool) (sec : sector) (G : list (rot (T:=float))) tbl (v : V) : bool :=
  let c := direction2color FOps frnd m3 G sec tbl v in
  v3_close_tol 1e-9 c (direction2color FOps frnd_up m3 G sec tbl v)
  && v3_close_tol 1e-9 c (direction2color FOps frnd_dn m3 G sec tbl v).
Definition dir_strict (m3 : bool) (sec : sector) (G : list (rot (T:=float))) tbl (v h : V) (az pol : float) (rgb : V) : bool :=
  let hm := project FOps frnd m3 G sec v in
  let '(azm, pm) := polar_coordinates FOps frnd sec tbl hm in
  v3_close_tol 1e-9 hm h
  && ((1 - 1e-6 <? pm) || fclose_ang azm az)     (* the azimuth is ill-conditioned at the centre *)
  && fclose_tol 1e-8 pm pol
  && v3_close_tol 1e-7 (color_of_polar FOps azm pm) rgb.
Definition ok_gen (m3 : bool) (sec : sector) (G : list (rot (T:=float))) (tbl : list (float * float)) (c : case) : bool :=
  match c with
  | Chsv h s v rgb => v3_close_tol 1e-12 (hsv_to_rgb FOps h s v) rgb
  | Chsl h s l out => v3_close_tol 1e-12 (hsl_to_hsv FOps h s l) out
  | Ctbl impl => Nat.eqb (List.length tbl) 1000 && fclose_list_tol 1e-7 (map snd tbl) impl
  | Cdir v h az pol rgb =>
      dir_strict m3 sec G tbl v h az pol rgb || (negb (stable m3 sec G tbl v) && lenient m3 sec G tbl v rgb)
  | Cori q imp d rgb =>
      let w := ract FOps (q, imp) d in
      v3_close_tol 1e-7 (orientation2color FOps frnd m3 G sec tbl d (q, imp)) rgb
      || (negb (stable m3 sec G tbl w) && lenient m3 sec G tbl w rgb)
  end.
"""


def group_prelude(g):
    rots = lst(f"({q4(q)}, {bl(i)})" for q, i in zip(g["G"]["q"], g["G"]["imp"]))
    sec = (f"Definition sec : sector (T:=float) := mkSector {lst(v3(n) for n in g['normals'])} "
           f"{v3(g['center'])} {lst(v3(v) for v in g['verts'])}.\n")
    tbl = ("Definition tbl : list (float * float) := Eval vm_compute in correct_table FOps frnd sec.\n"
           if g["verts"] else "Definition tbl : list (float * float) := [].\n")
    return (sec + f"Definition G : list (rot (T:=float)) := {rots}.\n" + tbl
            + f"Definition ok := ok_gen {bl(g['laue'] == '-3')} sec G tbl.\n")


def dir_coq(c):
    return f"Cdir {v3(c['v'])} {v3(c['h'])} {fhex(c['az'])} {fhex(c['pol'])} {v3(c['rgb'])}"


def ori_coq(c):
    return f"Cori {q4(c['q'])} {bl(c['imp'])} {v3(c['d'])} {v3(c['rgb'])}"


def build_chunks(out, per=150):
    """-> list of (name, text), list of (name, [case descriptors])"""
    chunks, index = [], []
    kern = [("hsv", c, f"Chsv {fhex(c['hsv'][0])} {fhex(c['hsv'][1])} {fhex(c['hsv'][2])} {v3(c['rgb'])}")
            for c in out["hsv"]]
    kern += [("hsl", c, f"Chsl {fhex(c['hsl'][0])} {fhex(c['hsl'][1])} {fhex(c['hsl'][2])} {v3(c['out'])}")
             for c in out["hsl"]]
    if kern:
        text = ("Definition sec : sector (T:=float) := mkSector [] (0, 0, 1) [].\n"
                "Definition ok := ok_gen false sec [] [].\n"
                "Definition cases : list case := [\n" + ";\n".join(k[2] for k in kern) + "].\n")
        chunks.append(("kernels", text))
        index.append([{"kind": k[0], "case": k[1]} for k in kern])
    for gi, g in enumerate(out["groups"]):
        items = []
        if g["verts"]:
            items.append(({"kind": "table", "group": g["group"]}, "Ctbl " + lst(fhex(x) for x in g["tbl"])))
        for c in g["dirs"]:
            items.append(({"kind": "direction", "group": g["group"], "case": c}, dir_coq(c)))
        for c in g["oris"]:
            items.append(({"kind": "orientation", "group": g["group"], "case": c}, ori_coq(c)))
        for k in range(0, len(items), per):
            part = items[k:k + per]
            text = group_prelude(g) + "Definition cases : list case := [\n" + ";\n".join(p[1] for p in part) + "].\n"
            chunks.append((f"g{gi:02d}_{k // per}", text))
            index.append([p[0] for p in part])
    return chunks, index


def correspond(ck, out):
    chunks, index = build_chunks(out)
    res = run_cases(PROP, chunks, header_extra=HEADER)
    for (name, n, bad, err), descr in zip(res, index):
        if err:
            ck.broken.append(("correspondence", f"cases file {name} did not evaluate: {err[-400:]}"))
            continue
        if n != len(descr):
            ck.broken.append(("correspondence", f"cases file {name}: {n} cases evaluated, {len(descr)} expected"))
        for b in bad:
            d = descr[b]
            what = {"table": "model and implementation differ on the _correct_azimuth table of the Laue sector of %s",
                    "direction": "model and implementation differ on direction2color for point group %s",
                    "orientation": "model and implementation differ on orientation2color for point group %s",
                    "hsv": "reference hsv_to_rgb differs from matplotlib.colors.hsv_to_rgb%s",
                    "hsl": "translated hsl_to_hsv differs from the implementation%s"}[d["kind"]]
            ck.disagreement(what % d.get("group", ""), d)


def corpus_payloads():
    out = []
    for f in sorted(glob.glob(os.path.join(VERIF, "corpus", PROP, "*.json"))):
        out.append(json.load(open(f)))
    return out


def run(tier, seed, only=None):
    ck = Check(PROP, tier, seed)
    ck.trusted += ["translator tools/translate (units_c08: hsl_to_hsv, rgb_from_polar_coordinates, direction2color "
                   "lightness formula; structural checks of orientation2color and the constructors)",
                   "matplotlib.colors.hsv_to_rgb assumed equal to the reference Model/C08Model.hsv_to_rgb "
                   "(differentially tested each run on all six sextants, h = 1, s = 0)",
                   "sector data (normals, centre, vertices) and Laue group elements are inputs of the model, read "
                   "from the implementation (Symmetry.laue / fundamental_sector belong to C03/C07)",
                   "FInst float evaluator (correspondence sensitivity only)"]
    ck.assumptions += ["theorems are over exact reals; float rounding is not modelled; the code's round(.,10), "
                       "round(.,12) and round-to-index are parameters of the model (theorems hold for every "
                       "monotone rounding fixing -1, 0, 1)",
                       "invariance is proved for the argmax fold given closure of the group list and a unique "
                       "nearest rotated centre; the final 'keep vectors already inside the sector' step needs "
                       "C07 (sector inside the Voronoi cell of its centre), stated as a hypothesis",
                       "NaN handling of the implementation (0/0 -> replaced) is modelled by explicit zero tests"]
    if not ck.step_sanity():
        return ck.finish()
    ck.step_prove(["c08color"], "Props/C08.v", extra=["Model/C08Model.vo"])
    if tier == "quick":
        payload = {"seed": seed, "n": 25, "no": 6, "nk": 80}
    else:
        payload = {"seed": seed, "n": 200, "no": 30, "nk": 600}
    if only:
        payload["only"] = only
    out = run_impl("c08.py", payload)
    for g in out["groups"]:
        for c in g["dirs"]:
            ck.count(f"direction/{c['tag']}", (g["group"], c["v"]))
        for c in g["oris"]:
            ck.count("orientation", (g["group"], c["q"], c["d"]))
        if g["verts"]:
            ck.count("table", g["group"])
    for c in out["hsv"]:
        ck.count("hsv_to_rgb", c["hsv"])
    for c in out["hsl"]:
        ck.count("hsl_to_hsv", c["hsl"])
    for s, v in out["strata"].items():
        ck.cov["strata"][s] = v
    if out["groups"]:
        g = out["groups"][-1]
        ck.sample({"group": g["group"], "laue": g["laue"], "direction": g["dirs"][0]})
        ck.sample({"group": g["group"], "orientation": g["oris"][0] if g["oris"] else None})
        ck.sample({"hsv": out["hsv"][0]})
    correspond(ck, out)
    for f in out["fails"]:
        ck.failure(f["sig"], f["what"], f["replay"])
    # regression corpus: fixed directions that must keep reproducing (or be fixed)
    for p in corpus_payloads():
        o2 = run_impl("c08_corpus.py", p) if os.path.exists(os.path.join(VERIF, "tools", "impl", "c08_corpus.py")) else None
        if o2:
            for f in o2["fails"]:
                ck.failure(f["sig"], f["what"], f["replay"])
            ck.cov["evaluations"] += o2.get("n", 0)
    ck.cov["rule"] = ("for the Laue group of each of the 38 named point groups: random generic / scaled / in-sector / "
                      "symmetry-equivalent directions, the sector centre (unit and as stored), every vertex, points "
                      "on every bounding plane and edge, low-index directions; random orientations (proper and "
                      "improper, sample direction z / x / random); the 1000-point azimuth-correction table; kernel "
                      "cases for hsv_to_rgb (all sextants, h=1, s=0) and hsl_to_hsv (both lightness branches, 0/0). "
                      "Every case is evaluated by the Coq model (vm_compute on binary64) and compared with the "
                      "implementation stage by stage (projection, azimuth, polar, RGB); distinct = distinct "
                      "(group, input); the oracle additionally checks invariance under every Laue element, range, "
                      "shape, lightness and corner colours on the implementation")
    return ck.finish()


def replay(path):
    d = json.load(open(path))
    print(json.dumps(d, indent=1)[:4000])
    rep = d.get("replay") or {}
    only = [rep["group"]] if isinstance(rep, dict) and rep.get("group") else None
    return run("quick", d.get("seed", 0), only=only)
