"""C17 -- unique() returns a duplicate-free cover with valid index maps
(DESIGN.md section 4, C17; as-built notes in design.d/C17.md)."""
import glob
import json
import os

from vlib import VERIF, Check, fhex, run_cases, run_impl

PROP = "C17"


def frow(r):
    return "[" + "; ".join(fhex(x) for x in r) + "]"


def frows(rs):
    return "[" + "; ".join(frow(r) for r in rs) + "]"


def nats(xs):
    return "[" + "; ".join(f"{int(x)}%nat" for x in xs) + "]"


def rots(qs, imps):
    return "[" + "; ".join("((" + ", ".join(fhex(x) for x in q) + f"), {'true' if i else 'false'})"
                           for q, i in zip(qs, imps)) + "]"


HEADER = """From Verif Require Import Quat C17Differentiators C17Unique.
Open Scope float_scope.
Inductive case :=
| Cbase (flat out : list (list float)) (idx inv : list nat) (hasinv : bool)
| Crot (antipodal : bool) (flat out : list (rot (T:=float))) (idx inv : list nat)
| Cmil (ops : list (rot (T:=float))) (flat out : list (list float)) (idx : list nat)
| Cnpu (rows : list (list float)) (idx inv : list nat)
| Cround (x r10 r12 : list float).
(* Rotation.__getitem__ re-normalises: returned quaternions may be an ulp off *)
Definition fnear (x y : float) : bool := abs (x - y) <=? 0x1p-46.
Definition frot_near (r s : rot (T:=float)) : bool :=
  let '(a, b, c, d) := fst r in let '(e, f, g, h) := fst s in
  fnear a e && fnear b f && fnear c g && fnear d h && Bool.eqb (snd r) (snd s).
Fixpoint frots_near (a b : list (rot (T:=float))) : bool :=
  match a, b with
  | [], [] => true
  | r :: a', s :: b' => frot_near r s && frots_near a' b'
  | _, _ => false
  end.
Definition ok (c : case) : bool :=
  match c with
  | Cbase flat out idx inv hasinv =>
      let '(o, i, v) := base_unique FOps f_round10 flat in
      frows_eqb o out && nats_eqb i idx && (negb hasinv || nats_eqb v inv)
  | Crot ap flat out idx inv =>
      let '(o, i, v) := rotation_unique FOps f_round10r f_round12 ap flat in
      frots_near o out && nats_eqb i idx && nats_eqb v inv
  | Cmil ops flat out idx =>
      let '(o, i) := miller_unique_num FOps f_round10 ops true flat in
      frows_eqb o out && nats_eqb i idx
  | Cnpu rows idx inv =>
      let '(_, i, v) := np_unique (rowcmp FOps) rows in nats_eqb i idx && nats_eqb v inv
  | Cround x r10 r12 => frow_eqb (map f_round10 x) r10 && frow_eqb (map f_round12 x) r12
  end.
"""


def case_coq(c):
    k = c["k"]
    if k == "base":
        inv = c["inv"]
        return (f"Cbase {frows(c['flat'])} {frows(c['out'])} {nats(c['idx'])} "
                f"{nats(inv or [])} {'true' if inv is not None else 'false'}")
    if k == "rot":
        return (f"Crot {'true' if c['antipodal'] else 'false'} {rots(c['q'], c['imp'])} "
                f"{rots(c['oq'], c['oi'])} {nats(c['idx'])} {nats(c['inv'])}")
    if k == "mil":
        return f"Cmil {rots(c['ops'], c['opsi'])} {frows(c['flat'])} {frows(c['out'])} {nats(c['idx'])}"
    if k == "npu":
        return f"Cnpu {frows(c['rows'])} {nats(c['idx'])} {nats(c['inv'])}"
    if k == "round":
        return f"Cround {frow(c['x'])} {frow(c['r10'])} {frow(c['r12'])}"
    raise ValueError(k)


def correspond(ck, cases, chunk=200):
    chunks = []
    for i in range(0, len(cases), chunk):
        body = "Definition cases : list case := [\n" + ";\n".join(case_coq(c) for c in cases[i:i + chunk]) + "].\n"
        chunks.append((f"c{i // chunk}", body))
    res = run_cases(PROP, chunks, header_extra=HEADER)
    for (name, n, bad, err), i in zip(res, range(0, len(cases), chunk)):
        if err:
            ck.broken.append(("correspondence", f"cases file {name} did not evaluate: {err[-300:]}"))
            continue
        if n != len(cases[i:i + chunk]):
            ck.broken.append(("correspondence", f"cases file {name}: {n} cases evaluated, {len(cases[i:i + chunk])} written"))
        for b in bad:
            c = cases[i + b]
            what = {"base": f"Object3d.unique ({c.get('cls')})", "rot": f"Rotation.unique ({c.get('cls')}, antipodal={c.get('antipodal')})",
                    "mil": f"Miller.unique(use_symmetry=True) ({c.get('pg')})", "npu": "np.unique(axis=0)",
                    "round": "np.round"}[c["k"]]
            ck.disagreement(f"model and implementation differ on {what}", c)


# the witness inputs of Proofs/C17Witness.v as they must come out of the
# implementation: base_order / miller_sym are the witnesses of the remaining
# _refuted theorems (idx in key order; orbit-key order); the idx of base_zero,
# the inv of base_order, the idx of miller_sym and the arity on an empty
# Rotation are the values AFTER the repairs (Examples C17_base_repaired_examples,
# C17_miller_sym_index_example, Theorem C17_rotation_arity)
WITNESS = {
    "base_order": {"out": [[3.0, 0.0, 0.0], [1.0, 0.0, 0.0], [2.0, 0.0, 0.0]], "idx": [1, 3, 0], "inv": [0, 1, 0, 2]},
    "base_zero": {"out": [[5.0, 0.0, 0.0]], "idx": [1], "inv": [0]},
    "miller_sym": {"out": [[0.0, 0.0, 1.0], [0.0, 1.0, 0.0], [1.0, 0.0, 0.0]], "idx": [3, 1, 0]},
    "rot_empty_arity": {"Rotation": 3},
}


def run(tier, seed):
    ck = Check(PROP, tier, seed)
    ck.trusted += ["translator unit tools/translate/units_c17.py (differentiator list, decimals, key columns from the source)",
                   "np.unique(axis=0, return_index, return_inverse) = sorted distinct rows / first occurrence / inverse "
                   "(assumed; tested differentially each run, incl. -0.0 vs 0.0)",
                   "np.round(x, d) = rint(x*10^d)/10^d (assumed; tested bit-exactly each run)",
                   "FInst float evaluator (correspondence only)"]
    ck.assumptions += ["theorems hold for every total order on keys and every rounding function; the tie between "
                       "np.round and exact decimal rounding near the 1e-10/1e-12 thresholds is correspondence-only",
                       "flatten() order is taken from the implementation (C16 covers it)",
                       "Rotation.__getitem__ re-normalisation (<= 1 ulp) is not modelled"]
    if not ck.step_sanity():
        return ck.finish()
    ck.step_prove(["c17", "quatkernels", "conversions"], "Props/C17.v", extra=["Model/C17Unique.vo"])
    n = 300 if tier == "quick" else 4000
    corpus = []
    for fn in sorted(glob.glob(os.path.join(VERIF, "corpus", PROP, "*.json"))):
        corpus.append(json.load(open(fn)))
    out = run_impl("c17.py", {"seed": seed, "n": n, "corpus": corpus,
                              "exhaustive": 3 if tier == "quick" else 4})
    ck.cov["bounded_exhaustive"] = ("all Vector3d lists and all Rotation lists (antipodal True and False) of length <= "
                            f"{3 if tier == 'quick' else 4} over 6-symbol alphabets (zero, value, negated, +3e-11, "
                            "+1e-10, other / q, -q, improper q, other, +1.3e-13, +1.3e-11); all Miller(use_symmetry, "
                            "4/mmm) lists of length <= 3 over 5 vectors -- validation of the model, not the theorem")
    cases = out["cases"]
    for c in cases:
        ck.count("case/" + c["k"], json.dumps(c, sort_keys=True)[:3000])
    for s, v in out["strata"].items():
        ck.cov["strata"][s] = v
    for c in cases[3:6]:
        ck.sample({k: c[k] for k in list(c)[:5]})
    correspond(ck, cases)
    # smallest failing input of each signature first (it becomes the replay file)
    for f in sorted(out["fails"], key=lambda f: len(json.dumps(f["replay"]))):
        ck.failure(f["sig"], f["what"], f["replay"])
    # replay of the Coq witnesses / examples on the implementation
    rep = []
    for k, want in WITNESS.items():
        got = out["witness"].get(k)
        if got != want:
            rep.append(k)
    ck.cov["refuted_witnesses_reproduce"] = not rep
    if rep:
        ck.notes.append("implementation no longer returns the values of the Coq witness(es)/example(s): "
                        + ", ".join(rep))
        ck.cov["refuted_witnesses_not_reproduced"] = rep
    ck.cov["partial_or_refuted"] = [t for t in ck.obligations if t.endswith(("_refuted", "_partial"))]
    ck.cov["rule"] = ("collections of 1..24 elements in 1-3 dimensional shapes; elements drawn from exact "
                      "duplicates, negated/antipodal copies, flag flips, exact and near-zero rows, random values, "
                      "and decimal grid points perturbed by k*1e-10 + {0, 1e-12, 3e-11, 4.9e-11} (vectors/"
                      "quaternions, both sides of the round(10) threshold) or by 1e-13..1e-9 on one quaternion "
                      "component (both sides of the round(12) threshold of the differentiators); classes "
                      "Vector3d/Quaternion/Miller, Rotation/Orientation/Misorientation (antipodal True/False, both "
                      "quaternion backends), Miller(use_symmetry) for 6 point groups with symmetry-equivalent "
                      "copies; every case is compared Coq-model vs implementation (bit-exact values, exact index "
                      "arrays) and judged by an exact-rational reference of the documented equality; distinct = "
                      "distinct case payload")
    return ck.finish()


def replay(path):
    d = json.load(open(path))
    print(json.dumps(d, indent=1)[:3000])
    rep = d.get("replay")
    if isinstance(rep, dict) and ("cls" in rep):
        out = run_impl("c17.py", {"replay": rep})
        for f in out["fails"]:
            print(f"REPRODUCED: {f['sig']}: {f['what']}")
        if not out["fails"]:
            print("not reproduced on the current tree")
        return 1 if out["fails"] else 0
    return run("quick", d.get("seed", 0))
